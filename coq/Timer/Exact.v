(* From the wake-up invariant: timers are never woken early, no event overtakes a live
   deadline, the event that wakes a timer is stamped exactly with its deadline, and a run
   cannot end while a timer is live. *)
From Coq Require Import List NArith Bool Lia Sorting.Sorted ZifyBool.
From DesVerif Require Import Timer.Driver Timer.QueueLemmas Timer.Inv.
Import ListNotations.
Open Scope N_scope.

(* the timer entry [id] is registered under deadline d *)
Definition live (dr : driver) (id d : N) : Prop := exists es, In (d, es) (pending dr) /\ In id es.

Definition op_id (o : dop) : N :=
  match o with Register i _ => i | DropEntry i _ => i | ResetEntry i _ _ => i end.

(* the Sleep that owns entry [id] is neither dropped, reset nor registered again *)
Definition untouched (id : N) (tr : list event) : Prop :=
  forall e o, In e tr -> In o (ev_ops e) -> op_id o <> id.

Lemma live_ents dr id d : sorted (pending dr) -> (live dr id d <-> In id (ents_at d (pending dr))).
Proof.
  intros Hs. split.
  - intros (es & Hin & Hid). rewrite (in_ents_at _ _ _ Hs Hin). exact Hid.
  - intros H. exists (ents_at d (pending dr)). split; [|exact H].
    apply ents_at_in. intros E. rewrite E in H. contradiction.
Qed.

(* ---- never early ---- *)
Lemma never_early now dr d es : In (d, es) (fst (activate now dr)) -> d <= now.
Proof.
  unfold activate. destruct (q_bump now (pending dr)) as [w rest] eqn:Eb. cbn [fst]. intros Hin.
  destruct (q_bump_spec _ _ _ _ Eb) as (_ & Hall & _). rewrite Forall_forall in Hall.
  exact (Hall _ Hin).
Qed.

(* ... and bump takes every due slot *)
Lemma bump_takes_all_due now dr d es : sorted (pending dr) -> In (d, es) (pending dr) -> d <= now ->
  In (d, es) (fst (activate now dr)).
Proof.
  unfold activate. destruct (q_bump now (pending dr)) as [w rest] eqn:Eb. cbn [fst]. intros Hs Hin Hle.
  destruct (q_bump_spec _ _ _ _ Eb) as (Hp & _ & _). rewrite Hp in Hin.
  apply in_app_or in Hin. destruct Hin as [Hin|Hin]; [exact Hin|].
  pose proof (q_bump_rest_future _ _ _ _ Hs Eb _ Hin) as Hf. cbn [fst] in Hf. lia.
Qed.

Lemma activate_keeps_future now dr d es : In (d, es) (pending dr) -> now < d ->
  In (d, es) (pending (snd (activate now dr))).
Proof.
  unfold activate. destruct (q_bump now (pending dr)) as [w rest] eqn:Eb. cbn [snd pending]. intros Hin Hlt.
  destruct (q_bump_spec _ _ _ _ Eb) as (Hp & Hall & _). rewrite Hp in Hin.
  apply in_app_or in Hin. destruct Hin as [Hin|Hin]; [|exact Hin].
  rewrite Forall_forall in Hall. specialize (Hall _ Hin). cbn [fst] in Hall. lia.
Qed.

(* ---- operations on other timers leave an entry alone ---- *)
Lemma apply_op_keeps dr o x a : sorted (pending dr) -> In a (ents_at x (pending dr)) -> op_id o <> a ->
  In a (ents_at x (pending (apply_op dr o))).
Proof.
  intros Hs Ha Hne. destruct o as [id d|id d|id d d']; cbn [op_id] in Hne;
    cbn [apply_op register drop_entry set_pending pending].
  - apply ents_at_add_keeps; assumption.
  - apply ents_at_remove_keeps; [exact Ha|]. intros E; apply Hne; symmetry; exact E.
  - apply reset_ents_keeps; [exact Hs|exact Ha|]. intros E; apply Hne; symmetry; exact E.
Qed.

Lemma apply_ops_keeps t ops dr x a : Mid t dr -> ops_wf t ops ->
  (forall o, In o ops -> op_id o <> a) -> In a (ents_at x (pending dr)) ->
  In a (ents_at x (pending (apply_ops ops dr))).
Proof.
  unfold apply_ops, ops_wf. revert dr. induction ops as [|o r IH]; intros dr Hm Hwf Hne Ha; cbn [fold_left]; [exact Ha|].
  inversion Hwf as [|? ? Ho Hr]; subst. apply IH.
  - apply apply_op_mid; assumption.
  - exact Hr.
  - intros o' Ho'. apply Hne. right; exact Ho'.
  - apply apply_op_keeps; [exact (mid_sorted _ _ Hm)|exact Ha|apply Hne; left; reflexivity].
Qed.

Lemma deactivate_pending dr : pending (fst (deactivate true dr)) = prune (pending dr).
Proof.
  unfold deactivate, q_next. destruct (front_time (prune (pending dr))) as [t|]; [|reflexivity].
  destruct (earlier t (next_wakeup dr)); reflexivity.
Qed.

(* ---- one event, seen from one live entry ---- *)
Lemma event_body_live t ops dr id d : Pre t dr -> ops_wf t ops -> live dr id d ->
  (forall o, In o ops -> op_id o <> id) -> t <= d ->
  (t = d /\ exists es, In (d, es) (fst (event_body true t ops dr)) /\ In id es) \/
  (t < d /\ live (snd (event_body true t ops dr)) id d).
Proof.
  intros Hpre Hwf (es & Hin & Hid) Hne Hle. unfold event_body.
  pose proof (activate_mid t dr Hpre) as Hm.
  destruct (N.eq_dec t d) as [->|Hneq].
  - left. split; [reflexivity|]. exists es. split; [|exact Hid].
    pose proof (bump_takes_all_due d dr d es (pre_sorted _ _ Hpre) Hin (N.le_refl d)) as Hb.
    destruct (activate d dr) as [w d1]. cbn [fst] in *. exact Hb.
  - right. assert (Hlt : t < d) by lia. split; [exact Hlt|].
    pose proof (activate_keeps_future t dr d es Hin Hlt) as Hk.
    destruct (activate t dr) as [w d1]. cbn [snd] in *.
    assert (Ha : In id (ents_at d (pending d1))).
    { rewrite (in_ents_at _ _ _ (mid_sorted _ _ Hm) Hk). exact Hid. }
    pose proof (apply_ops_keeps t ops d1 d id Hm Hwf Hne Ha) as Ha2.
    pose proof (apply_ops_mid t ops d1 Hm Hwf) as Hm2.
    set (d2 := apply_ops ops d1) in *.
    assert (Hne2 : ents_at d (pending d2) <> []) by (intros E; rewrite E in Ha2; contradiction).
    exists (ents_at d (pending d2)). split; [|exact Ha2].
    rewrite deactivate_pending. apply prune_keeps_live; [|exact Hne2]. apply ents_at_in. exact Hne2.
Qed.

(* the time of the event that is executed *)
Lemma step_event_covered st e id d : Inv (fst st) (snd st) -> ev_valid st e -> live (snd st) id d -> d < TMAX ->
  fst (fst (step_event true st e)) <= d.
Proof.
  destruct st as [now dr]. cbn [fst snd]. intros [_ Hw] Hv (es & Hin & Hid) Hfin.
  destruct (Hw d es Hin) as (w0 & Hw0 & _ & Hle); [intros E; rewrite E in Hid; contradiction|exact Hfin|].
  destruct e as [t ops|ops]; cbn [ev_valid fst snd] in Hv; cbn [step_event].
  - destruct Hv as (_ & Hsc & _). specialize (Hsc w0 Hw0).
    destruct (event_body true t ops dr) as [w dr']. cbn [fst]. lia.
  - destruct Hv as (w & Hm & _). rewrite Hm. destruct (lmin_spec _ _ Hm) as [_ Hmin]. specialize (Hmin w0 Hw0).
    destruct (wakeup_event true w ops dr) as [wk dr']. cbn [fst]. lia.
Qed.

Lemma step_event_live st e id d : Inv (fst st) (snd st) -> ev_valid st e -> live (snd st) id d -> d < TMAX ->
  (forall o, In o (ev_ops e) -> op_id o <> id) ->
  let t := fst (fst (step_event true st e)) in
  (t = d /\ exists es, In (d, es) (snd (step_event true st e)) /\ In id es) \/
  (t < d /\ live (snd (fst (step_event true st e))) id d).
Proof.
  intros Hinv Hv Hl Hfin Hne. pose proof (step_event_covered st e id d Hinv Hv Hl Hfin) as Hle.
  destruct st as [now dr]. cbn [fst snd] in *.
  destruct e as [t ops|ops]; cbn [ev_valid fst snd ev_ops] in Hv, Hne; cbn [step_event] in *.
  - destruct Hv as (_ & Hsc & Hwf).
    pose proof (event_body_live t ops dr id d (inv_pre_other _ _ _ Hinv Hsc) Hwf Hl Hne) as H.
    destruct (event_body true t ops dr) as [w dr']. cbn [fst snd] in *. exact (H Hle).
  - destruct Hv as (w & Hm & Hwf). rewrite Hm in *. unfold wakeup_event in *.
    assert (Hl' : live (sched_fire w dr) id d) by exact Hl.
    pose proof (event_body_live w ops _ id d (inv_pre_wake _ _ _ Hinv Hm) Hwf Hl' Hne) as H.
    destruct (event_body true w ops (sched_fire w dr)) as [wk dr']. cbn [fst snd] in *. exact (H Hle).
Qed.

(* ---- woken exactly at the deadline ---- *)
Lemma step_event_exact st e d es : Inv (fst st) (snd st) -> ev_valid st e ->
  In (d, es) (snd (step_event true st e)) -> es <> [] -> d < TMAX -> fst (fst (step_event true st e)) = d.
Proof.
  intros Hinv Hv Hin Hne Hfin.
  assert (Hpend : In (d, es) (pending (snd st)) /\ d <= fst (fst (step_event true st e))).
  { destruct st as [now dr]. cbn [fst snd] in *.
    destruct e as [t ops|ops]; cbn [ev_valid fst snd] in Hv; cbn [step_event] in *.
    - unfold event_body in *. pose proof (never_early t dr d es) as He.
      unfold activate in *. destruct (q_bump t (pending dr)) as [w rest] eqn:Eb. cbn [fst snd] in *.
      destruct (q_bump_spec _ _ _ _ Eb) as (Hp & _ & _).
      split; [rewrite Hp; apply in_or_app; left; exact Hin|exact (He Hin)].
    - destruct Hv as (w & Hm & _). rewrite Hm in *. unfold wakeup_event, event_body in *.
      pose proof (never_early w (sched_fire w dr) d es) as He.
      unfold activate in *. cbn [sched_fire pending] in *.
      destruct (q_bump w (pending dr)) as [wk rest] eqn:Eb. cbn [fst snd] in *.
      destruct (q_bump_spec _ _ _ _ Eb) as (Hp & _ & _).
      split; [rewrite Hp; apply in_or_app; left; exact Hin|exact (He Hin)]. }
  destruct Hpend as [Hp Hle].
  assert (Hl : live (snd st) (hd 0 es) d).
  { exists es. split; [exact Hp|]. destruct es; [contradiction|left; reflexivity]. }
  pose proof (step_event_covered st e _ d Hinv Hv Hl Hfin). lia.
Qed.

Theorem log_exact tr : forall st, Inv (fst st) (snd st) -> valid_trace st tr ->
  forall t d es, In (t, (d, es)) (snd (run_trace true st tr)) -> es <> [] -> d < TMAX -> t = d.
Proof.
  induction tr as [|e r IH]; intros st Hinv Hv t d es Hin Hne Hfin; [contradiction|].
  destruct Hv as [Hev Hr]. rewrite run_trace_cons in Hin.
  pose proof (step_event_inv st e Hinv Hev) as Hi.
  pose proof (step_event_exact st e d es Hinv Hev) as Hx.
  destruct (step_event true st e) as [[t0 dr'] w]. cbn [fst snd] in *.
  specialize (IH (t0, dr') Hi Hr t d es).
  destruct (run_trace true (t0, dr') r) as [[now' dr''] lg]. cbn [fst snd] in *.
  apply in_app_or in Hin. destruct Hin as [Hin|Hin]; [|exact (IH Hin Hne Hfin)].
  apply in_map_iff in Hin. destruct Hin as (s & Heq & Hs). injection Heq as <- ->.
  exact (Hx Hs Hne Hfin).
Qed.

(* ---- never late, never lost ---- *)
Theorem never_late_never_lost tr : forall st id d,
  Inv (fst st) (snd st) -> valid_trace st tr -> live (snd st) id d -> d < TMAX -> untouched id tr ->
  (exists es, In (d, (d, es)) (snd (run_trace true st tr)) /\ In id es) \/
  (live (snd (fst (run_trace true st tr))) id d /\ fst (fst (run_trace true st tr)) < d /\
   exists w, In w (scheduled (snd (fst (run_trace true st tr)))) /\ fst (fst (run_trace true st tr)) <= w /\ w <= d).
Proof.
  induction tr as [|e r IH]; intros st id d Hinv Hv Hl Hfin Hun.
  - right. cbn [run_trace fst snd]. split; [exact Hl|].
    destruct Hl as (es & Hin & Hid). destruct Hinv as [Hm Hw].
    assert (Hne : es <> []) by (intros E; rewrite E in Hid; contradiction).
    split; [exact (mid_future _ _ Hm d es Hin Hne)|exact (Hw d es Hin Hne Hfin)].
  - destruct Hv as [Hev Hr]. rewrite run_trace_cons.
    pose proof (step_event_inv st e Hinv Hev) as Hi.
    assert (Hne : forall o, In o (ev_ops e) -> op_id o <> id) by (intros o Ho; apply (Hun e o); [left; reflexivity|exact Ho]).
    pose proof (step_event_live st e id d Hinv Hev Hl Hfin Hne) as Hs. cbn zeta in Hs.
    destruct (step_event true st e) as [[t0 dr'] w]. cbn [fst snd] in *.
    assert (Hun' : untouched id r) by (intros e' o He' Ho; apply (Hun e' o); [right; exact He'|exact Ho]).
    specialize (IH (t0, dr') id d Hi Hr).
    destruct (run_trace true (t0, dr') r) as [[now' dr''] lg]. cbn [fst snd] in *.
    destruct Hs as [(-> & es & Hin & Hid)|(Hlt & Hl')].
    + left. exists es. split; [|exact Hid]. apply in_or_app. left.
      apply in_map_iff. exists (d, es). split; [reflexivity|exact Hin].
    + destruct (IH Hl' Hfin Hun') as [(es & Hin & Hid)|H]; [|right; exact H].
      left. exists es. split; [|exact Hid]. apply in_or_app. right. exact Hin.
Qed.

(* the runtime stops only when the event set is empty: a completed run has woken every
   timer that was left alone, by an event stamped exactly with its deadline *)
Corollary complete_run_wakes_at_deadline tr st id d :
  Inv (fst st) (snd st) -> valid_trace st tr -> live (snd st) id d -> d < TMAX -> untouched id tr ->
  scheduled (snd (fst (run_trace true st tr))) = [] ->
  exists es, In (d, (d, es)) (snd (run_trace true st tr)) /\ In id es.
Proof.
  intros Hinv Hv Hl Hfin Hun Hnil.
  destruct (never_late_never_lost tr st id d Hinv Hv Hl Hfin Hun) as [H|(_ & _ & w & Hw & _)]; [exact H|].
  rewrite Hnil in Hw. contradiction.
Qed.
