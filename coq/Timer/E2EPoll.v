(* End-to-end argument, fragment {sleep, sleep_until, log}: one poll of a task inside an event
   of its module, and the executor's run over the queue of woken / spawned tasks. *)
From Coq Require Import List Arith NArith Bool Lia Sorting.Sorted Permutation ZifyBool.
From DesVerif Require Import CQueue.Model CQueue.Spec CQueue.SpecProps Timer.Driver Timer.QueueLemmas Timer.Inv
  Timer.Futures Timer.FutureLaws Timer.Model Timer.Compose Timer.EvSet Timer.Frag Timer.E2EInv.
Import ListNotations.
Open Scope N_scope.

(* what is known of the tasks that are about to be polled at instant t in module m *)
Definition runnable (ts : list task) (t m : N) (k : nat) : Prop :=
  exists tk, nth_error ts k = Some tk /\ t_mod tk = m /\
    ((unspawned tk /\ t_start tk = t) \/ exists s, blocked_sleep tk = Some s /\ deadline s = t).

Lemma waker_of_cons own id k id' : waker_of ((id, k) :: own) id' = if id =? id' then Some k else waker_of own id'.
Proof. reflexivity. Qed.

Lemma blocked_sleep_cur tk s : blocked_sleep tk = Some s -> t_cur tk = Some (AwSleep s).
Proof. unfold blocked_sleep. destruct (t_cur tk) as [[]|]; try discriminate. intros H; injection H as ->; reflexivity. Qed.

Lemma apply_ops_rest_nw ops : forall dr, next_wakeup (apply_ops ops dr) = next_wakeup dr /\ scheduled (apply_ops ops dr) = scheduled dr.
Proof.
  unfold apply_ops. induction ops as [|o r IH]; intros dr; cbn [fold_left]; [split; reflexivity|].
  destruct (IH (apply_op dr o)) as [H1 H2]. destruct (apply_op_rest dr o) as [E1 E2]. rewrite H1, H2, E1, E2. split; reflexivity.
Qed.

Lemma q_add_alllive id d' p : (forall d es, In (d, es) p -> es <> []) ->
  forall d es, In (d, es) (q_add id d' p) -> es <> [].
Proof.
  induction p as [|[t0 es0] r IH]; intros Ha d es Hin; cbn [q_add] in Hin.
  - destruct Hin as [H|[]]. injection H as _ H2. rewrite <- H2. discriminate.
  - destruct (d' <? t0).
    + destruct Hin as [H|Hin]; [injection H as _ H2; rewrite <- H2; discriminate|exact (Ha d es Hin)].
    + destruct (d' =? t0).
      * destruct Hin as [H|Hin]; [|exact (Ha d es (or_intror Hin))]. injection H as _ H2. rewrite <- H2.
        intros Hc. apply app_eq_nil in Hc. destruct Hc as [_ Hc]. discriminate.
      * destruct Hin as [H|Hin]; [exact (Ha d es (or_introl H))|].
        apply (IH (fun d1 es1 H1 => Ha d1 es1 (or_intror H1)) d es Hin).
Qed.

Section PollStep.
  Variables (ts0 ts : list task) (own : wakers) (nid : N) (dr : driver) (t m : N) (k : nat) (r : list nat).
  Variables (tk tk0 : task) (L : list N) (Sx : list step) (o : list N) (b : option (sleep * list step)) (n : N) (dr' : driver).
  Variable before : list N.

  Hypothesis Hbase : Base ts0 ts own nid.
  Hypothesis Hnd : NoDup (k :: r).
  Hypothesis Hmid : Mid t dr.
  Hypothesis Htie : Tie ts own nid (k :: r) m dr.
  Hypothesis Hk : nth_error ts k = Some tk.
  Hypothesis Hk0 : nth_error ts0 k = Some tk0.
  Hypothesis Hmod : t_mod tk = m.
  Hypothesis Hmod0 : t_mod tk = t_mod tk0.
  Hypothesis Hst0 : t_start tk = t_start tk0.
  Hypothesis HS : Forall frag_step Sx.
  Hypothesis Hrun : frag_run t nid Sx dr = (o, b, n, dr').
  Hypothesis Hfr : forall x id, In id (ents_at x (pending dr)) -> id < nid.
  Hypothesis Hexp : expected tk0 = L ++ exp_run t Sx.

  Let tk' := {| t_mod := t_mod tk; t_start := t_start tk; t_steps := fr_steps b; t_cur := fr_cur b; t_iv := None;
                t_log := L ++ o; t_fin := match fr_steps b with [] => true | _ => false end |}.
  Let ts' := set_nth k tk' ts.
  Let own' := note_polls true k before (held_sleeps (fr_cur b) None ++ []) own.

  Lemma ps_cases : nid <= n /\
    ((b = None /\ exp_run t Sx = o) \/
     exists s st rest, b = Some (s, st :: rest) /\ Forall frag_step rest /\
        exp_run t Sx = o ++ deadline s :: exp_run (deadline s) rest /\
        t < deadline s /\ handle s = Some (deadline s) /\ nid <= sid s /\ sid s < n).
  Proof.
    pose proof (frag_run_spec t Sx HS nid dr Hmid Hfr) as H. rewrite Hrun in H. revert H. generalize b. intros b0 (Hn & _ & _ & Hb).
    split; [exact Hn|]. destruct b0 as [[s l]|]; [right|left; split; [reflexivity|exact Hb]].
    destruct Hb as (st & rest & -> & H). exists s, st, rest. split; [reflexivity|exact H].
  Qed.

  Lemma ps_acts : acts t dr dr'.
  Proof. pose proof (frag_run_spec t Sx HS nid dr Hmid Hfr) as H. rewrite Hrun in H. exact (proj1 (proj2 H)). Qed.

  Lemma ps_ents x : ents_at x (pending dr') =
    ents_at x (pending dr) ++ match b with Some (s, _) => if x =? deadline s then [sid s] else [] | None => [] end.
  Proof. pose proof (frag_run_spec t Sx HS nid dr Hmid Hfr) as H. rewrite Hrun in H. exact (proj1 (proj2 (proj2 H)) x). Qed.

  Lemma ps_own : own' = match b with Some (s, _) => (sid s, k) :: own | None => own end.
  Proof.
    unfold own', note_polls. destruct ps_cases as (_ & [(Eb & _)|(s & st & rest & Eb & _ & _ & _ & Hh & _)]); rewrite Eb;
      cbn [fr_cur held_sleeps app fold_left]; [reflexivity|].
    unfold note_poll. rewrite Hh, andb_false_r. reflexivity.
  Qed.

  Lemma ps_tstate : tstate tk0 tk'.
  Proof.
    unfold tk'. destruct ps_cases as (_ & [(Eb & Ho)|(s & st & rest & Eb & Hf & He & Ht & Hh & _)]); rewrite Eb.
    - apply TDn; cbn [t_mod t_start t_steps t_cur t_iv t_fin t_log fr_steps fr_cur]; try assumption; try reflexivity.
      rewrite Hexp, Ho. reflexivity.
    - apply (TBl _ _ s st rest); cbn [t_mod t_start t_steps t_cur t_iv t_fin t_log fr_steps fr_cur]; try assumption; try reflexivity.
      rewrite Hexp, He, app_assoc. reflexivity.
  Qed.

  Lemma ps_nth_other k' : k' <> k -> nth_error ts' k' = nth_error ts k'.
  Proof. intros H. unfold ts'. apply nth_set_nth_other. intros E; apply H; symmetry; exact E. Qed.

  Lemma ps_nth_same : nth_error ts' k = Some tk'.
  Proof. unfold ts'. eapply nth_set_nth_same. exact Hk. Qed.

  (* the new task is blocked iff the poll blocked, on the Sleep the poll created *)
  Lemma ps_blocked' s : blocked_sleep tk' = Some s ->
    exists st rest, b = Some (s, st :: rest) /\ t < deadline s /\ nid <= sid s /\ sid s < n.
  Proof.
    unfold tk', blocked_sleep. cbn [t_cur].
    destruct ps_cases as (_ & [(Eb & _)|(s' & st & rest & Eb & _ & _ & Ht & _ & H1 & H2)]); rewrite Eb; cbn [fr_cur]; [discriminate|].
    intros H; injection H as <-. exists st, rest. repeat split; assumption.
  Qed.

  Lemma ps_base : Base ts0 ts' own' n.
  Proof.
    destruct Hbase as [Hst Hin Hids Hdis]. destruct ps_cases as (Hn & _). constructor.
    - unfold ts'. eapply Forall2_set_nth; [exact Hst|exact Hk0|exact ps_tstate].
    - exact Hin.
    - intros k' tk1 s Hk' Hbl. rewrite ps_own. destruct (Nat.eq_dec k' k) as [->|Hne].
      + rewrite ps_nth_same in Hk'. injection Hk' as <-. destruct (ps_blocked' s Hbl) as (st & rest & Eb & _ & _ & Hlt).
        rewrite Eb. split; [exact Hlt|]. rewrite waker_of_cons, N.eqb_refl. reflexivity.
      + rewrite (ps_nth_other k' Hne) in Hk'. destruct (Hids k' tk1 s Hk' Hbl) as [H1 H2]. split; [lia|].
        destruct ps_cases as (_ & [(Eb & _)|(s' & st & rest & Eb & _ & _ & _ & _ & Hge & _)]); rewrite Eb; [exact H2|].
        rewrite waker_of_cons. replace (sid s' =? sid s) with false by lia. exact H2.
    - intros k1 k2 tk1 tk2 s1 s2 H1 H2 B1 B2 E.
      assert (Hfresh : forall k' tk1 s, k' <> k -> nth_error ts' k' = Some tk1 -> blocked_sleep tk1 = Some s -> sid s < nid).
      { intros k' tk3 s Hne Hk' Hbl. rewrite (ps_nth_other k' Hne) in Hk'. exact (proj1 (Hids k' tk3 s Hk' Hbl)). }
      assert (Hnew : forall tk1 s, nth_error ts' k = Some tk1 -> blocked_sleep tk1 = Some s -> nid <= sid s).
      { intros tk3 s Hk' Hbl. rewrite ps_nth_same in Hk'. injection Hk' as <-.
        destruct (ps_blocked' s Hbl) as (st & rest & _ & _ & Hge & _). exact Hge. }
      destruct (Nat.eq_dec k1 k) as [->|N1], (Nat.eq_dec k2 k) as [->|N2]; [reflexivity| | |].
      + pose proof (Hnew _ _ H1 B1). pose proof (Hfresh _ _ _ N2 H2 B2). lia.
      + pose proof (Hnew _ _ H2 B2). pose proof (Hfresh _ _ _ N1 H1 B1). lia.
      + rewrite (ps_nth_other k1 N1) in H1. rewrite (ps_nth_other k2 N2) in H2. exact (Hdis _ _ _ _ _ _ H1 H2 B1 B2 E).
  Qed.

  Lemma ps_mid : Mid t dr'.
  Proof. exact (acts_mid _ _ _ ps_acts Hmid). Qed.

  Lemma ps_tie : Tie ts' own' n r m dr'.
  Proof.
    destruct Htie as [He Ht].
    assert (Hkr : ~ In k r) by (inversion Hnd; assumption).
    constructor.
    - intros k' tk1 s Hk' Hbl Hm Hq. rewrite ps_ents. destruct (Nat.eq_dec k' k) as [->|Hne].
      + rewrite ps_nth_same in Hk'. injection Hk' as <-. destruct (ps_blocked' s Hbl) as (st & rest & Eb & _).
        rewrite Eb, N.eqb_refl. apply in_or_app. right. left. reflexivity.
      + rewrite (ps_nth_other k' Hne) in Hk'. apply in_or_app. left.
        apply (He k' tk1 s Hk' Hbl Hm). intros [E|E]; [apply Hne; symmetry; exact E|exact (Hq E)].
    - intros d id Hin. rewrite ps_ents in Hin. apply in_app_or in Hin. destruct Hin as [Hold|Hnew].
      + destruct (Ht d id Hold) as (k' & tk1 & s & Hk' & Hbl & Hm & Hq & E1 & E2).
        assert (Hne : k' <> k) by (intros ->; apply Hq; left; reflexivity).
        exists k', tk1, s. rewrite (ps_nth_other k' Hne). repeat split; try assumption.
        intros E; apply Hq; right; exact E.
      + destruct ps_cases as (_ & [(Eb & _)|(s & st & rest & Eb & _)]); rewrite Eb in Hnew; [contradiction|].
        destruct (d =? deadline s) eqn:E; [|contradiction]. destruct Hnew as [<-|[]].
        exists k, tk', s. rewrite ps_nth_same. unfold tk', blocked_sleep. cbn [t_cur t_mod]. rewrite Eb. cbn [fr_cur].
        repeat split; try assumption; try reflexivity. lia.
  Qed.

  Lemma ps_live : NwLive dr -> NwLive dr'.
  Proof.
    intros Hn w0 Hw. destruct ps_acts as (ops & _ & Eq). rewrite Eq in Hw.
    rewrite (proj1 (apply_ops_rest_nw ops dr)) in Hw. pose proof (Hn w0 Hw) as Hne.
    rewrite ps_ents. intros Hc. apply app_eq_nil in Hc. exact (Hne (proj1 Hc)).
  Qed.

  Lemma ps_spawned : ~ unspawned tk'.
  Proof.
    unfold tk', unspawned. cbn [t_cur t_fin].
    destruct ps_cases as (_ & [(Eb & _)|(s & st & rest & Eb & _)]); rewrite Eb; cbn [fr_cur fr_steps]; intros [H1 H2]; discriminate.
  Qed.

  Lemma ps_runnable k' : In k' r -> runnable ts t m k' -> runnable ts' t m k'.
  Proof.
    intros Hin (tk1 & H1 & H2). exists tk1. split; [|exact H2].
    rewrite ps_nth_other; [exact H1|]. intros ->. inversion Hnd; contradiction.
  Qed.
End PollStep.

(* ---- the work that is left: steps to go, plus one for a task that is still to be spawned ---- *)
Definition wt (tk : task) : nat :=
  (length (t_steps tk) + match t_cur tk, t_fin tk with None, false => 1 | _, _ => 0 end)%nat.

Definition work (ts : list task) : nat := fold_right (fun tk n => (wt tk + n)%nat) 0%nat ts.

Lemma work_set_nth ts : forall k tk tk', nth_error ts k = Some tk ->
  (work (set_nth k tk' ts) + wt tk = work ts + wt tk')%nat.
Proof.
  induction ts as [|a r IH]; intros k tk tk' Hk; [destruct k; discriminate|].
  destruct k as [|k]; cbn [nth_error set_nth work fold_right] in *.
  - injection Hk as ->. fold (work r). lia.
  - fold (work r) in *. fold (work (set_nth k tk' r)). pose proof (IH k tk tk' Hk). lia.
Qed.

Lemma frag_run_len now steps : forall nid dr, (length (fr_steps (snd (fst (fst (frag_run now nid steps dr))))) <= length steps)%nat.
Proof.
  induction steps as [|st r IH]; intros nid dr; cbn [frag_run]; [cbn; lia|].
  destruct st; cbn [fst snd fr_steps length]; try lia.
  - destruct (now <? dl_of now (SSleep d)); cbn [fst snd fr_steps length]; [lia|].
    specialize (IH (nid + 1) (prep_drv now nid (SSleep d) dr)). destruct (frag_run now (nid + 1) r _) as [[[o b] n] d']. cbn [fst snd] in *. lia.
  - destruct (now <? dl_of now (SSleepUntil t)); cbn [fst snd fr_steps length]; [lia|].
    specialize (IH (nid + 1) (prep_drv now nid (SSleepUntil t) dr)). destruct (frag_run now (nid + 1) r _) as [[[o b] n] d']. cbn [fst snd] in *. lia.
  - destruct (now <? dl_of now (SReset polled d1 d2)); cbn [fst snd fr_steps length]; [lia|].
    specialize (IH (nid + 1) (prep_drv now nid (SReset polled d1 d2) dr)). destruct (frag_run now (nid + 1) r _) as [[[o b] n] d']. cbn [fst snd] in *. lia.
  - specialize (IH (nid + 1) (prep_drv now nid (SDropSleep d) dr)). destruct (frag_run now (nid + 1) r _) as [[[o b] n] d']. cbn [fst snd] in *. lia.
  - specialize (IH nid dr). destruct (frag_run now nid r dr) as [[[o b] n] d']. cbn [fst snd] in *. lia.
Qed.

(* ---- inside an event of module m at instant t, with [q] still to be polled ---- *)
Record MInv (ts0 : list task) (t m : N) (q : list nat) (w : world) : Prop := {
  mi_mail : w_mail w = [];
  mi_base : Base ts0 (w_tasks w) (w_owner w) (w_nid w);
  mi_nodup : NoDup q;
  mi_run : forall k, In k q -> runnable (w_tasks w) t m k;
  mi_mid : Mid t (drv_of w m);
  mi_tie : Tie (w_tasks w) (w_owner w) (w_nid w) q m (drv_of w m);
  mi_live : NwLive (drv_of w m) }.

Lemma poll_task_eq wfix now m k w tk steps cur iv dr nid lg sw mail :
  nth_error (w_tasks w) k = Some tk -> t_fin tk = false ->
  run_steps now m k (t_steps tk) (t_cur tk) (t_iv tk) (drv_of w m) (w_nid w) (t_log tk) (w_mail w) =
    (steps, cur, iv, dr, nid, lg, sw, mail) ->
  let w' := fst (poll_task wfix now m k w) in
  snd (poll_task wfix now m k w) = sw /\ w_fes w' = w_fes w /\ w_now w' = w_now w /\ drv_of w' m = dr /\
  (forall m', (m' =? 0) <> (m =? 0) -> drv_of w' m' = drv_of w m') /\
  w_tasks w' = set_nth k {| t_mod := t_mod tk; t_start := t_start tk; t_steps := steps; t_cur := cur; t_iv := iv;
                            t_log := lg; t_fin := match steps with [] => true | _ => false end |} (w_tasks w) /\
  w_nid w' = nid /\
  w_owner w' = note_polls wfix k (flat_map snd (pending (drv_of w m))) (held_sleeps cur iv ++ sent_by k mail) (w_owner w) /\
  w_mail w' = mail.
Proof.
  intros Hk Hf Hr. cbn zeta. unfold poll_task. rewrite Hk, Hf, Hr. unfold set_drv, drv_of.
  destruct (m =? 0) eqn:Em; cbn [fst snd w_fes w_now w_d0 w_d1 w_tasks w_nid w_owner w_mail];
    (repeat split; try reflexivity); intros m' Hne; destruct (m' =? 0); try reflexivity; contradiction Hne; reflexivity.
Qed.

Lemma tstate_unspawned tk0 tk : tstate tk0 tk -> unspawned tk -> tk = tk0.
Proof.
  intros [->|s st rest _ _ _ _ Hc _ _ _ _|_ _ _ _ _ Hf _] [Hc' Hf']; [reflexivity|rewrite Hc in Hc'; discriminate|rewrite Hf in Hf'; discriminate].
Qed.

Lemma tstate_blocked tk0 tk s : tstate tk0 tk -> init_ok tk0 -> blocked_sleep tk = Some s ->
  exists st rest, t_mod tk = t_mod tk0 /\ t_start tk = t_start tk0 /\ t_steps tk = st :: rest /\ Forall frag_step rest /\
    t_cur tk = Some (AwSleep s) /\ t_iv tk = None /\ t_fin tk = false /\
    expected tk0 = t_log tk ++ deadline s :: exp_run (deadline s) rest.
Proof.
  intros H (_ & I2 & _) Hb. pose proof (blocked_sleep_cur _ _ Hb) as Hc.
  destruct H as [->|s' st rest H1 H2 H3 H4 H5 H6 H7 H8 H9|_ _ _ H4 _ _ _].
  - rewrite I2 in Hc. discriminate.
  - rewrite H5 in Hc. injection Hc as ->. exists st, rest. repeat split; assumption.
  - rewrite H4 in Hc. discriminate.
Qed.

(* one poll *)
Lemma poll_task_minv ts0 t m k r w : MInv ts0 t m (k :: r) w ->
  let w' := fst (poll_task true t m k w) in
  snd (poll_task true t m k w) = false /\ MInv ts0 t m r w' /\
  w_fes w' = w_fes w /\ w_now w' = w_now w /\
  (forall m', (m' =? 0) <> (m =? 0) -> drv_of w' m' = drv_of w m') /\
  (forall k', k' <> k -> nth_error (w_tasks w') k' = nth_error (w_tasks w) k') /\
  length (w_tasks w') = length (w_tasks w) /\ w_nid w <= w_nid w' /\
  (forall tk', nth_error (w_tasks w') k = Some tk' -> ~ unspawned tk') /\
  (work (w_tasks w') + 1 <= work (w_tasks w))%nat.
Proof.
  intros [Hmail Hbase Hnd Hrun Hmid Htie Hlive]. cbn zeta.
  destruct (Hrun k (or_introl eq_refl)) as (tk & Hk & Hmod & Hcase).
  destruct (Forall2_nth _ _ _ _ _ (b_states _ _ _ _ Hbase) Hk) as (tk0 & Hk0 & Hts).
  assert (Hi0 : init_ok tk0).
  { pose proof (b_init _ _ _ _ Hbase) as Hall. rewrite Forall_forall in Hall. apply Hall. eapply nth_error_In; exact Hk0. }
  (* the common shape of both cases *)
  assert (Hgen : exists L Sx, Forall frag_step Sx /\ expected tk0 = L ++ exp_run t Sx /\ t_fin tk = false /\
            t_mod tk = t_mod tk0 /\ t_start tk = t_start tk0 /\ (length Sx + 1 <= wt tk)%nat /\
            run_steps t m k (t_steps tk) (t_cur tk) (t_iv tk) (drv_of w m) (w_nid w) (t_log tk) (w_mail w) =
            run_steps t m k Sx None None (drv_of w m) (w_nid w) L []).
  { destruct Hcase as [(Hun & Hst)|(s & Hbl & Hdl)].
    - pose proof (tstate_unspawned _ _ Hts Hun) as ->. destruct Hi0 as (I1 & I2 & I3 & I4 & I5 & I6).
      exists [], (t_steps tk0). rewrite Hmail, I2, I3, I4. repeat split; try assumption; try reflexivity.
      + unfold expected. rewrite Hst. reflexivity.
      + unfold wt. rewrite I2, I5. lia.
    - destruct (tstate_blocked _ _ _ Hts Hi0 Hbl) as (st & rest & H1 & H2 & H3 & H4 & H5 & H6 & H7 & H8).
      exists (t_log tk ++ [t]), rest. rewrite Hmail, H3, H5, H6. repeat split; try assumption.
      + rewrite H8, Hdl, <- app_assoc. reflexivity.
      + unfold wt. rewrite H3. cbn [length]. lia.
      + apply run_steps_woken. lia. }
  destruct Hgen as (L & Sx & HS & Hexp & Hfin & Hm0 & Hs0 & Hwt & Hrs).
  rewrite (run_steps_frag t m k Sx HS) in Hrs. destruct (frag_run t (w_nid w) Sx (drv_of w m)) as [[[o b] n] dr'] eqn:Efr.
  assert (Hfr : forall x id, In id (ents_at x (pending (drv_of w m))) -> id < w_nid w).
  { intros x id Hin. destruct (tie_task _ _ _ _ _ _ Htie x id Hin) as (k' & tk' & s' & Hk' & Hbl' & _ & _ & E1 & _).
    rewrite <- E1. exact (proj1 (b_ids _ _ _ _ Hbase k' tk' s' Hk' Hbl')). }
  destruct (poll_task_eq true t m k w tk _ _ _ _ _ _ _ _ Hk Hfin Hrs) as (Hsw & Hfes & Hnow & Hdr & Hoth & Htasks & Hnid & Hown & Hml).
  assert (Hnn : w_nid w <= n).
  { exact (proj1 (ps_cases _ _ _ _ _ _ _ _ Hmid HS Efr Hfr)). }
  split; [exact Hsw|]. split; [|repeat split; try assumption].
  - constructor.
    + exact Hml.
    + rewrite Htasks, Hown, Hnid. cbn [sent_by].
      eapply ps_base; eassumption.
    + inversion Hnd; assumption.
    + intros k' Hin. rewrite Htasks.
      eapply ps_runnable; [exact Hnd|exact Hin|exact (Hrun k' (or_intror Hin))].
    + rewrite Hdr.
      eapply ps_mid; eassumption.
    + rewrite Htasks, Hown, Hnid, Hdr. cbn [sent_by].
      eapply ps_tie; eassumption.
    + rewrite Hdr. eapply ps_live; eassumption.
  - intros k' Hne. rewrite Htasks. apply nth_set_nth_other. intros E; apply Hne; symmetry; exact E.
  - rewrite Htasks. apply length_set_nth.
  - rewrite Hnid. exact Hnn.
  - intros tk1 H1. rewrite Htasks, (nth_set_nth_same _ _ _ _ Hk) in H1. injection H1 as <-.
    eapply ps_spawned; eassumption.
  - rewrite Htasks.
    match goal with |- (work (set_nth k ?T _) + 1 <= _)%nat => set (tk' := T) end.
    pose proof (work_set_nth (w_tasks w) k tk tk' Hk) as Hw.
    assert (Hns : ~ unspawned tk') by (eapply ps_spawned; eassumption).
    assert (Hwt' : (wt tk' <= length Sx)%nat).
    { pose proof (frag_run_len t Sx (w_nid w) (drv_of w m)) as Hl. rewrite Efr in Hl. cbn [fst snd] in Hl.
      unfold wt. unfold unspawned in Hns. cbn [tk' t_steps t_cur t_fin] in *.
      destruct (fr_cur b); [lia|]. destruct (match fr_steps b with [] => true | _ :: _ => false end); [lia|].
      exfalso. apply Hns. split; reflexivity. }
    lia.
Qed.

(* the executor's run over the whole queue *)
Lemma run_queue_frag ts0 t m : forall fuel q w, (length q <= fuel)%nat -> MInv ts0 t m q w ->
  let w' := run_queue true fuel t m q w in
  MInv ts0 t m [] w' /\ w_fes w' = w_fes w /\ w_now w' = w_now w /\
  (forall m', (m' =? 0) <> (m =? 0) -> drv_of w' m' = drv_of w m') /\
  (forall k', ~ In k' q -> nth_error (w_tasks w') k' = nth_error (w_tasks w) k') /\
  length (w_tasks w') = length (w_tasks w) /\ w_nid w <= w_nid w' /\
  (forall k tk', In k q -> nth_error (w_tasks w') k = Some tk' -> ~ unspawned tk') /\
  (work (w_tasks w') + length q <= work (w_tasks w))%nat.
Proof.
  induction fuel as [|f IH]; intros q w Hlen Hm; cbn zeta.
  - destruct q; [|cbn [length] in Hlen; lia]. cbn [run_queue].
    refine (conj Hm (conj eq_refl (conj eq_refl (conj (fun _ _ => eq_refl) (conj (fun _ _ => eq_refl) (conj eq_refl (conj _ (conj _ _)))))))); [lia|intros k tk' []|cbn [length]; lia].
  - destruct q as [|k r].
    { cbn [run_queue].
      refine (conj Hm (conj eq_refl (conj eq_refl (conj (fun _ _ => eq_refl) (conj (fun _ _ => eq_refl) (conj eq_refl (conj _ (conj _ _)))))))); [lia|intros k tk' []|cbn [length]; lia]. }
    cbn [run_queue].
    destruct (poll_task_minv ts0 t m k r w Hm) as (Hsw & Hm' & H1 & H2 & H3 & H4 & H5 & H6 & H7 & H8).
    destruct (poll_task true t m k w) as [w1 sw]. cbn [fst snd] in *. subst sw.
    rewrite (no_receivers ts0 (w_tasks w1) m (w_mail w1) (b_states _ _ _ _ (mi_base _ _ _ _ _ Hm')) (b_init _ _ _ _ (mi_base _ _ _ _ _ Hm'))).
    unfold enqueue. cbn [filter]. rewrite app_nil_r.
    cbn [length] in Hlen. destruct (IH r w1 ltac:(lia) Hm') as (G0 & G1 & G2 & G3 & G4 & G5 & G6 & G7 & G8).
    split; [exact G0|]. split; [rewrite G1; exact H1|]. split; [rewrite G2; exact H2|].
    split; [intros m' Hne; rewrite (G3 m' Hne); exact (H3 m' Hne)|].
    split; [|split; [rewrite G5; exact H5|split; [lia|split; [|cbn [length]; lia]]]].
    + intros k' Hn. rewrite G4; [apply H4|]; intros E; apply Hn; [left; symmetry; exact E|right; exact E].
    + intros k' tk' [<-|Hin] Hk'; [|exact (G7 k' tk' Hin Hk')].
      assert (Hkr : ~ In k r) by (pose proof (mi_nodup _ _ _ _ _ Hm) as Hnd; inversion Hnd; assumption).
      rewrite (G4 k Hkr) in Hk'. exact (H7 tk' Hk').
Qed.
