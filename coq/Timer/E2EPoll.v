(* End-to-end argument, fragment of coq/Timer/Frag.v: one poll of a task inside an event
   of its module, and the executor's run over the queue of woken / spawned tasks. *)
From Coq Require Import List Arith NArith Bool Lia Sorting.Sorted Permutation ZifyBool.
From DesVerif Require Import CQueue.Model CQueue.Spec CQueue.SpecProps Timer.Driver Timer.QueueLemmas Timer.Inv
  Timer.Futures Timer.FutureLaws Timer.TempOps Timer.Model Timer.Compose Timer.EvSet Timer.Frag Timer.E2EInv.
Import ListNotations.
Open Scope N_scope.

(* what is known of the tasks that are about to be polled at instant t in module m: spawned
   now, blocked on a future whose timer is due now, or blocked on a receive with a message waiting *)
Definition runnable (ts : list task) (mail : mailbox) (t m : N) (k : nat) : Prop :=
  exists tk, nth_error ts k = Some tk /\ t_mod tk = m /\
    ((unspawned tk /\ t_start tk = t) \/
     exists a, t_cur tk = Some a /\ (aw_wake a (t_iv tk) = t \/
                                    exists ch, waits_on (Some a) = Some ch /\ chan m ch mail <> [] /\ t < aw_wake a (t_iv tk))).

(* the arrivals of one module replaced *)
Definition upd (A : N -> arrs) (m : N) (arr : arrs) : N -> arrs := fun m' => if m' =? m then arr else A m'.

Lemma upd_same A m arr : upd A m arr m = arr.
Proof. unfold upd. rewrite N.eqb_refl. reflexivity. Qed.

Lemma upd_other A m arr m' : m' <> m -> upd A m arr m' = A m'.
Proof. intros H. unfold upd. replace (m' =? m) with false by lia. reflexivity. Qed.

Lemma tstate_agree A0 A A' tk0 tk : A (t_mod tk0) = A' (t_mod tk0) -> tstate A0 A tk0 tk -> tstate A0 A' tk0 tk.
Proof.
  intros E [-> H1 H2|a st rest H1 H2 H3 H4 H5 H7 H8 H9 H10 H11 H12 H13 H14|H1 H2 H3 H4 H5 H6 H7].
  - apply TUn; [reflexivity|rewrite <- E; exact H1|rewrite <- E; exact H2].
  - apply (TBl _ _ _ _ a st rest); try assumption; rewrite <- E; assumption.
  - apply TDn; assumption.
Qed.

Lemma waker_of_cons own id k id' : waker_of ((id, k) :: own) id' = if id =? id' then Some k else waker_of own id'.
Proof. reflexivity. Qed.

Lemma apply_ops_rest_nw ops : forall dr, next_wakeup (apply_ops ops dr) = next_wakeup dr /\ scheduled (apply_ops ops dr) = scheduled dr.
Proof.
  unfold apply_ops. induction ops as [|o r IH]; intros dr; cbn [fold_left]; [split; reflexivity|].
  destruct (IH (apply_op dr o)) as [H1 H2]. destruct (apply_op_rest dr o) as [E1 E2]. rewrite H1, H2, E1, E2. split; reflexivity.
Qed.

(* the wakers noted for the Sleeps a task holds when it blocks *)
Lemma note_polls_held k before ss : forall own, Forall (fun s => handle s <> None) ss ->
  forall id, waker_of (note_polls true k before ss own) id = if existsb (N.eqb id) (map sid ss) then Some k else waker_of own id.
Proof.
  unfold note_polls. induction ss as [|s r IH]; intros own Hh id; cbn [fold_left map existsb]; [reflexivity|].
  inversion Hh as [|? ? Hs Hr]; subst. rewrite (IH _ Hr). unfold note_poll.
  destruct (handle s) as [h|]; [|contradiction Hs; reflexivity]. rewrite andb_false_r. rewrite waker_of_cons.
  destruct (existsb (N.eqb id) (map sid r)); [rewrite orb_true_r; reflexivity|]. rewrite orb_false_r.
  rewrite N.eqb_sym. reflexivity.
Qed.

Lemma new_at_in a iv x id : In id (new_at a iv x) <-> exists s, In s (aw_held a iv) /\ sid s = id /\ deadline s = x.
Proof.
  unfold new_at. rewrite in_map_iff. split.
  - intros (s & E & Hin). apply filter_In in Hin. destruct Hin as [Hin Hd]. exists s. repeat split; [exact Hin|exact E|lia].
  - intros (s & Hin & E & Hd). exists s. split; [exact E|]. apply filter_In. split; [exact Hin|lia].
Qed.

Lemma NoDup_map_filter {A B} (f : A -> B) (g : A -> bool) l : NoDup (map f l) -> NoDup (map f (filter g l)).
Proof.
  induction l as [|a r IH]; cbn [map filter]; intros H; [constructor|]. inversion H as [|? ? Ha Hr]; subst.
  destruct (g a); [|exact (IH Hr)]. cbn [map]. constructor; [|exact (IH Hr)].
  intros Hin. apply Ha. apply in_map_iff in Hin. destruct Hin as (x & E & Hx). apply filter_In in Hx. apply in_map_iff. exists x. split; [exact E|exact (proj1 Hx)].
Qed.

Lemma NoDup_app_intro {A} (l1 l2 : list A) : NoDup l1 -> NoDup l2 -> (forall x, In x l1 -> In x l2 -> False) -> NoDup (l1 ++ l2).
Proof.
  induction l1 as [|a r IH]; intros H1 H2 Hd; cbn [app]; [exact H2|]. inversion H1 as [|? ? Ha Hr]; subst. constructor.
  - intros Hin. apply in_app_or in Hin. destruct Hin as [Hin|Hin]; [exact (Ha Hin)|exact (Hd a (or_introl eq_refl) Hin)].
  - apply IH; [exact Hr|exact H2|]. intros x Hx1 Hx2. exact (Hd x (or_intror Hx1) Hx2).
Qed.

Lemma note_polls_app k before l1 l2 own : note_polls true k before (l1 ++ l2) own = note_polls true k before l2 (note_polls true k before l1 own).
Proof. unfold note_polls. apply fold_left_app. Qed.

Lemma note_polls_none k before ss : Forall (fun s => handle s = None) ss -> forall own, note_polls true k before ss own = own.
Proof.
  unfold note_polls. induction 1 as [|s r Hs _ IH]; intros own; cbn [fold_left]; [reflexivity|].
  unfold note_poll at 2. rewrite Hs. apply IH.
Qed.

Lemma sent_by_inert k mail : inert mail -> Forall (fun s => handle s = None) (sent_by k mail).
Proof.
  induction 1 as [|[[[m0 c0] k0] s0] r Hs _ IH]; cbn [sent_by]; [constructor|]. cbn [snd] in Hs.
  destruct (Nat.eqb k k0); [constructor; assumption|exact IH].
Qed.

(* replacing one element of a list under flat_map *)
Lemma flat_map_set_nth {A B} (f : A -> list B) ts : forall k tk tk', nth_error ts k = Some tk ->
  exists pre post, flat_map f ts = pre ++ f tk ++ post /\ flat_map f (set_nth k tk' ts) = pre ++ f tk' ++ post.
Proof.
  induction ts as [|x r IH]; intros k tk tk' Hk; [destruct k; discriminate|].
  destruct k as [|k]; cbn [nth_error set_nth flat_map] in *.
  - injection Hk as ->. exists [], (flat_map f r). split; reflexivity.
  - destruct (IH k tk tk' Hk) as (pre & post & E1 & E2). exists (f x ++ pre), post. rewrite E1, E2, <- !app_assoc. split; reflexivity.
Qed.

Lemma on_chan_app c l1 l2 : on_chan c (l1 ++ l2) = on_chan c l1 ++ on_chan c l2.
Proof. unfold on_chan. rewrite filter_app, map_app. reflexivity. Qed.

(* the tokens a poll has appended, seen channel by channel *)
Lemma toks_chan now m k toks : Forall (tok_ok now m k) toks ->
  (forall c, map deadline (chan m c toks) = on_chan c (map (fun e => (chn e, now)) toks)) /\
  (forall m' c, m' <> m -> chan m' c toks = []) /\ inert toks.
Proof.
  induction 1 as [|e r (ch & id & ->) _ (I1 & I2 & I3)]; [repeat split; constructor|].
  split; [|split].
  - intros c. cbn [chan map chn fst snd on_chan filter]. rewrite N.eqb_refl. cbn [andb].
    pose proof (I1 c) as Hc. unfold on_chan in Hc.
    destruct (ch =? c); [cbn [map token deadline snd]; rewrite N.add_0_r, Hc; reflexivity|exact Hc].
  - intros m' c Hne. cbn [chan]. replace (m =? m') with false by lia. cbn [andb]. exact (I2 m' c Hne).
  - constructor; [reflexivity|exact I3].
Qed.

Lemma map_skipn {X Y} (f : X -> Y) n0 : forall l, map f (skipn n0 l) = skipn n0 (map f l).
Proof. induction n0 as [|n0 IH]; intros l; [reflexivity|]. destruct l as [|x l]; [reflexivity|]. cbn [skipn map]. apply IH. Qed.

Lemma Forall_skipn {X} (P : X -> Prop) n0 : forall l, Forall P l -> Forall P (skipn n0 l).
Proof. induction n0 as [|n0 IH]; intros l H; [exact H|]. destruct l as [|x l]; [constructor|]. inversion H; subst. cbn [skipn]. apply IH. assumption. Qed.

Section PollStep.
  (* [drc]: the driver after the future the task was blocked on has completed (for a task that
     is spawned: the driver as it is); it holds no entry of task k any more.  The poll leaves
     the result (o, b, n, dr', ml), which meets [poll_ok] against the log [E] still demanded and
     the messages [S] still to be sent; [old]: ids of Sleeps task k owned before the poll;
     [arr']: the arrivals task k expects afterwards *)
  Variables (A0 A : N -> arrs) (ts0 ts : list task) (own : wakers) (nid : N) (drc : driver) (mail : mailbox) (t m : N) (k : nat) (r : list nat).
  Variables (tk tk0 : task) (L E : list N) (S : list (N * N)) (o : list N) (b : option (aw * option interval * list step)) (n : N) (dr' : driver)
            (ml : mailbox) (arr' : arrs).
  Variable before : list N.
  Variable old : N -> Prop.

  Hypothesis Hbase : Base A0 A ts0 ts own nid.
  Hypothesis Hnd : NoDup (k :: r).
  Hypothesis Hmid : Mid t drc.
  Hypothesis Hte : forall k' tk1 s, k' <> k -> nth_error ts k' = Some tk1 -> In s (held tk1) -> t_mod tk1 = m ->
                   (~ In k' r \/ t < deadline s) -> In (sid s) (ents_at (deadline s) (pending drc)).
  Hypothesis Htt : forall d id, In id (ents_at d (pending drc)) ->
                   exists k' tk1 s, k' <> k /\ nth_error ts k' = Some tk1 /\ In s (held tk1) /\ t_mod tk1 = m /\ sid s = id /\ deadline s = d.
  Hypothesis Htn : forall d, NoDup (ents_at d (pending drc)).
  Hypothesis Hk : nth_error ts k = Some tk.
  Hypothesis Hk0 : nth_error ts0 k = Some tk0.
  Hypothesis Hmod : t_mod tk = m.
  Hypothesis Hmod0 : t_mod tk = t_mod tk0.
  Hypothesis Hst0 : t_start tk = t_start tk0.
  Hypothesis Hold : forall id, old id -> exists s, In s (owned tk) /\ sid s = id.
  Hypothesis Hinert : inert mail.
  Hypothesis Hn : nid <= n.
  Hypothesis Hacts : acts t drc dr'.
  Hypothesis Hents : forall x, ents_at x (pending dr') =
                       ents_at x (pending drc) ++ match b with Some (a, iv', _) => new_at a iv' x | None => [] end.
  Hypothesis Hres : poll_body t nid n m k (rcv_of tk0) old mail ml (A m) arr' E S o b.
  Hypothesis Hexp : expected A0 tk0 = L ++ E.
  Hypothesis HfS : fut_sends tk = S.
  Hypothesis Harr : Arr A t ts mail.

  Let tk' := {| t_mod := t_mod tk; t_start := t_start tk; t_steps := fr_steps b; t_cur := fr_cur b; t_iv := fr_iv b;
                t_log := L ++ o; t_fin := match fr_steps b with [] => true | _ => false end |}.
  Let ts' := set_nth k tk' ts.
  Let own' := note_polls true k before (held_sleeps (fr_cur b) (fr_iv b) ++ sent_by k ml) own.
  (* the arrivals afterwards: only a receiver changes what its module expects *)
  Let A' := if rcv_of tk0 then upd A m arr' else A.

  Lemma ps_fresh : forall x id, In id (ents_at x (pending drc)) -> id < nid.
  Proof.
    intros x id Hin. destruct (Htt x id Hin) as (k' & tk1 & s & _ & Hk' & Hs & _ & E1 & _). rewrite <- E1.
    exact (proj1 (b_ids _ _ _ _ _ _ Hbase k' tk1 s Hk' Hs)).
  Qed.

  Lemma ps_cases :
    (b = None /\ E = o /\ mail_ok t m k (rcv_of tk0) mail ml (A m) arr' S []) \/
    exists a iv' st rest, b = Some (a, iv', st :: rest) /\ Forall (frag_step2 (rcv_of tk0)) rest /\
        E = o ++ aw_rec a iv' arr' ++ exp_run (aw_end a iv' arr') (iv_abs (iv_after a iv')) (aw_arr a arr') rest /\
        blocked_ok t nid n old a iv' /\
        mail_ok t m k (rcv_of tk0) mail ml (A m) arr' S (exp_sends (aw_end a iv' arr') (iv_abs (iv_after a iv')) rest) /\
        aw_ok a arr' /\ recv_ok (aw_end a iv' arr') (iv_abs (iv_after a iv')) (aw_arr a arr') rest /\
        (forall ch, waits_on (Some a) = Some ch -> rcv_of tk0 = true /\ chan m ch ml = []).
  Proof.
    pose proof Hres as H. unfold poll_body in H. revert H. generalize b. intros b0 Hb.
    destruct b0 as [[[a iv'] l]|]; [right|left; destruct Hb as [H1 H2]; repeat split; assumption].
    destruct Hb as (st & rest & -> & H). exists a, iv', st, rest. split; [reflexivity|exact H].
  Qed.

  Lemma ps_acts : acts t drc dr'.
  Proof. exact Hacts. Qed.

  Lemma ps_ents x : ents_at x (pending dr') =
    ents_at x (pending drc) ++ match b with Some (a, iv', _) => new_at a iv' x | None => [] end.
  Proof. exact (Hents x). Qed.

  (* an id the task has after the poll is below the new counter, in no entry of the driver
     before the poll, and owned by no other task *)
  Lemma ps_src id : idsrc nid n old id ->
    id < n /\ (forall x, ~ In id (ents_at x (pending drc))) /\
    forall k' tk1 s1, k' <> k -> nth_error ts k' = Some tk1 -> In s1 (owned tk1) -> sid s1 <> id.
  Proof.
    intros [[H1 H2]|Ho].
    - split; [exact H2|]. split.
      + intros x Hin. pose proof (ps_fresh x id Hin). lia.
      + intros k' tk1 s1 _ Hk' Hs1 E1. pose proof (b_own _ _ _ _ _ _ Hbase k' tk1 s1 Hk' Hs1). lia.
    - destruct (Hold id Ho) as (s & Hs & <-). split; [pose proof (b_own _ _ _ _ _ _ Hbase k tk s Hk Hs); lia|]. split.
      + intros x Hin. destruct (Htt x _ Hin) as (k' & tk1 & s1 & Hne & Hk' & Hs1 & _ & E1 & _).
        apply Hne. exact (b_distinct _ _ _ _ _ _ Hbase k' k tk1 tk s1 s Hk' Hk (held_owned _ _ Hs1) Hs E1).
      + intros k' tk1 s1 Hne Hk' Hs1 E1. apply Hne.
        exact (b_distinct _ _ _ _ _ _ Hbase k' k tk1 tk s1 s Hk' Hk Hs1 Hs E1).
  Qed.

  Lemma ps_held : held tk' = match b with Some (a, iv', _) => aw_held a iv' | None => [] end.
  Proof. unfold held, tk'. cbn [t_cur t_iv]. generalize b. intros [[[a iv'] l]|]; reflexivity. Qed.

  Lemma ps_held_in s : In s (held tk') ->
    exists a iv' st rest, b = Some (a, iv', st :: rest) /\ In s (aw_held a iv') /\ t < deadline s /\ handle s = Some (deadline s) /\ idsrc nid n old (sid s).
  Proof.
    rewrite ps_held. destruct ps_cases as [(Eb & _)|(a & iv' & st & rest & Eb & _ & _ & (_ & _ & _ & Hall & _) & _)]; rewrite Eb; [intros []|].
    intros Hin. rewrite Forall_forall in Hall. destruct (Hall s Hin) as (H1 & H2 & H3). exists a, iv', st, rest. repeat split; assumption.
  Qed.

  Lemma ps_owned s : In s (owned tk') -> idsrc nid n old (sid s).
  Proof.
    intros Hin. unfold owned in Hin. apply in_app_or in Hin. destruct Hin as [Hin|Hin].
    - destruct (ps_held_in s Hin) as (_ & _ & _ & _ & _ & _ & _ & _ & H). exact H.
    - unfold tk' in Hin. cbn [t_iv] in Hin.
      destruct ps_cases as [(Eb & _)|(a & iv' & st & rest & Eb & _ & _ & (_ & _ & _ & _ & Hiv) & _)]; rewrite Eb in Hin; cbn [fr_iv] in Hin; [contradiction|].
      destruct iv' as [i|]; [|contradiction]. destruct Hin as [<-|[]]. apply Hiv. exists i. split; reflexivity.
  Qed.

  Lemma ps_mail : mail_ok t m k (rcv_of tk0) mail ml (A m) arr' S (fut_sends tk').
  Proof.
    unfold fut_sends, tk'. cbn [t_cur t_fin t_steps t_iv t_start].
    destruct ps_cases as [(Eb & _ & Hm)|(a & iv' & st & rest & Eb & Hf & _ & (Hkind & _) & Hm & _ & _ & Hw)]; rewrite Eb; cbn [fr_cur fr_steps fr_iv tl]; [exact Hm|].
    destruct (rcv_of tk0) eqn:Er.
    - rewrite (exp_sends_rcv rest Hf) in *. exact Hm.
    - assert (Hnw : waits_on (Some a) = None).
      { destruct (waits_on (Some a)) as [ch|] eqn:Ew; [|reflexivity]. destruct (Hw ch eq_refl) as [H _]. discriminate. }
      destruct (aw_noarr a iv' arr' noarr Hnw) as (_ & E2 & _). rewrite <- E2. exact Hm.
  Qed.

  Lemma ps_inert : inert ml.
  Proof.
    pose proof ps_mail as Hm. unfold mail_ok in Hm. destruct (rcv_of tk0).
    - destruct Hm as (_ & _ & _ & Hi). exact (Hi Hinert).
    - destruct Hm as (toks & -> & Ht & _). apply Forall_app. split; [exact Hinert|exact (proj2 (proj2 (toks_chan _ _ _ _ Ht)))].
  Qed.

  Lemma ps_waker id : waker_of own' id =
    if existsb (N.eqb id) (map sid (held tk')) then Some k else waker_of own id.
  Proof.
    unfold own'. rewrite note_polls_app, (note_polls_none k before _ (sent_by_inert k ml ps_inert)). rewrite ps_held.
    destruct ps_cases as [(Eb & _)|(a & iv' & st & rest & Eb & _ & _ & (_ & _ & _ & Hall & _) & _)]; rewrite Eb; cbn [fr_cur fr_iv held_sleeps].
    - reflexivity.
    - apply note_polls_held. eapply Forall_impl; [|exact Hall]. cbn beta. intros s (_ & H & _). rewrite H. discriminate.
  Qed.

  Lemma ps_tstate : tstate A0 A' tk0 tk'.
  Proof.
    assert (H : tstate A0 (upd A m arr') tk0 tk').
    { unfold tk'. assert (Em : t_mod tk0 = m) by (rewrite <- Hmod0; exact Hmod).
      destruct ps_cases as [(Eb & Ho & _)|(a & iv' & st & rest & Eb & Hf & He & (Hk1 & Hw & Hndp & Hall & _) & _ & Hao & Hro & Hch)]; rewrite Eb.
      - apply TDn; cbn [t_mod t_start t_steps t_cur t_iv t_fin t_log fr_steps fr_cur fr_iv]; try assumption; try reflexivity.
        rewrite Hexp, Ho. reflexivity.
      - apply (TBl _ _ _ _ a st rest); cbn [t_mod t_start t_steps t_cur t_iv t_fin t_log fr_steps fr_cur fr_iv]; try assumption; try reflexivity;
          rewrite ?Em, ?upd_same; try assumption.
        + eapply Forall_impl; [|exact Hall]. cbn beta. intros s (_ & H & _). exact H.
        + rewrite Hexp, He, app_assoc. reflexivity.
        + intros ch Hc. exact (proj1 (Hch ch Hc)). }
    unfold A'. destruct (rcv_of tk0) eqn:Er; [exact H|].
    pose proof (b_init _ _ _ _ _ _ Hbase) as Hall. rewrite Forall_forall in Hall.
    exact (tstate_noarr _ _ A _ _ H (Hall tk0 (nth_error_In _ _ Hk0)) Er).
  Qed.

  Lemma ps_nth_other k' : k' <> k -> nth_error ts' k' = nth_error ts k'.
  Proof. intros H. unfold ts'. apply nth_set_nth_other. intros E1; apply H; symmetry; exact E1. Qed.

  Lemma ps_nth_same : nth_error ts' k = Some tk'.
  Proof. unfold ts'. eapply nth_set_nth_same. exact Hk. Qed.

  (* the other tasks are not affected by the change of the arrivals *)
  Lemma ps_tstate_other k' tk1 tk10 : k' <> k -> nth_error ts k' = Some tk1 -> nth_error ts0 k' = Some tk10 ->
    tstate A0 A tk10 tk1 -> tstate A0 A' tk10 tk1.
  Proof.
    intros Hne Hk' Hk0' Hst. unfold A'. destruct (rcv_of tk0) eqn:Er; [|exact Hst].
    pose proof (b_init _ _ _ _ _ _ Hbase) as Hall. rewrite Forall_forall in Hall.
    destruct (N.eq_dec (t_mod tk10) m) as [Em|Em].
    - destruct (rcv_of tk10) eqn:Er1.
      + exfalso. apply Hne. apply (b_one _ _ _ _ _ _ Hbase k' k tk10 tk0 Hk0' Hk0 Er1 Er). rewrite Em, <- Hmod0. symmetry; exact Hmod.
      + exact (tstate_noarr _ _ _ _ _ Hst (Hall tk10 (nth_error_In _ _ Hk0')) Er1).
    - apply (tstate_agree _ A); [rewrite (upd_other _ _ _ _ Em); reflexivity|exact Hst].
  Qed.

  Lemma ps_base : Base A0 A' ts0 ts' own' n.
  Proof.
    destruct Hbase as [Hst Hin Hone Hids Hown Hdis].
    constructor.
    - (* the states *)
      unfold ts'. apply (Forall2_set_nth_impl (tstate A0 A) (tstate A0 A') ts0 ts k tk0 tk' Hst Hk0 ps_tstate).
      intros k' a' b' Hne Ha Hb Hr. exact (ps_tstate_other k' b' a' Hne Hb Ha Hr).
    - exact Hin.
    - exact Hone.
    - intros k' tk1 s Hk' Hs. rewrite ps_waker. destruct (Nat.eq_dec k' k) as [->|Hne].
      + rewrite ps_nth_same in Hk'. injection Hk' as <-. destruct (ps_held_in s Hs) as (_ & _ & _ & _ & _ & _ & _ & _ & Hsrc).
        split; [exact (proj1 (ps_src _ Hsrc))|]. replace (existsb (N.eqb (sid s)) (map sid (held tk'))) with true; [reflexivity|].
        symmetry. apply existsb_exists. exists (sid s). split; [apply in_map; exact Hs|apply N.eqb_refl].
      + rewrite (ps_nth_other k' Hne) in Hk'. destruct (Hids k' tk1 s Hk' Hs) as [H1 H2]. split; [lia|].
        replace (existsb (N.eqb (sid s)) (map sid (held tk'))) with false; [exact H2|].
        symmetry. apply not_true_is_false. intros Hex. apply existsb_exists in Hex. destruct Hex as (i & Hi & E1).
        apply in_map_iff in Hi. destruct Hi as (s' & <- & Hs'). destruct (ps_held_in s' Hs') as (_ & _ & _ & _ & _ & _ & _ & _ & Hsrc).
        apply (proj2 (proj2 (ps_src _ Hsrc)) k' tk1 s Hne Hk' (held_owned _ _ Hs)). lia.
    - intros k' tk1 s Hk' Hs. destruct (Nat.eq_dec k' k) as [->|Hne].
      + rewrite ps_nth_same in Hk'. injection Hk' as <-. exact (proj1 (ps_src _ (ps_owned s Hs))).
      + rewrite (ps_nth_other k' Hne) in Hk'. pose proof (Hown k' tk1 s Hk' Hs). lia.
    - intros k1 k2 tk1 tk2 s1 s2 H1 H2 B1 B2 E1.
      destruct (Nat.eq_dec k1 k) as [->|N1], (Nat.eq_dec k2 k) as [->|N2]; [reflexivity| | |].
      + exfalso. rewrite ps_nth_same in H1. injection H1 as <-. rewrite (ps_nth_other k2 N2) in H2.
        apply (proj2 (proj2 (ps_src _ (ps_owned s1 B1))) k2 tk2 s2 N2 H2 B2). symmetry; exact E1.
      + exfalso. rewrite ps_nth_same in H2. injection H2 as <-. rewrite (ps_nth_other k1 N1) in H1.
        apply (proj2 (proj2 (ps_src _ (ps_owned s2 B2))) k1 tk1 s1 N1 H1 B1). exact E1.
      + rewrite (ps_nth_other k1 N1) in H1. rewrite (ps_nth_other k2 N2) in H2. exact (Hdis _ _ _ _ _ _ H1 H2 B1 B2 E1).
  Qed.

  Lemma ps_mid : Mid t dr'.
  Proof. exact (acts_mid _ _ _ ps_acts Hmid). Qed.

  Lemma ps_tie : Tie ts' t r m dr'.
  Proof.
    assert (Hkr : ~ In k r) by (inversion Hnd; assumption).
    constructor.
    - intros k' tk1 s Hk' Hs Hm Hq. rewrite ps_ents. destruct (Nat.eq_dec k' k) as [->|Hne].
      + rewrite ps_nth_same in Hk'. injection Hk' as <-. destruct (ps_held_in s Hs) as (a & iv' & st & rest & Eb & Hin & _).
        rewrite Eb. apply in_or_app. right. apply new_at_in. exists s. repeat split; [exact Hin].
      + rewrite (ps_nth_other k' Hne) in Hk'. apply in_or_app. left. exact (Hte k' tk1 s Hne Hk' Hs Hm Hq).
    - intros d id Hin. rewrite ps_ents in Hin. apply in_app_or in Hin. destruct Hin as [Ho|Hnew].
      + destruct (Htt d id Ho) as (k' & tk1 & s & Hne & Hk' & Hs & Hm & E1 & E2).
        exists k', tk1, s. rewrite (ps_nth_other k' Hne). repeat split; assumption.
      + destruct ps_cases as [(Eb & _)|(a & iv' & st & rest & Eb & _)]; rewrite Eb in Hnew; [contradiction|].
        apply new_at_in in Hnew. destruct Hnew as (s & Hs & E1 & E2).
        exists k, tk', s. rewrite ps_nth_same, ps_held, Eb. repeat split; try assumption; try (unfold tk'; cbn [t_mod]; exact Hmod).
    - intros d. rewrite ps_ents.
      destruct ps_cases as [(Eb & _)|(a & iv' & st & rest & Eb & _ & _ & (_ & _ & Hndp & Hall & _) & _)]; rewrite Eb; [rewrite app_nil_r; apply Htn|].
      apply NoDup_app_intro; [apply Htn|unfold new_at; apply NoDup_map_filter; exact Hndp|].
      intros id H1 H2. apply new_at_in in H2. destruct H2 as (s & Hs & <- & _).
      rewrite Forall_forall in Hall. destruct (Hall s Hs) as (_ & _ & Hsrc). exact (proj1 (proj2 (ps_src _ Hsrc)) d H1).
  Qed.

  Lemma ps_spawned : ~ unspawned tk'.
  Proof.
    unfold tk', unspawned. cbn [t_cur t_fin].
    destruct ps_cases as [(Eb & _)|(a & iv' & st & rest & Eb & _)]; rewrite Eb; cbn [fr_cur fr_steps]; intros [H1 H2]; discriminate.
  Qed.

  (* ---- the channels after the poll ---- *)
  Lemma ps_chan_other m' c : m' <> m -> chan m' c ml = chan m' c mail.
  Proof.
    intros Hne. pose proof ps_mail as Hm. unfold mail_ok in Hm. destruct (rcv_of tk0).
    - destruct Hm as (_ & _ & Ho & _). exact (Ho m' c Hne).
    - destruct Hm as (toks & -> & Ht & _). rewrite chan_app, (proj1 (proj2 (toks_chan _ _ _ _ Ht)) m' c Hne), app_nil_r. reflexivity.
  Qed.

  (* a task that is not a receiver only adds messages *)
  Lemma ps_chan_grow c : rcv_of tk0 = false -> exists extra, chan m c ml = chan m c mail ++ extra /\ Forall (fun s => deadline s = t) extra.
  Proof.
    intros Er. pose proof ps_mail as Hm. unfold mail_ok in Hm. rewrite Er in Hm. destruct Hm as (toks & -> & Ht & _).
    exists (chan m c toks). split; [apply chan_app|].
    clear -Ht. induction Ht as [|e r0 (ch & id & ->) _ IH]; [constructor|]. cbn [chan]. rewrite N.eqb_refl. cbn [andb].
    destruct (ch =? c); [constructor; [cbn [token deadline]; lia|exact IH]|exact IH].
  Qed.

  (* a task blocks on a receive only with its channel empty *)
  Lemma ps_recv_block ch : waits_on (t_cur tk') = Some ch -> rcv_of tk0 = true /\ chan m ch ml = [].
  Proof.
    unfold tk'. cbn [t_cur].
    destruct ps_cases as [(Eb & _)|(a & iv' & st & rest & Eb & _ & _ & _ & _ & _ & _ & Hw)]; rewrite Eb; cbn [fr_cur]; [discriminate|].
    exact (Hw ch).
  Qed.

  Lemma ps_arr : Arr A' t ts' ml.
  Proof.
    intros m1 c. destruct (Harr m1 c) as (EA & F1 & F2).
    set (f := fun tk1 : task => if t_mod tk1 =? m1 then on_chan c (fut_sends tk1) else []).
    destruct (flat_map_set_nth f ts k tk tk' Hk) as (pre & post & E1 & E2).
    change (fsends m1 c ts) with (flat_map f ts) in *. change (fsends m1 c ts') with (flat_map f (set_nth k tk' ts)).
    rewrite E2. rewrite E1 in EA, F2.
    assert (Hmod' : t_mod tk' = t_mod tk) by reflexivity.
    pose proof ps_mail as Hm. rewrite <- HfS in Hm. unfold mail_ok in Hm. unfold A'.
    destruct (rcv_of tk0) eqn:Er.
    - (* a receiver: it took messages off its channels *)
      destruct Hm as (ES & (cons & Hc) & Ho & _).
      assert (Ef : f tk' = f tk) by (unfold f; rewrite Hmod', ES; reflexivity). rewrite Ef.
      destruct (N.eq_dec m1 m) as [->|Hne].
      + rewrite upd_same. destruct (Hc c) as (C1 & C2 & C3). rewrite C2, EA.
        unfold chan_inst in *. rewrite C1, map_skipn, skipn_app.
        replace (cons c - length (map deadline (chan m c mail)))%nat with 0%nat by (rewrite map_length; lia). cbn [skipn].
        split; [reflexivity|]. split; [apply Forall_skipn; exact F1|exact F2].
      + rewrite (upd_other _ _ _ _ Hne). unfold chan_inst in *. rewrite (Ho m1 c Hne). split; [exact EA|]. split; assumption.
    - (* any other task: it appended the messages it sent *)
      destruct Hm as (toks & -> & Ht & _ & ES). destruct (toks_chan _ _ _ _ Ht) as (T1 & T2 & _).
      destruct (N.eq_dec m1 m) as [->|Hne].
      + assert (Ef : f tk = on_chan c (map (fun e => (chn e, t)) toks) ++ f tk').
        { unfold f. rewrite Hmod', Hmod, N.eqb_refl, ES, on_chan_app. reflexivity. }
        set (sent := on_chan c (map (fun e => (chn e, t)) toks)) in *.
        assert (Hsent : Forall (fun a => a = t) sent).
        { unfold sent, on_chan. clear. induction toks as [|e r0 IH]; cbn [map filter]; [constructor|].
          destruct (fst (chn e, t) =? c); [cbn [map snd]; constructor; [reflexivity|exact IH]|exact IH]. }
        rewrite Ef in EA, F2.
        assert (F2' : Forall (fun a => t <= a) (pre ++ f tk' ++ post)).
        { apply Forall_app in F2. destruct F2 as [G1 G2]. apply Forall_app in G2. destruct G2 as [G2 G3]. apply Forall_app in G2. destruct G2 as [_ G2].
          apply Forall_app. split; [exact G1|]. apply Forall_app. split; assumption. }
        assert (Eis : isort (pre ++ (sent ++ f tk') ++ post) = sent ++ isort (pre ++ f tk' ++ post)).
        { rewrite <- (isort_min_prefix t sent _ Hsent F2'). apply isort_perm_eq.
          rewrite <- !app_assoc. rewrite app_assoc. rewrite (app_assoc sent). apply Permutation_app_tail. apply Permutation_app_comm. }
        unfold chan_inst in *. rewrite chan_app, map_app, T1. fold sent. rewrite EA, Eis, <- app_assoc.
        split; [reflexivity|]. split; [|exact F2'].
        apply Forall_app. split; [exact F1|]. eapply Forall_impl; [|exact Hsent]. cbn beta. intros a ->. lia.
      + assert (Ef : f tk' = f tk) by (unfold f; rewrite Hmod', Hmod; replace (m =? m1) with false by lia; reflexivity). rewrite Ef.
        unfold chan_inst in *. rewrite chan_app, (T2 m1 c Hne), app_nil_r. split; [exact EA|]. split; assumption.
  Qed.

  (* the tasks still to be polled stay runnable *)
  Lemma ps_runnable k' : In k' r -> runnable ts mail t m k' -> runnable ts' ml t m k'.
  Proof.
    intros Hin (tk1 & H1 & H2 & H3).
    assert (Hne : k' <> k) by (intros ->; inversion Hnd; contradiction).
    exists tk1. split; [rewrite ps_nth_other; [exact H1|exact Hne]|]. split; [exact H2|].
    destruct H3 as [H3|(a & Hc & [Hw|(ch & Hw & Hch & Hlt)])]; [left; exact H3|right; exists a; split; [exact Hc|left; exact Hw]|].
    right. exists a. split; [exact Hc|]. right. exists ch. split; [exact Hw|]. split; [|exact Hlt].
    (* k' receives in module m, so task k does not: it has only added messages *)
    destruct (Forall2_nth _ _ _ _ _ (b_states _ _ _ _ _ _ Hbase) H1) as (tk10 & Hk10 & Hst1).
    assert (Hr1 : rcv_of tk10 = true).
    { destruct Hst1 as [-> _ _|a' st rest _ _ _ _ H5 _ _ _ _ _ _ _ H14|_ _ _ H4 _ _ _].
      - pose proof (b_init _ _ _ _ _ _ Hbase) as Hall. rewrite Forall_forall in Hall.
        destruct (Hall tk10 (nth_error_In _ _ Hk10)) as (_ & I2 & _). rewrite I2 in Hc. discriminate.
      - rewrite H5 in Hc. injection Hc as ->. exact (H14 ch Hw).
      - rewrite H4 in Hc. discriminate. }
    assert (Hm1 : t_mod tk10 = t_mod tk0).
    { pose proof (b_init _ _ _ _ _ _ Hbase) as Hall. rewrite Forall_forall in Hall.
      destruct (tstate_cases _ _ _ _ Hst1 (Hall tk10 (nth_error_In _ _ Hk10))) as (E1 & _). rewrite <- E1, H2, <- Hmod0. symmetry; exact Hmod. }
    assert (Hcase : rcv_of tk0 = true \/ rcv_of tk0 = false) by (destruct (rcv_of tk0); [left|right]; reflexivity).
    destruct Hcase as [Er|Er].
    - exfalso. apply Hne. exact (b_one _ _ _ _ _ _ Hbase k' k tk10 tk0 Hk10 Hk0 Hr1 Er Hm1).
    - destruct (ps_chan_grow ch Er) as (extra & -> & _). intros Hnil. apply app_eq_nil in Hnil. exact (Hch (proj1 Hnil)).
  Qed.
End PollStep.

(* ---- the work that is left ---- *)
(* twice the steps to go, plus two for a task that is still to be spawned, plus one for a task whose
   keep-alive select may block once more (on the re-armed kept timer) within the same step *)
Definition wt (tk : task) : nat :=
  (2 * length (t_steps tk) +
   match t_cur tk with
   | None => if t_fin tk then 0 else 2
   | Some (AwKeep true _ _ _) => 1
   | Some _ => 0
   end)%nat.

Definition wres (b : option (aw * option interval * list step)) : nat :=
  (2 * length (fr_steps b) + match fr_cur b with Some (AwKeep true _ _ _) => 1 | _ => 0 end)%nat.

Definition work (ts : list task) : nat := fold_right (fun tk n => (wt tk + n)%nat) 0%nat ts.

Lemma work_set_nth ts : forall k tk tk', nth_error ts k = Some tk ->
  (work (set_nth k tk' ts) + wt tk = work ts + wt tk')%nat.
Proof.
  induction ts as [|a r IH]; intros k tk tk' Hk; [destruct k; discriminate|].
  destruct k as [|k]; cbn [nth_error set_nth work fold_right] in *.
  - injection Hk as ->. fold (work r). lia.
  - fold (work r) in *. fold (work (set_nth k tk' r)). pose proof (IH k tk tk' Hk). lia.
Qed.

Lemma frag_run_len t0 m k steps : forall nid iv dr mail,
  (length (fr_steps (snd (fst (fst (fst (frag_run t0 nid m k iv steps dr mail)))))) <= length steps)%nat.
Proof.
  induction steps as [|st r IH]; intros nid iv dr mail; cbn [frag_run]; [cbn; lia|].
  destruct st as [d|t|d v| | | | |polled d1 d2|d| |ch d| |d ch| | | | ]; cbn [fst snd fr_steps length]; try lia;
  try (destruct v as [x|]; cbn [fst snd fr_steps length]; try lia);
  try (destruct iv as [i|]; cbn [fst snd fr_steps length]; try lia);
  try (destruct (mail_take m ch mail) as [[s0 mail0]|]; cbn [fst snd fr_steps length]; try lia);
  repeat match goal with |- context [if ?c then _ else _] => destruct c; cbn [fst snd fr_steps length]; try lia end;
  match goal with IHx : forall _ _ _ _, _ |- context [frag_run _ ?n0 _ _ ?i0 _ ?d0 ?m0] =>
    specialize (IHx n0 i0 d0 m0); destruct (frag_run t0 n0 m k i0 r d0 m0) as [[[[o0 b0] n'] d'] ml0]; cbn [fst snd] in *; lia end.
Qed.

(* the messages that are still to be sent, all tasks together: bounds how often the run queue grows *)
Definition psends (ts : list task) : nat := fold_right (fun tk n => (length (fut_sends tk) + n)%nat) 0%nat ts.

Lemma psends_set_nth ts : forall k tk tk', nth_error ts k = Some tk ->
  (psends (set_nth k tk' ts) + length (fut_sends tk) = psends ts + length (fut_sends tk'))%nat.
Proof.
  induction ts as [|a r IH]; intros k tk tk' Hk; [destruct k; discriminate|].
  destruct k as [|k]; cbn [nth_error set_nth psends fold_right] in *.
  - injection Hk as ->. fold (psends r). lia.
  - fold (psends r) in *. fold (psends (set_nth k tk' r)). pose proof (IH k tk tk' Hk). lia.
Qed.

(* ---- inside an event of module m at instant t, with [q] still to be polled ---- *)
Record MInv (A0 A : N -> arrs) (ts0 : list task) (t m : N) (q : list nat) (w : world) : Prop := {
  mi_inert : inert (w_mail w);
  mi_arr : Arr A t (w_tasks w) (w_mail w);
  mi_base : Base A0 A ts0 (w_tasks w) (w_owner w) (w_nid w);
  mi_nodup : NoDup q;
  mi_run : forall k, In k q -> runnable (w_tasks w) (w_mail w) t m k;
  mi_mid : Mid t (drv_of w m);
  mi_tie : Tie (w_tasks w) t q m (drv_of w m);
  (* a receiver that is blocked while its channel holds a message is about to be polled; the
     message was sent at this very instant *)
  mi_recvq : forall k tk ch, nth_error (w_tasks w) k = Some tk -> waits_on (t_cur tk) = Some ch ->
             chan (t_mod tk) ch (w_mail w) <> [] ->
             t_mod tk = m /\ In k q /\ Forall (fun s => deadline s = t) (chan m ch (w_mail w)) }.

Lemma poll_task_eq wfix now m k w tk steps cur iv dr nid lg sw mail :
  nth_error (w_tasks w) k = Some tk -> t_fin tk = false ->
  run_steps now m k (t_steps tk) (t_cur tk) (t_iv tk) (drv_of w m) (w_nid w) (t_log tk) (w_mail w) =
    (steps, cur, iv, dr, nid, lg, sw, mail) ->
  let w' := fst (poll_task wfix now m k w) in
  snd (poll_task wfix now m k w) = sw /\ w_fes w' = w_fes w /\ w_now w' = w_now w /\ drv_of w' m = dr /\
  (forall m', (m' =? 0) <> (m =? 0) -> drv_of w' m' = drv_of w m') /\
  w_tasks w' = set_nth k {| t_mod := t_mod tk; t_start := t_start tk; t_steps := steps; t_cur := cur; t_iv := iv;
                            t_log := lg; t_fin := match steps with [] => true | _ => false end |} (w_tasks w) /\
  w_nid w' = nid /\
  w_owner w' = note_polls wfix k (flat_map snd (pending (drv_of w m))) (held_sleeps cur iv ++ sent_by k mail) (w_owner w) /\
  w_mail w' = mail.
Proof.
  intros Hk Hf Hr. cbn zeta. unfold poll_task. rewrite Hk, Hf, Hr. unfold set_drv, drv_of.
  destruct (m =? 0) eqn:Em; cbn [fst snd w_fes w_now w_d0 w_d1 w_tasks w_nid w_owner w_mail];
    (repeat split; try reflexivity); intros m' Hne; destruct (m' =? 0); try reflexivity; contradiction Hne; reflexivity.
Qed.

Lemma tstate_unspawned A0 A tk0 tk : tstate A0 A tk0 tk -> unspawned tk -> tk = tk0.
Proof.
  intros [-> _ _|a st rest _ _ _ _ Hc _ _ _ _ _ _ _ _|_ _ _ _ _ Hf _] [Hc' Hf']; [reflexivity|rewrite Hc in Hc'; discriminate|rewrite Hf in Hf'; discriminate].
Qed.

Lemma tstate_blocked A0 A tk0 tk a : tstate A0 A tk0 tk -> init_ok2 A0 tk0 -> t_cur tk = Some a ->
  exists st rest, t_mod tk = t_mod tk0 /\ t_start tk = t_start tk0 /\ t_steps tk = st :: rest /\ Forall (frag_step2 (rcv_of tk0)) rest /\
    t_fin tk = false /\ aw_kind a (t_iv tk) /\ Forall (fun s => handle s = Some (deadline s)) (aw_held a (t_iv tk)) /\
    NoDup (map sid (aw_held a (t_iv tk))) /\ held tk = aw_held a (t_iv tk) /\
    expected A0 tk0 = t_log tk ++ aw_rec a (t_iv tk) (A (t_mod tk0)) ++
                      exp_run (aw_end a (t_iv tk) (A (t_mod tk0))) (iv_abs (iv_after a (t_iv tk))) (aw_arr a (A (t_mod tk0))) rest /\
    aw_ok a (A (t_mod tk0)) /\
    recv_ok (aw_end a (t_iv tk) (A (t_mod tk0))) (iv_abs (iv_after a (t_iv tk))) (aw_arr a (A (t_mod tk0))) rest /\
    (forall ch, waits_on (Some a) = Some ch -> rcv_of tk0 = true).
Proof.
  intros H (_ & I2 & _) Hc.
  destruct H as [-> _ _|a' st rest H1 H2 H3 H4 H5 H7 H8 H9 H10 H11 H12 H13 H14|_ _ _ H4 _ _ _].
  - rewrite I2 in Hc. discriminate.
  - rewrite H5 in Hc. injection Hc as ->. exists st, rest. repeat split; try assumption. unfold held. rewrite H5. reflexivity.
  - rewrite H4 in Hc. discriminate.
Qed.

Lemma aw_kind_idle a iv : aw_kind a iv -> a <> AwTick -> iv_idle iv.
Proof.
  destruct a as [s|v dl|biased tie sa sb| | | | |rearm d3 s sx|pre s|kr chi cho]; try contradiction; cbn [aw_kind]; try (intros H _; exact H).
  - destruct v; try contradiction; intros H _; exact H.
  - intros [H _] _; exact H.
  - intros [H _] _; exact H.
Qed.

Lemma iv_after_idle a iv : aw_kind a iv -> iv_idle (iv_after a iv).
Proof.
  intros Hk. destruct a as [s|v dl|biased tie sa sb| | | | |rearm d3 s sx|pre s|kr chi cho]; try contradiction; cbn [iv_after];
    try (apply (aw_kind_idle _ _ Hk); discriminate).
  destruct iv as [i|]; [reflexivity|exact I].
Qed.

Lemma iv_after_ids a iv id : iv_ids (iv_after a iv) id -> iv_ids iv id.
Proof.
  destruct a; cbn [iv_after]; try (intros H; exact H).
  destruct iv as [i|]; [|intros H; exact H]. intros (i' & E1 & ->). injection E1 as <-. exists i. split; reflexivity.
Qed.

(* when the woken task does not block again, its await completes at the wake instant *)
Lemma aw_end_noreblock a iv arr t : aw_kind a iv -> waits_on (Some a) = None -> aw_wake a iv = t -> aw_reblock t a = None -> aw_end a iv arr = t.
Proof.
  intros Hk Hnw Hw Hrb. destruct a as [s|v dl|biased tie sa sb| | | | |rearm d3 s sx|pre s|kr chi cho]; try contradiction; try exact Hw.
  - destruct v; try contradiction; [exact Hw|discriminate Hnw].
  - destruct Hk as [_ Hd3]. cbn [aw_wake] in Hw. cbn [aw_end].
    destruct (deadline s <=? deadline sx) eqn:E; [lia|].
    destruct rearm; [|lia]. cbn [aw_reblock] in Hrb. rewrite (dl_fin _ _ Hd3) in Hrb.
    replace (deadline s <=? t) with false in Hrb by lia. destruct (t <? t + d3) eqn:E3; [discriminate|]. lia.
Qed.

(* the future a woken task was blocked on completes: its Sleep that is still registered is
   dropped (or, for the kept timer that is re-armed, reset -- which removes its entry as well) *)
Lemma woken_done A0 A ts0 ts own nid t m k r tk a iv dr :
  Base A0 A ts0 ts own nid -> NoDup (k :: r) -> Mid t dr -> Tie ts t (k :: r) m dr ->
  nth_error ts k = Some tk -> t_mod tk = m -> t_cur tk = Some a -> aw_kind a iv -> held tk = aw_held a iv ->
  Forall (fun s => handle s = Some (deadline s)) (aw_held a iv) -> NoDup (map sid (aw_held a iv)) ->
  (aw_wake a iv = t \/ (waits_on (Some a) <> None /\ t < aw_wake a iv)) ->
  let drc := aw_done t a dr in
  acts t dr drc /\
  (forall k' tk1 s, k' <> k -> nth_error ts k' = Some tk1 -> In s (held tk1) -> t_mod tk1 = m ->
     (~ In k' r \/ t < deadline s) -> In (sid s) (ents_at (deadline s) (pending drc))) /\
  (forall d id, In id (ents_at d (pending drc)) ->
     exists k' tk1 s, k' <> k /\ nth_error ts k' = Some tk1 /\ In s (held tk1) /\ t_mod tk1 = m /\ sid s = id /\ deadline s = d) /\
  (forall d, NoDup (ents_at d (pending drc))).
Proof.
  intros Hbase Hnd Hmid [He Ht Hn] Hk Hmod Hc Hkind Hheld Hh Hndp Hw. cbn zeta.
  assert (Hkr : ~ In k r) by (inversion Hnd; assumption).
  (* entries of task k that are still in the driver have a deadline after t *)
  assert (Hown : forall d id, In id (ents_at d (pending dr)) -> forall s, In s (held tk) -> sid s = id -> deadline s = d /\ t < d).
  { intros d id Hin s Hs E. destruct (Ht d id Hin) as (k' & tk1 & s' & Hk' & Hs' & _ & E1 & E2).
    assert (k' = k) by (apply (b_distinct _ _ _ _ _ _ Hbase k' k tk1 tk s' s Hk' Hk (held_owned _ _ Hs') (held_owned _ _ Hs)); congruence). subst k'.
    rewrite Hk in Hk'. injection Hk' as <-.
    assert (s' = s).
    { rewrite Hheld in Hs, Hs'. clear -Hndp Hs Hs' E E1. induction (aw_held a iv) as [|x l IH]; [contradiction|].
      cbn [map] in Hndp. inversion Hndp as [|? ? Hx Hl]; subst. destruct Hs as [->|Hs], Hs' as [->|Hs']; try reflexivity.
      - exfalso. apply Hx. apply in_map_iff. exists s'. split; [congruence|exact Hs'].
      - exfalso. apply Hx. apply in_map_iff. exists s. split; [congruence|exact Hs].
      - exact (IH Hl Hs Hs'). }
    subst s'. split; [exact E2|]. assert (Hne : ents_at d (pending dr) <> []) by (intros E0; rewrite E0 in Hin; contradiction).
    exact (mid_future _ _ Hmid d _ (ents_at_in _ _ Hne) Hne). }
  assert (Hother : forall d id, In id (ents_at d (pending dr)) -> (forall s, In s (held tk) -> sid s <> id) ->
            exists k' tk1 s, k' <> k /\ nth_error ts k' = Some tk1 /\ In s (held tk1) /\ t_mod tk1 = m /\ sid s = id /\ deadline s = d).
  { intros d id Hin Hno. destruct (Ht d id Hin) as (k' & tk1 & s' & Hk' & Hs' & Hm' & E1 & E2).
    exists k', tk1, s'. repeat split; try assumption. intros ->. rewrite Hk in Hk'. injection Hk' as <-. exact (Hno s' Hs' E1). }
  assert (Hkeep : forall k' tk1 s, k' <> k -> nth_error ts k' = Some tk1 -> In s (held tk1) -> forall s0, In s0 (held tk) -> sid s <> sid s0).
  { intros k' tk1 s Hne Hk' Hs s0 Hs0 E. apply Hne. exact (b_distinct _ _ _ _ _ _ Hbase k' k tk1 tk s s0 Hk' Hk (held_owned _ _ Hs) (held_owned _ _ Hs0) E). }
  (* an await state with a single Sleep: it was popped; nothing of task k is left in the driver *)
  assert (Hsingle : forall s0, aw_held a iv = [s0] -> deadline s0 = t ->
     acts t dr dr /\
     (forall k' tk1 s, k' <> k -> nth_error ts k' = Some tk1 -> In s (held tk1) -> t_mod tk1 = m ->
        (~ In k' r \/ t < deadline s) -> In (sid s) (ents_at (deadline s) (pending dr))) /\
     (forall d id, In id (ents_at d (pending dr)) ->
        exists k' tk1 s, k' <> k /\ nth_error ts k' = Some tk1 /\ In s (held tk1) /\ t_mod tk1 = m /\ sid s = id /\ deadline s = d) /\
     (forall d, NoDup (ents_at d (pending dr)))).
  { intros s0 E0 Hd0. split; [apply acts_refl|]. split; [|split; [|exact Hn]].
    + intros k' tk1 s1 Hne Hk' Hs1 Hm1 Hq. apply (He k' tk1 s1 Hk' Hs1 Hm1). destruct Hq as [Hq|Hq]; [left|right; exact Hq].
      intros [E|E]; [apply Hne; symmetry; exact E|exact (Hq E)].
    + intros d id Hin. apply (Hother d id Hin). intros s1 Hs1 E. destruct (Hown d id Hin s1 Hs1 E) as [E2 Hlt].
      rewrite Hheld, E0 in Hs1. destruct Hs1 as [<-|[]]. lia. }
  (* an await state with two Sleeps: [sr], the one that did not fire, is taken out of the driver by its id *)
  assert (Hrem : forall drc sr, In sr (held tk) -> (forall s0, In s0 (held tk) -> t < deadline s0 -> s0 = sr) ->
     (forall x id, In id (ents_at x (pending drc)) <-> In id (ents_at x (pending dr)) /\ (x = deadline sr -> id <> sid sr)) ->
     (forall d, NoDup (ents_at d (pending drc))) ->
     (forall k' tk1 s, k' <> k -> nth_error ts k' = Some tk1 -> In s (held tk1) -> t_mod tk1 = m ->
        (~ In k' r \/ t < deadline s) -> In (sid s) (ents_at (deadline s) (pending drc))) /\
     (forall d id, In id (ents_at d (pending drc)) ->
        exists k' tk1 s, k' <> k /\ nth_error ts k' = Some tk1 /\ In s (held tk1) /\ t_mod tk1 = m /\ sid s = id /\ deadline s = d) /\
     (forall d, NoDup (ents_at d (pending drc)))).
  { intros drc sr Hsr Honly Hents Hndc. split; [|split; [|exact Hndc]].
    + intros k' tk1 s1 Hne Hk' Hs1 Hm1 Hq. apply Hents. split.
      * apply (He k' tk1 s1 Hk' Hs1 Hm1). destruct Hq as [Hq|Hq]; [left|right; exact Hq].
        intros [E|E]; [apply Hne; symmetry; exact E|exact (Hq E)].
      * intros _. exact (Hkeep k' tk1 s1 Hne Hk' Hs1 sr Hsr).
    + intros d id Hin. apply Hents in Hin. destruct Hin as [Hin Hnot]. apply (Hother d id Hin).
      intros s0 Hs0 E. destruct (Hown d id Hin s0 Hs0 E) as [E2 Hlt].
      assert (s0 = sr) by (apply Honly; [exact Hs0|lia]). subst s0. exact (Hnot (eq_sym E2) (eq_sym E)). }
  assert (Hdrop : forall sr, (forall x id, In id (ents_at x (pending (drop_entry (sid sr) (deadline sr) dr))) <->
                                 In id (ents_at x (pending dr)) /\ (x = deadline sr -> id <> sid sr)) /\
                             (forall d, NoDup (ents_at d (pending (drop_entry (sid sr) (deadline sr) dr))))).
  { intros sr. split.
    - intros x id. cbn [drop_entry set_pending pending]. rewrite ents_at_remove. destruct (x =? deadline sr) eqn:E.
      + replace x with (deadline sr) by lia. rewrite (rm_in_iff _ _ _ (Hn (deadline sr))). split; [intros [H1 H2]; split; [exact H1|intros _; exact H2]|intros [H1 H2]; split; [exact H1|exact (H2 eq_refl)]].
      + split; [intros H; split; [exact H|intros E'; lia]|intros [H _]; exact H].
    - intros d. cbn [drop_entry set_pending pending]. rewrite ents_at_remove. destruct (d =? deadline sr); [apply rm_nodup|]; apply Hn. }
  (* of two held Sleeps with min deadline t, the one (if any) with a later deadline *)
  assert (Hpair : forall s1 s2, aw_held a iv = [s1; s2] -> N.min (deadline s1) (deadline s2) = t ->
     let sr := if deadline s1 <=? t then s2 else s1 in
     In sr (held tk) /\ forall s0, In s0 (held tk) -> t < deadline s0 -> s0 = sr).
  { intros s1 s2 E0 Hmin. cbn zeta. rewrite Hheld, E0. split.
    - destruct (deadline s1 <=? t); [right; left|left]; reflexivity.
    - intros s0 [<-|[<-|[]]] Hlt.
      + replace (deadline s1 <=? t) with false by lia. reflexivity.
      + replace (deadline s1 <=? t) with true by lia. reflexivity. }
  assert (Hw' : waits_on (Some a) = None -> aw_wake a iv = t) by (intros Hnone; destruct Hw as [Hw|[Hw _]]; [exact Hw|contradiction]).
  destruct a as [s|v dl|biased tie sa sb| | | | |rearm d3 s sx|pre s|kr chi cho]; try contradiction.
  - specialize (Hw' eq_refl). clear Hw. rename Hw' into Hw. cbn [aw_done]. apply (Hsingle s); [reflexivity|exact Hw].
  - destruct v as [s| |ch|]; try contradiction; cycle 1.
    { (* a receive: woken by its message before the deadline -- the delay is dropped -- or by the delay *)
      cbn [aw_wake waits_on] in Hw. cbn [aw_done].
      destruct Hw as [Hw|[_ Hw]].
      - replace (t <? deadline dl) with false by lia. apply (Hsingle dl); [reflexivity|exact Hw].
      - replace (t <? deadline dl) with true by lia.
        assert (Hsr : In dl (held tk)) by (rewrite Hheld; left; reflexivity).
        split; [apply (acts_one t dr (DropEntry (sid dl) (deadline dl))); exact I|].
        destruct (Hdrop dl) as [Hents Hndc]. apply (Hrem _ dl Hsr); [|exact Hents|exact Hndc].
        intros s0 Hs0 _. rewrite Hheld in Hs0. destruct Hs0 as [<-|[]]. reflexivity. }
    specialize (Hw' eq_refl). clear Hw. rename Hw' into Hw. cbn [aw_wake] in Hw.
    destruct (Hpair s dl eq_refl Hw) as [Hsr Honly]. set (sr := if deadline s <=? t then dl else s) in *.
    assert (Hdone : aw_done t (AwTimeout (VSleep s) dl) dr = drop_entry (sid sr) (deadline sr) dr) by (unfold sr; cbn [aw_done]; destruct (deadline s <=? t); reflexivity).
    rewrite Hdone. split; [apply (acts_one t dr (DropEntry (sid sr) (deadline sr))); exact I|].
    destruct (Hdrop sr) as [Hents Hndc]. exact (Hrem _ sr Hsr Honly Hents Hndc).
  - (* select over two sleeps: the loser is dropped *)
    specialize (Hw' eq_refl). clear Hw. rename Hw' into Hw. cbn [aw_wake] in Hw. destruct (Hpair sa sb eq_refl Hw) as [Hsr Honly]. set (sr := if deadline sa <=? t then sb else sa) in *.
    assert (Hdone : aw_done t (AwSelect biased tie sa sb) dr = drop_entry (sid sr) (deadline sr) dr) by (unfold sr; cbn [aw_done]; destruct (deadline sa <=? t); reflexivity).
    rewrite Hdone. split; [apply (acts_one t dr (DropEntry (sid sr) (deadline sr))); exact I|].
    destruct (Hdrop sr) as [Hents Hndc]. exact (Hrem _ sr Hsr Honly Hents Hndc).
  - (* the tick that was waited for *)
    specialize (Hw' eq_refl). clear Hw. rename Hw' into Hw.
    destruct iv as [i|]; [|contradiction Hkind; reflexivity]. cbn [aw_done]. apply (Hsingle (iv_delay i)); [reflexivity|exact Hw].
  - (* the keep-alive select *)
    specialize (Hw' eq_refl). clear Hw. rename Hw' into Hw. cbn [aw_wake] in Hw. destruct (Hpair s sx eq_refl Hw) as [Hsr Honly].
    cbn [aw_done]. destruct (deadline s <=? t) eqn:E.
    + split; [apply (acts_one t dr (DropEntry (sid sx) (deadline sx))); exact I|].
      destruct (Hdrop sx) as [Hents Hndc]. exact (Hrem _ sx Hsr Honly Hents Hndc).
    + destruct rearm.
      * (* reset of the kept timer, which is still registered *)
        split; [apply (acts_one t dr (ResetEntry (sid s) (deadline s) (dl t d3))); exact I|].
        assert (Hreg : In (sid s) (ents_at (deadline s) (pending dr))).
        { apply (He k tk s Hk Hsr Hmod). right. lia. }
        assert (Hfar : dl t d3 <> deadline s -> ~ In (sid s) (ents_at (dl t d3) (pending dr))).
        { intros Hne Hin. destruct (Hown _ _ Hin s Hsr eq_refl) as [E1 _]. exact (Hne (eq_sym E1)). }
        pose proof (fun x => reset_existing_ents (sid s) (deadline s) (dl t d3) dr x (mid_sorted _ _ Hmid) Hreg (Hn (deadline s)) Hfar) as Hre.
        apply (Hrem _ s Hsr Honly).
        -- intros x id. rewrite Hre. destruct (x =? deadline s) eqn:E1.
           ++ replace x with (deadline s) by lia. rewrite (rm_in_iff _ _ _ (Hn (deadline s))). split; [intros [H1 H2]; split; [exact H1|intros _; exact H2]|intros [H1 H2]; split; [exact H1|exact (H2 eq_refl)]].
           ++ split; [intros H; split; [exact H|intros E'; lia]|intros [H _]; exact H].
        -- intros d. rewrite Hre. destruct (d =? deadline s); [apply rm_nodup|]; apply Hn.
      * split; [apply (acts_one t dr (DropEntry (sid s) (deadline s))); exact I|].
        destruct (Hdrop s) as [Hents Hndc]. exact (Hrem _ s Hsr Honly Hents Hndc).
  - (* the re-armed kept timer *)
    specialize (Hw' eq_refl). clear Hw. rename Hw' into Hw. cbn [aw_done]. apply (Hsingle s); [reflexivity|exact Hw].
Qed.

(* the woken task blocks again at once: on the kept timer, re-armed for a later instant *)
Lemma reblock_ok t nid m k rcv (old : N -> Prop) drc mail arr a a' iv rest st :
  aw_kind a iv -> aw_wake a iv = t -> aw_reblock t a = Some a' -> Forall (frag_step2 rcv) rest ->
  sorted (pending drc) ->
  (forall s, In s (aw_held a iv) -> old (sid s)) -> (forall id, iv_ids iv id -> old id) ->
  recv_ok (aw_end a iv arr) (iv_abs (iv_after a iv)) (aw_arr a arr) rest ->
  exists pre s', a' = AwThen pre s' /\
    poll_ok t nid m k rcv old drc mail arr
      (aw_rec a iv arr ++ exp_run (aw_end a iv arr) (iv_abs (iv_after a iv)) (aw_arr a arr) rest)
      (exp_sends (aw_end a iv arr) (iv_abs (iv_after a iv)) rest)
      ([], Some (a', iv, st :: rest), nid, register (sid s') (deadline s') drc, mail) /\
    (wres (Some (a', iv, st :: rest)) + 1 <= 2 * length (st :: rest) + match a with AwKeep true _ _ _ => 1 | _ => 0 end)%nat.
Proof.
  intros Hk Hw Hrb Hrest Hs Hold Hivo Hro. destruct a as [s|v dl| | | | | |rearm d3 s sx|pre s|kr chi cho]; try discriminate.
  destruct rearm; [|discriminate]. destruct Hk as [Hi Hd3]. cbn [aw_reblock] in Hrb. rewrite (dl_fin _ _ Hd3) in Hrb.
  destruct (deadline s <=? t) eqn:E; [discriminate|]. destruct (t <? t + d3) eqn:E3; [|discriminate]. injection Hrb as <-.
  cbn [aw_wake] in Hw. exists [t; 1], (reg (sid s) (t + d3)). split; [reflexivity|]. split.
  - unfold poll_ok, poll_body. split; [lia|]. split; [apply (acts_one t drc (Register (sid s) (t + d3))); cbn [op_wf]; lia|]. split.
    + intros y. cbn [register set_pending pending reg sid deadline]. rewrite (ents_at_add _ _ _ _ Hs).
      unfold new_at. cbn [aw_held held_sleeps filter reg deadline sid map].
      destruct (y =? t + d3) eqn:E1.
      * replace y with (t + d3) by lia. rewrite N.eqb_refl. reflexivity.
      * replace (t + d3 =? y) with false by lia. rewrite app_nil_r. reflexivity.
    + exists arr, st, rest. split; [reflexivity|]. split; [exact Hrest|].
      cbn [aw_rec aw_end aw_wake aw_arr reg deadline app iv_after] in *.
      replace (deadline s <=? deadline sx) with false in * by lia. replace (deadline sx) with t in * by lia.
      split; [reflexivity|]. split.
      { unfold blocked_ok. cbn [aw_kind aw_wake aw_held held_sleeps reg deadline sid handle map].
        split; [exact Hi|]. split; [lia|]. split; [repeat constructor; intros []|]. split.
        - constructor; [|constructor]. unfold reg; cbn [deadline handle sid]. split; [lia|]. split; [reflexivity|].
          right. apply Hold. left; reflexivity.
        - intros id Hid. right. exact (Hivo id Hid). }
      split; [apply mail_ok_refl|]. split; [exact I|]. split; [exact Hro|]. intros ch H; discriminate.
  - unfold wres. cbn [fr_steps fr_cur]. lia.
Qed.

(* the arrivals a receiver expects, from the invariant of the channels *)
Lemma arr_la A t ts mail m : Arr A t ts mail -> LA t m mail (A m).
Proof.
  intros H c. destruct (H m c) as (E & F1 & F2). exists (isort (fsends m c ts)). split; [exact E|]. split; [exact F1|].
  apply isort_forall. exact F2.
Qed.

Lemma enqueue_in q ks x : In x (enqueue q ks) <-> In x q \/ (In x ks /\ ~ In x q).
Proof.
  unfold enqueue. rewrite in_app_iff, filter_In. split.
  - intros [H|[H1 H2]]; [left; exact H|right; split; [exact H1|]]. intros Hin. apply negb_true_iff in H2.
    assert (existsb (Nat.eqb x) q = true) by (apply existsb_exists; exists x; split; [exact Hin|apply Nat.eqb_refl]). congruence.
  - intros [H|[H1 H2]]; [left; exact H|right; split; [exact H1|]]. apply negb_true_iff. apply not_true_is_false. intros Hex.
    apply existsb_exists in Hex. destruct Hex as (y & Hy & E). apply Nat.eqb_eq in E. subst y. exact (H2 Hy).
Qed.

Lemma ready_receivers_in m mail ts : forall i x, In x (ready_receivers m mail i ts) <->
  exists tk ch, (i <= x)%nat /\ nth_error ts (x - i) = Some tk /\ waits_on (t_cur tk) = Some ch /\ t_mod tk = m /\ chan m ch mail <> [].
Proof.
  induction ts as [|tk r IH]; intros i x; cbn [ready_receivers].
  - split; [intros []|intros (tk & ch & _ & H & _); destruct (x - i)%nat; discriminate].
  - assert (Hrest : In x (ready_receivers m mail (S i) r) <->
        exists tk1 ch, (i <= x)%nat /\ x <> i /\ nth_error (tk :: r) (x - i) = Some tk1 /\ waits_on (t_cur tk1) = Some ch /\ t_mod tk1 = m /\ chan m ch mail <> []).
    { rewrite IH. split.
      - intros (tk1 & ch & H1 & H2 & H3). exists tk1, ch. split; [lia|]. split; [lia|]. replace (x - i)%nat with (S (x - S i)) by lia. exact (conj H2 H3).
      - intros (tk1 & ch & H1 & Hne & H2 & H3). exists tk1, ch. split; [lia|]. replace (x - i)%nat with (S (x - S i)) in H2 by lia. exact (conj H2 H3). }
    assert (Hhere : forall ch, waits_on (t_cur tk) = Some ch ->
        ((t_mod tk =? m) && (match mail_take m ch mail with Some _ => true | None => false end) = true <-> t_mod tk = m /\ chan m ch mail <> [])).
    { intros ch _. rewrite andb_true_iff. split.
      - intros [H1 H2]. split; [lia|]. intros Hn. apply mail_take_none in Hn. rewrite Hn in H2. discriminate.
      - intros [H1 H2]. split; [lia|]. destruct (mail_take m ch mail) eqn:Em; [reflexivity|]. apply mail_take_none in Em. contradiction. }
    destruct (waits_on (t_cur tk)) as [ch|] eqn:Ew.
    + destruct ((t_mod tk =? m) && (match mail_take m ch mail with Some _ => true | None => false end)) eqn:Eb.
      * cbn [In]. rewrite Hrest. split.
        -- intros [<-|(tk1 & ch1 & H1 & _ & H2)]; [|exists tk1, ch1; exact (conj H1 H2)].
           exists tk, ch. rewrite Nat.sub_diag. destruct (proj1 (Hhere ch eq_refl) Eb) as [G1 G2]. repeat split; try assumption; lia.
        -- intros (tk1 & ch1 & H1 & H2 & H3). destruct (Nat.eq_dec x i) as [->|Hne]; [left; reflexivity|right].
           exists tk1, ch1. repeat split; try assumption. exact (proj1 H3). exact (proj1 (proj2 H3)). exact (proj2 (proj2 H3)).
      * rewrite Hrest. split.
        -- intros (tk1 & ch1 & H1 & _ & H2). exists tk1, ch1. exact (conj H1 H2).
        -- intros (tk1 & ch1 & H1 & H2 & H3 & H4 & H5). exists tk1, ch1. split; [exact H1|]. split; [|exact (conj H2 (conj H3 (conj H4 H5)))].
           intros ->. rewrite Nat.sub_diag in H2. injection H2 as <-. rewrite Ew in H3. injection H3 as <-.
           assert (true = false) by (rewrite <- Eb; symmetry; apply (Hhere ch eq_refl); split; assumption). discriminate.
    + rewrite Hrest. split.
      * intros (tk1 & ch1 & H1 & _ & H2). exists tk1, ch1. exact (conj H1 H2).
      * intros (tk1 & ch1 & H1 & H2 & H3 & H4). exists tk1, ch1. split; [exact H1|]. split; [|exact (conj H2 (conj H3 H4))].
        intros ->. rewrite Nat.sub_diag in H2. injection H2 as <-. rewrite Ew in H3. discriminate.
Qed.

Lemma ready_receivers_nodup m mail ts : forall i, NoDup (ready_receivers m mail i ts).
Proof.
  induction ts as [|tk r IH]; intros i; cbn [ready_receivers]; [constructor|].
  assert (Hlt : forall x, In x (ready_receivers m mail (S i) r) -> (S i <= x)%nat).
  { intros x Hx. apply ready_receivers_in in Hx. destruct Hx as (_ & _ & H & _). exact H. }
  destruct (waits_on (t_cur tk)); [|apply IH].
  destruct ((t_mod tk =? m) && _); [|apply IH]. constructor; [|apply IH]. intros Hin. specialize (Hlt i Hin). lia.
Qed.

Lemma enqueue_nodup q ks : NoDup q -> NoDup ks -> NoDup (enqueue q ks).
Proof.
  intros Hq Hk. unfold enqueue. apply NoDup_app_intro; [exact Hq|apply NoDup_filter; exact Hk|].
  intros x H1 H2. apply filter_In in H2. destruct H2 as [_ H2]. apply negb_true_iff in H2.
  assert (existsb (Nat.eqb x) q = true) by (apply existsb_exists; exists x; split; [exact H1|apply Nat.eqb_refl]). congruence.
Qed.

Lemma Tie_mono ts t q q' m dr : (forall x, In x q -> In x q') -> Tie ts t q m dr -> Tie ts t q' m dr.
Proof.
  intros Hsub [He Ht Hn]. constructor; [|exact Ht|exact Hn].
  intros k tk s Hk Hs Hm Hq. apply (He k tk s Hk Hs Hm). destruct Hq as [Hq|Hq]; [left; intros H; exact (Hq (Hsub k H))|right; exact Hq].
Qed.

Lemma nodup_all_equal {X} (l : list X) : NoDup l -> (forall x y, In x l -> In y l -> x = y) -> (length l <= 1)%nat.
Proof.
  intros Hn He. destruct l as [|x [|y r]]; cbn [length]; try lia. exfalso.
  inversion Hn as [|? ? Hx _]; subst. apply Hx. left. apply He; [right; left; reflexivity|left; reflexivity].
Qed.

(* a receive that is blocked: its shape *)
Lemma waits_recv a iv ch : aw_kind a iv -> waits_on (Some a) = Some ch -> exists dl, a = AwTimeout (VRecv ch) dl.
Proof.
  destruct a as [s|v dl| | | | | | | |]; try contradiction; cbn [waits_on]; try discriminate.
  destruct v; try contradiction; try discriminate. intros _ H. injection H as <-. exists dl. reflexivity.
Qed.

(* one poll *)
Lemma poll_task_minv A0 A ts0 t m k r w : MInv A0 A ts0 t m (k :: r) w ->
  let w' := fst (poll_task true t m k w) in
  let q' := enqueue r (ready_receivers m (w_mail w') 0 (w_tasks w')) in
  snd (poll_task true t m k w) = false /\ (exists A', MInv A0 A' ts0 t m q' w') /\
  w_fes w' = w_fes w /\ w_now w' = w_now w /\
  (forall m', (m' =? 0) <> (m =? 0) -> drv_of w' m' = drv_of w m') /\
  (forall k', k' <> k -> nth_error (w_tasks w') k' = nth_error (w_tasks w) k') /\
  length (w_tasks w') = length (w_tasks w) /\ w_nid w <= w_nid w' /\
  (forall tk', nth_error (w_tasks w') k = Some tk' -> ~ unspawned tk') /\
  (work (w_tasks w') + 1 <= work (w_tasks w))%nat /\
  (length q' + psends (w_tasks w') <= length r + psends (w_tasks w))%nat.
Proof.
  intros [Hinert Harr Hbase Hnd Hrun Hmid Htie Hrq]. cbn zeta.
  destruct (Hrun k (or_introl eq_refl)) as (tk & Hk & Hmod & Hcase).
  destruct (Forall2_nth _ _ _ _ _ (b_states _ _ _ _ _ _ Hbase) Hk) as (tk0 & Hk0 & Hts).
  assert (Hi0 : init_ok2 A0 tk0).
  { pose proof (b_init _ _ _ _ _ _ Hbase) as Hall. rewrite Forall_forall in Hall. apply Hall. eapply nth_error_In; exact Hk0. }
  assert (Em : t_mod tk0 = m).
  { destruct (tstate_cases _ _ _ _ Hts Hi0) as (E1 & _). rewrite <- E1. exact Hmod. }
  assert (Hfresh0 : forall x id, In id (ents_at x (pending (drv_of w m))) -> id < w_nid w).
  { intros x id Hin. destruct (tie_task _ _ _ _ _ Htie x id Hin) as (k' & tk1 & s & Hk' & Hs & _ & E1 & _). rewrite <- E1.
    exact (proj1 (b_ids _ _ _ _ _ _ Hbase k' tk1 s Hk' Hs)). }
  pose proof (arr_la A t (w_tasks w) (w_mail w) m Harr) as Hla.
  (* the common shape of all cases: after the awaited future (if any) has completed -- driver [drc] -- the poll leaves
     a result that meets [poll_ok] against the log [E] still demanded and the messages [S] still to be sent *)
  assert (Hgen : exists L E S drc (old : N -> Prop) o b n dr' ml,
            expected A0 tk0 = L ++ E /\ t_fin tk = false /\ t_mod tk = t_mod tk0 /\ t_start tk = t_start tk0 /\
            run_steps t m k (t_steps tk) (t_cur tk) (t_iv tk) (drv_of w m) (w_nid w) (t_log tk) (w_mail w) =
              (fr_steps b, fr_cur b, fr_iv b, dr', n, L ++ o, false, ml) /\
            poll_ok t (w_nid w) m k (rcv_of tk0) old drc (w_mail w) (A m) E S (o, b, n, dr', ml) /\
            fut_sends tk = S /\
            (forall id, old id -> exists s, In s (owned tk) /\ sid s = id) /\
            (wres b + 1 <= wt tk)%nat /\
            acts t (drv_of w m) drc /\
            (forall k' tk1 s, k' <> k -> nth_error (w_tasks w) k' = Some tk1 -> In s (held tk1) -> t_mod tk1 = m ->
               (~ In k' r \/ t < deadline s) -> In (sid s) (ents_at (deadline s) (pending drc))) /\
            (forall d id, In id (ents_at d (pending drc)) ->
               exists k' tk1 s, k' <> k /\ nth_error (w_tasks w) k' = Some tk1 /\ In s (held tk1) /\ t_mod tk1 = m /\ sid s = id /\ deadline s = d) /\
            (forall d, NoDup (ents_at d (pending drc)))).
  { (* a task that runs [Sx] from scratch, with interval iv0, on driver drc, channels mail1, expecting arr1 *)
    assert (Hscratch : forall L Sx drc iv0 mail1 arr1, Forall (frag_step2 (rcv_of tk0)) Sx -> iv_idle iv0 -> Mid t drc ->
              (forall x id, In id (ents_at x (pending drc)) -> id < w_nid w) ->
              inert mail1 -> (rcv_of tk0 = true -> LA t m mail1 arr1) -> recv_ok t (iv_abs iv0) arr1 Sx ->
              run_steps t m k (t_steps tk) (t_cur tk) (t_iv tk) (drv_of w m) (w_nid w) (t_log tk) (w_mail w) =
                run_steps t m k Sx None iv0 drc (w_nid w) L mail1 ->
              exists o b n dr' ml,
                run_steps t m k (t_steps tk) (t_cur tk) (t_iv tk) (drv_of w m) (w_nid w) (t_log tk) (w_mail w) =
                  (fr_steps b, fr_cur b, fr_iv b, dr', n, L ++ o, false, ml) /\
                poll_ok t (w_nid w) m k (rcv_of tk0) (iv_ids iv0) drc mail1 arr1 (exp_run t (iv_abs iv0) arr1 Sx) (exp_sends t (iv_abs iv0) Sx) (o, b, n, dr', ml) /\
                (wres b <= 2 * length Sx + 1)%nat).
    { intros L Sx drc iv0 mail1 arr1 HS Hidle Hmidc Hfresh Hin1 Hla1 Hok1 Hrs.
      rewrite (run_steps_frag t m k _ Sx HS iv0 _ _ _ _ Hidle) in Hrs.
      pose proof (frag_run_spec t m k _ Sx HS (w_nid w) iv0 drc mail1 arr1 Hidle Hmidc Hfresh Hin1 Hla1 Hok1) as Hspec.
      pose proof (frag_run_len t m k Sx (w_nid w) iv0 drc mail1) as Hl.
      destruct (frag_run t (w_nid w) m k iv0 Sx drc mail1) as [[[[o b] n] dr'] ml]. cbn [fst snd] in Hl.
      exists o, b, n, dr', ml. split; [exact Hrs|]. split; [exact Hspec|].
      unfold wres. destruct (fr_cur b) as [[]|]; try lia. destruct rearm; lia. }
    destruct Hcase as [(Hun & Hst)|(a & Hc & Hcase')].
    - (* spawned now *)
      pose proof (tstate_unspawned _ _ _ _ Hts Hun) as ->. destruct Hi0 as (I1 & I2 & I3 & I4 & I5 & I6).
      assert (Htu : expected A0 tk0 = exp_run t None (A m) (t_steps tk0) /\ recv_ok t None (A m) (t_steps tk0)).
      { destruct Hts as [_ H1 H2|a st rest _ _ _ _ H5 _ _ _ _ _ _ _ _|_ _ _ _ _ H6 _]; [rewrite Em, Hst in *; split; assumption|congruence|congruence]. }
      destruct Htu as [Hte Hto].
      destruct Htie as [He Ht Hn].
      destruct (Hscratch [] (t_steps tk0) (drv_of w m) None (w_mail w) (A m) I1 I Hmid Hfresh0 Hinert (fun _ => Hla) Hto)
        as (o & b & n & dr' & ml & Hrs & Hspec & Hwr).
      { rewrite I2, I3, I4. reflexivity. }
      exists [], (exp_run t None (A m) (t_steps tk0)), (exp_sends t None (t_steps tk0)), (drv_of w m), (iv_ids None), o, b, n, dr', ml.
      split; [exact Hte|]. split; [exact I5|]. split; [reflexivity|]. split; [reflexivity|].
      split; [exact Hrs|]. split; [exact Hspec|].
      split; [unfold fut_sends; rewrite I2, I5, Hst; reflexivity|].
      split; [intros id (i & E & _); discriminate|].
      split; [unfold wt; rewrite I2, I5; lia|].
      split; [apply acts_refl|].
      split; [|split; [|exact Hn]].
      + intros k' tk1 s Hne Hk' Hs Hm1 Hq. apply (He k' tk1 s Hk' Hs Hm1). destruct Hq as [Hq|Hq]; [left|right; exact Hq].
        intros [E|E]; [apply Hne; symmetry; exact E|exact (Hq E)].
      + intros d id Hin. destruct (Ht d id Hin) as (k' & tk1 & s & Hk' & Hs & Hm1 & E1 & E2).
        exists k', tk1, s. repeat split; try assumption. intros ->. rewrite Hk in Hk'. injection Hk' as <-.
        unfold held in Hs. rewrite I2 in Hs. contradiction.
    - (* woken *)
      destruct (tstate_blocked _ _ _ _ _ Hts Hi0 Hc) as (st & rest & H1 & H2 & H3 & H4 & H7 & Hkind & Hh & Hndp & Hheld & H8 & Hao & H13 & H14).
      rewrite Em in *.
      assert (Hivown : forall id, iv_ids (t_iv tk) id -> exists s, In s (owned tk) /\ sid s = id).
      { intros id (i & Ei & ->). exists (iv_delay i). split; [|reflexivity].
        unfold owned. rewrite Ei. apply in_or_app. right. left. reflexivity. }
      assert (Hwd : forall Hw : aw_wake a (t_iv tk) = t \/ (waits_on (Some a) <> None /\ t < aw_wake a (t_iv tk)),
                let drc := aw_done t a (drv_of w m) in
                acts t (drv_of w m) drc /\ Mid t drc /\ (forall x id, In id (ents_at x (pending drc)) -> id < w_nid w) /\
                (forall k' tk1 s, k' <> k -> nth_error (w_tasks w) k' = Some tk1 -> In s (held tk1) -> t_mod tk1 = m ->
                   (~ In k' r \/ t < deadline s) -> In (sid s) (ents_at (deadline s) (pending drc))) /\
                (forall d id, In id (ents_at d (pending drc)) ->
                   exists k' tk1 s, k' <> k /\ nth_error (w_tasks w) k' = Some tk1 /\ In s (held tk1) /\ t_mod tk1 = m /\ sid s = id /\ deadline s = d) /\
                (forall d, NoDup (ents_at d (pending drc)))).
      { intros Hw. destruct (woken_done A0 A ts0 (w_tasks w) (w_owner w) (w_nid w) t m k r tk a (t_iv tk) (drv_of w m) Hbase Hnd Hmid Htie Hk Hmod Hc Hkind Hheld Hh Hndp Hw)
          as (Ha & Ge & Gt & Gn). cbn zeta.
        split; [exact Ha|]. split; [exact (acts_mid _ _ _ Ha Hmid)|]. split; [|split; [exact Ge|split; [exact Gt|exact Gn]]].
        intros x id Hin. destruct (Gt x id Hin) as (k' & tk1 & s & _ & Hk' & Hs & _ & E1 & _). rewrite <- E1.
        exact (proj1 (b_ids _ _ _ _ _ _ Hbase k' tk1 s Hk' Hs)). }
      destruct (waits_on (Some a)) as [ch|] eqn:Ew.
      + (* a receive *)
        destruct (waits_recv a _ ch Hkind Ew) as (dl & ->). specialize (H14 ch eq_refl).
        cbn [aw_wake aw_held held_sleeps] in *. pose proof (Forall_inv Hh) as Hdl. cbn beta in Hdl.
        destruct Hao as [Hfin Htie0]. destruct (Harr m ch) as (EA & F1 & F2).
        destruct (mail_take m ch (w_mail w)) as [[s mail1]|] eqn:Emt.
        * (* its message is there: Ok *)
          destruct (mail_take_some _ _ _ _ _ Emt) as (Ec & Eo & Ei). destruct (Ei Hinert) as [Hs0 Hin1]. clear Ei.
          assert (Hne0 : chan (t_mod tk) ch (w_mail w) <> []) by (rewrite Hmod, Ec; discriminate).
          destruct (Hrq k tk ch Hk ltac:(rewrite Hc; reflexivity) Hne0) as (_ & _ & Hnow). rewrite Ec in Hnow. pose proof (Forall_inv Hnow) as Hst. cbn beta in Hst.
          unfold chan_inst in EA, F1. rewrite Ec in EA, F1. cbn [map app] in EA, F1. rewrite Hst in EA, F1. rewrite EA in Htie0.
          assert (Hlt : t < deadline dl).
          { destruct Hcase' as [Hw|(ch' & _ & _ & Hw)]; [congruence|exact Hw]. }
          assert (Hhit : aw_hit (deadline dl) (A m ch) = Some t).
          { rewrite EA. cbn [aw_hit]. replace (t <? deadline dl) with true by lia. reflexivity. }
          cbn [aw_rec aw_end aw_arr iv_after] in H8, H13. rewrite Hhit in H8, H13.
          assert (Hwn : waits_on (Some (AwTimeout (VRecv ch) dl)) <> None) by discriminate.
          destruct (Hwd (or_intror (conj Hwn Hlt))) as (Ha & Hmidc & Hfreshc & Ge & Gt & Gn).
          cbn [aw_done] in Ha, Hmidc, Hfreshc, Ge, Gt, Gn. replace (t <? deadline dl) with true in Ha, Hmidc, Hfreshc, Ge, Gt, Gn by lia.
          pose proof (run_steps_woken_recv t m k st rest ch dl (t_iv tk) (drv_of w m) (w_nid w) (t_log tk) (w_mail w) Hdl) as Hrw.
          rewrite Emt in Hrw. unfold sleep_drop in Hrw at 1. rewrite Hs0 in Hrw.
          assert (Hla1 : rcv_of tk0 = true -> LA t m mail1 (arr_pop (A m) ch)).
          { intros _ c. unfold arr_pop. destruct (c =? ch) eqn:E.
            - replace c with ch by lia. exists (isort (fsends m ch (w_tasks w))). rewrite EA. cbn [tl]. pose proof (Forall_inv_tail F1) as F1'.
              split; [reflexivity|]. split; [exact F1'|apply isort_forall; exact F2].
            - rewrite (Eo m c) by (rewrite N.eqb_refl, E; reflexivity). apply Hla. }
          destruct (Hscratch (t_log tk ++ [t; 1]) rest (drop_entry (sid dl) (deadline dl) (drv_of w m)) (t_iv tk) mail1 (arr_pop (A m) ch)
                      H4 (aw_kind_idle _ _ Hkind ltac:(discriminate)) Hmidc Hfreshc Hin1 Hla1 H13)
            as (o & b & n & dr' & ml & Hrs & Hspec & Hwr).
          { rewrite H3, Hc. exact Hrw. }
          assert (Hm1 : mail_ok t m k (rcv_of tk0) (w_mail w) mail1 (A m) (arr_pop (A m) ch) [] []).
          { rewrite H14. unfold mail_ok. split; [reflexivity|]. split; [|split; [|intros _; exact Hin1]].
            - exists (fun c => if c =? ch then 1%nat else 0%nat). intros c. unfold arr_pop. destruct (c =? ch) eqn:E.
              + replace c with ch by lia. rewrite Ec. cbn [skipn length]. split; [reflexivity|]. split; [destruct (A m ch); reflexivity|lia].
              + rewrite (Eo m c) by (rewrite N.eqb_refl, E; reflexivity). cbn [skipn]. repeat split. lia.
            - intros m' c Hne. apply Eo. replace (m' =? m) with false by lia. reflexivity. }
          set (old := fun id => exists s0, In s0 (owned tk) /\ sid s0 = id).
          assert (Hio : forall id, iv_ids (t_iv tk) id -> idsrc (w_nid w) (w_nid w) old id) by (intros id Hid; right; exact (Hivown id Hid)).
          pose proof (poll_ok_pass t (w_nid w) (w_nid w) m k (rcv_of tk0) old (iv_ids (t_iv tk))
                        (drop_entry (sid dl) (deadline dl) (drv_of w m)) (drop_entry (sid dl) (deadline dl) (drv_of w m))
                        (w_mail w) mail1 (A m) (arr_pop (A m) ch) (exp_run t (iv_abs (t_iv tk)) (arr_pop (A m) ch) rest) [] []
                        (exp_sends t (iv_abs (t_iv tk)) rest) (o, b, n, dr', ml)
                        (N.le_refl _) Hio (acts_refl _ _) (fun x => eq_refl) Hm1 Hspec) as Hspec'.
          cbn [app] in Hspec'.
          exists (t_log tk ++ [t; 1]), (exp_run t (iv_abs (t_iv tk)) (arr_pop (A m) ch) rest),
                 (exp_sends t (iv_abs (t_iv tk)) rest), (drop_entry (sid dl) (deadline dl) (drv_of w m)),
                 old, o, b, n, dr', ml.
          split; [rewrite H8, <- app_assoc; reflexivity|]. split; [exact H7|]. split; [exact H1|]. split; [exact H2|].
          split; [exact Hrs|]. split; [exact Hspec'|].
          split; [unfold fut_sends; rewrite Hc, H3; cbn [tl]; rewrite H14 in H4; rewrite !(exp_sends_rcv rest H4); reflexivity|].
          split; [intros id H; exact H|].
          split; [unfold wt; rewrite H3, Hc; cbn [length]; lia|].
          split; [exact Ha|]. split; [exact Ge|split; [exact Gt|exact Gn]].
        * (* no message: the delay has elapsed *)
          apply mail_take_none in Emt.
          assert (Hw : deadline dl = t).
          { destruct Hcase' as [Hw|(ch' & Hw' & Hne & _)]; [exact Hw|]. injection Hw' as <-. contradiction. }
          unfold chan_inst in EA. rewrite Emt in EA. cbn [map app] in EA.
          assert (Hhit : aw_hit (deadline dl) (A m ch) = None).
          { rewrite EA in *. apply isort_forall in F2. destruct (isort (fsends m ch (w_tasks w))) as [|a0 F']; [reflexivity|]. cbn [aw_hit].
            inversion F2; subst. replace (a0 <? deadline dl) with false by lia. reflexivity. }
          cbn [aw_rec aw_end aw_arr iv_after] in H8, H13. rewrite Hhit in H8, H13.
          destruct (Hwd (or_introl Hw)) as (Ha & Hmidc & Hfreshc & Ge & Gt & Gn).
          cbn [aw_done] in Ha, Hmidc, Hfreshc, Ge, Gt, Gn. replace (t <? deadline dl) with false in Ha, Hmidc, Hfreshc, Ge, Gt, Gn by lia.
          pose proof (run_steps_woken_recv t m k st rest ch dl (t_iv tk) (drv_of w m) (w_nid w) (t_log tk) (w_mail w) Hdl) as Hrw.
          replace (mail_take m ch (w_mail w)) with (@None (sleep * mailbox)) in Hrw by (symmetry; apply mail_take_none; exact Emt).
          specialize (Hrw ltac:(lia)). rewrite Hw in H8, H13.
          destruct (Hscratch (t_log tk ++ [t; 0]) rest (drv_of w m) (t_iv tk) (w_mail w) (A m)
                      H4 (aw_kind_idle _ _ Hkind ltac:(discriminate)) Hmidc Hfreshc Hinert (fun _ => Hla) H13)
            as (o & b & n & dr' & ml & Hrs & Hspec & Hwr).
          { rewrite H3, Hc. exact Hrw. }
          exists (t_log tk ++ [t; 0]), (exp_run t (iv_abs (t_iv tk)) (A m) rest), (exp_sends t (iv_abs (t_iv tk)) rest), (drv_of w m),
                 (iv_ids (t_iv tk)), o, b, n, dr', ml.
          split; [rewrite H8, <- app_assoc; reflexivity|]. split; [exact H7|]. split; [exact H1|]. split; [exact H2|].
          split; [exact Hrs|]. split; [exact Hspec|].
          split; [unfold fut_sends; rewrite Hc, H3; cbn [tl]; rewrite H14 in H4; rewrite !(exp_sends_rcv rest H4); reflexivity|].
          split; [exact Hivown|].
          split; [unfold wt; rewrite H3, Hc; cbn [length]; lia|].
          split; [exact Ha|]. split; [exact Ge|split; [exact Gt|exact Gn]].
      + (* an await on timers only *)
        assert (Hwk : aw_wake a (t_iv tk) = t).
        { destruct Hcase' as [Hw|(ch' & Hw' & _)]; [exact Hw|discriminate]. }
        destruct (Hwd (or_introl Hwk)) as (Ha & Hmidc & Hfreshc & Ge & Gt & Gn).
        destruct (aw_noarr a (t_iv tk) (A m) noarr Ew) as (En1 & En2 & En3 & _).
        destruct (aw_reblock t a) as [a'|] eqn:Erb.
        * (* blocked again at once *)
          set (old := fun id => exists s, In s (owned tk) /\ sid s = id).
          destruct (reblock_ok t (w_nid w) m k (rcv_of tk0) old (aw_done t a (drv_of w m)) (w_mail w) (A m) a a' (t_iv tk) rest st Hkind Hwk Erb H4 (mid_sorted _ _ Hmidc))
            as (pre & s' & Ea' & Hspec & Hwr); [| |exact H13|].
          { intros s Hs. exists s. split; [apply held_owned; rewrite Hheld; exact Hs|reflexivity]. }
          { exact Hivown. }
          destruct (run_steps_reblock t m k st rest a a' (t_iv tk) (drv_of w m) (w_nid w) (t_log tk) (w_mail w) Hkind Hh Hwk Erb) as (pre2 & s2 & Ea2 & Hrs).
          rewrite Ea' in Ea2. injection Ea2 as <- <-.
          exists (t_log tk), (aw_rec a (t_iv tk) (A m) ++ exp_run (aw_end a (t_iv tk) (A m)) (iv_abs (iv_after a (t_iv tk))) (aw_arr a (A m)) rest),
                 (exp_sends (aw_end a (t_iv tk) (A m)) (iv_abs (iv_after a (t_iv tk))) rest),
                 (aw_done t a (drv_of w m)), old, [], (Some (a', t_iv tk, st :: rest)), (w_nid w), (register (sid s') (deadline s') (aw_done t a (drv_of w m))), (w_mail w).
          split; [exact H8|]. split; [exact H7|]. split; [exact H1|]. split; [exact H2|].
          split; [rewrite H3, Hc, app_nil_r; exact Hrs|]. split; [exact Hspec|].
          split; [unfold fut_sends; rewrite Hc, H3, En2; reflexivity|].
          split; [intros id H; exact H|].
          split; [unfold wt; rewrite H3, Hc; destruct a as [| | | | | | |[] ? ? ?| |]; cbn [length] in *; lia|].
          split; [exact Ha|]. split; [exact Ge|split; [exact Gt|exact Gn]].
        * pose proof (aw_end_noreblock _ _ (A m) _ Hkind Ew Hwk Erb) as Eend. rewrite En3, Eend in H8, H13.
          destruct (Hscratch (t_log tk ++ aw_rec a (t_iv tk) (A m)) rest (aw_done t a (drv_of w m)) (iv_after a (t_iv tk)) (w_mail w) (A m) H4
                      (iv_after_idle _ _ Hkind) Hmidc Hfreshc Hinert (fun _ => Hla) H13) as (o & b & n & dr' & ml & Hrs & Hspec & Hwr).
          { rewrite H3, Hc. apply run_steps_woken; assumption. }
          exists (t_log tk ++ aw_rec a (t_iv tk) (A m)), (exp_run t (iv_abs (iv_after a (t_iv tk))) (A m) rest),
                 (exp_sends t (iv_abs (iv_after a (t_iv tk))) rest), (aw_done t a (drv_of w m)),
                 (iv_ids (iv_after a (t_iv tk))), o, b, n, dr', ml.
          split; [rewrite H8, <- app_assoc; reflexivity|]. split; [exact H7|]. split; [exact H1|]. split; [exact H2|].
          split; [exact Hrs|]. split; [exact Hspec|].
          split; [unfold fut_sends; rewrite Hc, H3, <- En2, Eend; reflexivity|].
          split; [intros id Hid; exact (Hivown id (iv_after_ids _ _ _ Hid))|].
          split; [unfold wt; rewrite H3; cbn [length]; lia|].
          split; [exact Ha|]. split; [exact Ge|split; [exact Gt|exact Gn]]. }
  destruct Hgen as (L & E & S & drc & old & o & b & n & dr' & ml & Hexp & Hfin & Hm0 & Hs0 & Hrs & Hspec & HfS & Hold & Hwt & Hac & Ge & Gt & Gn).
  destruct Hspec as (Hnn & Hacts & Hents & arr' & Hres).
  assert (Hmidc : Mid t drc) by exact (acts_mid _ _ _ Hac Hmid).
  destruct (poll_task_eq true t m k w tk _ _ _ _ _ _ _ _ Hk Hfin Hrs) as (Hsw & Hfes & Hnow & Hdr & Hoth & Htasks & Hnid & Hown & Hml).
  set (tk' := {| t_mod := t_mod tk; t_start := t_start tk; t_steps := fr_steps b; t_cur := fr_cur b; t_iv := fr_iv b;
                 t_log := L ++ o; t_fin := match fr_steps b with [] => true | _ => false end |}) in *.
  set (A' := if rcv_of tk0 then upd A m arr' else A).
  (* the facts about the state after the poll *)
  set (before := flat_map snd (pending (drv_of w m))) in *.
  set (own' := note_polls true k before (held_sleeps (fr_cur b) (fr_iv b) ++ sent_by k ml) (w_owner w)) in *.
  set (ts' := set_nth k tk' (w_tasks w)) in *.
  assert (Pbase : Base A0 A' ts0 ts' own' n) by (eapply ps_base; eassumption).
  assert (Ptie : Tie ts' t r m dr') by (eapply ps_tie; eassumption).
  assert (Parr : Arr A' t ts' ml) by (eapply ps_arr; eassumption).
  assert (Pinert : inert ml) by (eapply ps_inert; eassumption).
  assert (Pmail : mail_ok t m k (rcv_of tk0) (w_mail w) ml (A m) arr' S (fut_sends tk')) by (eapply ps_mail; eassumption).
  assert (Pother : forall m' c, m' <> m -> chan m' c ml = chan m' c (w_mail w)) by (intros m' c; eapply ps_chan_other; eassumption).
  assert (Pgrow : forall c, rcv_of tk0 = false -> exists extra, chan m c ml = chan m c (w_mail w) ++ extra /\ Forall (fun s => deadline s = t) extra)
    by (intros c; eapply ps_chan_grow; eassumption).
  assert (Pblock : forall ch, waits_on (t_cur tk') = Some ch -> rcv_of tk0 = true /\ chan m ch ml = []) by (intros ch; eapply ps_recv_block; eassumption).
  assert (Pmid : Mid t dr') by (eapply ps_mid; eassumption).
  assert (Pspawned : ~ unspawned tk') by (eapply ps_spawned; eassumption).
  assert (Prun : forall k', In k' r -> runnable (w_tasks w) (w_mail w) t m k' -> runnable ts' ml t m k') by (intros k'; eapply ps_runnable; eassumption).
  rewrite Htasks, Hml. fold ts'.
  set (rr := ready_receivers m ml 0 ts').
  pose proof (b_init _ _ _ _ _ _ Hbase) as Hinit. rewrite Forall_forall in Hinit.
  assert (Hmod' : t_mod tk' = m) by exact Hmod.
  assert (Hsame : nth_error ts' k = Some tk') by (unfold ts'; eapply nth_set_nth_same; exact Hk).
  assert (Hoth' : forall x, x <> k -> nth_error ts' x = nth_error (w_tasks w) x).
  { intros x Hne. unfold ts'. apply nth_set_nth_other. intros E1; apply Hne; symmetry; exact E1. }
  (* a blocked receiver of the old state *)
  assert (Hrecv : forall x tk1 ch, nth_error (w_tasks w) x = Some tk1 -> waits_on (t_cur tk1) = Some ch ->
            exists tk10 dl, nth_error ts0 x = Some tk10 /\ t_cur tk1 = Some (AwTimeout (VRecv ch) dl) /\ rcv_of tk10 = true /\
                            t_mod tk10 = t_mod tk1 /\ held tk1 = [dl]).
  { intros x tk1 ch Hx Hw. destruct (Forall2_nth _ _ _ _ _ (b_states _ _ _ _ _ _ Hbase) Hx) as (tk10 & Hx0 & Hst1).
    pose proof (Hinit tk10 (nth_error_In _ _ Hx0)) as Hi1.
    destruct (t_cur tk1) as [a1|] eqn:Ec1; [|discriminate].
    destruct (tstate_blocked _ _ _ _ _ Hst1 Hi1 Ec1) as (st1 & rest1 & G1 & _ & _ & _ & _ & Gk & _ & _ & Gh & _ & _ & _ & G14).
    destruct (waits_recv a1 _ ch Gk Hw) as (dl & ->). exists tk10, dl. repeat split; try reflexivity; try assumption; [exact (G14 ch Hw)|symmetry; exact G1]. }
  (* the receivers that join the queue: the poll has sent them a message *)
  assert (Hnew : forall x, In x rr -> ~ In x r ->
            x <> k /\ rcv_of tk0 = false /\
            exists tk1 tk10 ch dl, nth_error (w_tasks w) x = Some tk1 /\ nth_error ts0 x = Some tk10 /\
              t_cur tk1 = Some (AwTimeout (VRecv ch) dl) /\ t_mod tk1 = m /\ rcv_of tk10 = true /\ t_mod tk10 = m /\
              chan m ch (w_mail w) = [] /\ chan m ch ml <> [] /\ t < deadline dl).
  { intros x Hx Hnr. unfold rr in Hx. apply ready_receivers_in in Hx. destruct Hx as (tk1 & ch & _ & Hx & Hw & Hm1 & Hne).
    rewrite Nat.sub_0_r in Hx.
    assert (Hxk : x <> k).
    { intros ->. rewrite Hsame in Hx. injection Hx as <-. destruct (Pblock ch Hw) as [_ Hnil]. contradiction. }
    rewrite (Hoth' x Hxk) in Hx. destruct (Hrecv x tk1 ch Hx Hw) as (tk10 & dl & Hx0 & Hc1 & Hr1 & Hmm & Hh1).
    assert (Hold0 : chan m ch (w_mail w) = []).
    { destruct (chan m ch (w_mail w)) as [|s0 l0] eqn:Ec0; [reflexivity|exfalso].
      destruct (Hrq x tk1 ch Hx Hw ltac:(rewrite Hm1, Ec0; discriminate)) as (_ & [->|Hin] & _); [exact (Hxk eq_refl)|exact (Hnr Hin)]. }
    assert (Hr0 : rcv_of tk0 = false).
    { destruct (rcv_of tk0) eqn:Er; [exfalso|reflexivity]. apply Hxk. apply (b_one _ _ _ _ _ _ Hbase x k tk10 tk0 Hx0 Hk0 Hr1 Er). rewrite Hmm, Hm1, Em. reflexivity. }
    split; [exact Hxk|]. split; [exact Hr0|]. exists tk1, tk10, ch, dl. repeat split; try assumption; [rewrite Hmm; exact Hm1|].
    assert (Hin : In (sid dl) (ents_at (deadline dl) (pending (drv_of w m)))).
    { apply (tie_entry _ _ _ _ _ Htie x tk1 dl Hx); [rewrite Hh1; left; reflexivity|exact Hm1|left]. intros [E1|E1]; [exact (Hxk (eq_sym E1))|exact (Hnr E1)]. }
    assert (Hne1 : ents_at (deadline dl) (pending (drv_of w m)) <> []) by (intros E1; rewrite E1 in Hin; contradiction).
    exact (mid_future _ _ Hmid _ _ (ents_at_in _ _ Hne1) Hne1). }
  split; [exact Hsw|]. split; [exists A'; constructor; rewrite ?Hml, ?Htasks, ?Hdr, ?Hown, ?Hnid; fold ts'; fold own'|].
  - exact Pinert.
  - exact Parr.
  - exact Pbase.
  - apply enqueue_nodup; [inversion Hnd; assumption|apply ready_receivers_nodup].
  - intros x Hx. apply enqueue_in in Hx. destruct Hx as [Hx|[Hx Hnr]]; [exact (Prun x Hx (Hrun x (or_intror Hx)))|].
    destruct (Hnew x Hx Hnr) as (Hxk & _ & tk1 & tk10 & ch & dl & G1 & _ & G3 & G4 & _ & _ & _ & G8 & G9).
    exists tk1. split; [rewrite (Hoth' x Hxk); exact G1|]. split; [exact G4|]. right. exists (AwTimeout (VRecv ch) dl). split; [exact G3|].
    right. exists ch. split; [reflexivity|]. split; [exact G8|exact G9].
  - exact Pmid.
  - apply (Tie_mono _ _ r); [|exact Ptie]. intros x Hx. apply enqueue_in. left; exact Hx.
  - intros x tk1 ch Hx Hw Hne.
    destruct (Nat.eq_dec x k) as [->|Hxk].
    { rewrite Hsame in Hx. injection Hx as <-. rewrite Hmod' in Hne. destruct (Pblock ch Hw) as [_ Hnil]. contradiction. }
    rewrite (Hoth' x Hxk) in Hx. destruct (Hrecv x tk1 ch Hx Hw) as (tk10 & dl & Hx0 & Hc1 & Hr1 & Hmm & Hh1).
    destruct (N.eq_dec (t_mod tk1) m) as [Hm1|Hm1].
    + rewrite Hm1 in Hne. split; [exact Hm1|]. split.
      * apply enqueue_in. destruct (in_dec Nat.eq_dec x r) as [Hin|Hnin]; [left; exact Hin|right; split; [|exact Hnin]].
        unfold rr. apply ready_receivers_in. exists tk1, ch. rewrite Nat.sub_0_r, (Hoth' x Hxk). repeat split; try assumption. lia.
      * assert (Hr0 : rcv_of tk0 = false).
        { destruct (rcv_of tk0) eqn:Er; [exfalso|reflexivity]. apply Hxk. apply (b_one _ _ _ _ _ _ Hbase x k tk10 tk0 Hx0 Hk0 Hr1 Er). rewrite Hmm, Hm1, Em. reflexivity. }
        destruct (Pgrow ch Hr0) as (extra & -> & Hex). apply Forall_app. split; [|exact Hex].
        destruct (chan m ch (w_mail w)) as [|s0 l0] eqn:Ec0; [constructor|].
        destruct (Hrq x tk1 ch Hx Hw ltac:(rewrite Hm1, Ec0; discriminate)) as (_ & _ & Hall). rewrite Ec0 in Hall. exact Hall.
    + exfalso. rewrite (Pother (t_mod tk1) ch Hm1) in Hne. exact (Hm1 (proj1 (Hrq x tk1 ch Hx Hw Hne))).
  - repeat split; try assumption.
    + unfold ts'. apply length_set_nth.
    + rewrite Hnid. exact Hnn.
    + intros tk1 H1. rewrite Hsame in H1. injection H1 as <-. exact Pspawned.
    + pose proof (work_set_nth (w_tasks w) k tk tk' Hk) as Hw. fold ts' in Hw.
      assert (Hwt' : wt tk' = wres b).
      { unfold wt, wres, tk'. cbn [t_steps t_cur t_fin]. clear -Hres. unfold poll_body in Hres.
        destruct b as [[[a iv'] l]|]; [|reflexivity]. destruct Hres as (st & rest & -> & _). reflexivity. }
      lia.
    + (* the queue grows at most by the messages that were sent *)
      pose proof (psends_set_nth (w_tasks w) k tk tk' Hk) as Hps. fold ts' in Hps.
      unfold enqueue. rewrite app_length.
      match goal with |- context [length (filter ?f ?l)] => remember (filter f l) as new eqn:Enew end.
      assert (Hnw : forall x, In x new -> In x rr /\ ~ In x r).
      { intros x Hx. rewrite Enew in Hx. apply filter_In in Hx. destruct Hx as [H1 H2]. split; [exact H1|]. intros Hin. apply negb_true_iff in H2.
        assert (existsb (Nat.eqb x) r = true) by (apply existsb_exists; exists x; split; [exact Hin|apply Nat.eqb_refl]). congruence. }
      assert (Hlen1 : (length new <= 1)%nat).
      { apply nodup_all_equal; [rewrite Enew; apply NoDup_filter, ready_receivers_nodup|]. intros x y Hx Hy.
        destruct (Hnw x Hx) as [X1 X2]. destruct (Hnw y Hy) as [Y1 Y2].
        destruct (Hnew x X1 X2) as (_ & _ & _ & tkx0 & _ & _ & _ & Gx0 & _ & _ & Gxr & Gxm & _).
        destruct (Hnew y Y1 Y2) as (_ & _ & _ & tky0 & _ & _ & _ & Gy0 & _ & _ & Gyr & Gym & _).
        apply (b_one _ _ _ _ _ _ Hbase x y tkx0 tky0 Gx0 Gy0 Gxr Gyr). congruence. }
      rewrite HfS in Hps. unfold mail_ok in Pmail.
      clear Enew. destruct new as [|x0 new0]; [cbn [length]|].
      * destruct (rcv_of tk0).
        -- destruct Pmail as (ES & _). rewrite ES in Hps. lia.
        -- destruct Pmail as (toks & _ & _ & _ & ES). rewrite ES, app_length, map_length in Hps. lia.
      * destruct (Hnw x0 ltac:(left; reflexivity)) as [X1 X2].
        destruct (Hnew x0 X1 X2) as (_ & Hr0 & _ & _ & ch & _ & _ & _ & _ & _ & _ & _ & Gold & Gnew & _).
        rewrite Hr0 in Pmail. destruct Pmail as (toks & Eml & _ & _ & ES). rewrite ES, app_length, map_length in Hps.
        assert (toks <> []).
        { intros ->. rewrite app_nil_r in Eml. rewrite Eml in Gnew. contradiction. }
        destruct toks; [contradiction|]. cbn [length] in *. lia.
Qed.


(* the executor's run over the whole queue; receivers that are sent a message join it *)
Lemma run_queue_frag A0 ts0 t m : forall fuel q A w, (length q + psends (w_tasks w) <= fuel)%nat -> MInv A0 A ts0 t m q w ->
  let w' := run_queue true fuel t m q w in
  (exists A', MInv A0 A' ts0 t m [] w') /\ w_fes w' = w_fes w /\ w_now w' = w_now w /\
  (forall m', (m' =? 0) <> (m =? 0) -> drv_of w' m' = drv_of w m') /\
  (forall k' tk1, nth_error (w_tasks w) k' = Some tk1 -> ~ In k' q -> (t_cur tk1 = None \/ t_mod tk1 <> m) ->
     nth_error (w_tasks w') k' = Some tk1) /\
  length (w_tasks w') = length (w_tasks w) /\ w_nid w <= w_nid w' /\
  (forall k' tk1 tk2, nth_error (w_tasks w) k' = Some tk1 -> nth_error (w_tasks w') k' = Some tk2 -> ~ unspawned tk1 -> ~ unspawned tk2) /\
  (forall k tk', In k q -> nth_error (w_tasks w') k = Some tk' -> ~ unspawned tk') /\
  (work (w_tasks w') + length q <= work (w_tasks w))%nat.
Proof.
  induction fuel as [|f IH]; intros q A w Hlen Hm; cbn zeta.
  - destruct q; [|cbn [length] in Hlen; lia]. cbn [run_queue].
    split; [exists A; exact Hm|]. split; [reflexivity|]. split; [reflexivity|]. split; [reflexivity|].
    split; [intros k' tk1 H _ _; exact H|]. split; [reflexivity|]. split; [lia|].
    split; [intros k' tk1 tk2 H1 H2 Hn; rewrite H1 in H2; injection H2 as <-; exact Hn|]. split; [intros k tk' []|cbn [length]; lia].
  - destruct q as [|k r].
    { cbn [run_queue].
      split; [exists A; exact Hm|]. split; [reflexivity|]. split; [reflexivity|]. split; [reflexivity|].
      split; [intros k' tk1 H _ _; exact H|]. split; [reflexivity|]. split; [lia|].
      split; [intros k' tk1 tk2 H1 H2 Hn; rewrite H1 in H2; injection H2 as <-; exact Hn|]. split; [intros k tk' []|cbn [length]; lia]. }
    cbn [run_queue].
    destruct (poll_task_minv A0 A ts0 t m k r w Hm) as (Hsw & (A1 & Hm') & H1 & H2 & H3 & H4 & H5 & H6 & H7 & H8 & H9).
    destruct (poll_task true t m k w) as [w1 sw]. cbn [fst snd] in *. subst sw.
    set (q1 := enqueue r (ready_receivers m (w_mail w1) 0 (w_tasks w1))) in *.
    cbn [length] in Hlen. destruct (IH q1 A1 w1 ltac:(lia) Hm') as (G0 & G1 & G2 & G3 & G4 & G5 & G6 & G7 & G8 & G9).
    split; [exact G0|]. split; [rewrite G1; exact H1|]. split; [rewrite G2; exact H2|].
    split; [intros m' Hne; rewrite (G3 m' Hne); exact (H3 m' Hne)|].
    assert (Hkr : ~ In k r) by (pose proof (mi_nodup _ _ _ _ _ _ _ Hm) as Hnd; inversion Hnd; assumption).
    split; [|split; [rewrite G5; exact H5|split; [lia|split; [|split]]]].
    + intros k' tk1 Hk' Hn Hc. assert (Hne : k' <> k) by (intros ->; apply Hn; left; reflexivity).
      apply G4; [rewrite (H4 k' Hne); exact Hk'| |exact Hc].
      intros Hin. unfold q1 in Hin. apply enqueue_in in Hin. destruct Hin as [Hin|[Hin _]]; [apply Hn; right; exact Hin|].
      apply ready_receivers_in in Hin. destruct Hin as (tk2 & ch & _ & Hx & Hw & Hmm & _). rewrite Nat.sub_0_r, (H4 k' Hne), Hk' in Hx. injection Hx as <-.
      destruct Hc as [Hc|Hc]; [rewrite Hc in Hw; discriminate|exact (Hc Hmm)].
    + intros k' tk1 tk2 Hk1 Hk2 Hns. destruct (nth_error (w_tasks w1) k') as [tkm|] eqn:Ekm.
      * apply (G7 k' tkm tk2 Ekm Hk2). destruct (Nat.eq_dec k' k) as [->|Hne]; [exact (H7 tkm Ekm)|].
        rewrite (H4 k' Hne), Hk1 in Ekm. injection Ekm as <-. exact Hns.
      * exfalso. apply nth_error_None in Ekm. rewrite H5 in Ekm. apply nth_error_None in Ekm. congruence.
    + intros k' tk' [<-|Hin] Hk'.
      * destruct (nth_error (w_tasks w1) k) as [tkm|] eqn:Ekm.
        -- exact (G7 k tkm tk' Ekm Hk' (H7 tkm eq_refl)).
        -- exfalso. apply nth_error_None in Ekm. assert (Hk2 : nth_error (w_tasks (run_queue true f t m q1 w1)) k <> None) by (rewrite Hk'; discriminate).
           apply nth_error_Some in Hk2. rewrite G5 in Hk2. lia.
      * apply (G8 k' tk'); [unfold q1; apply enqueue_in; left; exact Hin|exact Hk'].
    + assert (length r <= length q1)%nat by (unfold q1, enqueue; rewrite app_length; lia). cbn [length]. lia.
Qed.

(* the messages still to be sent are bounded by the steps still to go *)
Lemma exp_sends_len steps : forall now iv, (length (exp_sends now iv steps) <= length steps)%nat.
Proof.
  induction steps as [|st r IH]; intros now iv; cbn [exp_sends length]; [lia|]. rewrite app_length.
  specialize (IH (step_time now iv noarr st) (step_iv now iv st)). destruct st; cbn [length]; lia.
Qed.

Lemma psends_bound ts : (psends ts <= fold_right (fun tk n => (length (t_steps tk) + n)%nat) 0%nat ts)%nat.
Proof.
  induction ts as [|tk r IH]; cbn [psends fold_right]; [lia|]. fold (psends r).
  assert (length (fut_sends tk) <= length (t_steps tk))%nat.
  { unfold fut_sends. destruct (t_cur tk).
    - pose proof (exp_sends_len (tl (t_steps tk)) (aw_end a (t_iv tk) noarr) (iv_abs (iv_after a (t_iv tk)))). destruct (t_steps tk); cbn [tl length] in *; lia.
    - destruct (t_fin tk); [cbn [length]; lia|apply exp_sends_len]. }
  lia.
Qed.
