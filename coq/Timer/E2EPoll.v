(* End-to-end argument, fragment {sleep, sleep_until, log}: one poll of a task inside an event
   of its module, and the executor's run over the queue of woken / spawned tasks. *)
From Coq Require Import List Arith NArith Bool Lia Sorting.Sorted Permutation ZifyBool.
From DesVerif Require Import CQueue.Model CQueue.Spec CQueue.SpecProps Timer.Driver Timer.QueueLemmas Timer.Inv
  Timer.Futures Timer.FutureLaws Timer.TempOps Timer.Model Timer.Compose Timer.EvSet Timer.Frag Timer.E2EInv.
Import ListNotations.
Open Scope N_scope.

(* what is known of the tasks that are about to be polled at instant t in module m: spawned
   now, or blocked on a future that completes exactly now *)
Definition runnable (ts : list task) (t m : N) (k : nat) : Prop :=
  exists tk, nth_error ts k = Some tk /\ t_mod tk = m /\
    ((unspawned tk /\ t_start tk = t) \/ exists a, t_cur tk = Some a /\ aw_wake a = t).

Lemma waker_of_cons own id k id' : waker_of ((id, k) :: own) id' = if id =? id' then Some k else waker_of own id'.
Proof. reflexivity. Qed.

Lemma apply_ops_rest_nw ops : forall dr, next_wakeup (apply_ops ops dr) = next_wakeup dr /\ scheduled (apply_ops ops dr) = scheduled dr.
Proof.
  unfold apply_ops. induction ops as [|o r IH]; intros dr; cbn [fold_left]; [split; reflexivity|].
  destruct (IH (apply_op dr o)) as [H1 H2]. destruct (apply_op_rest dr o) as [E1 E2]. rewrite H1, H2, E1, E2. split; reflexivity.
Qed.

(* the wakers noted for the Sleeps a task holds when it blocks *)
Lemma note_polls_held k before ss : forall own, Forall (fun s => handle s <> None) ss ->
  forall id, waker_of (note_polls true k before ss own) id = if existsb (N.eqb id) (map sid ss) then Some k else waker_of own id.
Proof.
  unfold note_polls. induction ss as [|s r IH]; intros own Hh id; cbn [fold_left map existsb]; [reflexivity|].
  inversion Hh as [|? ? Hs Hr]; subst. rewrite (IH _ Hr). unfold note_poll.
  destruct (handle s) as [h|]; [|contradiction Hs; reflexivity]. rewrite andb_false_r. rewrite waker_of_cons.
  destruct (existsb (N.eqb id) (map sid r)); [rewrite orb_true_r; reflexivity|]. rewrite orb_false_r.
  rewrite N.eqb_sym. reflexivity.
Qed.

Lemma new_at_in a x id : In id (new_at a x) <-> exists s, In s (aw_held a) /\ sid s = id /\ deadline s = x.
Proof.
  unfold new_at. rewrite in_map_iff. split.
  - intros (s & E & Hin). apply filter_In in Hin. destruct Hin as [Hin Hd]. exists s. repeat split; [exact Hin|exact E|lia].
  - intros (s & Hin & E & Hd). exists s. split; [exact E|]. apply filter_In. split; [exact Hin|lia].
Qed.

Lemma NoDup_map_filter {A B} (f : A -> B) (g : A -> bool) l : NoDup (map f l) -> NoDup (map f (filter g l)).
Proof.
  induction l as [|a r IH]; cbn [map filter]; intros H; [constructor|]. inversion H as [|? ? Ha Hr]; subst.
  destruct (g a); [|exact (IH Hr)]. cbn [map]. constructor; [|exact (IH Hr)].
  intros Hin. apply Ha. apply in_map_iff in Hin. destruct Hin as (x & E & Hx). apply filter_In in Hx. apply in_map_iff. exists x. split; [exact E|exact (proj1 Hx)].
Qed.

Lemma NoDup_app_intro {A} (l1 l2 : list A) : NoDup l1 -> NoDup l2 -> (forall x, In x l1 -> In x l2 -> False) -> NoDup (l1 ++ l2).
Proof.
  induction l1 as [|a r IH]; intros H1 H2 Hd; cbn [app]; [exact H2|]. inversion H1 as [|? ? Ha Hr]; subst. constructor.
  - intros Hin. apply in_app_or in Hin. destruct Hin as [Hin|Hin]; [exact (Ha Hin)|exact (Hd a (or_introl eq_refl) Hin)].
  - apply IH; [exact Hr|exact H2|]. intros x Hx1 Hx2. exact (Hd x (or_intror Hx1) Hx2).
Qed.

Section PollStep.
  (* [drc]: the driver after the future the task was blocked on has completed (for a task that
     is spawned: the driver as it is); it holds no entry of task k any more *)
  Variables (ts0 ts : list task) (own : wakers) (nid : N) (drc : driver) (t m : N) (k : nat) (r : list nat).
  Variables (tk tk0 : task) (L : list N) (Sx : list step) (o : list N) (b : option (aw * list step)) (n : N) (dr' : driver).
  Variable before : list N.

  Hypothesis Hbase : Base ts0 ts own nid.
  Hypothesis Hnd : NoDup (k :: r).
  Hypothesis Hmid : Mid t drc.
  Hypothesis Hte : forall k' tk1 s, k' <> k -> nth_error ts k' = Some tk1 -> In s (held tk1) -> t_mod tk1 = m ->
                   (~ In k' r \/ t < deadline s) -> In (sid s) (ents_at (deadline s) (pending drc)).
  Hypothesis Htt : forall d id, In id (ents_at d (pending drc)) ->
                   exists k' tk1 s, k' <> k /\ nth_error ts k' = Some tk1 /\ In s (held tk1) /\ t_mod tk1 = m /\ sid s = id /\ deadline s = d.
  Hypothesis Htn : forall d, NoDup (ents_at d (pending drc)).
  Hypothesis Hk : nth_error ts k = Some tk.
  Hypothesis Hk0 : nth_error ts0 k = Some tk0.
  Hypothesis Hmod : t_mod tk = m.
  Hypothesis Hmod0 : t_mod tk = t_mod tk0.
  Hypothesis Hst0 : t_start tk = t_start tk0.
  Hypothesis HS : Forall frag_step Sx.
  Hypothesis Hrun : frag_run t nid Sx drc = (o, b, n, dr').
  Hypothesis Hexp : expected tk0 = L ++ exp_run t Sx.

  Let tk' := {| t_mod := t_mod tk; t_start := t_start tk; t_steps := fr_steps b; t_cur := fr_cur b; t_iv := None;
                t_log := L ++ o; t_fin := match fr_steps b with [] => true | _ => false end |}.
  Let ts' := set_nth k tk' ts.
  Let own' := note_polls true k before (held_sleeps (fr_cur b) None ++ []) own.

  Lemma ps_fresh : forall x id, In id (ents_at x (pending drc)) -> id < nid.
  Proof.
    intros x id Hin. destruct (Htt x id Hin) as (k' & tk1 & s & _ & Hk' & Hs & _ & E & _). rewrite <- E.
    exact (proj1 (b_ids _ _ _ _ Hbase k' tk1 s Hk' Hs)).
  Qed.

  Lemma ps_cases : nid <= n /\
    ((b = None /\ exp_run t Sx = o) \/
     exists a st rest, b = Some (a, st :: rest) /\ Forall frag_step rest /\
        exp_run t Sx = o ++ aw_rec a ++ exp_run (aw_wake a) rest /\ blocked_ok t nid n a).
  Proof.
    pose proof (frag_run_spec t Sx HS nid drc Hmid ps_fresh) as H. rewrite Hrun in H. revert H. generalize b. intros b0 (Hn & _ & _ & Hb).
    split; [exact Hn|]. destruct b0 as [[a l]|]; [right|left; split; [reflexivity|exact Hb]].
    destruct Hb as (st & rest & -> & H). exists a, st, rest. split; [reflexivity|exact H].
  Qed.

  Lemma ps_acts : acts t drc dr'.
  Proof. pose proof (frag_run_spec t Sx HS nid drc Hmid ps_fresh) as H. rewrite Hrun in H. exact (proj1 (proj2 H)). Qed.

  Lemma ps_ents x : ents_at x (pending dr') =
    ents_at x (pending drc) ++ match b with Some (a, _) => new_at a x | None => [] end.
  Proof. pose proof (frag_run_spec t Sx HS nid drc Hmid ps_fresh) as H. rewrite Hrun in H. exact (proj1 (proj2 (proj2 H)) x). Qed.

  Lemma ps_held : held tk' = match b with Some (a, _) => aw_held a | None => [] end.
  Proof. unfold held, tk'. cbn [t_cur t_iv]. generalize b. intros [[a l]|]; reflexivity. Qed.

  Lemma ps_held_in s : In s (held tk') ->
    exists a st rest, b = Some (a, st :: rest) /\ In s (aw_held a) /\ t < deadline s /\ handle s = Some (deadline s) /\ nid <= sid s /\ sid s < n.
  Proof.
    rewrite ps_held. destruct ps_cases as (_ & [(Eb & _)|(a & st & rest & Eb & _ & _ & (_ & _ & _ & Hall))]); rewrite Eb; [intros []|].
    intros Hin. rewrite Forall_forall in Hall. destruct (Hall s Hin) as (H1 & H2 & H3 & H4). exists a, st, rest. repeat split; assumption.
  Qed.

  Lemma ps_waker id : waker_of own' id =
    if existsb (N.eqb id) (map sid (held tk')) then Some k else waker_of own id.
  Proof.
    unfold own'. rewrite app_nil_r. rewrite ps_held.
    destruct ps_cases as (_ & [(Eb & _)|(a & st & rest & Eb & _ & _ & (_ & _ & _ & Hall))]); rewrite Eb; cbn [fr_cur held_sleeps].
    - reflexivity.
    - apply note_polls_held. eapply Forall_impl; [|exact Hall]. cbn beta. intros s (_ & H & _). rewrite H. discriminate.
  Qed.

  Lemma ps_tstate : tstate tk0 tk'.
  Proof.
    unfold tk'. destruct ps_cases as (_ & [(Eb & Ho)|(a & st & rest & Eb & Hf & He & (Hk1 & Hw & Hndp & Hall))]); rewrite Eb.
    - apply TDn; cbn [t_mod t_start t_steps t_cur t_iv t_fin t_log fr_steps fr_cur]; try assumption; try reflexivity.
      rewrite Hexp, Ho. reflexivity.
    - apply (TBl _ _ a st rest); cbn [t_mod t_start t_steps t_cur t_iv t_fin t_log fr_steps fr_cur]; try assumption; try reflexivity.
      + eapply Forall_impl; [|exact Hall]. cbn beta. intros s (_ & H & _). exact H.
      + rewrite Hexp, He, app_assoc. reflexivity.
  Qed.

  Lemma ps_nth_other k' : k' <> k -> nth_error ts' k' = nth_error ts k'.
  Proof. intros H. unfold ts'. apply nth_set_nth_other. intros E; apply H; symmetry; exact E. Qed.

  Lemma ps_nth_same : nth_error ts' k = Some tk'.
  Proof. unfold ts'. eapply nth_set_nth_same. exact Hk. Qed.

  Lemma ps_base : Base ts0 ts' own' n.
  Proof.
    destruct Hbase as [Hst Hin Hids Hdis]. destruct ps_cases as (Hn & _).
    assert (Hold : forall k' tk1 s, k' <> k -> nth_error ts' k' = Some tk1 -> In s (held tk1) -> sid s < nid /\ waker_of own (sid s) = Some k').
    { intros k' tk1 s Hne Hk' Hs. rewrite (ps_nth_other k' Hne) in Hk'. exact (Hids k' tk1 s Hk' Hs). }
    constructor.
    - unfold ts'. eapply Forall2_set_nth; [exact Hst|exact Hk0|exact ps_tstate].
    - exact Hin.
    - intros k' tk1 s Hk' Hs. rewrite ps_waker. destruct (Nat.eq_dec k' k) as [->|Hne].
      + rewrite ps_nth_same in Hk'. injection Hk' as <-. destruct (ps_held_in s Hs) as (a & st & rest & _ & _ & _ & _ & _ & Hlt).
        split; [exact Hlt|]. replace (existsb (N.eqb (sid s)) (map sid (held tk'))) with true; [reflexivity|].
        symmetry. apply existsb_exists. exists (sid s). split; [apply in_map; exact Hs|apply N.eqb_refl].
      + destruct (Hold k' tk1 s Hne Hk' Hs) as [H1 H2]. split; [lia|].
        replace (existsb (N.eqb (sid s)) (map sid (held tk'))) with false; [exact H2|].
        symmetry. apply not_true_is_false. intros Hex. apply existsb_exists in Hex. destruct Hex as (i & Hi & E).
        apply in_map_iff in Hi. destruct Hi as (s' & <- & Hs'). destruct (ps_held_in s' Hs') as (_ & _ & _ & _ & _ & _ & _ & Hge & _). lia.
    - intros k1 k2 tk1 tk2 s1 s2 H1 H2 B1 B2 E.
      destruct (Nat.eq_dec k1 k) as [->|N1], (Nat.eq_dec k2 k) as [->|N2]; [reflexivity| | |].
      + rewrite ps_nth_same in H1. injection H1 as <-. destruct (ps_held_in s1 B1) as (_ & _ & _ & _ & _ & _ & _ & Hge & _).
        pose proof (proj1 (Hold k2 tk2 s2 N2 H2 B2)). lia.
      + rewrite ps_nth_same in H2. injection H2 as <-. destruct (ps_held_in s2 B2) as (_ & _ & _ & _ & _ & _ & _ & Hge & _).
        pose proof (proj1 (Hold k1 tk1 s1 N1 H1 B1)). lia.
      + rewrite (ps_nth_other k1 N1) in H1. rewrite (ps_nth_other k2 N2) in H2. exact (Hdis _ _ _ _ _ _ H1 H2 B1 B2 E).
  Qed.

  Lemma ps_mid : Mid t dr'.
  Proof. exact (acts_mid _ _ _ ps_acts Hmid). Qed.

  Lemma ps_tie : Tie ts' t r m dr'.
  Proof.
    assert (Hkr : ~ In k r) by (inversion Hnd; assumption).
    constructor.
    - intros k' tk1 s Hk' Hs Hm Hq. rewrite ps_ents. destruct (Nat.eq_dec k' k) as [->|Hne].
      + rewrite ps_nth_same in Hk'. injection Hk' as <-. destruct (ps_held_in s Hs) as (a & st & rest & Eb & Hin & _).
        rewrite Eb. apply in_or_app. right. apply new_at_in. exists s. repeat split; [exact Hin].
      + rewrite (ps_nth_other k' Hne) in Hk'. apply in_or_app. left. exact (Hte k' tk1 s Hne Hk' Hs Hm Hq).
    - intros d id Hin. rewrite ps_ents in Hin. apply in_app_or in Hin. destruct Hin as [Hold|Hnew].
      + destruct (Htt d id Hold) as (k' & tk1 & s & Hne & Hk' & Hs & Hm & E1 & E2).
        exists k', tk1, s. rewrite (ps_nth_other k' Hne). repeat split; assumption.
      + destruct ps_cases as (_ & [(Eb & _)|(a & st & rest & Eb & _)]); rewrite Eb in Hnew; [contradiction|].
        apply new_at_in in Hnew. destruct Hnew as (s & Hs & E1 & E2).
        exists k, tk', s. rewrite ps_nth_same, ps_held, Eb. repeat split; try assumption; try (unfold tk'; cbn [t_mod]; exact Hmod).
    - intros d. rewrite ps_ents.
      destruct ps_cases as (_ & [(Eb & _)|(a & st & rest & Eb & _ & _ & (_ & _ & Hndp & Hall))]); rewrite Eb; [rewrite app_nil_r; apply Htn|].
      apply NoDup_app_intro; [apply Htn|unfold new_at; apply NoDup_map_filter; exact Hndp|].
      intros id H1 H2. pose proof (ps_fresh d id H1). apply new_at_in in H2. destruct H2 as (s & Hs & <- & _).
      rewrite Forall_forall in Hall. destruct (Hall s Hs) as (_ & _ & Hge & _). lia.
  Qed.

  Lemma ps_live : NwLive drc -> NwLive dr'.
  Proof.
    intros Hn w0 Hw. destruct ps_acts as (ops & _ & Eq). rewrite Eq in Hw.
    rewrite (proj1 (apply_ops_rest_nw ops drc)) in Hw. pose proof (Hn w0 Hw) as Hne.
    rewrite ps_ents. intros Hc. apply app_eq_nil in Hc. exact (Hne (proj1 Hc)).
  Qed.

  Lemma ps_nw : next_wakeup dr' = next_wakeup drc.
  Proof. destruct ps_acts as (ops & _ & Eq). rewrite Eq. exact (proj1 (apply_ops_rest_nw ops drc)). Qed.

  Lemma ps_spawned : ~ unspawned tk'.
  Proof.
    unfold tk', unspawned. cbn [t_cur t_fin].
    destruct ps_cases as (_ & [(Eb & _)|(a & st & rest & Eb & _)]); rewrite Eb; cbn [fr_cur fr_steps]; intros [H1 H2]; discriminate.
  Qed.

  Lemma ps_runnable k' : In k' r -> runnable ts t m k' -> runnable ts' t m k'.
  Proof.
    intros Hin (tk1 & H1 & H2). exists tk1. split; [|exact H2].
    rewrite ps_nth_other; [exact H1|]. intros ->. inversion Hnd; contradiction.
  Qed.
End PollStep.

(* ---- the work that is left: steps to go, plus one for a task that is still to be spawned ---- *)
Definition wt (tk : task) : nat :=
  (length (t_steps tk) + match t_cur tk, t_fin tk with None, false => 1 | _, _ => 0 end)%nat.

Definition work (ts : list task) : nat := fold_right (fun tk n => (wt tk + n)%nat) 0%nat ts.

Lemma work_set_nth ts : forall k tk tk', nth_error ts k = Some tk ->
  (work (set_nth k tk' ts) + wt tk = work ts + wt tk')%nat.
Proof.
  induction ts as [|a r IH]; intros k tk tk' Hk; [destruct k; discriminate|].
  destruct k as [|k]; cbn [nth_error set_nth work fold_right] in *.
  - injection Hk as ->. fold (work r). lia.
  - fold (work r) in *. fold (work (set_nth k tk' r)). pose proof (IH k tk tk' Hk). lia.
Qed.

Lemma frag_run_len t0 steps : forall nid dr, (length (fr_steps (snd (fst (fst (frag_run t0 nid steps dr))))) <= length steps)%nat.
Proof.
  induction steps as [|st r IH]; intros nid dr; cbn [frag_run]; [cbn; lia|].
  destruct st as [d|t|d v| | | | |polled d1 d2|d| | | | | |]; cbn [fst snd fr_steps length]; try lia;
  try (destruct v as [x|]; cbn [fst snd fr_steps length]; try lia);
  try match goal with |- context [if ?c then _ else _] => destruct c; cbn [fst snd fr_steps length]; try lia end;
  match goal with IHx : forall _ _, _ |- context [frag_run _ ?n0 _ ?d0] =>
    specialize (IHx n0 d0); destruct (frag_run t0 n0 r d0) as [[[o b] n'] d']; cbn [fst snd] in *; lia end.
Qed.

(* ---- inside an event of module m at instant t, with [q] still to be polled ---- *)
Record MInv (ts0 : list task) (t m : N) (q : list nat) (w : world) : Prop := {
  mi_mail : w_mail w = [];
  mi_base : Base ts0 (w_tasks w) (w_owner w) (w_nid w);
  mi_nodup : NoDup q;
  mi_run : forall k, In k q -> runnable (w_tasks w) t m k;
  mi_mid : Mid t (drv_of w m);
  mi_tie : Tie (w_tasks w) t q m (drv_of w m);
  mi_live : NwLive (drv_of w m);
  (* a task is woken only by a due timer, and then next_wakeup was due as well: it has been cleared *)
  mi_nwq : forall k tk a, In k q -> nth_error (w_tasks w) k = Some tk -> t_cur tk = Some a -> next_wakeup (drv_of w m) = None }.

Lemma poll_task_eq wfix now m k w tk steps cur iv dr nid lg sw mail :
  nth_error (w_tasks w) k = Some tk -> t_fin tk = false ->
  run_steps now m k (t_steps tk) (t_cur tk) (t_iv tk) (drv_of w m) (w_nid w) (t_log tk) (w_mail w) =
    (steps, cur, iv, dr, nid, lg, sw, mail) ->
  let w' := fst (poll_task wfix now m k w) in
  snd (poll_task wfix now m k w) = sw /\ w_fes w' = w_fes w /\ w_now w' = w_now w /\ drv_of w' m = dr /\
  (forall m', (m' =? 0) <> (m =? 0) -> drv_of w' m' = drv_of w m') /\
  w_tasks w' = set_nth k {| t_mod := t_mod tk; t_start := t_start tk; t_steps := steps; t_cur := cur; t_iv := iv;
                            t_log := lg; t_fin := match steps with [] => true | _ => false end |} (w_tasks w) /\
  w_nid w' = nid /\
  w_owner w' = note_polls wfix k (flat_map snd (pending (drv_of w m))) (held_sleeps cur iv ++ sent_by k mail) (w_owner w) /\
  w_mail w' = mail.
Proof.
  intros Hk Hf Hr. cbn zeta. unfold poll_task. rewrite Hk, Hf, Hr. unfold set_drv, drv_of.
  destruct (m =? 0) eqn:Em; cbn [fst snd w_fes w_now w_d0 w_d1 w_tasks w_nid w_owner w_mail];
    (repeat split; try reflexivity); intros m' Hne; destruct (m' =? 0); try reflexivity; contradiction Hne; reflexivity.
Qed.

Lemma tstate_unspawned tk0 tk : tstate tk0 tk -> unspawned tk -> tk = tk0.
Proof.
  intros [->|a st rest _ _ _ _ Hc _ _ _ _ _ _|_ _ _ _ _ Hf _] [Hc' Hf']; [reflexivity|rewrite Hc in Hc'; discriminate|rewrite Hf in Hf'; discriminate].
Qed.

Lemma tstate_blocked tk0 tk a : tstate tk0 tk -> init_ok tk0 -> t_cur tk = Some a ->
  exists st rest, t_mod tk = t_mod tk0 /\ t_start tk = t_start tk0 /\ t_steps tk = st :: rest /\ Forall frag_step rest /\
    t_iv tk = None /\ t_fin tk = false /\ aw_kind a /\ Forall (fun s => handle s = Some (deadline s)) (aw_held a) /\
    NoDup (map sid (aw_held a)) /\ held tk = aw_held a /\
    expected tk0 = t_log tk ++ aw_rec a ++ exp_run (aw_wake a) rest.
Proof.
  intros H (_ & I2 & _) Hc.
  destruct H as [->|a' st rest H1 H2 H3 H4 H5 H6 H7 H8 H9 H10 H11|_ _ _ H4 _ _ _].
  - rewrite I2 in Hc. discriminate.
  - rewrite H5 in Hc. injection Hc as ->. exists st, rest. repeat split; try assumption. unfold held. rewrite H5, H6. reflexivity.
  - rewrite H4 in Hc. discriminate.
Qed.

(* the future a woken task was blocked on completes: its Sleep that is still registered is dropped *)
Lemma woken_done ts0 ts own nid t m k r tk a dr :
  Base ts0 ts own nid -> NoDup (k :: r) -> Mid t dr -> Tie ts t (k :: r) m dr ->
  nth_error ts k = Some tk -> t_mod tk = m -> t_cur tk = Some a -> aw_kind a -> held tk = aw_held a ->
  Forall (fun s => handle s = Some (deadline s)) (aw_held a) -> NoDup (map sid (aw_held a)) -> aw_wake a = t ->
  let drc := aw_done t a dr in
  acts t dr drc /\
  (forall k' tk1 s, k' <> k -> nth_error ts k' = Some tk1 -> In s (held tk1) -> t_mod tk1 = m ->
     (~ In k' r \/ t < deadline s) -> In (sid s) (ents_at (deadline s) (pending drc))) /\
  (forall d id, In id (ents_at d (pending drc)) ->
     exists k' tk1 s, k' <> k /\ nth_error ts k' = Some tk1 /\ In s (held tk1) /\ t_mod tk1 = m /\ sid s = id /\ deadline s = d) /\
  (forall d, NoDup (ents_at d (pending drc))).
Proof.
  intros Hbase Hnd Hmid [He Ht Hn] Hk Hmod Hc Hkind Hheld Hh Hndp Hw. cbn zeta.
  (* entries of task k that are still in the driver have a deadline after t *)
  assert (Hown : forall d id, In id (ents_at d (pending dr)) -> forall s, In s (held tk) -> sid s = id -> deadline s = d /\ t < d).
  { intros d id Hin s Hs E. destruct (Ht d id Hin) as (k' & tk1 & s' & Hk' & Hs' & _ & E1 & E2).
    assert (k' = k) by (apply (b_distinct _ _ _ _ Hbase k' k tk1 tk s' s Hk' Hk Hs' Hs); congruence). subst k'.
    rewrite Hk in Hk'. injection Hk' as <-.
    assert (s' = s).
    { rewrite Hheld in Hs, Hs'. clear -Hndp Hs Hs' E E1. induction (aw_held a) as [|x l IH]; [contradiction|].
      cbn [map] in Hndp. inversion Hndp as [|? ? Hx Hl]; subst. destruct Hs as [->|Hs], Hs' as [->|Hs']; try reflexivity.
      - exfalso. apply Hx. apply in_map_iff. exists s'. split; [congruence|exact Hs'].
      - exfalso. apply Hx. apply in_map_iff. exists s. split; [congruence|exact Hs].
      - exact (IH Hl Hs Hs'). }
    subst s'. split; [exact E2|]. assert (Hne : ents_at d (pending dr) <> []) by (intros E0; rewrite E0 in Hin; contradiction).
    exact (mid_future _ _ Hmid d _ (ents_at_in _ _ Hne) Hne). }
  assert (Hother : forall d id, In id (ents_at d (pending dr)) -> (forall s, In s (held tk) -> sid s <> id) ->
            exists k' tk1 s, k' <> k /\ nth_error ts k' = Some tk1 /\ In s (held tk1) /\ t_mod tk1 = m /\ sid s = id /\ deadline s = d).
  { intros d id Hin Hno. destruct (Ht d id Hin) as (k' & tk1 & s' & Hk' & Hs' & Hm' & E1 & E2).
    exists k', tk1, s'. repeat split; try assumption. intros ->. rewrite Hk in Hk'. injection Hk' as <-. exact (Hno s' Hs' E1). }
  assert (Hkeep : forall k' tk1 s, k' <> k -> nth_error ts k' = Some tk1 -> In s (held tk1) -> forall s0, In s0 (held tk) -> sid s <> sid s0).
  { intros k' tk1 s Hne Hk' Hs s0 Hs0 E. apply Hne. exact (b_distinct _ _ _ _ Hbase k' k tk1 tk s s0 Hk' Hk Hs Hs0 E). }
  destruct a as [s|v dl| | | | | | |]; try contradiction.
  - (* a single Sleep: it was popped; nothing of task k is left in the driver *)
    cbn [aw_done]. split; [apply acts_refl|]. split; [|split; [|exact Hn]].
    + intros k' tk1 s1 Hne Hk' Hs1 Hm1 Hq. apply (He k' tk1 s1 Hk' Hs1 Hm1). destruct Hq as [Hq|Hq]; [left|right; exact Hq].
      intros [E|E]; [apply Hne; symmetry; exact E|exact (Hq E)].
    + intros d id Hin. apply (Hother d id Hin). intros s0 Hs0 E. destruct (Hown d id Hin s0 Hs0 E) as [E2 Hlt].
      rewrite Hheld in Hs0. cbn [aw_held held_sleeps] in Hs0. destruct Hs0 as [<-|[]]. cbn [aw_wake] in Hw. lia.
  - destruct v as [s| | |]; try contradiction. cbn [aw_wake] in Hw. cbn [aw_held held_sleeps] in *.
    (* the Sleep that did not fire is removed by its id; [sr]: that Sleep *)
    set (sr := if deadline s <=? t then dl else s).
    assert (Hdone : aw_done t (AwTimeout (VSleep s) dl) dr = drop_entry (sid sr) (deadline sr) dr) by (unfold sr; cbn [aw_done]; destruct (deadline s <=? t); reflexivity).
    rewrite Hdone. assert (Hsr : In sr (held tk)) by (rewrite Hheld; unfold sr; destruct (deadline s <=? t); [right; left|left]; reflexivity).
    split; [apply (acts_one t dr (DropEntry (sid sr) (deadline sr))); exact I|].
    assert (Hents : forall x id, In id (ents_at x (pending (drop_entry (sid sr) (deadline sr) dr))) <->
                                 In id (ents_at x (pending dr)) /\ (x = deadline sr -> id <> sid sr)).
    { intros x id. cbn [drop_entry set_pending pending]. rewrite ents_at_remove. destruct (x =? deadline sr) eqn:E.
      - replace x with (deadline sr) by lia. rewrite (rm_in_iff _ _ _ (Hn (deadline sr))). split; [intros [H1 H2]; split; [exact H1|intros _; exact H2]|intros [H1 H2]; split; [exact H1|exact (H2 eq_refl)]].
      - split; [intros H; split; [exact H|intros E'; lia]|intros [H _]; exact H]. }
    split; [|split].
    + intros k' tk1 s1 Hne Hk' Hs1 Hm1 Hq. apply Hents. split.
      * apply (He k' tk1 s1 Hk' Hs1 Hm1). destruct Hq as [Hq|Hq]; [left|right; exact Hq].
        intros [E|E]; [apply Hne; symmetry; exact E|exact (Hq E)].
      * intros _. exact (Hkeep k' tk1 s1 Hne Hk' Hs1 sr Hsr).
    + intros d id Hin. apply Hents in Hin. destruct Hin as [Hin Hnot]. apply (Hother d id Hin).
      intros s0 Hs0 E. destruct (Hown d id Hin s0 Hs0 E) as [E2 Hlt].
      rewrite Hheld in Hs0. destruct Hs0 as [<-|[<-|[]]].
      * (* s is still registered, so it is not the one that fired: it is sr *)
        assert (sr = s) by (unfold sr; replace (deadline s <=? t) with false by lia; reflexivity). apply (Hnot ltac:(congruence)). congruence.
      * assert (sr = dl) by (unfold sr; replace (deadline s <=? t) with true by lia; reflexivity). apply (Hnot ltac:(congruence)). congruence.
    + intros d. cbn [drop_entry set_pending pending]. rewrite ents_at_remove. destruct (d =? deadline sr); [apply rm_nodup|]; apply Hn.
Qed.

(* one poll *)
Lemma poll_task_minv ts0 t m k r w : MInv ts0 t m (k :: r) w ->
  let w' := fst (poll_task true t m k w) in
  snd (poll_task true t m k w) = false /\ MInv ts0 t m r w' /\
  w_fes w' = w_fes w /\ w_now w' = w_now w /\
  (forall m', (m' =? 0) <> (m =? 0) -> drv_of w' m' = drv_of w m') /\
  (forall k', k' <> k -> nth_error (w_tasks w') k' = nth_error (w_tasks w) k') /\
  length (w_tasks w') = length (w_tasks w) /\ w_nid w <= w_nid w' /\
  (forall tk', nth_error (w_tasks w') k = Some tk' -> ~ unspawned tk') /\
  (work (w_tasks w') + 1 <= work (w_tasks w))%nat.
Proof.
  intros [Hmail Hbase Hnd Hrun Hmid Htie Hlive Hnwq]. cbn zeta.
  destruct (Hrun k (or_introl eq_refl)) as (tk & Hk & Hmod & Hcase).
  destruct (Forall2_nth _ _ _ _ _ (b_states _ _ _ _ Hbase) Hk) as (tk0 & Hk0 & Hts).
  assert (Hi0 : init_ok tk0).
  { pose proof (b_init _ _ _ _ Hbase) as Hall. rewrite Forall_forall in Hall. apply Hall. eapply nth_error_In; exact Hk0. }
  (* the common shape of both cases: after the awaited future (if any) has completed, the task runs [Sx] from scratch on driver [drc] *)
  assert (Hgen : exists L Sx drc, Forall frag_step Sx /\ expected tk0 = L ++ exp_run t Sx /\ t_fin tk = false /\
            t_mod tk = t_mod tk0 /\ t_start tk = t_start tk0 /\ (length Sx + 1 <= wt tk)%nat /\
            run_steps t m k (t_steps tk) (t_cur tk) (t_iv tk) (drv_of w m) (w_nid w) (t_log tk) (w_mail w) =
            run_steps t m k Sx None None drc (w_nid w) L [] /\
            acts t (drv_of w m) drc /\ NwLive drc /\
            (forall k' tk1 s, k' <> k -> nth_error (w_tasks w) k' = Some tk1 -> In s (held tk1) -> t_mod tk1 = m ->
               (~ In k' r \/ t < deadline s) -> In (sid s) (ents_at (deadline s) (pending drc))) /\
            (forall d id, In id (ents_at d (pending drc)) ->
               exists k' tk1 s, k' <> k /\ nth_error (w_tasks w) k' = Some tk1 /\ In s (held tk1) /\ t_mod tk1 = m /\ sid s = id /\ deadline s = d) /\
            (forall d, NoDup (ents_at d (pending drc)))).
  { destruct Hcase as [(Hun & Hst)|(a & Hc & Hwk)].
    - pose proof (tstate_unspawned _ _ Hts Hun) as ->. destruct Hi0 as (I1 & I2 & I3 & I4 & I5 & I6).
      exists [], (t_steps tk0), (drv_of w m). rewrite Hmail, I2, I3, I4.
      destruct Htie as [He Ht Hn].
      split; [exact I1|]. split; [unfold expected; rewrite Hst; reflexivity|]. split; [exact I5|]. split; [reflexivity|]. split; [reflexivity|].
      split; [unfold wt; rewrite I2, I5; lia|]. split; [reflexivity|]. split; [apply acts_refl|]. split; [exact Hlive|].
      split; [|split; [|exact Hn]].
      + intros k' tk1 s Hne Hk' Hs Hm1 Hq. apply (He k' tk1 s Hk' Hs Hm1). destruct Hq as [Hq|Hq]; [left|right; exact Hq].
        intros [E|E]; [apply Hne; symmetry; exact E|exact (Hq E)].
      + intros d id Hin. destruct (Ht d id Hin) as (k' & tk1 & s & Hk' & Hs & Hm1 & E1 & E2).
        exists k', tk1, s. repeat split; try assumption. intros ->. rewrite Hk in Hk'. injection Hk' as <-.
        unfold held in Hs. rewrite I2 in Hs. contradiction.
    - destruct (tstate_blocked _ _ _ Hts Hi0 Hc) as (st & rest & H1 & H2 & H3 & H4 & H6 & H7 & Hkind & Hh & Hndp & Hheld & H8).
      destruct (woken_done ts0 (w_tasks w) (w_owner w) (w_nid w) t m k r tk a (drv_of w m) Hbase Hnd Hmid Htie Hk Hmod Hc Hkind Hheld Hh Hndp Hwk)
        as (Ha & Ge & Gt & Gn).
      exists (t_log tk ++ aw_rec a), rest, (aw_done t a (drv_of w m)). rewrite Hmail, H3, Hc, H6.
      split; [exact H4|]. split; [rewrite H8, Hwk, <- app_assoc; reflexivity|]. split; [exact H7|]. split; [exact H1|]. split; [exact H2|].
      split; [unfold wt; rewrite H3; cbn [length]; lia|]. split; [apply run_steps_woken; assumption|]. split; [exact Ha|].
      split; [|split; [exact Ge|split; [exact Gt|exact Gn]]].
      (* next_wakeup was cleared when the task was woken *)
      intros x Hx. destruct Ha as (ops & _ & Eq). rewrite Eq in Hx. rewrite (proj1 (apply_ops_rest_nw ops _)) in Hx.
      rewrite (Hnwq k tk a (or_introl eq_refl) Hk Hc) in Hx. discriminate. }
  destruct Hgen as (L & Sx & drc & HS & Hexp & Hfin & Hm0 & Hs0 & Hwt & Hrs & Hac & Hlc & Ge & Gt & Gn).
  assert (Hmidc : Mid t drc) by exact (acts_mid _ _ _ Hac Hmid).
  rewrite (run_steps_frag t m k Sx HS) in Hrs. destruct (frag_run t (w_nid w) Sx drc) as [[[o b] n] dr'] eqn:Efr.
  destruct (poll_task_eq true t m k w tk _ _ _ _ _ _ _ _ Hk Hfin Hrs) as (Hsw & Hfes & Hnow & Hdr & Hoth & Htasks & Hnid & Hown & Hml).
  assert (Hnn : w_nid w <= n).
  { refine (proj1 (ps_cases ts0 (w_tasks w) (w_owner w) (w_nid w) drc t m k _ _ _ _ _ Hbase Hmidc Gt HS Efr)). }
  split; [exact Hsw|]. split; [|repeat split; try assumption].
  - constructor.
    + exact Hml.
    + rewrite Htasks, Hown, Hnid. cbn [sent_by]. eapply ps_base; eassumption.
    + inversion Hnd; assumption.
    + intros k' Hin. rewrite Htasks. eapply ps_runnable; [exact Hnd|exact Hin|exact (Hrun k' (or_intror Hin))].
    + rewrite Hdr. eapply ps_mid; eassumption.
    + rewrite Htasks, Hdr. eapply ps_tie; eassumption.
    + rewrite Hdr. eapply ps_live; eassumption.
    + intros k' tk1 a1 Hin Hk1 Hc1. rewrite Hdr.
      assert (Hnw' : next_wakeup dr' = next_wakeup drc) by (eapply ps_nw; eassumption).
      rewrite Hnw'. destruct Hac as (ops & _ & Eq). rewrite Eq, (proj1 (apply_ops_rest_nw ops _)).
      assert (Hne : k' <> k) by (intros ->; inversion Hnd; contradiction).
      rewrite Htasks, (nth_set_nth_other _ _ _ _ (fun E => Hne (eq_sym E))) in Hk1.
      exact (Hnwq k' tk1 a1 (or_intror Hin) Hk1 Hc1).
  - intros k' Hne. rewrite Htasks. apply nth_set_nth_other. intros E; apply Hne; symmetry; exact E.
  - rewrite Htasks. apply length_set_nth.
  - rewrite Hnid. exact Hnn.
  - intros tk1 H1. rewrite Htasks, (nth_set_nth_same _ _ _ _ Hk) in H1. injection H1 as <-.
    eapply ps_spawned; eassumption.
  - rewrite Htasks.
    match goal with |- (work (set_nth k ?T _) + 1 <= _)%nat => set (tk' := T) end.
    pose proof (work_set_nth (w_tasks w) k tk tk' Hk) as Hw.
    assert (Hns : ~ unspawned tk') by (eapply ps_spawned; eassumption).
    assert (Hwt' : (wt tk' <= length Sx)%nat).
    { pose proof (frag_run_len t Sx (w_nid w) drc) as Hl. rewrite Efr in Hl. cbn [fst snd] in Hl.
      unfold wt. unfold unspawned in Hns. cbn [tk' t_steps t_cur t_fin] in *.
      destruct (fr_cur b); [lia|]. destruct (match fr_steps b with [] => true | _ :: _ => false end); [lia|].
      exfalso. apply Hns. split; reflexivity. }
    lia.
Qed.

(* the executor's run over the whole queue *)
Lemma run_queue_frag ts0 t m : forall fuel q w, (length q <= fuel)%nat -> MInv ts0 t m q w ->
  let w' := run_queue true fuel t m q w in
  MInv ts0 t m [] w' /\ w_fes w' = w_fes w /\ w_now w' = w_now w /\
  (forall m', (m' =? 0) <> (m =? 0) -> drv_of w' m' = drv_of w m') /\
  (forall k', ~ In k' q -> nth_error (w_tasks w') k' = nth_error (w_tasks w) k') /\
  length (w_tasks w') = length (w_tasks w) /\ w_nid w <= w_nid w' /\
  (forall k tk', In k q -> nth_error (w_tasks w') k = Some tk' -> ~ unspawned tk') /\
  (work (w_tasks w') + length q <= work (w_tasks w))%nat.
Proof.
  induction fuel as [|f IH]; intros q w Hlen Hm; cbn zeta.
  - destruct q; [|cbn [length] in Hlen; lia]. cbn [run_queue].
    refine (conj Hm (conj eq_refl (conj eq_refl (conj (fun _ _ => eq_refl) (conj (fun _ _ => eq_refl) (conj eq_refl (conj _ (conj _ _)))))))); [lia|intros k tk' []|cbn [length]; lia].
  - destruct q as [|k r].
    { cbn [run_queue].
      refine (conj Hm (conj eq_refl (conj eq_refl (conj (fun _ _ => eq_refl) (conj (fun _ _ => eq_refl) (conj eq_refl (conj _ (conj _ _)))))))); [lia|intros k tk' []|cbn [length]; lia]. }
    cbn [run_queue].
    destruct (poll_task_minv ts0 t m k r w Hm) as (Hsw & Hm' & H1 & H2 & H3 & H4 & H5 & H6 & H7 & H8).
    destruct (poll_task true t m k w) as [w1 sw]. cbn [fst snd] in *. subst sw.
    rewrite (no_receivers ts0 (w_tasks w1) m (w_mail w1) (b_states _ _ _ _ (mi_base _ _ _ _ _ Hm')) (b_init _ _ _ _ (mi_base _ _ _ _ _ Hm'))).
    unfold enqueue. cbn [filter]. rewrite app_nil_r.
    cbn [length] in Hlen. destruct (IH r w1 ltac:(lia) Hm') as (G0 & G1 & G2 & G3 & G4 & G5 & G6 & G7 & G8).
    split; [exact G0|]. split; [rewrite G1; exact H1|]. split; [rewrite G2; exact H2|].
    split; [intros m' Hne; rewrite (G3 m' Hne); exact (H3 m' Hne)|].
    split; [|split; [rewrite G5; exact H5|split; [lia|split; [|cbn [length]; lia]]]].
    + intros k' Hn. rewrite G4; [apply H4|]; intros E; apply Hn; [left; symmetry; exact E|right; exact E].
    + intros k' tk' [<-|Hin] Hk'; [|exact (G7 k' tk' Hin Hk')].
      assert (Hkr : ~ In k r) by (pose proof (mi_nodup _ _ _ _ _ Hm) as Hnd; inversion Hnd; assumption).
      rewrite (G4 k Hkr) in Hk'. exact (H7 tk' Hk').
Qed.
