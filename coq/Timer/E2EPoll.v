(* End-to-end argument, fragment {sleep, sleep_until, log}: one poll of a task inside an event
   of its module, and the executor's run over the queue of woken / spawned tasks. *)
From Coq Require Import List Arith NArith Bool Lia Sorting.Sorted Permutation ZifyBool.
From DesVerif Require Import CQueue.Model CQueue.Spec CQueue.SpecProps Timer.Driver Timer.QueueLemmas Timer.Inv
  Timer.Futures Timer.FutureLaws Timer.TempOps Timer.Model Timer.Compose Timer.EvSet Timer.Frag Timer.E2EInv.
Import ListNotations.
Open Scope N_scope.

(* what is known of the tasks that are about to be polled at instant t in module m: spawned
   now, or blocked on a future that completes exactly now *)
Definition runnable (ts : list task) (t m : N) (k : nat) : Prop :=
  exists tk, nth_error ts k = Some tk /\ t_mod tk = m /\
    ((unspawned tk /\ t_start tk = t) \/ exists a, t_cur tk = Some a /\ aw_wake a (t_iv tk) = t).

Lemma waker_of_cons own id k id' : waker_of ((id, k) :: own) id' = if id =? id' then Some k else waker_of own id'.
Proof. reflexivity. Qed.

Lemma apply_ops_rest_nw ops : forall dr, next_wakeup (apply_ops ops dr) = next_wakeup dr /\ scheduled (apply_ops ops dr) = scheduled dr.
Proof.
  unfold apply_ops. induction ops as [|o r IH]; intros dr; cbn [fold_left]; [split; reflexivity|].
  destruct (IH (apply_op dr o)) as [H1 H2]. destruct (apply_op_rest dr o) as [E1 E2]. rewrite H1, H2, E1, E2. split; reflexivity.
Qed.

(* the wakers noted for the Sleeps a task holds when it blocks *)
Lemma note_polls_held k before ss : forall own, Forall (fun s => handle s <> None) ss ->
  forall id, waker_of (note_polls true k before ss own) id = if existsb (N.eqb id) (map sid ss) then Some k else waker_of own id.
Proof.
  unfold note_polls. induction ss as [|s r IH]; intros own Hh id; cbn [fold_left map existsb]; [reflexivity|].
  inversion Hh as [|? ? Hs Hr]; subst. rewrite (IH _ Hr). unfold note_poll.
  destruct (handle s) as [h|]; [|contradiction Hs; reflexivity]. rewrite andb_false_r. rewrite waker_of_cons.
  destruct (existsb (N.eqb id) (map sid r)); [rewrite orb_true_r; reflexivity|]. rewrite orb_false_r.
  rewrite N.eqb_sym. reflexivity.
Qed.

Lemma new_at_in a iv x id : In id (new_at a iv x) <-> exists s, In s (aw_held a iv) /\ sid s = id /\ deadline s = x.
Proof.
  unfold new_at. rewrite in_map_iff. split.
  - intros (s & E & Hin). apply filter_In in Hin. destruct Hin as [Hin Hd]. exists s. repeat split; [exact Hin|exact E|lia].
  - intros (s & Hin & E & Hd). exists s. split; [exact E|]. apply filter_In. split; [exact Hin|lia].
Qed.

Lemma NoDup_map_filter {A B} (f : A -> B) (g : A -> bool) l : NoDup (map f l) -> NoDup (map f (filter g l)).
Proof.
  induction l as [|a r IH]; cbn [map filter]; intros H; [constructor|]. inversion H as [|? ? Ha Hr]; subst.
  destruct (g a); [|exact (IH Hr)]. cbn [map]. constructor; [|exact (IH Hr)].
  intros Hin. apply Ha. apply in_map_iff in Hin. destruct Hin as (x & E & Hx). apply filter_In in Hx. apply in_map_iff. exists x. split; [exact E|exact (proj1 Hx)].
Qed.

Lemma NoDup_app_intro {A} (l1 l2 : list A) : NoDup l1 -> NoDup l2 -> (forall x, In x l1 -> In x l2 -> False) -> NoDup (l1 ++ l2).
Proof.
  induction l1 as [|a r IH]; intros H1 H2 Hd; cbn [app]; [exact H2|]. inversion H1 as [|? ? Ha Hr]; subst. constructor.
  - intros Hin. apply in_app_or in Hin. destruct Hin as [Hin|Hin]; [exact (Ha Hin)|exact (Hd a (or_introl eq_refl) Hin)].
  - apply IH; [exact Hr|exact H2|]. intros x Hx1 Hx2. exact (Hd x (or_intror Hx1) Hx2).
Qed.

Section PollStep.
  (* [drc]: the driver after the future the task was blocked on has completed (for a task that
     is spawned: the driver as it is); it holds no entry of task k any more.  The poll leaves
     the result (o, b, n, dr'), which meets [poll_ok] against the log [E] still demanded;
     [old]: ids of Sleeps task k owned before the poll *)
  Variables (ts0 ts : list task) (own : wakers) (nid : N) (drc : driver) (t m : N) (k : nat) (r : list nat).
  Variables (tk tk0 : task) (L E : list N) (o : list N) (b : option (aw * option interval * list step)) (n : N) (dr' : driver).
  Variable before : list N.
  Variable old : N -> Prop.

  Hypothesis Hbase : Base ts0 ts own nid.
  Hypothesis Hnd : NoDup (k :: r).
  Hypothesis Hmid : Mid t drc.
  Hypothesis Hte : forall k' tk1 s, k' <> k -> nth_error ts k' = Some tk1 -> In s (held tk1) -> t_mod tk1 = m ->
                   (~ In k' r \/ t < deadline s) -> In (sid s) (ents_at (deadline s) (pending drc)).
  Hypothesis Htt : forall d id, In id (ents_at d (pending drc)) ->
                   exists k' tk1 s, k' <> k /\ nth_error ts k' = Some tk1 /\ In s (held tk1) /\ t_mod tk1 = m /\ sid s = id /\ deadline s = d.
  Hypothesis Htn : forall d, NoDup (ents_at d (pending drc)).
  Hypothesis Hk : nth_error ts k = Some tk.
  Hypothesis Hk0 : nth_error ts0 k = Some tk0.
  Hypothesis Hmod : t_mod tk = m.
  Hypothesis Hmod0 : t_mod tk = t_mod tk0.
  Hypothesis Hst0 : t_start tk = t_start tk0.
  Hypothesis Hold : forall id, old id -> exists s, In s (owned tk) /\ sid s = id.
  Hypothesis Hspec : poll_ok t nid old drc E (o, b, n, dr').
  Hypothesis Hexp : expected tk0 = L ++ E.

  Let tk' := {| t_mod := t_mod tk; t_start := t_start tk; t_steps := fr_steps b; t_cur := fr_cur b; t_iv := fr_iv b;
                t_log := L ++ o; t_fin := match fr_steps b with [] => true | _ => false end |}.
  Let ts' := set_nth k tk' ts.
  Let own' := note_polls true k before (held_sleeps (fr_cur b) (fr_iv b) ++ []) own.

  Lemma ps_fresh : forall x id, In id (ents_at x (pending drc)) -> id < nid.
  Proof.
    intros x id Hin. destruct (Htt x id Hin) as (k' & tk1 & s & _ & Hk' & Hs & _ & E1 & _). rewrite <- E1.
    exact (proj1 (b_ids _ _ _ _ Hbase k' tk1 s Hk' Hs)).
  Qed.

  Lemma ps_cases : nid <= n /\
    ((b = None /\ E = o) \/
     exists a iv' st rest, b = Some (a, iv', st :: rest) /\ Forall frag_step rest /\
        E = o ++ aw_rec a iv' ++ exp_run (aw_end a iv') (iv_abs (iv_after a iv')) rest /\ blocked_ok t nid n old a iv').
  Proof.
    pose proof Hspec as H. unfold poll_ok in H. revert H. generalize b. intros b0 (Hn & _ & _ & Hb).
    split; [exact Hn|]. destruct b0 as [[[a iv'] l]|]; [right|left; split; [reflexivity|exact Hb]].
    destruct Hb as (st & rest & -> & H). exists a, iv', st, rest. split; [reflexivity|exact H].
  Qed.

  Lemma ps_acts : acts t drc dr'.
  Proof. exact (proj1 (proj2 Hspec)). Qed.

  Lemma ps_ents x : ents_at x (pending dr') =
    ents_at x (pending drc) ++ match b with Some (a, iv', _) => new_at a iv' x | None => [] end.
  Proof. exact (proj1 (proj2 (proj2 Hspec)) x). Qed.

  (* an id the task has after the poll is below the new counter, in no entry of the driver
     before the poll, and owned by no other task *)
  Lemma ps_src id : idsrc nid n old id ->
    id < n /\ (forall x, ~ In id (ents_at x (pending drc))) /\
    forall k' tk1 s1, k' <> k -> nth_error ts k' = Some tk1 -> In s1 (owned tk1) -> sid s1 <> id.
  Proof.
    destruct ps_cases as (Hn & _). intros [[H1 H2]|Ho].
    - split; [exact H2|]. split.
      + intros x Hin. pose proof (ps_fresh x id Hin). lia.
      + intros k' tk1 s1 _ Hk' Hs1 E1. pose proof (b_own _ _ _ _ Hbase k' tk1 s1 Hk' Hs1). lia.
    - destruct (Hold id Ho) as (s & Hs & <-). split; [pose proof (b_own _ _ _ _ Hbase k tk s Hk Hs); lia|]. split.
      + intros x Hin. destruct (Htt x _ Hin) as (k' & tk1 & s1 & Hne & Hk' & Hs1 & _ & E1 & _).
        apply Hne. exact (b_distinct _ _ _ _ Hbase k' k tk1 tk s1 s Hk' Hk (held_owned _ _ Hs1) Hs E1).
      + intros k' tk1 s1 Hne Hk' Hs1 E1. apply Hne.
        exact (b_distinct _ _ _ _ Hbase k' k tk1 tk s1 s Hk' Hk Hs1 Hs E1).
  Qed.

  Lemma ps_held : held tk' = match b with Some (a, iv', _) => aw_held a iv' | None => [] end.
  Proof. unfold held, tk'. cbn [t_cur t_iv]. generalize b. intros [[[a iv'] l]|]; reflexivity. Qed.

  Lemma ps_held_in s : In s (held tk') ->
    exists a iv' st rest, b = Some (a, iv', st :: rest) /\ In s (aw_held a iv') /\ t < deadline s /\ handle s = Some (deadline s) /\ idsrc nid n old (sid s).
  Proof.
    rewrite ps_held. destruct ps_cases as (_ & [(Eb & _)|(a & iv' & st & rest & Eb & _ & _ & (_ & _ & _ & Hall & _))]); rewrite Eb; [intros []|].
    intros Hin. rewrite Forall_forall in Hall. destruct (Hall s Hin) as (H1 & H2 & H3). exists a, iv', st, rest. repeat split; assumption.
  Qed.

  Lemma ps_owned s : In s (owned tk') -> idsrc nid n old (sid s).
  Proof.
    intros Hin. unfold owned in Hin. apply in_app_or in Hin. destruct Hin as [Hin|Hin].
    - destruct (ps_held_in s Hin) as (_ & _ & _ & _ & _ & _ & _ & _ & H). exact H.
    - unfold tk' in Hin. cbn [t_iv] in Hin.
      destruct ps_cases as (_ & [(Eb & _)|(a & iv' & st & rest & Eb & _ & _ & (_ & _ & _ & _ & Hiv))]); rewrite Eb in Hin; cbn [fr_iv] in Hin; [contradiction|].
      destruct iv' as [i|]; [|contradiction]. destruct Hin as [<-|[]]. apply Hiv. exists i. split; reflexivity.
  Qed.

  Lemma ps_waker id : waker_of own' id =
    if existsb (N.eqb id) (map sid (held tk')) then Some k else waker_of own id.
  Proof.
    unfold own'. rewrite app_nil_r. rewrite ps_held.
    destruct ps_cases as (_ & [(Eb & _)|(a & iv' & st & rest & Eb & _ & _ & (_ & _ & _ & Hall & _))]); rewrite Eb; cbn [fr_cur fr_iv held_sleeps].
    - reflexivity.
    - apply note_polls_held. eapply Forall_impl; [|exact Hall]. cbn beta. intros s (_ & H & _). rewrite H. discriminate.
  Qed.

  Lemma ps_tstate : tstate tk0 tk'.
  Proof.
    unfold tk'. destruct ps_cases as (_ & [(Eb & Ho)|(a & iv' & st & rest & Eb & Hf & He & (Hk1 & Hw & Hndp & Hall & _))]); rewrite Eb.
    - apply TDn; cbn [t_mod t_start t_steps t_cur t_iv t_fin t_log fr_steps fr_cur fr_iv]; try assumption; try reflexivity.
      rewrite Hexp, Ho. reflexivity.
    - apply (TBl _ _ a st rest); cbn [t_mod t_start t_steps t_cur t_iv t_fin t_log fr_steps fr_cur fr_iv]; try assumption; try reflexivity.
      + eapply Forall_impl; [|exact Hall]. cbn beta. intros s (_ & H & _). exact H.
      + rewrite Hexp, He, app_assoc. reflexivity.
  Qed.

  Lemma ps_nth_other k' : k' <> k -> nth_error ts' k' = nth_error ts k'.
  Proof. intros H. unfold ts'. apply nth_set_nth_other. intros E1; apply H; symmetry; exact E1. Qed.

  Lemma ps_nth_same : nth_error ts' k = Some tk'.
  Proof. unfold ts'. eapply nth_set_nth_same. exact Hk. Qed.

  Lemma ps_base : Base ts0 ts' own' n.
  Proof.
    destruct Hbase as [Hst Hin Hids Hown Hdis]. destruct ps_cases as (Hn & _).
    constructor.
    - unfold ts'. eapply Forall2_set_nth; [exact Hst|exact Hk0|exact ps_tstate].
    - exact Hin.
    - intros k' tk1 s Hk' Hs. rewrite ps_waker. destruct (Nat.eq_dec k' k) as [->|Hne].
      + rewrite ps_nth_same in Hk'. injection Hk' as <-. destruct (ps_held_in s Hs) as (_ & _ & _ & _ & _ & _ & _ & _ & Hsrc).
        split; [exact (proj1 (ps_src _ Hsrc))|]. replace (existsb (N.eqb (sid s)) (map sid (held tk'))) with true; [reflexivity|].
        symmetry. apply existsb_exists. exists (sid s). split; [apply in_map; exact Hs|apply N.eqb_refl].
      + rewrite (ps_nth_other k' Hne) in Hk'. destruct (Hids k' tk1 s Hk' Hs) as [H1 H2]. split; [lia|].
        replace (existsb (N.eqb (sid s)) (map sid (held tk'))) with false; [exact H2|].
        symmetry. apply not_true_is_false. intros Hex. apply existsb_exists in Hex. destruct Hex as (i & Hi & E1).
        apply in_map_iff in Hi. destruct Hi as (s' & <- & Hs'). destruct (ps_held_in s' Hs') as (_ & _ & _ & _ & _ & _ & _ & _ & Hsrc).
        apply (proj2 (proj2 (ps_src _ Hsrc)) k' tk1 s Hne Hk' (held_owned _ _ Hs)). lia.
    - intros k' tk1 s Hk' Hs. destruct (Nat.eq_dec k' k) as [->|Hne].
      + rewrite ps_nth_same in Hk'. injection Hk' as <-. exact (proj1 (ps_src _ (ps_owned s Hs))).
      + rewrite (ps_nth_other k' Hne) in Hk'. pose proof (Hown k' tk1 s Hk' Hs). lia.
    - intros k1 k2 tk1 tk2 s1 s2 H1 H2 B1 B2 E1.
      destruct (Nat.eq_dec k1 k) as [->|N1], (Nat.eq_dec k2 k) as [->|N2]; [reflexivity| | |].
      + exfalso. rewrite ps_nth_same in H1. injection H1 as <-. rewrite (ps_nth_other k2 N2) in H2.
        apply (proj2 (proj2 (ps_src _ (ps_owned s1 B1))) k2 tk2 s2 N2 H2 B2). symmetry; exact E1.
      + exfalso. rewrite ps_nth_same in H2. injection H2 as <-. rewrite (ps_nth_other k1 N1) in H1.
        apply (proj2 (proj2 (ps_src _ (ps_owned s2 B2))) k1 tk1 s1 N1 H1 B1). exact E1.
      + rewrite (ps_nth_other k1 N1) in H1. rewrite (ps_nth_other k2 N2) in H2. exact (Hdis _ _ _ _ _ _ H1 H2 B1 B2 E1).
  Qed.

  Lemma ps_mid : Mid t dr'.
  Proof. exact (acts_mid _ _ _ ps_acts Hmid). Qed.

  Lemma ps_tie : Tie ts' t r m dr'.
  Proof.
    assert (Hkr : ~ In k r) by (inversion Hnd; assumption).
    constructor.
    - intros k' tk1 s Hk' Hs Hm Hq. rewrite ps_ents. destruct (Nat.eq_dec k' k) as [->|Hne].
      + rewrite ps_nth_same in Hk'. injection Hk' as <-. destruct (ps_held_in s Hs) as (a & iv' & st & rest & Eb & Hin & _).
        rewrite Eb. apply in_or_app. right. apply new_at_in. exists s. repeat split; [exact Hin].
      + rewrite (ps_nth_other k' Hne) in Hk'. apply in_or_app. left. exact (Hte k' tk1 s Hne Hk' Hs Hm Hq).
    - intros d id Hin. rewrite ps_ents in Hin. apply in_app_or in Hin. destruct Hin as [Ho|Hnew].
      + destruct (Htt d id Ho) as (k' & tk1 & s & Hne & Hk' & Hs & Hm & E1 & E2).
        exists k', tk1, s. rewrite (ps_nth_other k' Hne). repeat split; assumption.
      + destruct ps_cases as (_ & [(Eb & _)|(a & iv' & st & rest & Eb & _)]); rewrite Eb in Hnew; [contradiction|].
        apply new_at_in in Hnew. destruct Hnew as (s & Hs & E1 & E2).
        exists k, tk', s. rewrite ps_nth_same, ps_held, Eb. repeat split; try assumption; try (unfold tk'; cbn [t_mod]; exact Hmod).
    - intros d. rewrite ps_ents.
      destruct ps_cases as (_ & [(Eb & _)|(a & iv' & st & rest & Eb & _ & _ & (_ & _ & Hndp & Hall & _))]); rewrite Eb; [rewrite app_nil_r; apply Htn|].
      apply NoDup_app_intro; [apply Htn|unfold new_at; apply NoDup_map_filter; exact Hndp|].
      intros id H1 H2. apply new_at_in in H2. destruct H2 as (s & Hs & <- & _).
      rewrite Forall_forall in Hall. destruct (Hall s Hs) as (_ & _ & Hsrc). exact (proj1 (proj2 (ps_src _ Hsrc)) d H1).
  Qed.

  Lemma ps_live : NwLive drc -> NwLive dr'.
  Proof.
    intros Hn w0 Hw. destruct ps_acts as (ops & _ & Eq). rewrite Eq in Hw.
    rewrite (proj1 (apply_ops_rest_nw ops drc)) in Hw. pose proof (Hn w0 Hw) as Hne.
    rewrite ps_ents. intros Hc. apply app_eq_nil in Hc. exact (Hne (proj1 Hc)).
  Qed.

  Lemma ps_nw : next_wakeup dr' = next_wakeup drc.
  Proof. destruct ps_acts as (ops & _ & Eq). rewrite Eq. exact (proj1 (apply_ops_rest_nw ops drc)). Qed.

  Lemma ps_spawned : ~ unspawned tk'.
  Proof.
    unfold tk', unspawned. cbn [t_cur t_fin].
    destruct ps_cases as (_ & [(Eb & _)|(a & iv' & st & rest & Eb & _)]); rewrite Eb; cbn [fr_cur fr_steps]; intros [H1 H2]; discriminate.
  Qed.

  Lemma ps_runnable k' : In k' r -> runnable ts t m k' -> runnable ts' t m k'.
  Proof.
    intros Hin (tk1 & H1 & H2). exists tk1. split; [|exact H2].
    rewrite ps_nth_other; [exact H1|]. intros ->. inversion Hnd; contradiction.
  Qed.
End PollStep.

(* ---- the work that is left: steps to go, plus one for a task that is still to be spawned ---- *)
(* twice the steps to go, plus two for a task that is still to be spawned, plus one for a task whose
   keep-alive select may block once more (on the re-armed kept timer) within the same step *)
Definition wt (tk : task) : nat :=
  (2 * length (t_steps tk) +
   match t_cur tk with
   | None => if t_fin tk then 0 else 2
   | Some (AwKeep true _ _ _) => 1
   | Some _ => 0
   end)%nat.

Definition wres (b : option (aw * option interval * list step)) : nat :=
  (2 * length (fr_steps b) + match fr_cur b with Some (AwKeep true _ _ _) => 1 | _ => 0 end)%nat.

Definition work (ts : list task) : nat := fold_right (fun tk n => (wt tk + n)%nat) 0%nat ts.

Lemma work_set_nth ts : forall k tk tk', nth_error ts k = Some tk ->
  (work (set_nth k tk' ts) + wt tk = work ts + wt tk')%nat.
Proof.
  induction ts as [|a r IH]; intros k tk tk' Hk; [destruct k; discriminate|].
  destruct k as [|k]; cbn [nth_error set_nth work fold_right] in *.
  - injection Hk as ->. fold (work r). lia.
  - fold (work r) in *. fold (work (set_nth k tk' r)). pose proof (IH k tk tk' Hk). lia.
Qed.

Lemma frag_run_len t0 steps : forall nid iv dr, (length (fr_steps (snd (fst (fst (frag_run t0 nid iv steps dr))))) <= length steps)%nat.
Proof.
  induction steps as [|st r IH]; intros nid iv dr; cbn [frag_run]; [cbn; lia|].
  destruct st as [d|t|d v| | | | |polled d1 d2|d| | | | | |]; cbn [fst snd fr_steps length]; try lia;
  try (destruct v as [x|]; cbn [fst snd fr_steps length]; try lia);
  try (destruct iv as [i|]; cbn [fst snd fr_steps length]; try lia);
  repeat match goal with |- context [if ?c then _ else _] => destruct c; cbn [fst snd fr_steps length]; try lia end;
  match goal with IHx : forall _ _ _, _ |- context [frag_run _ ?n0 ?i0 _ ?d0] =>
    specialize (IHx n0 i0 d0); destruct (frag_run t0 n0 i0 r d0) as [[[o0 b0] n'] d']; cbn [fst snd] in *; lia end.
Qed.

(* ---- inside an event of module m at instant t, with [q] still to be polled ---- *)
Record MInv (ts0 : list task) (t m : N) (q : list nat) (w : world) : Prop := {
  mi_mail : w_mail w = [];
  mi_base : Base ts0 (w_tasks w) (w_owner w) (w_nid w);
  mi_nodup : NoDup q;
  mi_run : forall k, In k q -> runnable (w_tasks w) t m k;
  mi_mid : Mid t (drv_of w m);
  mi_tie : Tie (w_tasks w) t q m (drv_of w m);
  mi_live : NwLive (drv_of w m);
  (* a task is woken only by a due timer, and then next_wakeup was due as well: it has been cleared *)
  mi_nwq : forall k tk a, In k q -> nth_error (w_tasks w) k = Some tk -> t_cur tk = Some a -> next_wakeup (drv_of w m) = None }.

Lemma poll_task_eq wfix now m k w tk steps cur iv dr nid lg sw mail :
  nth_error (w_tasks w) k = Some tk -> t_fin tk = false ->
  run_steps now m k (t_steps tk) (t_cur tk) (t_iv tk) (drv_of w m) (w_nid w) (t_log tk) (w_mail w) =
    (steps, cur, iv, dr, nid, lg, sw, mail) ->
  let w' := fst (poll_task wfix now m k w) in
  snd (poll_task wfix now m k w) = sw /\ w_fes w' = w_fes w /\ w_now w' = w_now w /\ drv_of w' m = dr /\
  (forall m', (m' =? 0) <> (m =? 0) -> drv_of w' m' = drv_of w m') /\
  w_tasks w' = set_nth k {| t_mod := t_mod tk; t_start := t_start tk; t_steps := steps; t_cur := cur; t_iv := iv;
                            t_log := lg; t_fin := match steps with [] => true | _ => false end |} (w_tasks w) /\
  w_nid w' = nid /\
  w_owner w' = note_polls wfix k (flat_map snd (pending (drv_of w m))) (held_sleeps cur iv ++ sent_by k mail) (w_owner w) /\
  w_mail w' = mail.
Proof.
  intros Hk Hf Hr. cbn zeta. unfold poll_task. rewrite Hk, Hf, Hr. unfold set_drv, drv_of.
  destruct (m =? 0) eqn:Em; cbn [fst snd w_fes w_now w_d0 w_d1 w_tasks w_nid w_owner w_mail];
    (repeat split; try reflexivity); intros m' Hne; destruct (m' =? 0); try reflexivity; contradiction Hne; reflexivity.
Qed.

Lemma tstate_unspawned tk0 tk : tstate tk0 tk -> unspawned tk -> tk = tk0.
Proof.
  intros [->|a st rest _ _ _ _ Hc _ _ _ _ _|_ _ _ _ _ Hf _] [Hc' Hf']; [reflexivity|rewrite Hc in Hc'; discriminate|rewrite Hf in Hf'; discriminate].
Qed.

Lemma tstate_blocked tk0 tk a : tstate tk0 tk -> init_ok tk0 -> t_cur tk = Some a ->
  exists st rest, t_mod tk = t_mod tk0 /\ t_start tk = t_start tk0 /\ t_steps tk = st :: rest /\ Forall frag_step rest /\
    t_fin tk = false /\ aw_kind a (t_iv tk) /\ Forall (fun s => handle s = Some (deadline s)) (aw_held a (t_iv tk)) /\
    NoDup (map sid (aw_held a (t_iv tk))) /\ held tk = aw_held a (t_iv tk) /\
    expected tk0 = t_log tk ++ aw_rec a (t_iv tk) ++ exp_run (aw_end a (t_iv tk)) (iv_abs (iv_after a (t_iv tk))) rest.
Proof.
  intros H (_ & I2 & _) Hc.
  destruct H as [->|a' st rest H1 H2 H3 H4 H5 H7 H8 H9 H10 H11|_ _ _ H4 _ _ _].
  - rewrite I2 in Hc. discriminate.
  - rewrite H5 in Hc. injection Hc as ->. exists st, rest. repeat split; try assumption. unfold held. rewrite H5. reflexivity.
  - rewrite H4 in Hc. discriminate.
Qed.

Lemma aw_kind_idle a iv : aw_kind a iv -> a <> AwTick -> iv_idle iv.
Proof.
  destruct a as [s|v dl|biased tie sa sb| | | | |rearm d3 s sx|pre s]; try contradiction; cbn [aw_kind]; try (intros H _; exact H).
  - destruct v; try contradiction. intros H _; exact H.
  - intros [H _] _; exact H.
  - intros [H _] _; exact H.
Qed.

Lemma iv_after_idle a iv : aw_kind a iv -> iv_idle (iv_after a iv).
Proof.
  intros Hk. destruct a as [s|v dl|biased tie sa sb| | | | |rearm d3 s sx|pre s]; try contradiction; cbn [iv_after];
    try (apply (aw_kind_idle _ _ Hk); discriminate).
  destruct iv as [i|]; [reflexivity|exact I].
Qed.

Lemma iv_after_ids a iv id : iv_ids (iv_after a iv) id -> iv_ids iv id.
Proof.
  destruct a; cbn [iv_after]; try (intros H; exact H).
  destruct iv as [i|]; [|intros H; exact H]. intros (i' & E1 & ->). injection E1 as <-. exists i. split; reflexivity.
Qed.

(* when the woken task does not block again, its await completes at the wake instant *)
Lemma aw_end_noreblock a iv t : aw_kind a iv -> aw_wake a iv = t -> aw_reblock t a = None -> aw_end a iv = t.
Proof.
  intros Hk Hw Hrb. destruct a as [s|v dl|biased tie sa sb| | | | |rearm d3 s sx|pre s]; try contradiction; try exact Hw.
  destruct Hk as [_ Hd3]. cbn [aw_wake] in Hw. cbn [aw_end].
  destruct (deadline s <=? deadline sx) eqn:E; [lia|].
  destruct rearm; [|lia]. cbn [aw_reblock] in Hrb. rewrite (dl_fin _ _ Hd3) in Hrb.
  replace (deadline s <=? t) with false in Hrb by lia. destruct (t <? t + d3) eqn:E3; [discriminate|]. lia.
Qed.

(* the future a woken task was blocked on completes: its Sleep that is still registered is
   dropped (or, for the kept timer that is re-armed, reset -- which removes its entry as well) *)
Lemma woken_done ts0 ts own nid t m k r tk a iv dr :
  Base ts0 ts own nid -> NoDup (k :: r) -> Mid t dr -> Tie ts t (k :: r) m dr ->
  nth_error ts k = Some tk -> t_mod tk = m -> t_cur tk = Some a -> aw_kind a iv -> held tk = aw_held a iv ->
  Forall (fun s => handle s = Some (deadline s)) (aw_held a iv) -> NoDup (map sid (aw_held a iv)) -> aw_wake a iv = t ->
  let drc := aw_done t a dr in
  acts t dr drc /\
  (forall k' tk1 s, k' <> k -> nth_error ts k' = Some tk1 -> In s (held tk1) -> t_mod tk1 = m ->
     (~ In k' r \/ t < deadline s) -> In (sid s) (ents_at (deadline s) (pending drc))) /\
  (forall d id, In id (ents_at d (pending drc)) ->
     exists k' tk1 s, k' <> k /\ nth_error ts k' = Some tk1 /\ In s (held tk1) /\ t_mod tk1 = m /\ sid s = id /\ deadline s = d) /\
  (forall d, NoDup (ents_at d (pending drc))).
Proof.
  intros Hbase Hnd Hmid [He Ht Hn] Hk Hmod Hc Hkind Hheld Hh Hndp Hw. cbn zeta.
  assert (Hkr : ~ In k r) by (inversion Hnd; assumption).
  (* entries of task k that are still in the driver have a deadline after t *)
  assert (Hown : forall d id, In id (ents_at d (pending dr)) -> forall s, In s (held tk) -> sid s = id -> deadline s = d /\ t < d).
  { intros d id Hin s Hs E. destruct (Ht d id Hin) as (k' & tk1 & s' & Hk' & Hs' & _ & E1 & E2).
    assert (k' = k) by (apply (b_distinct _ _ _ _ Hbase k' k tk1 tk s' s Hk' Hk (held_owned _ _ Hs') (held_owned _ _ Hs)); congruence). subst k'.
    rewrite Hk in Hk'. injection Hk' as <-.
    assert (s' = s).
    { rewrite Hheld in Hs, Hs'. clear -Hndp Hs Hs' E E1. induction (aw_held a iv) as [|x l IH]; [contradiction|].
      cbn [map] in Hndp. inversion Hndp as [|? ? Hx Hl]; subst. destruct Hs as [->|Hs], Hs' as [->|Hs']; try reflexivity.
      - exfalso. apply Hx. apply in_map_iff. exists s'. split; [congruence|exact Hs'].
      - exfalso. apply Hx. apply in_map_iff. exists s. split; [congruence|exact Hs].
      - exact (IH Hl Hs Hs'). }
    subst s'. split; [exact E2|]. assert (Hne : ents_at d (pending dr) <> []) by (intros E0; rewrite E0 in Hin; contradiction).
    exact (mid_future _ _ Hmid d _ (ents_at_in _ _ Hne) Hne). }
  assert (Hother : forall d id, In id (ents_at d (pending dr)) -> (forall s, In s (held tk) -> sid s <> id) ->
            exists k' tk1 s, k' <> k /\ nth_error ts k' = Some tk1 /\ In s (held tk1) /\ t_mod tk1 = m /\ sid s = id /\ deadline s = d).
  { intros d id Hin Hno. destruct (Ht d id Hin) as (k' & tk1 & s' & Hk' & Hs' & Hm' & E1 & E2).
    exists k', tk1, s'. repeat split; try assumption. intros ->. rewrite Hk in Hk'. injection Hk' as <-. exact (Hno s' Hs' E1). }
  assert (Hkeep : forall k' tk1 s, k' <> k -> nth_error ts k' = Some tk1 -> In s (held tk1) -> forall s0, In s0 (held tk) -> sid s <> sid s0).
  { intros k' tk1 s Hne Hk' Hs s0 Hs0 E. apply Hne. exact (b_distinct _ _ _ _ Hbase k' k tk1 tk s s0 Hk' Hk (held_owned _ _ Hs) (held_owned _ _ Hs0) E). }
  (* an await state with a single Sleep: it was popped; nothing of task k is left in the driver *)
  assert (Hsingle : forall s0, aw_held a iv = [s0] -> deadline s0 = t ->
     acts t dr dr /\
     (forall k' tk1 s, k' <> k -> nth_error ts k' = Some tk1 -> In s (held tk1) -> t_mod tk1 = m ->
        (~ In k' r \/ t < deadline s) -> In (sid s) (ents_at (deadline s) (pending dr))) /\
     (forall d id, In id (ents_at d (pending dr)) ->
        exists k' tk1 s, k' <> k /\ nth_error ts k' = Some tk1 /\ In s (held tk1) /\ t_mod tk1 = m /\ sid s = id /\ deadline s = d) /\
     (forall d, NoDup (ents_at d (pending dr)))).
  { intros s0 E0 Hd0. split; [apply acts_refl|]. split; [|split; [|exact Hn]].
    + intros k' tk1 s1 Hne Hk' Hs1 Hm1 Hq. apply (He k' tk1 s1 Hk' Hs1 Hm1). destruct Hq as [Hq|Hq]; [left|right; exact Hq].
      intros [E|E]; [apply Hne; symmetry; exact E|exact (Hq E)].
    + intros d id Hin. apply (Hother d id Hin). intros s1 Hs1 E. destruct (Hown d id Hin s1 Hs1 E) as [E2 Hlt].
      rewrite Hheld, E0 in Hs1. destruct Hs1 as [<-|[]]. lia. }
  (* an await state with two Sleeps: [sr], the one that did not fire, is taken out of the driver by its id *)
  assert (Hrem : forall drc sr, In sr (held tk) -> (forall s0, In s0 (held tk) -> t < deadline s0 -> s0 = sr) ->
     (forall x id, In id (ents_at x (pending drc)) <-> In id (ents_at x (pending dr)) /\ (x = deadline sr -> id <> sid sr)) ->
     (forall d, NoDup (ents_at d (pending drc))) ->
     (forall k' tk1 s, k' <> k -> nth_error ts k' = Some tk1 -> In s (held tk1) -> t_mod tk1 = m ->
        (~ In k' r \/ t < deadline s) -> In (sid s) (ents_at (deadline s) (pending drc))) /\
     (forall d id, In id (ents_at d (pending drc)) ->
        exists k' tk1 s, k' <> k /\ nth_error ts k' = Some tk1 /\ In s (held tk1) /\ t_mod tk1 = m /\ sid s = id /\ deadline s = d) /\
     (forall d, NoDup (ents_at d (pending drc)))).
  { intros drc sr Hsr Honly Hents Hndc. split; [|split; [|exact Hndc]].
    + intros k' tk1 s1 Hne Hk' Hs1 Hm1 Hq. apply Hents. split.
      * apply (He k' tk1 s1 Hk' Hs1 Hm1). destruct Hq as [Hq|Hq]; [left|right; exact Hq].
        intros [E|E]; [apply Hne; symmetry; exact E|exact (Hq E)].
      * intros _. exact (Hkeep k' tk1 s1 Hne Hk' Hs1 sr Hsr).
    + intros d id Hin. apply Hents in Hin. destruct Hin as [Hin Hnot]. apply (Hother d id Hin).
      intros s0 Hs0 E. destruct (Hown d id Hin s0 Hs0 E) as [E2 Hlt].
      assert (s0 = sr) by (apply Honly; [exact Hs0|lia]). subst s0. exact (Hnot (eq_sym E2) (eq_sym E)). }
  assert (Hdrop : forall sr, (forall x id, In id (ents_at x (pending (drop_entry (sid sr) (deadline sr) dr))) <->
                                 In id (ents_at x (pending dr)) /\ (x = deadline sr -> id <> sid sr)) /\
                             (forall d, NoDup (ents_at d (pending (drop_entry (sid sr) (deadline sr) dr))))).
  { intros sr. split.
    - intros x id. cbn [drop_entry set_pending pending]. rewrite ents_at_remove. destruct (x =? deadline sr) eqn:E.
      + replace x with (deadline sr) by lia. rewrite (rm_in_iff _ _ _ (Hn (deadline sr))). split; [intros [H1 H2]; split; [exact H1|intros _; exact H2]|intros [H1 H2]; split; [exact H1|exact (H2 eq_refl)]].
      + split; [intros H; split; [exact H|intros E'; lia]|intros [H _]; exact H].
    - intros d. cbn [drop_entry set_pending pending]. rewrite ents_at_remove. destruct (d =? deadline sr); [apply rm_nodup|]; apply Hn. }
  (* of two held Sleeps with min deadline t, the one (if any) with a later deadline *)
  assert (Hpair : forall s1 s2, aw_held a iv = [s1; s2] -> N.min (deadline s1) (deadline s2) = t ->
     let sr := if deadline s1 <=? t then s2 else s1 in
     In sr (held tk) /\ forall s0, In s0 (held tk) -> t < deadline s0 -> s0 = sr).
  { intros s1 s2 E0 Hmin. cbn zeta. rewrite Hheld, E0. split.
    - destruct (deadline s1 <=? t); [right; left|left]; reflexivity.
    - intros s0 [<-|[<-|[]]] Hlt.
      + replace (deadline s1 <=? t) with false by lia. reflexivity.
      + replace (deadline s1 <=? t) with true by lia. reflexivity. }
  destruct a as [s|v dl|biased tie sa sb| | | | |rearm d3 s sx|pre s]; try contradiction.
  - cbn [aw_done]. apply (Hsingle s); [reflexivity|exact Hw].
  - destruct v as [s| | |]; try contradiction. cbn [aw_wake] in Hw.
    destruct (Hpair s dl eq_refl Hw) as [Hsr Honly]. set (sr := if deadline s <=? t then dl else s) in *.
    assert (Hdone : aw_done t (AwTimeout (VSleep s) dl) dr = drop_entry (sid sr) (deadline sr) dr) by (unfold sr; cbn [aw_done]; destruct (deadline s <=? t); reflexivity).
    rewrite Hdone. split; [apply (acts_one t dr (DropEntry (sid sr) (deadline sr))); exact I|].
    destruct (Hdrop sr) as [Hents Hndc]. exact (Hrem _ sr Hsr Honly Hents Hndc).
  - (* select over two sleeps: the loser is dropped *)
    cbn [aw_wake] in Hw. destruct (Hpair sa sb eq_refl Hw) as [Hsr Honly]. set (sr := if deadline sa <=? t then sb else sa) in *.
    assert (Hdone : aw_done t (AwSelect biased tie sa sb) dr = drop_entry (sid sr) (deadline sr) dr) by (unfold sr; cbn [aw_done]; destruct (deadline sa <=? t); reflexivity).
    rewrite Hdone. split; [apply (acts_one t dr (DropEntry (sid sr) (deadline sr))); exact I|].
    destruct (Hdrop sr) as [Hents Hndc]. exact (Hrem _ sr Hsr Honly Hents Hndc).
  - (* the tick that was waited for *)
    destruct iv as [i|]; [|contradiction Hkind; reflexivity]. cbn [aw_done]. apply (Hsingle (iv_delay i)); [reflexivity|exact Hw].
  - (* the keep-alive select *)
    cbn [aw_wake] in Hw. destruct (Hpair s sx eq_refl Hw) as [Hsr Honly].
    cbn [aw_done]. destruct (deadline s <=? t) eqn:E.
    + split; [apply (acts_one t dr (DropEntry (sid sx) (deadline sx))); exact I|].
      destruct (Hdrop sx) as [Hents Hndc]. exact (Hrem _ sx Hsr Honly Hents Hndc).
    + destruct rearm.
      * (* reset of the kept timer, which is still registered *)
        split; [apply (acts_one t dr (ResetEntry (sid s) (deadline s) (dl t d3))); exact I|].
        assert (Hreg : In (sid s) (ents_at (deadline s) (pending dr))).
        { apply (He k tk s Hk Hsr Hmod). right. lia. }
        assert (Hfar : dl t d3 <> deadline s -> ~ In (sid s) (ents_at (dl t d3) (pending dr))).
        { intros Hne Hin. destruct (Hown _ _ Hin s Hsr eq_refl) as [E1 _]. exact (Hne (eq_sym E1)). }
        pose proof (fun x => reset_existing_ents (sid s) (deadline s) (dl t d3) dr x (mid_sorted _ _ Hmid) Hreg (Hn (deadline s)) Hfar) as Hre.
        apply (Hrem _ s Hsr Honly).
        -- intros x id. rewrite Hre. destruct (x =? deadline s) eqn:E1.
           ++ replace x with (deadline s) by lia. rewrite (rm_in_iff _ _ _ (Hn (deadline s))). split; [intros [H1 H2]; split; [exact H1|intros _; exact H2]|intros [H1 H2]; split; [exact H1|exact (H2 eq_refl)]].
           ++ split; [intros H; split; [exact H|intros E'; lia]|intros [H _]; exact H].
        -- intros d. rewrite Hre. destruct (d =? deadline s); [apply rm_nodup|]; apply Hn.
      * split; [apply (acts_one t dr (DropEntry (sid s) (deadline s))); exact I|].
        destruct (Hdrop s) as [Hents Hndc]. exact (Hrem _ s Hsr Honly Hents Hndc).
  - (* the re-armed kept timer *)
    cbn [aw_done]. apply (Hsingle s); [reflexivity|exact Hw].
Qed.

(* the woken task blocks again at once: on the kept timer, re-armed for a later instant *)
Lemma reblock_ok t nid (old : N -> Prop) drc a a' iv rest st :
  aw_kind a iv -> aw_wake a iv = t -> aw_reblock t a = Some a' -> Forall frag_step rest ->
  sorted (pending drc) ->
  (forall s, In s (aw_held a iv) -> old (sid s)) -> (forall id, iv_ids iv id -> old id) ->
  exists pre s', a' = AwThen pre s' /\
    poll_ok t nid old drc (aw_rec a iv ++ exp_run (aw_end a iv) (iv_abs (iv_after a iv)) rest)
      ([], Some (a', iv, st :: rest), nid, register (sid s') (deadline s') drc) /\
    (wres (Some (a', iv, st :: rest)) + 1 <= 2 * length (st :: rest) + match a with AwKeep true _ _ _ => 1 | _ => 0 end)%nat.
Proof.
  intros Hk Hw Hrb Hrest Hs Hold Hivo. destruct a as [s|v dl| | | | | |rearm d3 s sx|pre s]; try discriminate.
  destruct rearm; [|discriminate]. destruct Hk as [Hi Hd3]. cbn [aw_reblock] in Hrb. rewrite (dl_fin _ _ Hd3) in Hrb.
  destruct (deadline s <=? t) eqn:E; [discriminate|]. destruct (t <? t + d3) eqn:E3; [|discriminate]. injection Hrb as <-.
  cbn [aw_wake] in Hw. exists [t; 1], (reg (sid s) (t + d3)). split; [reflexivity|]. split.
  - unfold poll_ok. split; [lia|]. split; [apply (acts_one t drc (Register (sid s) (t + d3))); cbn [op_wf]; lia|]. split.
    + intros y. cbn [register set_pending pending reg sid deadline]. rewrite (ents_at_add _ _ _ _ Hs).
      unfold new_at. cbn [aw_held held_sleeps filter reg deadline sid map].
      destruct (y =? t + d3) eqn:E1.
      * replace y with (t + d3) by lia. rewrite N.eqb_refl. reflexivity.
      * replace (t + d3 =? y) with false by lia. rewrite app_nil_r. reflexivity.
    + exists st, rest. split; [reflexivity|]. split; [exact Hrest|].
      cbn [aw_rec aw_end aw_wake reg deadline app iv_after]. split.
      * replace (deadline s <=? deadline sx) with false by lia. replace (deadline sx) with t by lia. reflexivity.
      * unfold blocked_ok. cbn [aw_kind aw_wake aw_held held_sleeps reg deadline sid handle map].
        split; [exact Hi|]. split; [lia|]. split; [repeat constructor; intros []|]. split.
        -- constructor; [|constructor]. unfold reg; cbn [deadline handle sid]. split; [lia|]. split; [reflexivity|].
           right. apply Hold. left; reflexivity.
        -- intros id Hid. right. exact (Hivo id Hid).
  - unfold wres. cbn [fr_steps fr_cur]. lia.
Qed.

(* one poll *)
Lemma poll_task_minv ts0 t m k r w : MInv ts0 t m (k :: r) w ->
  let w' := fst (poll_task true t m k w) in
  snd (poll_task true t m k w) = false /\ MInv ts0 t m r w' /\
  w_fes w' = w_fes w /\ w_now w' = w_now w /\
  (forall m', (m' =? 0) <> (m =? 0) -> drv_of w' m' = drv_of w m') /\
  (forall k', k' <> k -> nth_error (w_tasks w') k' = nth_error (w_tasks w) k') /\
  length (w_tasks w') = length (w_tasks w) /\ w_nid w <= w_nid w' /\
  (forall tk', nth_error (w_tasks w') k = Some tk' -> ~ unspawned tk') /\
  (work (w_tasks w') + 1 <= work (w_tasks w))%nat.
Proof.
  intros [Hmail Hbase Hnd Hrun Hmid Htie Hlive Hnwq]. cbn zeta.
  destruct (Hrun k (or_introl eq_refl)) as (tk & Hk & Hmod & Hcase).
  destruct (Forall2_nth _ _ _ _ _ (b_states _ _ _ _ Hbase) Hk) as (tk0 & Hk0 & Hts).
  assert (Hi0 : init_ok tk0).
  { pose proof (b_init _ _ _ _ Hbase) as Hall. rewrite Forall_forall in Hall. apply Hall. eapply nth_error_In; exact Hk0. }
  assert (Hfresh0 : forall x id, In id (ents_at x (pending (drv_of w m))) -> id < w_nid w).
  { intros x id Hin. destruct (tie_task _ _ _ _ _ Htie x id Hin) as (k' & tk1 & s & Hk' & Hs & _ & E1 & _). rewrite <- E1.
    exact (proj1 (b_ids _ _ _ _ Hbase k' tk1 s Hk' Hs)). }
  (* the common shape of all cases: after the awaited future (if any) has completed -- driver [drc] -- the poll leaves
     a result that meets [poll_ok] against the log [E] still demanded *)
  assert (Hgen : exists L E drc (old : N -> Prop) o b n dr',
            expected tk0 = L ++ E /\ t_fin tk = false /\ t_mod tk = t_mod tk0 /\ t_start tk = t_start tk0 /\
            run_steps t m k (t_steps tk) (t_cur tk) (t_iv tk) (drv_of w m) (w_nid w) (t_log tk) (w_mail w) =
              (fr_steps b, fr_cur b, fr_iv b, dr', n, L ++ o, false, []) /\
            poll_ok t (w_nid w) old drc E (o, b, n, dr') /\
            (forall id, old id -> exists s, In s (owned tk) /\ sid s = id) /\
            (wres b + 1 <= wt tk)%nat /\
            acts t (drv_of w m) drc /\ NwLive drc /\
            (forall k' tk1 s, k' <> k -> nth_error (w_tasks w) k' = Some tk1 -> In s (held tk1) -> t_mod tk1 = m ->
               (~ In k' r \/ t < deadline s) -> In (sid s) (ents_at (deadline s) (pending drc))) /\
            (forall d id, In id (ents_at d (pending drc)) ->
               exists k' tk1 s, k' <> k /\ nth_error (w_tasks w) k' = Some tk1 /\ In s (held tk1) /\ t_mod tk1 = m /\ sid s = id /\ deadline s = d) /\
            (forall d, NoDup (ents_at d (pending drc)))).
  { (* a task that runs [Sx] from scratch, with interval iv0, on driver drc *)
    assert (Hscratch : forall L Sx drc iv0, Forall frag_step Sx -> iv_idle iv0 -> Mid t drc ->
              (forall x id, In id (ents_at x (pending drc)) -> id < w_nid w) ->
              run_steps t m k (t_steps tk) (t_cur tk) (t_iv tk) (drv_of w m) (w_nid w) (t_log tk) (w_mail w) =
                run_steps t m k Sx None iv0 drc (w_nid w) L [] ->
              exists o b n dr',
                run_steps t m k (t_steps tk) (t_cur tk) (t_iv tk) (drv_of w m) (w_nid w) (t_log tk) (w_mail w) =
                  (fr_steps b, fr_cur b, fr_iv b, dr', n, L ++ o, false, []) /\
                poll_ok t (w_nid w) (iv_ids iv0) drc (exp_run t (iv_abs iv0) Sx) (o, b, n, dr') /\
                (wres b <= 2 * length Sx + 1)%nat).
    { intros L Sx drc iv0 HS Hidle Hmidc Hfresh Hrs.
      rewrite (run_steps_frag t m k Sx HS iv0 _ _ _ _ Hidle) in Hrs.
      pose proof (frag_run_spec t Sx HS (w_nid w) iv0 drc Hidle Hmidc Hfresh) as Hspec.
      pose proof (frag_run_len t Sx (w_nid w) iv0 drc) as Hl.
      destruct (frag_run t (w_nid w) iv0 Sx drc) as [[[o b] n] dr']. cbn [fst snd] in Hl.
      exists o, b, n, dr'. split; [exact Hrs|]. split; [exact Hspec|].
      unfold wres. destruct (fr_cur b) as [[]|]; try lia. destruct rearm; lia. }
    destruct Hcase as [(Hun & Hst)|(a & Hc & Hwk)].
    - pose proof (tstate_unspawned _ _ Hts Hun) as ->. destruct Hi0 as (I1 & I2 & I3 & I4 & I5 & I6).
      destruct Htie as [He Ht Hn].
      destruct (Hscratch [] (t_steps tk0) (drv_of w m) None I1 I Hmid Hfresh0) as (o & b & n & dr' & Hrs & Hspec & Hwr).
      { rewrite Hmail, I2, I3, I4. reflexivity. }
      exists [], (exp_run t (iv_abs None) (t_steps tk0)), (drv_of w m), (iv_ids None), o, b, n, dr'.
      split; [unfold expected; rewrite Hst; reflexivity|]. split; [exact I5|]. split; [reflexivity|]. split; [reflexivity|].
      split; [exact Hrs|]. split; [exact Hspec|]. split; [intros id (i & E & _); discriminate|].
      split; [unfold wt; rewrite I2, I5; lia|].
      split; [apply acts_refl|]. split; [exact Hlive|].
      split; [|split; [|exact Hn]].
      + intros k' tk1 s Hne Hk' Hs Hm1 Hq. apply (He k' tk1 s Hk' Hs Hm1). destruct Hq as [Hq|Hq]; [left|right; exact Hq].
        intros [E|E]; [apply Hne; symmetry; exact E|exact (Hq E)].
      + intros d id Hin. destruct (Ht d id Hin) as (k' & tk1 & s & Hk' & Hs & Hm1 & E1 & E2).
        exists k', tk1, s. repeat split; try assumption. intros ->. rewrite Hk in Hk'. injection Hk' as <-.
        unfold held in Hs. rewrite I2 in Hs. contradiction.
    - destruct (tstate_blocked _ _ _ Hts Hi0 Hc) as (st & rest & H1 & H2 & H3 & H4 & H7 & Hkind & Hh & Hndp & Hheld & H8).
      destruct (woken_done ts0 (w_tasks w) (w_owner w) (w_nid w) t m k r tk a (t_iv tk) (drv_of w m) Hbase Hnd Hmid Htie Hk Hmod Hc Hkind Hheld Hh Hndp Hwk)
        as (Ha & Ge & Gt & Gn).
      assert (Hmidc : Mid t (aw_done t a (drv_of w m))) by exact (acts_mid _ _ _ Ha Hmid).
      assert (Hfreshc : forall x id, In id (ents_at x (pending (aw_done t a (drv_of w m)))) -> id < w_nid w).
      { intros x id Hin. destruct (Gt x id Hin) as (k' & tk1 & s & _ & Hk' & Hs & _ & E1 & _). rewrite <- E1.
        exact (proj1 (b_ids _ _ _ _ Hbase k' tk1 s Hk' Hs)). }
      assert (Hlc : NwLive (aw_done t a (drv_of w m))).
      { (* next_wakeup was cleared when the task was woken *)
        intros x Hx. destruct Ha as (ops & _ & Eq). rewrite Eq in Hx. rewrite (proj1 (apply_ops_rest_nw ops _)) in Hx.
        rewrite (Hnwq k tk a (or_introl eq_refl) Hk Hc) in Hx. discriminate. }
      assert (Hivown : forall id, iv_ids (t_iv tk) id -> exists s, In s (owned tk) /\ sid s = id).
      { intros id (i & Ei & ->). exists (iv_delay i). split; [|reflexivity].
        unfold owned. rewrite Ei. apply in_or_app. right. left. reflexivity. }
      destruct (aw_reblock t a) as [a'|] eqn:Erb.
      + (* blocked again at once *)
        set (old := fun id => exists s, In s (owned tk) /\ sid s = id).
        destruct (reblock_ok t (w_nid w) old (aw_done t a (drv_of w m)) a a' (t_iv tk) rest st Hkind Hwk Erb H4 (mid_sorted _ _ Hmidc))
          as (pre & s' & Ea' & Hspec & Hwr).
        { intros s Hs. exists s. split; [apply held_owned; rewrite Hheld; exact Hs|reflexivity]. }
        { exact Hivown. }
        destruct (run_steps_reblock t m k st rest a a' (t_iv tk) (drv_of w m) (w_nid w) (t_log tk) [] Hkind Hh Hwk Erb) as (pre2 & s2 & Ea2 & Hrs).
        rewrite Ea' in Ea2. injection Ea2 as <- <-.
        exists (t_log tk), (aw_rec a (t_iv tk) ++ exp_run (aw_end a (t_iv tk)) (iv_abs (iv_after a (t_iv tk))) rest),
               (aw_done t a (drv_of w m)), old, [], (Some (a', t_iv tk, st :: rest)), (w_nid w), (register (sid s') (deadline s') (aw_done t a (drv_of w m))).
        split; [exact H8|]. split; [exact H7|]. split; [exact H1|]. split; [exact H2|].
        split; [rewrite Hmail, H3, Hc, app_nil_r; exact Hrs|]. split; [exact Hspec|]. split; [intros id H; exact H|].
        split; [unfold wt; rewrite H3, Hc; destruct a as [| | | | | | |[] ? ? ?|]; cbn [length] in *; lia|].
        split; [exact Ha|]. split; [exact Hlc|]. split; [exact Ge|split; [exact Gt|exact Gn]].
      + destruct (Hscratch (t_log tk ++ aw_rec a (t_iv tk)) rest (aw_done t a (drv_of w m)) (iv_after a (t_iv tk)) H4
                    (iv_after_idle _ _ Hkind) Hmidc Hfreshc) as (o & b & n & dr' & Hrs & Hspec & Hwr).
        { rewrite Hmail, H3, Hc. apply run_steps_woken; assumption. }
        exists (t_log tk ++ aw_rec a (t_iv tk)), (exp_run t (iv_abs (iv_after a (t_iv tk))) rest), (aw_done t a (drv_of w m)),
               (iv_ids (iv_after a (t_iv tk))), o, b, n, dr'.
        split; [rewrite H8, (aw_end_noreblock _ _ _ Hkind Hwk Erb), <- app_assoc; reflexivity|]. split; [exact H7|]. split; [exact H1|]. split; [exact H2|].
        split; [exact Hrs|]. split; [exact Hspec|]. split; [intros id Hid; exact (Hivown id (iv_after_ids _ _ _ Hid))|].
        split; [unfold wt; rewrite H3; cbn [length]; lia|].
        split; [exact Ha|]. split; [exact Hlc|]. split; [exact Ge|split; [exact Gt|exact Gn]]. }
  destruct Hgen as (L & E & drc & old & o & b & n & dr' & Hexp & Hfin & Hm0 & Hs0 & Hrs & Hspec & Hold & Hwt & Hac & Hlc & Ge & Gt & Gn).
  assert (Hmidc : Mid t drc) by exact (acts_mid _ _ _ Hac Hmid).
  destruct (poll_task_eq true t m k w tk _ _ _ _ _ _ _ _ Hk Hfin Hrs) as (Hsw & Hfes & Hnow & Hdr & Hoth & Htasks & Hnid & Hown & Hml).
  assert (Hnn : w_nid w <= n) by exact (proj1 Hspec).
  split; [exact Hsw|]. split; [|repeat split; try assumption].
  - constructor.
    + exact Hml.
    + rewrite Htasks, Hown, Hnid. cbn [sent_by]. eapply ps_base; eassumption.
    + inversion Hnd; assumption.
    + intros k' Hin. rewrite Htasks. eapply ps_runnable; [exact Hnd|exact Hin|exact (Hrun k' (or_intror Hin))].
    + rewrite Hdr. eapply ps_mid; eassumption.
    + rewrite Htasks, Hdr. eapply ps_tie; eassumption.
    + rewrite Hdr. eapply ps_live; eassumption.
    + intros k' tk1 a1 Hin Hk1 Hc1. rewrite Hdr.
      assert (Hnw' : next_wakeup dr' = next_wakeup drc) by (eapply ps_nw; eassumption).
      rewrite Hnw'. destruct Hac as (ops & _ & Eq). rewrite Eq, (proj1 (apply_ops_rest_nw ops _)).
      assert (Hne : k' <> k) by (intros ->; inversion Hnd; contradiction).
      rewrite Htasks, (nth_set_nth_other _ _ _ _ (fun E => Hne (eq_sym E))) in Hk1.
      exact (Hnwq k' tk1 a1 (or_intror Hin) Hk1 Hc1).
  - intros k' Hne. rewrite Htasks. apply nth_set_nth_other. intros E1; apply Hne; symmetry; exact E1.
  - rewrite Htasks. apply length_set_nth.
  - rewrite Hnid. exact Hnn.
  - intros tk1 H1. rewrite Htasks, (nth_set_nth_same _ _ _ _ Hk) in H1. injection H1 as <-.
    eapply ps_spawned; eassumption.
  - rewrite Htasks.
    match goal with |- (work (set_nth k ?T _) + 1 <= _)%nat => set (tk' := T) end.
    pose proof (work_set_nth (w_tasks w) k tk tk' Hk) as Hw.
    assert (Hwt' : wt tk' = wres b).
    { unfold wt, wres, tk'. cbn [t_steps t_cur t_fin].
      destruct (proj2 (ps_cases _ _ _ _ _ _ _ _ _ Hspec)) as [(Eb & _)|(a & iv' & st & rest & Eb & _)]; rewrite Eb; reflexivity. }
    lia.
Qed.

(* the executor's run over the whole queue *)
Lemma run_queue_frag ts0 t m : forall fuel q w, (length q <= fuel)%nat -> MInv ts0 t m q w ->
  let w' := run_queue true fuel t m q w in
  MInv ts0 t m [] w' /\ w_fes w' = w_fes w /\ w_now w' = w_now w /\
  (forall m', (m' =? 0) <> (m =? 0) -> drv_of w' m' = drv_of w m') /\
  (forall k', ~ In k' q -> nth_error (w_tasks w') k' = nth_error (w_tasks w) k') /\
  length (w_tasks w') = length (w_tasks w) /\ w_nid w <= w_nid w' /\
  (forall k tk', In k q -> nth_error (w_tasks w') k = Some tk' -> ~ unspawned tk') /\
  (work (w_tasks w') + length q <= work (w_tasks w))%nat.
Proof.
  induction fuel as [|f IH]; intros q w Hlen Hm; cbn zeta.
  - destruct q; [|cbn [length] in Hlen; lia]. cbn [run_queue].
    refine (conj Hm (conj eq_refl (conj eq_refl (conj (fun _ _ => eq_refl) (conj (fun _ _ => eq_refl) (conj eq_refl (conj _ (conj _ _)))))))); [lia|intros k tk' []|cbn [length]; lia].
  - destruct q as [|k r].
    { cbn [run_queue].
      refine (conj Hm (conj eq_refl (conj eq_refl (conj (fun _ _ => eq_refl) (conj (fun _ _ => eq_refl) (conj eq_refl (conj _ (conj _ _)))))))); [lia|intros k tk' []|cbn [length]; lia]. }
    cbn [run_queue].
    destruct (poll_task_minv ts0 t m k r w Hm) as (Hsw & Hm' & H1 & H2 & H3 & H4 & H5 & H6 & H7 & H8).
    destruct (poll_task true t m k w) as [w1 sw]. cbn [fst snd] in *. subst sw.
    rewrite (no_receivers ts0 (w_tasks w1) m (w_mail w1) (b_states _ _ _ _ (mi_base _ _ _ _ _ Hm')) (b_init _ _ _ _ (mi_base _ _ _ _ _ Hm'))).
    unfold enqueue. cbn [filter]. rewrite app_nil_r.
    cbn [length] in Hlen. destruct (IH r w1 ltac:(lia) Hm') as (G0 & G1 & G2 & G3 & G4 & G5 & G6 & G7 & G8).
    split; [exact G0|]. split; [rewrite G1; exact H1|]. split; [rewrite G2; exact H2|].
    split; [intros m' Hne; rewrite (G3 m' Hne); exact (H3 m' Hne)|].
    split; [|split; [rewrite G5; exact H5|split; [lia|split; [|cbn [length]; lia]]]].
    + intros k' Hn. rewrite G4; [apply H4|]; intros E; apply Hn; [left; symmetry; exact E|right; exact E].
    + intros k' tk' [<-|Hin] Hk'; [|exact (G7 k' tk' Hin Hk')].
      assert (Hkr : ~ In k r) by (pose proof (mi_nodup _ _ _ _ _ Hm) as Hnd; inversion Hnd; assumption).
      rewrite (G4 k Hkr) in Hk'. exact (H7 tk' Hk').
Qed.
