(* End-to-end argument, fragment {sleep, sleep_until, log}: the main loop of the composite
   model keeps the boundary invariant; when the event set is empty every task has finished
   with exactly the log the property demands. *)
From Coq Require Import List Arith NArith Bool Lia Sorting.Sorted Permutation ZifyBool.
From DesVerif Require Import Common.Fuel CQueue.Model CQueue.Spec CQueue.SpecProps Timer.Driver Timer.QueueLemmas Timer.Inv
  Timer.Exact Timer.Futures Timer.Model Timer.EvSet Timer.Frag Timer.E2EInv Timer.E2EPoll Timer.E2EEvent.
Import ListNotations.
Open Scope N_scope.

Lemma winv_take_snaps ts0 later w : WInv ts0 later w -> WInv ts0 later (take_snaps w).
Proof. intros [H1 H2 H3 H4 H5 H6]. constructor; assumption. Qed.

Lemma msg_of_inj k k' : msg_of k = msg_of k' -> k = k'.
Proof. unfold msg_of. lia. Qed.

Lemma msg_of_nat k : N.to_nat (msg_of k - 2) = k.
Proof. unfold msg_of. lia. Qed.

Lemma tstate_mod tk0 tk : tstate tk0 tk -> init_ok tk0 -> t_mod tk < 2.
Proof. intros H Hi. destruct (tstate_cases _ _ H Hi) as (E & _). destruct Hi as (_ & _ & _ & _ & _ & Hm). lia. Qed.

Lemma base_mod ts0 ts own nid k tk : Base ts0 ts own nid -> nth_error ts k = Some tk -> t_mod tk < 2.
Proof.
  intros B Hk. destruct (Forall2_nth _ _ _ _ _ (b_states _ _ _ _ B) Hk) as (tk0 & Hk0 & Hst).
  apply (tstate_mod tk0); [exact Hst|]. pose proof (b_init _ _ _ _ B) as Ha. rewrite Forall_forall in Ha. apply Ha.
  eapply nth_error_In; exact Hk0.
Qed.

(* ---- one iteration of Runtime::run ---- *)
(* the loop ends iff the event set is empty; otherwise the fetched event is a wake-up or a
   message, and the state in which its module_event begins satisfies PreEv *)
Lemma loop_step_pre ts0 w : WInv ts0 (fun _ => False) w ->
  (spend (w_fes w) = [] /\ loop_step true w = inr w) \/
  exists x w1 t m spawn fire,
    loop_step true w = inl (take_snaps (module_event true t m spawn fire w1)) /\
    PreEv ts0 (fun _ => False) w1 t m spawn fire /\
    spend (w_fes w) = x :: spend (w_fes w1) /\ w_tasks w1 = w_tasks w /\ (fire = true \/ spawn <> []).
Proof.
  intros HW. pose proof HW as [Hsi Htc Hmail Hbase Hdrv Hmsgs].
  assert (Hcase : spend (w_fes w) = [] \/ spend (w_fes w) <> []) by (destruct (spend (w_fes w)); [left; reflexivity|right; discriminate]).
  destruct Hcase as [Esp|Esp].
  { left. split; [exact Esp|]. unfold loop_step. rewrite (fetch_none _ Esp). reflexivity. }
  right.
  destruct (fetch_some (w_fes w) Hsi Esp) as (x & s' & Hf & Hsp & Htc' & Hle & Hmin).
  unfold loop_step. rewrite Hf.
  assert (Hsi' : SI s') by (pose proof (SI_fetch _ Hsi) as H; rewrite Hf in H; exact H).
  destruct Hmsgs as [Mt Mn Ma Ml]. rewrite Hsp in Mt, Mn, Ma.
  set (w1 := set_fes w s').
  destruct (epay x <? 2) eqn:Ep.
  - (* the AsyncWakeupEvent of module [epay x] *)
    exists x, w1, (etime x), (epay x), [], true. split; [reflexivity|]. split; [|split; [exact Hsp|split; [reflexivity|left; reflexivity]]].
    constructor; cbn [w1 set_fes w_fes w_now w_mail w_tasks w_owner w_nid].
    + exact Hsi'.
    + exact Htc'.
    + lia.
    + exact Hmin.
    + exact Hmail.
    + exact Hbase.
    + lia.
    + intros m' Hm'. destruct (Hdrv m' Hm') as (l & Hl & Hinv & Hperm & Htie & Hex). exists l. split; [exact Hl|].
      change (drv_of (set_fes w s') m') with (drv_of w m'). split; [exact Hinv|]. split; [|split; [exact Htie|exact Hex]].
      rewrite Hsp, wakes_cons in Hperm. cbn [andb]. destruct (N.eq_dec m' (epay x)) as [->|Hne].
      * rewrite N.eqb_refl in *. exact Hperm.
      * replace (epay x =? m') with false in Hperm by lia. replace (m' =? epay x) with false by lia. exact Hperm.
    + constructor.
    + intros k [].
    + intros k e [].
    + intros k [].
    + constructor.
      * intros e He Hp. exact (Mt e (or_intror He) Hp).
      * cbn [map filter] in Mn. replace (2 <=? epay x) with false in Mn by lia. exact Mn.
      * intros k tk Hk Hun. destruct (Ma k tk Hk Hun) as [[]|(e & [<-|He] & Ee)].
        -- unfold msg_of in Ee. lia.
        -- right. exists e. split; assumption.
      * intros k [[]|[]].
  - (* the message that makes its module spawn a task *)
    destruct (Mt x (or_introl eq_refl)) as (k & tk & E1 & Hk & Hun & E2 & E3); [lia|].
    rewrite E1, msg_of_nat. change (w_tasks w1) with (w_tasks w). rewrite Hk.
    cbn [map filter] in Mn. replace (2 <=? epay x) with true in Mn by lia. inversion Mn as [|? ? Hnotin Mn']; subst.
    exists x, w1, (etime x), (t_mod tk), [k], false. split; [reflexivity|]. split; [|split; [exact Hsp|split; [reflexivity|right; discriminate]]].
    constructor; cbn [w1 set_fes w_fes w_now w_mail w_tasks w_owner w_nid].
    + exact Hsi'.
    + exact Htc'.
    + lia.
    + exact Hmin.
    + exact Hmail.
    + exact Hbase.
    + exact (base_mod _ _ _ _ _ _ Hbase Hk).
    + intros m' Hm'. destruct (Hdrv m' Hm') as (l & Hl & Hinv & Hperm & Htie & Hex). exists l. split; [exact Hl|].
      change (drv_of (set_fes w s') m') with (drv_of w m'). split; [exact Hinv|]. split; [|split; [exact Htie|exact Hex]].
      rewrite Hsp, wakes_cons in Hperm. replace (epay x =? m') with false in Hperm by lia. exact Hperm.
    + constructor; [intros []|constructor].
    + intros k' [<-|[]]. exists tk. split; [exact Hk|]. split; [exact Hun|]. split; [reflexivity|lia].
    + intros k' e [<-|[]] He Ee. apply Hnotin. apply filter_In. split; [|unfold msg_of in Ee; lia].
      apply in_map_iff. exists e. split; [rewrite Ee; symmetry; exact E1|exact He].
    + intros k' [].
    + constructor.
      * intros e He Hp. exact (Mt e (or_intror He) Hp).
      * exact Mn'.
      * intros k' tk' Hk' Hun'. destruct (Ma k' tk' Hk' Hun') as [[]|(e & [<-|He] & Ee)].
        -- left. right. left. apply msg_of_inj. rewrite <- E1, <- Ee. reflexivity.
        -- right. exists e. split; assumption.
      * intros k' [[]|[<-|[]]]. exists tk. split; assumption.
Qed.

Lemma loop_step_winv ts0 w : WInv ts0 (fun _ => False) w ->
  match loop_step true w with
  | inl w' => WInv ts0 (fun _ => False) w'
  | inr w' => w' = w /\ spend (w_fes w) = []
  end.
Proof.
  intros HW. destruct (loop_step_pre ts0 w HW) as [(Esp & ->)|(x & w1 & t & m & spawn & fire & -> & HP & _)].
  - split; [reflexivity|exact Esp].
  - apply winv_take_snaps, module_event_winv. exact HP.
Qed.

(* every iteration lowers  2 * (steps still to go + tasks still to spawn) + pending events *)
Definition mu (w : world) : nat := (2 * work (w_tasks w) + length (spend (w_fes w)))%nat.

Lemma loop_step_measure ts0 w : WInv ts0 (fun _ => False) w ->
  match loop_step true w with
  | inl w' => (mu w' + 1 <= mu w)%nat
  | inr _ => True
  end.
Proof.
  intros HW. destruct (loop_step_pre ts0 w HW) as [(Esp & ->)|(x & w1 & t & m & spawn & fire & -> & HP & Hsp & Hts & Hcase)]; [exact I|].
  destruct (module_event_measure _ _ _ _ _ _ _ HP) as (nq & H1 & H2 & H3).
  unfold mu. change (w_tasks (take_snaps ?W)) with (w_tasks W). change (w_fes (take_snaps ?W)) with (w_fes W).
  rewrite Hsp. cbn [length]. rewrite <- Hts.
  destruct Hcase as [Hf|Hs].
  - destruct nq as [|nq]; [|lia]. destruct (H3 Hf eq_refl) as [E1 E2]. lia.
  - specialize (H2 Hs). lia.
Qed.

(* ---- when the event set is empty ---- *)
Definition done_exact (tk0 tk : task) : Prop := t_fin tk = true /\ t_log tk = expected tk0.

Lemma Forall2_nth_impl {A B} (R Q : A -> B -> Prop) l l' : Forall2 R l l' ->
  (forall k a b, nth_error l k = Some a -> nth_error l' k = Some b -> R a b -> Q a b) -> Forall2 Q l l'.
Proof.
  intros H. induction H as [|x y l l' Hxy H IH]; intros Himp; [constructor|].
  constructor; [exact (Himp 0%nat x y eq_refl eq_refl Hxy)|].
  apply IH. intros k a b Ha Hb Hr. exact (Himp (S k) a b Ha Hb Hr).
Qed.

Lemma winv_final ts0 w : WInv ts0 (fun _ => False) w -> spend (w_fes w) = [] -> Forall2 done_exact ts0 (w_tasks w).
Proof.
  intros [Hsi Htc Hmail Hbase Hdrv Hmsgs] Hsp.
  apply (Forall2_nth_impl _ _ _ _ (b_states _ _ _ _ Hbase)). intros k tk0 tk Hk0 Hk Hst.
  assert (Hi : init_ok tk0).
  { pose proof (b_init _ _ _ _ Hbase) as Ha. rewrite Forall_forall in Ha. apply Ha. eapply nth_error_In; exact Hk0. }
  destruct Hst as [->|a st rest H1 H2 H3 H4 H5 H7 H8 H9 H10 H11|H1 H2 H3 H4 H5 H6 H7].
  - (* never spawned: its message would still be in the event set *)
    exfalso. destruct Hi as (_ & I2 & _ & _ & I5 & _).
    destruct (m_all _ _ _ Hmsgs k tk0 Hk (conj I2 I5)) as [[]|(e & He & _)]. rewrite Hsp in He. contradiction.
  - (* blocked: its timer is live, so a wake-up would still be in the event set *)
    exfalso. pose proof (base_mod _ _ _ _ _ _ Hbase Hk) as Hm.
    destruct (Hdrv (t_mod tk) Hm) as (l & _ & [Hmid Hwake] & Hperm & [Hentry _ _] & _).
    destruct (aw_wake_held a _ H8) as [(s & Hs & Es) _].
    assert (Hh : In s (held tk)) by (unfold held; rewrite H5; exact Hs).
    pose proof (Hentry k tk s Hk Hh eq_refl (or_introl (fun F => F))) as Hin.
    assert (Hne : ents_at (deadline s) (pending (drv_of w (t_mod tk))) <> []) by (intros E; rewrite E in Hin; contradiction).
    assert (Hfin : deadline s < TMAX) by (rewrite Es; exact (base_blocked_fin _ _ _ _ _ _ _ Hbase Hk H5)).
    destruct (Hwake _ _ (ents_at_in _ _ Hne) Hne Hfin) as (w0 & Hw0 & _).
    rewrite Hsp in Hperm. cbn in Hperm. apply Permutation_nil in Hperm. rewrite Hperm in Hw0. contradiction.
  - split; assumption.
Qed.

(* safety at every boundary: what a task has logged so far is a prefix of the demanded log *)
Lemma winv_prefix ts0 later w : WInv ts0 later w ->
  Forall2 (fun tk0 tk => exists rest, expected tk0 = t_log tk ++ rest) ts0 (w_tasks w).
Proof.
  intros HW. pose proof (wi_base _ _ _ HW) as Hbase.
  apply (Forall2_nth_impl _ _ _ _ (b_states _ _ _ _ Hbase)). intros k tk0 tk Hk0 Hk Hst.
  assert (Hi : init_ok tk0).
  { pose proof (b_init _ _ _ _ Hbase) as Ha. rewrite Forall_forall in Ha. apply Ha. eapply nth_error_In; exact Hk0. }
  destruct Hst as [->|a st rest H1 H2 H3 H4 H5 H7 H8 H9 H10 H11|H1 H2 H3 H4 H5 H6 H7].
  - destruct Hi as (_ & _ & _ & I4 & _). rewrite I4. exists (expected tk0). reflexivity.
  - eexists. exact H11.
  - exists []. rewrite app_nil_r. symmetry. exact H7.
Qed.

(* ---- any number of iterations ---- *)
Lemma iter_winv ts0 n : forall w, WInv ts0 (fun _ => False) w ->
  match iter_nat n (loop_step true) w with
  | inl w' => WInv ts0 (fun _ => False) w'
  | inr w' => WInv ts0 (fun _ => False) w' /\ spend (w_fes w') = []
  end.
Proof.
  induction n as [|n IH]; intros w HW; cbn [iter_nat]; [exact HW|].
  pose proof (loop_step_winv ts0 w HW) as H. destruct (loop_step true w) as [w'|w'].
  - exact (IH w' H).
  - destruct H as [-> Hsp]. split; assumption.
Qed.
