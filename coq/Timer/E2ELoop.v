(* End-to-end argument, fragment of coq/Timer/Frag.v: the main loop of the composite
   model keeps the boundary invariant; when the event set is empty every task has finished
   with exactly the log the property demands. *)
From Coq Require Import List Arith NArith Bool Lia Sorting.Sorted Permutation ZifyBool.
From DesVerif Require Import Common.Fuel CQueue.Model CQueue.Spec CQueue.SpecProps Timer.Driver Timer.QueueLemmas Timer.Inv
  Timer.Exact Timer.Futures Timer.Model Timer.EvSet Timer.Frag Timer.E2EInv Timer.E2EPoll Timer.E2EEvent.
Import ListNotations.
Open Scope N_scope.

Lemma winv_take_snaps A0 A ts0 later w : WInv A0 A ts0 later w -> WInv A0 A ts0 later (take_snaps w).
Proof. intros [H1 H2 H3 H4 H5 H6 H7 H8]. constructor; assumption. Qed.

(* the boundary invariant, for some arrivals still expected *)
Definition WInvE (A0 : N -> arrs) (ts0 : list task) (later : nat -> Prop) (w : world) : Prop := exists A, WInv A0 A ts0 later w.

Lemma msg_of_inj k k' : msg_of k = msg_of k' -> k = k'.
Proof. unfold msg_of. lia. Qed.

Lemma msg_of_nat k : N.to_nat (msg_of k - 2) = k.
Proof. unfold msg_of. lia. Qed.

Lemma tstate_mod A0 A tk0 tk : tstate A0 A tk0 tk -> init_ok2 A0 tk0 -> t_mod tk < 2.
Proof. intros H Hi. destruct (tstate_cases _ _ _ _ H Hi) as (E & _). destruct Hi as (_ & _ & _ & _ & _ & Hm & _). lia. Qed.

Lemma base_mod A0 A ts0 ts own nid k tk : Base A0 A ts0 ts own nid -> nth_error ts k = Some tk -> t_mod tk < 2.
Proof.
  intros B Hk. destruct (Forall2_nth _ _ _ _ _ (b_states _ _ _ _ _ _ B) Hk) as (tk0 & Hk0 & Hst).
  apply (tstate_mod A0 A tk0); [exact Hst|]. pose proof (b_init _ _ _ _ _ _ B) as Ha. rewrite Forall_forall in Ha. apply Ha.
  eapply nth_error_In; exact Hk0.
Qed.

(* which module an event fetched from the event set belongs to: payload 0 / 1 is the
   AsyncWakeupEvent of module 0 / 1 (fire), payload 2 + k the message that spawns task k *)
Definition ev_module (pay : N) (ts : list task) (m : N) (fire : bool) : Prop :=
  (pay < 2 /\ m = pay /\ fire = true) \/
  (2 <= pay /\ fire = false /\ exists tk, nth_error ts (N.to_nat (pay - 2)) = Some tk /\ m = t_mod tk).

(* ---- one iteration of Runtime::run ---- *)
(* the loop ends iff the event set is empty; otherwise the fetched event is a wake-up or a
   message, and the state in which its module_event begins satisfies PreEv *)
Lemma loop_step_pre A0 A ts0 w : WInv A0 A ts0 (fun _ => False) w ->
  (spend (w_fes w) = [] /\ loop_step true w = inr w) \/
  exists x w1 t m spawn fire,
    loop_step true w = inl (take_snaps (module_event true t m spawn fire w1)) /\
    PreEv A0 A ts0 (fun _ => False) w1 t m spawn fire /\
    spend (w_fes w) = x :: spend (w_fes w1) /\ w_tasks w1 = w_tasks w /\ (fire = true \/ spawn <> []) /\
    (forall m', drv_of w1 m' = drv_of w m') /\ m < 2 /\
    sp_fetch (w_fes w) = (w_fes w1, OFetched (epay x) t) /\ ev_module (epay x) (w_tasks w) m fire.
Proof.
  intros HW. pose proof HW as [Hsi Htc Hinert Harr Hnorecv Hbase Hdrv Hmsgs].
  assert (Hcase : spend (w_fes w) = [] \/ spend (w_fes w) <> []) by (destruct (spend (w_fes w)); [left; reflexivity|right; discriminate]).
  destruct Hcase as [Esp|Esp].
  { left. split; [exact Esp|]. unfold loop_step. rewrite (fetch_none _ Esp). reflexivity. }
  right.
  destruct (fetch_some (w_fes w) Hsi Esp) as (x & s' & Hf & Hsp & Htc' & Hle & Hmin).
  unfold loop_step. rewrite Hf.
  assert (Hsi' : SI s') by (pose proof (SI_fetch _ Hsi) as H; rewrite Hf in H; exact H).
  destruct Hmsgs as [Mt Mn Ma Ml]. rewrite Hsp in Mt, Mn, Ma.
  set (w1 := set_fes w s').
  destruct (epay x <? 2) eqn:Ep.
  - (* the AsyncWakeupEvent of module [epay x] *)
    exists x, w1, (etime x), (epay x), [], true. split; [reflexivity|]. split; [|split; [exact Hsp|split; [reflexivity|split; [left; reflexivity|split; [reflexivity|split; [lia|split; [reflexivity|left; repeat split; lia]]]]]]].
    constructor; cbn [w1 set_fes w_fes w_now w_mail w_tasks w_owner w_nid].
    + exact Hsi'.
    + exact Htc'.
    + lia.
    + exact Hmin.
    + exact Hinert.
    + exact Harr.
    + exact Hnorecv.
    + exact Hbase.
    + lia.
    + intros m' Hm'. destruct (Hdrv m' Hm') as (l & Hl & Hinv & Hperm & Htie & Hex). exists l. split; [exact Hl|].
      change (drv_of (set_fes w s') m') with (drv_of w m'). split; [exact Hinv|]. split; [|split; [exact Htie|exact Hex]].
      rewrite Hsp, wakes_cons in Hperm. cbn [andb]. destruct (N.eq_dec m' (epay x)) as [->|Hne].
      * rewrite N.eqb_refl in *. exact Hperm.
      * replace (epay x =? m') with false in Hperm by lia. replace (m' =? epay x) with false by lia. exact Hperm.
    + constructor.
    + intros k [].
    + intros k e [].
    + intros k [].
    + intros k tk0 [].
    + constructor.
      * intros e He Hp. exact (Mt e (or_intror He) Hp).
      * cbn [map filter] in Mn. replace (2 <=? epay x) with false in Mn by lia. exact Mn.
      * intros k tk Hk Hun. destruct (Ma k tk Hk Hun) as [[]|(e & [<-|He] & Ee)].
        -- unfold msg_of in Ee. lia.
        -- right. exists e. split; assumption.
      * intros k [[]|[]].
  - (* the message that makes its module spawn a task *)
    destruct (Mt x (or_introl eq_refl)) as (k & tk & E1 & Hk & Hun & E2 & E3); [lia|].
    rewrite E1, msg_of_nat. change (w_tasks w1) with (w_tasks w). rewrite Hk.
    cbn [map filter] in Mn. replace (2 <=? epay x) with true in Mn by lia. inversion Mn as [|? ? Hnotin Mn']; subst.
    exists x, w1, (etime x), (t_mod tk), [k], false. split; [reflexivity|]. split; [|split; [exact Hsp|split; [reflexivity|split; [right; discriminate|split; [reflexivity|split; [exact (base_mod _ _ _ _ _ _ _ _ Hbase Hk)|split; [rewrite ?E1; reflexivity|right; rewrite ?E1; split; [unfold msg_of; lia|split; [reflexivity|exists tk; rewrite msg_of_nat; split; [exact Hk|reflexivity]]]]]]]]]].
    constructor; cbn [w1 set_fes w_fes w_now w_mail w_tasks w_owner w_nid].
    + exact Hsi'.
    + exact Htc'.
    + lia.
    + exact Hmin.
    + exact Hinert.
    + exact Harr.
    + exact Hnorecv.
    + exact Hbase.
    + exact (base_mod _ _ _ _ _ _ _ _ Hbase Hk).
    + intros m' Hm'. destruct (Hdrv m' Hm') as (l & Hl & Hinv & Hperm & Htie & Hex). exists l. split; [exact Hl|].
      change (drv_of (set_fes w s') m') with (drv_of w m'). split; [exact Hinv|]. split; [|split; [exact Htie|exact Hex]].
      rewrite Hsp, wakes_cons in Hperm. replace (epay x =? m') with false in Hperm by lia. exact Hperm.
    + constructor; [intros []|constructor].
    + intros k' [<-|[]]. exists tk. split; [exact Hk|]. split; [exact Hun|]. split; [reflexivity|lia].
    + intros k' e [<-|[]] He Ee. apply Hnotin. apply filter_In. split; [|unfold msg_of in Ee; lia].
      apply in_map_iff. exists e. split; [rewrite Ee; symmetry; exact E1|exact He].
    + intros k' [].
    + intros k' tk0 [].
    + constructor.
      * intros e He Hp. exact (Mt e (or_intror He) Hp).
      * exact Mn'.
      * intros k' tk' Hk' Hun'. destruct (Ma k' tk' Hk' Hun') as [[]|(e & [<-|He] & Ee)].
        -- left. right. left. apply msg_of_inj. rewrite <- E1, <- Ee. reflexivity.
        -- right. exists e. split; assumption.
      * intros k' [[]|[<-|[]]]. exists tk. split; assumption.
Qed.

Lemma loop_step_winv A0 ts0 w : WInvE A0 ts0 (fun _ => False) w ->
  match loop_step true w with
  | inl w' => WInvE A0 ts0 (fun _ => False) w'
  | inr w' => w' = w /\ spend (w_fes w) = []
  end.
Proof.
  intros [A HW]. destruct (loop_step_pre A0 A ts0 w HW) as [(Esp & ->)|(x & w1 & t & m & spawn & fire & -> & HP & _)].
  - split; [reflexivity|exact Esp].
  - destruct (module_event_winv _ _ _ _ _ _ _ _ _ HP) as (A' & HW'). exists A'. apply winv_take_snaps. exact HW'.
Qed.

(* every iteration lowers  2 * (work still to do) + pending events + stale wake-ups *)
Definition mu (w : world) : nat :=
  (2 * work (w_tasks w) + length (spend (w_fes w)) + stale (drv_of w 0) + stale (drv_of w 1))%nat.

Lemma loop_step_measure A0 ts0 w : WInvE A0 ts0 (fun _ => False) w ->
  match loop_step true w with
  | inl w' => (mu w' + 1 <= mu w)%nat
  | inr _ => True
  end.
Proof.
  intros [A HW]. destruct (loop_step_pre A0 A ts0 w HW) as [(Esp & ->)|(x & w1 & t & m & spawn & fire & -> & HP & Hsp & Hts & Hcase & Hdr & Hm & _)]; [exact I|].
  destruct (module_event_measure _ _ _ _ _ _ _ _ _ HP) as (_ & H2 & H3). specialize (H2 Hcase).
  unfold mu. change (w_tasks (take_snaps ?W)) with (w_tasks W). change (w_fes (take_snaps ?W)) with (w_fes W).
  change (drv_of (take_snaps ?W) ?M) with (drv_of W M).
  rewrite Hsp. cbn [length]. rewrite <- Hts, <- !Hdr.
  assert (Hm01 : m = 0 \/ m = 1) by lia. destruct Hm01 as [E0 | E0]; subst m.
  - rewrite (H3 1) by (cbn; discriminate). lia.
  - rewrite (H3 0) by (cbn; discriminate). lia.
Qed.

(* ---- when the event set is empty ---- *)
Definition done_exact (A0 : N -> arrs) (tk0 tk : task) : Prop := t_fin tk = true /\ t_log tk = expected A0 tk0.

Lemma winv_final A0 A ts0 w : WInv A0 A ts0 (fun _ => False) w -> spend (w_fes w) = [] -> Forall2 (done_exact A0) ts0 (w_tasks w).
Proof.
  intros [Hsi Htc Hinert Harr Hnorecv Hbase Hdrv Hmsgs] Hsp.
  apply (Forall2_nth_impl _ _ _ _ (b_states _ _ _ _ _ _ Hbase)). intros k tk0 tk Hk0 Hk Hst.
  assert (Hi : init_ok2 A0 tk0).
  { pose proof (b_init _ _ _ _ _ _ Hbase) as Ha. rewrite Forall_forall in Ha. apply Ha. eapply nth_error_In; exact Hk0. }
  destruct Hst as [-> _ _|a st rest H1 H2 H3 H4 H5 H7 H8 H9 H10 H11 _ _ _|H1 H2 H3 H4 H5 H6 H7].
  - (* never spawned: its message would still be in the event set *)
    exfalso. destruct Hi as (_ & I2 & _ & _ & I5 & _).
    destruct (m_all _ _ _ Hmsgs k tk0 Hk (conj I2 I5)) as [[]|(e & He & _)]. rewrite Hsp in He. contradiction.
  - (* blocked: its timer is live, so a wake-up would still be in the event set *)
    exfalso. pose proof (base_mod _ _ _ _ _ _ _ _ Hbase Hk) as Hm.
    destruct (Hdrv (t_mod tk) Hm) as (l & _ & [Hmid Hwake] & Hperm & [Hentry _ _] & _).
    destruct (aw_wake_held a _ H8) as [(s & Hs & Es) _].
    assert (Hh : In s (held tk)) by (unfold held; rewrite H5; exact Hs).
    pose proof (Hentry k tk s Hk Hh eq_refl (or_introl (fun F => F))) as Hin.
    assert (Hne : ents_at (deadline s) (pending (drv_of w (t_mod tk))) <> []) by (intros E; rewrite E in Hin; contradiction).
    assert (Hfin : deadline s < TMAX) by (rewrite Es; exact (base_blocked_fin _ _ _ _ _ _ _ _ _ Hbase Hk H5)).
    destruct (Hwake _ _ (ents_at_in _ _ Hne) Hne Hfin) as (w0 & Hw0 & _).
    rewrite Hsp in Hperm. cbn in Hperm. apply Permutation_nil in Hperm. rewrite Hperm in Hw0. contradiction.
  - split; assumption.
Qed.

(* safety at every boundary: what a task has logged so far is a prefix of the demanded log *)
Lemma winv_prefix A0 A ts0 later w : WInv A0 A ts0 later w ->
  Forall2 (fun tk0 tk => exists rest, expected A0 tk0 = t_log tk ++ rest) ts0 (w_tasks w).
Proof.
  intros HW. pose proof (wi_base _ _ _ _ _ HW) as Hbase.
  apply (Forall2_nth_impl _ _ _ _ (b_states _ _ _ _ _ _ Hbase)). intros k tk0 tk Hk0 Hk Hst.
  assert (Hi : init_ok2 A0 tk0).
  { pose proof (b_init _ _ _ _ _ _ Hbase) as Ha. rewrite Forall_forall in Ha. apply Ha. eapply nth_error_In; exact Hk0. }
  destruct Hst as [-> _ _|a st rest H1 H2 H3 H4 H5 H7 H8 H9 H10 H11 _ _ _|H1 H2 H3 H4 H5 H6 H7].
  - destruct Hi as (_ & _ & _ & I4 & _). rewrite I4. exists (expected A0 tk0). reflexivity.
  - eexists. exact H11.
  - exists []. rewrite app_nil_r. symmetry. exact H7.
Qed.

(* ---- any number of iterations ---- *)
Lemma iter_winv A0 ts0 n : forall w, WInvE A0 ts0 (fun _ => False) w ->
  match iter_nat n (loop_step true) w with
  | inl w' => WInvE A0 ts0 (fun _ => False) w'
  | inr w' => WInvE A0 ts0 (fun _ => False) w' /\ spend (w_fes w') = []
  end.
Proof.
  induction n as [|n IH]; intros w HW; cbn [iter_nat]; [exact HW|].
  pose proof (loop_step_winv A0 ts0 w HW) as H. destruct (loop_step true w) as [w'|w'].
  - exact (IH w' H).
  - destruct H as [-> Hsp]. split; assumption.
Qed.

(* ---- the event that wakes a timer is stamped exactly with its deadline ---- *)
(* at every event boundary of the run: the slots with timers that the next event's activation
   pops from its module's driver all have the deadline t of that event *)
Lemma event_woken_exact A0 ts0 w f pay t m fire : WInvE A0 ts0 (fun _ => False) w ->
  sp_fetch (w_fes w) = (f, OFetched pay t) -> ev_module pay (w_tasks w) m fire ->
  forall d es, In (d, es) (fst (activate t (if fire then sched_fire t (drv_of w m) else drv_of w m))) -> es <> [] -> d = t.
Proof.
  intros [A HW] Hf Hev d es Hin Hne.
  destruct (loop_step_pre A0 A ts0 w HW) as [(Esp & _)|(x & w1 & t' & m' & spawn & fire' & _ & HP & _ & _ & _ & Hdr & _ & Hf' & Hev')].
  { rewrite (fetch_none _ Esp) in Hf. discriminate. }
  rewrite Hf in Hf'. injection Hf' as -> -> ->.
  assert (E : m' = m /\ fire' = fire).
  { destruct Hev as [(H1 & E1 & E2)|(H1 & E1 & tk & Hk & E2)], Hev' as [(G1 & F1 & F2)|(G1 & F1 & tk' & Hk' & F2)]; try lia; try (split; congruence);
      rewrite Hk in Hk'; injection Hk' as <-; split; congruence. }
  destruct E as [Em Ef]. subst m' fire'. destruct es as [|id es']; [contradiction Hne; reflexivity|].
  rewrite <- (Hdr m) in Hin.
  destruct (ev_woken _ _ _ _ _ _ _ _ _ HP d (id :: es') id Hin (or_introl eq_refl)) as (k0 & tk0 & a0 & s0 & _ & _ & _ & _ & _ & _ & Edt & _). exact Edt.
Qed.
