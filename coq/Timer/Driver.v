(* Concrete model of the per-module timer driver of des:
     des/src/time/driver.rs       TimerQueue::{add, next, bump}, TimerSlot::remove,
                                  TimerSlotEntryHandle::{drop, reset}
     des/src/net/module/refs.rs   ModuleRef::{activate, deactivate}
     des/src/net/runtime/events.rs  AsyncWakeupEvent::handle
   Function names and branch structure follow the Rust code.  A slot is
   (deadline, ids of the registered entries in registration order); the waker of an
   entry is not part of the driver model (it is the task that registered the entry,
   kept by the composite model coq/Timer/Model.v).  [scheduled] is the list of
   AsyncWakeupEvents of this module that sit in the future event set.
   [next_wakeup = None] is SimTime::MAX.  No proofs in this file. *)
From Coq Require Import List NArith Bool.
Import ListNotations.
Open Scope N_scope.

Definition slot := (N * list N)%type.

Record driver := { pending : list slot; next_wakeup : option N; scheduled : list N }.

Definition new_driver : driver := {| pending := []; next_wakeup := None; scheduled := [] |}.

Definition set_pending (dr : driver) (p : list slot) : driver :=
  {| pending := p; next_wakeup := next_wakeup dr; scheduled := scheduled dr |}.

(* ---- TimerQueue ---- *)

(* add: binary_search_by(slot.time.cmp(time)) on the sorted deque; Ok(found) pushes the
   entry onto that slot, Err(insert_at) inserts a fresh slot there.  On a deque sorted by
   distinct times the linear scan below finds the same position. *)
Fixpoint q_add (id d : N) (p : list slot) : list slot :=
  match p with
  | [] => [(d, [id])]
  | (t, es) :: r =>
    if d <? t then (d, [id]) :: (t, es) :: r
    else if d =? t then (t, es ++ [id]) :: r
    else (t, es) :: q_add id d r
  end.

(* TimerSlot::remove: the first entry with that id *)
Fixpoint ents_remove (id : N) (es : list N) : option (list N) :=
  match es with
  | [] => None
  | x :: r => if x =? id then Some r
              else match ents_remove id r with Some r' => Some (x :: r') | None => None end
  end.

(* An entry handle is (id, Weak<slot>); the slot is named here by its deadline [d] (slot times
   are distinct; a slot that was popped cannot be found any more, which is the failing
   upgrade() of the Weak).  [q_take_at] = upgrade()?.remove(id)? *)
Fixpoint q_take_at (d id : N) (p : list slot) : option (list slot) :=
  match p with
  | [] => None
  | (t, es) :: r =>
    if t =? d then match ents_remove id es with Some es' => Some ((t, es') :: r) | None => None end
    else match q_take_at d id r with Some r' => Some ((t, es) :: r') | None => None end
  end.

(* Drop for TimerSlotEntryHandle (not resolved): upgrade, remove(id), ignore the result *)
Definition q_remove_at (d id : N) (p : list slot) : list slot :=
  match q_take_at d id p with Some p' => p' | None => p end.

(* TimerSlotEntryHandle::reset(self, d'): upgrade()?, remove(id)?, queue.add(entry, d');
   the consumed handle [self] is dropped when the function returns, i.e. after the add:
   its Drop runs remove(id) on the OLD slot once more (this bites iff d' = d).
   The bool says whether a new handle (for slot d') was returned. *)
Definition handle_reset (d id d' : N) (p : list slot) : list slot * bool :=
  match q_take_at d id p with
  | Some p1 => (q_remove_at d id (q_add id d' p1), true)
  | None => (p, false)
  end.

(* next (after fix: commit 94eba61): pop slots without entries from the front, then report
   the front slot's time.  [fixed = false] is the pinned code: the front slot only, None if
   it has no entries; nothing is popped. *)
Fixpoint prune (p : list slot) : list slot :=
  match p with
  | (_, []) :: r => prune r
  | _ => p
  end.

Definition front_time (p : list slot) : option N :=
  match p with [] => None | (t, _) :: _ => Some t end.

Definition q_next (fixed : bool) (p : list slot) : list slot * option N :=
  if fixed then (prune p, front_time (prune p))
  else (p, match p with (t, _ :: _) :: _ => Some t | _ => None end).

(* bump: pop every front slot with time <= now *)
Fixpoint q_bump (now : N) (p : list slot) : list slot * list slot :=
  match p with
  | [] => ([], [])
  | (t, es) :: r =>
    if t <=? now then let '(w, rest) := q_bump now r in ((t, es) :: w, rest)
    else ([], p)
  end.

(* ---- what Sleep does to the driver of its module ---- *)
Definition register (id d : N) (dr : driver) : driver := set_pending dr (q_add id d (pending dr)).

Definition drop_entry (id d : N) (dr : driver) : driver := set_pending dr (q_remove_at d id (pending dr)).

(* Sleep::reset_inner: `handle.reset(deadline);` -- the returned new handle is discarded,
   so its Drop removes the entry that was just re-added *)
Definition reset_entry (id d d' : N) (dr : driver) : driver :=
  let '(p1, some) := handle_reset d id d' (pending dr) in
  set_pending dr (if some then q_remove_at d' id p1 else p1).

(* ---- ModuleRef::activate / deactivate ---- *)

(* activate: bumpable = bump(); if next_wakeup <= now { next_wakeup = MAX }; wake_all.
   Returns the popped slots (their entries are woken in this order). *)
Definition activate (now : N) (dr : driver) : list slot * driver :=
  let '(w, rest) := q_bump now (pending dr) in
  (w, {| pending := rest;
         next_wakeup := match next_wakeup dr with
                        | Some x => if x <=? now then None else Some x
                        | None => None
                        end;
         scheduled := scheduled dr |}).

(* SimTime::MAX: the deadline of a far-future Sleep (Sleep::far_future, or now + d = MAX)
   and at the same time the "no wake-up scheduled" value of Driver::next_wakeup.  In the
   wire format of the runners it is the largest representable number, 2^62 - 1. *)
Definition TMAX : N := 4611686018427387903.

(* `next < self.next_wakeup` with next_wakeup = None standing for SimTime::MAX: a slot whose
   deadline is SimTime::MAX never gets a wake-up event *)
Definition earlier (t : N) (nw : option N) : bool :=
  match nw with None => t <? TMAX | Some w => t <? w end.

(* deactivate: if let Some(t) = next() { if t < next_wakeup { next_wakeup = t; rt.add(AsyncWakeupEvent, t) } }.
   Returns the wake-up that was put into the event set. *)
Definition deactivate (fixed : bool) (dr : driver) : driver * option N :=
  let '(p', nx) := q_next fixed (pending dr) in
  match nx with
  | Some t =>
    if earlier t (next_wakeup dr)
    then ({| pending := p'; next_wakeup := Some t; scheduled := scheduled dr ++ [t] |}, Some t)
    else ({| pending := p'; next_wakeup := next_wakeup dr; scheduled := scheduled dr |}, None)
  | None => ({| pending := p'; next_wakeup := next_wakeup dr; scheduled := scheduled dr |}, None)
  end.

(* the AsyncWakeupEvent stamped [w] leaves the event set *)
Fixpoint remove1 (w : N) (l : list N) : list N :=
  match l with
  | [] => []
  | x :: r => if x =? w then r else x :: remove1 w r
  end.

Definition sched_fire (w : N) (dr : driver) : driver :=
  {| pending := pending dr; next_wakeup := next_wakeup dr; scheduled := remove1 w (scheduled dr) |}.

(* ---- events of one module, seen from its driver ---- *)
(* What the tasks polled during an event do to the driver: *)
Inductive dop :=
| Register (id d : N)          (* Sleep::poll, first poll with deadline > now *)
| DropEntry (id d : N)         (* a registered Sleep is dropped *)
| ResetEntry (id d d' : N).    (* Sleep::reset on a registered Sleep *)

Definition apply_op (dr : driver) (o : dop) : driver :=
  match o with
  | Register id d => register id d dr
  | DropEntry id d => drop_entry id d dr
  | ResetEntry id d d' => reset_entry id d d' dr
  end.

Definition apply_ops (ops : list dop) (dr : driver) : driver := fold_left apply_op ops dr.

(* module.activate(); <callback; woken and spawned tasks run: ops>; module.deactivate(rt) *)
Definition event_body (fixed : bool) (t : N) (ops : list dop) (dr : driver) : list slot * driver :=
  let '(w, d1) := activate t dr in (w, fst (deactivate fixed (apply_ops ops d1))).

(* AsyncWakeupEvent::handle for the wake-up stamped [w] *)
Definition wakeup_event (fixed : bool) (w : N) (ops : list dop) (dr : driver) : list slot * driver :=
  event_body fixed w ops (sched_fire w dr).

(* A history of one module: any other event of the module (message, start-up stage,
   restart ...) at time t, or the earliest scheduled wake-up firing. *)
Inductive event := EOther (t : N) (ops : list dop) | EWake (ops : list dop).

Fixpoint lmin (l : list N) : option N :=
  match l with
  | [] => None
  | x :: r => match lmin r with Some m => Some (N.min x m) | None => Some x end
  end.

Definition ev_ops (e : event) : list dop := match e with EOther _ o => o | EWake o => o end.

(* (time of the event, popped slots, driver afterwards); an EWake without a scheduled
   wake-up is not an event: nothing happens *)
Definition step_event (fixed : bool) (st : N * driver) (e : event) : N * driver * list slot :=
  let '(now, dr) := st in
  match e with
  | EOther t ops => let '(w, dr') := event_body fixed t ops dr in (t, dr', w)
  | EWake ops =>
    match lmin (scheduled dr) with
    | Some t => let '(w, dr') := wakeup_event fixed t ops dr in (t, dr', w)
    | None => (now, dr, [])
    end
  end.

(* the log lists (time of the event, popped slot) *)
Fixpoint run_trace (fixed : bool) (st : N * driver) (tr : list event) : N * driver * list (N * slot) :=
  match tr with
  | [] => (fst st, snd st, [])
  | e :: r =>
    let '(t, dr', w) := step_event fixed st e in
    let '(now', dr'', lg) := run_trace fixed (t, dr') r in
    (now', dr'', map (fun s => (t, s)) w ++ lg)
  end.
