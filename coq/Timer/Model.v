(* Composite model used for PREDICTION by the correspondence check of C05: async modules
   whose tasks are scripts over the timer futures, a FIFO executor that polls runnable
   tasks until all are blocked, one timer driver per module (coq/Timer/Driver.v), the
   futures of coq/Timer/Futures.v and the future event set (the two-list specification
   coq/CQueue/Spec.v that C01 proves the calendar queue refines).
     des/src/net/runtime/mod.rs     SimLifecycle::{at_sim_start, at_sim_end}, Runtime::run
     des/src/net/runtime/events.rs  HandleMessageEvent / AsyncWakeupEvent handlers
     des/src/net/runtime/unwind.rs  Harness::exec (callback, then yield_now: woken and
                                    spawned tasks are polled)
   The theorems of C05 are about the driver and future layers; this composition is
   validated against the real crate on every run, not proved.  There is no poll budget
   here (tokio's 61 polls per event are the subject of C06).  No proofs in this file. *)
From Coq Require Import List NArith PArith Bool.
From DesVerif Require Import Common.Fuel Common.Codec CQueue.Model CQueue.Spec Timer.Driver Timer.Futures.
Import ListNotations.
Open Scope N_scope.

(* ---- task scripts ---- *)
(* the value future of a timeout: sleep(x), or a future that is Pending on its first poll
   (waking its own task at once) and Ready on the second poll, in the same instant *)
Inductive inner := ISleep (x : N) | IFlip.

Inductive step :=
| SSleep (d : N)                        (* sleep(d).await *)
| SSleepUntil (t : N)                   (* sleep_until(t).await *)
| STimeout (d : N) (v : inner)          (* timeout(d, v).await *)
| SSelect (biased : bool) (a b : N)     (* select! { sleep(a) => 0, sleep(b) => 1 }; the loser is dropped *)
| SIvNew (period : N) (b : behaviour)   (* interval(period) + set_missed_tick_behavior *)
| SIvTick                               (* iv.tick().await *)
| SIvDrop                               (* the interval goes out of scope *)
| SReset (polled : bool) (d1 d2 : N)    (* pinned sleep(d1) [polled once]; reset(now + d2); await *)
| SDropSleep (d : N)                    (* Box::pin(sleep(d)) polled once, then dropped *)
| SLog
| SHandOver (ch d : N)                  (* Box::pin(sleep(d)) polled once, then sent on channel ch of the module *)
| SRecvAwait (ch : N)                   (* receive a boxed Sleep from channel ch (log), await it (log) *)
| STimeoutRecv (d ch : N)               (* timeout(d, receive from channel ch).await; a received Sleep is dropped *)
| SSelRecv (recv_first : bool) (ch d : N)   (* select! { biased; x = receive from ch => 0 (x dropped), sleep(d) => 1 } *)
| SKeep (rearm : bool) (d0 d2 x d3 : N)    (* keep-alive timer: boxed sleep(d0) polled once, armed with reset(now + d2);
                                              select! { biased; it => 0, sleep(x) => 1 }; on 1: re-armed with
                                              reset(now + d3) and awaited, or dropped *)
| SWrap (wrapper_first : bool) (d : N)    (* same task, other waker: Box::pin(sleep(d)) polled once with the task's own
                                              waker, then awaited through a sub-executor that polls it with ITS waker
                                              (and only when that waker was woken); wrapper_first: the other way round.
                                              The stored waker is the one of the LAST poll (Futures.v note_poll); every
                                              waker of a task wakes that task, so the model keeps one identity per task *)
| SRelay (wrapped : bool) (chi cho : N).   (* hand-over chain: receive a boxed Sleep on chi, poll it once (wrapped: with
                                              the waker of a sub-executor), send it on over cho, log the instant.  The
                                              Sleep may come back to a task that polled it earlier *)

Inductive vstate := VSleep (s : sleep) | VFlip (polled : bool) | VRecv (ch : N) | VGot (s : sleep).

(* the future a blocked task is awaiting *)
Inductive aw :=
| AwSleep (s : sleep)
| AwTimeout (v : vstate) (dl : sleep)
| AwSelect (biased tie : bool) (a b : sleep)
| AwTick
| AwRecv (ch : N)                       (* waiting for a boxed Sleep on channel ch *)
| AwHeld (tr : N) (s : sleep)           (* received at tr, awaiting the received Sleep *)
| AwSelRecv (recv_first : bool) (ch : N) (s : sleep)
| AwKeep (rearm : bool) (d3 : N) (s sx : sleep)   (* select between the keep-alive timer s and sleep(x) *)
| AwThen (pre : list N) (s : sleep)               (* [pre] is logged; the step ends when s completes *)
| AwRelay (k : nat) (chi cho : N).                (* task k waits for a boxed Sleep on chi to pass it on over cho *)

(* A duration of at least FARK = 2^61 ns stands for Duration::MAX: `now + d` is SimTime::MAX
   (exactly, at now = 0) or not representable (Sleep::far_future); either way the deadline is
   SimTime::MAX = TMAX and the Sleep draws a fresh id like any other. *)
Definition FARK : N := 2305843009213693952.
Definition dl (now d : N) : N := if FARK <=? d then TMAX else now + d.

(* the channels: (module, channel, sending task, the boxed Sleep), oldest first *)
Definition mailbox := list (N * N * nat * sleep).

Fixpoint mail_take (m ch : N) (mail : mailbox) : option (sleep * mailbox) :=
  match mail with
  | [] => None
  | (m', ch', k, s) :: r =>
    if (m' =? m) && (ch' =? ch) then Some (s, r)
    else match mail_take m ch r with
         | Some (s', r') => Some (s', (m', ch', k, s) :: r')
         | None => None
         end
  end.

Record task := { t_mod : N; t_start : N; t_steps : list step; t_cur : option aw;
                 t_iv : option interval; t_log : list N; t_fin : bool }.

Definition vpoll (now : N) (v : vstate) (dr : driver) : bool * vstate * driver :=
  match v with
  | VSleep s => let '(r, s', dr') := sleep_poll now s dr in (r, VSleep s', dr')
  | VFlip p => (p, VFlip true, dr)
  | VRecv ch => (false, VRecv ch, dr)       (* the channels are looked at by [vpoll_m] *)
  | VGot s => (true, VGot s, dr)
  end.

Definition vdrop (v : vstate) (dr : driver) : driver :=
  match v with VSleep s => sleep_drop s dr | VGot s => sleep_drop s dr | _ => dr end.

Definition self_wakes (v : vstate) : bool := match v with VFlip false => true | _ => false end.

Definition iv_drop (iv : option interval) (dr : driver) : driver :=
  match iv with Some i => sleep_drop (iv_delay i) dr | None => dr end.

(* one poll of the awaited future: (log record if Ready, future, interval, driver,
   did the task wake itself); the channels are only touched by AwRecv, see [poll_aw] *)
Definition poll_aw0 (now : N) (a : aw) (iv : option interval) (dr : driver)
  : option (list N) * aw * option interval * driver * bool :=
  match a with
  | AwSleep s =>
    let '(r, s', dr') := sleep_poll now s dr in
    ((if r then Some [now] else None), AwSleep s', iv, dr', false)
  | AwTimeout v dl =>
    let '(res, v', dl', dr') := timeout_poll vpoll now v dl dr in
    match res with
    | TPending => (None, AwTimeout v' dl', iv, dr', self_wakes v)
    | TOk => (Some [now; 1], AwTimeout v' dl', iv, sleep_drop dl' (vdrop v' dr'), false)
    | TElapsed => (Some [now; 0], AwTimeout v' dl', iv, sleep_drop dl' (vdrop v' dr'), false)
    end
  | AwSelect biased tie a b =>
    let code (br : N) := if biased || negb tie then br else 2 in
    let '(ra, a', dr1) := sleep_poll now a dr in
    if ra then (Some [now; code 0], AwSelect biased tie a' b, iv, sleep_drop b (sleep_drop a' dr1), false)
    else
      let '(rb, b', dr2) := sleep_poll now b dr1 in
      if rb then (Some [now; code 1], AwSelect biased tie a' b', iv, sleep_drop b' (sleep_drop a' dr2), false)
      else (None, AwSelect biased tie a' b', iv, dr2, false)
  | AwTick =>
    match iv with
    | Some i =>
      let '(res, i', dr') := poll_tick now i dr in
      (match res with Some x => Some [now; x] | None => None end, AwTick, Some i', dr', false)
    | None => (Some [now; 0], AwTick, None, dr, false)
    end
  | AwRecv ch => (None, AwRecv ch, iv, dr, false)
  | AwHeld tr s =>
    let '(r, s', dr') := sleep_poll now s dr in
    ((if r then Some [tr; now] else None), AwHeld tr s', iv, dr', false)
  | AwSelRecv rf ch s => (None, AwSelRecv rf ch s, iv, dr, false)   (* see [poll_aw] *)
  | AwKeep rearm d3 s sx =>
    let '(r, s', dr1) := sleep_poll now s dr in
    if r then (Some [now; 0], AwKeep rearm d3 s' sx, iv, sleep_drop s' (sleep_drop sx dr1), false)
    else
      let '(rx, sx', dr2) := sleep_poll now sx dr1 in
      if rx then
        if rearm then
          let '(s3, dr3) := sleep_reset s' (dl now d3) (sleep_drop sx' dr2) in
          let '(r4, s4, dr4) := sleep_poll now s3 dr3 in
          if r4 then (Some [now; 1; now], AwThen [now; 1] s4, iv, dr4, false)
          else (None, AwThen [now; 1] s4, iv, dr4, false)
        else (Some [now; 1; now], AwKeep rearm d3 s' sx', iv, sleep_drop s' (sleep_drop sx' dr2), false)
      else (None, AwKeep rearm d3 s' sx', iv, dr2, false)
  | AwThen pre s =>
    let '(r, s', dr') := sleep_poll now s dr in
    ((if r then Some (pre ++ [now]) else None), AwThen pre s', iv, dr', false)
  | AwRelay k chi cho => (None, AwRelay k chi cho, iv, dr, false)
  end.

(* the value future of a timeout with the channels of module m at hand: a receive is Ready
   with the oldest boxed Sleep of its channel *)
Definition vpoll_m (m now : N) (vm : vstate * mailbox) (dr : driver) : bool * (vstate * mailbox) * driver :=
  match fst vm with
  | VRecv ch =>
    match mail_take m ch (snd vm) with
    | Some (s, mail') => (true, (VGot s, mail'), dr)
    | None => (false, vm, dr)
    end
  | v => let '(r, v', dr') := vpoll now v dr in (r, (v', snd vm), dr')
  end.

(* ... with the channels of module m: a waiting receiver takes the oldest boxed Sleep of its
   channel and goes on to await it in the same poll *)
Definition poll_aw (now m : N) (a : aw) (iv : option interval) (dr : driver) (mail : mailbox)
  : option (list N) * aw * option interval * driver * bool * mailbox :=
  match a with
  | AwRecv ch =>
    match mail_take m ch mail with
    | Some (s, mail') => (poll_aw0 now (AwHeld now s) iv dr, mail')
    | None => (None, AwRecv ch, iv, dr, false, mail)
    end
  | AwRelay k chi cho =>
    match mail_take m chi mail with
    | Some (s, mail') =>
      let '(_, s', dr') := sleep_poll now s dr in
      (Some [now], AwRelay k chi cho, iv, dr', false, mail' ++ [(m, cho, k, s')])
    | None => (None, AwRelay k chi cho, iv, dr, false, mail)
    end
  | AwTimeout v dl =>
    let '(res, vm', dl', dr') := timeout_poll (vpoll_m m) now (v, mail) dl dr in
    match res with
    | TPending => (None, AwTimeout (fst vm') dl', iv, dr', self_wakes v, snd vm')
    | TOk => (Some [now; 1], AwTimeout (fst vm') dl', iv, sleep_drop dl' (vdrop (fst vm') dr'), false, snd vm')
    | TElapsed => (Some [now; 0], AwTimeout (fst vm') dl', iv, sleep_drop dl' (vdrop (fst vm') dr'), false, snd vm')
    end
  | AwSelRecv rf ch s =>
    if rf then
      match mail_take m ch mail with
      | Some (x, mail') => (Some [now; 0], AwSelRecv rf ch s, iv, sleep_drop x (sleep_drop s dr), false, mail')
      | None =>
        let '(r, s', dr') := sleep_poll now s dr in
        if r then (Some [now; 1], AwSelRecv rf ch s', iv, sleep_drop s' dr', false, mail)
        else (None, AwSelRecv rf ch s', iv, dr', false, mail)
      end
    else
      let '(r, s', dr') := sleep_poll now s dr in
      if r then (Some [now; 1], AwSelRecv rf ch s', iv, sleep_drop s' dr', false, mail)
      else match mail_take m ch mail with
           | Some (x, mail') => (Some [now; 0], AwSelRecv rf ch s', iv, sleep_drop x (sleep_drop s' dr'), false, mail')
           | None => (None, AwSelRecv rf ch s', iv, dr', false, mail)
           end
  | _ => (poll_aw0 now a iv dr, mail)
  end.

(* a step is begun: (future to await / None for a step without await, interval, driver,
   next Sleep id, log) *)
Definition start_step0 (now : N) (s : step) (iv : option interval) (dr : driver) (nid : N) (lg : list N)
  : option aw * option interval * driver * N * list N :=
  match s with
  | SSleep d => (Some (AwSleep (sleep_new (now + d) nid)), iv, dr, nid + 1, lg)
  | SSleepUntil t => (Some (AwSleep (sleep_new t nid)), iv, dr, nid + 1, lg)
  | STimeout d (ISleep x) =>
    (Some (AwTimeout (VSleep (sleep_new (now + x) nid)) (sleep_new (dl now d) (nid + 1))), iv, dr, nid + 2, lg)
  | STimeout d IFlip => (Some (AwTimeout (VFlip false) (sleep_new (dl now d) nid)), iv, dr, nid + 1, lg)
  | SSelect biased a b =>
    (Some (AwSelect biased (a =? b) (sleep_new (dl now a) nid) (sleep_new (dl now b) (nid + 1))), iv, dr, nid + 2, lg)
  | SIvNew p b => (None, Some (interval_new now p b nid), iv_drop iv dr, nid + 1, lg)
  | SIvTick => (Some AwTick, iv, dr, nid, lg)
  | SIvDrop => (None, None, iv_drop iv dr, nid, lg)
  | SReset polled d1 d2 =>
    let s0 := sleep_new (dl now d1) nid in
    let '(s1, dr1) := if polled then let '(_, s1, dr1) := sleep_poll now s0 dr in (s1, dr1) else (s0, dr) in
    let '(s2, dr2) := sleep_reset s1 (dl now d2) dr1 in
    (Some (AwSleep s2), iv, dr2, nid + 1, lg)
  | SDropSleep d =>
    let '(_, s1, dr1) := sleep_poll now (sleep_new (dl now d) nid) dr in
    (None, iv, sleep_drop s1 dr1, nid + 1, lg ++ [now])
  | SLog => (None, iv, dr, nid, lg ++ [now])
  | SHandOver _ _ => (None, iv, dr, nid, lg)          (* see [start_step] *)
  | SRecvAwait ch => (Some (AwRecv ch), iv, dr, nid, lg)
  | STimeoutRecv d ch => (Some (AwTimeout (VRecv ch) (sleep_new (dl now d) nid)), iv, dr, nid + 1, lg)
  | SSelRecv rf ch d => (Some (AwSelRecv rf ch (sleep_new (dl now d) nid)), iv, dr, nid + 1, lg)
  | SKeep rearm d0 d2 x d3 =>
    let '(_, s1, dr1) := sleep_poll now (sleep_new (dl now d0) nid) dr in
    let '(s2, dr2) := sleep_reset s1 (dl now d2) dr1 in
    (Some (AwKeep rearm d3 s2 (sleep_new (now + x) (nid + 1))), iv, dr2, nid + 2, lg)
  | SWrap _ d =>
    let '(_, s1, dr1) := sleep_poll now (sleep_new (dl now d) nid) dr in
    (Some (AwSleep s1), iv, dr1, nid + 1, lg)
  | SRelay _ _ _ => (None, iv, dr, nid, lg)           (* see [start_step] *)
  end.

(* ... for task k of module m, with the channels *)
Definition start_step (now m : N) (k : nat) (s : step) (iv : option interval) (dr : driver) (nid : N)
                      (lg : list N) (mail : mailbox)
  : option aw * option interval * driver * N * list N * mailbox :=
  match s with
  | SHandOver ch d =>
    let '(_, s1, dr1) := sleep_poll now (sleep_new (now + d) nid) dr in
    (None, iv, dr1, nid + 1, lg ++ [now], mail ++ [(m, ch, k, s1)])
  | SRelay _ chi cho => (Some (AwRelay k chi cho), iv, dr, nid, lg, mail)
  | _ => (start_step0 now s iv dr nid lg, mail)
  end.

(* the task is polled: it runs until it blocks or ends *)
Fixpoint run_steps (now m : N) (k : nat) (steps : list step) (cur : option aw) (iv : option interval)
                   (dr : driver) (nid : N) (lg : list N) (mail : mailbox)
  : list step * option aw * option interval * driver * N * list N * bool * mailbox :=
  match steps with
  | [] => ([], None, None, iv_drop iv dr, nid, lg, false, mail)
  | s :: rest =>
    let '(a, iv1, dr1, nid1, lg1, mail1) :=
      match cur with
      | Some a => (Some a, iv, dr, nid, lg, mail)
      | None => start_step now m k s iv dr nid lg mail
      end in
    match a with
    | None => run_steps now m k rest None iv1 dr1 nid1 lg1 mail1
    | Some a =>
      let '(res, a', iv2, dr2, sw, mail2) := poll_aw now m a iv1 dr1 mail1 in
      match res with
      | Some r => run_steps now m k rest None iv2 dr2 nid1 (lg1 ++ r) mail2
      | None => (s :: rest, Some a', iv2, dr2, nid1, lg1, sw, mail2)
      end
    end
  end.

(* ---- the world ---- *)
(* [w_owner]: the waker stored with each timer entry (coq/Timer/Futures.v [wakers]) *)
Record world := { w_fes : sp; w_now : N; w_d0 : driver; w_d1 : driver;
                  w_tasks : list task; w_nid : N; w_owner : wakers; w_mail : mailbox;
                  w_snaps : list N   (* driver snapshots taken between events, see [snap1] *) }.

Definition drv_of (w : world) (m : N) : driver := if m =? 0 then w_d0 w else w_d1 w.

Definition set_drv (w : world) (m : N) (dr : driver) : world :=
  if m =? 0 then {| w_fes := w_fes w; w_now := w_now w; w_d0 := dr; w_d1 := w_d1 w;
                    w_tasks := w_tasks w; w_nid := w_nid w; w_owner := w_owner w; w_mail := w_mail w;
                    w_snaps := w_snaps w |}
  else {| w_fes := w_fes w; w_now := w_now w; w_d0 := w_d0 w; w_d1 := dr;
          w_tasks := w_tasks w; w_nid := w_nid w; w_owner := w_owner w; w_mail := w_mail w;
                    w_snaps := w_snaps w |}.

Definition owner_of (own : wakers) (id : N) : list nat :=
  match waker_of own id with Some k => [k] | None => [] end.

Fixpoint set_nth {A} (i : nat) (x : A) (l : list A) : list A :=
  match l, i with
  | [], _ => []
  | _ :: r, O => x :: r
  | y :: r, S i' => y :: set_nth i' x r
  end.

(* the Sleeps a blocked task holds; each of them was polled in the poll that blocked it *)
Definition held_sleeps (a : option aw) (iv : option interval) : list sleep :=
  match a with
  | Some (AwSleep s) => [s]
  | Some (AwTimeout (VSleep s) dl) => [s; dl]
  | Some (AwTimeout _ dl) => [dl]
  | Some (AwSelRecv _ _ s) => [s]
  | Some (AwKeep _ _ s sx) => [s; sx]
  | Some (AwThen _ s) => [s]
  | Some (AwSelect _ _ a b) => [a; b]
  | Some AwTick => match iv with Some i => [iv_delay i] | None => [] end
  | Some (AwHeld _ s) => [s]
  | _ => []
  end.

Fixpoint sent_by (k : nat) (mail : mailbox) : list sleep :=
  match mail with
  | [] => []
  | (_, _, k', s) :: r => if Nat.eqb k k' then s :: sent_by k r else sent_by k r
  end.

(* Sleep::poll's treatment of the stored waker, for every Sleep task k polled (and still
   holds, or has sent away) in this poll; [before]: the entries registered before the poll *)
Definition note_polls (wfix : bool) (k : nat) (before : list N) (ss : list sleep) (tab : wakers) : wakers :=
  fold_left (fun tab s => note_poll wfix k (existsb (N.eqb (sid s)) before) s tab) ss tab.

(* tokio polls task k: returns whether it woke itself.  [wfix]: see Futures.sleep_poll_waker *)
Definition poll_task (wfix : bool) (now m : N) (k : nat) (w : world) : world * bool :=
  match nth_error (w_tasks w) k with
  | None => (w, false)
  | Some tk =>
    if t_fin tk then (w, false) else
    let before := flat_map snd (pending (drv_of w m)) in
    let '(steps, cur, iv, dr, nid, lg, sw, mail) :=
      run_steps now m k (t_steps tk) (t_cur tk) (t_iv tk) (drv_of w m) (w_nid w) (t_log tk) (w_mail w) in
    let tk' := {| t_mod := t_mod tk; t_start := t_start tk; t_steps := steps; t_cur := cur; t_iv := iv;
                  t_log := lg; t_fin := match steps with [] => true | _ => false end |} in
    let w1 := set_drv w m dr in
    ({| w_fes := w_fes w1; w_now := w_now w1; w_d0 := w_d0 w1; w_d1 := w_d1 w1;
        w_tasks := set_nth k tk' (w_tasks w1); w_nid := nid;
        w_owner := note_polls wfix k before (held_sleeps cur iv ++ sent_by k mail) (w_owner w1);
        w_mail := mail; w_snaps := w_snaps w1 |}, sw)
  end.

Definition waits_on (a : option aw) : option N :=
  match a with
  | Some (AwRecv ch) => Some ch
  | Some (AwRelay _ chi _) => Some chi
  | Some (AwTimeout (VRecv ch) _) => Some ch
  | Some (AwSelRecv _ ch _) => Some ch
  | _ => None
  end.

(* receivers of module m that are blocked on a channel that holds a boxed Sleep: the send woke them *)
Fixpoint ready_receivers (m : N) (mail : mailbox) (i : nat) (ts : list task) : list nat :=
  match ts with
  | [] => []
  | tk :: r =>
    match waits_on (t_cur tk) with
    | Some ch =>
      if (t_mod tk =? m) && (match mail_take m ch mail with Some _ => true | None => false end)
      then i :: ready_receivers m mail (S i) r else ready_receivers m mail (S i) r
    | None => ready_receivers m mail (S i) r
    end
  end.

Definition enqueue (q : list nat) (ks : list nat) : list nat :=
  q ++ filter (fun k => negb (existsb (Nat.eqb k) q)) ks.

(* run queue of the module's executor: FIFO; receivers woken by a send join the back, then
   the polled task itself if it woke itself *)
Fixpoint run_queue (wfix : bool) (fuel : nat) (now m : N) (q : list nat) (w : world) : world :=
  match fuel with
  | O => w
  | S f =>
    match q with
    | [] => w
    | k :: r =>
      let '(w', sw) := poll_task wfix now m k w in
      let r1 := enqueue r (ready_receivers m (w_mail w') 0 (w_tasks w')) in
      run_queue wfix f now m (if sw then enqueue r1 [k] else r1) w'
    end
  end.

(* keep the first occurrence of every task (a woken task is queued once) *)
Fixpoint dedup_acc (seen l : list nat) : list nat :=
  match l with
  | [] => []
  | x :: r => if existsb (Nat.eqb x) seen then dedup_acc seen r else x :: dedup_acc (x :: seen) r
  end.

Definition dedup (l : list nat) : list nat := dedup_acc [] l.

Definition queue_fuel (w : world) (q : list nat) : nat :=
  (length q + (1 + length (w_tasks w)) * fold_right (fun tk n => (length (t_steps tk) + n)%nat) 1%nat (w_tasks w))%nat.

(* one event of module m at time t: activate (wake the due slots' tasks), the callback
   spawns [spawn], the executor runs until every task is blocked, deactivate (schedule
   the next wake-up if it is earlier than the one already scheduled).
   [fire]: the event is the AsyncWakeupEvent stamped t. *)
Definition module_event (wfix : bool) (t m : N) (spawn : list nat) (fire : bool) (w : world) : world :=
  let dr := if fire then sched_fire t (drv_of w m) else drv_of w m in
  let '(woken, dr1) := activate t dr in
  let q := dedup (flat_map (owner_of (w_owner w)) (flat_map snd woken) ++ spawn) in
  let w1 := set_drv w m dr1 in
  let w2 := run_queue wfix (queue_fuel w1 q) t m q w1 in
  let '(dr3, wk) := deactivate true (drv_of w2 m) in
  let w3 := set_drv w2 m dr3 in
  {| w_fes := match wk with Some x => fst (fst (sp_add (w_fes w3) x m)) | None => w_fes w3 end;
     w_now := t; w_d0 := w_d0 w3; w_d1 := w_d1 w3; w_tasks := w_tasks w3; w_nid := w_nid w3;
     w_owner := w_owner w3; w_mail := w_mail w3; w_snaps := w_snaps w3 |}.

Definition set_fes (w : world) (f : sp) : world :=
  {| w_fes := f; w_now := w_now w; w_d0 := w_d0 w; w_d1 := w_d1 w; w_tasks := w_tasks w;
     w_nid := w_nid w; w_owner := w_owner w; w_mail := w_mail w; w_snaps := w_snaps w |}.

(* task indices of module m that are spawned by at_sim_start *)
Fixpoint start_tasks (m : N) (i : nat) (ts : list task) : list nat :=
  match ts with
  | [] => []
  | tk :: r => if (t_mod tk =? m) && (t_start tk =? 0) then i :: start_tasks m (S i) r else start_tasks m (S i) r
  end.

(* before the run: one message per task with a start time > 0, in task order;
   payloads of the event set: 0/1 = AsyncWakeupEvent of module 0/1, 2+k = message that
   makes the module spawn task k *)
Fixpoint inject (i : nat) (ts : list task) (f : sp) : sp :=
  match ts with
  | [] => f
  | tk :: r => inject (S i) r (if t_start tk =? 0 then f else fst (fst (sp_add f (t_start tk) (2 + N.of_nat i))))
  end.

Definition init_world (ts : list task) : world :=
  {| w_fes := inject 0 ts sp_new; w_now := 0; w_d0 := new_driver; w_d1 := new_driver;
     w_tasks := ts; w_nid := 0; w_owner := []; w_mail := []; w_snaps := [] |}.

(* What the verification hook Driver::verif_snapshot reports of module m's driver, taken at
   instant t between two events: t m  #slots (deadline #entries)*  flag next_wakeup *)
Definition snap1 (t m : N) (dr : driver) : list N :=
  [t; m; N.of_nat (length (pending dr))] ++
  flat_map (fun sl => [fst sl; N.of_nat (length (snd sl))]) (pending dr) ++
  match next_wakeup dr with Some x => [1; x] | None => [0; 0] end.

Definition take_snaps (w : world) : world :=
  {| w_fes := w_fes w; w_now := w_now w; w_d0 := w_d0 w; w_d1 := w_d1 w; w_tasks := w_tasks w;
     w_nid := w_nid w; w_owner := w_owner w; w_mail := w_mail w;
     w_snaps := w_snaps w ++ snap1 (w_now w) 0 (w_d0 w) ++ snap1 (w_now w) 1 (w_d1 w) |}.

(* SimLifecycle::at_sim_start: one stage; modules in creation order *)
Definition sim_start (wfix : bool) (w : world) : world :=
  let w0 := module_event wfix 0 0 (start_tasks 0 0 (w_tasks w)) false w in
  take_snaps (module_event wfix 0 1 (start_tasks 1 0 (w_tasks w0)) false w0).

(* Runtime::run main loop: fetch the next event, dispatch it *)
Definition loop_step (wfix : bool) (w : world) : world + world :=
  match sp_fetch (w_fes w) with
  | (f, OFetched pay t) =>
    let w1 := set_fes w f in
    if pay <? 2 then inl (take_snaps (module_event wfix t pay [] true w1))
    else
      let k := N.to_nat (pay - 2) in
      match nth_error (w_tasks w1) k with
      | Some tk => inl (take_snaps (module_event wfix t (t_mod tk) [k] false w1))
      | None => inl w1
      end
  | (_, _) => inr w
  end.

(* every distinct deadline of a module is scheduled at most once, every step creates at
   most two Sleeps and resets at most one; this fuel is never exhausted *)
Definition fuel (ts : list task) : positive :=
  N.succ_pos (16 * N.of_nat (fold_right (fun tk n => (length (t_steps tk) + 1 + n)%nat) 0%nat ts) + 64).

Definition run_tasks (wfix : bool) (ts : list task) : world * bool :=
  match iter_until (fuel ts) (loop_step wfix) (sim_start wfix (init_world ts)) with
  | inr w => (w, true)
  | inl w => (w, false)
  end.

(* ---- wire format ---- *)
(* script := nm  ntasks  task*            modules = 1 + nm mod 2
   task   := len [ mod start step* ]      (length-prefixed)   module = mod mod modules;
                                          start = 0: spawned by at_sim_start, else by a message at [start]
   step   := 1 d | 2 t | 3 d k x | 4 f a b | 5 p beh k b1..bk | 6 f d1 d2 | 7 d | 8 | 9 ch d | 10 ch
             | 11 d ch | 12 f ch d | 13 f d0 d2 x d3 | 14 f d | 15 f chi cho
     3: timeout(d, if k even then sleep(x) else flip)       4: f odd = `biased;`
     5: interval(max 1 p), behaviour beh mod 3 (0 Burst 1 Delay 2 Skip), k ticks, after tick i
        sleep(b_i) if b_i > 0                               6: f odd = polled once before the reset
     9: Box::pin(sleep(d)) polled once and sent on channel ch of the task's module
     10: receive a boxed Sleep from channel ch of the task's module, then await it
     11: timeout(d, receive from channel ch); the received Sleep is dropped
     12: select! { biased; receive from ch => 0, sleep(d) => 1 }, f odd: the receive branch comes first
     13: keep-alive timer: Box::pin(sleep(d0)) polled once, reset(now + d2); select!{ biased; it => 0, sleep(x) => 1 };
         on 1: f odd: reset(now + d3) and await, f even: drop
     14: Box::pin(sleep(d)) polled once with the task's waker, then awaited through a sub-executor with its own waker
         (f odd: first through the sub-executor, then awaited directly)
     a duration >= 2^61 is Duration::MAX (steps 3 4 6 7 11 12 13 14): the deadline is SimTime::MAX, printed as 2^62 - 1 *)
Definition beh_of (b : N) : behaviour :=
  if b mod 3 =? 0 then Burst else if b mod 3 =? 1 then Delay else Skip.

Fixpoint ticks (busy : list N) : list step :=
  match busy with
  | [] => []
  | b :: r => SIvTick :: (if b =? 0 then ticks r else SSleep b :: ticks r)
  end.

Definition dec_step (l : list N) : option (list step * list N) :=
  match l with
  | 1 :: d :: r => Some ([SSleep d], r)
  | 2 :: t :: r => Some ([SSleepUntil t], r)
  | 3 :: d :: k :: x :: r => Some ([STimeout d (if N.even k then ISleep x else IFlip)], r)
  | 4 :: f :: a :: b :: r => Some ([SSelect (N.odd f) a b], r)
  | 5 :: p :: b :: k :: r =>
    let '(busy, r') := take_n (N.to_nat (N.min k (N.of_nat (length r)))) r in
    Some (SIvNew (N.max 1 p) (beh_of b) :: ticks busy ++ [SIvDrop], r')
  | 6 :: f :: d1 :: d2 :: r => Some ([SReset (N.odd f) d1 d2], r)
  | 7 :: d :: r => Some ([SDropSleep d], r)
  | 8 :: r => Some ([SLog], r)
  | 9 :: ch :: d :: r => Some ([SHandOver ch d], r)
  | 10 :: ch :: r => Some ([SRecvAwait ch], r)
  | 11 :: d :: ch :: r => Some ([STimeoutRecv d ch], r)
  | 12 :: f :: ch :: d :: r => Some ([SSelRecv (N.odd f) ch d], r)
  | 13 :: f :: d0 :: d2 :: x :: d3 :: r => Some ([SKeep (N.odd f) d0 d2 x d3], r)
  | 14 :: f :: d :: r => Some ([SWrap (N.odd f) d], r)
  | 15 :: f :: chi :: cho :: r => Some ([SRelay (N.odd f) chi cho], r)
  | _ => None
  end.

Definition dec_task (mods : N) (b : list N) : task :=
  match b with
  | m :: s :: r => {| t_mod := m mod mods; t_start := s; t_steps := concat (decode_all dec_step r);
                      t_cur := None; t_iv := None; t_log := []; t_fin := false |}
  | _ => {| t_mod := 0; t_start := 0; t_steps := []; t_cur := None; t_iv := None; t_log := []; t_fin := false |}
  end.

Fixpoint take_blobs (k : nat) (l : list N) : list (list N) :=
  match k with
  | O => []
  | S k' => match l with
            | [] => []
            | _ => let '(b, r) := take_lp l in b :: take_blobs k' r
            end
  end.

Definition decode (l : list N) : list task :=
  match l with
  | nm :: n :: r => map (dec_task (1 + nm mod 2)) (take_blobs (N.to_nat (N.min n (N.of_nat (length r)))) r)
  | _ => []
  end.

(* output := (len log.. fin)*  ok  end_time  snapshot*  [8 if out of fuel]
   snapshot := t m #slots (deadline #entries)* flag next_wakeup -- both drivers after start-up and after every event
   log records: sleep/sleep_until/reset/drop/log/hand-over -> now;  timeout -> now ok;
   select -> now branch (2 = unbiased tie);  tick -> now tick_instant;
   receive+await -> instant of the receive, instant the received Sleep completed
   (a task still awaiting a received Sleep has logged the receive) *)
Definition full_log (tk : task) : list N :=
  t_log tk ++ match t_cur tk with Some (AwHeld tr _) => [tr] | Some (AwThen pre _) => pre | _ => [] end.

Definition enc_task (tk : task) : list N :=
  N.of_nat (length (full_log tk)) :: full_log tk ++ [b2n (t_fin tk)].

Definition run_gen (wfix : bool) (input : list N) : list N :=
  let '(w, ok) := run_tasks wfix (decode input) in
  flat_map enc_task (w_tasks w) ++ [b2n (forallb t_fin (w_tasks w)); w_now w] ++ w_snaps w ++ (if ok then [] else [8]).

(* the code as it is now: a registered Sleep follows the task that polls it *)
Definition run (input : list N) : list N := run_gen true input.
