(* Forward simulation between the composite timer model over C01's event-set SPECIFICATION
   (Timer/Model.v) and the same model over the concrete calendar queue (Timer/ModelCq.v), using
   C01's one-step refinement relation R (CQueue/Refine.v: R_new_at, R_add, R_fetch, R_len).
   Result: for all n, t >= 1 both runs end in the same state of tasks, drivers, waker table and
   channels, and print the same output.
   R_add is stated for adds at or after the set's clock; an add BEFORE the clock is rejected by
   both (the real queue panics; both models return the state unchanged), so the simulation holds
   for every script.  Inside the proved fragment such an add never happens: the wake-up that
   deactivate schedules lies strictly after the event's instant (Timer/Inv.v mid_nw). *)
From Coq Require Import List NArith PArith Bool Lia Permutation.
From DesVerif Require Import Common.Fuel Common.Codec CQueue.Model CQueue.Spec CQueue.Refine
  Timer.Driver Timer.Futures Timer.Model Timer.ModelCq.
Import ListNotations.
Open Scope N_scope.

(* ---- nothing below the event loop looks at the event set ---- *)
Lemma drv_of_set_fes w g m : drv_of (set_fes w g) m = drv_of w m.
Proof. reflexivity. Qed.

Lemma set_drv_set_fes w g m d : set_drv (set_fes w g) m d = set_fes (set_drv w m d) g.
Proof. unfold set_drv, set_fes. destruct (m =? 0); reflexivity. Qed.

Lemma set_fes_id w : set_fes w (w_fes w) = w.
Proof. destruct w; reflexivity. Qed.

Lemma poll_task_fes wfix now m k w g :
  poll_task wfix now m k (set_fes w g) = (set_fes (fst (poll_task wfix now m k w)) g, snd (poll_task wfix now m k w)).
Proof.
  unfold poll_task. cbn [set_fes w_tasks w_nid w_mail w_owner]. rewrite drv_of_set_fes.
  destruct (nth_error (w_tasks w) k) as [tk|]; [|reflexivity]. destruct (t_fin tk); [reflexivity|].
  destruct (run_steps now m k (t_steps tk) (t_cur tk) (t_iv tk) (drv_of w m) (w_nid w) (t_log tk) (w_mail w)) as [[[[[[[steps cur] iv] dr] nid] lg] sw] mail].
  rewrite set_drv_set_fes. unfold set_drv, set_fes. destruct (m =? 0); reflexivity.
Qed.

Lemma run_queue_fes wfix fuel now m g : forall q w,
  run_queue wfix fuel now m q (set_fes w g) = set_fes (run_queue wfix fuel now m q w) g.
Proof.
  induction fuel as [|f IH]; intros q w; cbn [run_queue]; [reflexivity|]. destruct q as [|k r]; [reflexivity|].
  rewrite poll_task_fes. destruct (poll_task wfix now m k w) as [w' sw]. cbn [fst snd set_fes w_mail w_tasks]. apply IH.
Qed.

(* ---- the relation: C01's R on the event sets, everything else equal ---- *)
Definition Rel (w : world) (cw : cworld) : Prop :=
  (exists hs, R (c_q cw) (w_fes w) hs) /\ c_w cw = set_fes w sp_new.

(* an add, at any time: before the clock both sets reject it *)
Lemma R_add_any q s hs time pay : R q s hs -> exists hs', R (cq_add q time pay) (fst (fst (sp_add s time pay))) hs'.
Proof.
  intros HR. unfold cq_add. destruct (time <? tcur q) eqn:E.
  - unfold add, sp_add. rewrite <- (R_tcur _ _ _ HR), E. exists hs. exact HR.
  - pose proof (R_add q s hs time pay HR ltac:(lia)) as H.
    destruct (add q time pay) as [[q' h] o], (sp_add s time pay) as [[s' h'] o']. destruct H as (_ & _ & hd & _ & H).
    exists (hs ++ [hd]). exact H.
Qed.

Lemma w_fes_set_drv w m d : w_fes (set_drv w m d) = w_fes w.
Proof. unfold set_drv. destruct (m =? 0); reflexivity. Qed.

Lemma run_queue_w_fes wfix fuel now m q w : w_fes (run_queue wfix fuel now m q w) = w_fes w.
Proof.
  pose proof (run_queue_fes wfix fuel now m (w_fes w) q w) as H. rewrite set_fes_id in H.
  rewrite H at 1. reflexivity.
Qed.

Lemma module_event_sim wfix t m spawn fire w cw : Rel w cw ->
  Rel (module_event wfix t m spawn fire w) (module_event_cq wfix t m spawn fire cw).
Proof.
  intros [(hs & HR) Ew]. destruct cw as [q cw0]. cbn [c_q c_w] in *. subst cw0.
  unfold module_event, module_event_cq. cbn [c_q c_w]. rewrite drv_of_set_fes.
  destruct (activate t (if fire then sched_fire t (drv_of w m) else drv_of w m)) as [woken dr1].
  change (w_owner (set_fes w sp_new)) with (w_owner w).
  rewrite set_drv_set_fes.
  change (queue_fuel (set_fes (set_drv w m dr1) sp_new)) with (queue_fuel (set_drv w m dr1)).
  rewrite run_queue_fes, drv_of_set_fes.
  set (w2 := run_queue wfix _ t m _ (set_drv w m dr1)).
  assert (Ef : w_fes w2 = w_fes w) by (unfold w2; rewrite run_queue_w_fes; apply w_fes_set_drv).
  destruct (deactivate true (drv_of w2 m)) as [dr3 wk]. rewrite set_drv_set_fes.
  split; cbn [c_q c_w w_fes set_fes].
  - rewrite w_fes_set_drv, Ef. destruct wk as [x|]; [apply (R_add_any q (w_fes w) hs x m HR)|exists hs; exact HR].
  - unfold set_drv. destruct (m =? 0); reflexivity.
Qed.

Lemma inject_sim ts : forall i f q, (exists hs, R q f hs) -> exists hs, R (inject_cq i ts q) (inject i ts f) hs.
Proof.
  induction ts as [|tk r IH]; intros i f q H; cbn [inject inject_cq]; [exact H|]. apply IH.
  destruct (t_start tk =? 0); [exact H|]. destruct H as (hs & HR). exact (R_add_any q f hs _ _ HR).
Qed.

Lemma init_sim n t ts : n <> 0 -> t <> 0 -> Rel (init_world ts) (init_world_cq n t ts).
Proof.
  intros Hn Ht. split; [|reflexivity]. cbn [init_world init_world_cq c_q w_fes].
  apply inject_sim. exists []. exact (R_new_at n t 0 Hn Ht).
Qed.

Lemma take_snaps_sim w cw : Rel w cw -> Rel (take_snaps w) (take_snaps_cq cw).
Proof. intros [H E]. split; [exact H|]. unfold take_snaps_cq. cbn [c_w]. rewrite E. reflexivity. Qed.

Lemma Rel_tasks w cw : Rel w cw -> w_tasks (c_w cw) = w_tasks w.
Proof. intros [_ E]. rewrite E. reflexivity. Qed.

Lemma sim_start_sim wfix w cw : Rel w cw -> Rel (sim_start wfix w) (sim_start_cq wfix cw).
Proof.
  intros H. unfold sim_start, sim_start_cq. rewrite (Rel_tasks _ _ H).
  pose proof (module_event_sim wfix 0 0 (start_tasks 0 0 (w_tasks w)) false w cw H) as H0.
  rewrite (Rel_tasks _ _ H0). apply take_snaps_sim, module_event_sim. exact H0.
Qed.

(* ---- the main loop ---- *)
Definition RelS (a : world + world) (b : cworld + cworld) : Prop :=
  match a, b with inl x, inl y => Rel x y | inr x, inr y => Rel x y | _, _ => False end.

(* is_empty() of the calendar queue says what the specification's two lists say *)
Lemma R_empty q s hs : R q s hs -> (qlen q =? 0) = true <-> s_zero s = [] /\ s_rest s = [].
Proof.
  intros HR. rewrite (R_len _ _ _ HR). unfold pend. rewrite (R_zero _ _ _ HR), app_length.
  pose proof (Permutation_length (R_perm _ _ _ HR)) as Hl. split.
  - intros H. destruct (s_zero s), (s_rest s); cbn [length] in *; try lia. split; reflexivity.
  - intros [-> E]. rewrite E in Hl. cbn [length] in *. lia.
Qed.

Lemma loop_step_sim wfix w cw : Rel w cw -> RelS (loop_step wfix w) (loop_step_cq wfix cw).
Proof.
  intros [(hs & HR) Ew]. destruct cw as [q cw0]. cbn [c_q c_w] in *. subst cw0.
  unfold loop_step, loop_step_cq. cbn [c_q c_w].
  pose proof (R_fetch q (w_fes w) hs HR) as HF. pose proof (R_empty q (w_fes w) hs HR) as HE.
  destruct (qlen q =? 0) eqn:El.
  - destruct (proj1 HE eq_refl) as [Ez Er]. unfold sp_fetch. rewrite Ez, Er. cbn [RelS]. split; [exists hs; exact HR|reflexivity].
  - destruct (fetch_next q) as [q' o], (sp_fetch (w_fes w)) as [f o'] eqn:Ef. destruct HF as [<- HR'].
    destruct o as [|pay te| | | | | | |]; try (cbn [RelS]; split; [exists hs; exact HR|reflexivity]).
    assert (H1 : Rel (set_fes w f) {| c_q := q'; c_w := set_fes w sp_new |}) by (split; [exists hs; exact HR'|reflexivity]).
    destruct (pay <? 2).
    + cbn [RelS]. apply take_snaps_sim, module_event_sim. exact H1.
    + cbn [c_w]. change (w_tasks (set_fes w sp_new)) with (w_tasks w). change (w_tasks (set_fes w f)) with (w_tasks w).
      destruct (nth_error (w_tasks w) (N.to_nat (pay - 2))) as [tk|]; cbn [RelS]; [apply take_snaps_sim, module_event_sim; exact H1|exact H1].
Qed.

Lemma iter_sim wfix k : forall w cw, Rel w cw -> RelS (iter_nat k (loop_step wfix) w) (iter_nat k (loop_step_cq wfix) cw).
Proof.
  induction k as [|k IH]; intros w cw H; cbn [iter_nat]; [exact H|].
  pose proof (loop_step_sim wfix w cw H) as S.
  destruct (loop_step wfix w) as [w'|w'], (loop_step_cq wfix cw) as [cw'|cw']; cbn [RelS] in S; try contradiction.
  - apply IH, S.
  - exact S.
Qed.

(* both runs end (or run out of fuel) alike, in related states *)
Theorem run_tasks_sim wfix n t ts : n <> 0 -> t <> 0 ->
  Rel (fst (run_tasks wfix ts)) (fst (run_tasks_cq wfix n t ts)) /\ snd (run_tasks_cq wfix n t ts) = snd (run_tasks wfix ts).
Proof.
  intros Hn Ht. unfold run_tasks, run_tasks_cq. rewrite !iter_until_nat.
  pose proof (iter_sim wfix (Pos.to_nat (fuel ts)) _ _ (sim_start_sim wfix _ _ (init_sim n t ts Hn Ht))) as H.
  destruct (iter_nat (Pos.to_nat (fuel ts)) (loop_step wfix) (sim_start wfix (init_world ts))) as [w|w],
           (iter_nat (Pos.to_nat (fuel ts)) (loop_step_cq wfix) (sim_start_cq wfix (init_world_cq n t ts))) as [cw|cw];
    cbn [RelS] in H; try contradiction; split; try exact H; reflexivity.
Qed.

Theorem run_cq_eq_run n t input : n <> 0 -> t <> 0 -> run_cq n t input = run input.
Proof.
  intros Hn Ht. unfold run_cq, run, run_gen_cq, run_gen.
  destruct (run_tasks_sim true n t (decode input) Hn Ht) as [[_ E] Eok].
  destruct (run_tasks true (decode input)) as [w ok], (run_tasks_cq true n t (decode input)) as [cw ok']. cbn [fst snd] in *.
  subst ok'. rewrite E. reflexivity.
Qed.
