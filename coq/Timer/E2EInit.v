(* End-to-end argument, fragment {sleep, sleep_until, log}: the start-up (messages injected
   before the run, the at_sim_start event of each module) establishes the boundary invariant;
   the theorem about whole runs. *)
From Coq Require Import List Arith NArith Bool Lia Sorting.Sorted Permutation ZifyBool.
From DesVerif Require Import Common.Fuel CQueue.Model CQueue.Spec CQueue.SpecProps Timer.Driver Timer.QueueLemmas Timer.Inv
  Timer.Exact Timer.Futures Timer.Model Timer.EvSet Timer.Frag Timer.E2EInv Timer.E2EPoll Timer.E2EEvent Timer.E2ELoop.
Import ListNotations.
Open Scope N_scope.

(* ---- the injected messages ---- *)
Definition te (e : ev) : N * N := (etime e, epay e).

Fixpoint msgs (i : nat) (ts : list task) : list (N * N) :=
  match ts with
  | [] => []
  | tk :: r => (if t_start tk =? 0 then [] else [(t_start tk, msg_of i)]) ++ msgs (S i) r
  end.

Lemma inject_spec ts : forall i f, SI f -> s_tcur f = 0 ->
  SI (inject i ts f) /\ s_tcur (inject i ts f) = 0 /\
  Permutation (map te (spend (inject i ts f))) (map te (spend f) ++ msgs i ts).
Proof.
  induction ts as [|tk r IH]; intros i f Hsi Htc; cbn [inject msgs].
  - rewrite app_nil_r. split; [exact Hsi|split; [exact Htc|apply Permutation_refl]].
  - destruct (t_start tk =? 0) eqn:E.
    + cbn [app]. apply IH; assumption.
    + destruct (add_perm f (t_start tk) (2 + N.of_nat i)) as [P1 P2]; [lia|].
      destruct (IH (S i) (fst (fst (sp_add f (t_start tk) (2 + N.of_nat i)))) (SI_add _ _ _ Hsi) ltac:(lia)) as (I1 & I2 & I3).
      split; [exact I1|]. split; [exact I2|].
      eapply Permutation_trans; [exact I3|]. cbn [app].
      eapply Permutation_trans; [apply Permutation_app_tail, Permutation_map; exact P1|].
      cbn [map te etime epay app]. apply Permutation_middle.
Qed.

Lemma msgs_in i ts t p : In (t, p) (msgs i ts) <->
  exists j tk, nth_error ts j = Some tk /\ t_start tk <> 0 /\ t = t_start tk /\ p = msg_of (i + j).
Proof.
  revert i; induction ts as [|tk r IH]; intros i; cbn [msgs].
  - split; [intros []|intros (j & tk & H & _); destruct j; discriminate].
  - rewrite in_app_iff, IH. split.
    + intros [H|(j & tk' & H1 & H2 & H3 & H4)].
      * destruct (t_start tk =? 0) eqn:E; [contradiction|]. destruct H as [H|[]]. injection H as <- <-.
        exists 0%nat, tk. repeat split; [lia|f_equal; lia].
      * exists (S j), tk'. repeat split; try assumption. rewrite H4. f_equal. lia.
    + intros (j & tk' & H1 & H2 & H3 & H4). destruct j as [|j]; cbn [nth_error] in H1.
      * injection H1 as <-. left. replace (t_start tk =? 0) with false by lia. left. rewrite H3, H4. do 2 f_equal. lia.
      * right. exists j, tk'. repeat split; try assumption. rewrite H4. f_equal. lia.
Qed.

Lemma msgs_nodup ts : forall i, NoDup (map snd (msgs i ts)).
Proof.
  induction ts as [|tk r IH]; intros i; cbn [msgs]; [constructor|].
  destruct (t_start tk =? 0); cbn [app map snd]; [apply IH|]. constructor; [|apply IH].
  intros H. apply in_map_iff in H. destruct H as ([t p] & Hp & Hin). cbn [snd] in Hp. subst p.
  apply msgs_in in Hin. destruct Hin as (j & tk' & _ & _ & _ & E). apply msg_of_inj in E. lia.
Qed.

(* ---- the tasks spawned by at_sim_start ---- *)
Lemma start_tasks_in m ts : forall i k, In k (start_tasks m i ts) <->
  exists j tk, k = (i + j)%nat /\ nth_error ts j = Some tk /\ t_mod tk = m /\ t_start tk = 0.
Proof.
  induction ts as [|tk r IH]; intros i k; cbn [start_tasks].
  - split; [intros []|intros (j & tk & _ & H & _); destruct j; discriminate].
  - assert (Hrest : In k (start_tasks m (S i) r) <-> exists j tk', k = (i + S j)%nat /\ nth_error r j = Some tk' /\ t_mod tk' = m /\ t_start tk' = 0).
    { rewrite IH. split; intros (j & tk' & H1 & H2); exists j, tk'; (split; [lia|exact H2]). }
    destruct ((t_mod tk =? m) && (t_start tk =? 0)) eqn:E.
    + cbn [In]. rewrite Hrest. split.
      * intros [<-|(j & tk' & H1 & H2)]; [exists 0%nat, tk; repeat split; lia|exists (S j), tk'; split; [exact H1|exact H2]].
      * intros (j & tk' & H1 & H2 & H3 & H4). destruct j as [|j]; [left; lia|right; exists j, tk'].
        cbn [nth_error] in H2. split; [exact H1|split; [exact H2|split; assumption]].
    + rewrite Hrest. split.
      * intros (j & tk' & H1 & H2). exists (S j), tk'. split; [exact H1|exact H2].
      * intros (j & tk' & H1 & H2 & H3 & H4). destruct j as [|j]; [cbn [nth_error] in H2; injection H2 as <-; lia|].
        cbn [nth_error] in H2. exists j, tk'. split; [exact H1|split; [exact H2|split; assumption]].
Qed.

Lemma start_tasks_nodup m ts : forall i, NoDup (start_tasks m i ts).
Proof.
  induction ts as [|tk r IH]; intros i; cbn [start_tasks]; [constructor|].
  destruct ((t_mod tk =? m) && (t_start tk =? 0)); [|apply IH]. constructor; [|apply IH].
  rewrite start_tasks_in. intros (j & tk' & H & _). lia.
Qed.

Lemma module_event_now wfix t m sp f w : w_now (module_event wfix t m sp f w) = t.
Proof.
  unfold module_event. destruct (activate t _) as [wk d1]. destruct (deactivate true _) as [dr3 wk']. reflexivity.
Qed.

Lemma filter_all {A} (f : A -> bool) l : (forall x, In x l -> f x = true) -> filter f l = l.
Proof.
  induction l as [|a l IH]; intros H; cbn [filter]; [reflexivity|].
  rewrite (H a (or_introl eq_refl)), IH; [reflexivity|]. intros x Hx. apply H. right; exact Hx.
Qed.

(* ---- start-up ---- *)
(* tasks of module 1 that at_sim_start will spawn: still unspawned, without a message, while module 0 starts *)
Definition later1 (ts0 : list task) (k : nat) : Prop :=
  exists tk0, nth_error ts0 k = Some tk0 /\ t_start tk0 = 0 /\ t_mod tk0 = 1.

(* the hypotheses on the scripts, with channels: every task lies in the fragment, none of its
   receives is a tie, and at most one task of a module receives *)
Definition one_recv (ts0 : list task) : Prop :=
  forall k k' tk0 tk0', nth_error ts0 k = Some tk0 -> nth_error ts0 k' = Some tk0' ->
    rcv_of tk0 = true -> rcv_of tk0' = true -> t_mod tk0 = t_mod tk0' -> k = k'.

Definition chan_ok (ts0 : list task) : Prop := Forall (init_ok2 (arrivals ts0)) ts0 /\ one_recv ts0.

Lemma start_pre0 ts0 : chan_ok ts0 ->
  PreEv (arrivals ts0) (arrivals ts0) ts0 (later1 ts0) (init_world ts0) 0 0 (start_tasks 0 0 ts0) false.
Proof.
  intros [Hinit Hone]. pose proof Hinit as Hinit'. rewrite Forall_forall in Hinit'.
  destruct (inject_spec ts0 0 sp_new SI_new eq_refl) as (I1 & I2 & I3). cbn [spend sp_new sp_new_at s_zero s_rest app map] in I3.
  set (w0 := init_world ts0).
  assert (Hev : forall e, In e (spend (w_fes w0)) ->
            exists j tk, nth_error ts0 j = Some tk /\ t_start tk <> 0 /\ etime e = t_start tk /\ epay e = msg_of j).
  { intros e He. assert (H : In (te e) (msgs 0 ts0)) by (eapply Permutation_in; [exact I3|apply in_map; exact He]).
    unfold te in H. apply msgs_in in H. exact H. }
  assert (Hun0 : forall k tk, nth_error ts0 k = Some tk -> unspawned tk).
  { intros k tk Hk. destruct (Hinit' tk (nth_error_In _ _ Hk)) as (_ & H2 & _ & _ & H5 & _). split; assumption. }
  assert (Hst0 : Forall2 (tstate (arrivals ts0) (arrivals ts0)) ts0 ts0).
  { assert (H : forall l, Forall (init_ok2 (arrivals ts0)) l -> Forall2 (tstate (arrivals ts0) (arrivals ts0)) l l).
    { induction 1 as [|tk l Hi _ IH]; constructor; [|exact IH]. apply TUn; [reflexivity|reflexivity|].
      exact (proj2 (proj2 (proj2 (proj2 (proj2 (proj2 (proj2 Hi))))))). }
    exact (H ts0 Hinit). }
  constructor; cbn [w0 init_world w_fes w_now w_mail w_tasks w_owner w_nid].
  - exact I1.
  - exact I2.
  - lia.
  - intros e _. lia.
  - constructor.
  - (* no message has been sent yet: the arrivals are the sorted send instants of the scripts *)
    intros m' c. unfold chan_inst. cbn [chan map app]. split; [|split; [constructor|apply Forall_forall; intros a _; lia]].
    unfold arrivals, fsends. f_equal.
    assert (Hext : forall l, (forall tk, In tk l -> In tk ts0) ->
              flat_map (fun tk0 => if t_mod tk0 =? m' then on_chan c (exp_sends (t_start tk0) None (t_steps tk0)) else []) l =
              flat_map (fun tk => if t_mod tk =? m' then on_chan c (fut_sends tk) else []) l).
    { induction l as [|tk l IH]; intros Hsub; [reflexivity|]. cbn [flat_map]. rewrite IH by (intros x Hx; apply Hsub; right; exact Hx).
      destruct (Hinit' tk (Hsub tk (or_introl eq_refl))) as (_ & H2 & _ & _ & H5 & _). unfold fut_sends. rewrite H2, H5. reflexivity. }
    apply Hext. intros tk Htk; exact Htk.
  - intros k tk ch Hk Hw. destruct (Hun0 k tk Hk) as [Hc _]. rewrite Hc in Hw. discriminate.
  - assert (Hown0 : forall k tk s, nth_error ts0 k = Some tk -> In s (owned tk) -> False).
    { intros k tk s Hk Hbl. destruct (Hinit' tk (nth_error_In _ _ Hk)) as (_ & H2 & H3 & _).
      unfold owned, held in Hbl. rewrite H2, H3 in Hbl. destruct Hbl. }
    constructor; [exact Hst0|exact Hinit|exact Hone| | |].
    + intros k tk s Hk Hbl. destruct (Hown0 k tk s Hk (held_owned _ _ Hbl)).
    + intros k tk s Hk Hbl. destruct (Hown0 k tk s Hk Hbl).
    + intros k k' tk tk' s s' Hk _ Hbl. destruct (Hown0 k tk s Hk Hbl).
  - lia.
  - intros m' Hm'. exists 0. split; [lia|].
    match goal with |- context [drv_of ?W m'] =>
      replace (drv_of W m') with new_driver by (unfold drv_of; cbn [w_d0 w_d1]; destruct (m' =? 0); reflexivity) end.
    split; [exact inv_init|]. split; [|split; [|exact snap_init]].
    + cbn [andb app new_driver scheduled].
      assert (Hnil : wakes m' (spend (inject 0 ts0 sp_new)) = []).
      { destruct (wakes m' (spend (inject 0 ts0 sp_new))) as [|a l] eqn:E; [reflexivity|exfalso].
        assert (Hin : In a (wakes m' (spend (inject 0 ts0 sp_new)))) by (rewrite E; left; reflexivity).
        apply wakes_in in Hin. destruct Hin as (e & He & Hp & _). destruct (Hev e He) as (j & tk & _ & _ & _ & Ep).
        unfold msg_of in Ep. lia. }
      rewrite Hnil. constructor.
    + constructor.
      * intros k tk s Hk Hbl. destruct (Hun0 k tk Hk) as [Hc _]. unfold held in Hbl. rewrite Hc in Hbl. destruct Hbl.
      * intros d id [].
      * intros d. constructor.
  - apply start_tasks_nodup.
  - intros k Hk. apply start_tasks_in in Hk. destruct Hk as (j & tk & -> & Hj & Hm & Hs). cbn [Nat.add].
    exists tk. split; [exact Hj|]. split; [exact (Hun0 j tk Hj)|]. split; assumption.
  - intros k e Hk He Ee. apply start_tasks_in in Hk. destruct Hk as (j & tk & -> & Hj & _ & Hs). cbn [Nat.add] in Ee.
    destruct (Hev e He) as (j' & tk' & Hj' & Hne & _ & Ep). rewrite Ee in Ep. apply msg_of_inj in Ep. subst j'.
    rewrite Hj in Hj'. injection Hj' as <-. contradiction.
  - intros k (tk0 & Hk & _ & Hm) Hs. apply start_tasks_in in Hs. destruct Hs as (j & tk & -> & Hj & Hm' & _). cbn [Nat.add] in Hk.
    rewrite Hj in Hk. injection Hk as <-. lia.
  - intros k tk _ _. lia.
  - constructor.
    + intros e He _. destruct (Hev e He) as (j & tk & Hj & Hne & Et & Ep). exists j, tk.
      split; [exact Ep|]. split; [exact Hj|]. split; [exact (Hun0 j tk Hj)|]. split; [exact Et|lia].
    + rewrite filter_all.
      * eapply Permutation_NoDup; [|apply (msgs_nodup ts0 0%nat)].
        apply Permutation_sym. replace (map epay (spend (inject 0 ts0 sp_new))) with (map snd (map te (spend (inject 0 ts0 sp_new)))).
        -- apply Permutation_map. exact I3.
        -- rewrite map_map. reflexivity.
      * intros p Hp. apply in_map_iff in Hp. destruct Hp as (e & <- & He). destruct (Hev e He) as (j & tk & _ & _ & _ & Ep).
        unfold msg_of in Ep. lia.
    + intros k tk Hk _. destruct (N.eq_dec (t_start tk) 0) as [Hz|Hnz].
      * left. destruct (Hinit' tk (nth_error_In _ _ Hk)) as (_ & _ & _ & _ & _ & Hm & _).
        destruct (N.eq_dec (t_mod tk) 0) as [Hm0|Hm1].
        -- right. apply start_tasks_in. exists k, tk. repeat split; assumption.
        -- left. exists tk. split; [exact Hk|split; [exact Hz|lia]].
      * right. assert (Hin : In (t_start tk, msg_of k) (msgs 0 ts0)) by (apply msgs_in; exists k, tk; repeat split; assumption).
        apply (Permutation_in _ (Permutation_sym I3)) in Hin. apply in_map_iff in Hin. destruct Hin as (e & Ee & He).
        exists e. split; [exact He|]. unfold te in Ee. injection Ee as _ Ep. exact Ep.
    + intros k [(tk0 & Hk & _)|Hs].
      * exists tk0. split; [exact Hk|exact (Hun0 k tk0 Hk)].
      * apply start_tasks_in in Hs. destruct Hs as (j & tk & -> & Hj & _). exists tk. split; [exact Hj|exact (Hun0 j tk Hj)].
Qed.

Lemma start_pre1 ts0 : chan_ok ts0 ->
  let w1 := module_event true 0 0 (start_tasks 0 0 ts0) false (init_world ts0) in
  exists A, PreEv (arrivals ts0) A ts0 (fun _ => False) w1 0 1 (start_tasks 1 0 (w_tasks w1)) false.
Proof.
  intros Hok. pose proof (proj1 Hok) as Hinit. pose proof Hinit as Hinit'. rewrite Forall_forall in Hinit'. cbn zeta.
  destruct (module_event_winv _ _ _ _ _ _ _ _ _ (start_pre0 ts0 Hok)) as (A & W1).
  set (w1 := module_event true 0 0 (start_tasks 0 0 ts0) false (init_world ts0)) in *.
  destruct W1 as [Hsi Htc Hinert Harr Hnorecv Hbase Hdrv [Mt Mn Ma Ml]].
  assert (Hnow : w_now w1 = 0) by apply module_event_now.
  assert (Hsp1 : forall k, In k (start_tasks 1 0 (w_tasks w1)) -> later1 ts0 k).
  { intros k Hk. apply start_tasks_in in Hk. destruct Hk as (j & tk & -> & Hj & Hm & Hs). cbn [Nat.add].
    destruct (Forall2_nth _ _ _ _ _ (b_states _ _ _ _ _ _ Hbase) Hj) as (tk0 & Hj0 & Hst).
    destruct (tstate_cases _ _ _ _ Hst (Hinit' tk0 (nth_error_In _ _ Hj0))) as (E1 & E2 & _).
    exists tk0. split; [exact Hj0|split; lia]. }
  exists A. constructor.
  - exact Hsi.
  - exact (eq_trans Htc Hnow).
  - lia.
  - intros e _. lia.
  - exact Hinert.
  - exact Harr.
  - exact Hnorecv.
  - exact Hbase.
  - lia.
  - intros m' Hm'. destruct (Hdrv m' Hm') as (l & Hl & Hinv & Hperm & Htie & Hex). exists l.
    split; [exact Hl|split; [exact Hinv|split; [exact Hperm|split; [exact Htie|exact Hex]]]].
  - apply start_tasks_nodup.
  - intros k Hk. destruct (Ml k (Hsp1 k Hk)) as (tk & Hk' & Hun). exists tk. split; [exact Hk'|]. split; [exact Hun|].
    apply start_tasks_in in Hk. destruct Hk as (j & tk' & -> & Hj & Hm & Hs). cbn [Nat.add] in Hk'. rewrite Hj in Hk'. injection Hk' as <-.
    split; assumption.
  - intros k e Hk He Ee. destruct (Mt e He) as (k' & tk & E1 & Hk' & _ & E2 & E3); [rewrite Ee; unfold msg_of; lia|].
    rewrite Ee in E1. apply msg_of_inj in E1. subst k'.
    apply start_tasks_in in Hk. destruct Hk as (j & tk' & -> & Hj & _ & Hs). cbn [Nat.add] in Hk'. rewrite Hj in Hk'. injection Hk' as <-. lia.
  - intros k [].
  - intros k tk [].
  - constructor.
    + exact Mt.
    + exact Mn.
    + intros k tk Hk Hun. destruct (Ma k tk Hk Hun) as [(tk0 & Hk0 & Hs0 & Hm0)|H]; [|right; exact H].
      left. right. apply start_tasks_in. exists k, tk. split; [reflexivity|]. split; [exact Hk|].
      destruct (Forall2_nth _ _ _ _ _ (b_states _ _ _ _ _ _ Hbase) Hk) as (tk0' & Hk0' & Hst). rewrite Hk0 in Hk0'. injection Hk0' as <-.
      destruct (tstate_cases _ _ _ _ Hst (Hinit' tk0 (nth_error_In _ _ Hk0))) as (E1 & E2 & _). split; lia.
    + intros k [[]|Hk]. exact (Ml k (Hsp1 k Hk)).
Qed.

Lemma sim_start_winv ts0 : chan_ok ts0 -> WInvE (arrivals ts0) ts0 (fun _ => False) (sim_start true (init_world ts0)).
Proof.
  intros Hok. unfold sim_start. destruct (start_pre1 ts0 Hok) as (A & HP).
  destruct (module_event_winv _ _ _ _ _ _ _ _ _ HP) as (A' & HW). exists A'. apply winv_take_snaps. exact HW.
Qed.

(* ---- termination ---- *)
Lemma iter_terminates A0 ts0 n : forall w, WInvE A0 ts0 (fun _ => False) w -> (mu w < n)%nat ->
  exists w', iter_nat n (loop_step true) w = inr w'.
Proof.
  induction n as [|n IH]; intros w HW Hlt; [lia|]. cbn [iter_nat].
  pose proof (loop_step_winv A0 ts0 w HW) as H1. pose proof (loop_step_measure A0 ts0 w HW) as H2.
  destruct (loop_step true w) as [w'|w']; [apply IH; [exact H1|lia]|exists w'; reflexivity].
Qed.

Definition size (ts : list task) : nat := fold_right (fun tk n => (length (t_steps tk) + 1 + n)%nat) 0%nat ts.

Lemma work_init A0 ts : Forall (init_ok2 A0) ts -> work ts = (2 * size ts)%nat.
Proof.
  induction 1 as [|tk r Hi _ IH]; [reflexivity|]. cbn [work size fold_right]. fold (work r). fold (size r). rewrite IH.
  destruct Hi as (_ & I2 & _ & _ & I5 & _). unfold wt. rewrite I2, I5. lia.
Qed.

Lemma msgs_len ts : forall i, (length (msgs i ts) <= length ts)%nat.
Proof.
  induction ts as [|tk r IH]; intros i; cbn [msgs length]; [lia|]. rewrite app_length. specialize (IH (S i)).
  destruct (t_start tk =? 0); cbn [length]; lia.
Qed.

Lemma size_len ts : (length ts <= size ts)%nat.
Proof. induction ts as [|tk r IH]; cbn [size fold_right length]; [lia|]. fold (size r). lia. Qed.

Lemma sim_start_mu ts0 : chan_ok ts0 -> (mu (sim_start true (init_world ts0)) <= 5 * size ts0 + 4)%nat.
Proof.
  intros Hok. pose proof (proj1 Hok) as Hinit.
  destruct (module_event_measure _ _ _ _ _ _ _ _ _ (start_pre0 ts0 Hok)) as (B0 & _).
  destruct (start_pre1 ts0 Hok) as (A & HP1).
  destruct (module_event_measure _ _ _ _ _ _ _ _ _ HP1) as (B1 & _). cbn zeta in B0, B1.
  unfold sim_start, mu. change (w_tasks (take_snaps ?W)) with (w_tasks W). change (w_fes (take_snaps ?W)) with (w_fes W).
  change (drv_of (take_snaps ?W) ?M) with (drv_of W M).
  change (w_tasks (init_world ts0)) with ts0 in *.
  destruct (inject_spec ts0 0 sp_new SI_new eq_refl) as (_ & _ & I3). cbn [spend sp_new sp_new_at s_zero s_rest app map] in I3.
  pose proof (Permutation_length I3) as Hl. rewrite map_length in Hl.
  change (w_fes (init_world ts0)) with (inject 0 ts0 sp_new) in B0.
  pose proof (msgs_len ts0 0%nat). pose proof (size_len ts0). rewrite (work_init _ ts0 Hinit) in B0.
  match goal with |- (_ + stale ?d0 + stale ?d1 <= _)%nat => pose proof (stale_le d0); pose proof (stale_le d1) end. lia.
Qed.

(* ---- whole runs ---- *)
(* For EVERY list of tasks over the fragment (with channels: chan_ok), any number of tasks on the two
   modules, spawned at start-up or by messages at any instants: whenever the run of the
   composite model ends, every task has finished and has logged exactly the instants the
   property demands -- each await returned at exactly its deadline. *)
Theorem composite_exact_if_ends ts0 : chan_ok ts0 ->
  forall w, run_tasks true ts0 = (w, true) -> Forall2 (done_exact (arrivals ts0)) ts0 (w_tasks w).
Proof.
  intros Hok w Hrun. unfold run_tasks in Hrun. rewrite iter_until_nat in Hrun.
  pose proof (iter_winv (arrivals ts0) ts0 (Pos.to_nat (fuel ts0)) _ (sim_start_winv ts0 Hok)) as H.
  destruct (iter_nat (Pos.to_nat (fuel ts0)) (loop_step true) (sim_start true (init_world ts0))) as [w'|w']; [discriminate|].
  injection Hrun as <-. destruct H as [[A HW] Hsp]. exact (winv_final _ A ts0 w' HW Hsp).
Qed.

(* and at every point of the run, ended or not: nothing is ever logged that the property does
   not demand (never early, never late, nothing spurious) *)
Theorem composite_prefix ts0 : chan_ok ts0 -> forall n,
  let w := match iter_nat n (loop_step true) (sim_start true (init_world ts0)) with inl w => w | inr w => w end in
  Forall2 (fun tk0 tk => exists rest, expected (arrivals ts0) tk0 = t_log tk ++ rest) ts0 (w_tasks w).
Proof.
  intros Hok n. cbn zeta.
  pose proof (iter_winv (arrivals ts0) ts0 n _ (sim_start_winv ts0 Hok)) as H.
  destruct (iter_nat n (loop_step true) (sim_start true (init_world ts0))) as [w'|w'].
  - destruct H as [A H]. exact (winv_prefix _ _ _ _ _ H).
  - destruct H as [[A H] _]. exact (winv_prefix _ _ _ _ _ H).
Qed.

(* ... and every run ends: the fuel of the model's main loop is never exhausted *)
Theorem composite_exact ts0 : chan_ok ts0 ->
  exists w, run_tasks true ts0 = (w, true) /\ Forall2 (done_exact (arrivals ts0)) ts0 (w_tasks w).
Proof.
  intros Hok.
  assert (Hfuel : (mu (sim_start true (init_world ts0)) < Pos.to_nat (fuel ts0))%nat).
  { pose proof (sim_start_mu ts0 Hok) as H. unfold fuel. fold (size ts0).
    pose proof (N.succ_pos_spec (16 * N.of_nat (size ts0) + 64)) as Hs. lia. }
  destruct (iter_terminates _ ts0 _ _ (sim_start_winv ts0 Hok) Hfuel) as (w' & Hw').
  assert (Hrun : run_tasks true ts0 = (w', true)) by (unfold run_tasks; rewrite iter_until_nat, Hw'; reflexivity).
  exists w'. split; [exact Hrun|]. exact (composite_exact_if_ends ts0 Hok w' Hrun).
Qed.

(* ---- without channels ---- *)
(* scripts over the fragment without channels meet the hypotheses, whatever the arrivals *)
Lemma old_rcv steps : Forall frag_step steps -> existsb is_recv steps = false.
Proof. induction 1 as [|st r Hst _ IH]; [reflexivity|]. cbn [existsb]. rewrite IH. destruct st; try reflexivity; contradiction. Qed.

Lemma init_ok_2 A0 tk0 : init_ok tk0 -> init_ok2 A0 tk0 /\ rcv_of tk0 = false /\ expected A0 tk0 = expected (fun _ => noarr) tk0.
Proof.
  intros (I1 & I2 & I3 & I4 & I5 & I6 & I7).
  assert (Hr : rcv_of tk0 = false) by (apply old_rcv; exact I1).
  pose proof (frag_step2_false_of_old _ I1) as I1'.
  assert (He : expected A0 tk0 = expected (fun _ => noarr) tk0) by (apply exp_run_noarr; exact I1').
  split; [|split; [exact Hr|exact He]].
  unfold init_ok2. rewrite Hr, He. repeat split; try assumption. apply recv_ok_noarr. exact I1'.
Qed.

Lemma init_chan_ok ts0 : Forall init_ok ts0 -> chan_ok ts0.
Proof.
  intros H. split.
  - eapply Forall_impl; [|exact H]. intros tk Hi. exact (proj1 (init_ok_2 _ tk Hi)).
  - intros k k' tk0 tk0' Hk _ Hr _ _. rewrite Forall_forall in H.
    rewrite (proj1 (proj2 (init_ok_2 (arrivals ts0) tk0 (H tk0 (nth_error_In _ _ Hk))))) in Hr. discriminate.
Qed.

Lemma done_exact_old ts0 w : Forall init_ok ts0 -> Forall2 (done_exact (arrivals ts0)) ts0 (w_tasks w) ->
  Forall2 (fun tk0 tk => t_fin tk = true /\ t_log tk = expected (fun _ => noarr) tk0) ts0 (w_tasks w).
Proof.
  intros Hinit H. rewrite Forall_forall in Hinit. apply (Forall2_nth_impl _ _ _ _ H). intros k tk0 tk Hk0 _ [H1 H2].
  split; [exact H1|]. rewrite H2. exact (proj2 (proj2 (init_ok_2 _ tk0 (Hinit tk0 (nth_error_In _ _ Hk0))))).
Qed.

Theorem composite_sleep_exact_if_ends ts0 : Forall init_ok ts0 ->
  forall w, run_tasks true ts0 = (w, true) ->
  Forall2 (fun tk0 tk => t_fin tk = true /\ t_log tk = expected (fun _ => noarr) tk0) ts0 (w_tasks w).
Proof. intros Hinit w Hrun. exact (done_exact_old ts0 w Hinit (composite_exact_if_ends ts0 (init_chan_ok ts0 Hinit) w Hrun)). Qed.

Theorem composite_sleep_prefix ts0 : Forall init_ok ts0 -> forall n,
  let w := match iter_nat n (loop_step true) (sim_start true (init_world ts0)) with inl w => w | inr w => w end in
  Forall2 (fun tk0 tk => exists rest, expected (fun _ => noarr) tk0 = t_log tk ++ rest) ts0 (w_tasks w).
Proof.
  intros Hinit n. pose proof (composite_prefix ts0 (init_chan_ok ts0 Hinit) n) as H. cbn zeta in *.
  rewrite Forall_forall in Hinit. apply (Forall2_nth_impl _ _ _ _ H). intros k tk0 tk Hk0 _ (rest & Hr).
  exists rest. rewrite <- Hr. symmetry. exact (proj2 (proj2 (init_ok_2 _ tk0 (Hinit tk0 (nth_error_In _ _ Hk0))))).
Qed.

Theorem composite_sleep_exact ts0 : Forall init_ok ts0 ->
  exists w, run_tasks true ts0 = (w, true) /\
    Forall2 (fun tk0 tk => t_fin tk = true /\ t_log tk = expected (fun _ => noarr) tk0) ts0 (w_tasks w).
Proof.
  intros Hinit. destruct (composite_exact ts0 (init_chan_ok ts0 Hinit)) as (w & Hrun & H).
  exists w. split; [exact Hrun|exact (done_exact_old ts0 w Hinit H)].
Qed.

(* every script line decodes into tasks of the shape the theorems ask for *)
Lemma decode_shape input : Forall (fun tk => t_cur tk = None /\ t_iv tk = None /\ t_log tk = [] /\ t_fin tk = false /\ t_mod tk < 2) (decode input).
Proof.
  unfold decode. destruct input as [|nm [|n r]]; try constructor.
  set (mods := 1 + nm mod 2). assert (Hmods : mods <= 2) by (unfold mods; pose proof (N.mod_upper_bound nm 2); lia).
  assert (Hmods0 : mods <> 0) by (unfold mods; generalize (nm mod 2); intros; lia).
  generalize (take_blobs (N.to_nat (N.min n (N.of_nat (length r)))) r). intros bl. induction bl as [|b bl IH]; cbn [map]; [constructor|].
  constructor; [|exact IH].
  assert (Hmod : t_mod (dec_task mods b) < 2).
  { unfold dec_task. destruct b as [|m0 [|s rest]]; cbn [t_mod]; try lia. pose proof (N.mod_upper_bound m0 mods Hmods0). lia. }
  assert (Hshape : t_cur (dec_task mods b) = None /\ t_iv (dec_task mods b) = None /\ t_log (dec_task mods b) = [] /\ t_fin (dec_task mods b) = false).
  { unfold dec_task. destruct b as [|m0 [|s rest]]; repeat split. }
  destruct Hshape as (S1 & S2 & S3 & S4). repeat split; assumption.
Qed.

Lemma decode_init_ok input :
  Forall (fun tk => Forall frag_step (t_steps tk) /\ Forall (fun x => x < TMAX) (expected (fun _ => noarr) tk)) (decode input) ->
  Forall init_ok (decode input).
Proof.
  intros H. pose proof (decode_shape input) as Hs. rewrite Forall_forall in *. intros tk Htk.
  destruct (H tk Htk) as [H1 H2]. destruct (Hs tk Htk) as (S1 & S2 & S3 & S4 & S5). repeat split; assumption.
Qed.

Lemma decode_chan_ok input :
  Forall (fun tk => Forall (frag_step2 (rcv_of tk)) (t_steps tk) /\ Forall (fun x => x < TMAX) (expected (arrivals (decode input)) tk) /\
                    recv_ok (t_start tk) None (arrivals (decode input) (t_mod tk)) (t_steps tk)) (decode input) ->
  one_recv (decode input) -> chan_ok (decode input).
Proof.
  intros H Hone. split; [|exact Hone]. pose proof (decode_shape input) as Hs. rewrite Forall_forall in *. intros tk Htk.
  destruct (H tk Htk) as (H1 & H2 & H3). destruct (Hs tk Htk) as (S1 & S2 & S3 & S4 & S5). repeat split; assumption.
Qed.

(* ---- the hypotheses, decidably: for concrete scripts they are checked by computation ---- *)
Definition frag_step2b (rcv : bool) (s : step) : bool :=
  match s with
  | SSleep _ | SSleepUntil _ | SLog | SIvTick | SIvDrop => true
  | SReset _ d1 d2 => (d1 <? FARK) && (d2 <? FARK)
  | SDropSleep d => d <? FARK
  | STimeout d (ISleep x) => (d <? FARK) && (x <? FARK)
  | SSelect _ a b => (a <? FARK) && (b <? FARK)
  | SIvNew p _ => 0 <? p
  | SKeep _ _ d2 x d3 => (d2 <? FARK) && (x <? FARK) && (d3 <? FARK)
  | STimeoutRecv d _ => rcv && (d <? FARK)
  | SHandOver _ d => negb rcv && (d =? 0)
  | _ => false
  end.

Lemma frag_step2b_sound rcv s : frag_step2b rcv s = true -> frag_step2 rcv s.
Proof.
  destruct s; cbn [frag_step2b frag_step2 frag_step]; try discriminate; try (intros _; exact I); intros H;
    repeat match goal with H : _ && _ = true |- _ => apply andb_true_iff in H; destruct H end; try lia.
  destruct v; [|discriminate]. apply andb_true_iff in H. lia.
Qed.

Definition step_okb (now : N) (arr : arrs) (st : step) : bool :=
  match st with
  | STimeoutRecv d ch => (now + d <? TMAX) && match arr ch with a :: _ => negb (a =? now + d) | [] => true end
  | _ => true
  end.

Fixpoint recv_okb (now : N) (iv : ivs) (arr : arrs) (steps : list step) : bool :=
  match steps with
  | [] => true
  | st :: r => step_okb now arr st && recv_okb (step_time now iv arr st) (step_iv now iv st) (step_arr now arr st) r
  end.

Lemma recv_okb_sound steps : forall now iv arr, recv_okb now iv arr steps = true -> recv_ok now iv arr steps.
Proof.
  induction steps as [|st r IH]; intros now iv arr H; cbn [recv_okb recv_ok] in *; [exact I|].
  apply andb_true_iff in H. destruct H as [H1 H2]. split; [|exact (IH _ _ _ H2)].
  destruct st; cbn [step_okb step_ok] in *; try exact I. apply andb_true_iff in H1. destruct H1 as [G1 G2].
  split; [lia|]. destruct (arr ch) as [|a l]; [exact I|]. apply negb_true_iff in G2. lia.
Qed.

Fixpoint one_recvb (ts : list task) : bool :=
  match ts with
  | [] => true
  | tk :: r => (negb (rcv_of tk) || negb (existsb (fun tk' => rcv_of tk' && (t_mod tk' =? t_mod tk)) r)) && one_recvb r
  end.

Lemma one_recvb_sound ts : one_recvb ts = true -> one_recv ts.
Proof.
  induction ts as [|tk r IH]; intros H k k' tk0 tk0' Hk Hk' Hr Hr' Hm; [destruct k; discriminate|].
  cbn [one_recvb] in H. apply andb_true_iff in H. destruct H as [H1 H2].
  assert (Hex : forall j tkj tkh, nth_error r j = Some tkj -> rcv_of tkj = true -> rcv_of tkh = true -> t_mod tkj = t_mod tkh -> tkh = tk -> False).
  { intros j tkj tkh Hj Hrj Hrh Hmm ->. rewrite Hrh in H1. cbn [negb orb] in H1. apply negb_true_iff in H1.
    assert (existsb (fun tk' => rcv_of tk' && (t_mod tk' =? t_mod tk)) r = true).
    { apply existsb_exists. exists tkj. split; [eapply nth_error_In; exact Hj|]. rewrite Hrj, Hmm, N.eqb_refl. reflexivity. }
    congruence. }
  destruct k as [|k], k' as [|k']; cbn [nth_error] in Hk, Hk'.
  - reflexivity.
  - exfalso. injection Hk as <-. exact (Hex k' tk0' tk Hk' Hr' Hr (eq_sym Hm) eq_refl).
  - exfalso. injection Hk' as <-. exact (Hex k tk0 tk Hk Hr Hr' Hm eq_refl).
  - f_equal. exact (IH H2 k k' tk0 tk0' Hk Hk' Hr Hr' Hm).
Qed.

Definition chan_okb (ts : list task) : bool :=
  forallb (fun tk => forallb (frag_step2b (rcv_of tk)) (t_steps tk) &&
                     forallb (fun x => x <? TMAX) (expected (arrivals ts) tk) &&
                     recv_okb (t_start tk) None (arrivals ts (t_mod tk)) (t_steps tk)) ts && one_recvb ts.

Lemma decode_chan_okb input : chan_okb (decode input) = true -> chan_ok (decode input).
Proof.
  intros H. unfold chan_okb in H. apply andb_true_iff in H. destruct H as [H1 H2].
  apply decode_chan_ok; [|exact (one_recvb_sound _ H2)].
  rewrite forallb_forall in H1. apply Forall_forall. intros tk Htk. specialize (H1 tk Htk).
  apply andb_true_iff in H1. destruct H1 as [H1 G3]. apply andb_true_iff in H1. destruct H1 as [G1 G2].
  split; [|split; [|exact (recv_okb_sound _ _ _ _ G3)]].
  - rewrite forallb_forall in G1. apply Forall_forall. intros st Hst. exact (frag_step2b_sound _ _ (G1 st Hst)).
  - rewrite forallb_forall in G2. apply Forall_forall. intros x Hx. specialize (G2 x Hx). lia.
Qed.
