(* End-to-end argument, fragment {sleep, sleep_until, log}: the start-up (messages injected
   before the run, the at_sim_start event of each module) establishes the boundary invariant;
   the theorem about whole runs. *)
From Coq Require Import List Arith NArith Bool Lia Sorting.Sorted Permutation ZifyBool.
From DesVerif Require Import Common.Fuel CQueue.Model CQueue.Spec CQueue.SpecProps Timer.Driver Timer.QueueLemmas Timer.Inv
  Timer.Exact Timer.Futures Timer.Model Timer.EvSet Timer.Frag Timer.E2EInv Timer.E2EPoll Timer.E2EEvent Timer.E2ELoop.
Import ListNotations.
Open Scope N_scope.

(* ---- the injected messages ---- *)
Definition te (e : ev) : N * N := (etime e, epay e).

Fixpoint msgs (i : nat) (ts : list task) : list (N * N) :=
  match ts with
  | [] => []
  | tk :: r => (if t_start tk =? 0 then [] else [(t_start tk, msg_of i)]) ++ msgs (S i) r
  end.

Lemma inject_spec ts : forall i f, SI f -> s_tcur f = 0 ->
  SI (inject i ts f) /\ s_tcur (inject i ts f) = 0 /\
  Permutation (map te (spend (inject i ts f))) (map te (spend f) ++ msgs i ts).
Proof.
  induction ts as [|tk r IH]; intros i f Hsi Htc; cbn [inject msgs].
  - rewrite app_nil_r. split; [exact Hsi|split; [exact Htc|apply Permutation_refl]].
  - destruct (t_start tk =? 0) eqn:E.
    + cbn [app]. apply IH; assumption.
    + destruct (add_perm f (t_start tk) (2 + N.of_nat i)) as [P1 P2]; [lia|].
      destruct (IH (S i) (fst (fst (sp_add f (t_start tk) (2 + N.of_nat i)))) (SI_add _ _ _ Hsi) ltac:(lia)) as (I1 & I2 & I3).
      split; [exact I1|]. split; [exact I2|].
      eapply Permutation_trans; [exact I3|]. cbn [app].
      eapply Permutation_trans; [apply Permutation_app_tail, Permutation_map; exact P1|].
      cbn [map te etime epay app]. apply Permutation_middle.
Qed.

Lemma msgs_in i ts t p : In (t, p) (msgs i ts) <->
  exists j tk, nth_error ts j = Some tk /\ t_start tk <> 0 /\ t = t_start tk /\ p = msg_of (i + j).
Proof.
  revert i; induction ts as [|tk r IH]; intros i; cbn [msgs].
  - split; [intros []|intros (j & tk & H & _); destruct j; discriminate].
  - rewrite in_app_iff, IH. split.
    + intros [H|(j & tk' & H1 & H2 & H3 & H4)].
      * destruct (t_start tk =? 0) eqn:E; [contradiction|]. destruct H as [H|[]]. injection H as <- <-.
        exists 0%nat, tk. repeat split; [lia|f_equal; lia].
      * exists (S j), tk'. repeat split; try assumption. rewrite H4. f_equal. lia.
    + intros (j & tk' & H1 & H2 & H3 & H4). destruct j as [|j]; cbn [nth_error] in H1.
      * injection H1 as <-. left. replace (t_start tk =? 0) with false by lia. left. rewrite H3, H4. do 2 f_equal. lia.
      * right. exists j, tk'. repeat split; try assumption. rewrite H4. f_equal. lia.
Qed.

Lemma msgs_nodup ts : forall i, NoDup (map snd (msgs i ts)).
Proof.
  induction ts as [|tk r IH]; intros i; cbn [msgs]; [constructor|].
  destruct (t_start tk =? 0); cbn [app map snd]; [apply IH|]. constructor; [|apply IH].
  intros H. apply in_map_iff in H. destruct H as ([t p] & Hp & Hin). cbn [snd] in Hp. subst p.
  apply msgs_in in Hin. destruct Hin as (j & tk' & _ & _ & _ & E). apply msg_of_inj in E. lia.
Qed.

(* ---- the tasks spawned by at_sim_start ---- *)
Lemma start_tasks_in m ts : forall i k, In k (start_tasks m i ts) <->
  exists j tk, k = (i + j)%nat /\ nth_error ts j = Some tk /\ t_mod tk = m /\ t_start tk = 0.
Proof.
  induction ts as [|tk r IH]; intros i k; cbn [start_tasks].
  - split; [intros []|intros (j & tk & _ & H & _); destruct j; discriminate].
  - assert (Hrest : In k (start_tasks m (S i) r) <-> exists j tk', k = (i + S j)%nat /\ nth_error r j = Some tk' /\ t_mod tk' = m /\ t_start tk' = 0).
    { rewrite IH. split; intros (j & tk' & H1 & H2); exists j, tk'; (split; [lia|exact H2]). }
    destruct ((t_mod tk =? m) && (t_start tk =? 0)) eqn:E.
    + cbn [In]. rewrite Hrest. split.
      * intros [<-|(j & tk' & H1 & H2)]; [exists 0%nat, tk; repeat split; lia|exists (S j), tk'; split; [exact H1|exact H2]].
      * intros (j & tk' & H1 & H2 & H3 & H4). destruct j as [|j]; [left; lia|right; exists j, tk'].
        cbn [nth_error] in H2. split; [exact H1|split; [exact H2|split; assumption]].
    + rewrite Hrest. split.
      * intros (j & tk' & H1 & H2). exists (S j), tk'. split; [exact H1|exact H2].
      * intros (j & tk' & H1 & H2 & H3 & H4). destruct j as [|j]; [cbn [nth_error] in H2; injection H2 as <-; lia|].
        cbn [nth_error] in H2. exists j, tk'. split; [exact H1|split; [exact H2|split; assumption]].
Qed.

Lemma start_tasks_nodup m ts : forall i, NoDup (start_tasks m i ts).
Proof.
  induction ts as [|tk r IH]; intros i; cbn [start_tasks]; [constructor|].
  destruct ((t_mod tk =? m) && (t_start tk =? 0)); [|apply IH]. constructor; [|apply IH].
  rewrite start_tasks_in. intros (j & tk' & H & _). lia.
Qed.

Lemma module_event_now wfix t m sp f w : w_now (module_event wfix t m sp f w) = t.
Proof.
  unfold module_event. destruct (activate t _) as [wk d1]. destruct (deactivate true _) as [dr3 wk']. reflexivity.
Qed.

Lemma filter_all {A} (f : A -> bool) l : (forall x, In x l -> f x = true) -> filter f l = l.
Proof.
  induction l as [|a l IH]; intros H; cbn [filter]; [reflexivity|].
  rewrite (H a (or_introl eq_refl)), IH; [reflexivity|]. intros x Hx. apply H. right; exact Hx.
Qed.

(* ---- start-up ---- *)
(* tasks of module 1 that at_sim_start will spawn: still unspawned, without a message, while module 0 starts *)
Definition later1 (ts0 : list task) (k : nat) : Prop :=
  exists tk0, nth_error ts0 k = Some tk0 /\ t_start tk0 = 0 /\ t_mod tk0 = 1.

Lemma extra_init : Extra 0 new_driver.
Proof.
  split; [exact snap_init|]. intros w H; discriminate.
Qed.

Lemma start_pre0 ts0 : Forall init_ok ts0 ->
  PreEv ts0 (later1 ts0) (init_world ts0) 0 0 (start_tasks 0 0 ts0) false.
Proof.
  intros Hinit. pose proof Hinit as Hinit'. rewrite Forall_forall in Hinit'.
  destruct (inject_spec ts0 0 sp_new SI_new eq_refl) as (I1 & I2 & I3). cbn [spend sp_new sp_new_at s_zero s_rest app map] in I3.
  set (w0 := init_world ts0).
  assert (Hev : forall e, In e (spend (w_fes w0)) ->
            exists j tk, nth_error ts0 j = Some tk /\ t_start tk <> 0 /\ etime e = t_start tk /\ epay e = msg_of j).
  { intros e He. assert (H : In (te e) (msgs 0 ts0)) by (eapply Permutation_in; [exact I3|apply in_map; exact He]).
    unfold te in H. apply msgs_in in H. exact H. }
  assert (Hun0 : forall k tk, nth_error ts0 k = Some tk -> unspawned tk).
  { intros k tk Hk. destruct (Hinit' tk (nth_error_In _ _ Hk)) as (_ & H2 & _ & _ & H5 & _). split; assumption. }
  assert (Hst0 : Forall2 tstate ts0 ts0).
  { clear. induction ts0; constructor; [apply TUn; reflexivity|assumption]. }
  constructor; cbn [w0 init_world w_fes w_now w_mail w_tasks w_owner w_nid].
  - exact I1.
  - exact I2.
  - lia.
  - intros e _. lia.
  - reflexivity.
  - assert (Hown0 : forall k tk s, nth_error ts0 k = Some tk -> In s (owned tk) -> False).
    { intros k tk s Hk Hbl. destruct (Hinit' tk (nth_error_In _ _ Hk)) as (_ & H2 & H3 & _).
      unfold owned, held in Hbl. rewrite H2, H3 in Hbl. destruct Hbl. }
    constructor; [exact Hst0|exact Hinit| | |].
    + intros k tk s Hk Hbl. destruct (Hown0 k tk s Hk (held_owned _ _ Hbl)).
    + intros k tk s Hk Hbl. destruct (Hown0 k tk s Hk Hbl).
    + intros k k' tk tk' s s' Hk _ Hbl. destruct (Hown0 k tk s Hk Hbl).
  - lia.
  - intros m' Hm'. exists 0. split; [lia|].
    match goal with |- context [drv_of ?W m'] =>
      replace (drv_of W m') with new_driver by (unfold drv_of; cbn [w_d0 w_d1]; destruct (m' =? 0); reflexivity) end.
    split; [exact inv_init|]. split; [|split; [|exact extra_init]].
    + cbn [andb app new_driver scheduled].
      assert (Hnil : wakes m' (spend (inject 0 ts0 sp_new)) = []).
      { destruct (wakes m' (spend (inject 0 ts0 sp_new))) as [|a l] eqn:E; [reflexivity|exfalso].
        assert (Hin : In a (wakes m' (spend (inject 0 ts0 sp_new)))) by (rewrite E; left; reflexivity).
        apply wakes_in in Hin. destruct Hin as (e & He & Hp & _). destruct (Hev e He) as (j & tk & _ & _ & _ & Ep).
        unfold msg_of in Ep. lia. }
      rewrite Hnil. constructor.
    + constructor.
      * intros k tk s Hk Hbl. destruct (Hun0 k tk Hk) as [Hc _]. unfold held in Hbl. rewrite Hc in Hbl. destruct Hbl.
      * intros d id [].
      * intros d. constructor.
  - apply start_tasks_nodup.
  - intros k Hk. apply start_tasks_in in Hk. destruct Hk as (j & tk & -> & Hj & Hm & Hs). cbn [Nat.add].
    exists tk. split; [exact Hj|]. split; [exact (Hun0 j tk Hj)|]. split; assumption.
  - intros k e Hk He Ee. apply start_tasks_in in Hk. destruct Hk as (j & tk & -> & Hj & _ & Hs). cbn [Nat.add] in Ee.
    destruct (Hev e He) as (j' & tk' & Hj' & Hne & _ & Ep). rewrite Ee in Ep. apply msg_of_inj in Ep. subst j'.
    rewrite Hj in Hj'. injection Hj' as <-. contradiction.
  - intros k (tk0 & Hk & _ & Hm) Hs. apply start_tasks_in in Hs. destruct Hs as (j & tk & -> & Hj & Hm' & _). cbn [Nat.add] in Hk.
    rewrite Hj in Hk. injection Hk as <-. lia.
  - constructor.
    + intros e He _. destruct (Hev e He) as (j & tk & Hj & Hne & Et & Ep). exists j, tk.
      split; [exact Ep|]. split; [exact Hj|]. split; [exact (Hun0 j tk Hj)|]. split; [exact Et|lia].
    + rewrite filter_all.
      * eapply Permutation_NoDup; [|apply (msgs_nodup ts0 0%nat)].
        apply Permutation_sym. replace (map epay (spend (inject 0 ts0 sp_new))) with (map snd (map te (spend (inject 0 ts0 sp_new)))).
        -- apply Permutation_map. exact I3.
        -- rewrite map_map. reflexivity.
      * intros p Hp. apply in_map_iff in Hp. destruct Hp as (e & <- & He). destruct (Hev e He) as (j & tk & _ & _ & _ & Ep).
        unfold msg_of in Ep. lia.
    + intros k tk Hk _. destruct (N.eq_dec (t_start tk) 0) as [Hz|Hnz].
      * left. destruct (Hinit' tk (nth_error_In _ _ Hk)) as (_ & _ & _ & _ & _ & Hm).
        destruct (N.eq_dec (t_mod tk) 0) as [Hm0|Hm1].
        -- right. apply start_tasks_in. exists k, tk. repeat split; assumption.
        -- left. exists tk. split; [exact Hk|split; [exact Hz|lia]].
      * right. assert (Hin : In (t_start tk, msg_of k) (msgs 0 ts0)) by (apply msgs_in; exists k, tk; repeat split; assumption).
        apply (Permutation_in _ (Permutation_sym I3)) in Hin. apply in_map_iff in Hin. destruct Hin as (e & Ee & He).
        exists e. split; [exact He|]. unfold te in Ee. injection Ee as _ Ep. exact Ep.
    + intros k [(tk0 & Hk & _)|Hs].
      * exists tk0. split; [exact Hk|exact (Hun0 k tk0 Hk)].
      * apply start_tasks_in in Hs. destruct Hs as (j & tk & -> & Hj & _). exists tk. split; [exact Hj|exact (Hun0 j tk Hj)].
Qed.

Lemma start_pre1 ts0 : Forall init_ok ts0 ->
  let w1 := module_event true 0 0 (start_tasks 0 0 ts0) false (init_world ts0) in
  PreEv ts0 (fun _ => False) w1 0 1 (start_tasks 1 0 (w_tasks w1)) false.
Proof.
  intros Hinit. pose proof Hinit as Hinit'. rewrite Forall_forall in Hinit'. cbn zeta.
  pose proof (module_event_winv _ _ _ _ _ _ _ (start_pre0 ts0 Hinit)) as W1.
  set (w1 := module_event true 0 0 (start_tasks 0 0 ts0) false (init_world ts0)) in *.
  destruct W1 as [Hsi Htc Hmail Hbase Hdrv [Mt Mn Ma Ml]].
  assert (Hnow : w_now w1 = 0) by apply module_event_now.
  assert (Hsp1 : forall k, In k (start_tasks 1 0 (w_tasks w1)) -> later1 ts0 k).
  { intros k Hk. apply start_tasks_in in Hk. destruct Hk as (j & tk & -> & Hj & Hm & Hs). cbn [Nat.add].
    destruct (Forall2_nth _ _ _ _ _ (b_states _ _ _ _ Hbase) Hj) as (tk0 & Hj0 & Hst).
    destruct (tstate_cases _ _ Hst (Hinit' tk0 (nth_error_In _ _ Hj0))) as (E1 & E2 & _).
    exists tk0. split; [exact Hj0|split; lia]. }
  constructor.
  - exact Hsi.
  - exact (eq_trans Htc Hnow).
  - lia.
  - intros e _. lia.
  - exact Hmail.
  - exact Hbase.
  - lia.
  - intros m' Hm'. destruct (Hdrv m' Hm') as (l & Hl & Hinv & Hperm & Htie & Hex). exists l.
    split; [exact Hl|split; [exact Hinv|split; [exact Hperm|split; [exact Htie|exact Hex]]]].
  - apply start_tasks_nodup.
  - intros k Hk. destruct (Ml k (Hsp1 k Hk)) as (tk & Hk' & Hun). exists tk. split; [exact Hk'|]. split; [exact Hun|].
    apply start_tasks_in in Hk. destruct Hk as (j & tk' & -> & Hj & Hm & Hs). cbn [Nat.add] in Hk'. rewrite Hj in Hk'. injection Hk' as <-.
    split; assumption.
  - intros k e Hk He Ee. destruct (Mt e He) as (k' & tk & E1 & Hk' & _ & E2 & E3); [rewrite Ee; unfold msg_of; lia|].
    rewrite Ee in E1. apply msg_of_inj in E1. subst k'.
    apply start_tasks_in in Hk. destruct Hk as (j & tk' & -> & Hj & _ & Hs). cbn [Nat.add] in Hk'. rewrite Hj in Hk'. injection Hk' as <-. lia.
  - intros k [].
  - constructor.
    + exact Mt.
    + exact Mn.
    + intros k tk Hk Hun. destruct (Ma k tk Hk Hun) as [(tk0 & Hk0 & Hs0 & Hm0)|H]; [|right; exact H].
      left. right. apply start_tasks_in. exists k, tk. split; [reflexivity|]. split; [exact Hk|].
      destruct (Forall2_nth _ _ _ _ _ (b_states _ _ _ _ Hbase) Hk) as (tk0' & Hk0' & Hst). rewrite Hk0 in Hk0'. injection Hk0' as <-.
      destruct (tstate_cases _ _ Hst (Hinit' tk0 (nth_error_In _ _ Hk0))) as (E1 & E2 & _). split; lia.
    + intros k [[]|Hk]. exact (Ml k (Hsp1 k Hk)).
Qed.

Lemma sim_start_winv ts0 : Forall init_ok ts0 -> WInv ts0 (fun _ => False) (sim_start true (init_world ts0)).
Proof.
  intros Hinit. unfold sim_start. apply winv_take_snaps, module_event_winv. exact (start_pre1 ts0 Hinit).
Qed.

(* ---- termination ---- *)
Lemma iter_terminates ts0 n : forall w, WInv ts0 (fun _ => False) w -> (mu w < n)%nat ->
  exists w', iter_nat n (loop_step true) w = inr w'.
Proof.
  induction n as [|n IH]; intros w HW Hlt; [lia|]. cbn [iter_nat].
  pose proof (loop_step_winv ts0 w HW) as H1. pose proof (loop_step_measure ts0 w HW) as H2.
  destruct (loop_step true w) as [w'|w']; [apply IH; [exact H1|lia]|exists w'; reflexivity].
Qed.

Definition size (ts : list task) : nat := fold_right (fun tk n => (length (t_steps tk) + 1 + n)%nat) 0%nat ts.

Lemma work_init ts : Forall init_ok ts -> work ts = (2 * size ts)%nat.
Proof.
  induction 1 as [|tk r Hi _ IH]; [reflexivity|]. cbn [work size fold_right]. fold (work r). fold (size r). rewrite IH.
  destruct Hi as (_ & I2 & _ & _ & I5 & _). unfold wt. rewrite I2, I5. lia.
Qed.

Lemma msgs_len ts : forall i, (length (msgs i ts) <= length ts)%nat.
Proof.
  induction ts as [|tk r IH]; intros i; cbn [msgs length]; [lia|]. rewrite app_length. specialize (IH (S i)).
  destruct (t_start tk =? 0); cbn [length]; lia.
Qed.

Lemma size_len ts : (length ts <= size ts)%nat.
Proof. induction ts as [|tk r IH]; cbn [size fold_right length]; [lia|]. fold (size r). lia. Qed.

Lemma sim_start_mu ts0 : Forall init_ok ts0 -> (mu (sim_start true (init_world ts0)) <= 5 * size ts0 + 2)%nat.
Proof.
  intros Hinit.
  destruct (module_event_measure _ _ _ _ _ _ _ (start_pre0 ts0 Hinit)) as (n0 & A0 & _).
  destruct (module_event_measure _ _ _ _ _ _ _ (start_pre1 ts0 Hinit)) as (n1 & A1 & _). cbn zeta in A1.
  unfold sim_start, mu. change (w_tasks (take_snaps ?W)) with (w_tasks W). change (w_fes (take_snaps ?W)) with (w_fes W).
  change (w_tasks (init_world ts0)) with ts0 in *.
  destruct (inject_spec ts0 0 sp_new SI_new eq_refl) as (_ & _ & I3). cbn [spend sp_new sp_new_at s_zero s_rest app map] in I3.
  pose proof (Permutation_length I3) as Hl. rewrite map_length in Hl.
  change (w_fes (init_world ts0)) with (inject 0 ts0 sp_new) in A0.
  pose proof (msgs_len ts0 0%nat). pose proof (size_len ts0). rewrite (work_init ts0 Hinit) in A0. lia.
Qed.

(* ---- whole runs ---- *)
(* For EVERY script over {sleep(d), sleep_until(t), log}, with any number of tasks on the two
   modules, spawned at start-up or by messages at any instants: whenever the run of the
   composite model ends, every task has finished and has logged exactly the instants the
   property demands -- each await returned at exactly its deadline. *)
Theorem composite_sleep_exact_if_ends ts0 : Forall init_ok ts0 ->
  forall w, run_tasks true ts0 = (w, true) -> Forall2 done_exact ts0 (w_tasks w).
Proof.
  intros Hinit w Hrun. unfold run_tasks in Hrun. rewrite iter_until_nat in Hrun.
  pose proof (iter_winv ts0 (Pos.to_nat (fuel ts0)) _ (sim_start_winv ts0 Hinit)) as H.
  destruct (iter_nat (Pos.to_nat (fuel ts0)) (loop_step true) (sim_start true (init_world ts0))) as [w'|w']; [discriminate|].
  injection Hrun as <-. destruct H as [HW Hsp]. exact (winv_final ts0 w' HW Hsp).
Qed.

(* and at every point of the run, ended or not: nothing is ever logged that the property does
   not demand (never early, never late, nothing spurious) *)
Theorem composite_sleep_prefix ts0 : Forall init_ok ts0 -> forall n,
  let w := match iter_nat n (loop_step true) (sim_start true (init_world ts0)) with inl w => w | inr w => w end in
  Forall2 (fun tk0 tk => exists rest, expected tk0 = t_log tk ++ rest) ts0 (w_tasks w).
Proof.
  intros Hinit n. cbn zeta.
  pose proof (iter_winv ts0 n _ (sim_start_winv ts0 Hinit)) as H.
  destruct (iter_nat n (loop_step true) (sim_start true (init_world ts0))) as [w'|w'].
  - exact (winv_prefix _ _ _ H).
  - exact (winv_prefix _ _ _ (proj1 H)).
Qed.

(* ... and every run ends: the fuel of the model's main loop is never exhausted *)
Theorem composite_sleep_exact ts0 : Forall init_ok ts0 ->
  exists w, run_tasks true ts0 = (w, true) /\ Forall2 done_exact ts0 (w_tasks w).
Proof.
  intros Hinit.
  assert (Hfuel : (mu (sim_start true (init_world ts0)) < Pos.to_nat (fuel ts0))%nat).
  { pose proof (sim_start_mu ts0 Hinit) as H. unfold fuel. fold (size ts0).
    pose proof (N.succ_pos_spec (16 * N.of_nat (size ts0) + 64)) as Hs. lia. }
  destruct (iter_terminates ts0 _ _ (sim_start_winv ts0 Hinit) Hfuel) as (w' & Hw').
  assert (Hrun : run_tasks true ts0 = (w', true)) by (unfold run_tasks; rewrite iter_until_nat, Hw'; reflexivity).
  exists w'. split; [exact Hrun|]. exact (composite_sleep_exact_if_ends ts0 Hinit w' Hrun).
Qed.

(* every script line decodes into tasks of the shape the theorems ask for *)
Lemma decode_init_ok input :
  Forall (fun tk => Forall frag_step (t_steps tk) /\ Forall (fun x => x < TMAX) (expected tk)) (decode input) ->
  Forall init_ok (decode input).
Proof.
  unfold decode. destruct input as [|nm [|n r]]; try (intros _; constructor).
  set (mods := 1 + nm mod 2). assert (Hmods : mods <= 2) by (unfold mods; pose proof (N.mod_upper_bound nm 2); lia).
  assert (Hmods0 : mods <> 0) by (unfold mods; generalize (nm mod 2); intros; lia).
  generalize (take_blobs (N.to_nat (N.min n (N.of_nat (length r)))) r). intros bl. induction bl as [|b bl IH]; cbn [map]; intros H; [constructor|].
  inversion H as [|? ? [Hb Hfin] Hr]; subst. constructor; [|exact (IH Hr)].
  assert (Hmod : t_mod (dec_task mods b) < 2).
  { unfold dec_task. destruct b as [|m0 [|s rest]]; cbn [t_mod]; try lia. pose proof (N.mod_upper_bound m0 mods Hmods0). lia. }
  assert (Hshape : t_cur (dec_task mods b) = None /\ t_iv (dec_task mods b) = None /\ t_log (dec_task mods b) = [] /\ t_fin (dec_task mods b) = false).
  { unfold dec_task. destruct b as [|m0 [|s rest]]; repeat split. }
  destruct Hshape as (S1 & S2 & S3 & S4).
  split; [exact Hb|]. split; [exact S1|]. split; [exact S2|]. split; [exact S3|]. split; [exact S4|]. split; [exact Hmod|exact Hfin].
Qed.
