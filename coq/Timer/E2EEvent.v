(* End-to-end argument, fragment {sleep, sleep_until, log}: one event of the composite model
   (activate, the executor's run, deactivate, the wake-up put into the event set)
   re-establishes the boundary invariant. *)
From Coq Require Import List Arith NArith Bool Lia Sorting.Sorted Permutation ZifyBool.
From DesVerif Require Import CQueue.Model CQueue.Spec CQueue.SpecProps Timer.Driver Timer.QueueLemmas Timer.Inv Timer.Exact
  Timer.Futures Timer.FutureLaws Timer.Model Timer.Compose Timer.EvSet Timer.Frag Timer.E2EInv Timer.E2EPoll.
Import ListNotations.
Open Scope N_scope.

(* ---- the queue of woken / spawned tasks ---- *)
Lemma existsb_eqb x l : existsb (Nat.eqb x) l = true <-> In x l.
Proof.
  rewrite existsb_exists. split.
  - intros (y & Hy & E). apply Nat.eqb_eq in E. subst y. exact Hy.
  - intros H. exists x. split; [exact H|apply Nat.eqb_refl].
Qed.

Lemma dedup_acc_in seen l x : In x (dedup_acc seen l) <-> In x l /\ ~ In x seen.
Proof.
  revert seen; induction l as [|a r IH]; intros seen; cbn [dedup_acc]; [split; [intros []|intros [[] _]]|].
  destruct (existsb (Nat.eqb a) seen) eqn:E.
  - apply existsb_eqb in E. rewrite IH. split.
    + intros [H1 H2]. split; [right; exact H1|exact H2].
    + intros [[->|H1] H2]; [contradiction|split; assumption].
  - assert (Ha : ~ In a seen) by (intros H; apply existsb_eqb in H; rewrite H in E; discriminate).
    cbn [In]. rewrite IH. split.
    + intros [<-|[H1 H2]]; [split; [left; reflexivity|exact Ha]|].
      split; [right; exact H1|intros H; apply H2; right; exact H].
    + intros [[->|H1] H2]; [left; reflexivity|].
      destruct (Nat.eq_dec a x) as [->|Hne]; [left; reflexivity|right].
      split; [exact H1|intros [E'|H]; [exact (Hne E')|exact (H2 H)]].
Qed.

Lemma dedup_acc_nodup seen l : NoDup (dedup_acc seen l).
Proof.
  revert seen; induction l as [|a r IH]; intros seen; cbn [dedup_acc]; [constructor|].
  destruct (existsb (Nat.eqb a) seen); [apply IH|]. constructor; [|apply IH].
  rewrite dedup_acc_in. intros [_ H]. apply H. left; reflexivity.
Qed.

Lemma dedup_in l x : In x (dedup l) <-> In x l.
Proof. unfold dedup. rewrite dedup_acc_in. split; [intros [H _]; exact H|intros H; split; [exact H|intros []]]. Qed.

(* ---- the parts of the driver that the tasks never touch ---- *)
Lemma apply_ops_rest ops : forall dr, next_wakeup (apply_ops ops dr) = next_wakeup dr /\ scheduled (apply_ops ops dr) = scheduled dr.
Proof.
  unfold apply_ops. induction ops as [|o r IH]; intros dr; cbn [fold_left]; [split; reflexivity|].
  destruct (IH (apply_op dr o)) as [H1 H2]. destruct (apply_op_rest dr o) as [E1 E2]. rewrite H1, H2, E1, E2. split; reflexivity.
Qed.

Lemma acts_sched t dr dr' : acts t dr dr' -> scheduled dr' = scheduled dr.
Proof. intros (ops & _ & ->). exact (proj2 (apply_ops_rest ops dr)). Qed.

Lemma activate_sched t dr : scheduled (snd (activate t dr)) = scheduled dr.
Proof. unfold activate. destruct (q_bump t (pending dr)). reflexivity. Qed.

Lemma ents_at_prune_keep d p : sorted p -> ents_at d p <> [] -> ents_at d (prune p) = ents_at d p.
Proof.
  intros Hs Hne. apply in_ents_at; [apply prune_sorted; exact Hs|].
  apply prune_keeps_live; [apply ents_at_in; exact Hne|exact Hne].
Qed.

Lemma ents_at_prune_in d p id : sorted p -> In id (ents_at d (prune p)) -> In id (ents_at d p).
Proof.
  intros Hs Hin. assert (Hne : ents_at d (prune p) <> []) by (intros E; rewrite E in Hin; contradiction).
  pose proof (prune_in _ _ (ents_at_in _ _ Hne)) as H. rewrite (in_ents_at _ _ _ Hs H). exact Hin.
Qed.

(* ---- the state in which an event of module m at instant t begins ---- *)
Record PreEv (A0 A : N -> arrs) (ts0 : list task) (later : nat -> Prop) (w : world) (t m : N) (spawn : list nat) (fire : bool) : Prop := {
  pe_si : SI (w_fes w);
  pe_tcur : s_tcur (w_fes w) = t;
  pe_now : w_now w <= t;
  pe_min : forall e, In e (spend (w_fes w)) -> t <= etime e;
  pe_inert : inert (w_mail w);
  pe_arr : Arr A (w_now w) (w_tasks w) (w_mail w);
  pe_norecv : forall k tk ch, nth_error (w_tasks w) k = Some tk -> waits_on (t_cur tk) = Some ch -> chan (t_mod tk) ch (w_mail w) = [];
  pe_base : Base A0 A ts0 (w_tasks w) (w_owner w) (w_nid w);
  pe_m : m < 2;
  pe_drv : forall m', m' < 2 -> exists l, l <= w_now w /\ Inv l (drv_of w m') /\
           Permutation ((if fire && (m' =? m) then [t] else []) ++ wakes m' (spend (w_fes w))) (scheduled (drv_of w m')) /\
           Tie (w_tasks w) l [] m' (drv_of w m') /\ Snap l (drv_of w m');
  pe_spawn_nd : NoDup spawn;
  pe_spawn : forall k, In k spawn -> exists tk, nth_error (w_tasks w) k = Some tk /\ unspawned tk /\ t_mod tk = m /\ t_start tk = t;
  pe_spawn_msg : forall k e, In k spawn -> In e (spend (w_fes w)) -> epay e <> msg_of k;
  pe_later_spawn : forall k, later k -> ~ In k spawn;
  pe_later_start : forall k tk, later k -> nth_error (w_tasks w) k = Some tk -> t <= t_start tk;
  pe_msgs : Msgs (w_tasks w) (spend (w_fes w)) (fun k => later k \/ In k spawn) }.

Section Event.
  Variables (A0 A : N -> arrs) (ts0 : list task) (later : nat -> Prop) (w : world) (t m : N) (spawn : list nat) (fire : bool).
  Hypothesis HP : PreEv A0 A ts0 later w t m spawn fire.

  Let dr0 := if fire then sched_fire t (drv_of w m) else drv_of w m.

  Lemma ev_pending0 : pending dr0 = pending (drv_of w m).
  Proof. unfold dr0. destruct fire; reflexivity. Qed.

  (* the scheduled wake-ups of module m lie at or after t; the fired one is the earliest *)
  Lemma ev_sched_ge' m' x : m' < 2 -> In x (scheduled (drv_of w m')) -> t <= x.
  Proof.
    intros Hm' Hx. destruct (pe_drv _ _ _ _ _ _ _ _ _ HP m' Hm') as (l & _ & _ & Hperm & _ & _).
    apply Permutation_sym in Hperm. pose proof (Permutation_in _ Hperm Hx) as H. apply in_app_or in H.
    destruct H as [H|H].
    - destruct (fire && (m' =? m)); [destruct H as [<-|[]]; lia|contradiction].
    - apply wakes_in in H. destruct H as (e & He & _ & <-). exact (pe_min _ _ _ _ _ _ _ _ _ HP e He).
  Qed.

  Lemma ev_sched_ge x : In x (scheduled (drv_of w m)) -> t <= x.
  Proof. exact (ev_sched_ge' m x (pe_m _ _ _ _ _ _ _ _ _ HP)). Qed.

  Lemma ev_pre : Pre t dr0.
  Proof.
    destruct (pe_drv _ _ _ _ _ _ _ _ _ HP m (pe_m _ _ _ _ _ _ _ _ _ HP)) as (l & _ & Hinv & Hperm & _ & _).
    pose proof ev_sched_ge as Hge.
    unfold dr0. destruct fire.
    - apply (inv_pre_wake l). exact Hinv. apply lmin_of_min; [|exact Hge].
      eapply Permutation_in; [exact Hperm|]. rewrite N.eqb_refl. left; reflexivity.
    - apply (inv_pre_other l); [exact Hinv|exact Hge].
  Qed.

  Lemma ev_sched0 : Permutation (wakes m (spend (w_fes w))) (scheduled dr0).
  Proof.
    destruct (pe_drv _ _ _ _ _ _ _ _ _ HP m (pe_m _ _ _ _ _ _ _ _ _ HP)) as (l & _ & _ & Hperm & _ & _).
    unfold dr0. destruct fire; cbn [andb] in Hperm.
    - rewrite N.eqb_refl in Hperm. cbn [app sched_fire scheduled] in *. apply perm_remove1. exact Hperm.
    - exact Hperm.
  Qed.

  (* every entry that activation pops is a Sleep with deadline exactly t, held by a task of
     module m whose awaited future completes exactly at t *)
  Lemma ev_woken d es id : In (d, es) (fst (activate t dr0)) -> In id es ->
    exists k tk a s, nth_error (w_tasks w) k = Some tk /\ t_cur tk = Some a /\ In s (held tk) /\ t_mod tk = m /\
                     sid s = id /\ deadline s = d /\ d = t /\ aw_wake a (t_iv tk) = t /\ waker_of (w_owner w) id = Some k.
  Proof.
    intros Hin Hid. pose proof (pe_base _ _ _ _ _ _ _ _ _ HP) as Hbase.
    destruct (pe_drv _ _ _ _ _ _ _ _ _ HP m (pe_m _ _ _ _ _ _ _ _ _ HP)) as (l & _ & [Hmid Hwake] & _ & [Hentry Htask _] & _).
    pose proof (never_early t dr0 d es Hin) as Hle.
    assert (Hp : In (d, es) (pending (drv_of w m))).
    { rewrite <- ev_pending0. unfold activate in Hin. destruct (q_bump t (pending dr0)) as [wk rest] eqn:Eb. cbn [fst] in Hin.
      destruct (q_bump_spec _ _ _ _ Eb) as (-> & _). apply in_or_app. left; exact Hin. }
    assert (Hid' : In id (ents_at d (pending (drv_of w m)))) by (rewrite (in_ents_at _ _ _ (mid_sorted _ _ Hmid) Hp); exact Hid).
    destruct (Htask d id Hid') as (k & tk & s & Hk & Hs & Hm & E1 & E2).
    destruct (Forall2_nth _ _ _ _ _ (b_states _ _ _ _ _ _ Hbase) Hk) as (tk0 & Hk0 & Hst).
    assert (Hi0 : init_ok2 A0 tk0).
    { pose proof (b_init _ _ _ _ _ _ Hbase) as Hall. rewrite Forall_forall in Hall. apply Hall. eapply nth_error_In; exact Hk0. }
    destruct (held_blocked _ _ _ _ _ Hst Hi0 Hs) as (a & Hc & Hkind & Hsa & _ & _ & Hheld).
    destruct (aw_wake_held a _ Hkind) as [(smin & Hsmin & Emin) Hge].
    (* the Sleep that completes the future is registered: the wake-up that covers it is not before t *)
    assert (Hreg : In (sid smin) (ents_at (aw_wake a (t_iv tk)) (pending (drv_of w m)))).
    { rewrite <- Emin. apply (Hentry k tk smin Hk); [rewrite Hheld; exact Hsmin|exact Hm|left; intros []]. }
    assert (Hne : ents_at (aw_wake a (t_iv tk)) (pending (drv_of w m)) <> []) by (intros E; rewrite E in Hreg; contradiction).
    destruct (Hwake _ _ (ents_at_in _ _ Hne) Hne (base_blocked_fin _ _ _ _ _ _ _ _ _ Hbase Hk Hc)) as (w0 & Hw0 & _ & Hw0d).
    pose proof (ev_sched_ge w0 Hw0) as Htw. pose proof (Hge s Hsa) as Hws.
    exists k, tk, a, s. repeat split; try assumption; try lia.
    rewrite <- E1. exact (proj2 (b_ids _ _ _ _ _ _ Hbase k tk s Hk Hs)).
  Qed.

  Let woken := fst (activate t dr0).
  Let dr1 := snd (activate t dr0).
  Let q0 := dedup (flat_map (owner_of (w_owner w)) (flat_map snd woken) ++ spawn).
  Let w1 := set_drv w m dr1.

  Lemma ev_q0_woken k : In k (flat_map (owner_of (w_owner w)) (flat_map snd woken)) ->
    exists tk a, nth_error (w_tasks w) k = Some tk /\ t_cur tk = Some a /\ t_mod tk = m /\ aw_wake a (t_iv tk) = t.
  Proof.
    intros H. apply in_flat_map in H. destruct H as (id & Hid & Hk). apply in_flat_map in Hid.
    destruct Hid as ([d es] & Hsl & Hes). cbn [snd] in Hes.
    destruct (ev_woken d es id Hsl Hes) as (k' & tk & a & s & H1 & H2 & _ & H3 & _ & _ & _ & H5 & H6).
    unfold owner_of in Hk. rewrite H6 in Hk. destruct Hk as [<-|[]]. exists tk, a. repeat split; assumption.
  Qed.

  Lemma ev_q0_runnable k : In k q0 -> runnable (w_tasks w) (w_mail w) t m k.
  Proof.
    unfold q0. rewrite dedup_in. intros H. apply in_app_or in H. destruct H as [H|H].
    - destruct (ev_q0_woken k H) as (tk & a & H1 & H2 & H3 & H4). exists tk. split; [exact H1|]. split; [exact H3|].
      right. exists a. split; [exact H2|left; exact H4].
    - destruct (pe_spawn _ _ _ _ _ _ _ _ _ HP k H) as (tk & H1 & H2 & H3 & H4). exists tk. split; [exact H1|]. split; [exact H3|].
      left. split; assumption.
  Qed.

  Lemma ev_tie1 : Tie (w_tasks w) t q0 m dr1.
  Proof.
    destruct (pe_drv _ _ _ _ _ _ _ _ _ HP m (pe_m _ _ _ _ _ _ _ _ _ HP)) as (l & _ & [Hmid _] & _ & [Hentry Htask Hnd] & _).
    pose proof (mid_sorted _ _ Hmid) as Hs.
    assert (Hmid1 : Mid t dr1) by (apply activate_mid; exact ev_pre).
    assert (Hsub : forall d E, In (d, E) (pending dr1) -> In (d, E) (pending (drv_of w m))).
    { intros d E Hsl. rewrite <- ev_pending0. unfold dr1, activate in Hsl. destruct (q_bump t (pending dr0)) as [wk rest] eqn:Eb. cbn [snd pending] in Hsl.
      destruct (q_bump_spec _ _ _ _ Eb) as (-> & _). apply in_or_app. right; exact Hsl. }
    assert (Hsame : forall d, ents_at d (pending dr1) <> [] -> ents_at d (pending dr1) = ents_at d (pending (drv_of w m))).
    { intros d Hne. symmetry. apply (in_ents_at _ _ _ Hs). apply Hsub. apply ents_at_in. exact Hne. }
    constructor.
    - intros k tk s Hk Hsh Hm Hq.
      pose proof (Hentry k tk s Hk Hsh Hm (or_introl (fun F => F))) as Hold.
      assert (Hne : ents_at (deadline s) (pending (drv_of w m)) <> []) by (intros E; rewrite E in Hold; contradiction).
      set (E := ents_at (deadline s) (pending (drv_of w m))) in *.
      assert (Hin : In (deadline s, E) (pending dr0)) by (rewrite ev_pending0; apply ents_at_in; exact Hne).
      destruct (N.le_gt_cases (deadline s) t) as [Hle|Hgt].
      + exfalso. destruct Hq as [Hq|Hq]; [|lia]. apply Hq. unfold q0. rewrite dedup_in. apply in_or_app. left.
        apply in_flat_map. exists (sid s). split.
        * apply in_flat_map. exists (deadline s, E). split; [|exact Hold].
          unfold woken. apply bump_takes_all_due; [rewrite ev_pending0; exact Hs|exact Hin|exact Hle].
        * unfold owner_of. rewrite (proj2 (b_ids _ _ _ _ _ _ (pe_base _ _ _ _ _ _ _ _ _ HP) k tk s Hk Hsh)). left; reflexivity.
      + pose proof (activate_keeps_future t dr0 _ _ Hin Hgt) as Hk1. fold dr1 in Hk1.
        rewrite (in_ents_at _ _ _ (mid_sorted _ _ Hmid1) Hk1). exact Hold.
    - intros d id Hin.
      assert (Hne : ents_at d (pending dr1) <> []) by (intros E; rewrite E in Hin; contradiction).
      rewrite (Hsame d Hne) in Hin. exact (Htask d id Hin).
    - intros d. destruct (ents_at d (pending dr1)) as [|e0 l0] eqn:Ed; [constructor|].
      assert (Hne : ents_at d (pending dr1) <> []) by (rewrite Ed; discriminate).
      rewrite <- Ed, (Hsame d Hne). apply Hnd.
  Qed.

  (* the instant of the first timer wake-up of a blocked task is not before t *)
  Lemma ev_wake_ge k tk a : nth_error (w_tasks w) k = Some tk -> t_cur tk = Some a -> t <= aw_wake a (t_iv tk).
  Proof.
    intros Hk Hc. pose proof (pe_base _ _ _ _ _ _ _ _ _ HP) as Hbase.
    destruct (Forall2_nth _ _ _ _ _ (b_states _ _ _ _ _ _ Hbase) Hk) as (tk0 & Hk0 & Hst).
    assert (Hi0 : init_ok2 A0 tk0).
    { pose proof (b_init _ _ _ _ _ _ Hbase) as Hall. rewrite Forall_forall in Hall. apply Hall. eapply nth_error_In; exact Hk0. }
    assert (Hm2 : t_mod tk < 2).
    { destruct (tstate_cases _ _ _ _ Hst Hi0) as (E1 & _). rewrite E1. exact (proj1 (proj2 (proj2 (proj2 (proj2 (proj2 Hi0)))))). }
    destruct (pe_drv _ _ _ _ _ _ _ _ _ HP (t_mod tk) Hm2) as (l & _ & [Hmid Hwake] & _ & [Hentry _ _] & _).
    destruct (tstate_blocked _ _ _ _ _ Hst Hi0 Hc) as (st0 & rest0 & _ & _ & _ & _ & _ & Hkind & _ & _ & Hheld & _).
    destruct (aw_wake_held a _ Hkind) as [(smin & Hsmin & Emin) _].
    assert (Hreg : In (sid smin) (ents_at (aw_wake a (t_iv tk)) (pending (drv_of w (t_mod tk))))).
    { rewrite <- Emin. apply (Hentry k tk smin Hk); [rewrite Hheld; exact Hsmin|reflexivity|left; intros []]. }
    assert (Hne : ents_at (aw_wake a (t_iv tk)) (pending (drv_of w (t_mod tk))) <> []) by (intros E; rewrite E in Hreg; contradiction).
    destruct (Hwake _ _ (ents_at_in _ _ Hne) Hne (base_blocked_fin _ _ _ _ _ _ _ _ _ Hbase Hk Hc)) as (w0 & Hw0 & _ & Hw0d).
    pose proof (ev_sched_ge' _ w0 Hm2 Hw0). lia.
  Qed.

  (* the channels at instant t: no message will be sent before t *)
  Lemma ev_arr : Arr A t (w_tasks w) (w_mail w).
  Proof.
    intros m' c. destruct (pe_arr _ _ _ _ _ _ _ _ _ HP m' c) as (EA & F1 & F2). split; [exact EA|]. split.
    - eapply Forall_impl; [|exact F1]. cbn beta. intros a Ha. pose proof (pe_now _ _ _ _ _ _ _ _ _ HP). lia.
    - pose proof (pe_base _ _ _ _ _ _ _ _ _ HP) as Hbase. destruct (pe_msgs _ _ _ _ _ _ _ _ _ HP) as [Mt _ Ma _].
      unfold fsends. apply Forall_forall. intros x Hx. apply in_flat_map in Hx. destruct Hx as (tk & Htk & Hx).
      destruct (t_mod tk =? m') eqn:Em; [|contradiction]. apply In_nth_error in Htk. destruct Htk as (k & Hk).
      unfold on_chan in Hx. apply in_map_iff in Hx. destruct Hx as ([c' x'] & E1 & Hx). cbn [snd] in E1. subst x'.
      apply filter_In in Hx. destruct Hx as [Hx _].
      unfold fut_sends in Hx. destruct (t_cur tk) as [a|] eqn:Ec.
      + (* blocked: its messages come after the instant its await completes, which is not before its first timer wake-up *)
        destruct (Forall2_nth _ _ _ _ _ (b_states _ _ _ _ _ _ Hbase) Hk) as (tk0 & Hk0 & Hst).
        assert (Hi0 : init_ok2 A0 tk0).
        { pose proof (b_init _ _ _ _ _ _ Hbase) as Hall. rewrite Forall_forall in Hall. apply Hall. eapply nth_error_In; exact Hk0. }
        destruct (rcv_of tk0) eqn:Er.
        * pose proof (rcv_no_sends _ _ _ _ Hst Hi0 Er) as Hnil. unfold fut_sends in Hnil. rewrite Ec in Hnil. rewrite Hnil in Hx. contradiction.
        * destruct (tstate_blocked _ _ _ _ _ Hst Hi0 Ec) as (st0 & rest0 & _ & _ & _ & _ & _ & Hkind & _ & _ & _ & _ & _ & _ & H14).
          assert (Hnw : waits_on (Some a) = None).
          { destruct (waits_on (Some a)) as [ch|] eqn:Ew; [|reflexivity]. specialize (H14 ch eq_refl). congruence. }
          pose proof (exp_sends_ge _ _ _ _ _ Hx) as Hge. pose proof (ev_wake_ge k tk a Hk Ec) as Hwg.
          assert (Hew : aw_wake a (t_iv tk) <= aw_end a (t_iv tk) noarr).
          { clear -Hkind Hnw. destruct a as [s|v dl|biased tie sa sb| | | | |rearm d3 s sx|pre s|kr chi cho]; try contradiction; cbn [aw_end aw_wake]; try lia.
            - destruct v; try contradiction; [cbn [aw_end aw_wake]; lia|discriminate].
            - destruct (deadline s <=? deadline sx) eqn:E; lia. }
          lia.
      + destruct (t_fin tk) eqn:Ef; [contradiction|]. pose proof (exp_sends_ge _ _ _ _ _ Hx) as Hge.
        (* unspawned: it starts at t (spawned now) or when its message arrives *)
        destruct (Ma k tk Hk (conj Ec Ef)) as [[Hl|Hs]|(e & He & Ep)].
        * pose proof (pe_later_start _ _ _ _ _ _ _ _ _ HP k tk Hl Hk). lia.
        * destruct (pe_spawn _ _ _ _ _ _ _ _ _ HP k Hs) as (tk' & H1 & _ & _ & H4). rewrite Hk in H1. injection H1 as <-. lia.
        * destruct (Mt e He ltac:(rewrite Ep; unfold msg_of; lia)) as (k' & tk' & E1 & Hk' & _ & E2 & _).
          rewrite Ep in E1. unfold msg_of in E1. assert (k' = k) by lia. subst k'. rewrite Hk in Hk'. injection Hk' as <-.
          pose proof (pe_min _ _ _ _ _ _ _ _ _ HP e He). lia.
  Qed.

  Lemma ev_minv1 : MInv A0 A ts0 t m q0 w1.
  Proof.
    assert (Hf : w_mail w1 = w_mail w /\ w_tasks w1 = w_tasks w /\ w_owner w1 = w_owner w /\ w_nid w1 = w_nid w)
      by (unfold w1, set_drv; destruct (m =? 0); repeat split).
    destruct Hf as (F1 & F2 & F3 & F4). constructor; rewrite ?F1, ?F2, ?F3, ?F4.
    - exact (pe_inert _ _ _ _ _ _ _ _ _ HP).
    - exact ev_arr.
    - exact (pe_base _ _ _ _ _ _ _ _ _ HP).
    - unfold q0, dedup. apply dedup_acc_nodup.
    - exact ev_q0_runnable.
    - unfold w1. rewrite drv_of_set_same. apply activate_mid. exact ev_pre.
    - unfold w1. rewrite drv_of_set_same. exact ev_tie1.
    - intros k tk ch Hk Hw Hne. exfalso. exact (Hne (pe_norecv _ _ _ _ _ _ _ _ _ HP k tk ch Hk Hw)).
  Qed.
End Event.

Lemma deactivate_out dr :
  pending (fst (deactivate true dr)) = prune (pending dr) /\
  scheduled (fst (deactivate true dr)) = scheduled dr ++ match snd (deactivate true dr) with Some x => [x] | None => [] end /\
  (forall x, snd (deactivate true dr) = Some x -> next_wakeup (fst (deactivate true dr)) = Some x).
Proof.
  unfold deactivate, q_next. destruct (front_time (prune (pending dr))) as [d0|]; cbn [fst snd].
  - destruct (earlier d0 (next_wakeup dr)); cbn [fst snd pending scheduled next_wakeup].
    + repeat split. intros x H; injection H as <-; reflexivity.
    + rewrite app_nil_r. repeat split. intros x H; discriminate.
  - cbn [pending scheduled]. rewrite app_nil_r. repeat split. intros x H; discriminate.
Qed.

Lemma mod_other m m' : m < 2 -> m' < 2 -> m' <> m -> (m' =? 0) <> (m =? 0).
Proof. intros H1 H2 H3 E. destruct (m' =? 0) eqn:A, (m =? 0) eqn:B; try discriminate; lia. Qed.

Lemma drv_of_world f n d0 d1 ts nid own mail sn m :
  drv_of {| w_fes := f; w_now := n; w_d0 := d0; w_d1 := d1; w_tasks := ts; w_nid := nid; w_owner := own; w_mail := mail; w_snaps := sn |} m
  = if m =? 0 then d0 else d1.
Proof. reflexivity. Qed.

(* ---- one event re-establishes the boundary invariant ---- *)
Lemma queue_fuel_ok w q : (length q + psends (w_tasks w) <= queue_fuel w q)%nat.
Proof.
  unfold queue_fuel. pose proof (psends_bound (w_tasks w)) as H.
  assert (H1 : forall l, (fold_right (fun tk n => (length (t_steps tk) + n)%nat) 0%nat l <= fold_right (fun tk n => (length (t_steps tk) + n)%nat) 1%nat l)%nat).
  { induction l as [|x l IH]; cbn [fold_right]; lia. }
  specialize (H1 (w_tasks w)). nia.
Qed.

Theorem module_event_winv A0 A ts0 later w t m spawn fire :
  PreEv A0 A ts0 later w t m spawn fire -> exists A', WInv A0 A' ts0 later (module_event true t m spawn fire w).
Proof.
  intros HP.
  pose proof (ev_minv1 A0 A ts0 later w t m spawn fire HP) as Hm1.
  pose proof (ev_sched0 A0 A ts0 later w t m spawn fire HP) as Hs0.
  pose proof (ev_q0_runnable A0 A ts0 later w t m spawn fire HP) as Hq0run.
  pose proof (ev_q0_woken A0 A ts0 later w t m spawn fire HP) as Hq0wk.
  unfold module_event.
  set (dr0 := if fire then sched_fire t (drv_of w m) else drv_of w m) in *.
  pose proof (activate_sched t dr0) as Hsa.
  destruct (activate t dr0) as [wk d1]. cbn [fst snd] in *.
  set (q0 := dedup (flat_map (owner_of (w_owner w)) (flat_map snd wk) ++ spawn)) in *.
  set (w1 := set_drv w m d1) in *.
  destruct (run_queue_frag A0 ts0 t m (queue_fuel w1 q0) q0 A w1 (queue_fuel_ok w1 q0) Hm1) as ((A2 & Hm2) & F1 & F2 & F3 & F4 & F5 & F6 & F7m & F7 & F8).
  destruct (run_queue_drv true (queue_fuel w1 q0) t m q0 w1) as [Hacts _].
  set (w2 := run_queue true (queue_fuel w1 q0) t m q0 w1) in *.
  unfold w1 in Hacts at 1. rewrite drv_of_set_same in Hacts.
  pose proof (acts_sched _ _ _ Hacts) as Hs2.
  destruct (deactivate_out (drv_of w2 m)) as (Dp & Ds & Dn).
  pose proof (deactivate_inv t (drv_of w2 m) (mi_mid _ _ _ _ _ _ _ Hm2)) as Hinv3.
  destruct (deactivate true (drv_of w2 m)) as [dr3 wk'] eqn:Ed. cbn [fst snd] in *.
  (* unchanged parts of the world *)
  assert (W1 : w_fes w1 = w_fes w /\ w_now w1 = w_now w /\ w_tasks w1 = w_tasks w /\
               forall m', (m' =? 0) <> (m =? 0) -> drv_of w1 m' = drv_of w m').
  { unfold w1. repeat split; try (unfold set_drv; destruct (m =? 0); reflexivity). intros m' Hne. apply drv_of_set_other. exact Hne. }
  destruct W1 as (W1a & W1b & W1c & W1d).
  pose proof (pe_m _ _ _ _ _ _ _ _ _ HP) as Hm.
  set (w3 := set_drv w2 m dr3).
  assert (W3 : w_fes w3 = w_fes w /\ w_tasks w3 = w_tasks w2 /\ w_nid w3 = w_nid w2 /\ w_owner w3 = w_owner w2 /\
               w_mail w3 = w_mail w2 /\ drv_of w3 m = dr3 /\ forall m', (m' =? 0) <> (m =? 0) -> drv_of w3 m' = drv_of w m').
  { unfold w3. split; [rewrite <- W1a, <- F1; unfold set_drv; destruct (m =? 0); reflexivity|].
    repeat split; try (unfold set_drv; destruct (m =? 0); reflexivity); [apply drv_of_set_same|].
    intros m' Hne. rewrite (drv_of_set_other _ _ _ _ Hne), (F3 m' Hne). exact (W1d m' Hne). }
  destruct W3 as (W3a & W3b & W3c & W3d & W3e & W3f & W3g).
  (* the new event set *)
  set (fes' := match wk' with Some x => fst (fst (sp_add (w_fes w3) x m)) | None => w_fes w3 end).
  assert (Hfes : SI fes' /\ s_tcur fes' = t /\
                 Permutation (spend fes') (match wk' with Some x => [{| etime := x; eid := s_next (w_fes w); epay := m |}] | None => [] end ++ spend (w_fes w))).
  { unfold fes'. rewrite W3a. destruct wk' as [x|].
    - assert (Hx : t < x). { destruct Hinv3 as [Hmid3 _]. exact (proj1 (mid_nw _ _ Hmid3 x (Dn x eq_refl))). }
      destruct (add_perm (w_fes w) x m) as [P1 P2]; [rewrite (pe_tcur _ _ _ _ _ _ _ _ _ HP); lia|].
      split; [apply SI_add; exact (pe_si _ _ _ _ _ _ _ _ _ HP)|]. split; [rewrite P2; exact (pe_tcur _ _ _ _ _ _ _ _ _ HP)|exact P1].
    - split; [exact (pe_si _ _ _ _ _ _ _ _ _ HP)|]. split; [exact (pe_tcur _ _ _ _ _ _ _ _ _ HP)|apply Permutation_refl]. }
  destruct Hfes as (Hsi' & Htc' & Hperm').
  pose proof (mi_base _ _ _ _ _ _ _ Hm2) as B2. pose proof (pe_base _ _ _ _ _ _ _ _ _ HP) as B0.
  pose proof (b_init _ _ _ _ _ _ B0) as Hinit. rewrite Forall_forall in Hinit.
  (* the module of a task never changes *)
  assert (Hmodsame : forall k tk tk2, nth_error (w_tasks w) k = Some tk -> nth_error (w_tasks w2) k = Some tk2 -> t_mod tk2 = t_mod tk).
  { intros k tk tk2 Hk Hk2.
    destruct (Forall2_nth _ _ _ _ _ (b_states _ _ _ _ _ _ B2) Hk2) as (tk0 & Hk0 & Hst2).
    destruct (Forall2_nth _ _ _ _ _ (b_states _ _ _ _ _ _ B0) Hk) as (tk0' & Hk0' & Hst0).
    rewrite Hk0 in Hk0'. injection Hk0' as <-.
    pose proof (Hinit tk0 (nth_error_In _ _ Hk0)) as Hi.
    destruct (tstate_cases _ _ _ _ Hst2 Hi) as (E2 & _). destruct (tstate_cases _ _ _ _ Hst0 Hi) as (E0 & _). congruence. }
  (* a task of the other module is not touched *)
  assert (Hothertask : forall k tk, nth_error (w_tasks w) k = Some tk -> t_mod tk <> m -> nth_error (w_tasks w2) k = Some tk).
  { intros k tk Hk Hne. apply F4; [rewrite W1c; exact Hk| |right; exact Hne].
    intros Hin. destruct (Hq0run k Hin) as (tkp & Hkp & Hmp & _). rewrite Hk in Hkp. injection Hkp as <-. exact (Hne Hmp). }
  exists A2. constructor; cbn [w_fes w_now w_mail w_tasks w_owner w_nid].
  - exact Hsi'.
  - exact Htc'.
  - rewrite W3e. exact (mi_inert _ _ _ _ _ _ _ Hm2).
  - rewrite W3e, W3b. exact (mi_arr _ _ _ _ _ _ _ Hm2).
  - rewrite W3e, W3b. intros k tk ch Hk Hw.
    destruct (chan (t_mod tk) ch (w_mail w2)) as [|s0 l0] eqn:Ec; [reflexivity|exfalso].
    destruct (mi_recvq _ _ _ _ _ _ _ Hm2 k tk ch Hk Hw ltac:(rewrite Ec; discriminate)) as (_ & [] & _).
  - rewrite W3b, W3c, W3d. exact B2.
  - intros m' Hm'. rewrite drv_of_world. change (if m' =? 0 then w_d0 w3 else w_d1 w3) with (drv_of w3 m').
    rewrite W3b.
    destruct (N.eq_dec m' m) as [->|Hne].
    + rewrite W3f. exists t. split; [lia|]. split; [exact Hinv3|].
      assert (Hex : Snap t dr3).
      { pose proof (deactivate_snap t (drv_of w2 m) (mi_mid _ _ _ _ _ _ _ Hm2)) as Hsn. rewrite Ed in Hsn. exact Hsn. }
      split; [|split; [|exact Hex]].
      * eapply Permutation_trans; [apply wakes_perm; exact Hperm'|]. rewrite Ds, Hs2, Hsa.
        destruct wk' as [x|]; cbn [app]; [|rewrite app_nil_r; exact Hs0].
        rewrite wakes_cons. cbn [epay etime]. rewrite N.eqb_refl.
        eapply Permutation_trans; [apply perm_skip; exact Hs0|apply Permutation_cons_append].
      * destruct (mi_tie _ _ _ _ _ _ _ Hm2) as [He Ht Hnd]. pose proof (mid_sorted _ _ (mi_mid _ _ _ _ _ _ _ Hm2)) as Hsrt.
        constructor.
        -- intros k tk s Hk Hbl Hmm Hq. rewrite Dp. pose proof (He k tk s Hk Hbl Hmm Hq) as Hold.
           rewrite ents_at_prune_keep; [exact Hold|exact Hsrt|]. intros E; rewrite E in Hold; contradiction.
        -- intros d id Hin. rewrite Dp in Hin. exact (Ht d id (ents_at_prune_in _ _ _ Hsrt Hin)).
        -- intros d. rewrite Dp. destruct (ents_at d (prune (pending (drv_of w2 m)))) as [|e0 l0] eqn:Ed0; [constructor|].
           rewrite <- Ed0. rewrite ents_at_prune_keep; [apply Hnd|exact Hsrt|].
           intros E. assert (Hin : In e0 (ents_at d (pending (drv_of w2 m)))) by (apply (ents_at_prune_in _ _ _ Hsrt); rewrite Ed0; left; reflexivity).
           rewrite E in Hin. contradiction.
    + pose proof (mod_other m m' Hm Hm' Hne) as Hoth. rewrite (W3g m' Hoth).
      destruct (pe_drv _ _ _ _ _ _ _ _ _ HP m' Hm') as (l & Hl & Hinv & Hperm & [He Ht Hnd] & Hex).
      exists l. split; [pose proof (pe_now _ _ _ _ _ _ _ _ _ HP); lia|]. split; [exact Hinv|]. split; [|split; [|exact Hex]].
      * eapply Permutation_trans; [apply wakes_perm; exact Hperm'|].
        replace (fire && (m' =? m)) with false in Hperm by (destruct fire; cbn [andb]; [lia|reflexivity]). cbn [app] in Hperm.
        destruct wk' as [x|]; cbn [app]; [|exact Hperm].
        rewrite wakes_cons. cbn [epay]. replace (m =? m') with false by lia. exact Hperm.
      * constructor.
        -- intros k tk s Hk Hbl Hmm Hq.
           (* the task is one of module m': untouched *)
           destruct (nth_error (w_tasks w) k) as [tk1|] eqn:Ek1.
           ++ assert (Hm1' : t_mod tk1 <> m) by (rewrite <- (Hmodsame k tk1 tk Ek1 Hk); lia).
              rewrite (Hothertask k tk1 Ek1 Hm1') in Hk. injection Hk as <-. exact (He k tk1 s Ek1 Hbl Hmm Hq).
           ++ exfalso. apply nth_error_None in Ek1. rewrite <- W1c, <- F5 in Ek1. apply nth_error_None in Ek1. fold w2 in Ek1. congruence.
        -- intros d id Hin. destruct (Ht d id Hin) as (k & tk & s & Hk & Hbl & Hmm & E1 & E2).
           exists k, tk, s. rewrite (Hothertask k tk Hk ltac:(lia)). repeat split; assumption.
        -- exact Hnd.
  - (* the messages *)
    destruct (pe_msgs _ _ _ _ _ _ _ _ _ HP) as [Mt Mn Ma Ml]. rewrite W3b.
    assert (Hnewpay : forall e, In e (match wk' with Some x => [{| etime := x; eid := s_next (w_fes w); epay := m |}] | None => [] end) -> epay e < 2).
    { intros e He. destruct wk'; [destruct He as [<-|[]]; exact Hm|contradiction]. }
    assert (Hin' : forall e, In e (spend fes') -> 2 <= epay e -> In e (spend (w_fes w))).
    { intros e He Hp. pose proof (Permutation_in _ Hperm' He) as H. apply in_app_or in H. destruct H as [H|H]; [|exact H].
      pose proof (Hnewpay e H). lia. }
    assert (Hstill : forall k tk, nth_error (w_tasks w) k = Some tk -> unspawned tk -> ~ In k spawn -> ~ In k q0).
    { intros k tk Hk Hun Hns Hin. unfold q0 in Hin. rewrite dedup_in in Hin. apply in_app_or in Hin. destruct Hin as [Hin|Hin]; [|exact (Hns Hin)].
      destruct (Hq0wk k Hin) as (tk' & a & H1 & H2 & _). rewrite Hk in H1. injection H1 as <-.
      destruct Hun as [Hc _]. rewrite H2 in Hc. discriminate. }
    (* a task that is not spawned in this event stays as it is *)
    assert (Hkeep : forall k tk, nth_error (w_tasks w) k = Some tk -> unspawned tk -> ~ In k q0 -> nth_error (w_tasks w2) k = Some tk).
    { intros k tk Hk Hun Hnq. apply F4; [rewrite W1c; exact Hk|exact Hnq|left; exact (proj1 Hun)]. }
    constructor.
    + intros e He Hp. destruct (Mt e (Hin' e He Hp) Hp) as (k & tk & E1 & Hk & Hun & E2 & E3).
      assert (Hns : ~ In k spawn).
      { intros Hs. exact (pe_spawn_msg _ _ _ _ _ _ _ _ _ HP k e Hs (Hin' e He Hp) E1). }
      exists k, tk. rewrite (Hkeep k tk Hk Hun (Hstill k tk Hk Hun Hns)). split; [exact E1|split; [reflexivity|split; [exact Hun|split; [exact E2|exact E3]]]].
    + eapply Permutation_NoDup; [apply Permutation_sym, perm_filter, Permutation_map; exact Hperm'|].
      rewrite map_app, filter_app.
      replace (filter (fun p => 2 <=? p) (map epay (match wk' with Some x => [{| etime := x; eid := s_next (w_fes w); epay := m |}] | None => [] end))) with (@nil N).
      * exact Mn.
      * destruct wk'; cbn [map filter epay]; [replace (2 <=? m) with false by lia|]; reflexivity.
    + intros k tk Hk Hun.
      destruct (in_dec Nat.eq_dec k q0) as [Hin|Hnq]; [exfalso; exact (F7 k tk Hin Hk Hun)|].
      (* it was unspawned before as well: polls never make a task unspawned *)
      destruct (nth_error (w_tasks w) k) as [tk1|] eqn:Ek1.
      * assert (Hun1 : unspawned tk1).
        { destruct (t_cur tk1) eqn:Ec1; [|destruct (t_fin tk1) eqn:Ef1; [|split; assumption]]; exfalso.
          - apply (F7m k tk1 tk); [rewrite W1c; exact Ek1|exact Hk| |exact Hun]. intros [Hc _]. congruence.
          - apply (F7m k tk1 tk); [rewrite W1c; exact Ek1|exact Hk| |exact Hun]. intros [_ Hf]. congruence. }
        rewrite (Hkeep k tk1 Ek1 Hun1 Hnq) in Hk. injection Hk as <-.
        destruct (Ma k tk1 Ek1 Hun) as [[Hl|Hs]|(e & He & Ep)].
        -- left; exact Hl.
        -- exfalso. apply Hnq. unfold q0. rewrite dedup_in. apply in_or_app. right; exact Hs.
        -- right. exists e. split; [|exact Ep]. eapply Permutation_in; [apply Permutation_sym; exact Hperm'|]. apply in_or_app. right; exact He.
      * exfalso. apply nth_error_None in Ek1. rewrite <- W1c, <- F5 in Ek1. apply nth_error_None in Ek1. fold w2 in Ek1. congruence.
    + intros k Hl. destruct (Ml k (or_introl Hl)) as (tk & Hk & Hun). exists tk. split; [|exact Hun].
      exact (Hkeep k tk Hk Hun (Hstill k tk Hk Hun (pe_later_spawn _ _ _ _ _ _ _ _ _ HP k Hl))).
Qed.

(* ---- progress: the measure 2 * work + number of pending events + stale wake-ups ---- *)
Lemma run_queue_nil wfix fuel t m w : run_queue wfix fuel t m [] w = w.
Proof. destruct fuel; reflexivity. Qed.

Lemma stale_le dr : (stale dr <= 1)%nat.
Proof. unfold stale. destruct (next_wakeup dr); [destruct (ents_at _ _)|]; lia. Qed.

Theorem module_event_measure A0 A ts0 later w t m spawn fire :
  PreEv A0 A ts0 later w t m spawn fire ->
  let w' := module_event true t m spawn fire w in
  (2 * work (w_tasks w') + length (spend (w_fes w')) <= 2 * work (w_tasks w) + length (spend (w_fes w)) + 1)%nat /\
  (fire = true \/ spawn <> [] ->
   (2 * work (w_tasks w') + length (spend (w_fes w')) + stale (drv_of w' m) <=
    2 * work (w_tasks w) + length (spend (w_fes w)) + stale (drv_of w m))%nat) /\
  (forall m', (m' =? 0) <> (m =? 0) -> drv_of w' m' = drv_of w m').
Proof.
  intros HP. cbn zeta.
  pose proof (ev_minv1 A0 A ts0 later w t m spawn fire HP) as Hm1.
  pose proof (ev_woken A0 A ts0 later w t m spawn fire HP) as Hwoken.
  pose proof (ev_pre A0 A ts0 later w t m spawn fire HP) as Hpre.
  destruct (pe_drv _ _ _ _ _ _ _ _ _ HP m (pe_m _ _ _ _ _ _ _ _ _ HP)) as (l & _ & [Hmidl _] & _ & [Hentry0 Htask0 _] & [_ _ _ Hcov]).
  unfold module_event.
  set (dr0 := if fire then sched_fire t (drv_of w m) else drv_of w m) in *.
  assert (Hp0 : pending dr0 = pending (drv_of w m)) by (unfold dr0; destruct fire; reflexivity).
  assert (Hn0 : next_wakeup dr0 = next_wakeup (drv_of w m)) by (unfold dr0; destruct fire; reflexivity).
  pose proof (fun d es => bump_takes_all_due t dr0 d es) as Hdue.
  unfold activate in *. destruct (q_bump t (pending dr0)) as [wk rest] eqn:Eb. cbn [fst snd] in *.
  set (d1 := {| pending := rest; next_wakeup := match next_wakeup dr0 with Some x => if x <=? t then None else Some x | None => None end;
                scheduled := scheduled dr0 |}) in *.
  set (q0 := dedup (flat_map (owner_of (w_owner w)) (flat_map snd wk) ++ spawn)) in *.
  set (w1 := set_drv w m d1) in *.
  destruct (run_queue_frag A0 ts0 t m (queue_fuel w1 q0) q0 A w1 (queue_fuel_ok w1 q0) Hm1) as ((A2 & Hm2) & F1 & F2 & F3 & F4 & F5 & F6 & F7m & F7 & F8).
  assert (W1c : w_tasks w1 = w_tasks w /\ w_fes w1 = w_fes w /\ forall m', (m' =? 0) <> (m =? 0) -> drv_of w1 m' = drv_of w m').
  { unfold w1. split; [unfold set_drv; destruct (m =? 0); reflexivity|]. split; [unfold set_drv; destruct (m =? 0); reflexivity|].
    intros m' Hne. apply drv_of_set_other. exact Hne. }
  destruct W1c as (W1c & W1a & W1d).
  (* the shape of the result *)
  assert (Hres : forall w2, w_tasks w2 = w_tasks (run_queue true (queue_fuel w1 q0) t m q0 w1) -> w_fes w2 = w_fes w ->
     forall wk' fes', fes' = match wk' with Some x => fst (fst (sp_add (w_fes w) x m)) | None => w_fes w end ->
     (match wk' with Some x => t < x | None => True end) ->
     (2 * work (w_tasks w2) + length (spend fes') + 2 * length q0 <= 2 * work (w_tasks w) + length (spend (w_fes w)) + 1)%nat /\
     length (spend fes') = (length (spend (w_fes w)) + match wk' with Some _ => 1 | None => 0 end)%nat).
  { intros w2 E2 E3 wk' fes' -> Hx. rewrite E2. rewrite W1c in F8.
    destruct wk' as [x|]; [|split; lia].
    destruct (add_perm (w_fes w) x m) as [P1 _]; [rewrite (pe_tcur _ _ _ _ _ _ _ _ _ HP); lia|].
    rewrite (Permutation_length P1). cbn [length]. split; lia. }
  set (w2 := run_queue true (queue_fuel w1 q0) t m q0 w1) in *.
  pose proof (deactivate_inv t (drv_of w2 m) (mi_mid _ _ _ _ _ _ _ Hm2)) as Hinv3.
  destruct (deactivate_out (drv_of w2 m)) as (Dp & _ & Dn).
  destruct (deactivate true (drv_of w2 m)) as [dr3 wk'] eqn:Ed. cbn [fst snd] in *.
  assert (Hx : match wk' with Some x => t < x | None => True end).
  { destruct wk' as [x|]; [|exact I]. destruct Hinv3 as [Hmid3 _]. exact (proj1 (mid_nw _ _ Hmid3 x (Dn x eq_refl))). }
  assert (W3 : w_tasks (set_drv w2 m dr3) = w_tasks w2 /\ w_fes (set_drv w2 m dr3) = w_fes w /\ drv_of (set_drv w2 m dr3) m = dr3 /\
               forall m', (m' =? 0) <> (m =? 0) -> drv_of (set_drv w2 m dr3) m' = drv_of w m').
  { split; [unfold set_drv; destruct (m =? 0); reflexivity|]. split; [rewrite <- W1a, <- F1; unfold set_drv; destruct (m =? 0); reflexivity|].
    split; [apply drv_of_set_same|]. intros m' Hne. rewrite (drv_of_set_other _ _ _ _ Hne), (F3 m' Hne). exact (W1d m' Hne). }
  destruct W3 as (W3b & W3a & W3f & W3g).
  rewrite !drv_of_world. cbn [w_tasks w_fes].
  change (if m =? 0 then w_d0 (set_drv w2 m dr3) else w_d1 (set_drv w2 m dr3)) with (drv_of (set_drv w2 m dr3) m).
  rewrite W3b, W3a, W3f.
  destruct (Hres w2 eq_refl (eq_trans F1 W1a) wk' _ eq_refl Hx) as [Hr1 Hr2].
  split; [lia|]. split.
  2:{ intros m' Hne. rewrite drv_of_world. change (if m' =? 0 then w_d0 (set_drv w2 m dr3) else w_d1 (set_drv w2 m dr3)) with (drv_of (set_drv w2 m dr3) m').
      exact (W3g m' Hne). }
  intros Hcase. pose proof (stale_le dr3) as Hst3.
  destruct q0 as [|k0 q0'] eqn:Eq0; [|cbn [length] in Hr1; lia].
  (* nothing was woken, nothing spawned: the event is a wake-up, and every popped slot is empty *)
  assert (Hq0def : dedup (flat_map (owner_of (w_owner w)) (flat_map snd wk) ++ spawn) = []) by exact Eq0.
  assert (Hfire : fire = true).
  { destruct Hcase as [H|H]; [exact H|]. exfalso. destruct spawn as [|k sp]; [contradiction H; reflexivity|].
    assert (Hin : In k []) by (rewrite <- Hq0def; rewrite dedup_in; apply in_or_app; right; left; reflexivity). contradiction. }
  assert (Hwkempty : forall d es, In (d, es) wk -> es = []).
  { intros d es Hin. destruct es as [|id es]; [reflexivity|exfalso].
    destruct (Hwoken d (id :: es) id Hin (or_introl eq_refl)) as (k & tkx & ax & sx & _ & _ & _ & _ & _ & _ & _ & _ & Hwk).
    assert (Hk : In k []).
    { rewrite <- Hq0def. rewrite dedup_in. apply in_or_app. left. apply in_flat_map. exists id. split.
      - apply in_flat_map. exists (d, id :: es). split; [exact Hin|left; reflexivity].
      - unfold owner_of. rewrite Hwk. left; reflexivity. }
    contradiction. }
  destruct (q_bump_spec _ _ _ _ Eb) as (Hp & Hwkle & _).
  unfold w2 in Ed. rewrite run_queue_nil in Ed. unfold w1 in Ed. rewrite drv_of_set_same in Ed.
  assert (Hw2 : work (w_tasks w2) = work (w_tasks w)) by (unfold w2; rewrite run_queue_nil, W1c; reflexivity).
  assert (Hs0 : sorted (pending dr0)) by (rewrite Hp0; exact (mid_sorted _ _ Hmidl)).
  assert (Hsrest : sorted rest) by (rewrite Hp in Hs0; exact (sorted_app_r _ _ Hs0)).
  (* a live slot of the old queue is still there *)
  assert (Hlive_rest : forall d es, In (d, es) (pending (drv_of w m)) -> es <> [] -> In (d, es) rest).
  { intros d es Hin Hne. rewrite <- Hp0, Hp in Hin. apply in_app_or in Hin. destruct Hin as [Hin|Hin]; [|exact Hin].
    rewrite (Hwkempty d es Hin) in Hne. contradiction. }
  assert (Hrest_in : forall s0, In s0 rest -> In s0 (pending (drv_of w m))).
  { intros s0 Hin. rewrite <- Hp0, Hp. apply in_or_app. right; exact Hin. }
  (* the front live slot of what is left has a finite deadline: it is the wake-up slot of a blocked task *)
  assert (Hfin0 : forall d0 es0 r, prune rest = (d0, es0) :: r -> d0 < TMAX).
  { intros d0 es0 r Epr. pose proof (prune_head_live _ _ _ _ Epr) as Hne0.
    assert (Hin0 : In (d0, es0) (pending (drv_of w m))) by (apply Hrest_in, prune_in; rewrite Epr; left; reflexivity).
    destruct es0 as [|id0 es0']; [contradiction Hne0; reflexivity|].
    assert (Hid0 : In id0 (ents_at d0 (pending (drv_of w m)))) by (rewrite (in_ents_at _ _ _ (mid_sorted _ _ Hmidl) Hin0); left; reflexivity).
    destruct (Htask0 d0 id0 Hid0) as (k0 & tk0 & s0 & Hk0 & Hs0' & Hm0 & _ & E0).
    pose proof (pe_base _ _ _ _ _ _ _ _ _ HP) as Hbase.
    destruct (Forall2_nth _ _ _ _ _ (b_states _ _ _ _ _ _ Hbase) Hk0) as (tki & Hki & Hsti).
    assert (Hii : init_ok2 A0 tki).
    { pose proof (b_init _ _ _ _ _ _ Hbase) as Hall. rewrite Forall_forall in Hall. apply Hall. eapply nth_error_In; exact Hki. }
    destruct (held_blocked _ _ _ _ _ Hsti Hii Hs0') as (a0 & Hc0 & Hkind0 & Hsa0 & _ & _ & Hheld0).
    destruct (aw_wake_held a0 _ Hkind0) as [(smin & Hsmin & Emin) Hge].
    pose proof (base_blocked_fin _ _ _ _ _ _ _ _ _ Hbase Hk0 Hc0) as Hfinw.
    pose proof (Hge s0 Hsa0) as Hwd. rewrite E0 in Hwd.
    assert (Hreg : In (sid smin) (ents_at (aw_wake a0 (t_iv tk0)) (pending (drv_of w m)))).
    { rewrite <- Emin. apply (Hentry0 k0 tk0 smin Hk0); [rewrite Hheld0; exact Hsmin|exact Hm0|left; intros []]. }
    assert (Hnew : ents_at (aw_wake a0 (t_iv tk0)) (pending (drv_of w m)) <> []) by (intros E; rewrite E in Hreg; contradiction).
    pose proof (prune_keeps_live _ _ _ (Hlive_rest _ _ (ents_at_in _ _ Hnew) Hnew) Hnew) as Hinp.
    rewrite Epr in Hinp. destruct Hinp as [Hinp|Hinp]; [injection Hinp as -> _; exact Hfinw|].
    assert (Hsp : sorted (prune rest)) by (apply prune_sorted; exact Hsrest).
    rewrite Epr in Hsp. pose proof (sorted_head_lt _ _ _ Hsp Hinp) as Hlt. cbn [fst] in Hlt. lia. }
  (* the slot at x in what is left holds what the slot at x held before, for x > t *)
  assert (Hsame : forall x, t < x -> ents_at x rest = ents_at x (pending (drv_of w m))).
  { intros x Hlt. destruct (ents_at x (pending (drv_of w m))) as [|e0 l0] eqn:Ex.
    - destruct (ents_at x rest) as [|e1 l1] eqn:Er; [reflexivity|exfalso].
      assert (Hne : ents_at x rest <> []) by (rewrite Er; discriminate).
      pose proof (Hrest_in _ (ents_at_in _ _ Hne)) as Hin. rewrite (in_ents_at _ _ _ (mid_sorted _ _ Hmidl) Hin) in Ex. congruence.
    - assert (Hne : ents_at x (pending (drv_of w m)) <> []) by (rewrite Ex; discriminate).
      pose proof (Hlive_rest _ _ (ents_at_in _ _ Hne) Hne) as Hin. rewrite Ex in Hin. exact (in_ents_at _ _ _ Hsrest Hin). }
  assert (Hkey : ((match wk' with Some _ => 1 | None => 0 end) + stale dr3 <= stale (drv_of w m))%nat).
  { revert Ed. unfold deactivate, q_next. cbn [d1 pending next_wakeup]. rewrite Hn0.
    destruct (next_wakeup (drv_of w m)) as [x|] eqn:Enw.
    - destruct (x <=? t) eqn:Ext.
      + (* the wake-up that fired was next_wakeup: its slot was empty -- a stale wake-up *)
        assert (Hst0 : stale (drv_of w m) = 1%nat).
        { unfold stale. rewrite Enw. destruct (ents_at x (pending (drv_of w m))) as [|e0 l0] eqn:Ex; [reflexivity|exfalso].
          assert (Hne : ents_at x (pending (drv_of w m)) <> []) by (rewrite Ex; discriminate).
          pose proof (ents_at_in _ _ Hne) as Hin. rewrite <- Hp0 in Hin.
          pose proof (Hdue _ _ Hs0 Hin ltac:(lia)) as Hwk. pose proof (Hwkempty _ _ Hwk) as He0. rewrite Hp0 in He0. exact (Hne He0). }
        rewrite Hst0.
        destruct (prune rest) as [|[d0 es0] r] eqn:Epr; cbn [front_time].
        * intros H. injection H as <- <-. unfold stale. cbn [next_wakeup]. lia.
        * unfold earlier. destruct (d0 <? TMAX) eqn:Ef.
          -- intros H. injection H as <- <-. unfold stale. cbn [next_wakeup pending ents_at]. rewrite N.eqb_refl.
             pose proof (prune_head_live _ _ _ _ Epr) as Hne0. destruct es0; [contradiction Hne0; reflexivity|]. lia.
          -- intros H. injection H as <- <-. unfold stale. cbn [next_wakeup]. lia.
      + (* next_wakeup lies ahead: nothing is scheduled, and its slot is as live as before *)
        assert (Hxx : ents_at x (prune rest) = [] <-> ents_at x (pending (drv_of w m)) = []).
        { rewrite <- (Hsame x ltac:(lia)). split.
          - intros E. destruct (ents_at x rest) as [|e1 l1] eqn:Er; [reflexivity|].
            exfalso. assert (Hne : ents_at x rest <> []) by (rewrite Er; discriminate). rewrite (ents_at_prune_keep _ _ Hsrest Hne), Er in E. discriminate.
          - intros E. destruct (ents_at x (prune rest)) as [|e1 l1] eqn:Er; [reflexivity|].
            assert (Hin1 : In e1 (ents_at x rest)) by (apply (ents_at_prune_in _ _ _ Hsrest); rewrite Er; left; reflexivity). rewrite E in Hin1. contradiction. }
        assert (Hstx : stale {| pending := prune rest; next_wakeup := Some x; scheduled := scheduled dr0 |} = stale (drv_of w m)).
        { unfold stale. cbn [next_wakeup pending]. rewrite Enw.
          destruct (ents_at x (prune rest)) as [|e1 l1]; destruct (ents_at x (pending (drv_of w m))) as [|e2 l2]; try reflexivity.
          - discriminate (proj1 Hxx eq_refl).
          - discriminate (proj2 Hxx eq_refl). }
        destruct (prune rest) as [|[d0 es0] r] eqn:Epr; cbn [front_time].
        * intros H. injection H as <- <-. rewrite Hstx. lia.
        * assert (Hin0 : In (d0, es0) (pending (drv_of w m))) by (apply Hrest_in, prune_in; rewrite Epr; left; reflexivity).
          destruct (Hcov d0 es0 Hin0 (prune_head_live _ _ _ _ Epr) (Hfin0 _ _ _ eq_refl)) as (x' & Hx' & _ & _ & Hxd).
          rewrite ?Enw in Hx'. injection Hx' as <-. unfold earlier. replace (d0 <? x) with false by lia.
          intros H. injection H as <- <-. rewrite Hstx. lia.
    - (* no wake-up was outstanding: no finite timer is live, nothing is scheduled *)
      destruct (prune rest) as [|[d0 es0] r] eqn:Epr; cbn [front_time].
      + intros H. injection H as <- <-. unfold stale. cbn [next_wakeup]. lia.
      + assert (Hin0 : In (d0, es0) (pending (drv_of w m))) by (apply Hrest_in, prune_in; rewrite Epr; left; reflexivity).
        destruct (Hcov d0 es0 Hin0 (prune_head_live _ _ _ _ Epr) (Hfin0 _ _ _ eq_refl)) as (x' & Hx' & _). rewrite ?Enw in Hx'. discriminate. }
  rewrite Hr2, Hw2. lia.
Qed.
