(* End-to-end argument, fragment {sleep, sleep_until, log}: one event of the composite model
   (activate, the executor's run, deactivate, the wake-up put into the event set)
   re-establishes the boundary invariant. *)
From Coq Require Import List Arith NArith Bool Lia Sorting.Sorted Permutation ZifyBool.
From DesVerif Require Import CQueue.Model CQueue.Spec CQueue.SpecProps Timer.Driver Timer.QueueLemmas Timer.Inv Timer.Exact
  Timer.Futures Timer.FutureLaws Timer.Model Timer.Compose Timer.EvSet Timer.Frag Timer.E2EInv Timer.E2EPoll.
Import ListNotations.
Open Scope N_scope.

(* ---- the queue of woken / spawned tasks ---- *)
Lemma existsb_eqb x l : existsb (Nat.eqb x) l = true <-> In x l.
Proof.
  rewrite existsb_exists. split.
  - intros (y & Hy & E). apply Nat.eqb_eq in E. subst y. exact Hy.
  - intros H. exists x. split; [exact H|apply Nat.eqb_refl].
Qed.

Lemma dedup_acc_in seen l x : In x (dedup_acc seen l) <-> In x l /\ ~ In x seen.
Proof.
  revert seen; induction l as [|a r IH]; intros seen; cbn [dedup_acc]; [split; [intros []|intros [[] _]]|].
  destruct (existsb (Nat.eqb a) seen) eqn:E.
  - apply existsb_eqb in E. rewrite IH. split.
    + intros [H1 H2]. split; [right; exact H1|exact H2].
    + intros [[->|H1] H2]; [contradiction|split; assumption].
  - assert (Ha : ~ In a seen) by (intros H; apply existsb_eqb in H; rewrite H in E; discriminate).
    cbn [In]. rewrite IH. split.
    + intros [<-|[H1 H2]]; [split; [left; reflexivity|exact Ha]|].
      split; [right; exact H1|intros H; apply H2; right; exact H].
    + intros [[->|H1] H2]; [left; reflexivity|].
      destruct (Nat.eq_dec a x) as [->|Hne]; [left; reflexivity|right].
      split; [exact H1|intros [E'|H]; [exact (Hne E')|exact (H2 H)]].
Qed.

Lemma dedup_acc_nodup seen l : NoDup (dedup_acc seen l).
Proof.
  revert seen; induction l as [|a r IH]; intros seen; cbn [dedup_acc]; [constructor|].
  destruct (existsb (Nat.eqb a) seen); [apply IH|]. constructor; [|apply IH].
  rewrite dedup_acc_in. intros [_ H]. apply H. left; reflexivity.
Qed.

Lemma dedup_in l x : In x (dedup l) <-> In x l.
Proof. unfold dedup. rewrite dedup_acc_in. split; [intros [H _]; exact H|intros H; split; [exact H|intros []]]. Qed.

(* ---- the parts of the driver that the tasks never touch ---- *)
Lemma apply_ops_rest ops : forall dr, next_wakeup (apply_ops ops dr) = next_wakeup dr /\ scheduled (apply_ops ops dr) = scheduled dr.
Proof.
  unfold apply_ops. induction ops as [|o r IH]; intros dr; cbn [fold_left]; [split; reflexivity|].
  destruct (IH (apply_op dr o)) as [H1 H2]. destruct (apply_op_rest dr o) as [E1 E2]. rewrite H1, H2, E1, E2. split; reflexivity.
Qed.

Lemma acts_sched t dr dr' : acts t dr dr' -> scheduled dr' = scheduled dr.
Proof. intros (ops & _ & ->). exact (proj2 (apply_ops_rest ops dr)). Qed.

Lemma activate_sched t dr : scheduled (snd (activate t dr)) = scheduled dr.
Proof. unfold activate. destruct (q_bump t (pending dr)). reflexivity. Qed.

Lemma ents_at_prune_keep d p : sorted p -> ents_at d p <> [] -> ents_at d (prune p) = ents_at d p.
Proof.
  intros Hs Hne. apply in_ents_at; [apply prune_sorted; exact Hs|].
  apply prune_keeps_live; [apply ents_at_in; exact Hne|exact Hne].
Qed.

Lemma ents_at_prune_in d p id : sorted p -> In id (ents_at d (prune p)) -> In id (ents_at d p).
Proof.
  intros Hs Hin. assert (Hne : ents_at d (prune p) <> []) by (intros E; rewrite E in Hin; contradiction).
  pose proof (prune_in _ _ (ents_at_in _ _ Hne)) as H. rewrite (in_ents_at _ _ _ Hs H). exact Hin.
Qed.

(* ---- the state in which an event of module m at instant t begins ---- *)
Record PreEv (ts0 : list task) (later : nat -> Prop) (w : world) (t m : N) (spawn : list nat) (fire : bool) : Prop := {
  pe_si : SI (w_fes w);
  pe_tcur : s_tcur (w_fes w) = t;
  pe_now : w_now w <= t;
  pe_min : forall e, In e (spend (w_fes w)) -> t <= etime e;
  pe_mail : w_mail w = [];
  pe_base : Base ts0 (w_tasks w) (w_owner w) (w_nid w);
  pe_m : m < 2;
  pe_drv : forall m', m' < 2 -> exists l, l <= w_now w /\ Inv l (drv_of w m') /\
           Permutation ((if fire && (m' =? m) then [t] else []) ++ wakes m' (spend (w_fes w))) (scheduled (drv_of w m')) /\
           Tie (w_tasks w) (w_owner w) (w_nid w) [] m' (drv_of w m');
  pe_spawn_nd : NoDup spawn;
  pe_spawn : forall k, In k spawn -> exists tk, nth_error (w_tasks w) k = Some tk /\ unspawned tk /\ t_mod tk = m /\ t_start tk = t;
  pe_spawn_msg : forall k e, In k spawn -> In e (spend (w_fes w)) -> epay e <> msg_of k;
  pe_msgs : Msgs (w_tasks w) (spend (w_fes w)) (fun k => later k \/ In k spawn) }.

Section Event.
  Variables (ts0 : list task) (later : nat -> Prop) (w : world) (t m : N) (spawn : list nat) (fire : bool).
  Hypothesis HP : PreEv ts0 later w t m spawn fire.

  Let dr0 := if fire then sched_fire t (drv_of w m) else drv_of w m.

  Lemma ev_pending0 : pending dr0 = pending (drv_of w m).
  Proof. unfold dr0. destruct fire; reflexivity. Qed.

  (* the scheduled wake-ups of module m lie at or after t; the fired one is the earliest *)
  Lemma ev_sched_ge x : In x (scheduled (drv_of w m)) -> t <= x.
  Proof.
    intros Hx. destruct (pe_drv _ _ _ _ _ _ _ HP m (pe_m _ _ _ _ _ _ _ HP)) as (l & _ & _ & Hperm & _).
    apply Permutation_sym in Hperm. pose proof (Permutation_in _ Hperm Hx) as H. apply in_app_or in H.
    destruct H as [H|H].
    - destruct (fire && (m =? m)); [destruct H as [<-|[]]; lia|contradiction].
    - apply wakes_in in H. destruct H as (e & He & _ & <-). exact (pe_min _ _ _ _ _ _ _ HP e He).
  Qed.

  Lemma ev_pre : Pre t dr0.
  Proof.
    destruct (pe_drv _ _ _ _ _ _ _ HP m (pe_m _ _ _ _ _ _ _ HP)) as (l & _ & Hinv & Hperm & _).
    pose proof ev_sched_ge as Hge.
    unfold dr0. destruct fire.
    - apply (inv_pre_wake l). exact Hinv. apply lmin_of_min; [|exact Hge].
      eapply Permutation_in; [exact Hperm|]. rewrite N.eqb_refl. left; reflexivity.
    - apply (inv_pre_other l); [exact Hinv|exact Hge].
  Qed.

  Lemma ev_sched0 : Permutation (wakes m (spend (w_fes w))) (scheduled dr0).
  Proof.
    destruct (pe_drv _ _ _ _ _ _ _ HP m (pe_m _ _ _ _ _ _ _ HP)) as (l & _ & _ & Hperm & _).
    unfold dr0. destruct fire; cbn [andb] in Hperm.
    - rewrite N.eqb_refl in Hperm. cbn [app sched_fire scheduled] in *. apply perm_remove1. exact Hperm.
    - exact Hperm.
  Qed.

  (* every entry that activation pops belongs to a task of module m whose deadline is exactly t *)
  Lemma ev_woken d es id : In (d, es) (fst (activate t dr0)) -> In id es ->
    exists k tk s, nth_error (w_tasks w) k = Some tk /\ blocked_sleep tk = Some s /\ t_mod tk = m /\
                   sid s = id /\ deadline s = t /\ waker_of (w_owner w) id = Some k.
  Proof.
    intros Hin Hid.
    destruct (pe_drv _ _ _ _ _ _ _ HP m (pe_m _ _ _ _ _ _ _ HP)) as (l & _ & [Hmid Hwake] & _ & [_ Htask]).
    pose proof (never_early t dr0 d es Hin) as Hle.
    assert (Hp : In (d, es) (pending (drv_of w m))).
    { rewrite <- ev_pending0. unfold activate in Hin. destruct (q_bump t (pending dr0)) as [wk rest] eqn:Eb. cbn [fst] in Hin.
      destruct (q_bump_spec _ _ _ _ Eb) as (-> & _). apply in_or_app. left; exact Hin. }
    assert (Hne : es <> []) by (intros E; rewrite E in Hid; contradiction).
    destruct (Hwake d es Hp Hne) as (w0 & Hw0 & _ & Hw0d). pose proof (ev_sched_ge w0 Hw0) as Htw.
    assert (Hid' : In id (ents_at d (pending (drv_of w m)))) by (rewrite (in_ents_at _ _ _ (mid_sorted _ _ Hmid) Hp); exact Hid).
    destruct (Htask d id Hid') as (k & tk & s & Hk & Hbl & Hm & _ & E1 & E2).
    exists k, tk, s. repeat split; try assumption; [lia|].
    rewrite <- E1. exact (proj2 (b_ids _ _ _ _ (pe_base _ _ _ _ _ _ _ HP) k tk s Hk Hbl)).
  Qed.

  Let woken := fst (activate t dr0).
  Let dr1 := snd (activate t dr0).
  Let q0 := dedup (flat_map (owner_of (w_owner w)) (flat_map snd woken) ++ spawn).
  Let w1 := set_drv w m dr1.

  Lemma ev_q0_woken k : In k (flat_map (owner_of (w_owner w)) (flat_map snd woken)) ->
    exists tk s, nth_error (w_tasks w) k = Some tk /\ blocked_sleep tk = Some s /\ t_mod tk = m /\ deadline s = t.
  Proof.
    intros H. apply in_flat_map in H. destruct H as (id & Hid & Hk). apply in_flat_map in Hid.
    destruct Hid as ([d es] & Hsl & Hes). cbn [snd] in Hes.
    destruct (ev_woken d es id Hsl Hes) as (k' & tk & s & H1 & H2 & H3 & H4 & H5 & H6).
    unfold owner_of in Hk. rewrite H6 in Hk. destruct Hk as [<-|[]]. exists tk, s. repeat split; assumption.
  Qed.

  Lemma ev_q0_runnable k : In k q0 -> runnable (w_tasks w) t m k.
  Proof.
    unfold q0. rewrite dedup_in. intros H. apply in_app_or in H. destruct H as [H|H].
    - destruct (ev_q0_woken k H) as (tk & s & H1 & H2 & H3 & H4). exists tk. split; [exact H1|]. split; [exact H3|].
      right. exists s. split; assumption.
    - destruct (pe_spawn _ _ _ _ _ _ _ HP k H) as (tk & H1 & H2 & H3 & H4). exists tk. split; [exact H1|]. split; [exact H3|].
      left. split; assumption.
  Qed.

  Lemma ev_tie1 : Tie (w_tasks w) (w_owner w) (w_nid w) q0 m dr1.
  Proof.
    destruct (pe_drv _ _ _ _ _ _ _ HP m (pe_m _ _ _ _ _ _ _ HP)) as (l & _ & [Hmid _] & _ & [Hentry Htask]).
    pose proof (mid_sorted _ _ Hmid) as Hs.
    assert (Hmid1 : Mid t dr1) by (apply activate_mid; exact ev_pre).
    constructor.
    - intros k tk s Hk Hbl Hm Hq.
      pose proof (Hentry k tk s Hk Hbl Hm (fun F => F)) as Hold.
      assert (Hne : ents_at (deadline s) (pending (drv_of w m)) <> []) by (intros E; rewrite E in Hold; contradiction).
      set (E := ents_at (deadline s) (pending (drv_of w m))) in *.
      assert (Hin : In (deadline s, E) (pending dr0)) by (rewrite ev_pending0; apply ents_at_in; exact Hne).
      destruct (N.le_gt_cases (deadline s) t) as [Hle|Hgt].
      + exfalso. apply Hq. unfold q0. rewrite dedup_in. apply in_or_app. left.
        apply in_flat_map. exists (sid s). split.
        * apply in_flat_map. exists (deadline s, E). split; [|exact Hold].
          unfold woken. apply bump_takes_all_due; [rewrite ev_pending0; exact Hs|exact Hin|exact Hle].
        * unfold owner_of. rewrite (proj2 (b_ids _ _ _ _ (pe_base _ _ _ _ _ _ _ HP) k tk s Hk Hbl)). left; reflexivity.
      + pose proof (activate_keeps_future t dr0 _ _ Hin Hgt) as Hk1. fold dr1 in Hk1.
        rewrite (in_ents_at _ _ _ (mid_sorted _ _ Hmid1) Hk1). exact Hold.
    - intros d id Hin.
      assert (Hne : ents_at d (pending dr1) <> []) by (intros E; rewrite E in Hin; contradiction).
      pose proof (ents_at_in _ _ Hne) as Hsl.
      assert (Hd : t < d) by (exact (mid_future _ _ Hmid1 d _ Hsl Hne)).
      set (Ed := ents_at d (pending dr1)) in *.
      assert (Hp : In (d, Ed) (pending (drv_of w m))).
      { rewrite <- ev_pending0. clearbody Ed. unfold dr1, activate in Hsl. destruct (q_bump t (pending dr0)) as [wk rest] eqn:Eb. cbn [snd pending] in Hsl.
        destruct (q_bump_spec _ _ _ _ Eb) as (-> & _). apply in_or_app. right; exact Hsl. }
      assert (Hid' : In id (ents_at d (pending (drv_of w m)))) by (rewrite (in_ents_at _ _ _ Hs Hp); exact Hin).
      destruct (Htask d id Hid') as (k & tk & s & Hk & Hbl & Hm & _ & E1 & E2).
      exists k, tk, s. repeat split; try assumption.
      intros Hq. unfold q0 in Hq. rewrite dedup_in in Hq. apply in_app_or in Hq. destruct Hq as [Hq|Hq].
      + destruct (ev_q0_woken k Hq) as (tk' & s' & H1 & H2 & _ & H4). rewrite Hk in H1. injection H1 as <-.
        rewrite Hbl in H2. injection H2 as <-. lia.
      + destruct (pe_spawn _ _ _ _ _ _ _ HP k Hq) as (tk' & H1 & [Hc _] & _). rewrite Hk in H1. injection H1 as <-.
        rewrite (blocked_sleep_cur _ _ Hbl) in Hc. discriminate.
  Qed.

  Lemma ev_minv1 : MInv ts0 t m q0 w1.
  Proof.
    assert (Hf : w_mail w1 = w_mail w /\ w_tasks w1 = w_tasks w /\ w_owner w1 = w_owner w /\ w_nid w1 = w_nid w)
      by (unfold w1, set_drv; destruct (m =? 0); repeat split).
    destruct Hf as (F1 & F2 & F3 & F4). constructor; rewrite ?F1, ?F2, ?F3, ?F4.
    - exact (pe_mail _ _ _ _ _ _ _ HP).
    - exact (pe_base _ _ _ _ _ _ _ HP).
    - unfold q0, dedup. apply dedup_acc_nodup.
    - exact ev_q0_runnable.
    - unfold w1. rewrite drv_of_set_same. apply activate_mid. exact ev_pre.
    - unfold w1. rewrite drv_of_set_same. exact ev_tie1.
  Qed.
End Event.
