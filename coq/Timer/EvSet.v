(* What the end-to-end argument about the composite model needs of the future event set
   (coq/CQueue/Spec.v, invariant SI of coq/CQueue/SpecProps.v): fetch returns a pending
   event of minimal time and makes that time current; add inserts one event. *)
From Coq Require Import List NArith Bool Lia Sorting.Sorted Permutation ZifyBool.
From DesVerif Require Import CQueue.Model CQueue.Spec CQueue.ListX CQueue.SpecProps Timer.Driver Timer.QueueLemmas.
Import ListNotations.
Open Scope N_scope.

(* times of the pending events that carry payload m *)
Definition wakes (m : N) (l : list ev) : list N := map etime (filter (fun e => epay e =? m) l).

Lemma perm_filter {A} (f : A -> bool) l l' : Permutation l l' -> Permutation (filter f l) (filter f l').
Proof.
  induction 1 as [|x l l' _ IH|x y l|l l' l'' _ IH1 _ IH2]; cbn [filter].
  - constructor.
  - destruct (f x); [constructor|]; exact IH.
  - destruct (f x), (f y); try apply Permutation_refl. apply perm_swap.
  - eapply Permutation_trans; eassumption.
Qed.

Lemma wakes_perm m l l' : Permutation l l' -> Permutation (wakes m l) (wakes m l').
Proof. intros H. unfold wakes. apply Permutation_map, perm_filter, H. Qed.

Lemma wakes_cons m e l : wakes m (e :: l) = if epay e =? m then etime e :: wakes m l else wakes m l.
Proof. unfold wakes. cbn [filter]. destruct (epay e =? m); reflexivity. Qed.

Lemma wakes_in m l t : In t (wakes m l) <-> exists e, In e l /\ epay e = m /\ etime e = t.
Proof.
  unfold wakes. rewrite in_map_iff. split.
  - intros (e & He & Hin). apply filter_In in Hin. destruct Hin as [Hin Hp]. exists e. repeat split; [exact Hin|lia|exact He].
  - intros (e & Hin & Hp & He). exists e. split; [exact He|]. apply filter_In. split; [exact Hin|lia].
Qed.

Lemma fetch_some s : SI s -> spend s <> [] ->
  exists x s', sp_fetch s = (s', OFetched (epay x) (etime x)) /\ spend s = x :: spend s' /\
               s_tcur s' = etime x /\ s_tcur s <= etime x /\ (forall e, In e (spend s') -> etime x <= etime e).
Proof.
  intros [Hs Hz Hr Hi Hn] Hne. unfold sp_fetch, spend in *.
  destruct (s_zero s) as [|x z] eqn:Ez.
  - destruct (s_rest s) as [|x r] eqn:Er; [contradiction Hne; reflexivity|].
    exists x, {| s_tcur := etime x; s_zero := []; s_rest := r; s_next := s_next s |}.
    cbn [s_zero s_rest s_tcur app]. split; [reflexivity|]. split; [reflexivity|]. split; [reflexivity|].
    split; [apply Hr; left; reflexivity|].
    intros e He. unfold key_sorted in Hs. inversion Hs as [|? ? _ Hall]; subst. rewrite Forall_forall in Hall.
    specialize (Hall e He). unfold key_lt in Hall. lia.
  - exists x, {| s_tcur := s_tcur s; s_zero := z; s_rest := s_rest s; s_next := s_next s |}.
    cbn [s_zero s_rest s_tcur app]. assert (Hx : etime x = s_tcur s) by (apply Hz; left; reflexivity).
    split; [reflexivity|]. split; [reflexivity|]. split; [symmetry; exact Hx|]. split; [lia|].
    intros e He. apply in_app_or in He. destruct He as [He|He].
    + rewrite (Hz e (or_intror He)). lia.
    + specialize (Hr e He). lia.
Qed.

Lemma fetch_none s : spend s = [] -> sp_fetch s = (s, OPanic 2).
Proof.
  unfold spend, sp_fetch. intros H. apply app_eq_nil in H. destruct H as [-> ->]. reflexivity.
Qed.

Lemma add_perm s t p : s_tcur s <= t ->
  let s' := fst (fst (sp_add s t p)) in
  Permutation (spend s') ({| etime := t; eid := s_next s; epay := p |} :: spend s) /\ s_tcur s' = s_tcur s.
Proof.
  intros Ht. cbn zeta. unfold sp_add. replace (t <? s_tcur s) with false by lia.
  destruct (t =? s_tcur s); cbn [fst]; (split; [|reflexivity]); unfold spend; cbn [s_zero s_rest].
  - rewrite <- app_assoc. cbn [app]. symmetry. apply Permutation_middle.
  - eapply Permutation_trans; [apply Permutation_app_head, sins_perm|]. symmetry. apply Permutation_middle.
Qed.

(* ---- the scheduled wake-ups of a driver as a multiset ---- *)
Lemma remove1_perm t l : In t l -> Permutation l (t :: remove1 t l).
Proof.
  induction l as [|a r IH]; [contradiction|]. cbn [remove1]. intros [->|H].
  - rewrite N.eqb_refl. apply Permutation_refl.
  - destruct (a =? t) eqn:E; [replace a with t by lia; apply Permutation_refl|].
    eapply Permutation_trans; [apply perm_skip, IH, H|apply perm_swap].
Qed.

Lemma perm_remove1 t l l2 : Permutation (t :: l) l2 -> Permutation l (remove1 t l2).
Proof.
  intros H. assert (Hin : In t l2) by (eapply Permutation_in; [exact H|left; reflexivity]).
  apply Permutation_cons_inv with (a := t). eapply Permutation_trans; [exact H|apply remove1_perm, Hin].
Qed.

Lemma lmin_of_min t l : In t l -> (forall x, In x l -> t <= x) -> lmin l = Some t.
Proof.
  intros Hin Hmin. destruct (lmin l) as [m|] eqn:E.
  - destruct (lmin_spec l m E) as [Hm Hle]. f_equal. specialize (Hmin m Hm). specialize (Hle t Hin). lia.
  - destruct l; [contradiction|]. cbn [lmin] in E. destruct (lmin l); discriminate.
Qed.
