(* The structural byte length of std values is the sum over the elements
   (collections, arrays, maps, tuples) resp. the payload of the active variant
   (Option, Result, Box), independent of element order; and it is what a
   message built from such a value measures. *)
From Coq Require Import List NArith Bool Arith Lia ZifyBool Permutation.
From DesVerif Require Import Body.Derive Body.StdLen Body.Model Body.Heap Body.Inv Body.Step Body.Props Body.Frame Body.Main.
Import ListNotations.
Open Scope N_scope.

Lemma fold_left_add {A} (f : A -> N) xs : forall a, fold_left (fun acc x => acc + f x) xs a = a + sum (map f xs).
Proof.
  induction xs as [|x r IH]; intros a; cbn [fold_left map]; unfold sum in *; cbn [fold_right]; [lia|].
  rewrite IH. lia.
Qed.

(* arrays, Vec, VecDeque, LinkedList, slices, sets, heaps: the sum of ALL elements' byte lengths *)
Theorem seq_len_is_sum k xs : std_byte_len (VSeq k xs) = sum (map std_byte_len xs).
Proof. cbn [std_byte_len]. rewrite fold_left_add. lia. Qed.

Theorem array_len_is_sum xs : std_byte_len (VSeq CArray xs) = sum (map std_byte_len xs).
Proof. apply seq_len_is_sum. Qed.

Theorem map_len_is_sum k kvs :
  std_byte_len (VMap k kvs) = sum (map (fun kv => std_byte_len (fst kv) + std_byte_len (snd kv)) kvs).
Proof. cbn [std_byte_len]. rewrite (fold_left_add (fun kv => std_byte_len (fst kv) + std_byte_len (snd kv))). lia. Qed.

Theorem tuple_len xs : std_byte_len (VTuple xs) = sum (map std_byte_len xs).
Proof. cbn [std_byte_len]. unfold sum. induction xs as [|x r IH]; cbn [fold_right map]; [reflexivity|]. rewrite IH. reflexivity. Qed.

Theorem option_len x : std_byte_len VNone = 0 /\ std_byte_len (VSome x) = std_byte_len x.
Proof. split; reflexivity. Qed.

Theorem result_len x : std_byte_len (VOk x) = std_byte_len x /\ std_byte_len (VErr x) = std_byte_len x.
Proof. split; reflexivity. Qed.

Theorem box_len x : std_byte_len (VBox x) = std_byte_len x.
Proof. reflexivity. Qed.

Lemma sum_app a b : sum (a ++ b) = sum a + sum b.
Proof. unfold sum. induction a as [|x r IH]; cbn [app fold_right]; lia. Qed.

Theorem seq_len_app k xs ys : std_byte_len (VSeq k (xs ++ ys)) = std_byte_len (VSeq k xs) + std_byte_len (VSeq k ys).
Proof. rewrite !seq_len_is_sum, map_app, sum_app. reflexivity. Qed.

Lemma sum_perm a b : Permutation a b -> sum a = sum b.
Proof. unfold sum. induction 1; cbn [fold_right]; lia. Qed.

(* iteration order (hash sets / maps) and the collection kind do not matter *)
Theorem seq_len_perm k k' xs ys : Permutation xs ys -> std_byte_len (VSeq k xs) = std_byte_len (VSeq k' ys).
Proof. intros H. rewrite !seq_len_is_sum. apply sum_perm, Permutation_map, H. Qed.

Theorem map_len_perm k k' xs ys : Permutation xs ys -> std_byte_len (VMap k xs) = std_byte_len (VMap k' ys).
Proof. intros H. rewrite !map_len_is_sum. apply sum_perm, Permutation_map, H. Qed.

(* "length of the first element times the number of elements" is right exactly for uniform element lengths .. *)
Theorem seq_len_uniform k xs c :
  Forall (fun x => std_byte_len x = c) xs -> std_byte_len (VSeq k xs) = N.of_nat (length xs) * c.
Proof.
  intros H. rewrite seq_len_is_sum. unfold sum. induction H as [|x r Hx Hr IH]; cbn [map fold_right length]; [lia|].
  rewrite IH, Hx, Nat2N.inj_succ, N.mul_succ_l. lia.
Qed.

(* .. and wrong otherwise: ["a", "bcd", ""] measures 4, not 3 * 1 *)
Example first_element_is_not_representative :
  let xs := [VStr 1; VStr 3; VStr 0] in
  std_byte_len (VSeq CArray xs) = 4 /\ N.of_nat (length xs) * std_byte_len (hd VNone xs) = 3 /\
  std_byte_len (VSeq CArray [VNone; VSome (VPrim PU32); VSome (VPrim PU32); VNone]) = 8.
Proof. vm_compute. repeat split; reflexivity. Qed.

(* ---- packing of script numbers ---- *)
Lemma pack_cons_pos x r : 0 < pack (x :: r).
Proof. cbn [pack]. generalize (x mod B62) (B62 * pack r). intros a b. lia. Qed.

Lemma log2_pack_bound l : (length l <= S (N.to_nat (N.log2 (pack l))))%nat.
Proof.
  induction l as [|x r IH]; [cbn; lia|].
  destruct r as [|y r'].
  - cbn [length]. lia.
  - assert (Hp : 0 < pack (y :: r')) by apply pack_cons_pos.
    assert (E : pack (x :: y :: r') = 1 + x mod B62 + B62 * pack (y :: r')) by reflexivity.
    cbn [length] in *. rewrite E. set (p := pack (y :: r')) in *.
    assert (H : N.log2 (2 * p) <= N.log2 (1 + x mod B62 + B62 * p)).
    { apply N.log2_le_mono. generalize (x mod B62). intros a. unfold B62. lia. }
    rewrite N.log2_double in H by exact Hp. lia.
Qed.

Lemma unpack_fuel_pack l : forall fuel, (length l <= fuel)%nat -> Forall (fun x => x < B62) l -> unpack_fuel fuel (pack l) = l.
Proof.
  induction l as [|x r IH]; intros fuel Hf Hb.
  - destruct fuel; reflexivity.
  - destruct fuel as [|fuel]; [cbn [length] in Hf; lia|]. inversion Hb as [|? ? Hx Hr]; subst.
    cbn [unpack_fuel]. pose proof (pack_cons_pos x r) as Hp.
    destruct (N.eqb_spec (pack (x :: r)) 0); [lia|].
    assert (E : pack (x :: r) - 1 = x + B62 * pack r) by (cbn [pack]; rewrite (N.mod_small x B62) by exact Hx; generalize (B62 * pack r); intros q; lia).
    rewrite E. assert (HB : B62 <> 0) by (unfold B62; lia).
    rewrite N.mul_comm, N.mod_add, N.div_add by exact HB.
    rewrite (N.mod_small x B62), (N.div_small x B62) by exact Hx. cbn [N.add].
    rewrite IH; [reflexivity|cbn [length] in Hf; lia|exact Hr].
Qed.

Theorem unpack_pack l : Forall (fun x => x < B62) l -> unpack (pack l) = l.
Proof. intros H. unfold unpack. apply unpack_fuel_pack; [apply log2_pack_bound|exact H]. Qed.

(* ---- composition with the body model ---- *)
Lemma info_std fam : info (STD_BASE + fam) = std_info fam.
Proof.
  unfold info. replace (STD_BASE <=? STD_BASE + fam) with true by (symmetry; apply N.leb_le; lia).
  f_equal. lia.
Qed.

Lemma declared_len_std mode fam v L :
  mode mod 4 < 2 -> declared_len mode (STD_BASE + fam) v L = std_byte_len (fam_value fam (unpack v)).
Proof.
  intros Hm. unfold declared_len, eff_mode. rewrite info_std. cbn [std_info mk ti_clone ti_len ti_norm ti_size].
  revert Hm. generalize (mode mod 4). intros m Hm.
  assert (E : m = 0 \/ m = 1) by lia. destruct E as [-> | ->]; reflexivity.
Qed.

(* A message whose body was created (Body::new / new_non_clonable) from a value of the std family measures
   64 + the structural byte length of that value, after any operations that leave the value in place. *)
Theorem std_message_length ops s mode fam v L ops' :
  mode mod 4 < 2 ->
  Forall (fun o => ~ touches (STD_BASE + fam) s o) ops' ->
  let st := final (ops ++ ONew s mode (STD_BASE + fam) v L :: ops') in
  step st (OLength s) = (st, RLen (std_byte_len (fam_value fam (unpack v)) + HEADER_LEN)).
Proof.
  intros Hm HF st. destruct (length_is_header_plus_declared ops s mode (STD_BASE + fam) v L ops' HF) as [H _].
  fold st in H. rewrite H, declared_len_std by exact Hm. reflexivity.
Qed.

(* in particular for an array body: 64 + the sum over ALL its elements *)
Corollary array_message_length ops s mode ns L ops' :
  mode mod 4 < 2 -> Forall (fun x => x < B62) ns ->
  Forall (fun o => ~ touches (STD_BASE + 0) s o) ops' ->
  let st := final (ops ++ ONew s mode (STD_BASE + 0) (pack ns) L :: ops') in
  step st (OLength s) =
  (st, RLen (sum (map std_byte_len [str (at_ ns 0); str (at_ ns 1); str (at_ ns 2)]) + HEADER_LEN)).
Proof.
  intros Hm Hb HF st. unfold st. rewrite (std_message_length ops s mode 0 (pack ns) L ops' Hm HF).
  rewrite unpack_pack by exact Hb. change (fam_value 0 ns) with (VSeq CArray [str (at_ ns 0); str (at_ ns 1); str (at_ ns 2)]).
  rewrite array_len_is_sum. reflexivity.
Qed.
