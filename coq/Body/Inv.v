(* The ownership invariant of the message-body model: every boxed value is
   either referenced exactly once (by a body in a slot or by a cast-out value)
   and not yet destroyed, or unreferenced and destroyed exactly once; a body's
   vtable names the type its box really holds. *)
From Coq Require Import List NArith Bool Arith Lia ZifyBool.
From DesVerif Require Import Body.Derive Body.Model Body.Heap.
Import ListNotations.
Open Scope N_scope.

Definition body_refs (b : body) : list nat := match data b with Some i => [i] | None => [] end.
Definition msg_refs (x : msg) : list nat := match content x with Some b => body_refs b | None => [] end.
Definition slot_refs (o : option msg) : list nat := match o with Some x => msg_refs x | None => [] end.
Definition refs (st : state) : list nat := flat_map slot_refs (slots st) ++ held st.

Definition body_ok (m : mem) (b : body) : Prop :=
  exists i c, data b = Some i /\ nth_error (heap m) i = Some c /\ ctag c = vt_tag (vt b).
Definition slot_ok (m : mem) (o : option msg) : Prop :=
  match o with
  | Some x => match content x with Some b => body_ok m b | None => True end
  | None => True
  end.

Definition one_if (b : bool) : N := if b then 1 else 0.

Record Inv (st : state) : Prop := {
  inv_count : forall j, cnt j (refs st) + drops (smem st) j = one_if (j <? hlen (smem st))%nat;
  inv_ok : Forall (slot_ok (smem st)) (slots st);
  inv_nslots : length (slots st) = N.to_nat NSLOTS }.

(* ---- slots ---- *)
Lemma slot_ix_lt s : (slot_ix s < N.to_nat NSLOTS)%nat.
Proof. unfold slot_ix, NSLOTS. assert (s mod 4 < 4) by (apply N.mod_lt; lia). lia. Qed.

Lemma get_slot_nth_error st s :
  length (slots st) = N.to_nat NSLOTS -> nth_error (slots st) (slot_ix s) = Some (get_slot st s).
Proof.
  intros H. unfold get_slot. rewrite nth_nth_error.
  destruct (nth_error (slots st) (slot_ix s)) eqn:E; [reflexivity|].
  apply nth_error_None in E. pose proof (slot_ix_lt s). lia.
Qed.

Lemma slot_refs_in_refs st s i :
  length (slots st) = N.to_nat NSLOTS -> In i (slot_refs (get_slot st s)) -> In i (refs st).
Proof.
  intros H Hin. unfold refs. apply in_or_app. left. apply in_flat_map.
  exists (get_slot st s). split; [|exact Hin]. eapply nth_error_In. apply get_slot_nth_error; exact H.
Qed.

Lemma Forall_upd {A} (P : A -> Prop) i x l : Forall P l -> P x -> Forall P (upd i (fun _ => x) l).
Proof.
  intros H Hx. revert i; induction H as [|y r Hy Hr IH]; intros [|i]; cbn [upd]; constructor; auto.
Qed.

Lemma slot_ok_le m m' o : mem_le m m' -> slot_ok m o -> slot_ok m' o.
Proof.
  intros Hle. destruct o as [x|]; cbn [slot_ok]; [|auto]. destruct (content x) as [b|]; [|auto].
  intros (i & c & Hd & Hn & Ht). destruct (Hle _ _ Hn) as (c' & Hn' & E1 & _).
  exists i, c'. repeat split; congruence.
Qed.

Lemma Forall_slot_ok_le m m' l : mem_le m m' -> Forall (slot_ok m) l -> Forall (slot_ok m') l.
Proof. intros Hle H. eapply Forall_impl; [|exact H]. intros o. apply slot_ok_le; exact Hle. Qed.

(* ---- dropping the occupant of a slot ---- *)
Lemma slot_drop_cases m o :
  (exists i, slot_refs o = [i] /\ slot_drop m o = drop_cell i m) \/ (slot_refs o = [] /\ slot_drop m o = m).
Proof.
  destruct o as [x|]; cbn [slot_drop slot_refs]; [|right; auto].
  unfold msg_drop, msg_refs. destruct (content x) as [b|]; [|right; auto].
  unfold body_drop, body_refs. destruct (data b) as [i|]; cbn [vdrop]; [left; exists i; auto|right; auto].
Qed.

Lemma hlen_slot_drop m o : hlen (slot_drop m o) = hlen m.
Proof. destruct (slot_drop_cases m o) as [(i & _ & ->)|(_ & ->)]; [apply hlen_drop_cell|reflexivity]. Qed.

Lemma mem_le_slot_drop m o : mem_le m (slot_drop m o).
Proof. destruct (slot_drop_cases m o) as [(i & _ & ->)|(_ & ->)]; [apply mem_le_drop_cell|apply mem_le_refl]. Qed.

Lemma drops_slot_drop m o j :
  (forall i, In i (slot_refs o) -> (i < hlen m)%nat) ->
  drops (slot_drop m o) j = drops m j + cnt j (slot_refs o).
Proof.
  intros Hb. destruct (slot_drop_cases m o) as [(i & E & ->)|(E & ->)]; rewrite E in *; cbn [cnt].
  - rewrite drops_drop_cell; [lia|]. apply Hb. left; reflexivity.
  - lia.
Qed.

Lemma count_bound st m1 extra i :
  (forall j, cnt j (refs st) + extra j + drops m1 j = one_if (j <? hlen m1)%nat) ->
  In i (refs st) -> (i < hlen m1)%nat.
Proof.
  intros H Hin. apply In_cnt_pos in Hin. specialize (H i). unfold one_if in H.
  destruct (Nat.ltb_spec i (hlen m1)); [assumption|lia].
Qed.

(* ---- the two ways a step rewrites a slot ---- *)
Lemma put_slot_inv st m1 s new hid' :
  length (slots st) = N.to_nat NSLOTS ->
  (forall j, cnt j (refs st) + cnt j (slot_refs new) + drops m1 j = one_if (j <? hlen m1)%nat) ->
  Forall (slot_ok m1) (slots st) -> slot_ok m1 new ->
  Inv (put_slot st m1 s new hid').
Proof.
  intros Hlen Hcnt Hok Hnew. unfold put_slot. constructor; unfold refs; cbn [smem slots held].
  - intros j. rewrite hlen_slot_drop, drops_slot_drop.
    2:{ intros i Hi. eapply count_bound; [exact Hcnt|]. eapply slot_refs_in_refs; eauto. }
    rewrite cnt_app.
    pose proof (cnt_flat_upd slot_refs j (slot_ix s) new None (slots st)) as E.
    rewrite Hlen in E. specialize (E (slot_ix_lt s)). fold (get_slot st s) in E.
    specialize (Hcnt j). unfold refs in Hcnt. rewrite cnt_app in Hcnt. lia.
  - apply Forall_upd.
    + eapply Forall_slot_ok_le; [apply mem_le_slot_drop|exact Hok].
    + eapply slot_ok_le; [apply mem_le_slot_drop|exact Hnew].
  - rewrite upd_length. exact Hlen.
Qed.

Lemma set_slot_inv st m1 s new hl :
  length (slots st) = N.to_nat NSLOTS ->
  (forall j, cnt j (refs st) + cnt j (slot_refs new) + cnt j hl + drops m1 j =
             one_if (j <? hlen m1)%nat + cnt j (slot_refs (get_slot st s)) + cnt j (held st)) ->
  Forall (slot_ok m1) (slots st) -> slot_ok m1 new ->
  Inv (set_slot st m1 s new hl).
Proof.
  intros Hlen Hcnt Hok Hnew. unfold set_slot. constructor; unfold refs; cbn [smem slots held].
  - intros j. rewrite cnt_app.
    pose proof (cnt_flat_upd slot_refs j (slot_ix s) new None (slots st)) as E.
    rewrite Hlen in E. specialize (E (slot_ix_lt s)). fold (get_slot st s) in E.
    specialize (Hcnt j). unfold refs in Hcnt. rewrite cnt_app in Hcnt. lia.
  - apply Forall_upd; assumption.
  - rewrite upd_length. exact Hlen.
Qed.

Lemma set_slot_id st s x :
  length (slots st) = N.to_nat NSLOTS -> get_slot st s = Some x ->
  set_slot st (smem st) s (Some x) (held st) = st.
Proof.
  intros Hlen Hg. unfold set_slot. rewrite upd_same.
  - destruct st; reflexivity.
  - rewrite get_slot_nth_error by exact Hlen. congruence.
Qed.

(* ---- what the invariant says about a stored body ---- *)
Lemma slot_body_live st s x b :
  Inv st -> get_slot st s = Some x -> content x = Some b ->
  exists i c, data b = Some i /\ nth_error (heap (smem st)) i = Some c /\ ctag c = vt_tag (vt b) /\
              cdrops c = 0 /\ (i < hlen (smem st))%nat /\
              cell_read (smem st) (data b) (vt_tag (vt b)) = Some c.
Proof.
  intros [Hc Hok Hlen] Hg Hb.
  assert (Hs : slot_ok (smem st) (Some x)).
  { rewrite Forall_forall in Hok. apply Hok. rewrite <- Hg. eapply nth_error_In. apply get_slot_nth_error; exact Hlen. }
  cbn [slot_ok] in Hs. rewrite Hb in Hs. destruct Hs as (i & c & Hd & Hn & Ht).
  assert (Hin : In i (refs st)).
  { eapply slot_refs_in_refs; [exact Hlen|]. rewrite Hg. cbn [slot_refs]. unfold msg_refs, body_refs. rewrite Hb, Hd. left; reflexivity. }
  apply In_cnt_pos in Hin. specialize (Hc i). unfold drops in Hc. rewrite Hn in Hc. unfold one_if in Hc.
  assert (Hlt : (i < hlen (smem st))%nat) by (apply nth_error_Some; unfold hlen; congruence).
  destruct (Nat.ltb_spec i (hlen (smem st))); [|lia].
  assert (Hz : cdrops c = 0) by lia.
  exists i, c. repeat split; auto.
  unfold cell_read. rewrite Hd, Hn, Ht, Hz, !N.eqb_refl. reflexivity.
Qed.

Lemma held_live st k i :
  Inv st -> nth_error (held st) k = Some i ->
  exists c, nth_error (heap (smem st)) i = Some c /\ cdrops c = 0 /\ (i < hlen (smem st))%nat.
Proof.
  intros [Hc _ _] Hk.
  assert (Hin : In i (refs st)) by (unfold refs; apply in_or_app; right; eapply nth_error_In; eauto).
  apply In_cnt_pos in Hin. specialize (Hc i). unfold one_if in Hc.
  destruct (Nat.ltb_spec i (hlen (smem st))) as [Hlt|]; [|lia].
  unfold drops in Hc. destruct (nth_error (heap (smem st)) i) as [c|] eqn:E.
  - exists c. repeat split; auto. lia.
  - apply nth_error_None in E. unfold hlen in Hlt. lia.
Qed.

(* ---- Body::new ---- *)
Lemma body_new_spec m mode tag v L :
  forall m1 b ser, body_new m mode tag v L = (m1, b, ser) ->
  data b = Some (hlen m) /\ hlen m1 = S (hlen m) /\ (forall j, drops m1 j = drops m j) /\ mem_le m m1 /\
  nth_error (heap m1) (hlen m) = Some {| ctag := tag; cval := ti_norm (info tag) v; cser := ser; cdrops := 0 |} /\
  vt b = {| vt_tag := tag; vt_clone := negb (eff_mode tag mode =? 1) |} /\
  blen b = match eff_mode tag mode with 2 => ti_size (info tag) | 3 => L | _ => ti_len (info tag) (ti_norm (info tag) v) end /\
  ser = (if ti_ser (info tag) then next_ser m else 0).
Proof.
  intros m1 b ser. unfold body_new.
  pose proof (alloc_spec m tag (ti_norm (info tag) v)) as A.
  destruct (alloc m tag (ti_norm (info tag) v)) as [[m' p] ser'] eqn:EA. destruct A as (Hp & Hl & Hh).
  intros E. injection E as <- <- <-. cbn [data vt blen].
  assert (ser' = if ti_ser (info tag) then next_ser m else 0) by (unfold alloc in EA; congruence).
  repeat split; auto; try congruence.
  - intros j. eapply drops_app_fresh; [exact Hh|reflexivity].
  - eapply mem_le_app; exact Hh.
  - rewrite Hh, nth_error_app_last. unfold hlen. rewrite Nat.eqb_refl. reflexivity.
Qed.

Lemma body_new_ok m mode tag v L m1 b ser : body_new m mode tag v L = (m1, b, ser) -> body_ok m1 b.
Proof.
  intros E. destruct (body_new_spec _ _ _ _ _ _ _ _ E) as (Hd & _ & _ & _ & Hn & Hv & _).
  eexists _, _. split; [exact Hd|]. split; [exact Hn|]. rewrite Hv. reflexivity.
Qed.
