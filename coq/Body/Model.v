(* Executable model of des/src/net/message/body.rs (Body: type-erased Box
   pointer + per-type static vtable) and of the content API of
   des/src/net/message/mod.rs (Message).  Function names and branch structure
   follow the Rust code.

   The heap is a GHOST heap of boxed values: cell i records the type the value
   really has ([ctag]), the value, a serial number (what the harness' counted
   types carry to identify one stored instance) and how often the value's
   destructor has run ([cdrops]).  A Body holds a nullable pointer into it.
   Reading a cell through a pointer of another type, through a dangling or a
   null pointer is undefined behaviour in Rust; the model makes it the visible
   result [RUB].  No proofs in this file. *)
From Coq Require Import List NArith Bool.
From DesVerif Require Import Common.Codec Body.Derive Body.StdLen.
Import ListNotations.
Open Scope N_scope.

Definition HEADER_LEN : N := 64.       (* header.rs: impl MessageBody for Header *)
Definition NSLOTS : N := 4.

(* ---- the tag universe of the correspondence harness ---- *)
(* ti_norm : the Rust value built from a script number v carries (ti_norm v)
   ti_len  : MessageBody::byte_len of that value
   ti_size : mem::size_of::<T>()        (what Body::new_non_debugable declares)
   ti_clone: T implements Clone
   ti_ser  : the value carries a serial (fresh on creation and on Clone)
   ti_logs : the value's destructor is observable (logs its serial, 0 if none) *)
Record tinfo := { ti_norm : N -> N; ti_len : N -> N; ti_size : N;
                  ti_clone : bool; ti_ser : bool; ti_logs : bool }.

Definition NT : N := 23.
Definition P32 : N := 4294967296.

Definition tok_len (v : N) : N := (v mod 5) * 3.

(* #[derive(MessageBody)] struct DS { tok: Tok, n: u64, s: String }  -- s has (v mod 7) bytes *)
Definition decl_DS : decl := {| dname := 15; dgen := 0; ddata := DStruct (FNamed [(1, 1); (2, 2); (3, 3)]) |}.
Definition ds_len (v : N) : N :=
  oget (byte_len decl_DS {| rv_variant := 0; rv_named := [(1, tok_len v); (2, 8); (3, v mod 7)]; rv_pos := [] |}).

(* #[derive(MessageBody)] enum DE { A(Tok), B { t: Tok, x: u16 } }  -- variant v mod 2 *)
Definition decl_DE : decl := {| dname := 16; dgen := 0; ddata := DEnum [
   {| vname := 0; vfields := FUnnamed [1] |}; {| vname := 1; vfields := FNamed [(1, 1); (2, 4)] |}] |}.
Definition de_len (v : N) : N :=
  oget (byte_len decl_DE (if v mod 2 =? 0 then {| rv_variant := 0; rv_named := []; rv_pos := [tok_len v] |}
                          else {| rv_variant := 1; rv_named := [(1, tok_len v); (2, 2)]; rv_pos := [] |})).

Definition mk (norm len : N -> N) (size : N) (c s l : bool) : tinfo :=
  {| ti_norm := norm; ti_len := len; ti_size := size; ti_clone := c; ti_ser := s; ti_logs := l |}.

Definition info_small (tag : N) : tinfo :=
  let m32 := fun v => v mod P32 in
  match tag with
  | 1 => mk m32 (fun _ => 4) 4 true false false                     (* u32 *)
  | 2 => mk m32 (fun _ => 4) 4 true false false                     (* i32 *)
  | 3 => mk (fun v => v mod 16777216) (fun _ => 4) 4 true false false   (* f32 (from_bits) *)
  | 4 => mk m32 (fun _ => 4) 4 true false false                     (* [u8; 4] *)
  | 5 => mk (fun v => v) (fun _ => 8) 8 true false false            (* u64 *)
  | 6 => mk (fun v => v mod 41) (fun v => v) 24 true false false    (* String of v bytes *)
  | 7 => mk (fun v => v mod 27) (fun v => v) 16 true false false    (* &'static str of v bytes *)
  | 8 => mk (fun v => v mod 65536) (fun v => 2 * (v mod 8 + 1)) 24 true false false  (* Vec<u16> *)
  | 9 => mk m32 tok_len 8 true true true                            (* Tok { val, ser } + Drop *)
  | 10 => mk m32 (fun _ => 7) 8 true true true                      (* Tok2: same layout as Tok *)
  | 11 => mk (fun _ => 0) (fun _ => 0) 0 true false true            (* Z: zero-sized, Drop *)
  | 12 => mk m32 (fun _ => 5) 8 false true true                     (* NoClone { val, ser } + Drop, not Clone *)
  | 13 => mk m32 tok_len 12 true true true                          (* Option<Tok> (always Some) *)
  | 14 => mk m32 tok_len 8 true true true                           (* Box<Tok> *)
  | 15 => mk m32 ds_len 40 true true true                           (* DS (derived struct) *)
  | 16 => mk m32 de_len 12 true true true                           (* DE (derived enum) *)
  | 17 => mk (fun _ => 0) (fun _ => 0) 0 true false false           (* () *)
  (* distinct types that a name- or layout-based comparison would confuse; all { val: u32, ser: u32 } + Drop *)
  | 18 => mk m32 (fun _ => 3) 8 true true true                      (* Reading, declared in one block of a fn *)
  | 19 => mk m32 (fun _ => 3) 8 true true true                      (* Reading, declared in the sibling block: same type_name *)
  | 20 => mk m32 (fun _ => 6) 8 true true true                      (* Gen<u32> *)
  | 21 => mk m32 (fun _ => 6) 8 true true true                      (* Gen<i32>: differs in the generic argument only *)
  | 22 => mk m32 (fun _ => 1) 8 true true true                      (* left::Sample *)
  | 23 => mk m32 (fun _ => 1) 8 true true true                      (* right::Sample: same last path segment *)
  | _ => mk (fun v => v) (fun _ => 0) 0 true false false
  end.

(* Tags from STD_BASE on: the family of std types of Body/StdLen.v.  The model value is the packed list
   of script numbers the Rust value is built from; its byte length is the structural one. *)
Definition STD_BASE : N := 100.
Definition std_info (fam : N) : tinfo :=
  mk (fun v => v) (fun v => std_byte_len (fam_value fam (unpack v))) 0 true false false.

Definition info (tag : N) : tinfo :=
  if STD_BASE <=? tag then std_info (tag - STD_BASE) else info_small tag.

(* ---- ghost heap ---- *)
Record cell := { ctag : N; cval : N; cser : N; cdrops : N }.
Record mem := { heap : list cell; next_ser : N }.

Fixpoint upd {A} (i : nat) (f : A -> A) (l : list A) : list A :=
  match l, i with
  | [], _ => []
  | x :: r, O => f x :: r
  | x :: r, S i' => x :: upd i' f r
  end.

Definition bump (c : cell) : cell :=
  {| ctag := ctag c; cval := cval c; cser := cser c; cdrops := cdrops c + 1 |}.

(* the destructor of the value in cell i runs *)
Definition drop_cell (i : nat) (m : mem) : mem :=
  {| heap := upd i bump (heap m); next_ser := next_ser m |}.

(* Box::new(value): a fresh cell; the serial is drawn iff the type carries one *)
Definition alloc (m : mem) (tag v : N) : mem * nat * N :=
  let s := ti_ser (info tag) in
  let ser := if s then next_ser m else 0 in
  ({| heap := heap m ++ [{| ctag := tag; cval := v; cser := ser; cdrops := 0 |}];
      next_ser := if s then next_ser m + 1 else next_ser m |},
   length (heap m), ser).

(* `&*ptr.cast::<T>()`: defined only for a live cell that really holds a T *)
Definition cell_read (m : mem) (p : option nat) (tag : N) : option cell :=
  match p with
  | None => None
  | Some i => match nth_error (heap m) i with
              | Some c => if (ctag c =? tag) && (cdrops c =? 0) then Some c else None
              | None => None
              end
  end.

(* ---- body.rs ---- *)
Record vtable := { vt_tag : N; vt_clone : bool }.      (* type_id, try_clone (vclone::<T> | vclone_panic); drop = vdrop::<T> *)
Record body := { data : option nat; blen : N; vt : vtable }.

(* creation modes: 0 Body::new | 1 Body::new_non_clonable | 2 Body::new_non_debugable | 3 Body::new_with_len(_, L).
   A type that is not Clone can only be stored by new_non_clonable. *)
Definition eff_mode (tag mode : N) : N := if ti_clone (info tag) then mode mod 4 else 1.

Definition body_new (m : mem) (mode tag v L : N) : mem * body * N :=
  let v' := ti_norm (info tag) v in
  let length := match eff_mode tag mode with
                | 2 => ti_size (info tag)
                | 3 => L
                | _ => ti_len (info tag) v'
                end in
  let '(m', p, ser) := alloc m tag v' in
  (m', {| data := Some p; blen := length;
          vt := {| vt_tag := tag; vt_clone := negb (eff_mode tag mode =? 1) |} |}, ser).

Definition body_is (b : body) (tag : N) : bool := vt_tag (vt b) =? tag.

(* vdrop::<T>: `if !ptr.is_null() { drop(Box::from_raw(ptr)) }` *)
Definition vdrop (m : mem) (p : option nat) : mem :=
  match p with
  | Some i => drop_cell i m
  | None => m
  end.

(* impl Drop for Body *)
Definition body_drop (m : mem) (b : body) : mem := vdrop m (data b).

Definition set_data (b : body) (p : option nat) : body := {| data := p; blen := blen b; vt := vt b |}.

(* Body::try_cast: on a type match the pointer is taken (replaced by null), the
   value moved out of its box, and `self` dropped with the null pointer. *)
Definition body_try_cast (m : mem) (b : body) (tag : N) : mem * (option nat + body) :=
  if body_is b tag then
    let p := data b in
    let b' := set_data b None in
    (body_drop m b', inl p)
  else (m, inr b).

(* Body::try_content *)
Definition body_try_content (m : mem) (b : body) (tag : N) : option (option cell) :=
  if body_is b tag then Some (cell_read m (data b) tag) else None.

(* Body::try_clone: None if the vtable holds vclone_panic; else T::clone of the pointee in a new box *)
Inductive cres (A : Type) := CNot | CUB | COk (m : mem) (a : A) (ser : N).
Arguments CNot {A}. Arguments CUB {A}. Arguments COk {A}.

Definition body_try_clone (m : mem) (b : body) : cres body :=
  if vt_clone (vt b) then
    match cell_read m (data b) (vt_tag (vt b)) with
    | Some c => let '(m', p, ser) := alloc m (ctag c) (cval c) in
                COk m' {| data := Some p; blen := blen b; vt := vt b |} ser
    | None => CUB
    end
  else CNot.

(* ---- mod.rs ---- *)
Record msg := { hid : N; content : option body }.

Definition msg_body_len (x : msg) : N := match content x with Some b => blen b | None => 0 end.

(* Message::length *)
Definition msg_length (x : msg) : N := msg_body_len x + HEADER_LEN.

Definition msg_can_cast (x : msg) (tag : N) : bool :=
  match content x with Some b => body_is b tag | None => false end.

Definition msg_drop (m : mem) (x : msg) : mem :=
  match content x with Some b => body_drop m b | None => m end.

(* Message::try_cast *)
Definition msg_try_cast (m : mem) (x : msg) (tag : N) : mem * (option nat + msg) :=
  match content x with
  | Some b => match body_try_cast m b tag with
              | (m', inl p) => (m', inl p)
              | (m', inr b') => (m', inr {| hid := hid x; content := Some b' |})
              end
  | None => (m, inr {| hid := hid x; content := None |})
  end.

(* Message::try_clone *)
Definition msg_try_clone (m : mem) (x : msg) : cres msg :=
  match content x with
  | Some b => match body_try_clone m b with
              | COk m' b' ser => COk m' {| hid := hid x; content := Some b' |} ser
              | CNot => CNot
              | CUB => CUB
              end
  | None => COk m {| hid := hid x; content := None |} 0
  end.

(* Message::set_content & co.: the new body is built, then the old one dropped by the assignment *)
Definition msg_set_content (m : mem) (x : msg) (mode tag v L : N) : mem * msg * N :=
  let '(m1, b, ser) := body_new m mode tag v L in
  (msg_drop m1 x, {| hid := hid x; content := Some b |}, ser).

(* ---- scripts ---- *)
Record obs := { otag : N; oval : N; oser : N; oblen : N; omlen : N; ohid : N }.

Inductive res :=
| RNone                          (* empty slot / nothing held *)
| RNew (ser len : N)               (* serial drawn (0: none), body length declared *)
| RBool (b : bool)
| RCast (v ser h : N)            (* Ok((value, header)) *)
| RCastErr (o : obs)             (* Err(message): the returned message, observed *)
| RSome (v ser : N)
| RNoContent
| RCloned (ser : N)
| RNotClonable
| RPanic (site : N)              (* 1: Message::clone on a non-clonable body *)
| RDropped
| RLen (n : N)
| RHeldDropped
| RObs (o : obs)
| RUB.                           (* undefined behaviour in the Rust code *)

Inductive op :=
| ONew (s mode tag v L : N)      (* slot s := Message::default().id(fresh).with_content/.. *)
| ONewEmpty (s : N)              (* slot s := Message::default().id(fresh) *)
| OSet (s mode tag v L : N)      (* msg.set_content/..(value) *)
| OCanCast (s tag : N)
| OTryCast (s tag : N)           (* on success the value goes to the held list, the slot is consumed *)
| OTryContent (s tag : N)
| OTryClone (s d : N)            (* slot d := slot s .try_clone()  (d untouched on None) *)
| OClone (s d : N)               (* slot d := slot s .clone()      (panics on a non-clonable body) *)
| ODrop (s : N)
| OLength (s : N)
| ODropHeld (k : N)              (* drop the (k mod len)-th cast-out value *)
| OObserve (s : N).

Record state := { smem : mem; slots : list (option msg); held : list nat; next_hid : N }.

Definition init : state :=
  {| smem := {| heap := []; next_ser := 1 |}; slots := repeat None (N.to_nat NSLOTS); held := []; next_hid := 1 |}.

Definition slot_ix (s : N) : nat := N.to_nat (s mod NSLOTS).
Definition get_slot (st : state) (s : N) : option msg := nth (slot_ix s) (slots st) None.

Definition slot_drop (m : mem) (o : option msg) : mem :=
  match o with Some x => msg_drop m x | None => m end.

(* `slots[s] = new`: the old occupant is dropped by the assignment *)
Definition put_slot (st : state) (m : mem) (s : N) (new : option msg) (hid' : N) : state :=
  {| smem := slot_drop m (get_slot st s);
     slots := upd (slot_ix s) (fun _ => new) (slots st); held := held st; next_hid := hid' |}.

(* a slot is rewritten in place (no destructor runs) *)
Definition set_slot (st : state) (m : mem) (s : N) (new : option msg) (h : list nat) : state :=
  {| smem := m; slots := upd (slot_ix s) (fun _ => new) (slots st); held := h; next_hid := next_hid st |}.

(* what the harness sees of a message: the one type T with can_cast::<T>(), the
   value and serial read through try_content::<T>(), both lengths, the header id *)
Definition observe (m : mem) (x : msg) : option obs :=
  match content x with
  | None => Some {| otag := 0; oval := 0; oser := 0; oblen := 0; omlen := msg_length x; ohid := hid x |}
  | Some b => match cell_read m (data b) (vt_tag (vt b)) with
              | Some c => Some {| otag := vt_tag (vt b); oval := cval c; oser := cser c;
                                  oblen := blen b; omlen := msg_length x; ohid := hid x |}
              | None => None
              end
  end.

Fixpoint remove_nth {A} (i : nat) (l : list A) : list A :=
  match l, i with
  | [], _ => []
  | _ :: r, O => r
  | x :: r, S i' => x :: remove_nth i' r
  end.

Definition step (st : state) (o : op) : state * res :=
  let m := smem st in
  match o with
  | ONew s mode tag v L =>
      let '(m1, x, ser) := msg_set_content m {| hid := next_hid st; content := None |} mode tag v L in
      (put_slot st m1 s (Some x) (next_hid st + 1), RNew ser (msg_body_len x))
  | ONewEmpty s =>
      (put_slot st m s (Some {| hid := next_hid st; content := None |}) (next_hid st + 1), RNew 0 0)
  | OSet s mode tag v L =>
      match get_slot st s with
      | None => (st, RNone)
      | Some x => let '(m1, x', ser) := msg_set_content m x mode tag v L in
                  (set_slot st m1 s (Some x') (held st), RNew ser (msg_body_len x'))
      end
  | OCanCast s tag =>
      match get_slot st s with
      | None => (st, RNone)
      | Some x => (st, RBool (msg_can_cast x tag))
      end
  | OTryCast s tag =>
      match get_slot st s with
      | None => (st, RNone)
      | Some x =>
          match msg_try_cast m x tag with
          | (m1, inl p) =>
              match cell_read m1 p tag, p with
              | Some c, Some i => (set_slot st m1 s None (held st ++ [i]), RCast (cval c) (cser c) (hid x))
              | _, _ => (set_slot st m1 s None (held st), RUB)
              end
          | (m1, inr x') =>
              (set_slot st m1 s (Some x') (held st),
               match observe m1 x' with Some ob => RCastErr ob | None => RUB end)
          end
      end
  | OTryContent s tag =>
      match get_slot st s with
      | None => (st, RNone)
      | Some x => match content x with
                  | None => (st, RNoContent)
                  | Some b => match body_try_content m b tag with
                              | None => (st, RNoContent)
                              | Some (Some c) => (st, RSome (cval c) (cser c))
                              | Some None => (st, RUB)
                              end
                  end
      end
  | OTryClone s d =>
      match get_slot st s with
      | None => (st, RNone)
      | Some x => match msg_try_clone m x with
                  | COk m1 x' ser => (put_slot st m1 d (Some x') (next_hid st), RCloned ser)
                  | CNot => (st, RNotClonable)
                  | CUB => (st, RUB)
                  end
      end
  | OClone s d =>
      match get_slot st s with
      | None => (st, RNone)
      | Some x => match msg_try_clone m x with
                  | COk m1 x' ser => (put_slot st m1 d (Some x') (next_hid st), RCloned ser)
                  | CNot => (st, RPanic 1)
                  | CUB => (st, RUB)
                  end
      end
  | ODrop s =>
      match get_slot st s with
      | None => (st, RNone)
      | Some x => (put_slot st m s None (next_hid st), RDropped)
      end
  | OLength s =>
      match get_slot st s with
      | None => (st, RNone)
      | Some x => (st, RLen (msg_length x))
      end
  | ODropHeld k =>
      match held st with
      | [] => (st, RNone)
      | _ => let i := N.to_nat (k mod N.of_nat (length (held st))) in
             ({| smem := vdrop m (nth_error (held st) i); slots := slots st;
                 held := remove_nth i (held st); next_hid := next_hid st |}, RHeldDropped)
      end
  | OObserve s =>
      match get_slot st s with
      | None => (st, RNone)
      | Some x => (st, match observe m x with Some ob => RObs ob | None => RUB end)
      end
  end.

(* end of a script: every slot, then every cast-out value, goes out of scope *)
Definition finish (st : state) : state :=
  let m1 := fold_left slot_drop (slots st) (smem st) in
  let m2 := fold_left (fun m i => drop_cell i m) (held st) m1 in
  {| smem := m2; slots := map (fun _ => None) (slots st); held := []; next_hid := next_hid st |}.

(* ---- observable destructor log: serials of the logging cells whose counter rose ---- *)
Fixpoint drop_log (h h' : list cell) : list N :=
  match h', h with
  | [], _ => []
  | c' :: r', c :: r =>
      (if ti_logs (info (ctag c')) then repeat (cser c') (N.to_nat (cdrops c' - cdrops c)) else []) ++ drop_log r r'
  | c' :: r', [] =>
      (if ti_logs (info (ctag c')) then repeat (cser c') (N.to_nat (cdrops c')) else []) ++ drop_log [] r'
  end.

Fixpoint insert_sorted (x : N) (l : list N) : list N :=
  match l with
  | [] => [x]
  | y :: r => if x <=? y then x :: l else y :: insert_sorted x r
  end.
Definition sort (l : list N) : list N := fold_right insert_sorted [] l.

Definition log_between (st st' : state) : list N := sort (drop_log (heap (smem st)) (heap (smem st'))).

Fixpoint run_from (st : state) (ops : list op) : state * list (res * list N) :=
  match ops with
  | [] => (st, [])
  | o :: r => let '(st1, x) := step st o in
              let '(st2, xs) := run_from st1 r in
              (st2, (x, log_between st st1) :: xs)
  end.

Definition run_ops (ops : list op) : list (res * list N) := snd (run_from init ops).
Definition final (ops : list op) : state := fst (run_from init ops).

(* ---- wire format ---- *)
(* script: 0 op*   | 1 decl (Derive.run_derive) | 2 fam k l* (Derive.run_family) | 3 fam mode n* (run_std) *)
Definition ctag_of (t : N) : N := 1 + t mod NT.

Definition dec_op (l : list N) : option (op * list N) :=
  match l with
  | 1 :: s :: mode :: t :: v :: L :: r => Some (ONew s mode (ctag_of t) v L, r)
  | 2 :: s :: mode :: t :: v :: L :: r => Some (OSet s mode (ctag_of t) v L, r)
  | 3 :: s :: t :: r => Some (OCanCast s (ctag_of t), r)
  | 4 :: s :: t :: r => Some (OTryCast s (ctag_of t), r)
  | 5 :: s :: t :: r => Some (OTryContent s (ctag_of t), r)
  | 6 :: s :: d :: r => Some (OTryClone s d, r)
  | 7 :: s :: d :: r => Some (OClone s d, r)
  | 8 :: s :: r => Some (ODrop s, r)
  | 9 :: s :: r => Some (OLength s, r)
  | 10 :: k :: r => Some (ODropHeld k, r)
  | 11 :: s :: r => Some (OObserve s, r)
  | 12 :: s :: r => Some (ONewEmpty s, r)
  | _ => None
  end.

Definition enc_obs (o : obs) : list N := [otag o; oval o; oser o; oblen o; omlen o; ohid o].

Definition enc_res (x : res) : list N :=
  match x with
  | RNone => [0]
  | RNew ser len => [1; ser; len]
  | RBool b => [2; b2n b]
  | RCast v ser h => [3; v; ser; h]
  | RCastErr o => 4 :: enc_obs o
  | RSome v ser => [5; v; ser]
  | RNoContent => [6]
  | RCloned ser => [7; ser]
  | RNotClonable => [8]
  | RPanic site => [9; site]
  | RDropped => [10]
  | RLen n => [11; n; n]            (* Message::length, and the bytes a channel charges for it *)
  | RHeldDropped => [12]
  | RObs o => 13 :: enc_obs o
  | RUB => [66]
  end.

Definition enc_log (l : list N) : list N := N.of_nat (length l) :: l.

Definition enc_step (x : res * list N) : list N := enc_res (fst x) ++ enc_log (snd x).

(* final record: 14, number of serials drawn, destructor log of the tear-down *)
Definition run_body (l : list N) : list N :=
  let '(st, xs) := run_from init (decode_all dec_op l) in
  flat_map enc_step xs ++ 14 :: (next_ser (smem st) - 1) :: enc_log (log_between st (finish st)).

(* kind-3 script: fam mode n*  — a message whose content is the fam-th std type built from the numbers n*
   (Body::new for even mode, Body::new_non_clonable for odd); record 16 byte_len Message::length charged *)
Definition run_std (l : list N) : list N :=
  match l with
  | fam :: mode :: ns =>
      match map fst (run_ops [ONew 0 (mode mod 2) (STD_BASE + fam mod NFAM) (pack ns) 0; OLength 0]) with
      | [RNew _ blen; RLen mlen] => [16; blen; mlen; mlen]
      | _ => [66]
      end
  | _ => [7]
  end.

Definition run (input : list N) : list N :=
  match input with
  | 0 :: r => run_body r
  | 1 :: r => run_derive r
  | 2 :: r => run_family r
  | 3 :: r => run_std r
  | _ => [7]
  end.
