(* The C16 statements in the form Properties/C16.v quotes them. *)
From Coq Require Import List NArith Bool Arith Lia ZifyBool.
From DesVerif Require Import Body.Derive Body.Model Body.Heap Body.Inv Body.Step Body.Props Body.Frame Body.DeriveProps.
Import ListNotations.
Open Scope N_scope.

Definition same_tag (bv : option bview) (tag : N) : bool :=
  match bv with Some v => bv_tag v =? tag | None => false end.

(* can_cast / try_content / try_cast answer "yes" iff the requested type is the
   stored one; a successful cast moves exactly the stored value out and consumes
   the message; any other cast returns the message intact (the state is equal). *)
Theorem cast_iff_same_tag ops s tag :
  let st := final ops in
  match view st s with
  | VEmpty => step st (OCanCast s tag) = (st, RNone) /\ step st (OTryContent s tag) = (st, RNone) /\
              step st (OTryCast s tag) = (st, RNone)
  | VBroken => False
  | VMsg h bv =>
      step st (OCanCast s tag) = (st, RBool (same_tag bv tag)) /\
      step st (OTryContent s tag) =
        (st, match bv with
             | Some v => if bv_tag v =? tag then RSome (bv_val v) (bv_ser v) else RNoContent
             | None => RNoContent
             end) /\
      (if same_tag bv tag then
         exists v i c, bv = Some v /\
           step st (OTryCast s tag) = (set_slot st (smem st) s None (held st ++ [i]), RCast (bv_val v) (bv_ser v) h) /\
           view (fst (step st (OTryCast s tag))) s = VEmpty /\
           nth_error (heap (smem st)) i = Some c /\ ctag c = tag /\ cval c = bv_val v /\ cser c = bv_ser v /\ cdrops c = 0
       else step st (OTryCast s tag) = (st, RCastErr (obs_of h bv)))
  end.
Proof.
  intros st. pose proof (inv_reachable ops) as HI. fold st in HI. pose proof HI as [_ _ Hlen].
  destruct (view st s) as [|h bv|] eqn:Hv.
  - unfold view in Hv. cbn [step]. destruct (get_slot st s) as [x|]; [|auto].
    unfold msg_view in Hv. destruct (content x) as [b|]; [destruct (body_view (smem st) b)|]; discriminate.
  - split; [eapply can_cast_view; exact Hv|]. split; [eapply try_content_view; exact Hv|].
    destruct (same_tag bv tag) eqn:Hs.
    + destruct bv as [v|]; [|discriminate]. cbn [same_tag] in Hs. apply N.eqb_eq in Hs. subst tag.
      destruct (try_cast_same_view st s h v HI Hv) as (i & c & E & Hn & Ht & Hval & Hser & Hd).
      exists v, i, c. rewrite E. cbn [fst]. repeat split; auto.
      unfold view. rewrite get_set_slot by exact Hlen. reflexivity.
    + apply try_cast_other_view; auto. destruct bv as [v|]; [|exact I]. cbn [same_tag] in Hs. apply N.eqb_neq. exact Hs.
  - exact (view_not_broken st s HI Hv).
Qed.

(* Message::length = 64 + the length declared at creation, after any sequence of
   operations that leaves the value in place (failed casts and clones included) *)
Theorem length_is_header_plus_declared ops s mode tag v L ops' :
  Forall (fun o => ~ touches tag s o) ops' ->
  let st := final (ops ++ ONew s mode tag v L :: ops') in
  step st (OLength s) = (st, RLen (declared_len mode tag v L + HEADER_LEN)) /\
  snd (step (final ops) (ONew s mode tag v L)) = RNew (bv_ser (created (final ops) mode tag v L)) (declared_len mode tag v L).
Proof.
  intros HF st. split.
  - pose proof (value_preserved ops s mode tag v L ops' HF) as Hv. fold st in Hv.
    rewrite (length_view st s _ _ Hv). reflexivity.
  - apply new_view, inv_reachable.
Qed.

Theorem length_of_view ops s :
  let st := final ops in
  match view st s with
  | VMsg h bv => step st (OLength s) = (st, RLen (match bv with Some v => bv_len v | None => 0 end + HEADER_LEN)) /\
                 step st (OObserve s) = (st, RObs (obs_of h bv))
  | _ => True
  end.
Proof.
  intros st. destruct (view st s) as [|h bv|] eqn:Hv; auto. split; [eapply length_view|eapply observe_view]; exact Hv.
Qed.

(* declared lengths of the derived bodies of the harness are the field sums *)
Lemma ds_len_sum v : ds_len v = tok_len v + 8 + v mod 7.
Proof. unfold ds_len, byte_len. cbn. lia. Qed.

Lemma de_len_sum v : de_len v = if v mod 2 =? 0 then tok_len v else tok_len v + 2.
Proof. unfold de_len, byte_len. destruct (v mod 2 =? 0); cbn; lia. Qed.
