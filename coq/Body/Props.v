(* C16 on the model, for every operation sequence: what a slot shows ([view]),
   how each operation answers in terms of that view, which operations can
   change it, and the destructor accounting. *)
From Coq Require Import List NArith Bool Arith Lia ZifyBool.
From DesVerif Require Import Body.Derive Body.Model Body.Heap Body.Inv Body.Step.
Import ListNotations.
Open Scope N_scope.

(* ---- what a user can see of a slot ---- *)
Record bview := { bv_tag : N; bv_val : N; bv_ser : N; bv_len : N; bv_clon : bool }.

Definition body_view (m : mem) (b : body) : option bview :=
  match cell_read m (data b) (vt_tag (vt b)) with
  | Some c => Some {| bv_tag := vt_tag (vt b); bv_val := cval c; bv_ser := cser c;
                      bv_len := blen b; bv_clon := vt_clone (vt b) |}
  | None => None
  end.

Inductive sview :=
| VEmpty                               (* no message in the slot *)
| VMsg (h : N) (b : option bview)      (* a message with header id h, without / with a body *)
| VBroken.                             (* the body's pointer cannot be read as its vtable's type *)

Definition msg_view (m : mem) (x : msg) : sview :=
  match content x with
  | None => VMsg (hid x) None
  | Some b => match body_view m b with Some v => VMsg (hid x) (Some v) | None => VBroken end
  end.

Definition view (st : state) (s : N) : sview :=
  match get_slot st s with None => VEmpty | Some x => msg_view (smem st) x end.

Definition obs_of (h : N) (b : option bview) : obs :=
  match b with
  | Some v => {| otag := bv_tag v; oval := bv_val v; oser := bv_ser v; oblen := bv_len v;
                 omlen := bv_len v + HEADER_LEN; ohid := h |}
  | None => {| otag := 0; oval := 0; oser := 0; oblen := 0; omlen := 0 + HEADER_LEN; ohid := h |}
  end.

(* the slot an operation may rewrite *)
Definition target (o : op) : option N :=
  match o with
  | ONew s _ _ _ _ | ONewEmpty s | OSet s _ _ _ _ | OTryCast s _ | ODrop s => Some s
  | OTryClone _ d | OClone _ d => Some d
  | _ => None
  end.

(* ---- slots other than the target ---- *)
Lemma nth_upd_other {A} i k (x d : A) l : i <> k -> nth k (upd i (fun _ => x) l) d = nth k l d.
Proof.
  intros H. rewrite !nth_nth_error, nth_error_upd. destruct (Nat.eqb_spec k i); [congruence|reflexivity].
Qed.

Lemma nth_upd_same {A} i (x d : A) l : (i < length l)%nat -> nth i (upd i (fun _ => x) l) d = x.
Proof.
  intros H. rewrite nth_nth_error, nth_error_upd, Nat.eqb_refl.
  destruct (nth_error l i) eqn:E; [reflexivity|]. apply nth_error_None in E. lia.
Qed.

Lemma step_other_slot st o s :
  (forall t, target o = Some t -> slot_ix t <> slot_ix s) -> get_slot (fst (step st o)) s = get_slot st s.
Proof.
  intros H.
  assert (P : forall t m new h, slot_ix t <> slot_ix s -> get_slot (put_slot st m t new h) s = get_slot st s).
  { intros. unfold get_slot, put_slot; cbn [slots]. apply nth_upd_other; assumption. }
  assert (Q : forall t m new h, slot_ix t <> slot_ix s -> get_slot (set_slot st m t new h) s = get_slot st s).
  { intros. unfold get_slot, set_slot; cbn [slots]. apply nth_upd_other; assumption. }
  destruct o; cbn [step target] in *.
  - destruct (msg_set_content _ _ _ _ _ _) as [[? ?] ?]. cbn [fst]. apply P, H; reflexivity.
  - cbn [fst]. apply P, H; reflexivity.
  - destruct (get_slot st s0); [|reflexivity]. destruct (msg_set_content _ _ _ _ _ _) as [[? ?] ?]. apply Q, H; reflexivity.
  - destruct (get_slot st s0); reflexivity.
  - destruct (get_slot st s0); [|reflexivity].
    destruct (msg_try_cast _ _ _) as [m1 [p|x']].
    + destruct (cell_read m1 p tag), p; cbn [fst]; apply Q, H; reflexivity.
    + cbn [fst]; apply Q, H; reflexivity.
  - destruct (get_slot st s0) as [x|]; [|reflexivity]. destruct (content x); [|reflexivity].
    destruct (body_try_content _ _ _) as [[?|]|]; reflexivity.
  - destruct (get_slot st s0); [|reflexivity]. destruct (msg_try_clone _ _); cbn [fst]; try reflexivity. apply P, H; reflexivity.
  - destruct (get_slot st s0); [|reflexivity]. destruct (msg_try_clone _ _); cbn [fst]; try reflexivity. apply P, H; reflexivity.
  - destruct (get_slot st s0); [|reflexivity]. cbn [fst]. apply P, H; reflexivity.
  - destruct (get_slot st s0); reflexivity.
  - destruct (held st); reflexivity.
  - destruct (get_slot st s0); reflexivity.
Qed.

(* ---- the ghost heap only grows ---- *)
Lemma step_mem_le st o : Inv st -> mem_le (smem st) (smem (fst (step st o))).
Proof.
  intros HI.
  assert (P : forall m t new h, mem_le (smem st) m -> mem_le (smem st) (smem (put_slot st m t new h))).
  { intros. unfold put_slot; cbn [smem]. eapply mem_le_trans; [eassumption|apply mem_le_slot_drop]. }
  destruct o.
  - cbn [step]. destruct (msg_set_content _ _ _ _ _ _) as [[m2 x'] ser] eqn:E.
    destruct (msg_set_content_spec _ _ _ _ _ _ _ _ _ E) as (m1 & b & EB & -> & ->). cbn [fst msg_drop content].
    apply P. eapply body_new_spec; eauto.
  - cbn [step fst]. apply P, mem_le_refl.
  - cbn [step]. destruct (get_slot st s) as [x|]; [|apply mem_le_refl].
    destruct (msg_set_content _ _ _ _ _ _) as [[m2 x'] ser] eqn:E.
    destruct (msg_set_content_spec _ _ _ _ _ _ _ _ _ E) as (m1 & b & EB & -> & ->). cbn [fst set_slot smem].
    eapply mem_le_trans; [eapply body_new_spec; eauto|]. change (msg_drop m1 x) with (slot_drop m1 (Some x)). apply mem_le_slot_drop.
  - cbn [step]. destruct (get_slot st s); apply mem_le_refl.
  - destruct (get_slot st s) as [x|] eqn:Hg; [|cbn [step]; rewrite Hg; apply mem_le_refl].
    destruct (msg_can_cast x tag) eqn:Hcc.
    + destruct (try_cast_ok _ _ _ _ HI Hg Hcc) as (b & i & c & _ & _ & _ & _ & ->). apply mem_le_refl.
    + destruct (try_cast_fail _ _ _ _ HI Hg Hcc) as (ob & _ & ->). apply mem_le_refl.
  - cbn [step]. destruct (get_slot st s) as [x|]; [|apply mem_le_refl]. destruct (content x); [|apply mem_le_refl].
    destruct (body_try_content _ _ _) as [[?|]|]; apply mem_le_refl.
  - cbn [step]. destruct (get_slot st s) as [x|] eqn:Hg; [|apply mem_le_refl].
    destruct (try_clone_outcome _ _ _ HI Hg) as [Hb|b Hb Hcl|b c m1 p ser Hb Hcl Hr EA]; cbn [fst]; try apply mem_le_refl.
    + apply P, mem_le_refl.
    + apply P. pose proof (alloc_spec (smem st) (ctag c) (cval c)) as A. rewrite EA in A. eapply mem_le_app, A.
  - cbn [step]. destruct (get_slot st s) as [x|] eqn:Hg; [|apply mem_le_refl].
    destruct (try_clone_outcome _ _ _ HI Hg) as [Hb|b Hb Hcl|b c m1 p ser Hb Hcl Hr EA]; cbn [fst]; try apply mem_le_refl.
    + apply P, mem_le_refl.
    + apply P. pose proof (alloc_spec (smem st) (ctag c) (cval c)) as A. rewrite EA in A. eapply mem_le_app, A.
  - cbn [step]. destruct (get_slot st s); [|apply mem_le_refl]. cbn [fst]. apply P, mem_le_refl.
  - cbn [step]. destruct (get_slot st s); apply mem_le_refl.
  - cbn [step]. destruct (held st) eqn:Hh; [apply mem_le_refl|]. cbn [fst smem]. apply mem_le_vdrop.
  - cbn [step]. destruct (get_slot st s); apply mem_le_refl.
Qed.

(* ---- a slot's view is determined by its message and the cell it points to ---- *)
Lemma view_of_slot st s x b p m1 c0 :
  Inv st -> get_slot st s = Some x -> content x = Some b -> data b = Some p ->
  mem_le m1 (smem st) -> nth_error (heap m1) p = Some c0 ->
  view st s = VMsg (hid x) (Some {| bv_tag := vt_tag (vt b); bv_val := cval c0; bv_ser := cser c0;
                                    bv_len := blen b; bv_clon := vt_clone (vt b) |}).
Proof.
  intros HI Hg Hb Hd Hle Hn. unfold view, msg_view, body_view. rewrite Hg, Hb.
  destruct (slot_body_live _ _ _ _ HI Hg Hb) as (i & c & Hd' & Hn' & _ & _ & _ & Hr). rewrite Hr.
  assert (i = p) by congruence. subst i.
  destruct (Hle _ _ Hn) as (c' & Hc' & _ & E2 & E3 & _). assert (c' = c) by congruence. subst c'.
  rewrite E2, E3. reflexivity.
Qed.

Lemma view_stable st st' s :
  Inv st -> Inv st' -> get_slot st' s = get_slot st s -> mem_le (smem st) (smem st') -> view st' s = view st s.
Proof.
  intros HI HI' Hg Hle. unfold view at 2. destruct (get_slot st s) as [x|] eqn:Hx.
  - unfold msg_view. destruct (content x) as [b|] eqn:Hb.
    + destruct (slot_body_live _ _ _ _ HI Hx Hb) as (i & c & Hd & Hn & _ & _ & _ & Hr).
      unfold body_view. rewrite Hr. eapply view_of_slot; eauto.
    + unfold view, msg_view. rewrite Hg, Hb. reflexivity.
  - unfold view. rewrite Hg. reflexivity.
Qed.

Lemma view_msg st s h bv :
  view st s = VMsg h bv ->
  exists x, get_slot st s = Some x /\ hid x = h /\
            match bv with
            | Some v => exists b, content x = Some b /\ body_view (smem st) b = Some v
            | None => content x = None
            end.
Proof.
  unfold view, msg_view. destruct (get_slot st s) as [x|]; [|discriminate]. exists x. split; [reflexivity|].
  destruct (content x) as [b|].
  - destruct (body_view (smem st) b) as [v|] eqn:Ev; [|discriminate]. injection H as <- <-. eauto.
  - injection H as <- <-. auto.
Qed.

Lemma body_view_fields m b v :
  body_view m b = Some v -> bv_tag v = vt_tag (vt b) /\ bv_len v = blen b /\ bv_clon v = vt_clone (vt b) /\
  exists c, cell_read m (data b) (vt_tag (vt b)) = Some c /\ bv_val v = cval c /\ bv_ser v = cser c.
Proof.
  unfold body_view. destruct (cell_read m (data b) (vt_tag (vt b))) as [c|]; [|discriminate].
  intros H. injection H as <-. cbn. eauto 8.
Qed.

(* ---- creation ---- *)
Definition declared_len (mode tag v L : N) : N :=
  match eff_mode tag mode with
  | 2 => ti_size (info tag)
  | 3 => L
  | _ => ti_len (info tag) (ti_norm (info tag) v)
  end.

Definition created (st : state) (mode tag v L : N) : bview :=
  {| bv_tag := tag; bv_val := ti_norm (info tag) v;
     bv_ser := if ti_ser (info tag) then next_ser (smem st) else 0;
     bv_len := declared_len mode tag v L; bv_clon := negb (eff_mode tag mode =? 1) |}.

Lemma get_put_slot st m s new h :
  length (slots st) = N.to_nat NSLOTS -> get_slot (put_slot st m s new h) s = new.
Proof.
  intros Hlen. unfold get_slot, put_slot; cbn [slots]. apply nth_upd_same. rewrite Hlen. apply slot_ix_lt.
Qed.

Lemma get_set_slot st m s new h :
  length (slots st) = N.to_nat NSLOTS -> get_slot (set_slot st m s new h) s = new.
Proof.
  intros Hlen. unfold get_slot, set_slot; cbn [slots]. apply nth_upd_same. rewrite Hlen. apply slot_ix_lt.
Qed.

Lemma new_view st s mode tag v L :
  Inv st ->
  view (fst (step st (ONew s mode tag v L))) s = VMsg (next_hid st) (Some (created st mode tag v L)) /\
  snd (step st (ONew s mode tag v L)) = RNew (bv_ser (created st mode tag v L)) (declared_len mode tag v L).
Proof.
  intros HI. pose proof (new_inv st s mode tag v L HI) as HI'. pose proof HI as [_ _ Hlen]. revert HI'. cbn [step].
  destruct (msg_set_content _ _ _ _ _ _) as [[m2 x'] ser] eqn:E.
  destruct (msg_set_content_spec _ _ _ _ _ _ _ _ _ E) as (m1 & b & EB & -> & ->). cbn [fst snd msg_drop content].
  destruct (body_new_spec _ _ _ _ _ _ _ _ EB) as (Hd & Hl & Hdr & Hle & Hn & Hv & Hbl & Hser).
  intros HI'. split.
  - rewrite (view_of_slot _ s _ b (hlen (smem st)) m1 _ HI' (get_put_slot _ _ _ _ _ Hlen) eq_refl Hd
               (mem_le_slot_drop _ _) Hn).
    cbn [hid cval cser]. rewrite Hv, Hbl, Hser. reflexivity.
  - unfold msg_body_len; cbn [content created bv_ser]. rewrite Hbl, Hser. reflexivity.
Qed.

Lemma set_view st s mode tag v L h bv :
  Inv st -> view st s = VMsg h bv ->
  view (fst (step st (OSet s mode tag v L))) s = VMsg h (Some (created st mode tag v L)) /\
  snd (step st (OSet s mode tag v L)) = RNew (bv_ser (created st mode tag v L)) (declared_len mode tag v L).
Proof.
  intros HI Hv0. pose proof (set_inv st s mode tag v L HI) as HI'. pose proof HI as [_ _ Hlen]. revert HI'. cbn [step].
  destruct (view_msg _ _ _ _ Hv0) as (x & Hg & Hh & _). rewrite Hg.
  destruct (msg_set_content _ _ _ _ _ _) as [[m2 x'] ser] eqn:E.
  destruct (msg_set_content_spec _ _ _ _ _ _ _ _ _ E) as (m1 & b & EB & -> & ->). cbn [fst snd].
  destruct (body_new_spec _ _ _ _ _ _ _ _ EB) as (Hd & Hl & Hdr & Hle & Hn & Hv & Hbl & Hser).
  intros HI'. split.
  - assert (Hle2 : mem_le m1 (msg_drop m1 x)) by (change (msg_drop m1 x) with (slot_drop m1 (Some x)); apply mem_le_slot_drop).
    rewrite (view_of_slot _ s _ b (hlen (smem st)) m1 _ HI' (get_set_slot _ _ _ _ _ Hlen) eq_refl Hd Hle2 Hn).
    cbn [hid cval cser]. rewrite Hv, Hbl, Hser, Hh. reflexivity.
  - unfold msg_body_len; cbn [content created bv_ser]. rewrite Hbl, Hser. reflexivity.
Qed.

(* ---- reads and casts, in terms of the view ---- *)
Lemma can_cast_view st s tag h bv :
  view st s = VMsg h bv ->
  step st (OCanCast s tag) = (st, RBool match bv with Some v => bv_tag v =? tag | None => false end).
Proof.
  intros Hv. destruct (view_msg _ _ _ _ Hv) as (x & Hg & _ & Hc). cbn [step]. rewrite Hg. unfold msg_can_cast.
  destruct bv as [v|].
  - destruct Hc as (b & -> & Hb). destruct (body_view_fields _ _ _ Hb) as (-> & _). reflexivity.
  - rewrite Hc. reflexivity.
Qed.

Lemma try_content_view st s tag h bv :
  view st s = VMsg h bv ->
  step st (OTryContent s tag) =
  (st, match bv with
       | Some v => if bv_tag v =? tag then RSome (bv_val v) (bv_ser v) else RNoContent
       | None => RNoContent
       end).
Proof.
  intros Hv. destruct (view_msg _ _ _ _ Hv) as (x & Hg & _ & Hc). cbn [step]. rewrite Hg.
  destruct bv as [v|].
  - destruct Hc as (b & -> & Hb). destruct (body_view_fields _ _ _ Hb) as (Ht & _ & _ & c & Hr & Hval & Hser).
    unfold body_try_content, body_is. rewrite Ht. destruct (N.eqb_spec (vt_tag (vt b)) tag) as [E|]; [|reflexivity].
    rewrite <- E, Hr, Hval, Hser. reflexivity.
  - rewrite Hc. reflexivity.
Qed.

Lemma can_cast_of_view st s x tag h bv :
  get_slot st s = Some x -> view st s = VMsg h bv ->
  msg_can_cast x tag = match bv with Some v => bv_tag v =? tag | None => false end.
Proof.
  intros Hg Hv. destruct (view_msg _ _ _ _ Hv) as (x' & Hg' & _ & Hc). assert (x' = x) by congruence. subst x'.
  unfold msg_can_cast. destruct bv as [v|].
  - destruct Hc as (b & -> & Hb). destruct (body_view_fields _ _ _ Hb) as (-> & _). reflexivity.
  - rewrite Hc. reflexivity.
Qed.

Lemma observe_of_view st s x h bv :
  get_slot st s = Some x -> view st s = VMsg h bv -> observe (smem st) x = Some (obs_of h bv).
Proof.
  intros Hg Hv. destruct (view_msg _ _ _ _ Hv) as (x' & Hg' & Hh & Hc). assert (x' = x) by congruence. subst x'.
  unfold observe, obs_of, msg_length, msg_body_len. destruct bv as [v|].
  - destruct Hc as (b & -> & Hb). destruct (body_view_fields _ _ _ Hb) as (Ht & Hl & _ & c & Hr & Hval & Hser).
    rewrite Hr, Ht, Hl, Hval, Hser, Hh. reflexivity.
  - rewrite Hc, Hh. reflexivity.
Qed.

(* a cast to any other type returns the message intact: the state is unchanged *)
Lemma try_cast_other_view st s tag h bv :
  Inv st -> view st s = VMsg h bv ->
  match bv with Some v => bv_tag v <> tag | None => True end ->
  step st (OTryCast s tag) = (st, RCastErr (obs_of h bv)).
Proof.
  intros HI Hv Hne. destruct (view_msg _ _ _ _ Hv) as (x & Hg & _ & _).
  assert (Hcc : msg_can_cast x tag = false).
  { rewrite (can_cast_of_view _ _ _ tag _ _ Hg Hv). destruct bv as [v|]; [apply N.eqb_neq; exact Hne|reflexivity]. }
  destruct (try_cast_fail _ _ _ _ HI Hg Hcc) as (ob & Ho & ->).
  rewrite (observe_of_view _ _ _ _ _ Hg Hv) in Ho. congruence.
Qed.

(* a cast to the stored type moves exactly the stored value out *)
Lemma try_cast_same_view st s h v :
  Inv st -> view st s = VMsg h (Some v) ->
  exists i c,
    step st (OTryCast s (bv_tag v)) = (set_slot st (smem st) s None (held st ++ [i]), RCast (bv_val v) (bv_ser v) h) /\
    nth_error (heap (smem st)) i = Some c /\ ctag c = bv_tag v /\ cval c = bv_val v /\ cser c = bv_ser v /\ cdrops c = 0.
Proof.
  intros HI Hv. destruct (view_msg _ _ _ _ Hv) as (x & Hg & Hh & b & Hb & Hbv).
  assert (Hcc : msg_can_cast x (bv_tag v) = true).
  { rewrite (can_cast_of_view _ _ _ (bv_tag v) _ _ Hg Hv). apply N.eqb_refl. }
  destruct (try_cast_ok _ _ _ _ HI Hg Hcc) as (b' & i & c & Hb' & Hd & Ht & Hr & ->).
  assert (b' = b) by congruence. subst b'.
  destruct (body_view_fields _ _ _ Hbv) as (Ht' & _ & _ & c' & Hr' & Hval & Hser).
  rewrite Hd, <- Ht' in Hr'. assert (c' = c) by congruence. subst c'.
  exists i, c. rewrite Hval, Hser, Hh. split; [reflexivity|].
  unfold cell_read in Hr. destruct (nth_error (heap (smem st)) i) as [c0|]; [|discriminate].
  destruct ((ctag c0 =? bv_tag v) && (cdrops c0 =? 0)) eqn:E; [|discriminate]. injection Hr as ->.
  apply andb_true_iff in E. destruct E as [E1 E2]. apply N.eqb_eq in E1, E2. repeat split; auto.
Qed.

Lemma length_view st s h bv :
  view st s = VMsg h bv ->
  step st (OLength s) = (st, RLen (match bv with Some v => bv_len v | None => 0 end + HEADER_LEN)).
Proof.
  intros Hv. destruct (view_msg _ _ _ _ Hv) as (x & Hg & _ & Hc). cbn [step]. rewrite Hg.
  unfold msg_length, msg_body_len. destruct bv as [v|].
  - destruct Hc as (b & -> & Hb). destruct (body_view_fields _ _ _ Hb) as (_ & -> & _). reflexivity.
  - rewrite Hc. reflexivity.
Qed.

Lemma observe_view st s h bv : view st s = VMsg h bv -> step st (OObserve s) = (st, RObs (obs_of h bv)).
Proof.
  intros Hv. destruct (view_msg _ _ _ _ Hv) as (x & Hg & _ & _). cbn [step]. rewrite Hg.
  rewrite (observe_of_view _ _ _ _ _ Hg Hv). reflexivity.
Qed.

Lemma view_not_broken st s : Inv st -> view st s <> VBroken.
Proof.
  intros HI. unfold view, msg_view. destruct (get_slot st s) as [x|] eqn:Hg; [|discriminate].
  destruct (content x) as [b|] eqn:Hb; [|discriminate].
  destruct (slot_body_live _ _ _ _ HI Hg Hb) as (i & c & _ & _ & _ & _ & _ & Hr).
  unfold body_view. rewrite Hr. discriminate.
Qed.
