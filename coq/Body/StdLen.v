(* Structural byte lengths: the `impl MessageBody for ..` blocks of
   des/src/net/message/body.rs (and header.rs) for the types of std, as a
   function over a value AST.  Each clause follows the Rust impl it models.
   Also: the fixed family of concrete Rust types the harness builds from script
   numbers (kind-3 scripts).  No proofs in this file. *)
From Coq Require Import List NArith Bool.
From DesVerif Require Import Body.Derive.
Import ListNotations.
Open Scope N_scope.

(* msg_body_from_mem_size!: byte_len = mem::size_of::<Self>() *)
Inductive prim := PUnit | PU8 | PU16 | PU32 | PU64 | PU128 | PUsize
                | PI8 | PI16 | PI32 | PI64 | PI128 | PIsize | PF32 | PF64 | PBool | PChar.

Definition prim_size (p : prim) : N :=
  match p with
  | PUnit => 0
  | PU8 | PI8 | PBool => 1
  | PU16 | PI16 => 2
  | PU32 | PI32 | PF32 | PChar => 4
  | PU64 | PI64 | PF64 | PUsize | PIsize => 8          (* usize/isize: 64-bit target *)
  | PU128 | PI128 => 16
  end.

(* all of these sum over their elements *)
Inductive coll := CVec | CVecDeque | CLinkedList | CArray | CSlice | CHashSet | CBTreeSet | CBinaryHeap.
Inductive mapk := MHashMap | MBTreeMap.

Inductive value :=
| VPrim (p : prim)
| VStr (n : N)                              (* String / &'static str of n bytes: self.len() *)
| VBox (x : value)                          (* Box<T>: deref *)
| VNone                                     (* Option<T>::None: 0 *)
| VSome (x : value)                         (* Option<T>::Some: content *)
| VOk (x : value) | VErr (x : value)        (* Result<T,E>: the active side *)
| VSeq (k : coll) (xs : list value)         (* Vec, VecDeque, LinkedList, [T; N], &[T], HashSet, BTreeSet, BinaryHeap *)
| VMap (k : mapk) (kvs : list (value * value))   (* HashMap, BTreeMap: sum of k + v *)
| VTuple (xs : list value)                  (* tuples of 1..10 components *)
| VIpv4 | VIpv6                             (* Ipv4Addr 4, Ipv6Addr 16; IpAddr delegates to its variant *)
| VSockV4 | VSockV6                         (* SocketAddrV4 4+2, SocketAddrV6 16+2; SocketAddr delegates *)
| VTime                                     (* time::Duration, time::SimTime: 16 *)
| VHeader                                   (* message::Header: 64 *)
| VLeaf (n : N).                            (* a value of a type with its own impl (e.g. derived) measuring n *)

Fixpoint std_byte_len (v : value) : N :=
  match v with
  | VPrim p => prim_size p
  | VStr n => n
  | VBox x => std_byte_len x
  | VNone => 0
  | VSome x => std_byte_len x
  | VOk x => std_byte_len x
  | VErr x => std_byte_len x
  | VSeq _ xs => fold_left (fun acc x => acc + std_byte_len x) xs 0       (* iter().fold(0, |acc, v| acc + v.byte_len()) / sum += .. *)
  | VMap _ kvs => fold_left (fun acc kv => acc + (std_byte_len (fst kv) + std_byte_len (snd kv))) kvs 0
  | VTuple xs => fold_right (fun x acc => std_byte_len x + acc) 0 xs      (* $($name.byte_len() +)+ 0 *)
  | VIpv4 => 4
  | VIpv6 => 16
  | VSockV4 => 4 + 2
  | VSockV6 => 16 + 2
  | VTime => 16
  | VHeader => 64
  | VLeaf n => n
  end.

(* ---- several script numbers packed into the one number a model value is ---- *)
Definition B62 : N := 4611686018427387904.

Fixpoint pack (l : list N) : N :=
  match l with
  | [] => 0
  | x :: r => 1 + x mod B62 + B62 * pack r
  end.

Fixpoint unpack_fuel (fuel : nat) (v : N) : list N :=
  match fuel with
  | O => []
  | S f => if v =? 0 then [] else ((v - 1) mod B62) :: unpack_fuel f ((v - 1) / B62)
  end.
Definition unpack (v : N) : list N := unpack_fuel (S (N.to_nat (N.log2 v))) v.

(* ---- the family of concrete types of the harness (kind-3 scripts) ---- *)
Definition NFAM : N := 19.

Definition str (n : N) : value := VStr (n mod 50).
Definition opt (n : N) (x : value) : value := if n mod 2 =? 1 then VSome x else VNone.

(* elements i .. of the script numbers *)
Definition at_ (ns : list N) (i : nat) : N := nth i ns 0.
Fixpoint upto (k : nat) : list nat := match k with O => [] | S k' => upto k' ++ [k'] end.
Definition tabulate (k : N) (f : nat -> value) : list value := map f (upto (N.to_nat k)).
Definition tabulate_kv (k : N) (f : nat -> value * value) : list (value * value) := map f (upto (N.to_nat k)).

(* #[derive(MessageBody)] struct DA { arr: [String; 2], tag: u16, opt: Option<[u8; 3]>, _pad: u32 } *)
Definition decl_DA : decl := {| dname := 20; dgen := 0; ddata := DStruct (FNamed [(1, 1); (2, 2); (3, 3); (4, 4)]) |}.

(* the static slice the harness cuts from: [None, Some(1), Some(2), None, Some(4), None, Some(6)] of Option<u32> *)
Definition static_opts : list value :=
  [VNone; VSome (VPrim PU32); VSome (VPrim PU32); VNone; VSome (VPrim PU32); VNone; VSome (VPrim PU32)].

Definition fam_value (fam : N) (ns : list N) : value :=
  let l := at_ ns in
  match fam mod NFAM with
  | 0 => VSeq CArray [str (l 0%nat); str (l 1%nat); str (l 2%nat)]                       (* [String; 3] *)
  | 1 => VSeq CArray (tabulate 4 (fun i => opt (l i) (VPrim PU32)))                       (* [Option<u32>; 4] *)
  | 2 => VSeq CVec (tabulate (l 0%nat mod 5) (fun i => str (l (S i))))                    (* Vec<String> *)
  | 3 => VSeq CVecDeque (tabulate (l 0%nat mod 6) (fun i => opt (l (S i)) (VPrim PU16)))  (* VecDeque<Option<u16>> *)
  | 4 => VTuple [VPrim PU8; str (l 0%nat)]                                                (* (u8, String) *)
  | 5 => opt (l 0%nat) (VSeq CVec (tabulate (l 1%nat mod 9) (fun _ => VPrim PU16)))       (* Option<Vec<u16>> *)
  | 6 => if l 0%nat mod 2 =? 0 then VOk (VPrim PU32) else VErr (str (l 1%nat))           (* Result<u32, String> *)
  | 7 => VBox (VSeq CArray [opt (l 0%nat) (VPrim PU64); opt (l 1%nat) (VPrim PU64)])      (* Box<[Option<u64>; 2]> *)
  | 8 => VLeaf (oget (byte_len decl_DA                                                    (* DA (derived, array field) *)
           {| rv_variant := 0;
              rv_named := [(1, std_byte_len (VSeq CArray [str (l 0%nat); str (l 1%nat)]));
                           (2, std_byte_len (VPrim PU16));
                           (3, std_byte_len (opt (l 2%nat) (VSeq CArray [VPrim PU8; VPrim PU8; VPrim PU8])));
                           (4, std_byte_len (VPrim PU32))];
              rv_pos := [] |}))
  | 9 => VSeq CLinkedList (tabulate (l 0%nat mod 4)                                       (* LinkedList<(u16, Option<String>)> *)
           (fun i => VTuple [VPrim PU16; opt (l (1 + 2 * i)%nat) (str (l (2 + 2 * i)%nat))]))
  | 10 => VMap MHashMap (tabulate_kv (l 0%nat mod 5) (fun i => (VPrim PU8, str (l (S i)))))        (* HashMap<u8, String> *)
  | 11 => VMap MBTreeMap (tabulate_kv (l 0%nat mod 4)                                     (* BTreeMap<String, Option<u32>> *)
           (fun i => (VStr (1 + l (1 + 2 * i)%nat mod 5), opt (l (2 + 2 * i)%nat) (VPrim PU32))))
  | 12 => VSeq CBTreeSet (tabulate (l 0%nat mod 5) (fun i => VStr (1 + l (S i) mod 6)))   (* BTreeSet<String> *)
  | 13 => VSeq CBinaryHeap (tabulate (l 0%nat mod 6) (fun i => opt (l (S i)) (VPrim PU8)))  (* BinaryHeap<Option<u8>> *)
  | 14 => VSeq CSlice (firstn (N.to_nat (l 1%nat mod 8)) (skipn (N.to_nat (l 0%nat mod 8)) static_opts))  (* &'static [Option<u32>] *)
  | 15 => VTuple [VTuple [VPrim PU8; VPrim PU16; VPrim PU32; VPrim PU64; VPrim PU128; VPrim PBool; VPrim PChar;
                          VPrim PF64; VPrim PUnit; VPrim PI8];
                  VTuple [VPrim PUsize; VPrim PIsize; VPrim PI16; VPrim PI32; VPrim PI64; VPrim PI128; VPrim PF32];
                  opt (l 0%nat) (VPrim PChar)]                                            (* ((10 prims), (7 prims), Option<char>) *)
  | 16 => VTuple [if l 0%nat mod 2 =? 0 then VIpv4 else VIpv6;                            (* (IpAddr, SocketAddr, Ipv4Addr, Ipv6Addr, *)
                  if l 1%nat mod 2 =? 0 then VSockV4 else VSockV6;                        (*  SocketAddrV4, SocketAddrV6, Duration, SimTime) *)
                  VIpv4; VIpv6; VSockV4; VSockV6; VTime; VTime]
  | 17 => VSeq CVec (tabulate (l 0%nat mod 4) (fun i =>                                   (* Vec<[Option<String>; 2]> *)
            VSeq CArray [if l (1 + 2 * i)%nat mod 3 =? 0 then VNone else VSome (str (l (1 + 2 * i)%nat));
                         if l (2 + 2 * i)%nat mod 3 =? 0 then VNone else VSome (str (l (2 + 2 * i)%nat))]))
  | _ => VBox (match l 0%nat mod 3 with                                                   (* Box<Result<Option<String>, [u16; 3]>> *)
               | 0 => VOk VNone
               | 1 => VOk (VSome (str (l 1%nat)))
               | _ => VErr (VSeq CArray [VPrim PU16; VPrim PU16; VPrim PU16])
               end)
  end.
