(* Model of des-macros-core/src/message_body.rs `derive_impl`: a function from
   the declaration a `#[derive(MessageBody)]` is put on to the `byte_len`
   function body it generates, plus an evaluator for that body.
   Names (type, field, variant) are numbers; types are only ever copied into
   `<ty as MessageBody>::byte_len(..)`, so a type is a number as well.
   No proofs in this file. *)
From Coq Require Import List NArith Bool.
Import ListNotations.
Open Scope N_scope.

(* ---- input: syn::Data ---- *)
Inductive fields :=
| FNamed (fs : list (N * N))      (* Fields::Named: (field ident, type) in declaration order *)
| FUnnamed (tys : list N)         (* Fields::Unnamed *)
| FUnit.                          (* Fields::Unit *)

Record variant := { vname : N; vfields : fields }.

Inductive data := DStruct (f : fields) | DEnum (vs : list variant).

(* [dgen] selects the shape of the generics (see [tparams]); the generated sum
   does not depend on it. *)
Record decl := { dname : N; dgen : N; ddata : data }.

(* ---- output: the generated `fn byte_len(&self) -> usize` ---- *)
Inductive acc :=
| ASelfField (f : N)     (* &self.f        struct, named field *)
| ASelfIndex (i : N)     (* &self.i        struct, unnamed field *)
| ARefBind (f : N)       (* f              enum: bound by `ref f` in the arm's pattern *)
| AVarBind (i : N).      (* v{i}           enum: bound positionally in the arm's pattern *)

(* one summand  <ty as ::des::net::message::MessageBody>::byte_len(acc) *)
Record term := { tty : N; tacc : acc }.

Inductive pat :=
| PStruct (v : N) (binds : list N)   (* Ident::V { ref f1, ref f2, } *)
| PTuple (v : N) (binds : list N)    (* Ident::V(v0, v1, )  -- binds = [0;1;..] *)
| PUnit (v : N).                     (* Ident::V *)

Inductive fnbody :=
| BSum (ts : list term)                      (* t1 + t2 + .. + 0 *)
| BMatch (arms : list (pat * list term)).    (* match self { pat => t1 + .. + 0, .. } *)

(* [o_bounds]: number of type parameters that received the added
   `::des::net::message::MessageBody` bound (generate_impl_generics). *)
Record output := { o_bounds : N; o_body : fnbody }.

Fixpoint enumerate_from {A} (i : N) (l : list A) : list (N * A) :=
  match l with
  | [] => []
  | x :: r => (i, x) :: enumerate_from (i + 1) r
  end.

(* generics shapes used by the correspondence scripts:
   0: none | 1: <T> | 2: <T: Copy + Eq> | 3: <T> where T: Copy | 4: <'a, T, const K: usize> | 5: <T, U> *)
Definition tparams (g : N) : N :=
  match g with
  | 0 => 0
  | 5 => 2
  | _ => 1
  end.

(* Data::Struct branch *)
Definition struct_terms (f : fields) : list term :=
  match f with
  | FNamed fs => map (fun x => {| tty := snd x; tacc := ASelfField (fst x) |}) fs
  | FUnnamed tys => map (fun x => {| tty := snd x; tacc := ASelfIndex (fst x) |}) (enumerate_from 0 tys)
  | FUnit => []
  end.

(* Data::Enum branch, one variant *)
Definition variant_arm (v : variant) : pat * list term :=
  match vfields v with
  | FNamed fs => (PStruct (vname v) (map fst fs),
                  map (fun x => {| tty := snd x; tacc := ARefBind (fst x) |}) fs)
  | FUnnamed tys => (PTuple (vname v) (map fst (enumerate_from 0 tys)),
                     map (fun x => {| tty := snd x; tacc := AVarBind (fst x) |}) (enumerate_from 0 tys))
  | FUnit => (PUnit (vname v), [])
  end.

Definition derive_impl (d : decl) : output :=
  match ddata d with
  | DStruct f => {| o_bounds := tparams (dgen d); o_body := BSum (struct_terms f) |}
  | DEnum [] => {| o_bounds := 0; o_body := BSum [] |}     (* early return: `{ 0 }`, generics dropped *)
  | DEnum vs => {| o_bounds := tparams (dgen d); o_body := BMatch (map variant_arm vs) |}
  end.

(* ---- evaluation of the generated body ---- *)
(* A run-time value of the declared type, as far as byte_len can see it: the
   active variant (ignored for structs) and the byte_len of each of ITS fields
   (by name for named fields, by position for unnamed ones). *)
Record rvalue := { rv_variant : N; rv_named : list (N * N); rv_pos : list N }.

Fixpoint assoc (k : N) (l : list (N * N)) : option N :=
  match l with
  | [] => None
  | (a, b) :: r => if a =? k then Some b else assoc k r
  end.

Definition eval_acc (rv : rvalue) (a : acc) : option N :=
  match a with
  | ASelfField f | ARefBind f => assoc f (rv_named rv)
  | ASelfIndex i | AVarBind i => nth_error (rv_pos rv) (N.to_nat i)
  end.

Fixpoint eval_terms (rv : rvalue) (ts : list term) : option N :=
  match ts with
  | [] => Some 0
  | t :: r => match eval_acc rv (tacc t), eval_terms rv r with
              | Some a, Some b => Some (a + b)
              | _, _ => None
              end
  end.

Fixpoint list_eqb (a b : list N) : bool :=
  match a, b with
  | [], [] => true
  | x :: a', y :: b' => (x =? y) && list_eqb a' b'
  | _, _ => false
  end.

(* does the pattern match the value (variant and shape)? *)
Definition pat_matches (p : pat) (rv : rvalue) : bool :=
  match p with
  | PStruct v binds => (v =? rv_variant rv) && list_eqb binds (map fst (rv_named rv))
                       && match rv_pos rv with [] => true | _ => false end
  | PTuple v binds => (v =? rv_variant rv) && (N.of_nat (length binds) =? N.of_nat (length (rv_pos rv)))
                      && match rv_named rv with [] => true | _ => false end
  | PUnit v => (v =? rv_variant rv)
               && match rv_named rv, rv_pos rv with [], [] => true | _, _ => false end
  end.

Fixpoint eval_arms (rv : rvalue) (arms : list (pat * list term)) : option N :=
  match arms with
  | [] => None
  | (p, ts) :: r => if pat_matches p rv then eval_terms rv ts else eval_arms rv r
  end.

Definition eval_body (b : fnbody) (rv : rvalue) : option N :=
  match b with
  | BSum ts => eval_terms rv ts
  | BMatch arms => eval_arms rv arms
  end.

Definition byte_len (d : decl) (rv : rvalue) : option N := eval_body (o_body (derive_impl d)) rv.

Definition sum (l : list N) : N := fold_right N.add 0 l.

(* ---- wire format of the derive scripts ---- *)
(* fields := 0 k (name ty)^k | 1 k ty^k | 2 ;   decl := name gen 0 fields | name gen 1 nv (vname fields)^nv *)
Definition NTYPES : N := 8.

Fixpoint dec_pairs (k : nat) (l : list N) : list (N * N) * list N :=
  match k, l with
  | S k', n :: t :: r => let '(ps, r') := dec_pairs k' r in ((n, t mod NTYPES) :: ps, r')
  | _, _ => ([], match k with O => l | _ => [] end)
  end.

Fixpoint dec_tys (k : nat) (l : list N) : list N * list N :=
  match k, l with
  | S k', t :: r => let '(ts, r') := dec_tys k' r in (t mod NTYPES :: ts, r')
  | _, _ => ([], match k with O => l | _ => [] end)
  end.

Definition dec_fields (l : list N) : fields * list N :=
  match l with
  | 0 :: k :: r => let '(ps, r') := dec_pairs (N.to_nat (k mod 8)) r in (FNamed ps, r')
  | 1 :: k :: r => let '(ts, r') := dec_tys (N.to_nat (k mod 8)) r in (FUnnamed ts, r')
  | _ :: r => (FUnit, r)
  | [] => (FUnit, [])
  end.

Fixpoint dec_variants (k : nat) (l : list N) : list variant :=
  match k, l with
  | S k', vn :: r => let '(f, r') := dec_fields r in {| vname := vn; vfields := f |} :: dec_variants k' r'
  | _, _ => []
  end.

Definition dec_decl (l : list N) : decl :=
  match l with
  | n :: g :: 0 :: r => {| dname := n; dgen := g mod 6; ddata := DStruct (fst (dec_fields r)) |}
  | n :: g :: _ :: nv :: r => {| dname := n; dgen := g mod 6; ddata := DEnum (dec_variants (N.to_nat (nv mod 8)) r) |}
  | n :: g :: _ => {| dname := n; dgen := g mod 6; ddata := DStruct FUnit |}
  | _ => {| dname := 0; dgen := 0; ddata := DStruct FUnit |}
  end.

Definition enc_acc (a : acc) : list N :=
  match a with
  | ASelfField f => [1; f]
  | ASelfIndex i => [2; i]
  | ARefBind f => [3; f]
  | AVarBind i => [4; i]
  end.

Definition enc_terms (ts : list term) : list N :=
  N.of_nat (length ts) :: flat_map (fun t => tty t :: enc_acc (tacc t)) ts.

Definition enc_pat (p : pat) : list N :=
  match p with
  | PStruct v bs => 1 :: v :: N.of_nat (length bs) :: bs
  | PTuple v bs => 2 :: v :: N.of_nat (length bs) :: bs
  | PUnit v => [3; v; 0]
  end.

Definition enc_output (o : output) : list N :=
  o_bounds o ::
  match o_body o with
  | BSum ts => 1 :: enc_terms ts
  | BMatch arms => 2 :: N.of_nat (length arms) :: flat_map (fun a => enc_pat (fst a) ++ enc_terms (snd a)) arms
  end.

(* kind-1 script: the canonical form of derive_impl's output on the decoded declaration *)
Definition run_derive (l : list N) : list N := enc_output (derive_impl (dec_decl l)).

(* ---- a fixed family of derived types, compiled into the harness (kind-2 scripts) ---- *)
(* every leaf field has type L with byte_len = the number it holds *)
Definition named (ns : list N) : fields := FNamed (map (fun n => (n, 0)) ns).
Definition unnamed (k : nat) : fields := FUnnamed (repeat 0 k).

Definition fam_S0 := {| dname := 0; dgen := 0; ddata := DStruct FUnit |}.                      (* struct S0; *)
Definition fam_S1 := {| dname := 1; dgen := 0; ddata := DStruct (named [1; 2; 3]) |}.          (* struct S1 { a, b, c } *)
Definition fam_S2 := {| dname := 2; dgen := 0; ddata := DStruct (unnamed 2) |}.                (* struct S2(L, L); *)
Definition fam_E3 := {| dname := 3; dgen := 0; ddata := DEnum [                                (* enum E3 { A, B(L,L,L), C { x, y }, D(L) } *)
   {| vname := 0; vfields := FUnit |}; {| vname := 1; vfields := unnamed 3 |};
   {| vname := 2; vfields := named [1; 2] |}; {| vname := 3; vfields := unnamed 1 |}] |}.
Definition fam_S4 := {| dname := 4; dgen := 1; ddata := DStruct (named [1; 2]) |}.             (* struct S4<T> { a: T, b: L } *)
Definition fam_S5 := {| dname := 5; dgen := 0; ddata := DStruct (named [1; 2; 3; 4]) |}.       (* struct S5 { inner: S1, e: E3, o: Option<L>, v: Vec<L> } *)

(* field NAMES as a dimension (the macro sees identifiers): 1,2,3.. ordinary; in the harness
   S6 { _pad: L, r#type: L, x: L, _tag: L }   and   enum E7 { A { _a: L, b: L }, B(L), C { r#match: L, _z: L } } *)
Definition fam_S6 := {| dname := 6; dgen := 0; ddata := DStruct (named [1; 2; 3; 4]) |}.
Definition fam_E7 := {| dname := 7; dgen := 0; ddata := DEnum [
   {| vname := 0; vfields := named [1; 2] |}; {| vname := 1; vfields := unnamed 1 |};
   {| vname := 2; vfields := named [1; 2] |}] |}.

Definition nthN (l : list N) (i : nat) : N := nth i l 0.

Definition rv_struct_named (ns ls : list N) := {| rv_variant := 0; rv_named := combine ns ls; rv_pos := [] |}.
Definition rv_struct_pos (ls : list N) := {| rv_variant := 0; rv_named := []; rv_pos := ls |}.

Definition e3_value (k : N) (a b c : N) : rvalue :=
  match k mod 4 with
  | 0 => {| rv_variant := 0; rv_named := []; rv_pos := [] |}
  | 1 => {| rv_variant := 1; rv_named := []; rv_pos := [a; b; c] |}
  | 2 => {| rv_variant := 2; rv_named := [(1, a); (2, b)]; rv_pos := [] |}
  | _ => {| rv_variant := 3; rv_named := []; rv_pos := [a] |}
  end.

Definition e7_value (k : N) (a b : N) : rvalue :=
  match k mod 3 with
  | 0 => {| rv_variant := 0; rv_named := [(1, a); (2, b)]; rv_pos := [] |}
  | 1 => {| rv_variant := 1; rv_named := []; rv_pos := [a] |}
  | _ => {| rv_variant := 2; rv_named := [(1, a); (2, b)]; rv_pos := [] |}
  end.

Definition oget (o : option N) : N := match o with Some x => x | None => 999999 end.

(* script: fam k l0 .. l9  (missing numbers are 0; each l is reduced mod 1000) *)
Definition fam_len (fam k : N) (ls : list N) : N :=
  let l := fun i => nthN ls i mod 1000 in
  match fam mod 8 with
  | 0 => oget (byte_len fam_S0 (rv_struct_pos []))
  | 1 => oget (byte_len fam_S1 (rv_struct_named [1; 2; 3] [l 0%nat; l 1%nat; l 2%nat]))
  | 2 => oget (byte_len fam_S2 (rv_struct_pos [l 0%nat; l 1%nat]))
  | 3 => oget (byte_len fam_E3 (e3_value k (l 0%nat) (l 1%nat) (l 2%nat)))
  | 4 => oget (byte_len fam_S4 (rv_struct_named [1; 2] [l 0%nat; l 1%nat]))
  | 6 => oget (byte_len fam_S6 (rv_struct_named [1; 2; 3; 4] [l 0%nat; l 1%nat; l 2%nat; l 3%nat]))
  | 7 => oget (byte_len fam_E7 (e7_value k (l 0%nat) (l 1%nat)))
  | _ => let inner := oget (byte_len fam_S1 (rv_struct_named [1; 2; 3] [l 0%nat; l 1%nat; l 2%nat])) in
         let e := oget (byte_len fam_E3 (e3_value k (l 3%nat) (l 4%nat) (l 5%nat))) in
         let o := if (l 6%nat) mod 2 =? 1 then l 7%nat else 0 in        (* Option<L>: Some(L(l7)) | None *)
         let v := (l 9%nat mod 4) * l 8%nat in                          (* Vec<L>: (l9 mod 4) copies of L(l8) *)
         oget (byte_len fam_S5 (rv_struct_named [1; 2; 3; 4] [inner; e; o; v]))
  end.

Definition run_family (l : list N) : list N :=
  match l with
  | fam :: k :: ls => [15; fam_len fam k ls]
  | _ => [7]
  end.
