(* List and ghost-heap lemmas for the message-body model: functional update,
   destructor counters, reference counting of box pointers. *)
From Coq Require Import List NArith Bool Arith Lia ZifyBool.
From DesVerif Require Import Body.Derive Body.Model.
Import ListNotations.
Open Scope N_scope.

Arguments N.add : simpl never.
Arguments N.mul : simpl never.
Arguments N.modulo : simpl never.
Arguments N.sub : simpl never.

(* ---- upd / nth_error ---- *)
Lemma upd_length {A} i f (l : list A) : length (upd i f l) = length l.
Proof. revert i; induction l as [|x r IH]; intros [|i]; cbn [upd length]; auto. Qed.

Lemma nth_error_upd {A} i f (l : list A) k :
  nth_error (upd i f l) k = if Nat.eqb k i then option_map f (nth_error l k) else nth_error l k.
Proof.
  revert i k; induction l as [|x r IH]; intros i k.
  - destruct i, k; cbn; try reflexivity; destruct (Nat.eqb k i); reflexivity.
  - destruct i as [|i], k as [|k]; cbn [upd nth_error Nat.eqb option_map]; try reflexivity. apply IH.
Qed.

Lemma nth_nth_error {A} i (l : list A) d : nth i l d = match nth_error l i with Some x => x | None => d end.
Proof. revert i; induction l as [|x r IH]; intros [|i]; cbn; auto. Qed.

Lemma upd_same {A} i (x : A) l : nth_error l i = Some x -> upd i (fun _ => x) l = l.
Proof.
  revert i; induction l as [|y r IH]; intros [|i] H; cbn in *; try discriminate; auto.
  - injection H as ->; reflexivity.
  - f_equal; auto.
Qed.

Lemma nth_error_app_last {A} (l : list A) x k :
  nth_error (l ++ [x]) k = if Nat.eqb k (length l) then Some x else nth_error l k.
Proof.
  revert k; induction l as [|y r IH]; intros [|k]; cbn [app nth_error length Nat.eqb]; auto.
  destruct k; reflexivity.
Qed.

(* ---- reference counting ---- *)
Fixpoint cnt (j : nat) (l : list nat) : N :=
  match l with
  | [] => 0
  | x :: r => (if Nat.eqb x j then 1 else 0) + cnt j r
  end.

Lemma cnt_app j a b : cnt j (a ++ b) = cnt j a + cnt j b.
Proof. induction a as [|x r IH]; cbn [app cnt]; lia. Qed.

Lemma cnt_pos_In j l : 0 < cnt j l -> In j l.
Proof.
  induction l as [|x r IH]; cbn [cnt In]; [lia|].
  destruct (Nat.eqb_spec x j); [auto|]. intros H. right. apply IH. lia.
Qed.

Lemma In_cnt_pos j l : In j l -> 0 < cnt j l.
Proof.
  induction l as [|x r IH]; cbn [cnt In]; [tauto|].
  intros [->|H]; [rewrite Nat.eqb_refl; lia|]. specialize (IH H). lia.
Qed.

Lemma cnt_le1_NoDup l : (forall j, cnt j l <= 1) -> NoDup l.
Proof.
  induction l as [|x r IH]; intros H; constructor.
  - intros Hin. apply In_cnt_pos in Hin. specialize (H x). cbn [cnt] in H. rewrite Nat.eqb_refl in H. lia.
  - apply IH. intros j. specialize (H j). cbn [cnt] in H. lia.
Qed.

Lemma cnt_remove_nth j l i p :
  nth_error l i = Some p -> cnt j l = cnt j (remove_nth i l) + (if Nat.eqb p j then 1 else 0).
Proof.
  revert i; induction l as [|x r IH]; intros [|i] H; cbn in H; try discriminate.
  - injection H as ->. cbn [remove_nth cnt]. lia.
  - cbn [remove_nth cnt]. rewrite (IH _ H). lia.
Qed.

Lemma cnt_flat_upd {A} (f : A -> list nat) j i x d (l : list A) :
  (i < length l)%nat ->
  cnt j (flat_map f (upd i (fun _ => x) l)) + cnt j (f (nth i l d)) = cnt j (flat_map f l) + cnt j (f x).
Proof.
  revert i; induction l as [|y r IH]; intros [|i] H; cbn [length] in H; try lia.
  - cbn [upd flat_map nth]. rewrite !cnt_app. lia.
  - cbn [upd flat_map nth]. rewrite !cnt_app. specialize (IH i ltac:(lia)). lia.
Qed.

(* ---- destructor counters ---- *)
Definition drops (m : mem) (j : nat) : N :=
  match nth_error (heap m) j with Some c => cdrops c | None => 0 end.

Definition hlen (m : mem) : nat := length (heap m).

Lemma hlen_drop_cell i m : hlen (drop_cell i m) = hlen m.
Proof. unfold hlen, drop_cell; cbn [heap]. apply upd_length. Qed.

Lemma drops_drop_cell m i j :
  (i < hlen m)%nat -> drops (drop_cell i m) j = drops m j + (if Nat.eqb i j then 1 else 0).
Proof.
  unfold hlen, drops, drop_cell; cbn [heap]. intros H. rewrite nth_error_upd.
  rewrite (Nat.eqb_sym i j). destruct (Nat.eqb_spec j i) as [->|].
  - destruct (nth_error (heap m) i) eqn:E; [cbn; lia|]. apply nth_error_None in E. lia.
  - lia.
Qed.

Lemma nth_error_drop_cell m i k :
  nth_error (heap (drop_cell i m)) k =
  if Nat.eqb k i then option_map bump (nth_error (heap m) k) else nth_error (heap m) k.
Proof. unfold drop_cell; cbn [heap]. apply nth_error_upd. Qed.

Lemma alloc_spec m tag v :
  let '(m', p, ser) := alloc m tag v in
  p = hlen m /\ hlen m' = S (hlen m) /\
  heap m' = heap m ++ [{| ctag := tag; cval := v; cser := ser; cdrops := 0 |}].
Proof.
  unfold alloc, hlen; cbn [heap]. rewrite app_length; cbn [length]. repeat split; lia.
Qed.

Lemma drops_app_fresh m m' c j :
  heap m' = heap m ++ [c] -> cdrops c = 0 -> drops m' j = drops m j.
Proof.
  unfold drops; intros -> H0. rewrite nth_error_app_last.
  destruct (Nat.eqb_spec j (length (heap m))) as [->|]; [|reflexivity].
  rewrite (proj2 (nth_error_None _ _)); [auto|lia].
Qed.

(* ---- a heap extension keeps every existing value (tag, value, serial) ---- *)
Definition mem_le (m m' : mem) : Prop :=
  forall i c, nth_error (heap m) i = Some c ->
    exists c', nth_error (heap m') i = Some c' /\ ctag c' = ctag c /\ cval c' = cval c /\ cser c' = cser c /\ cdrops c <= cdrops c'.

Lemma mem_le_refl m : mem_le m m.
Proof. intros i c H; exists c; repeat split; auto; lia. Qed.

Lemma mem_le_trans a b c : mem_le a b -> mem_le b c -> mem_le a c.
Proof.
  intros H1 H2 i x Hx. destruct (H1 _ _ Hx) as (y & Hy & E1 & E2 & E3 & E4).
  destruct (H2 _ _ Hy) as (z & Hz & F1 & F2 & F3 & F4). exists z. repeat split; try congruence. lia.
Qed.

Lemma mem_le_drop_cell i m : mem_le m (drop_cell i m).
Proof.
  intros k c H. rewrite nth_error_drop_cell, H. destruct (Nat.eqb k i); cbn [option_map].
  - exists (bump c). repeat split; cbn; auto; lia.
  - exists c. repeat split; auto; lia.
Qed.

Lemma mem_le_app m m' c : heap m' = heap m ++ [c] -> mem_le m m'.
Proof.
  intros E i x H. exists x. rewrite E, nth_error_app_last.
  assert (i < length (heap m))%nat by (apply nth_error_Some; congruence).
  destruct (Nat.eqb_spec i (length (heap m))); [lia|]. repeat split; auto; lia.
Qed.

Lemma mem_le_vdrop m p : mem_le m (vdrop m p).
Proof. destruct p; cbn [vdrop]; [apply mem_le_drop_cell|apply mem_le_refl]. Qed.
