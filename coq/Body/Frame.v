(* Value preservation over operation sequences: nothing but an overwrite, a
   drop or a cast to the stored type changes what a slot shows; clones show
   the same value; destructor accounting at tear-down. *)
From Coq Require Import List NArith Bool Arith Lia ZifyBool.
From DesVerif Require Import Body.Derive Body.Model Body.Heap Body.Inv Body.Step Body.Props.
Import ListNotations.
Open Scope N_scope.

(* [o] may change what slot [s] shows while it holds a body of type [tag0]:
   it rewrites the slot, or casts it to exactly [tag0] *)
Definition touches (tag0 : N) (s : N) (o : op) : Prop :=
  match o with
  | OTryCast t tag => slot_ix t = slot_ix s /\ tag = tag0
  | _ => exists t, target o = Some t /\ slot_ix t = slot_ix s
  end.

Lemma view_same_ix st t s : slot_ix t = slot_ix s -> view st t = view st s.
Proof. intros H. unfold view, get_slot. rewrite H. reflexivity. Qed.

Lemma view_step_other st o s :
  Inv st -> (forall t, target o = Some t -> slot_ix t <> slot_ix s) -> view (fst (step st o)) s = view st s.
Proof.
  intros HI H. apply view_stable; auto using step_inv, step_other_slot, step_mem_le.
Qed.

Lemma view_step_frame st o s h v :
  Inv st -> view st s = VMsg h (Some v) -> ~ touches (bv_tag v) s o -> view (fst (step st o)) s = view st s.
Proof.
  intros HI Hv Hnt.
  assert (G : (forall t, target o = Some t -> slot_ix t <> slot_ix s) -> view (fst (step st o)) s = view st s)
    by (apply view_step_other; exact HI).
  destruct o; try (apply G; cbn [target]; intros t E Heq; apply Hnt; cbn [touches target]; eauto; fail).
  (* OTryCast *)
  destruct (Nat.eq_dec (slot_ix s0) (slot_ix s)) as [Heq|Hne].
  - assert (Hne : bv_tag v <> tag) by (intros E; apply Hnt; cbn [touches]; auto).
    rewrite <- (view_same_ix st _ _ Heq) in Hv.
    rewrite (try_cast_other_view st s0 tag h (Some v) HI Hv Hne). reflexivity.
  - apply G. cbn [target]. intros t E. injection E as <-. exact Hne.
Qed.

Lemma run_from_cons_fst st o r : fst (run_from st (o :: r)) = fst (run_from (fst (step st o)) r).
Proof. cbn [run_from]. destruct (step st o) as [st1 x]. cbn [fst]. destruct (run_from st1 r). reflexivity. Qed.

Lemma run_from_app_fst a : forall st b, fst (run_from st (a ++ b)) = fst (run_from (fst (run_from st a)) b).
Proof.
  induction a as [|o r IH]; intros st b; [reflexivity|].
  rewrite <- app_comm_cons, !run_from_cons_fst. apply IH.
Qed.

Lemma final_app a b : final (a ++ b) = fst (run_from (final a) b).
Proof. apply run_from_app_fst. Qed.

Lemma view_run_frame s h v ops : forall st,
  Inv st -> view st s = VMsg h (Some v) -> Forall (fun o => ~ touches (bv_tag v) s o) ops ->
  view (fst (run_from st ops)) s = VMsg h (Some v).
Proof.
  induction ops as [|o r IH]; intros st HI Hv HF; [exact Hv|].
  rewrite run_from_cons_fst. inversion HF as [|? ? Ho Hr]; subst.
  apply IH; [apply step_inv; exact HI| |exact Hr].
  rewrite (view_step_frame st o s h v HI Hv Ho). exact Hv.
Qed.

(* What was put in is what the slot shows, after ANY sequence of operations
   that neither overwrite/drop the slot nor cast it to the stored type: failed
   casts and borrows with other types, reads, clones of it, anything on other
   slots or on cast-out values. *)
Theorem value_preserved ops s mode tag v L ops' :
  Forall (fun o => ~ touches tag s o) ops' ->
  view (final (ops ++ ONew s mode tag v L :: ops')) s =
  VMsg (next_hid (final ops)) (Some (created (final ops) mode tag v L)).
Proof.
  intros HF. rewrite final_app, run_from_cons_fst.
  pose proof (inv_reachable ops) as HI.
  destruct (new_view (final ops) s mode tag v L HI) as [Hv _].
  apply view_run_frame; [apply step_inv; exact HI|exact Hv|exact HF].
Qed.

Theorem value_preserved_set ops s mode tag v L ops' h bv :
  view (final ops) s = VMsg h bv ->
  Forall (fun o => ~ touches tag s o) ops' ->
  view (final (ops ++ OSet s mode tag v L :: ops')) s = VMsg h (Some (created (final ops) mode tag v L)).
Proof.
  intros Hv0 HF. rewrite final_app, run_from_cons_fst.
  pose proof (inv_reachable ops) as HI.
  destruct (set_view (final ops) s mode tag v L h bv HI Hv0) as [Hv _].
  apply view_run_frame; [apply step_inv; exact HI|exact Hv|exact HF].
Qed.

(* ---- clones ---- *)
Definition clone_of (st : state) (v : bview) : bview :=
  {| bv_tag := bv_tag v; bv_val := bv_val v;
     bv_ser := if ti_ser (info (bv_tag v)) then next_ser (smem st) else 0;
     bv_len := bv_len v; bv_clon := bv_clon v |}.

Lemma clone_view st s d h bv :
  Inv st -> view st s = VMsg h bv ->
  match bv with
  | Some v =>
      if bv_clon v then
        step st (OClone s d) = step st (OTryClone s d) /\
        snd (step st (OTryClone s d)) = RCloned (bv_ser (clone_of st v)) /\
        view (fst (step st (OTryClone s d))) d = VMsg h (Some (clone_of st v))
      else step st (OTryClone s d) = (st, RNotClonable) /\ step st (OClone s d) = (st, RPanic 1)
  | None =>
      step st (OClone s d) = step st (OTryClone s d) /\
      snd (step st (OTryClone s d)) = RCloned 0 /\
      view (fst (step st (OTryClone s d))) d = VMsg h None
  end.
Proof.
  intros HI Hv. pose proof HI as [_ _ Hlen].
  destruct (view_msg _ _ _ _ Hv) as (x & Hg & Hh & Hc).
  pose proof (try_clone_inv st s d HI) as HI'. revert HI'.
  pose proof (try_clone_outcome _ _ _ HI Hg) as Ho. cbn [step]. rewrite Hg.
  remember (msg_try_clone (smem st) x) as r eqn:Er.
  destruct Ho as [Hb|b Hb Hcl|b c m1 p ser Hb Hcl Hr EA]; cbn [fst snd].
  - destruct bv as [v|]; [destruct Hc as (b & Hb' & _); congruence|]. intros HI'.
    repeat split. unfold view. rewrite get_put_slot by exact Hlen. unfold msg_view; cbn [content hid]. congruence.
  - destruct bv as [v|]; [|congruence]. destruct Hc as (b' & Hb' & Hbv). assert (b' = b) by congruence. subst b'.
    destruct (body_view_fields _ _ _ Hbv) as (_ & _ & -> & _). rewrite Hcl. auto.
  - destruct bv as [v|]; [|congruence]. destruct Hc as (b' & Hb' & Hbv). assert (b' = b) by congruence. subst b'.
    destruct (body_view_fields _ _ _ Hbv) as (Ht & Hl & Hcl' & c' & Hr' & Hval & Hser).
    assert (c' = c) by congruence. subst c'. rewrite Hcl', Hcl. intros HI'.
    pose proof (alloc_spec (smem st) (ctag c) (cval c)) as A. rewrite EA in A. destruct A as (Hp & Hlen1 & Hh1).
    assert (Htag : ctag c = vt_tag (vt b)).
    { unfold cell_read in Hr. destruct (data b) as [i|]; [|discriminate].
      destruct (nth_error (heap (smem st)) i) as [c0|]; [|discriminate].
      destruct ((ctag c0 =? vt_tag (vt b)) && (cdrops c0 =? 0)) eqn:E; [|discriminate]. injection Hr as ->.
      apply andb_true_iff in E. destruct E as [E _]. apply N.eqb_eq in E. exact E. }
    assert (Hser' : ser = if ti_ser (info (bv_tag v)) then next_ser (smem st) else 0).
    { unfold alloc in EA. rewrite Ht, <- Htag. congruence. }
    repeat split.
    + unfold clone_of; cbn [bv_ser]. congruence.
    + rewrite (view_of_slot _ d _ {| data := Some p; blen := blen b; vt := vt b |} p m1
                 {| ctag := ctag c; cval := cval c; cser := ser; cdrops := 0 |} HI'
                 (get_put_slot _ _ _ _ _ Hlen) eq_refl eq_refl (mem_le_slot_drop _ _)).
      * cbn [hid vt blen cval cser]. unfold clone_of. rewrite Hser', Ht, Hl, Hcl', Hval, Hh. reflexivity.
      * rewrite Hh1, nth_error_app_last, Hp. unfold hlen. rewrite Nat.eqb_refl. reflexivity.
Qed.

(* the source of a clone is not affected by it (unless it is the target) *)
Lemma clone_source_unchanged st s d :
  Inv st -> slot_ix d <> slot_ix s ->
  view (fst (step st (OTryClone s d))) s = view st s /\ view (fst (step st (OClone s d))) s = view st s.
Proof.
  intros HI Hne. split; apply view_step_other; auto; cbn [target]; intros t E; injection E as <-; exact Hne.
Qed.

(* ---- destructor accounting ---- *)
Lemma fold_slot_drop j l : forall m,
  (forall i, In i (flat_map slot_refs l) -> (i < hlen m)%nat) ->
  hlen (fold_left slot_drop l m) = hlen m /\ mem_le m (fold_left slot_drop l m) /\
  drops (fold_left slot_drop l m) j = drops m j + cnt j (flat_map slot_refs l).
Proof.
  induction l as [|o r IH]; intros m Hb; cbn [fold_left flat_map cnt].
  - repeat split; [apply mem_le_refl|lia].
  - destruct (IH (slot_drop m o)) as (H1 & H2 & H3).
    { intros i Hi. rewrite hlen_slot_drop. apply Hb. apply in_or_app. right. exact Hi. }
    rewrite H1, H3, hlen_slot_drop, drops_slot_drop, cnt_app.
    + repeat split; [|lia]. eapply mem_le_trans; [apply mem_le_slot_drop|exact H2].
    + intros i Hi. apply Hb. apply in_or_app. left. exact Hi.
Qed.

Lemma fold_drop_cell j l : forall m,
  (forall i, In i l -> (i < hlen m)%nat) ->
  hlen (fold_left (fun m i => drop_cell i m) l m) = hlen m /\
  mem_le m (fold_left (fun m i => drop_cell i m) l m) /\
  drops (fold_left (fun m i => drop_cell i m) l m) j = drops m j + cnt j l.
Proof.
  induction l as [|p r IH]; intros m Hb; cbn [fold_left cnt].
  - repeat split; [apply mem_le_refl|lia].
  - destruct (IH (drop_cell p m)) as (H1 & H2 & H3).
    { intros i Hi. rewrite hlen_drop_cell. apply Hb. right. exact Hi. }
    rewrite H1, H3, hlen_drop_cell, drops_drop_cell by (apply Hb; left; reflexivity).
    repeat split; [|lia]. eapply mem_le_trans; [apply mem_le_drop_cell|exact H2].
Qed.

Lemma refs_bound st i : Inv st -> In i (refs st) -> (i < hlen (smem st))%nat.
Proof.
  intros [Hc _ _] Hin. apply (count_bound st (smem st) (fun _ => 0)); [|exact Hin].
  intros j. specialize (Hc j). lia.
Qed.

(* At every point of every operation sequence each stored value (ghost cell j)
   is either referenced exactly once and not destroyed, or unreferenced and
   destroyed exactly once; no pointer is dangling.  After the tear-down every
   value has been destroyed exactly once, and none has vanished. *)
Theorem drop_exactly_once ops :
  let st := final ops in
  (forall j, (j < hlen (smem st))%nat ->
     (cnt j (refs st) = 1 /\ drops (smem st) j = 0) \/ (cnt j (refs st) = 0 /\ drops (smem st) j = 1)) /\
  (forall j, In j (refs st) -> (j < hlen (smem st))%nat) /\
  NoDup (refs st) /\
  hlen (smem (finish st)) = hlen (smem st) /\ mem_le (smem st) (smem (finish st)) /\
  (forall j, (j < hlen (smem (finish st)))%nat -> drops (smem (finish st)) j = 1).
Proof.
  intros st. pose proof (inv_reachable ops) as HI. fold st in HI. pose proof HI as [Hc _ _].
  assert (Hcases : forall j, (j < hlen (smem st))%nat ->
     (cnt j (refs st) = 1 /\ drops (smem st) j = 0) \/ (cnt j (refs st) = 0 /\ drops (smem st) j = 1)).
  { intros j Hj. specialize (Hc j). unfold one_if in Hc. destruct (Nat.ltb_spec j (hlen (smem st))); lia. }
  split; [exact Hcases|]. split; [intros j; apply refs_bound; exact HI|]. split.
  { apply cnt_le1_NoDup. intros j. specialize (Hc j). unfold one_if in Hc. destruct (j <? hlen (smem st))%nat; lia. }
  unfold finish; cbn [smem].
  assert (Hb1 : forall i, In i (flat_map slot_refs (slots st)) -> (i < hlen (smem st))%nat).
  { intros i Hi. apply refs_bound; [exact HI|]. unfold refs. apply in_or_app. left. exact Hi. }
  pose proof (fun j => fold_slot_drop j (slots st) (smem st) Hb1) as F1.
  set (m1 := fold_left slot_drop (slots st) (smem st)) in *.
  assert (Hb2 : forall i, In i (held st) -> (i < hlen m1)%nat).
  { intros i Hi. destruct (F1 0%nat) as (-> & _). apply refs_bound; [exact HI|]. unfold refs. apply in_or_app. right. exact Hi. }
  pose proof (fun j => fold_drop_cell j (held st) m1 Hb2) as F2.
  destruct (F1 0%nat) as (L1 & M1 & _). destruct (F2 0%nat) as (L2 & M2 & _).
  split; [congruence|]. split; [eapply mem_le_trans; eauto|].
  intros j Hj. destruct (F1 j) as (_ & _ & D1). destruct (F2 j) as (_ & _ & D2). rewrite D2, D1.
  rewrite L2, L1 in Hj. specialize (Hc j). unfold refs in Hc. rewrite cnt_app in Hc. unfold one_if in Hc.
  destruct (Nat.ltb_spec j (hlen (smem st))); lia.
Qed.

(* a value's ghost cell persists, with its tag, value and serial, through everything that follows *)
Lemma run_from_mem_le ops : forall st, Inv st -> mem_le (smem st) (smem (fst (run_from st ops))).
Proof.
  induction ops as [|o r IH]; intros st HI; [apply mem_le_refl|].
  rewrite run_from_cons_fst. eapply mem_le_trans; [apply step_mem_le; exact HI|]. apply IH, step_inv, HI.
Qed.

Theorem heap_persists ops ops' : mem_le (smem (final ops)) (smem (final (ops ++ ops'))).
Proof. rewrite final_app. apply run_from_mem_le, inv_reachable. Qed.
