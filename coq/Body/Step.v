(* Every operation of the script language preserves the ownership invariant,
   never reaches undefined behaviour, only extends the heap, and leaves the
   slots it does not name untouched. *)
From Coq Require Import List NArith Bool Arith Lia ZifyBool.
From DesVerif Require Import Body.Derive Body.Model Body.Heap Body.Inv.
Import ListNotations.
Open Scope N_scope.

Lemma ltb_S_if j n :
  one_if (j <? S n)%nat = one_if (j <? n)%nat + one_if (Nat.eqb n j).
Proof.
  unfold one_if. destruct (Nat.ltb_spec j (S n)), (Nat.ltb_spec j n), (Nat.eqb_spec n j); lia.
Qed.

Lemma cnt_one j p : cnt j [p] = one_if (Nat.eqb p j).
Proof. cbn [cnt]. unfold one_if. lia. Qed.

Lemma init_inv : Inv init.
Proof.
  constructor.
  - intros j. cbn. destruct j; reflexivity.
  - cbn. repeat constructor.
  - reflexivity.
Qed.

(* ---- Message::set_content & co. ---- *)
Lemma msg_set_content_spec m x mode tag v L m2 x' ser :
  msg_set_content m x mode tag v L = (m2, x', ser) ->
  exists m1 b, body_new m mode tag v L = (m1, b, ser) /\ m2 = msg_drop m1 x /\ x' = {| hid := hid x; content := Some b |}.
Proof.
  unfold msg_set_content. destruct (body_new m mode tag v L) as [[m1 b] ser'] eqn:E.
  intros H. injection H as <- <- <-. eauto.
Qed.

Lemma new_inv st s mode tag v L : Inv st -> Inv (fst (step st (ONew s mode tag v L))).
Proof.
  intros [Hc Hok Hlen]. cbn [step].
  destruct (msg_set_content (smem st) {| hid := next_hid st; content := None |} mode tag v L) as [[m2 x'] ser] eqn:E.
  destruct (msg_set_content_spec _ _ _ _ _ _ _ _ _ E) as (m1 & b & EB & -> & ->). cbn [fst msg_drop content].
  destruct (body_new_spec _ _ _ _ _ _ _ _ EB) as (Hd & Hl & Hdr & Hle & _).
  apply put_slot_inv; auto.
  - intros j. cbn [slot_refs]. unfold msg_refs, body_refs; cbn [content]. rewrite Hd, cnt_one, Hdr, Hl, ltb_S_if.
    specialize (Hc j). lia.
  - eapply Forall_slot_ok_le; eauto.
  - cbn [slot_ok content]. eapply body_new_ok; eauto.
Qed.

Lemma new_empty_inv st s : Inv st -> Inv (fst (step st (ONewEmpty s))).
Proof.
  intros [Hc Hok Hlen]. cbn [step fst]. apply put_slot_inv; auto.
  - intros j. cbn [slot_refs]. unfold msg_refs; cbn [content cnt]. specialize (Hc j). lia.
  - cbn. exact I.
Qed.

Lemma slot_refs_bound st s i :
  Inv st -> In i (slot_refs (get_slot st s)) -> (i < hlen (smem st))%nat.
Proof.
  intros [Hc _ Hlen] Hin. apply (count_bound st (smem st) (fun _ => 0)).
  - intros j. specialize (Hc j). lia.
  - eapply slot_refs_in_refs; eauto.
Qed.

Lemma set_inv st s mode tag v L : Inv st -> Inv (fst (step st (OSet s mode tag v L))).
Proof.
  intros HI. pose proof HI as [Hc Hok Hlen]. cbn [step].
  destruct (get_slot st s) as [x|] eqn:Hg; [|exact HI].
  destruct (msg_set_content (smem st) x mode tag v L) as [[m2 x'] ser] eqn:E.
  destruct (msg_set_content_spec _ _ _ _ _ _ _ _ _ E) as (m1 & b & EB & -> & ->). cbn [fst].
  destruct (body_new_spec _ _ _ _ _ _ _ _ EB) as (Hd & Hl & Hdr & Hle & _).
  change (msg_drop m1 x) with (slot_drop m1 (Some x)).
  apply set_slot_inv; auto.
  - intros j. rewrite hlen_slot_drop, drops_slot_drop.
    2:{ intros i Hi. rewrite Hl. apply Nat.lt_lt_succ_r. eapply slot_refs_bound; [exact HI|]. rewrite Hg. exact Hi. }
    rewrite Hg. cbn [slot_refs]. unfold msg_refs at 1, body_refs; cbn [content]. rewrite Hd, cnt_one, Hdr, Hl, ltb_S_if.
    specialize (Hc j). lia.
  - eapply Forall_slot_ok_le; [|exact Hok]. eapply mem_le_trans; [exact Hle|apply mem_le_slot_drop].
  - cbn [slot_ok content]. eapply slot_ok_le with (o := Some {| hid := hid x; content := Some b |}); [apply mem_le_slot_drop|].
    cbn [slot_ok content]. eapply body_new_ok; eauto.
Qed.

(* ---- Message::try_cast ---- *)
Lemma msg_eta x : {| hid := hid x; content := content x |} = x.
Proof. destruct x; reflexivity. Qed.

Lemma try_cast_fail st s x tag :
  Inv st -> get_slot st s = Some x -> msg_can_cast x tag = false ->
  exists ob, observe (smem st) x = Some ob /\ step st (OTryCast s tag) = (st, RCastErr ob).
Proof.
  intros HI Hg Hcc. pose proof HI as [_ _ Hlen]. cbn [step]. rewrite Hg. unfold msg_try_cast, msg_can_cast in *.
  destruct (content x) as [b|] eqn:Hb.
  - unfold body_try_cast. rewrite Hcc.
    replace {| hid := hid x; content := Some b |} with x by (rewrite <- Hb; symmetry; apply msg_eta).
    rewrite set_slot_id by assumption.
    destruct (slot_body_live _ _ _ _ HI Hg Hb) as (i & c & _ & _ & _ & _ & _ & Hr).
    unfold observe. rewrite Hb, Hr. eauto.
  - replace {| hid := hid x; content := None |} with x by (rewrite <- Hb; symmetry; apply msg_eta).
    rewrite set_slot_id by assumption. unfold observe. rewrite Hb. eauto.
Qed.

Lemma try_cast_ok st s x tag :
  Inv st -> get_slot st s = Some x -> msg_can_cast x tag = true ->
  exists b i c, content x = Some b /\ data b = Some i /\ vt_tag (vt b) = tag /\
    cell_read (smem st) (Some i) tag = Some c /\
    step st (OTryCast s tag) = (set_slot st (smem st) s None (held st ++ [i]), RCast (cval c) (cser c) (hid x)).
Proof.
  intros HI Hg Hcc. cbn [step]. rewrite Hg. unfold msg_try_cast, msg_can_cast in *.
  destruct (content x) as [b|] eqn:Hb; [|discriminate].
  destruct (slot_body_live _ _ _ _ HI Hg Hb) as (i & c & Hd & _ & _ & _ & _ & Hr).
  unfold body_try_cast. rewrite Hcc. unfold body_is in Hcc. apply N.eqb_eq in Hcc.
  cbn [body_drop set_data data vdrop]. rewrite Hd in *. rewrite Hcc in Hr. rewrite Hr.
  exists b, i, c. repeat split; auto.
Qed.

Lemma try_cast_inv st s tag : Inv st -> Inv (fst (step st (OTryCast s tag))).
Proof.
  intros HI. pose proof HI as [Hc Hok Hlen].
  destruct (get_slot st s) as [x|] eqn:Hg; [|cbn [step]; rewrite Hg; exact HI].
  destruct (msg_can_cast x tag) eqn:Hcc.
  - destruct (try_cast_ok _ _ _ _ HI Hg Hcc) as (b & i & c & Hb & Hd & _ & _ & ->). cbn [fst].
    apply set_slot_inv; auto; [|exact I].
    intros j. rewrite Hg. cbn [slot_refs]. unfold msg_refs, body_refs. rewrite Hb, Hd, cnt_app. cbn [cnt].
    specialize (Hc j). lia.
  - destruct (try_cast_fail _ _ _ _ HI Hg Hcc) as (ob & _ & ->). exact HI.
Qed.

(* ---- Message::try_clone / clone ---- *)
Inductive clone_outcome (st : state) (x : msg) : cres msg -> Prop :=
| CloneEmpty : content x = None -> clone_outcome st x (COk (smem st) {| hid := hid x; content := None |} 0)
| CloneNot b : content x = Some b -> vt_clone (vt b) = false -> clone_outcome st x CNot
| CloneOk b c m1 p ser :
    content x = Some b -> vt_clone (vt b) = true ->
    cell_read (smem st) (data b) (vt_tag (vt b)) = Some c ->
    alloc (smem st) (ctag c) (cval c) = (m1, p, ser) ->
    clone_outcome st x (COk m1 {| hid := hid x; content := Some {| data := Some p; blen := blen b; vt := vt b |} |} ser).

Lemma try_clone_outcome st s x :
  Inv st -> get_slot st s = Some x -> clone_outcome st x (msg_try_clone (smem st) x).
Proof.
  intros HI Hg. unfold msg_try_clone. destruct (content x) as [b|] eqn:Hb; [|constructor; assumption].
  unfold body_try_clone. destruct (vt_clone (vt b)) eqn:Hcl; [|econstructor; eauto].
  destruct (slot_body_live _ _ _ _ HI Hg Hb) as (i & c & _ & _ & _ & _ & _ & Hr). rewrite Hr.
  destruct (alloc (smem st) (ctag c) (cval c)) as [[m1 p] ser] eqn:EA.
  eapply CloneOk; eauto.
Qed.

Lemma clone_put_inv st d x r :
  Inv st -> clone_outcome st x r ->
  match r with COk m1 x' ser => Inv (put_slot st m1 d (Some x') (next_hid st)) | _ => True end.
Proof.
  intros HI Ho. pose proof HI as [Hc Hok Hlen]. destruct Ho as [Hb|b Hb Hcl|b c m1 p ser Hb Hcl Hr EA]; auto.
  - apply put_slot_inv; auto.
    + intros j. cbn [slot_refs]. unfold msg_refs; cbn [content cnt]. specialize (Hc j). lia.
    + cbn. exact I.
  - pose proof (alloc_spec (smem st) (ctag c) (cval c)) as A. rewrite EA in A. destruct A as (Hp & Hl & Hh).
    assert (Hle : mem_le (smem st) m1) by (eapply mem_le_app; exact Hh).
    apply put_slot_inv; auto.
    + intros j. cbn [slot_refs]. unfold msg_refs, body_refs; cbn [content data]. rewrite cnt_one.
      rewrite (drops_app_fresh _ _ _ j Hh eq_refl), Hl, ltb_S_if, Hp. specialize (Hc j). lia.
    + eapply Forall_slot_ok_le; eauto.
    + cbn [slot_ok content]. exists p, {| ctag := ctag c; cval := cval c; cser := ser; cdrops := 0 |}.
      cbn [data vt]. split; [reflexivity|]. split.
      * rewrite Hh, nth_error_app_last, Hp. unfold hlen. rewrite Nat.eqb_refl. reflexivity.
      * cbn [ctag]. unfold cell_read in Hr. destruct (data b) as [i|]; [|discriminate].
        destruct (nth_error (heap (smem st)) i) as [c0|]; [|discriminate].
        destruct ((ctag c0 =? vt_tag (vt b)) && (cdrops c0 =? 0)) eqn:Ht; [|discriminate].
        injection Hr as <-. apply andb_true_iff in Ht. destruct Ht as [Ht _]. apply N.eqb_eq in Ht. exact Ht.
Qed.

Lemma try_clone_inv st s d : Inv st -> Inv (fst (step st (OTryClone s d))).
Proof.
  intros HI. cbn [step]. destruct (get_slot st s) as [x|] eqn:Hg; [|exact HI].
  pose proof (clone_put_inv st d x _ HI (try_clone_outcome _ _ _ HI Hg)) as H.
  destruct (msg_try_clone (smem st) x); cbn [fst]; auto.
Qed.

Lemma clone_inv st s d : Inv st -> Inv (fst (step st (OClone s d))).
Proof.
  intros HI. cbn [step]. destruct (get_slot st s) as [x|] eqn:Hg; [|exact HI].
  pose proof (clone_put_inv st d x _ HI (try_clone_outcome _ _ _ HI Hg)) as H.
  destruct (msg_try_clone (smem st) x); cbn [fst]; auto.
Qed.

(* ---- drops ---- *)
Lemma drop_inv st s : Inv st -> Inv (fst (step st (ODrop s))).
Proof.
  intros HI. pose proof HI as [Hc Hok Hlen]. cbn [step].
  destruct (get_slot st s) as [x|] eqn:Hg; [|exact HI]. cbn [fst].
  apply put_slot_inv; auto; [|exact I].
  intros j. cbn [slot_refs cnt]. specialize (Hc j). lia.
Qed.

Lemma held_index_lt (k : N) (l : list nat) : l <> [] -> (N.to_nat (k mod N.of_nat (length l)) < length l)%nat.
Proof.
  intros H. assert (N.of_nat (length l) <> 0) by (destruct l; [congruence|cbn [length]; lia]).
  pose proof (N.mod_lt k (N.of_nat (length l)) H0). lia.
Qed.

Lemma drop_held_inv st k : Inv st -> Inv (fst (step st (ODropHeld k))).
Proof.
  intros HI. pose proof HI as [Hc Hok Hlen]. cbn [step].
  destruct (held st) as [|h0 hr] eqn:Hh; [exact HI|]. rewrite <- Hh.
  set (i := N.to_nat (k mod N.of_nat (length (held st)))).
  assert (Hi : (i < length (held st))%nat) by (apply held_index_lt; rewrite Hh; discriminate).
  destruct (nth_error (held st) i) as [p|] eqn:Hn; [|apply nth_error_None in Hn; lia].
  destruct (held_live _ _ _ HI Hn) as (c & _ & _ & Hlt).
  cbn [fst vdrop]. constructor; cbn [smem slots].
  - intros j. unfold refs; cbn [slots held]. rewrite cnt_app, hlen_drop_cell, drops_drop_cell by exact Hlt.
    specialize (Hc j). unfold refs in Hc. rewrite cnt_app, (cnt_remove_nth j _ _ _ Hn) in Hc.
    unfold one_if in *. lia.
  - eapply Forall_slot_ok_le; [apply mem_le_drop_cell|exact Hok].
  - exact Hlen.
Qed.

(* ---- all operations ---- *)
Lemma step_inv st o : Inv st -> Inv (fst (step st o)).
Proof.
  intros HI. destruct o.
  - apply new_inv; exact HI.
  - apply new_empty_inv; exact HI.
  - apply set_inv; exact HI.
  - cbn [step]. destruct (get_slot st s); exact HI.
  - apply try_cast_inv; exact HI.
  - cbn [step]. destruct (get_slot st s) as [x|]; [|exact HI]. destruct (content x) as [b|]; [|exact HI].
    destruct (body_try_content (smem st) b tag) as [[c|]|]; exact HI.
  - apply try_clone_inv; exact HI.
  - apply clone_inv; exact HI.
  - apply drop_inv; exact HI.
  - cbn [step]. destruct (get_slot st s); exact HI.
  - apply drop_held_inv; exact HI.
  - cbn [step]. destruct (get_slot st s); exact HI.
Qed.

Lemma run_from_inv ops : forall st, Inv st -> Inv (fst (run_from st ops)).
Proof.
  induction ops as [|o r IH]; intros st HI; cbn [run_from]; [exact HI|].
  destruct (step st o) as [st1 x] eqn:E. specialize (IH st1).
  destruct (run_from st1 r) as [st2 xs] eqn:E2. cbn [fst] in *. apply IH.
  change st1 with (fst (st1, x)). rewrite <- E. apply step_inv; exact HI.
Qed.

Theorem inv_reachable ops : Inv (final ops).
Proof. apply run_from_inv, init_inv. Qed.

(* ---- undefined behaviour is never reached ---- *)
Lemma observe_some st s x : Inv st -> get_slot st s = Some x -> exists ob, observe (smem st) x = Some ob.
Proof.
  intros HI Hg. unfold observe. destruct (content x) as [b|] eqn:Hb; [|eauto].
  destruct (slot_body_live _ _ _ _ HI Hg Hb) as (i & c & _ & _ & _ & _ & _ & Hr). rewrite Hr. eauto.
Qed.

Lemma try_cast_no_ub st s tag : Inv st -> snd (step st (OTryCast s tag)) <> RUB.
Proof.
  intros HI. destruct (get_slot st s) as [x|] eqn:Hg; [|cbn [step]; rewrite Hg; discriminate].
  destruct (msg_can_cast x tag) eqn:Hcc.
  - destruct (try_cast_ok _ _ _ _ HI Hg Hcc) as (b & i & c & _ & _ & _ & _ & ->). discriminate.
  - destruct (try_cast_fail _ _ _ _ HI Hg Hcc) as (ob & _ & ->). discriminate.
Qed.

Lemma step_no_ub st o : Inv st -> snd (step st o) <> RUB.
Proof.
  intros HI. destruct o; try (apply try_cast_no_ub; exact HI); cbn [step].
  - destruct (msg_set_content _ _ _ _ _ _) as [[? ?] ?]. discriminate.
  - discriminate.
  - destruct (get_slot st s); [|discriminate]. destruct (msg_set_content _ _ _ _ _ _) as [[? ?] ?]. discriminate.
  - destruct (get_slot st s); discriminate.
  - destruct (get_slot st s) as [x|] eqn:Hg; [|discriminate]. destruct (content x) as [b|] eqn:Hb; [|discriminate].
    unfold body_try_content. destruct (body_is b tag) eqn:Hi; [|discriminate].
    destruct (slot_body_live _ _ _ _ HI Hg Hb) as (i & c & _ & _ & _ & _ & _ & Hr).
    unfold body_is in Hi. apply N.eqb_eq in Hi. rewrite <- Hi, Hr. discriminate.
  - destruct (get_slot st s) as [x|] eqn:Hg; [|discriminate].
    destruct (try_clone_outcome _ _ _ HI Hg); discriminate.
  - destruct (get_slot st s) as [x|] eqn:Hg; [|discriminate].
    destruct (try_clone_outcome _ _ _ HI Hg); discriminate.
  - destruct (get_slot st s); discriminate.
  - destruct (get_slot st s); discriminate.
  - destruct (held st); discriminate.
  - destruct (get_slot st s) as [x|] eqn:Hg; [|discriminate].
    destruct (observe_some _ _ _ HI Hg) as (ob & ->). discriminate.
Qed.

Lemma run_from_no_ub ops : forall st, Inv st -> ~ In RUB (map fst (snd (run_from st ops))).
Proof.
  induction ops as [|o r IH]; intros st HI; cbn [run_from]; [intros []|].
  pose proof (step_inv st o HI) as HI1. pose proof (step_no_ub st o HI) as Hn.
  destruct (step st o) as [st1 x]. cbn [fst snd] in *. specialize (IH st1 HI1).
  destruct (run_from st1 r) as [st2 xs]. cbn [snd map fst In] in *. intros [H|H]; [congruence|auto].
Qed.

Theorem no_undefined_behaviour ops : ~ In RUB (map fst (run_ops ops)).
Proof. apply run_from_no_ub, init_inv. Qed.
