(* C09 fresh_after_restart.  What a module keeps across shutdown / restart is made explicit ([kept]); everything
   else of its state is that of a newly created module ([fresh]).  A restart event finds the module in such a
   state and runs on it the very callback the first start runs (at_sim_start), at the time of the restart. *)
From Coq Require Import List NArith Bool Lia.
From DesVerif Require Import Common.Fuel Life.Model Life.Base Life.Step Life.Trace Life.Inert Life.Restart.
Import ListNotations.
Open Scope N_scope.

(* the pieces that survive Module::reset and the dropping of the tokio runtime: the user struct (here: incarnation
   counter and budget), the time driver's next_wakeup, the JoinHandles given to join / try_join, the stereotype *)
Record kept := { k_inc : N; k_bud : N; k_nw : option N; k_hnd : list (N * N); k_catch : bool }.

Definition fresh (v : kept) (a : bool) : mst :=
  {| active := a; inc := k_inc v; bud := k_bud v; shut := None; nw := k_nw v; timers := []; ready := [];
     hnd := k_hnd v; catchf := k_catch v |}.

Definition kept_of (x : mst) : kept :=
  {| k_inc := inc x; k_bud := bud x; k_nw := nw x; k_hnd := hnd x; k_catch := catchf x |}.
Definition kept0 (c : modcfg) : kept :=
  {| k_inc := 0; k_bud := c_bud c; k_nw := None; k_hnd := []; k_catch := c_catch c |}.

(* a module as first created *)
Lemma mst0_fresh c : mst0 c = fresh (kept0 c) true.
Proof. reflexivity. Qed.

(* consuming a shutdown request leaves exactly a fresh (inactive) module around the kept pieces: no task, no timer,
   no request; the incarnation counter is bumped, next_wakeup is dropped if it is due *)
Lemma shutdown_leaves_fresh c now m w r : shut (w_mod w m) = Some r ->
  w_mod (fst (shutdown_part c now m w)) m =
  fresh {| k_inc := inc (w_mod w m) + 1; k_bud := bud (w_mod w m); k_nw := nw_bump now (nw (w_mod w m));
           k_hnd := hnd (w_mod w m); k_catch := catchf (w_mod w m) |} false.
Proof.
  intros H. unfold shutdown_part. rewrite H. cbn [fst]. rewrite ifse_mod. destruct r; cbn [w_mod set_fes set_fin set_mod]; rewrite N.eqb_refl; reflexivity.
Qed.

(* a panicking Module::reset (it runs under Harness::pass) changes nothing of the shutdown / restart bookkeeping: compared
   with the same module whose reset does not panic, the world differs in the error list only -- one PanicError more,
   whatever the stereotype --, and the record in the one reset-panic record *)
Definition with_rsend (c : modcfg) (b : bool) : modcfg :=
  {| c_catch := c_catch c; c_stages := c_stages c; c_bud := c_bud c; c_start := c_start c; c_msg := c_msg c;
     c_tasks := c_tasks c; c_end := c_end c; c_join := c_join c; c_rsend := b |}.

Lemma reset_panic_frame c now m w r : shut (w_mod w m) = Some r ->
  let wa := fst (shutdown_part (with_rsend c false) now m w) in
  fst (shutdown_part (with_rsend c true) now m w) = set_err wa (w_err wa ++ [(0, m)]) /\
  snd (shutdown_part (with_rsend c true) now m w) = snd (shutdown_part (with_rsend c false) now m w) ++ [IResetPanic m].
Proof.
  intros H wa. subst wa. unfold shutdown_part. rewrite H. cbn [fst snd c_rsend with_rsend rpanic]. split; [reflexivity|].
  rewrite <- !app_assoc. cbn [app]. reflexivity.
Qed.

Lemma Down_fresh m w : Down m w -> w_mod w m = fresh (kept_of (w_mod w m)) false.
Proof. intros [a b c d]. destruct (w_mod w m). cbn in *. subst. reflexivity. Qed.

(* the restart callback of a module with one start-up stage: activate, then at_sim_start(0) -- the callback of the
   first start ([start_cb]) with the time of the restart in place of 0 *)
Lemma module_restart_single k c now m s : c_stages c = 1 ->
  module_restart k c now m s =
  fst (at_sim_start k c now m 0 (on_w (fun w => set_mod w m (set_active (w_mod w m) true)) s)).
Proof. intros H. unfold module_restart. rewrite H. reflexivity. Qed.

(* in general: the stages in order, each the first start's callback for that stage, until one returns an error or
   leaves the module inactive *)
Lemma module_restart_stages k c now m s :
  module_restart k c now m s =
  fst (fold_left (fun (acc : xs * bool) stage =>
                    if snd acc then acc
                    else (fst (at_sim_start k c now m stage (fst acc)),
                          snd (at_sim_start k c now m stage (fst acc)) ||
                          negb (active (w_mod (x_w (fst (at_sim_start k c now m stage (fst acc)))) m))))
                 (stage_list (c_stages c))
                 (on_w (fun w => set_mod w m (set_active (w_mod w m) true)) s, false)).
Proof. reflexivity. Qed.

Theorem fresh_after_restart_full sc pre e post m :
  trace sc = pre ++ e :: post -> e_kind e = KLoop (EvRestart m) ->
  exists w1 f1 v, Gen sc w1 pre /\ fes_fetch (w_fes w1) = Some (e_time e, EvRestart m, f1) /\
    (* the module is a fresh one around the kept pieces *)
    w_mod w1 m = fresh v false /\
    (* and the event runs the restart callback on it, inside the usual activate / deactivate / buf_process *)
    let r := around sc (e_time e) m (module_restart (nmods sc) (cfg sc m) (e_time e) m) (set_fes w1 f1) in
    e_items e = snd r ++ [ISample (e_time e) (mask sc (fst r))].
Proof.
  intros E Hk. pose proof (restart_at_requested_time sc pre e post m E Hk) as Hp.
  destruct (trace_cases sc pre e post E) as [(w1 & w2 & HG & Hs)|(w & tr & now & ms1 & m1 & ms2 & _ & _ & _ & _ & ->)]; [|discriminate].
  destruct Hs as [stage m1 w Hfresh Hactive|w|w t ev f Hf]; try discriminate.
  unfold loop_rec in Hk. cbn [snd e_kind] in Hk. injection Hk as ->.
  assert (HD : Down m w) by (apply (gen_down sc m w pre HG), pending_down; rewrite Hp; discriminate).
  exists w, f, (kept_of (w_mod w m)). split; [exact HG|]. split; [exact Hf|]. split; [apply Down_fresh, HD|]. reflexivity.
Qed.
