(* C13 others_as_if_silent, part 2: one dispatched event in both runs, and the two event loops as a stuttering
   simulation (either run may dispatch events that are inert for a dead m on its own). *)
From Coq Require Import List NArith Bool Lia PeanoNat.
From DesVerif Require Import Common.Fuel Life.Model Life.Base Life.Step Life.Trace Life.Frame Life.Inert Life.Inv Life.Events
  Life.Restart Life.Agree Life.Strip Life.Quiet Life.SilentBase Life.Future Life.SilentRel.
Import ListNotations.
Open Scope N_scope.

Section SilentStep.
Variables (sc : script) (m : N).
Local Notation sc' := (quieten m sc).
Local Notation cfg_other := (SilentRel.cfg_other sc m).
Local Notation cfg_self := (SilentRel.cfg_self sc m).
Local Notation nmods' := (SilentRel.nmods' sc m).
Local Notation others := (SilentRel.others m).
Local Notation others_app := (SilentRel.others_app m).
Local Notation others_own := (SilentRel.others_own m).
Local Notation others_sample := (SilentRel.others_sample m).
Local Notation Dead := (SilentRel.Dead m).
Local Notation Rel := (SilentRel.Rel m).
Local Notation Dead_agree := (SilentRel.Dead_agree m).
Local Notation other_event := (SilentRel.other_event sc m).
Local Notation same_other_event := (SilentRel.same_other_event sc m).
Local Notation dead_other_event := (SilentRel.dead_other_event sc m).
Local Notation Post := (SilentRel.Post m).
Local Notation Div_catch := (SilentRel.Div_catch m).
Local Notation at_sim_start0_post := (SilentRel.at_sim_start0_post sc m).
Local Notation handle_message_post := (SilentRel.handle_message_post sc m).
Local Notation at_sim_start_later := (SilentRel.at_sim_start_later sc m).
Local Notation at_sim_start0_flags := (SilentRel.at_sim_start0_flags sc m).
Local Notation restart_tail_agree := (SilentRel.restart_tail_agree sc m).
Local Notation restart_tail_div := (SilentRel.restart_tail_div sc m).
Local Notation module_restart_post := (SilentRel.module_restart_post sc m).
Local Notation m_event := (SilentRel.m_event sc m).
Local Notation dd_oth := (SilentRel.dd_oth m).
Local Notation dd_act := (SilentRel.dd_act m).
Local Notation dd_shut := (SilentRel.dd_shut m).
Local Notation dd_buf := (SilentRel.dd_buf m).
Local Notation dd_fes := (SilentRel.dd_fes m).
Local Notation dd_nr := (SilentRel.dd_nr m).

(* ---- one dispatched event in both runs ---- *)
Lemma others_loop_items l l' t k k' : others l = others l' -> others (l ++ [ISample t k]) = others (l' ++ [ISample t k']).
Proof. intros H. rewrite !others_app, H. reflexivity. Qed.

Lemma cb_msg i t x : i <> m -> handle_message (nmods sc') (cfg sc' i) t i x = handle_message (nmods sc) (cfg sc i) t i x.
Proof. intros H. rewrite nmods', (cfg_other i H). reflexivity. Qed.
Lemma cb_wake i t : async_wakeup (nmods sc') t i = async_wakeup (nmods sc) t i.
Proof. rewrite nmods'. reflexivity. Qed.
Lemma cb_restart i t : i <> m -> module_restart (nmods sc') (cfg sc' i) t i = module_restart (nmods sc) (cfg sc i) t i.
Proof. intros H. rewrite nmods', (cfg_other i H). reflexivity. Qed.
Lemma cb_start i stage : i <> m -> start_cb sc' stage i = start_cb sc stage i.
Proof. intros H. unfold start_cb. rewrite nmods', (cfg_other i H). reflexivity. Qed.

Lemma rt_after_fetch f t ev f1 : fes_fetch f = Some (t, ev, f1) -> restart_times m f = [] -> restart_times m f1 = [].
Proof.
  intros Hf Hn. pose proof (fes_fetch_order _ _ _ _ Hf) as Ho. unfold restart_times in *. rewrite Ho in Hn. unfold rtimes in *.
  cbn [filter] in Hn. destruct (is_restart m (t, ev)); [discriminate|exact Hn].
Qed.

Lemma step_same w w' t ev f1 : Same w w' -> WF (w_fes w) -> fes_fetch (w_fes w) = Some (t, ev, f1) ->
  shut (w_mod w m) = None ->
  (active (w_mod w m) = true -> restart_times m (w_fes w) = []) ->
  (ev = EvRestart m -> restart_times m f1 = []) ->
  Rel (fst (loop_rec sc (set_fes w f1) t ev)) (fst (loop_rec sc' (set_fes w' f1) t ev)) /\
  others (e_items (snd (loop_rec sc (set_fes w f1) t ev))) = others (e_items (snd (loop_rec sc' (set_fes w' f1) t ev))).
Proof.
  intros HS W Hf Hsh HRT HRS. pose proof HS as [a b [c d]].
  destruct (WF_fetch _ _ _ _ W Hf) as [W1 Et].
  assert (HS1 : Same (set_fes w f1) (set_fes w' f1)) by (constructor; [exact a|reflexivity|auto]).
  unfold loop_rec. cbn [fst snd e_items].
  assert (Mev : forall f f', CbOK m f -> CbOK m f' ->
            Post (f {| x_w := activate t m (set_fes w f1); x_log := [] |}) (f' {| x_w := activate t m (set_fes w' f1); x_log := [] |}) ->
            (Div m (x_w (f {| x_w := activate t m (set_fes w f1); x_log := [] |})) (x_w (f' {| x_w := activate t m (set_fes w' f1); x_log := [] |})) ->
             restart_times m f1 = []) ->
            Rel (fst (around sc t m f (set_fes w f1))) (fst (around sc' t m f' (set_fes w' f1))) /\
            forall k k', others (snd (around sc t m f (set_fes w f1)) ++ [ISample t k]) =
                         others (snd (around sc' t m f' (set_fes w' f1)) ++ [ISample t k'])).
  { intros f f' Hok Hok' HP Hn. destruct (m_event t f f' _ _ HS1 W1 Hn Hok Hok' HP) as (R & Wa & Wb & _).
    split; [split; [exact R|split; assumption]|]. intros k k'. apply others_loop_items.
    rewrite (others_own _ (around_own sc t m f _ Hok)), (others_own _ (around_own sc' t m f' _ Hok')). reflexivity. }
  assert (Oev : forall i f, i <> m -> CbOK i f -> (forall s s', AgreeX i s s' -> AgreeX i (f s) (f s')) ->
            Rel (fst (around sc t i f (set_fes w f1))) (fst (around sc' t i f (set_fes w' f1))) /\
            forall k k', others (snd (around sc t i f (set_fes w f1)) ++ [ISample t k]) =
                         others (snd (around sc' t i f (set_fes w' f1)) ++ [ISample t k'])).
  { intros i f Hi Hok Hag. destruct (same_other_event t i f _ _ Hi HS1 Hok Hag) as (E1 & E2 & E3 & _).
    destruct (E3 W1 W1) as [Wa Wb]. split; [split; [left; exact E2|split; assumption]|].
    intros k k'. apply others_loop_items. rewrite E1. reflexivity. }
  destruct ev as [i far x|i x|i|i]; unfold process.
  - (* a message leaving a connection *)
    cbn [fst snd app]. rewrite nmods', <- (walk_agree (nmods sc) i far _ _ (Same_agree i _ _ HS1)).
    split; [|reflexivity]. destruct (walk (nmods sc) (set_fes w f1) i far); cbn [set_fes w_fes].
    + split; [left; constructor; [exact a|reflexivity|auto]|split; apply WF_add, W1].
    + split; [left; exact HS1|split; exact W1].
  - destruct (N.eq_dec i m) as [->|Hi].
    + destruct (Mev (handle_message (nmods sc) (cfg sc m) t m x) (handle_message (nmods sc') (cfg sc' m) t m x)
                    (handle_message_ok _ _ _ _ _) (handle_message_ok _ _ _ _ _)) as [R O].
      * apply handle_message_post. split; [apply activate_agree, Same_agree, HS1|reflexivity].
      * intros HD. destruct (active (w_mod w m)) eqn:Ea; [eapply rt_after_fetch; [exact Hf|apply HRT; reflexivity]|].
        exfalso. destruct HD as [_ _ _ _ _ _ _ _ _ vs]. unfold handle_message in vs. cbn [x_w] in vs.
        rewrite activate_active in vs. cbn [w_mod set_fes] in vs. rewrite <- (a m), Ea in vs. cbn [x_w] in vs.
        rewrite activate_shut in vs. cbn [w_mod set_fes] in vs. rewrite <- (a m), Hsh in vs. discriminate.
      * split; [exact R|apply O].
    + rewrite (cb_msg i t x Hi). destruct (Oev i (handle_message (nmods sc) (cfg sc i) t i x) Hi (handle_message_ok _ _ _ _ _) (handle_message_agree _ _ _ _ _)) as [R O].
      split; [exact R|apply O].
  - destruct (N.eq_dec i m) as [->|Hi].
    + rewrite cb_wake.
      destruct (Mev (async_wakeup (nmods sc) t m) (async_wakeup (nmods sc) t m) (async_wakeup_ok _ _ _) (async_wakeup_ok _ _ _)) as [R O].
      * left. apply async_wakeup_agree. split; [apply activate_agree, Same_agree, HS1|reflexivity].
      * intros HD. destruct (active (w_mod w m)) eqn:Ea; [eapply rt_after_fetch; [exact Hf|apply HRT; reflexivity]|].
        exfalso. destruct HD as [_ _ _ _ _ _ _ _ _ vs]. unfold async_wakeup in vs. cbn [x_w] in vs.
        rewrite activate_active in vs. cbn [w_mod set_fes] in vs. rewrite <- (a m), Ea in vs. cbn [x_w] in vs.
        rewrite activate_shut in vs. cbn [w_mod set_fes] in vs. rewrite <- (a m), Hsh in vs. discriminate.
      * split; [exact R|apply O].
    + rewrite cb_wake. destruct (Oev i (async_wakeup (nmods sc) t i) Hi (async_wakeup_ok _ _ _) (async_wakeup_agree _ _ _)) as [R O]. split; [exact R|apply O].
  - destruct (N.eq_dec i m) as [->|Hi].
    + destruct (Mev (module_restart (nmods sc) (cfg sc m) t m) (module_restart (nmods sc') (cfg sc' m) t m)
                    (module_restart_ok _ _ _ _) (module_restart_ok _ _ _ _)) as [R O].
      * apply module_restart_post. split; [apply activate_agree, Same_agree, HS1|reflexivity].
      * intros _. apply HRS. reflexivity.
      * split; [exact R|apply O].
    + rewrite (cb_restart i t Hi). destruct (Oev i (module_restart (nmods sc) (cfg sc i) t i) Hi (module_restart_ok _ _ _ _) (module_restart_agree _ _ _ _)) as [R O].
      split; [exact R|apply O].
Qed.

Lemma step_dead w w' t ev f1 f1' : Dead w w' -> WF (w_fes w) -> WF (w_fes w') ->
  fes_fetch (w_fes w) = Some (t, ev, f1) -> fes_fetch (w_fes w') = Some (t, ev, f1') -> inert m ev = false ->
  FesRel m f1 f1' -> L f1' <= L f1 ->
  Rel (fst (loop_rec sc (set_fes w f1) t ev)) (fst (loop_rec sc' (set_fes w' f1') t ev)) /\
  others (e_items (snd (loop_rec sc (set_fes w f1) t ev))) = others (e_items (snd (loop_rec sc' (set_fes w' f1') t ev))).
Proof.
  intros HD W W' Hf Hf' Hi FR HL1. pose proof HD as [a [b1 b2] [s1 s2] [c d] _ [n1 n2] _ htm].
  destruct (WF_fetch _ _ _ _ W Hf) as [W1 Et]. destruct (WF_fetch _ _ _ _ W' Hf') as [W1' Et'].
  assert (HD1 : Dead (set_fes w f1) (set_fes w' f1')).
  { constructor; cbn [w_mod w_buf w_fes set_fes]; auto. split; eapply rt_after_fetch; eauto. }
  assert (Etc : f_tcur (w_fes (set_fes w f1)) = f_tcur (w_fes (set_fes w' f1'))) by (cbn [w_fes set_fes]; congruence).
  unfold loop_rec. cbn [fst snd e_items].
  assert (Oev : forall i f, i <> m -> CbOK i f -> (forall s s', AgreeX i s s' -> AgreeX i (f s) (f s')) ->
            Rel (fst (around sc t i f (set_fes w f1))) (fst (around sc' t i f (set_fes w' f1'))) /\
            forall k k', others (snd (around sc t i f (set_fes w f1)) ++ [ISample t k]) =
                         others (snd (around sc' t i f (set_fes w' f1')) ++ [ISample t k'])).
  { intros i f Hin Hok Hag. destruct (dead_other_event t i f _ _ Hin HD1 Hok Hag W1 W1' Etc) as (E1 & E2 & E3 & E4 & _).
    split; [split; [right; exact E2|split; assumption]|]. intros k k'. apply others_loop_items. rewrite E1. reflexivity. }
  destruct ev as [i far x|i x|i|i]; cbn [inert] in Hi; unfold process.
  - apply N.eqb_neq in Hi.
    cbn [fst snd app]. rewrite nmods', <- (walk_agree (nmods sc) i far _ _ (Dead_agree i _ _ Hi HD1)).
    split; [|reflexivity]. destruct (walk (nmods sc) (set_fes w f1) i far) as [dst|]; cbn [set_fes w_fes].
    + split; [right|split; apply WF_add; assumption].
      destruct HD1 as [a' b' s' c' fr' [n1' n2'] hl' htm']. constructor; cbn [w_mod w_buf w_fes set_fes] in *; auto.
      * apply FesRel_add; assumption.
      * rewrite !fes_add_rt_other by reflexivity. auto.
      * rewrite !L_add. lia.
    + split; [right; exact HD1|split; assumption].
  - apply N.eqb_neq in Hi. rewrite (cb_msg i t x Hi).
    destruct (Oev i (handle_message (nmods sc) (cfg sc i) t i x) Hi (handle_message_ok _ _ _ _ _) (handle_message_agree _ _ _ _ _)) as [R O].
    split; [exact R|apply O].
  - apply N.eqb_neq in Hi. rewrite cb_wake.
    destruct (Oev i (async_wakeup (nmods sc) t i) Hi (async_wakeup_ok _ _ _) (async_wakeup_agree _ _ _)) as [R O]. split; [exact R|apply O].
  - destruct (N.eq_dec i m) as [->|Hin].
    + exfalso. pose proof (fes_fetch_order _ _ _ _ Hf) as Ho. unfold restart_times in n1. rewrite Ho in n1.
      unfold rtimes in n1. cbn [filter is_restart snd] in n1. rewrite N.eqb_refl in n1. discriminate.
    + rewrite (cb_restart i t Hin).
      destruct (Oev i (module_restart (nmods sc) (cfg sc i) t i) Hin (module_restart_ok _ _ _ _) (module_restart_agree _ _ _ _)) as [R O].
      split; [exact R|apply O].
Qed.

(* ---- the loops ---- *)
Lemma sim_loop : forall K n n' w w' now now' tr tr' wf nf trf wf' nf' trf',
  (n + n' <= K)%nat -> Gen sc w tr -> FW now w -> Rel w w' -> others (items tr) = others (items tr') ->
  iter_nat n (loop_step sc) (w, now, tr) = inr (wf, nf, trf) ->
  iter_nat n' (loop_step sc') (w', now', tr') = inr (wf', nf', trf') ->
  others (items trf) = others (items trf') /\ Rel wf wf'.
Proof.
  induction K as [|K IH]; intros n n' w w' now now' tr tr' wf nf trf wf' nf' trf' Hle HG HW HR Ho Hn Hn'.
  - assert (n = 0%nat) by lia. subst n. cbn [iter_nat] in Hn. discriminate.
  - destruct n as [|n]; [cbn [iter_nat] in Hn; discriminate|]. destruct n' as [|n']; [cbn [iter_nat] in Hn'; discriminate|].
    cbn [iter_nat] in Hn, Hn'. rewrite loop_step_eq in Hn, Hn'.
    assert (Litems : forall sc0 w0 t ev tr0, others (items (tr0 ++ [snd (loop_rec sc0 w0 t ev)])) =
                     others (items tr0) ++ others (e_items (snd (loop_rec sc0 w0 t ev)))).
    { intros. rewrite items_snoc, others_app. reflexivity. }
    destruct HR as [[HS|HD] [W W']].
    + (* the two worlds are equal *)
      pose proof HS as [a b [c d]]. rewrite <- b in Hn'.
      destruct (fes_fetch (w_fes w)) as [[[t ev] f1]|] eqn:Hf.
      * destruct (gen_facts sc m w tr HG) as (Q1 & Q2 & Q3).
        destruct (step_same w w' t ev f1 HS W Hf Q1 Q2) as [R O]; [intros ->; eapply Q3; eauto|].
        eapply (IH n n'); [lia| | |exact R| |exact Hn|exact Hn'].
        -- eapply G1; [exact HG|]. apply (S_loop sc w t ev f1 Hf).
        -- apply (loop_FW sc now w t ev f1 HW Hf).
        -- rewrite !Litems, Ho, O. reflexivity.
      * injection Hn as <- <- <-. injection Hn' as <- <- <-. split; [exact Ho|split; [left; exact HS|split; assumption]].
    + (* module m is dead in both *)
      pose proof HD as [a [b1 b2] [s1 s2] [c d] fr [n1 n2] hl htm].
      destruct (fes_fetch (w_fes w)) as [[[t ev] f1]|] eqn:Hf.
      * destruct (loop_FW sc now w t ev f1 HW Hf) as (FW1 & FL1 & FL2).
        destruct (inert m ev) eqn:Hi.
        -- (* the panicking run dispatches an inert event on its own *)
           destruct (inert_step m sc w t ev f1 b1 s1 c W n1 Hf Hi) as (I1 & I2 & I3 & I4 & I5 & I6 & I7 & I8).
           eapply (IH n (S n')) with (now' := now'); [lia| |exact FW1| | |exact Hn|cbn [iter_nat]; rewrite loop_step_eq; exact Hn'].
           ++ eapply G1; [exact HG|]. apply (S_loop sc w t ev f1 Hf).
           ++ split; [right|split; [exact I5|exact W']]. unfold loop_rec in *. cbn [fst] in *.
              constructor; auto; [intros j Hj; rewrite I1 by exact Hj; apply a, Hj|lia].
           ++ rewrite Litems, <- Ho. unfold loop_rec. cbn [snd e_items]. rewrite I8. cbn [app]. rewrite others_sample, app_nil_r. reflexivity.
        -- destruct (fes_fetch (w_fes w')) as [[[t' ev'] f1']|] eqn:Hf'.
           ++ destruct (inert m ev') eqn:Hi'.
              ** (* the quiet run dispatches an inert event on its own *)
                 destruct (inert_step m sc' w' t' ev' f1' b2 s2 d W' n2 Hf' Hi') as (I1 & I2 & I3 & I4 & I5 & I6 & I7 & I8).
                 destruct (inert_step_idle m sc' w' t' ev' f1' b2 s2 d htm Hi') as [J1 J2].
                 eapply (IH (S n) n') with (now := now); [lia|exact HG|exact HW| | |cbn [iter_nat]; rewrite loop_step_eq, Hf; exact Hn|exact Hn'].
                 --- split; [right|split; [exact W|exact I5]]. unfold loop_rec. cbn [fst].
                     constructor; auto.
                     +++ intros j Hj. rewrite I1 by exact Hj. apply a, Hj.
                     +++ apply FesRel_sym, I7, FesRel_sym, fr.
                     +++ rewrite J1. pose proof (L_fetch_le _ _ _ _ Hf'). lia.
                 --- rewrite Litems, Ho. unfold loop_rec. cbn [snd e_items]. rewrite I8. cbn [app]. rewrite others_sample, app_nil_r. reflexivity.
              ** (* both dispatch the same event *)
                 destruct (fetch_common m _ _ _ _ _ _ _ _ fr Hf Hi Hf' Hi') as (-> & -> & FR).
                 assert (HL1 : L f1' <= L f1) by (pose proof (L_fetch_le _ _ _ _ Hf'); lia).
                 destruct (step_dead w w' t ev f1 f1' HD W W' Hf Hf' Hi FR HL1) as [R O].
                 eapply (IH n n'); [lia| |exact FW1|exact R| |exact Hn|exact Hn'].
                 --- eapply G1; [exact HG|]. apply (S_loop sc w t ev f1 Hf).
                 --- rewrite !Litems, Ho, O. reflexivity.
           ++ exfalso. pose proof (fetch_none_r m _ _ _ _ _ Hf' fr Hf) as C. congruence.
      * destruct (fes_fetch (w_fes w')) as [[[t' ev'] f1']|] eqn:Hf'.
        -- pose proof (fetch_none_l m _ _ _ _ _ Hf fr Hf') as Hi'.
           destruct (inert_step m sc' w' t' ev' f1' b2 s2 d W' n2 Hf' Hi') as (I1 & I2 & I3 & I4 & I5 & I6 & I7 & I8).
           destruct (inert_step_idle m sc' w' t' ev' f1' b2 s2 d htm Hi') as [J1 J2].
           eapply (IH (S n) n') with (now := now); [lia|exact HG|exact HW| | |cbn [iter_nat]; rewrite loop_step_eq, Hf; exact Hn|exact Hn'].
           ++ split; [right|split; [exact W|exact I5]]. unfold loop_rec. cbn [fst].
              constructor; auto.
              ** intros j Hj. rewrite I1 by exact Hj. apply a, Hj.
              ** apply FesRel_sym, I7, FesRel_sym, fr.
              ** rewrite J1. pose proof (L_fetch_le _ _ _ _ Hf'). lia.
           ++ rewrite Litems, Ho. unfold loop_rec. cbn [snd e_items]. rewrite I8. cbn [app]. rewrite others_sample, app_nil_r. reflexivity.
        -- injection Hn as <- <- <-. injection Hn' as <- <- <-. split; [exact Ho|split; [right; exact HD|split; assumption]].
Qed.

End SilentStep.
