(* C09 delivery_independent_of_m and C13 globals_released. *)
From Coq Require Import List NArith Bool Lia.
From DesVerif Require Import Life.Model Life.Base Life.Step Life.Trace.
Import ListNotations.
Open Scope N_scope.

(* ---- whether a message reaches its receiver depends only on the owners of the gates of its
   own chain (the sender's gate, and the transit gate for "far") ... ---- *)
Theorem walk_depends_on_chain k w1 w2 m far :
  active (w_mod w1 m) = active (w_mod w2 m) ->
  (far = true -> active (w_mod w1 (next k m)) = active (w_mod w2 (next k m))) ->
  walk k w1 m far = walk k w2 m far.
Proof.
  intros H1 H2. unfold walk. rewrite H1. destruct (active (w_mod w2 m)); [|reflexivity].
  destruct far; [|reflexivity]. rewrite (H2 eq_refl). reflexivity.
Qed.

Corollary walk_ignores_others k w m far i x :
  i <> m -> (far = true -> i <> next k m) -> walk k (set_mod w i x) m far = walk k w m far.
Proof.
  intros H1 H2. apply walk_depends_on_chain; [rewrite mod_other; auto|].
  intros F. rewrite mod_other; [reflexivity|]. intros E. apply (H2 F). symmetry. exact E.
Qed.

(* the walk itself: dropped iff one of those owners is inactive *)
Theorem walk_spec k w m far :
  walk k w m far =
  if active (w_mod w m) && (negb far || active (w_mod w (next k m)))
  then Some (if far then next k (next k m) else next k m) else None.
Proof. unfold walk. destruct (active (w_mod w m)), far; cbn [andb orb negb]; try reflexivity; destruct (active (w_mod w (next k m))); reflexivity. Qed.

(* ... and on the receiver's own active flag: handle_message runs iff the receiver is active *)
Lemma activate_active now m w : active (w_mod (activate now m w) m) = active (w_mod w m).
Proof. unfold activate. destruct (split_due now (timers (w_mod w m))). wsimpl. rewrite N.eqb_refl. reflexivity. Qed.

Theorem deliver_iff_active sc w t m x :
  (active (w_mod w m) = true ->
     exists l, snd (process sc w t (EvDeliver m x)) = ICall m (CbMsg x) t true :: l) /\
  (active (w_mod w m) = false ->
     forall c t' a, ~ In (ICall m c t' a) (snd (process sc w t (EvDeliver m x)))).
Proof.
  unfold process, around. set (s0 := {| x_w := activate t m w; x_log := [] |}).
  assert (Ha : active (w_mod (x_w s0) m) = active (w_mod w m)) by apply activate_active.
  split; intros H.
  - unfold handle_message. rewrite Ha, H.
    pose proof (exec_LogExt (nmods sc) t m (CbMsg x) [] (pick_msg (cfg sc m) x) s0) as HL.
    assert (E0 : exists l, x_log (fst (exec (nmods sc) t m (CbMsg x) [] (pick_msg (cfg sc m) x) s0)) = ICall m (CbMsg x) t true :: l).
    { unfold exec. rewrite Ha, H.
      match goal with |- context [run_prog false ?k t m 0 ?p ?s1] =>
        destruct (run_prog_LogExt false k t m 0 p s1) as (l & Hl & _); destruct (run_prog false k t m 0 p s1) as [s2 r] end.
      cbn [fst say say_all spawn_items length seq combine map on_w x_log s0 app] in Hl.
      destruct r; cbn [fst].
      - destruct (poll_ready_LogExt (nmods sc) t m s2) as (l2 & Hl2 & _). rewrite Hl2, Hl. eexists; reflexivity.
      - rewrite Hl. eexists; reflexivity.
      - match goal with |- context [fold_left ?f ?l0 ?s3] => destruct (fold_end_task_LogExt m l0 s3) as (l2 & Hl2 & _) end.
        rewrite Hl2. cbn [on_w x_log]. rewrite Hl. eexists; reflexivity.
      - destruct (poll_ready_LogExt (nmods sc) t m s2) as (l2 & Hl2 & _). rewrite Hl2, Hl. eexists; reflexivity. }
    destruct (exec (nmods sc) t m (CbMsg x) [] (pick_msg (cfg sc m) x) s0) as [s1 p]. cbn [fst] in E0.
    destruct E0 as (l & El). cbn [x_w x_log].
    destruct (buf_process (cfg sc m) t m _) as [w' l']. cbn [snd]. rewrite El. eexists; reflexivity.
  - intros c t' a Hin. unfold handle_message in Hin. rewrite Ha, H in Hin.
    pose proof (shutdown_part_own (cfg sc m) t m) as Ho. unfold buf_process in Hin.
    destruct (shutdown_part (cfg sc m) t m _) as [w' l'] eqn:Es. cbn [snd x_log s0 app] in Hin.
    unfold shutdown_part in Es.
    destruct (shut _) in Es; injection Es as _ <-; [|destruct Hin].
    apply in_app_or in Hin. destruct Hin as [Hin|[Hin|Hin]]; [|discriminate|unfold rpanic in Hin; destruct (c_rsend _); [destruct Hin as [Hin|[]]; discriminate|destruct Hin]].
    unfold cancelled in Hin. apply in_app_or in Hin.
    destruct Hin as [Hin|Hin]; apply in_map_iff in Hin; destruct Hin as (j & Hj & _); discriminate.
Qed.

(* ---- C13 globals_released: after start-up step and after every dispatched event -- panicking
   ones included -- the module-context slot is empty and the event buffer is drained ---- *)
Theorem globals_released_gen sc : forall w tr, Gen sc w tr -> w_cur w = None /\ w_buf w = [].
Proof.
  apply (gen_inv sc (fun w _ => w_cur w = None /\ w_buf w = [])); [split; reflexivity|].
  intros w tr e w' _ [Hc Hb] Hs. destruct Hs as [stage m w Hfresh Hactive|w|w t ev f Hf].
  - unfold start_rec. cbn [fst]. apply around_glob.
  - auto.
  - unfold loop_rec. cbn [fst]. apply process_glob; assumption.
Qed.

(* tear-down: the context slot is released after every module's at_sim_end as well (the buffer
   is not drained any more: "no buf_process since no further events will be processed") *)
Lemma end_seq_cur sc now : forall ms w, w_cur w = None -> w_cur (fst (end_seq sc now ms w)) = None.
Proof.
  induction ms as [|m ms IH]; intros w H; cbn [end_seq]; [exact H|].
  destruct (end_seq sc now ms (fst (end_rec sc now m w))) as [w2 es] eqn:Es. cbn [fst].
  change w2 with (fst (w2, es)). rewrite <- Es. apply IH. reflexivity.
Qed.
