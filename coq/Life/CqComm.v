(* The callbacks of Life/Sim.v never read or write the event set: every one of them commutes with
   replacing the [w_fes] field of the world.  This is what lets the run over another event-set
   implementation (Life/ModelCq.v), whose world carries no event set at all, execute the same
   callbacks. *)
From Coq Require Import List NArith PArith Bool Lia.
From DesVerif Require Import Life.Model.
Import ListNotations.
Open Scope N_scope.

(* the same state with another event set *)
Definition sf (f : fes) (s : xs) : xs := {| x_w := set_fes (x_w s) f; x_log := x_log s |}.

Ltac cases := repeat match goal with |- context [match ?c with _ => _ end] => destruct c end; try reflexivity.

Lemma walk_sf k w f m far : walk k (set_fes w f) m far = walk k w m far.
Proof. reflexivity. Qed.

Lemma do_act_sf f k now m who a s : do_act k now m who a (sf f s) = sf f (do_act k now m who a s).
Proof.
  destruct a; unfold do_act, broke, sf; cbn [x_w set_fes w_mod]; try reflexivity;
    try (destruct (bud (w_mod (x_w s) m) =? 0); [reflexivity|]); unfold say, on_w; cbn [x_w x_log]; try reflexivity.
  unfold buf_send_at, walk. cbn [spend set_mod set_fes w_mod].
  destruct (d =? 0); [|reflexivity]. cases.
Qed.

Lemma quiet_sf f m s : quiet m (sf f s) = sf f (quiet m s).
Proof. unfold quiet, sf. cbn [x_w set_fes w_mod]. destruct (shut (w_mod (x_w s) m)); reflexivity. Qed.

Lemma run_prog_sf f tk k now m who : forall p s,
  run_prog tk k now m who p (sf f s) = (sf f (fst (run_prog tk k now m who p s)), snd (run_prog tk k now m who p s)).
Proof.
  induction p as [|a p IH]; intros s; [reflexivity|].
  destruct a; cbn [run_prog]; try (rewrite do_act_sf; apply IH).
  - destruct (tk && (0 <? d)); [reflexivity|apply IH].
  - reflexivity.
  - destruct tk; [apply IH|]. rewrite quiet_sf. reflexivity.
Qed.

Lemma end_task_sf f m how s tk : end_task m how (sf f s) tk = sf f (end_task m how s tk).
Proof. reflexivity. Qed.

Lemma poll1_sf f k now m s tk : poll1 k now m (sf f s) tk = sf f (poll1 k now m s tk).
Proof.
  unfold poll1. cbv zeta.
  change (say ?i (sf f s)) with (sf f (say i s)).
  change (active (w_mod (x_w (sf f s)) m)) with (active (w_mod (x_w s) m)).
  rewrite run_prog_sf. destruct (run_prog true k now m (1 + tk_id tk) (tk_rest tk) _) as [s1 r]. cbn [fst snd].
  destruct r; reflexivity.
Qed.

Lemma fold_sf {A} (g : xs -> A -> xs) f : (forall s x, g (sf f s) x = sf f (g s x)) ->
  forall l s, fold_left g l (sf f s) = sf f (fold_left g l s).
Proof. intros H. induction l as [|x l IH]; intros s; cbn [fold_left]; [reflexivity|]. rewrite H. apply IH. Qed.

Lemma poll_ready_sf f k now m s : poll_ready k now m (sf f s) = sf f (poll_ready k now m s).
Proof.
  unfold poll_ready. change (ready (w_mod (x_w (sf f s)) m)) with (ready (w_mod (x_w s) m)).
  change (on_w ?h (sf f s)) with (sf f (on_w h s)) at 1.
  apply fold_sf. intros; apply poll1_sf.
Qed.

Lemma exec_sf f k now m c sp p s :
  exec k now m c sp p (sf f s) = (sf f (fst (exec k now m c sp p s)), snd (exec k now m c sp p s)).
Proof.
  unfold exec. cbv zeta.
  match goal with |- context [run_prog false k now m 0 p ?a] =>
    match a with context [sf f s] => change a with (sf f (say_all (spawn_items m (inc (w_mod (x_w s) m)) sp)
      (on_w (spawn_all m sp) (say (ICall m c now (active (w_mod (x_w s) m))) s)))) end end.
  rewrite run_prog_sf. destruct (run_prog false k now m 0 p _) as [s2 r]. cbn [fst snd].
  destruct r; cbn [fst snd]; try (rewrite poll_ready_sf; reflexivity); [reflexivity|].
  f_equal. change (ready (w_mod (x_w (sf f s2)) m)) with (ready (w_mod (x_w s2) m)).
  change (on_w ?h (sf f s2)) with (sf f (on_w h s2)) at 1.
  apply fold_sf. intros; apply end_task_sf.
Qed.

Lemma catch_sf f c m p w : catch c m p (set_fes w f) = (set_fes (fst (catch c m p w)) f, snd (catch c m p w)).
Proof. unfold catch. destruct p; [|reflexivity]. cbn [set_fes w_mod]. destruct (catchf (w_mod w m)); reflexivity. Qed.

Lemma at_sim_start_sf f k c now m stage s :
  at_sim_start k c now m stage (sf f s) = (sf f (fst (at_sim_start k c now m stage s)), snd (at_sim_start k c now m stage s)).
Proof.
  unfold at_sim_start. change (inc (w_mod (x_w (sf f s)) m)) with (inc (w_mod (x_w s) m)).
  destruct (stage =? 0); rewrite exec_sf; destruct (exec k now m _ _ _ s) as [s1 p]; cbn [fst snd sf x_w x_log];
    rewrite catch_sf; destruct (catch c m p (x_w s1)); reflexivity.
Qed.

Lemma restart_stage_sf f k c now m stage s :
  restart_stage k c now m stage (sf f s) = (sf f (fst (restart_stage k c now m stage s)), snd (restart_stage k c now m stage s)).
Proof. unfold restart_stage. rewrite at_sim_start_sf. reflexivity. Qed.

Lemma module_restart_sf f k c now m s : module_restart k c now m (sf f s) = sf f (module_restart k c now m s).
Proof.
  unfold module_restart.
  change (on_w ?h (sf f s)) with (sf f (on_w h s)).
  generalize (on_w (fun w => set_mod w m (set_active (w_mod w m) true)) s). intros s0.
  assert (G : forall l s b,
    fold_left (fun (acc : xs * bool) stage => if snd acc then acc else restart_stage k c now m stage (fst acc)) l (sf f s, b) =
    (sf f (fst (fold_left (fun (acc : xs * bool) stage => if snd acc then acc else restart_stage k c now m stage (fst acc)) l (s, b))),
     snd (fold_left (fun (acc : xs * bool) stage => if snd acc then acc else restart_stage k c now m stage (fst acc)) l (s, b)))).
  { induction l as [|st l IH]; intros s1 b; cbn [fold_left fst snd]; [reflexivity|].
    destruct b; [apply IH|]. rewrite restart_stage_sf. destruct (restart_stage k c now m st s1) as [s2 b2]. cbn [fst snd]. apply IH. }
  rewrite G. reflexivity.
Qed.

Lemma handle_message_sf f k c now m x s : handle_message k c now m x (sf f s) = sf f (handle_message k c now m x s).
Proof.
  unfold handle_message. change (active (w_mod (x_w (sf f s)) m)) with (active (w_mod (x_w s) m)).
  destruct (active (w_mod (x_w s) m)); [|reflexivity].
  rewrite exec_sf. destruct (exec k now m (CbMsg x) [] (pick_msg c x) s) as [s1 p]. cbn [fst snd sf x_w x_log].
  rewrite catch_sf. reflexivity.
Qed.

Lemma async_wakeup_sf f k now m s : async_wakeup k now m (sf f s) = sf f (async_wakeup k now m s).
Proof.
  unfold async_wakeup. change (active (w_mod (x_w (sf f s)) m)) with (active (w_mod (x_w s) m)).
  destruct (active (w_mod (x_w s) m)); [apply poll_ready_sf|reflexivity].
Qed.

Lemma at_sim_end_sf f k c now m s : at_sim_end k c now m (sf f s) = sf f (at_sim_end k c now m s).
Proof.
  unfold at_sim_end. rewrite exec_sf. destruct (exec k now m CbEnd [] (c_end c) s) as [s1 p]. cbn [fst snd sf x_w x_log].
  rewrite catch_sf. destruct (catch c m p (x_w s1)) as [w2 e]. cbn [fst snd]. destruct e; [reflexivity|].
  change {| x_w := set_fes w2 f; x_log := x_log s1 |} with (sf f {| x_w := w2; x_log := x_log s1 |}).
  rewrite poll_ready_sf. reflexivity.
Qed.

Lemma activate_sf now m w f : activate now m (set_fes w f) = set_fes (activate now m w) f.
Proof. unfold activate. cbn [set_fes w_mod]. destruct (split_due now (timers (w_mod w m))). reflexivity. Qed.
