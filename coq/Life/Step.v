(* One event of the model: what activate / the callbacks / deactivate / buf_process touch.
   Frame lemmas: an event of module m changes no other module; the global slots are released
   after every event; consuming a shutdown request (C09 shutdown_frame). *)
From Coq Require Import List NArith Bool Lia.
From DesVerif Require Import Life.Model Life.Base.
Import ListNotations.
Open Scope N_scope.

(* ---- the callback level: other modules, the event set and the context slot are untouched ---- *)
Record Fo (m : N) (w w' : world) : Prop := {
  fo_oth : forall i, i <> m -> w_mod w' i = w_mod w i;
  fo_fes : w_fes w' = w_fes w;
  fo_cur : w_cur w' = w_cur w;
  fo_inc : inc (w_mod w' m) = inc (w_mod w m);
  fo_nw : nw (w_mod w' m) = nw (w_mod w m);
  fo_buf : exists l, w_buf w' = w_buf w ++ l /\ Forall msg_ev l }.

Lemma Fo_refl m w : Fo m w w.
Proof. constructor; try reflexivity. exists []. rewrite app_nil_r. split; [reflexivity|constructor]. Qed.

Lemma Fo_trans m w1 w2 w3 : Fo m w1 w2 -> Fo m w2 w3 -> Fo m w1 w3.
Proof.
  intros [a1 a2 a3 a4 a5 (la & a6 & a7)] [b1 b2 b3 b4 b5 (lb & b6 & b7)]. constructor; try congruence.
  - intros i Hi. rewrite b1, a1; auto.
  - exists (la ++ lb). rewrite b6, a6, app_assoc. split; [reflexivity|apply Forall_app; auto].
Qed.

Lemma Fr_Fo m w w' : Fr m w w' -> Fo m w w'.
Proof. intros [a1 a2 a3 a4 a5 a6 a7 a8]. constructor; auto. Qed.

Lemma Fo_set_active m w a : Fo m w (set_mod w m (set_active (w_mod w m) a)).
Proof.
  constructor; try reflexivity; rewrite ?mod_same; try reflexivity.
  - intros i Hi. apply mod_other, Hi.
  - exists []. rewrite app_nil_r. split; [reflexivity|constructor].
Qed.

Lemma Fo_set_err m w e : Fo m w (set_err w e).
Proof. constructor; try reflexivity. exists []. rewrite app_nil_r. split; [reflexivity|constructor]. Qed.

Lemma catch_Fo c m p w : Fo m w (fst (catch c m p w)).
Proof.
  unfold catch. destruct p; cbn [fst]; [|apply Fo_refl].
  destruct (catchf (w_mod w m)); cbn [fst]; [apply Fo_set_active|].
  eapply Fo_trans; [apply Fo_set_active|apply Fo_set_err].
Qed.

Lemma exec_Fo k now m c sp p s : Fo m (x_w s) (x_w (fst (exec k now m c sp p s))).
Proof. apply Fr_Fo, exec_Fr. Qed.

(* callbacks as state transformers: frame + log extension *)
Definition CbOK (m : N) (f : xs -> xs) : Prop := forall s, Fo m (x_w s) (x_w (f s)) /\ LogExt m s (f s).

Lemma at_sim_start_ok k c now m stage s :
  Fo m (x_w s) (x_w (fst (at_sim_start k c now m stage s))) /\ LogExt m s (fst (at_sim_start k c now m stage s)).
Proof.
  unfold at_sim_start.
  set (e := if stage =? 0 then exec k now m (CbStart stage) (c_spawn c) (pick_start c (inc (w_mod (x_w s) m))) s
            else exec k now m (CbStart stage) [] [] s).
  assert (He : Fo m (x_w s) (x_w (fst e)) /\ LogExt m s (fst e)).
  { unfold e. destruct (stage =? 0); split; try apply exec_Fo; apply exec_LogExt. }
  destruct e as [s1 p]. cbn [fst] in He. destruct He as [H1 H2].
  pose proof (catch_Fo c m p (x_w s1)) as H3. destruct (catch c m p (x_w s1)) as [w2 e2]. cbn [fst] in *.
  split; [eapply Fo_trans; eauto|]. destruct H2 as (l & Hl & Ol). exists l. cbn [x_log]. auto.
Qed.

Lemma restart_fold_ok k c now m : forall l s b,
  let r := fold_left (fun (acc : xs * bool) stage => if snd acc then acc else restart_stage k c now m stage (fst acc)) l (s, b) in
  Fo m (x_w s) (x_w (fst r)) /\ LogExt m s (fst r).
Proof.
  induction l as [|st l IH]; intros s b; cbn [fold_left fst snd]; [split; [apply Fo_refl|apply LogExt_refl]|].
  destruct b.
  - apply IH.
  - destruct (at_sim_start_ok k c now m st s) as [H1 H2]. unfold restart_stage.
    destruct (at_sim_start k c now m st s) as [s1 b1]. cbn [fst snd] in *.
    destruct (IH s1 (b1 || negb (active (w_mod (x_w s1) m)))) as [H3 H4]. split; [eapply Fo_trans; eauto|eapply LogExt_trans; eauto].
Qed.

Lemma module_restart_ok k c now m : CbOK m (module_restart k c now m).
Proof.
  intros s. unfold module_restart.
  match goal with |- context [fold_left ?f ?l (?s0, false)] => destruct (restart_fold_ok k c now m l s0 false) as [H1 H2] end.
  split.
  - eapply Fo_trans; [|exact H1]. wsimpl. apply Fo_set_active.
  - eapply LogExt_trans; [apply LogExt_on_w|exact H2].
Qed.

Lemma handle_message_ok k c now m x : CbOK m (handle_message k c now m x).
Proof.
  intros s. unfold handle_message. destruct (active (w_mod (x_w s) m)); [|split; [apply Fo_refl|apply LogExt_refl]].
  pose proof (exec_Fo k now m (CbMsg x) [] (pick_msg c x) s) as H1.
  pose proof (exec_LogExt k now m (CbMsg x) [] (pick_msg c x) s) as H2.
  destruct (exec k now m (CbMsg x) [] (pick_msg c x) s) as [s1 p]. cbn [fst] in *. wsimpl.
  split; [eapply Fo_trans; [exact H1|apply catch_Fo]|]. destruct H2 as (l & Hl & Ol). exists l. cbn [x_log]. auto.
Qed.

Lemma async_wakeup_ok k now m : CbOK m (async_wakeup k now m).
Proof.
  intros s. unfold async_wakeup. destruct (active (w_mod (x_w s) m)); [|split; [apply Fo_refl|apply LogExt_refl]].
  split; [apply Fr_Fo, poll_ready_Fr|apply poll_ready_LogExt].
Qed.

Lemma start_cb_ok k c now m stage : CbOK m (fun s => fst (at_sim_start k c now m stage s)).
Proof. intros s. apply at_sim_start_ok. Qed.

Lemma at_sim_end_ok k c now m : CbOK m (at_sim_end k c now m).
Proof.
  intros s. unfold at_sim_end.
  pose proof (exec_Fo k now m CbEnd [] (c_end c) s) as H1.
  pose proof (exec_LogExt k now m CbEnd [] (c_end c) s) as H2.
  destruct (exec k now m CbEnd [] (c_end c) s) as [s1 p]. cbn [fst] in *.
  pose proof (catch_Fo c m p (x_w s1)) as H3. destruct (catch c m p (x_w s1)) as [w2 e]. cbn [fst] in *.
  set (s2 := {| x_w := w2; x_log := x_log s1 |}).
  assert (F2 : Fo m (x_w s) (x_w s2)) by (eapply Fo_trans; eauto).
  assert (L2 : LogExt m s s2) by (destruct H2 as (l & Hl & Ol); exists l; cbn [x_log s2]; auto).
  destruct e; [split; assumption|].
  split.
  - wsimpl. eapply Fo_trans; [exact F2|]. eapply Fo_trans; [apply Fr_Fo, poll_ready_Fr|apply Fo_set_err].
  - eapply LogExt_trans; [exact L2|]. eapply LogExt_trans; [apply poll_ready_LogExt|apply LogExt_on_w].
Qed.

(* ---- activate / deactivate / buf_process ---- *)
Lemma activate_oth now m w i : i <> m -> w_mod (activate now m w) i = w_mod w i.
Proof. intros H. unfold activate. destruct (split_due now (timers (w_mod w m))). wsimpl. apply N.eqb_neq in H. rewrite H. reflexivity. Qed.

Lemma activate_fes now m w : w_fes (activate now m w) = w_fes w.
Proof. unfold activate. destruct (split_due now (timers (w_mod w m))). reflexivity. Qed.

Lemma activate_buf now m w : w_buf (activate now m w) = w_buf w.
Proof. unfold activate. destruct (split_due now (timers (w_mod w m))). reflexivity. Qed.

Lemma activate_err now m w : w_err (activate now m w) = w_err w.
Proof. unfold activate. destruct (split_due now (timers (w_mod w m))). reflexivity. Qed.

Lemma deactivate_oth m w i : i <> m -> w_mod (deactivate m w) i = w_mod w i.
Proof.
  intros H. unfold deactivate. destruct (timers (w_mod w m)) as [|[t tk] r]; [reflexivity|].
  destruct (lt_nw t (nw (w_mod w m))); [|reflexivity]. wsimpl. apply N.eqb_neq in H. rewrite H. reflexivity.
Qed.

Lemma deactivate_cur m w : w_cur (deactivate m w) = None.
Proof. reflexivity. Qed.

Lemma deactivate_buf m w : w_buf (deactivate m w) = w_buf w.
Proof.
  unfold deactivate. destruct (timers (w_mod w m)) as [|[t tk] r]; [reflexivity|].
  destruct (lt_nw t (nw (w_mod w m))); reflexivity.
Qed.

Lemma deactivate_err m w : w_err (deactivate m w) = w_err w.
Proof.
  unfold deactivate. destruct (timers (w_mod w m)) as [|[t tk] r]; [reflexivity|].
  destruct (lt_nw t (nw (w_mod w m))); reflexivity.
Qed.

Lemma shutdown_part_oth c now m w i : i <> m -> w_mod (fst (shutdown_part c now m w)) i = w_mod w i.
Proof.
  intros H. unfold shutdown_part. destruct (shut (w_mod w m)) as [r|]; [|reflexivity]. cbn [fst].
  apply N.eqb_neq in H. destruct r; destruct (c_rsend c); wsimpl; rewrite H; reflexivity.
Qed.

(* the error a panicking Module::reset adds when the pending request of m is consumed *)
Definition rerr (c : modcfg) (m : N) (w : world) : list (N * N) :=
  match shut (w_mod w m) with Some _ => if c_rsend c then [(0, m)] else [] | None => [] end.

Lemma shutdown_part_glob c now m w :
  w_cur (fst (shutdown_part c now m w)) = w_cur w /\ w_buf (fst (shutdown_part c now m w)) = w_buf w /\
  w_err (fst (shutdown_part c now m w)) = w_err w ++ rerr c m w.
Proof.
  unfold shutdown_part, rerr. destruct (shut (w_mod w m)) as [[t|]|]; cbn [fst]; try destruct (c_rsend c); wsimpl; rewrite ?app_nil_r; auto.
Qed.

(* the world with / without the error of a panicking reset *)
Lemma ifse_fes (b : bool) w e : w_fes (if b then set_err w e else w) = w_fes w.
Proof. destruct b; reflexivity. Qed.
Lemma ifse_mod (b : bool) w e : w_mod (if b then set_err w e else w) = w_mod w.
Proof. destruct b; reflexivity. Qed.
Lemma ifse_buf (b : bool) w e : w_buf (if b then set_err w e else w) = w_buf w.
Proof. destruct b; reflexivity. Qed.
Lemma ifse_cur (b : bool) w e : w_cur (if b then set_err w e else w) = w_cur w.
Proof. destruct b; reflexivity. Qed.
Lemma ifse_fin (b : bool) w e : w_fin (if b then set_err w e else w) = w_fin w.
Proof. destruct b; reflexivity. Qed.
Lemma rpanic_sys c m : Forall (fun i => is_sys i = true) (rpanic c m).
Proof. unfold rpanic. destruct (c_rsend c); repeat constructor. Qed.

Lemma buf_process_oth c now m w i : i <> m -> w_mod (fst (buf_process c now m w)) i = w_mod w i.
Proof. intros H. unfold buf_process. rewrite shutdown_part_oth by exact H. reflexivity. Qed.

Lemma buf_process_glob c now m w :
  w_cur (fst (buf_process c now m w)) = w_cur w /\ w_buf (fst (buf_process c now m w)) = [] /\
  w_err (fst (buf_process c now m w)) = w_err w ++ rerr c m w.
Proof. unfold buf_process. destruct (shutdown_part_glob c now m (set_buf (set_fes w (fes_flush (w_buf w) (w_fes w))) [])) as (a & b & d). auto. Qed.

Lemma cancelled_in m c x i : In i (cancelled m c x) -> (exists id, i = ICancel m id) \/ (exists id, i = ITaskEnd m id (inc x) 2).
Proof.
  unfold cancelled. intros Hi. apply in_app_or in Hi.
  destruct Hi as [Hi|Hi]; apply in_map_iff in Hi; destruct Hi as (j & <- & _); [left|right]; eexists; reflexivity.
Qed.

Lemma cancelled_own m c x : Own m (cancelled m c x).
Proof.
  unfold cancelled, Own. apply Forall_forall. intros i Hi. apply in_app_or in Hi.
  destruct Hi as [Hi|Hi]; apply in_map_iff in Hi; destruct Hi as (j & <- & _); reflexivity.
Qed.

Lemma shutdown_part_own c now m w : Own m (snd (shutdown_part c now m w)).
Proof.
  unfold shutdown_part. destruct (shut (w_mod w m)); cbn [snd]; [|constructor].
  apply Own_app; [apply cancelled_own|constructor; [reflexivity|]]. unfold rpanic. destruct (c_rsend c); repeat constructor.
Qed.

(* ---- around: one module event ---- *)
Lemma around_oth sc now m f w i : CbOK m f -> i <> m -> w_mod (fst (around sc now m f w)) i = w_mod w i.
Proof.
  intros Hf Hi. unfold around.
  destruct (Hf {| x_w := activate now m w; x_log := [] |}) as [[F _ _ _ _ _] _].
  set (s := f {| x_w := activate now m w; x_log := [] |}) in *.
  pose proof (buf_process_oth (cfg sc m) now m (deactivate m (x_w s)) i Hi) as H.
  destruct (buf_process (cfg sc m) now m (deactivate m (x_w s))) as [w' l]. cbn [fst] in *.
  rewrite H, deactivate_oth, F by exact Hi. cbn [x_w]. apply activate_oth, Hi.
Qed.

Lemma around_glob sc now m f w : w_cur (fst (around sc now m f w)) = None /\ w_buf (fst (around sc now m f w)) = [].
Proof.
  unfold around. set (s := f {| x_w := activate now m w; x_log := [] |}).
  destruct (buf_process_glob (cfg sc m) now m (deactivate m (x_w s))) as (a & b & _).
  destruct (buf_process (cfg sc m) now m (deactivate m (x_w s))) as [w' l]. cbn [fst] in *. rewrite a. auto.
Qed.

Lemma around_own sc now m f w : CbOK m f -> Own m (snd (around sc now m f w)).
Proof.
  intros Hf. unfold around.
  destruct (Hf {| x_w := activate now m w; x_log := [] |}) as [_ (l & Hl & Ol)].
  set (s := f {| x_w := activate now m w; x_log := [] |}) in *.
  pose proof (shutdown_part_own (cfg sc m) now m (set_buf (set_fes (deactivate m (x_w s)) (fes_flush (w_buf (deactivate m (x_w s))) (w_fes (deactivate m (x_w s))))) [])) as H.
  fold (buf_process (cfg sc m) now m (deactivate m (x_w s))) in H.
  destruct (buf_process (cfg sc m) now m (deactivate m (x_w s))) as [w' l']. cbn [snd] in *.
  apply Own_app; [|exact H]. cbn [x_log app] in Hl. rewrite Hl. apply Usr_Own, Ol.
Qed.

(* the module an event belongs to *)
Definition ev_mod (ev : fev) : option N :=
  match ev with EvExit _ _ _ => None | EvDeliver m _ | EvWake m | EvRestart m => Some m end.

Lemma process_oth sc w t ev i : ev_mod ev <> Some i -> w_mod (fst (process sc w t ev)) i = w_mod w i.
Proof.
  intros H. unfold process. destruct ev as [m far x|m x|m|m]; cbn [ev_mod] in H.
  - cbn [fst]. destruct (walk (nmods sc) w m far); reflexivity.
  - apply around_oth; [apply handle_message_ok|congruence].
  - apply around_oth; [apply async_wakeup_ok|congruence].
  - apply around_oth; [apply module_restart_ok|congruence].
Qed.

(* C13 globals_released, one step: after every event the module-context slot is empty and the
   event buffer is drained -- whatever the callbacks did, panics included *)
Lemma process_glob sc w t ev : w_cur w = None -> w_buf w = [] ->
  w_cur (fst (process sc w t ev)) = None /\ w_buf (fst (process sc w t ev)) = [].
Proof.
  intros Hc Hb. unfold process. destruct ev as [m far x|m x|m|m]; try apply around_glob.
  cbn [fst]. destruct (walk (nmods sc) w m far); cbn [set_fes w_cur w_buf]; auto.
Qed.

Lemma process_own sc w t ev : match ev_mod ev with Some m => Own m (snd (process sc w t ev)) | None => snd (process sc w t ev) = [] end.
Proof.
  unfold process. destruct ev as [m far x|m x|m|m]; cbn [ev_mod].
  - reflexivity.
  - apply around_own, handle_message_ok.
  - apply around_own, async_wakeup_ok.
  - apply around_own, module_restart_ok.
Qed.

(* ---- C09 shutdown_frame ---- *)
Definition fes_order (f : fes) : list (N * fev) := f_zero f ++ f_rest f.

Lemma fes_ins_split t e : forall l, exists l1 l2, l = l1 ++ l2 /\ fes_ins t e l = l1 ++ (t, e) :: l2.
Proof.
  induction l as [|x r IH]; cbn [fes_ins]; [exists [], []; auto|].
  destruct (t <? fst x); [exists [], (x :: r); auto|].
  destruct IH as (l1 & l2 & -> & ->). exists (x :: l1), l2. auto.
Qed.

Lemma fes_add_order t e f : exists l1 l2, fes_order f = l1 ++ l2 /\ fes_order (fes_add t e f) = l1 ++ (t, e) :: l2.
Proof.
  unfold fes_order, fes_add. destruct (t =? f_tcur f); cbn [f_zero f_rest].
  - exists (f_zero f), (f_rest f). rewrite <- app_assoc. auto.
  - destruct (fes_ins_split t e (f_rest f)) as (l1 & l2 & H1 & H2). exists (f_zero f ++ l1), l2.
    rewrite H2, H1 at 1. rewrite !app_assoc. auto.
Qed.

(* Consuming module m's shutdown request changes no other module's state (its tasks and timers
   are part of that state), leaves the global slots and the error list alone, and changes the
   queued events only by inserting m's restart event (when a restart time was given): every other
   queued event keeps its place in the dispatch order. *)
Theorem shutdown_frame c now m w r : shut (w_mod w m) = Some r ->
  let w' := fst (shutdown_part c now m w) in
  (forall i, i <> m -> w_mod w' i = w_mod w i) /\
  w_cur w' = w_cur w /\ w_buf w' = w_buf w /\ w_err w' = w_err w ++ (if c_rsend c then [(0, m)] else []) /\
  match r with
  | None => w_fes w' = w_fes w
  | Some t => exists l1 l2, fes_order (w_fes w) = l1 ++ l2 /\ fes_order (w_fes w') = l1 ++ (t, EvRestart m) :: l2
  end /\
  (* and m itself ends up inactive, without tasks, timers or pending request *)
  active (w_mod w' m) = false /\ ready (w_mod w' m) = [] /\ timers (w_mod w' m) = [] /\ shut (w_mod w' m) = None.
Proof.
  intros Hs w'. split; [intros i Hi; apply shutdown_part_oth, Hi|].
  destruct (shutdown_part_glob c now m w) as (a & b & d). unfold rerr in d. rewrite Hs in d. repeat (split; [assumption|]).
  subst w'. unfold shutdown_part. rewrite Hs. cbn [fst]. destruct r as [t|]; destruct (c_rsend c); wsimpl; rewrite ?N.eqb_refl; wsimpl; auto; (split; [apply fes_add_order|auto]).
Qed.
