(* C09 fresh_after_restart, whole-trace form.  A module's records depend on its own state only: two worlds -- of two
   scripts, with whatever other modules, event sets, buffers -- that agree on module m ([Mrel]) stay in agreement and
   produce the same records of m under the same sequence of events ([mlog_local]).  A restart event of a
   single-stage module is the start-up step of a fresh module built around the kept pieces, taken at the time of
   the restart ([restart_as_fresh_start]).  Hence the records of m from the restart on are those of such a fresh
   module in any environment that delivers the same events to it. *)
From Coq Require Import List NArith Bool Lia.
From DesVerif Require Import Common.Fuel Life.Model Life.Base Life.Step Life.Trace Life.Inert Life.Restart Life.Agree
  Life.SilentBase Life.TearDown Life.Fresh.
Import ListNotations.
Open Scope N_scope.

Section Local.
Variables (j now : N).

Lemma TS_refl x : TS now now x x.
Proof.
  constructor; try reflexivity.
  - induction (timers x) as [|a l IH]; constructor; [split; [reflexivity|left; auto]|exact IH].
  - unfold sh_rel. destruct (shut x) as [[t|]|]; try exact I. left. auto.
Qed.

Lemma dl_rel_eq t t' : dl_rel now now t t' -> t = t'.
Proof. intros [[_ H]|(d & -> & ->)]; [exact H|reflexivity]. Qed.

Lemma TS_eq x x' : TS now now x x' -> x = x'.
Proof.
  intros [a b c d e f g h i].
  assert (Ht : timers x = timers x').
  { induction h as [|p q l l' [H1 H2] _ IH]; [reflexivity|]. rewrite IH. destruct p, q. cbn [fst snd] in *. rewrite H1, (dl_rel_eq _ _ H2). reflexivity. }
  assert (Hs : shut x = shut x').
  { unfold sh_rel in i. destruct (shut x) as [[t|]|], (shut x') as [[t'|]|]; try contradiction; try reflexivity. rewrite (dl_rel_eq _ _ i). reflexivity. }
  destruct x, x'. cbn in *. subst. reflexivity.
Qed.

(* two interpreter states that agree on module j *)
Definition RXe (s s' : xs) : Prop := RX j now now s s'.

Lemma RXe_intro s s' : w_mod (x_w s) j = w_mod (x_w s') j -> x_log s = x_log s' -> RXe s s'.
Proof.
  intros A B. split; [rewrite A; apply TS_refl|]. rewrite B. clear. generalize (x_log s'). induction l as [|i l IH]; constructor; [apply irel_refl|exact IH].
Qed.

Lemma RXe_elim s s' : RXe s s' -> w_mod (x_w s) j = w_mod (x_w s') j /\ x_log s = x_log s'.
Proof. intros [A B]. split; [apply TS_eq, A|apply (irel_logs now now _ _ B), eq_refl]. Qed.

(* the remaining callbacks (Life/TearDown.v has at_sim_end) *)
Lemma at_sim_start_RX k c stage s s' : RXe s s' ->
  RXe (fst (at_sim_start k c now j stage s)) (fst (at_sim_start k c now j stage s')) /\
  snd (at_sim_start k c now j stage s) = snd (at_sim_start k c now j stage s').
Proof.
  intros H. unfold at_sim_start. rewrite (ts_inc _ _ _ _ (proj1 H)).
  set (e := if stage =? 0 then exec k now j (CbStart stage) (c_spawn c) (pick_start c (inc (w_mod (x_w s') j))) s
            else exec k now j (CbStart stage) [] [] s).
  set (e' := if stage =? 0 then exec k now j (CbStart stage) (c_spawn c) (pick_start c (inc (w_mod (x_w s') j))) s'
             else exec k now j (CbStart stage) [] [] s').
  assert (He : RXe (fst e) (fst e') /\ snd e = snd e') by (unfold e, e'; destruct (stage =? 0); apply exec_RX, H).
  destruct e as [s1 pn], e' as [s1' pn']. cbn [fst snd] in He. destruct He as [H1 ->].
  destruct (catch_TS j now now c pn' (x_w s1) (x_w s1') (proj1 H1)) as [C1 C2].
  destruct (catch c j pn' (x_w s1)) as [w2 e2], (catch c j pn' (x_w s1')) as [w2' e2']. cbn [fst snd] in *. subst e2'.
  split; [split; [exact C1|exact (proj2 H1)]|reflexivity].
Qed.

Lemma restart_fold_RX k c : forall l s s' b, RXe s s' ->
  RXe (fst (fold_left (fun (acc : xs * bool) stage => if snd acc then acc else restart_stage k c now j stage (fst acc)) l (s, b)))
      (fst (fold_left (fun (acc : xs * bool) stage => if snd acc then acc else restart_stage k c now j stage (fst acc)) l (s', b))).
Proof.
  induction l as [|st l IH]; intros s s' b H; cbn [fold_left fst snd]; [exact H|].
  destruct b; [apply IH, H|]. unfold restart_stage. destruct (at_sim_start_RX k c st s s' H) as [H1 H2].
  rewrite H2, (ts_active _ _ _ _ (proj1 H1)). apply IH, H1.
Qed.

Lemma wake_RX s s' : RXe s s' ->
  RXe (on_w (fun w => set_mod w j (set_active (w_mod w j) true)) s) (on_w (fun w => set_mod w j (set_active (w_mod w j) true)) s').
Proof.
  intros H. destruct (RXe_elim _ _ H) as [A B]. apply RXe_intro; [|exact B]. cbn [on_w x_w]. rewrite !mod_same, A. reflexivity.
Qed.

Lemma module_restart_RX k c s s' : RXe s s' -> RXe (module_restart k c now j s) (module_restart k c now j s').
Proof. intros H. unfold module_restart. apply restart_fold_RX, wake_RX, H. Qed.

Lemma handle_message_RX k c x s s' : RXe s s' -> RXe (handle_message k c now j x s) (handle_message k c now j x s').
Proof.
  intros H. unfold handle_message. rewrite (ts_active _ _ _ _ (proj1 H)). destruct (active (w_mod (x_w s') j)); [|exact H].
  destruct (exec_RX j now now k (CbMsg x) [] (pick_msg c x) s s' H) as [H1 H2].
  destruct (exec k now j (CbMsg x) [] (pick_msg c x) s) as [s1 pn], (exec k now j (CbMsg x) [] (pick_msg c x) s') as [s1' pn'].
  cbn [fst snd] in *. subst pn'. split; [apply (catch_TS j now now c pn (x_w s1) (x_w s1') (proj1 H1))|exact (proj2 H1)].
Qed.

Lemma async_wakeup_RX k s s' : RXe s s' -> RXe (async_wakeup k now j s) (async_wakeup k now j s').
Proof.
  intros H. unfold async_wakeup. rewrite (ts_active _ _ _ _ (proj1 H)). destruct (active (w_mod (x_w s') j)); [apply poll_ready_RX, H|exact H].
Qed.

(* what deactivate / buf_process make of module j and write into the record depends on module j only *)
Lemma buf_process_items c i w : snd (buf_process c now i w) =
  match shut (w_mod w i) with Some _ => cancelled i c (w_mod w i) ++ [IReset i now (inc (w_mod w i) + 1)] ++ rpanic c i | None => [] end.
Proof. unfold buf_process, shutdown_part. cbn [w_mod set_buf set_fes]. destruct (shut (w_mod w i)); reflexivity. Qed.

Lemma activate_local w w' : w_mod w j = w_mod w' j -> w_mod (activate now j w) j = w_mod (activate now j w') j.
Proof.
  intros E. unfold activate. rewrite E. destruct (split_due now (timers (w_mod w' j))) as [d q]. cbn [w_mod set_cur set_mod].
  rewrite !N.eqb_refl. reflexivity.
Qed.

(* one event of module j in two worlds that agree on j, under callbacks that respect the agreement *)
Lemma around_local sc sc' f f' w w' : cfg sc j = cfg sc' j -> w_mod w j = w_mod w' j ->
  (forall s s', RXe s s' -> RXe (f s) (f' s')) ->
  snd (around sc now j f w) = snd (around sc' now j f' w') /\
  w_mod (fst (around sc now j f w)) j = w_mod (fst (around sc' now j f' w')) j.
Proof.
  intros Ec E Hf.
  assert (H0 : RXe {| x_w := activate now j w; x_log := [] |} {| x_w := activate now j w'; x_log := [] |})
    by (apply RXe_intro; [apply activate_local, E|reflexivity]).
  destruct (RXe_elim _ _ (Hf _ _ H0)) as [A B].
  split.
  - unfold around. set (s := f _) in *. set (s' := f' _) in *.
    pose proof (buf_process_items (cfg sc j) j (deactivate j (x_w s))) as I1.
    pose proof (buf_process_items (cfg sc' j) j (deactivate j (x_w s'))) as I2.
    destruct (buf_process (cfg sc j) now j (deactivate j (x_w s))) as [w1 l1], (buf_process (cfg sc' j) now j (deactivate j (x_w s'))) as [w1' l1'].
    cbn [snd] in *. rewrite I1, I2, !deactivate_mod_eq, A, B, Ec. reflexivity.
  - rewrite !around_fst. set (s := f _) in *. set (s' := f' _) in *. rewrite !buf_process_mod, !deactivate_mod_eq, A. reflexivity.
Qed.
End Local.

(* ---- worlds that agree on module m ---- *)
Definition Mrel (m : N) (w w' : world) : Prop := w_mod w m = w_mod w' m.

Section Sim.
Variables (sc sc' : script) (m : N).
Hypothesis Hcfg : cfg sc m = cfg sc' m.
Hypothesis Hk : nmods sc = nmods sc'.

(* a dispatched event of m: same records, agreement kept *)
Lemma process_local w w' t ev : ev_mod ev = Some m -> Mrel m w w' ->
  snd (process sc w t ev) = snd (process sc' w' t ev) /\ Mrel m (fst (process sc w t ev)) (fst (process sc' w' t ev)).
Proof.
  intros Em E. destruct ev as [i far x|i x|i|i]; cbn [ev_mod] in Em; try discriminate; injection Em as ->; cbn [process]; rewrite <- ?Hk, <- ?Hcfg.
  - apply (around_local m t sc sc'); [exact Hcfg|exact E|intros s s'; apply handle_message_RX].
  - apply (around_local m t sc sc'); [exact Hcfg|exact E|intros s s'; apply async_wakeup_RX].
  - apply (around_local m t sc sc'); [exact Hcfg|exact E|intros s s'; apply module_restart_RX].
Qed.

(* an event of another module (possibly a different one in each world): nothing of m *)
Lemma process_other w w' t t' ev ev' : ev_mod ev <> Some m -> ev_mod ev' <> Some m -> Mrel m w w' ->
  Mrel m (fst (process sc w t ev)) (fst (process sc' w' t' ev')).
Proof. intros H H' E. unfold Mrel. rewrite !process_oth by assumption. exact E. Qed.

(* a start-up stage and the tear-down of m *)
Lemma start_local w w' t stage : Mrel m w w' ->
  let cb := fun sc0 s => fst (at_sim_start (nmods sc0) (cfg sc0 m) t m stage s) in
  snd (around sc t m (cb sc) w) = snd (around sc' t m (cb sc') w') /\ Mrel m (fst (around sc t m (cb sc) w)) (fst (around sc' t m (cb sc') w')).
Proof.
  intros E cb. unfold cb. rewrite <- Hk, <- Hcfg. apply (around_local m t sc sc'); [exact Hcfg|exact E|]. intros s s' H. apply at_sim_start_RX, H.
Qed.

Lemma end_local w w' t : Mrel m w w' -> e_items (snd (end_rec sc t m w)) = e_items (snd (end_rec sc' t m w')).
Proof.
  intros E. unfold end_rec. cbn [snd e_items]. rewrite <- Hk, <- Hcfg.
  apply (RXe_elim m t), at_sim_end_RX, RXe_intro; [apply activate_local, E|reflexivity].
Qed.

(* a whole sequence of dispatched events, each with the event set it leaves behind: the records of m's events *)
Definition is_m (ev : fev) : bool := match ev_mod ev with Some i => i =? m | None => false end.

Fixpoint mlog (sc0 : script) (w : world) (evs : list (N * fev * fes)) : list (list item) :=
  match evs with
  | [] => []
  | (t, ev, f) :: r =>
    (if is_m ev then [snd (process sc0 (set_fes w f) t ev)] else []) ++ mlog sc0 (fst (process sc0 (set_fes w f) t ev)) r
  end.

(* the same events (times and kinds; the event sets may differ) on two worlds that agree on m *)
Theorem mlog_local : forall evs evs' w w', map fst evs = map fst evs' -> Mrel m w w' -> mlog sc w evs = mlog sc' w' evs'.
Proof.
  induction evs as [|[[t ev] f] r IH]; intros [|[[t' ev'] f'] r'] w w' Hm E; cbn [map] in Hm; try discriminate; [reflexivity|].
  cbn [fst] in Hm. injection Hm as <- <- Hm. cbn [mlog].
  assert (E1 : Mrel m (set_fes w f) (set_fes w' f')) by exact E.
  unfold is_m. destruct (ev_mod ev) as [i|] eqn:Em.
  - destruct (i =? m) eqn:Ei.
    + apply N.eqb_eq in Ei. subst i. destruct (process_local _ _ t ev Em E1) as [A B]. rewrite A, (IH _ _ _ Hm B). reflexivity.
    + apply N.eqb_neq in Ei. cbn [app]. apply IH; [exact Hm|]. apply process_other; try exact E1; rewrite Em; intros C; injection C as ->; contradiction.
  - cbn [app]. apply IH; [exact Hm|]. apply process_other; try exact E1; rewrite Em; discriminate.
Qed.
(* the world after such a sequence *)
Fixpoint mrun (sc0 : script) (w : world) (evs : list (N * fev * fes)) : world :=
  match evs with [] => w | (t, ev, f) :: r => mrun sc0 (fst (process sc0 (set_fes w f) t ev)) r end.

Lemma mrun_local : forall evs evs' w w', map fst evs = map fst evs' -> Mrel m w w' -> Mrel m (mrun sc w evs) (mrun sc' w' evs').
Proof.
  induction evs as [|[[t ev] f] r IH]; intros [|[[t' ev'] f'] r'] w w' Hm E; cbn [map] in Hm; try discriminate; [exact E|].
  cbn [fst] in Hm. injection Hm as <- <- Hm. cbn [mrun]. apply IH; [exact Hm|].
  assert (E1 : Mrel m (set_fes w f) (set_fes w' f')) by exact E.
  destruct (ev_mod ev) as [i|] eqn:Em.
  - destruct (N.eq_dec i m) as [->|Hi]; [apply (process_local _ _ t ev Em E1)|].
    apply process_other; try exact E1; rewrite Em; intros C; injection C as ->; contradiction.
  - apply process_other; try exact E1; rewrite Em; discriminate.
Qed.
End Sim.

(* ---- the event loop of a run is such a sequence ---- *)
(* the records of m's dispatched events in a trace, without the is_active sample that closes each record *)
Definition mrecords (m : N) (tr : list erec) : list (list item) :=
  flat_map (fun e => match e_kind e with KLoop ev => if is_m m ev then [removelast (e_items e)] else [] | _ => [] end) tr.

Lemma mrecords_app m a b : mrecords m (a ++ b) = mrecords m a ++ mrecords m b.
Proof. apply flat_map_app. Qed.

Theorem loop_is_mlog sc m : forall k w now tr wf nf trf, iter_nat k (loop_step sc) (w, now, tr) = inr (wf, nf, trf) ->
  exists evs, mrecords m trf = mrecords m tr ++ mlog m sc w evs.
Proof.
  induction k as [|k IH]; intros w now tr wf nf trf E; cbn [iter_nat] in E; [discriminate|].
  rewrite loop_step_eq in E. destruct (fes_fetch (w_fes w)) as [[[t ev] f1]|] eqn:Hf.
  - destruct (IH _ _ _ _ _ _ E) as (evs & He). exists ((t, ev, f1) :: evs). rewrite He, mrecords_app, <- app_assoc. f_equal.
    cbn [mlog mrecords flat_map]. unfold loop_rec. cbn [snd e_kind e_items fst]. rewrite app_nil_r, removelast_last.
    destruct (is_m m ev); reflexivity.
  - injection E as <- <- <-. exists []. cbn [mlog]. rewrite app_nil_r. reflexivity.
Qed.

(* ---- a restart is the start of a fresh module ---- *)
(* single stage: the restart event on a world in which m is [fresh v false], and the start-up step -- at_sim_start(0) inside
   activate / deactivate / buf_process, as in the start-up sweep -- taken at the same time on a world in which m is the
   newly created [fresh v true]: same records, same state of m afterwards *)
Theorem restart_as_fresh_start sc sc' m t v w w' : cfg sc m = cfg sc' m -> nmods sc = nmods sc' -> c_stages (cfg sc m) = 1 ->
  w_mod w m = fresh v false -> w_mod w' m = fresh v true ->
  snd (process sc w t (EvRestart m)) = snd (around sc' t m (fun s => fst (at_sim_start (nmods sc') (cfg sc' m) t m 0 s)) w') /\
  Mrel m (fst (process sc w t (EvRestart m))) (fst (around sc' t m (fun s => fst (at_sim_start (nmods sc') (cfg sc' m) t m 0 s)) w')).
Proof.
  intros Hc Hk H1 Ew Ew'. cbn [process]. rewrite <- Hk, <- Hc.
  assert (Ef : forall s, module_restart (nmods sc) (cfg sc m) t m s =
                         fst (at_sim_start (nmods sc) (cfg sc m) t m 0 (on_w (fun w0 => set_mod w0 m (set_active (w_mod w0 m) true)) s)))
    by (intros s; apply module_restart_single, H1).
  (* agreement after activate and the setting of the active flag *)
  assert (H0 : RXe m t (on_w (fun w0 => set_mod w0 m (set_active (w_mod w0 m) true)) {| x_w := activate t m w; x_log := [] |})
                       {| x_w := activate t m w'; x_log := [] |}).
  { apply RXe_intro; [|reflexivity]. cbn [on_w x_w]. rewrite mod_same. unfold activate. rewrite Ew, Ew'. cbn [fresh timers split_due w_mod set_cur set_mod].
    rewrite !N.eqb_refl. reflexivity. }
  destruct (at_sim_start_RX m t (nmods sc) (cfg sc m) 0 _ _ H0) as [H2 _]. destruct (RXe_elim m t _ _ H2) as [A B].
  unfold Mrel. rewrite !around_fst. unfold around. rewrite !Ef.
  set (s := fst (at_sim_start _ _ t m 0 (on_w _ _))) in *. set (s' := fst (at_sim_start _ _ t m 0 {| x_w := activate t m w'; x_log := [] |})) in *.
  pose proof (buf_process_items t (cfg sc m) m (deactivate m (x_w s))) as I1.
  pose proof (buf_process_items t (cfg sc' m) m (deactivate m (x_w s'))) as I2.
  rewrite !buf_process_mod, !deactivate_mod_eq, A.
  destruct (buf_process (cfg sc m) t m (deactivate m (x_w s))) as [w1 l1], (buf_process (cfg sc' m) t m (deactivate m (x_w s'))) as [w1' l1'].
  cbn [snd] in *. rewrite I1, I2, !deactivate_mod_eq, A, B, Hc. auto.
Qed.

(* ... and from then on the two modules cannot be told apart: whatever events are dispatched afterwards -- the same
   times and kinds in both worlds, in whatever environments --, the records of m are the same *)
Theorem restarted_as_fresh sc sc' m t v w w' : cfg sc m = cfg sc' m -> nmods sc = nmods sc' -> c_stages (cfg sc m) = 1 ->
  w_mod w m = fresh v false -> w_mod w' m = fresh v true ->
  let wa := fst (process sc w t (EvRestart m)) in
  let wb := fst (around sc' t m (fun s => fst (at_sim_start (nmods sc') (cfg sc' m) t m 0 s)) w') in
  snd (process sc w t (EvRestart m)) = snd (around sc' t m (fun s => fst (at_sim_start (nmods sc') (cfg sc' m) t m 0 s)) w') /\
  (forall evs evs', map fst evs = map fst evs' -> mlog m sc wa evs = mlog m sc' wb evs') /\
  (forall evs evs' tend, map fst evs = map fst evs' ->
     e_items (snd (end_rec sc tend m (mrun sc wa evs))) = e_items (snd (end_rec sc' tend m (mrun sc' wb evs')))).
Proof.
  intros Hc Hk H1 Ew Ew' wa wb. destruct (restart_as_fresh_start sc sc' m t v w w' Hc Hk H1 Ew Ew') as [A B].
  split; [exact A|]. split.
  - intros evs evs' He. apply (mlog_local sc sc' m Hc Hk); assumption.
  - intros evs evs' tend He. apply (end_local sc sc' m Hc Hk), (mrun_local sc sc' m Hc Hk); assumption.
Qed.

(* a module created around trivial kept pieces is a module as first created *)
Lemma fresh_is_mst0 c v : k_inc v = 0 -> k_bud v = c_bud c -> k_nw v = None -> k_hnd v = [] -> k_catch v = c_catch c ->
  fresh v true = mst0 c.
Proof. destruct v. cbn. intros -> -> -> -> ->. reflexivity. Qed.
