(* Helper facts for Life/Silent.v: components of the world after deactivate / buf_process, an
   event of an inactive module, restart events among the events a module event adds. *)
From Coq Require Import List NArith Bool Lia PeanoNat.
From DesVerif Require Import Life.Model Life.Base Life.Step Life.Trace Life.Frame Life.Inert Life.Events Life.Restart Life.Agree.
Import ListNotations.
Open Scope N_scope.

(* ---- small facts ---- *)
Lemma around_fst sc now i f w :
  fst (around sc now i f w) = fst (buf_process (cfg sc i) now i (deactivate i (x_w (f {| x_w := activate now i w; x_log := [] |})))).
Proof. unfold around. destruct (buf_process _ _ _ _). reflexivity. Qed.

Lemma flush_rt_addok m i : i <> m -> forall adds f, Forall (add_ok i) adds ->
  restart_times m (fes_flush adds f) = restart_times m f.
Proof.
  intros Hi. induction adds as [|p adds IH]; intros f H; cbn [fes_flush fold_left]; [reflexivity|].
  inversion H; subst. fold (fes_flush adds (fes_add (fst p) (snd p) f)). rewrite IH by assumption.
  apply fes_add_rt_other. destruct p as [t e]. cbn [fst snd]. destruct H2 as [Hm|[Hw|Hr]]; cbn [snd] in *.
  - apply msg_not_restart, Hm.
  - subst e. reflexivity.
  - subst e. unfold is_restart. cbn [snd]. apply N.eqb_neq. exact Hi.
Qed.

Lemma stage_list_1 : stage_list 1 = [0].
Proof. reflexivity. Qed.

(* ---- components of the world after deactivate / buf_process ---- *)
Definition nw_after (x : mst) : option N :=
  match timers x with (t, _) :: _ => if lt_nw t (nw x) then Some t else nw x | [] => nw x end.

Lemma deactivate_mod_eq i w : w_mod (deactivate i w) i = set_nw (w_mod w i) (nw_after (w_mod w i)).
Proof.
  unfold deactivate, nw_after. destruct (timers (w_mod w i)) as [|[t tk] r].
  - cbn [w_mod set_cur]. destruct (w_mod w i); reflexivity.
  - destruct (lt_nw t (nw (w_mod w i))).
    + wsimpl. rewrite N.eqb_refl. reflexivity.
    + cbn [w_mod set_cur]. destruct (w_mod w i); reflexivity.
Qed.

Definition consumed (now : N) (x : mst) : mst :=
  {| active := false; inc := inc x + 1; bud := bud x; shut := None; nw := nw_bump now (nw x);
     timers := []; ready := []; tpanics := tpanics x |}.

Lemma buf_process_mod c now i w :
  w_mod (fst (buf_process c now i w)) i = match shut (w_mod w i) with Some _ => consumed now (w_mod w i) | None => w_mod w i end.
Proof.
  unfold buf_process, shutdown_part. cbn [w_mod set_buf set_fes].
  destruct (shut (w_mod w i)) as [[t|]|]; cbn [fst]; wsimpl; rewrite ?N.eqb_refl; reflexivity.
Qed.

Lemma buf_process_fes c now i w :
  w_fes (fst (buf_process c now i w)) = fes_flush (restart_of i (w_mod w i)) (fes_flush (w_buf w) (w_fes w)).
Proof.
  unfold buf_process, shutdown_part, restart_of. cbn [w_mod set_buf set_fes].
  destruct (shut (w_mod w i)) as [[t|]|]; reflexivity.
Qed.

Lemma activate_shut now i w : shut (w_mod (activate now i w) i) = shut (w_mod w i).
Proof. unfold activate. destruct (split_due now (timers (w_mod w i))). wsimpl. rewrite N.eqb_refl. reflexivity. Qed.

(* an event of a module that is inactive without a pending request *)
Lemma around_inactive sc0 now i f w : active (w_mod w i) = false -> shut (w_mod w i) = None -> w_buf w = [] ->
  (forall s, active (w_mod (x_w s) i) = false -> f s = s) ->
  snd (around sc0 now i f w) = [] /\
  w_fes (fst (around sc0 now i f w)) = fes_flush (wake_of i (w_mod (activate now i w) i)) (w_fes w) /\
  (forall j, j <> i -> w_mod (fst (around sc0 now i f w)) j = w_mod w j) /\
  active (w_mod (fst (around sc0 now i f w)) i) = false /\ shut (w_mod (fst (around sc0 now i f w)) i) = None /\
  w_buf (fst (around sc0 now i f w)) = [].
Proof.
  intros Ha Hs Hb Hf.
  assert (E : f {| x_w := activate now i w; x_log := [] |} = {| x_w := activate now i w; x_log := [] |})
    by (apply Hf; cbn [x_w]; rewrite activate_active; exact Ha).
  assert (Hsd : shut (w_mod (deactivate i (activate now i w)) i) = None)
    by (rewrite deactivate_mod_eq; cbn [shut set_nw]; rewrite activate_shut; exact Hs).
  split; [|split; [|split; [|split; [|split]]]].
  - unfold around. rewrite E. cbn [x_w x_log app]. unfold buf_process, shutdown_part. cbn [w_mod set_buf set_fes].
    rewrite Hsd. reflexivity.
  - rewrite around_fst, E. cbn [x_w]. rewrite buf_process_fes. unfold restart_of. rewrite Hsd.
    rewrite deactivate_buf, activate_buf, Hb. cbn [fes_flush fold_left]. rewrite deactivate_fes, activate_fes. reflexivity.
  - intros j Hj. rewrite around_fst, E. cbn [x_w]. rewrite buf_process_oth, deactivate_oth by exact Hj. apply activate_oth, Hj.
  - rewrite around_fst, E. cbn [x_w]. rewrite buf_process_mod, Hsd, deactivate_mod_eq. cbn [active set_nw]. rewrite activate_active. exact Ha.
  - rewrite around_fst, E. cbn [x_w]. rewrite buf_process_mod, Hsd. exact Hsd.
  - apply around_glob.
Qed.


(* tear-down records and the rest of the trace *)
Lemma gen_no_end sc0 : forall w tr, Gen sc0 w tr -> filter (fun e => negb (is_end e)) tr = tr.
Proof.
  induction 1 as [|w tr e w' HG IH Hs]; [reflexivity|]. rewrite filter_app, IH. cbn [filter].
  destruct Hs; reflexivity.
Qed.

Lemma end_seq_all_end sc0 now : forall ms w, filter (fun e => negb (is_end e)) (snd (end_seq sc0 now ms w)) = [].
Proof.
  induction ms as [|i ms IH]; intros w; cbn [end_seq]; [reflexivity|].
  destruct (end_seq sc0 now ms (fst (end_rec sc0 now i w))) as [w2 es] eqn:Es. cbn [snd filter].
  replace es with (snd (end_seq sc0 now ms (fst (end_rec sc0 now i w)))) by (rewrite Es; reflexivity). apply IH.
Qed.

