(* Helper facts for Life/Silent.v: components of the world after deactivate / buf_process, an
   event of an inactive module, restart events among the events a module event adds. *)
From Coq Require Import List NArith Bool Lia PeanoNat.
From DesVerif Require Import Life.Model Life.Base Life.Step Life.Trace Life.Frame Life.Inert Life.Events Life.Restart Life.Agree Life.Strip Life.Quiet.
Import ListNotations.
Open Scope N_scope.

(* ---- small facts ---- *)
Lemma around_fst sc now i f w :
  fst (around sc now i f w) = fst (buf_process (cfg sc i) now i (deactivate i (x_w (f {| x_w := activate now i w; x_log := [] |})))).
Proof. unfold around. destruct (buf_process _ _ _ _). reflexivity. Qed.

Lemma flush_rt_addok m i : i <> m -> forall adds f, Forall (add_ok i) adds ->
  restart_times m (fes_flush adds f) = restart_times m f.
Proof.
  intros Hi. induction adds as [|p adds IH]; intros f H; cbn [fes_flush fold_left]; [reflexivity|].
  inversion H; subst. fold (fes_flush adds (fes_add (fst p) (snd p) f)). rewrite IH by assumption.
  apply fes_add_rt_other. destruct p as [t e]. cbn [fst snd]. destruct H2 as [Hm|[Hw|Hr]]; cbn [snd] in *.
  - apply msg_not_restart, Hm.
  - subst e. reflexivity.
  - subst e. unfold is_restart. cbn [snd]. apply N.eqb_neq. exact Hi.
Qed.

Lemma stage_list_1 : stage_list 1 = [0].
Proof. reflexivity. Qed.

(* ---- components of the world after deactivate / buf_process ---- *)
Definition nw_after (x : mst) : option N :=
  match timers x with (t, _) :: _ => if lt_nw t (nw x) then Some t else nw x | [] => nw x end.

Lemma deactivate_mod_eq i w : w_mod (deactivate i w) i = set_nw (w_mod w i) (nw_after (w_mod w i)).
Proof.
  unfold deactivate, nw_after. destruct (timers (w_mod w i)) as [|[t tk] r].
  - cbn [w_mod set_cur]. destruct (w_mod w i); reflexivity.
  - destruct (lt_nw t (nw (w_mod w i))).
    + wsimpl. rewrite N.eqb_refl. reflexivity.
    + cbn [w_mod set_cur]. destruct (w_mod w i); reflexivity.
Qed.

Definition consumed (now : N) (x : mst) : mst :=
  {| active := false; inc := inc x + 1; bud := bud x; shut := None; nw := nw_bump now (nw x);
     timers := []; ready := []; hnd := hnd x; catchf := catchf x |}.

Lemma buf_process_mod c now i w :
  w_mod (fst (buf_process c now i w)) i = match shut (w_mod w i) with Some _ => consumed now (w_mod w i) | None => w_mod w i end.
Proof.
  unfold buf_process, shutdown_part. cbn [w_mod set_buf set_fes].
  destruct (shut (w_mod w i)) as [[t|]|]; cbn [fst]; rewrite ?ifse_mod; wsimpl; rewrite ?N.eqb_refl; reflexivity.
Qed.

Lemma buf_process_fes c now i w :
  w_fes (fst (buf_process c now i w)) = fes_flush (restart_of i (w_mod w i)) (fes_flush (w_buf w) (w_fes w)).
Proof.
  unfold buf_process, shutdown_part, restart_of. cbn [w_mod set_buf set_fes].
  destruct (shut (w_mod w i)) as [[t|]|]; cbn [fst]; rewrite ?ifse_fes; reflexivity.
Qed.

Lemma activate_shut now i w : shut (w_mod (activate now i w) i) = shut (w_mod w i).
Proof. unfold activate. destruct (split_due now (timers (w_mod w i))). wsimpl. rewrite N.eqb_refl. reflexivity. Qed.

(* an event of a module that is inactive without a pending request *)
Lemma around_inactive sc0 now i f w : active (w_mod w i) = false -> shut (w_mod w i) = None -> w_buf w = [] ->
  (forall s, active (w_mod (x_w s) i) = false -> f s = s) ->
  snd (around sc0 now i f w) = [] /\
  w_fes (fst (around sc0 now i f w)) = fes_flush (wake_of i (w_mod (activate now i w) i)) (w_fes w) /\
  (forall j, j <> i -> w_mod (fst (around sc0 now i f w)) j = w_mod w j) /\
  active (w_mod (fst (around sc0 now i f w)) i) = false /\ shut (w_mod (fst (around sc0 now i f w)) i) = None /\
  w_buf (fst (around sc0 now i f w)) = [].
Proof.
  intros Ha Hs Hb Hf.
  assert (E : f {| x_w := activate now i w; x_log := [] |} = {| x_w := activate now i w; x_log := [] |})
    by (apply Hf; cbn [x_w]; rewrite activate_active; exact Ha).
  assert (Hsd : shut (w_mod (deactivate i (activate now i w)) i) = None)
    by (rewrite deactivate_mod_eq; cbn [shut set_nw]; rewrite activate_shut; exact Hs).
  split; [|split; [|split; [|split; [|split]]]].
  - unfold around. rewrite E. cbn [x_w x_log app]. unfold buf_process, shutdown_part. cbn [w_mod set_buf set_fes].
    rewrite Hsd. reflexivity.
  - rewrite around_fst, E. cbn [x_w]. rewrite buf_process_fes. unfold restart_of. rewrite Hsd.
    rewrite deactivate_buf, activate_buf, Hb. cbn [fes_flush fold_left]. rewrite deactivate_fes, activate_fes. reflexivity.
  - intros j Hj. rewrite around_fst, E. cbn [x_w]. rewrite buf_process_oth, deactivate_oth by exact Hj. apply activate_oth, Hj.
  - rewrite around_fst, E. cbn [x_w]. rewrite buf_process_mod, Hsd, deactivate_mod_eq. cbn [active set_nw]. rewrite activate_active. exact Ha.
  - rewrite around_fst, E. cbn [x_w]. rewrite buf_process_mod, Hsd. exact Hsd.
  - apply around_glob.
Qed.


(* ... and without timers: the event set is left alone *)
Lemma activate_timers_nil now i w : timers (w_mod w i) = [] -> timers (w_mod (activate now i w) i) = [].
Proof. intros H. unfold activate. rewrite H. cbn [split_due w_mod set_cur set_mod]. rewrite N.eqb_refl. reflexivity. Qed.

Lemma around_inactive_idle sc0 now i f w : active (w_mod w i) = false -> shut (w_mod w i) = None -> w_buf w = [] ->
  (forall s, active (w_mod (x_w s) i) = false -> f s = s) -> timers (w_mod w i) = [] ->
  w_fes (fst (around sc0 now i f w)) = w_fes w /\ timers (w_mod (fst (around sc0 now i f w)) i) = [].
Proof.
  intros Ha Hs Hb Hf Ht. destruct (around_inactive sc0 now i f w Ha Hs Hb Hf) as (_ & A2 & _).
  pose proof (activate_timers_nil now i w Ht) as Hta.
  split; [rewrite A2; unfold wake_of; rewrite Hta; reflexivity|].
  assert (E : f {| x_w := activate now i w; x_log := [] |} = {| x_w := activate now i w; x_log := [] |})
    by (apply Hf; cbn [x_w]; rewrite activate_active; exact Ha).
  assert (Hsd : shut (w_mod (deactivate i (activate now i w)) i) = None)
    by (rewrite deactivate_mod_eq; cbn [shut set_nw]; rewrite activate_shut; exact Hs).
  rewrite around_fst, E. cbn [x_w]. rewrite buf_process_mod, Hsd, deactivate_mod_eq. cbn [timers set_nw]. exact Hta.
Qed.

(* tear-down records and the rest of the trace *)
Lemma gen_no_end sc0 : forall w tr, Gen sc0 w tr -> filter (fun e => negb (is_end e)) tr = tr.
Proof.
  induction 1 as [|w tr e w' HG IH Hs]; [reflexivity|]. rewrite filter_app, IH. cbn [filter].
  destruct Hs; reflexivity.
Qed.

Lemma end_seq_all_end sc0 now : forall ms w, filter (fun e => negb (is_end e)) (snd (end_seq sc0 now ms w)) = [].
Proof.
  induction ms as [|i ms IH]; intros w; cbn [end_seq]; [reflexivity|].
  destruct (end_seq sc0 now ms (fst (end_rec sc0 now i w))) as [w2 es] eqn:Es. cbn [snd filter].
  replace es with (snd (end_seq sc0 now ms (fst (end_rec sc0 now i w)))) by (rewrite Es; reflexivity). apply IH.
Qed.


(* ---- an inert event on a world in which m is dead ---- *)
Lemma inert_step m sc0 w t ev f1 :
  active (w_mod w m) = false -> shut (w_mod w m) = None -> w_buf w = [] -> WF (w_fes w) ->
  restart_times m (w_fes w) = [] -> fes_fetch (w_fes w) = Some (t, ev, f1) -> inert m ev = true ->
  let w1 := fst (process sc0 (set_fes w f1) t ev) in
  (forall j, j <> m -> w_mod w1 j = w_mod w j) /\ active (w_mod w1 m) = false /\ shut (w_mod w1 m) = None /\
  w_buf w1 = [] /\ WF (w_fes w1) /\ restart_times m (w_fes w1) = [] /\
  (forall f', FesRel m (w_fes w) f' -> FesRel m (w_fes w1) f') /\
  snd (process sc0 (set_fes w f1) t ev) = [].
Proof.
  intros Ha Hs Hb W Hn Hf Hi w1.
  destruct (WF_fetch _ _ _ _ W Hf) as [W1 _].
  assert (Hn1 : restart_times m f1 = []).
  { pose proof (fes_fetch_order _ _ _ _ Hf) as Ho. unfold restart_times in *. rewrite Ho in Hn. unfold rtimes in *. cbn [filter] in Hn.
    destruct (is_restart m (t, ev)); [discriminate|exact Hn]. }
  assert (Hwk : forall x, Forall (fun p => inert m (snd p) = true /\ is_restart m p = false) (wake_of m x)).
  { intros x. unfold wake_of. destruct (timers x) as [|[tt tk] r]; [constructor|]. destruct (lt_nw tt (nw x)); [|constructor].
    constructor; [|constructor]. cbn [snd inert]. rewrite N.eqb_refl. split; reflexivity. }
  assert (Hfl : forall l f, Forall (fun p => inert m (snd p) = true /\ is_restart m p = false) l -> WF f ->
                  WF (fes_flush l f) /\ restart_times m (fes_flush l f) = restart_times m f /\
                  (forall f', FesRel m f f' -> FesRel m (fes_flush l f) f')).
  { induction l as [|p l IH]; intros f Hl Wf; cbn [fes_flush fold_left]; [auto|].
    inversion Hl as [|? ? [Hp1 Hp2] Hl']; subst. fold (fes_flush l (fes_add (fst p) (snd p) f)).
    destruct (IH (fes_add (fst p) (snd p) f) Hl' (WF_add _ _ _ Wf)) as (I1 & I2 & I3).
    split; [exact I1|]. split; [rewrite I2; apply fes_add_rt_other; destruct p; exact Hp2|].
    intros f' R. apply I3, FesRel_add_l; assumption. }
  assert (Hmod : forall fcb, (forall s, active (w_mod (x_w s) m) = false -> fcb s = s) ->
     let w2 := fst (around sc0 t m fcb (set_fes w f1)) in
     (forall j, j <> m -> w_mod w2 j = w_mod w j) /\ active (w_mod w2 m) = false /\ shut (w_mod w2 m) = None /\
     w_buf w2 = [] /\ WF (w_fes w2) /\ restart_times m (w_fes w2) = [] /\
     (forall f', FesRel m (w_fes w) f' -> FesRel m (w_fes w2) f') /\ snd (around sc0 t m fcb (set_fes w f1)) = []).
  { intros fcb Hid w2. destruct (around_inactive sc0 t m fcb (set_fes w f1) Ha Hs Hb Hid) as (A1 & A2 & A3 & A4 & A5 & A6).
    destruct (Hfl _ f1 (Hwk (w_mod (activate t m (set_fes w f1)) m)) W1) as (F1 & F2 & F3).
    subst w2. rewrite A2. cbn [w_fes set_fes]. split; [exact A3|]. split; [exact A4|]. split; [exact A5|]. split; [exact A6|].
    split; [exact F1|]. split; [rewrite F2; exact Hn1|]. split; [|exact A1].
    intros f' R. apply F3. eapply fetch_inert_l; eauto. }
  destruct ev as [i far x|i x|i|i]; cbn [inert] in Hi; try discriminate; apply N.eqb_eq in Hi; subst i; unfold process in *.
  - subst w1. unfold walk. cbn [w_mod set_fes]. rewrite Ha. cbn [fst snd set_fes w_mod w_buf w_fes].
    repeat (split; [assumption|]). split; [intros; reflexivity|]. repeat (split; [assumption|]).
    split; [intros f' R; eapply fetch_inert_l; [exact Hf|cbn [inert]; apply N.eqb_refl|exact R]|reflexivity].
  - apply Hmod. intros s Hact. unfold handle_message. rewrite Hact. reflexivity.
  - apply Hmod. intros s Hact. unfold async_wakeup. rewrite Hact. reflexivity.
Qed.


(* ... and on a module without woken tasks they change nothing the comparison looks at *)
Lemma at_sim_start_div m k c now stage w s' : stage <> 0 -> Div m w (x_w s') ->
  Div m w (x_w (fst (at_sim_start k c now m stage s'))) /\
  snd (at_sim_start k c now m stage s') = false.
Proof.
  intros H [vb va vt vn vi vbu vtp vc vr vs]. apply N.eqb_neq in H. unfold at_sim_start. rewrite H.
  unfold exec, spawn_all, poll_ready. cbn [combine seq length map run_prog fst snd].
  wsimpl. rewrite !N.eqb_refl. wsimpl. rewrite vr. cbn [app fold_left catch fst snd x_w].
  split; [|reflexivity].
  constructor; cbn [on_w say say_all x_w w_buf w_mod set_mod]; rewrite ?N.eqb_refl; cbn [w_mod set_mod]; rewrite ?N.eqb_refl;
    cbn [timers nw inc bud hnd catchf ready shut set_ready set_hnd]; rewrite ?app_nil_r; try assumption; try reflexivity.
  intros j Hj. pose proof (va j Hj) as Hv. apply N.eqb_neq in Hj. rewrite !Hj. exact Hv.
Qed.


Lemma fold_stopped {A} (f : xs * bool -> A -> xs * bool) (Hf : forall s a, f (s, true) a = (s, true)) :
  forall l s, fold_left f l (s, true) = (s, true).
Proof. induction l as [|a l IH]; intros s; cbn [fold_left]; [reflexivity|]. rewrite Hf. apply IH. Qed.


Lemma loop_step_eq sc0 w now tr :
  loop_step sc0 (w, now, tr) =
  match fes_fetch (w_fes w) with
  | None => inr (w, now, tr)
  | Some (t, ev, f1) => inl (fst (loop_rec sc0 (set_fes w f1) t ev), t, tr ++ [snd (loop_rec sc0 (set_fes w f1) t ev)])
  end.
Proof.
  unfold loop_step, loop_rec. destruct (fes_fetch (w_fes w)) as [[[t ev] f1]|]; [|reflexivity].
  destruct (process sc0 (set_fes w f1) t ev). reflexivity.
Qed.


(* what the generated worlds of the panicking run provide *)
Lemma gen_facts sc m w tr : Gen sc w tr ->
  shut (w_mod w m) = None /\ (active (w_mod w m) = true -> restart_times m (w_fes w) = []) /\
  (forall t f1, fes_fetch (w_fes w) = Some (t, EvRestart m, f1) -> restart_times m f1 = []).
Proof.
  intros HG. destruct (gen_WI sc w tr HG m) as [(_ & _ & Hs) _]. pose proof (gen_RI sc w tr HG m) as HR.
  split; [exact Hs|]. split.
  - intros Ha. destruct (pending m tr) eqn:Ep; [|exact HR]. exfalso.
    assert (Hd : Down m w) by (apply (gen_down sc m w tr HG), pending_down; rewrite Ep; discriminate).
    rewrite (dn_active _ _ Hd) in Ha. discriminate.
  - intros t f1 Hf. pose proof (fes_fetch_order _ _ _ _ Hf) as Ho. unfold restart_times in *. rewrite Ho in HR.
    unfold rtimes in *. cbn [filter is_restart snd] in HR. rewrite N.eqb_refl in HR. cbn [map fst] in HR.
    destruct (pending m tr); [injection HR as _ HR; exact HR|discriminate].
Qed.

(* an inert event on a dead module without timers adds nothing to the event set *)
Lemma inert_step_idle m sc0 w t ev f1 :
  active (w_mod w m) = false -> shut (w_mod w m) = None -> w_buf w = [] -> timers (w_mod w m) = [] ->
  inert m ev = true ->
  w_fes (fst (process sc0 (set_fes w f1) t ev)) = f1 /\ timers (w_mod (fst (process sc0 (set_fes w f1) t ev)) m) = [].
Proof.
  intros Ha Hs Hb Ht Hi.
  destruct ev as [i far x|i x|i|i]; cbn [inert] in Hi; try discriminate; apply N.eqb_eq in Hi; subst i; unfold process.
  - unfold walk. cbn [w_mod set_fes]. rewrite Ha. cbn [fst w_fes w_mod set_fes]. auto.
  - apply (around_inactive_idle sc0 t m _ (set_fes w f1)); try assumption. intros s Hact. unfold handle_message. rewrite Hact. reflexivity.
  - apply (around_inactive_idle sc0 t m _ (set_fes w f1)); try assumption. intros s Hact. unfold async_wakeup. rewrite Hact. reflexivity.
Qed.
