(* The time driver's wake-ups: whenever a module has a live timer, a wake-up event for it is queued
   (Driver::next_wakeup names a queued AsyncWakeupEvent, and is set whenever timers are pending).
   Consequence: when the event set has run empty, no module has a pending timer or a next_wakeup. *)
From Coq Require Import List NArith Bool Lia.
From DesVerif Require Import Common.Fuel Life.Model Life.Base Life.Step Life.Trace Life.Restart.
Import ListNotations.
Open Scope N_scope.

Definition InF (p : N * fev) (f : fes) : Prop := In p (fes_order f).

Lemma InF_add p t e f : InF p (fes_add t e f) <-> p = (t, e) \/ InF p f.
Proof.
  unfold InF. destruct (fes_add_order t e f) as (l1 & l2 & E1 & E2). rewrite E1, E2, !in_app_iff. cbn [In].
  split; [intros [H|[H|H]]; auto|intros [H|[H|H]]; auto].
Qed.

Lemma InF_flush p : forall l f, InF p (fes_flush l f) <-> In p l \/ InF p f.
Proof.
  induction l as [|q l IH]; intros f; cbn [fes_flush fold_left In]; [tauto|].
  fold (fes_flush l (fes_add (fst q) (snd q) f)). rewrite IH, InF_add. destruct q as [t e]. cbn [fst snd]. split; intros H; intuition auto.
Qed.

Lemma fetch_none_order f : fes_fetch f = None -> fes_order f = [].
Proof. unfold fes_fetch, fes_order. destruct (f_zero f); [|discriminate]. destruct (f_rest f); [reflexivity|discriminate]. Qed.

(* per module: next_wakeup names a queued wake-up; pending timers imply a next_wakeup *)
Definition Wk (j : N) (w : world) : Prop :=
  (forall u, nw (w_mod w j) = Some u -> InF (u, EvWake j) (w_fes w)) /\
  (timers (w_mod w j) <> [] -> nw (w_mod w j) <> None).

Lemma deactivate_fes_mono m w p : InF p (w_fes w) -> InF p (w_fes (deactivate m w)).
Proof.
  intros H. unfold deactivate. cbn [w_fes set_cur]. destruct (timers (w_mod w m)) as [|[t tk] r]; [exact H|].
  destruct (lt_nw t (nw (w_mod w m))); [|exact H]. cbn [w_fes set_fes]. apply InF_add. right. exact H.
Qed.

Lemma buf_process_fes_mono c now m w p : InF p (w_fes w) -> InF p (w_fes (fst (buf_process c now m w))).
Proof.
  intros H. unfold buf_process, shutdown_part. cbn [w_mod set_buf set_fes].
  assert (H1 : InF p (fes_flush (w_buf w) (w_fes w))) by (apply InF_flush; right; exact H).
  destruct (shut (w_mod w m)) as [[t|]|]; cbn [fst]; rewrite ?ifse_fes; cbn [w_fes set_fes set_fin set_mod set_buf]; [apply InF_add; right|..]; exact H1.
Qed.

(* one module event *)
Lemma around_Wk sc now i f w : CbOK i f ->
  (forall j, j <> i -> Wk j w) ->
  (forall u, nw (w_mod w i) = Some u -> now < u -> InF (u, EvWake i) (w_fes w)) ->
  forall j, Wk j (fst (around sc now i f w)).
Proof.
  intros Hok Hoth Hi j.
  assert (Mono : forall p, InF p (w_fes w) -> InF p (w_fes (fst (around sc now i f w)))).
  { intros p Hp. unfold around. destruct (Hok {| x_w := activate now i w; x_log := [] |}) as [[_ Ff _ _ _ _] _].
    set (s := f {| x_w := activate now i w; x_log := [] |}) in *. cbn [x_w] in Ff. rewrite activate_fes in Ff.
    pose proof (buf_process_fes_mono (cfg sc i) now i (deactivate i (x_w s)) p) as H.
    destruct (buf_process (cfg sc i) now i (deactivate i (x_w s))) as [w' l]. cbn [fst] in *. apply H, deactivate_fes_mono. rewrite Ff. exact Hp. }
  destruct (N.eq_dec j i) as [->|Hj].
  2:{ destruct (Hoth j Hj) as [A B]. unfold Wk. rewrite (around_oth sc now i f w j Hok Hj). split; [intros u Hu; apply Mono, A, Hu|exact B]. }
  unfold around in *. destruct (Hok {| x_w := activate now i w; x_log := [] |}) as [[_ Ff _ _ Fnw _] _].
  set (s := f {| x_w := activate now i w; x_log := [] |}) in *. cbn [x_w] in Ff, Fnw. rewrite activate_fes in Ff.
  (* next_wakeup after the callback: bumped *)
  assert (Hnw : nw (w_mod (x_w s) i) = nw_bump now (nw (w_mod w i))).
  { rewrite Fnw. unfold activate. destruct (split_due now (timers (w_mod w i))) as [d q]. cbn [w_mod set_cur set_mod]. rewrite N.eqb_refl. reflexivity. }
  assert (Ha : forall u, nw (w_mod (x_w s) i) = Some u -> InF (u, EvWake i) (w_fes (x_w s))).
  { intros u Hu. rewrite Ff. rewrite Hnw in Hu. destruct (nw (w_mod w i)) as [u0|] eqn:En; [|discriminate]. cbn [nw_bump] in Hu.
    destruct (u0 <=? now) eqn:El; [discriminate|]. injection Hu as <-. apply Hi; [reflexivity|]. apply N.leb_gt, El. }
  (* deactivate *)
  assert (Hd : Wk i (deactivate i (x_w s))).
  { unfold deactivate, Wk. destruct (timers (w_mod (x_w s) i)) as [|[t tk] r] eqn:Et; cbn [w_mod w_fes set_cur].
    - rewrite Et. split; [exact Ha|intros C; contradiction].
    - destruct (lt_nw t (nw (w_mod (x_w s) i))) eqn:El; cbn [w_mod w_fes set_fes set_mod]; rewrite ?N.eqb_refl; cbn [nw timers set_nw].
      + split; [|intros _; discriminate]. intros u Hu. injection Hu as <-. apply InF_add. left. reflexivity.
      + split; [exact Ha|]. intros _. destruct (nw (w_mod (x_w s) i)); [discriminate|]. cbn [lt_nw] in El. discriminate. }
  (* buf_process *)
  destruct Hd as [D1 D2]. unfold buf_process, shutdown_part, Wk. cbn [w_mod set_buf set_fes].
  set (wd := deactivate i (x_w s)) in *.
  assert (F1 : forall u, nw (w_mod wd i) = Some u -> InF (u, EvWake i) (fes_flush (w_buf wd) (w_fes wd))) by (intros u Hu; apply InF_flush; right; apply D1, Hu).
  destruct (shut (w_mod wd i)) as [r|]; cbn [fst]; [|cbn [w_mod w_fes set_buf set_fes]; split; [exact F1|exact D2]].
  assert (G : forall u, nw_bump now (nw (w_mod wd i)) = Some u -> InF (u, EvWake i) (fes_flush (w_buf wd) (w_fes wd))).
  { intros u Hu. destruct (nw (w_mod wd i)) as [u0|] eqn:En; [|discriminate]. cbn [nw_bump] in Hu. destruct (u0 <=? now); [discriminate|].
    injection Hu as <-. apply F1. reflexivity. }
  destruct r as [t|]; rewrite ifse_mod, ifse_fes; cbn [w_mod w_fes set_fes set_fin set_mod set_buf]; rewrite N.eqb_refl; cbn [nw timers];
    (split; [|intros C; contradiction]); intros u Hu; [apply InF_add; right|]; apply G, Hu.
Qed.

Lemma gen_Wk sc : forall w tr, Gen sc w tr -> forall j, Wk j w.
Proof.
  apply (gen_inv sc (fun w _ => forall j, Wk j w)).
  - intros j. split; [discriminate|intros C; contradiction].
  - intros w tr e w' _ H S. destruct S as [stage m w _ _|w|w t ev f Hf].
    + unfold start_rec. cbn [fst]. apply around_Wk; [apply start_cb_ok|intros j _; apply H|]. intros u Hu _. apply (proj1 (H m)), Hu.
    + exact H.
    + pose proof (fes_fetch_order _ _ _ _ Hf) as Ho.
      assert (Hin : forall j u, nw (w_mod w j) = Some u -> (u, EvWake j) = (t, ev) \/ InF (u, EvWake j) f).
      { intros j u Hu. pose proof (proj1 (H j) u Hu) as Hi. unfold InF in Hi. rewrite Ho in Hi. destruct Hi as [<-|Hi]; auto. }
      assert (Hoth : forall i j, ev_mod ev = Some i -> j <> i -> Wk j (set_fes w f)).
      { intros i j Em Hj. split; [|apply (proj2 (H j))]. cbn [w_mod w_fes set_fes]. intros u Hu.
        destruct (Hin j u Hu) as [E|Hi]; [|exact Hi]. injection E as _ <-. cbn [ev_mod] in Em. injection Em as <-. contradiction. }
      assert (Hme : forall i, ev_mod ev = Some i -> forall u, nw (w_mod (set_fes w f) i) = Some u -> t < u -> InF (u, EvWake i) (w_fes (set_fes w f))).
      { intros i Em u Hu Hlt. cbn [w_mod w_fes set_fes] in *. destruct (Hin i u Hu) as [E|Hi]; [|exact Hi]. injection E as -> _. lia. }
      unfold loop_rec. cbn [fst]. destruct ev as [m far x|m x|m|m]; cbn [process ev_mod] in *.
      * intros j. split; [|destruct (walk (nmods sc) (set_fes w f) m far); apply (proj2 (H j))]. intros u Hu.
        assert (Hu' : nw (w_mod w j) = Some u) by (destruct (walk (nmods sc) (set_fes w f) m far); exact Hu).
        assert (Hi : InF (u, EvWake j) f) by (destruct (Hin j u Hu') as [E|Hi]; [discriminate|exact Hi]).
        destruct (walk (nmods sc) (set_fes w f) m far); cbn [w_fes set_fes]; [apply InF_add; right|]; exact Hi.
      * apply around_Wk; [apply handle_message_ok|intros j Hj; apply (Hoth m j eq_refl Hj)|apply Hme; reflexivity].
      * apply around_Wk; [apply async_wakeup_ok|intros j Hj; apply (Hoth m j eq_refl Hj)|apply Hme; reflexivity].
      * apply around_Wk; [apply module_restart_ok|intros j Hj; apply (Hoth m j eq_refl Hj)|apply Hme; reflexivity].
Qed.

(* when the event set is empty, every timer has fired *)
Theorem idle_at_end sc w tr : Gen sc w tr -> fes_fetch (w_fes w) = None ->
  forall j, timers (w_mod w j) = [] /\ nw (w_mod w j) = None.
Proof.
  intros HG Hf j. destruct (gen_Wk sc w tr HG j) as [A B]. pose proof (fetch_none_order _ Hf) as Ho.
  assert (Hn : nw (w_mod w j) = None).
  { destruct (nw (w_mod w j)) as [u|] eqn:En; [|reflexivity]. specialize (A u eq_refl). unfold InF in A. rewrite Ho in A. destruct A. }
  split; [|exact Hn]. destruct (timers (w_mod w j)) as [|x l] eqn:Et; [reflexivity|]. exfalso. apply B; [discriminate|exact Hn].
Qed.
