(* C09 handler_runs_only_if_active, old_incarnation_silent, reset_once_per_shutdown: the
   invariant of Life/Inv.v lifted from callbacks to events and to the whole trace. *)
From Coq Require Import List NArith Bool Lia PeanoNat.
From DesVerif Require Import Life.Model Life.Base Life.Step Life.Trace Life.Frame Life.Inert Life.Inv.
Import ListNotations.
Open Scope N_scope.

(* every live task of m was spawned by m's current incarnation; no request is pending *)
Definition TI (m : N) (w : world) : Prop :=
  Forall (fun tk => tk_inc tk = inc (w_mod w m)) (ready (w_mod w m)) /\
  Forall (fun p => tk_inc (snd p) = inc (w_mod w m)) (timers (w_mod w m)) /\
  shut (w_mod w m) = None.

Lemma TI_ext m w w' : w_mod w' m = w_mod w m -> TI m w -> TI m w'.
Proof. intros E. unfold TI. rewrite E. auto. Qed.

Definition count_resets (m : N) (l : list item) : nat := length (filter (is_reset m) l).

Lemma count_resets_app m a b : count_resets m (a ++ b) = (count_resets m a + count_resets m b)%nat.
Proof. unfold count_resets. rewrite filter_app, app_length. reflexivity. Qed.

Lemma count_resets_none m l : existsb (is_reset m) l = false -> count_resets m l = 0%nat.
Proof.
  unfold count_resets. induction l as [|i l IH]; cbn [existsb filter]; [reflexivity|].
  intros H. apply orb_false_iff in H. destruct H as [H1 H2]. rewrite H1. apply IH, H2.
Qed.

Lemma split_due_forall (P : task -> Prop) now : forall l, Forall (fun p => P (snd p)) l ->
  Forall P (fst (split_due now l)) /\ Forall (fun p => P (snd p)) (snd (split_due now l)).
Proof.
  induction l as [|x r IH]; intros H; cbn [split_due]; [split; constructor|].
  inversion H; subst. destruct (fst x <=? now); [|split; [constructor|exact H]].
  destruct (IH H3) as [H4 H5]. destruct (split_due now r) as [d q]. cbn [fst snd] in *. split; [constructor|]; assumption.
Qed.

Lemma activate_CInv now m w : TI m w -> CInv false now m (inc (w_mod w m)) {| x_w := activate now m w; x_log := [] |}.
Proof.
  intros (Hr & Ht & Hs). unfold activate.
  destruct (split_due_forall (fun tk => tk_inc tk = inc (w_mod w m)) now _ Ht) as [H1 H2].
  destruct (split_due now (timers (w_mod w m))) as [d q]. cbn [fst snd] in *.
  constructor; cbn [x_w x_log]; wsimpl; rewrite ?N.eqb_refl; wsimpl; try reflexivity.
  - apply Forall_app. auto.
  - exact H2.
  - constructor.
  - discriminate.
  - rewrite Hs. reflexivity.
  - exact Hs.
Qed.

Lemma deactivate_mod m w : exists n, w_mod (deactivate m w) m = set_nw (w_mod w m) n.
Proof.
  unfold deactivate. destruct (timers (w_mod w m)) as [|[t tk] r].
  - exists (nw (w_mod w m)). cbn [w_mod set_cur]. destruct (w_mod w m); reflexivity.
  - destruct (lt_nw t (nw (w_mod w m))).
    + exists (Some t). wsimpl. rewrite N.eqb_refl. reflexivity.
    + exists (nw (w_mod w m)). cbn [w_mod set_cur]. destruct (w_mod w m); reflexivity.
Qed.

Lemma sys_tag j c m x : Forall (tag_ok j) (cancelled m c x).
Proof.
  apply Forall_forall. intros i Hi. destruct (cancelled_in _ _ _ _ Hi) as [(id & ->)|(id & ->)]; exact I.
Qed.

Lemma cancelled_no_reset m' m c x : existsb (is_reset m') (cancelled m c x) = false.
Proof.
  apply not_true_is_false. intros H. apply existsb_exists in H. destruct H as (i & Hi & Hr).
  destruct (cancelled_in _ _ _ _ Hi) as [(id & ->)|(id & ->)]; discriminate.
Qed.

Lemma cancelled_no_req m c x : existsb is_req (cancelled m c x) = false.
Proof.
  apply not_true_is_false. intros H. apply existsb_exists in H. destruct H as (i & Hi & Hr).
  destruct (cancelled_in _ _ _ _ Hi) as [(id & ->)|(id & ->)]; discriminate.
Qed.

(* what one module event does, given that its callback keeps the invariant *)
Lemma around_inv sc now m f w : TI m w -> CbOK m f ->
  (forall s, CInv false now m (inc (w_mod w m)) s -> x_log s = [] -> CInv false now m (inc (w_mod w m)) (f s)) ->
  let w' := fst (around sc now m f w) in let l := snd (around sc now m f w) in
  TI m w' /\ Forall (tag_ok (inc (w_mod w m))) l /\
  inc (w_mod w' m) = inc (w_mod w m) + N.of_nat (count_resets m l) /\
  count_resets m l = (if existsb is_req l then 1 else 0)%nat.
Proof.
  intros HT Hok Hf. unfold around.
  pose proof (Hf _ (activate_CInv now m w HT) eq_refl) as HC.
  destruct (Hok {| x_w := activate now m w; x_log := [] |}) as [_ (lu & Hlu & Uu)]. cbn [x_log app] in Hlu.
  set (s := f {| x_w := activate now m w; x_log := [] |}) in *.
  destruct HC as [ci cr ct cg _ cq csh].
  destruct (deactivate_mod m (x_w s)) as (n & Hd).
  unfold buf_process, shutdown_part. cbn [w_mod set_buf set_fes]. rewrite Hd. cbn [shut set_nw].
  assert (Hnr : count_resets m (x_log s) = 0%nat) by (apply count_resets_none; rewrite Hlu; apply (usr_no_reset m m lu Uu)).
  destruct (shut (w_mod (x_w s) m)) as [r|] eqn:Es; cbn [fst snd].
  - cbn [some_b] in cq.
    assert (Hmod : forall w2, w_mod (match r with Some t => set_fes w2 (fes_add t (EvRestart m) (w_fes w2)) | None => w2 end) m = w_mod w2 m)
      by (intros w2; destruct r; reflexivity).
    assert (Hre : forall (b : bool) w2 e, w_mod (if b then set_err w2 e else w2) m = w_mod w2 m) by (intros [] ? ?; reflexivity).
    assert (Hrp : forall c0, count_resets m (rpanic c0 m) = 0%nat /\ existsb is_req (rpanic c0 m) = false /\ Forall (tag_ok (inc (w_mod w m))) (rpanic c0 m))
      by (intros c0; unfold rpanic; destruct (c_rsend c0); repeat split; repeat constructor).
    destruct (Hrp (cfg sc m)) as (Hr1 & Hr2 & Hr3).
    cbn [inc bud hnd nw set_nw]. rewrite Hre, Hmod. cbn [w_mod set_fin set_mod]. rewrite N.eqb_refl. cbn [inc]. split; [|split; [|split]].
    + unfold TI. rewrite Hre, Hmod. cbn [w_mod set_fin set_mod]. rewrite N.eqb_refl. cbn [ready timers shut]. repeat split; constructor.
    + apply Forall_app. split; [exact cg|]. apply Forall_app. split; [apply sys_tag|constructor; [exact I|exact Hr3]].
    + rewrite !count_resets_app, Hnr, (count_resets_none m _ (cancelled_no_reset m m _ _)), Hr1.
      unfold count_resets. cbn [filter is_reset]. rewrite N.eqb_refl. cbn [length]. rewrite ci. lia.
    + rewrite !count_resets_app, Hnr, (count_resets_none m _ (cancelled_no_reset m m _ _)), Hr1.
      unfold count_resets. cbn [filter is_reset]. rewrite N.eqb_refl. cbn [length].
      rewrite existsb_app, <- cq. reflexivity.
  - cbn [some_b] in cq. rewrite app_nil_r. split; [|split; [|split]].
    + unfold TI. cbn [w_mod set_buf set_fes]. rewrite Hd. cbn [ready timers inc shut set_nw]. rewrite ci. auto.
    + exact cg.
    + cbn [w_mod set_buf set_fes]. rewrite Hd, Hnr. cbn [inc set_nw]. rewrite ci. lia.
    + rewrite Hnr, <- cq. reflexivity.
Qed.

(* other modules: untouched, and no reset record of theirs *)
Lemma around_other sc now m f w i : CbOK m f -> i <> m ->
  w_mod (fst (around sc now m f w)) i = w_mod w i /\ count_resets i (snd (around sc now m f w)) = 0%nat.
Proof.
  intros Hok Hi. split; [apply around_oth; assumption|].
  apply count_resets_none, (own_no_reset m i); [apply around_own, Hok|auto].
Qed.

(* ---- the world invariant and the trace ---- *)
Definition items (tr : list erec) : list item := flat_map e_items tr.

Lemma items_snoc tr e : items (tr ++ [e]) = items tr ++ e_items e.
Proof. unfold items. rewrite flat_map_app. cbn [flat_map]. rewrite app_nil_r. reflexivity. Qed.

Definition WI (w : world) (tr : list erec) : Prop :=
  forall m, TI m w /\ inc (w_mod w m) = N.of_nat (count_resets m (items tr)).

Definition StepOK (w : world) (e : erec) : Prop :=
  (forall m c t a, In (ICall m c t a) (e_items e) ->
     match c with CbTask _ j | CbTimer _ j => j = inc (w_mod w m) | _ => True end) /\
  (forall m, count_resets m (e_items e) =
             (if existsb (fun i => is_req i && of_mod m i) (e_items e) then 1 else 0)%nat) /\
  (is_end e = false -> act_st false (e_items e) <> None).

Lemma own_req m1 m l : Own m1 l -> existsb (fun i => is_req i && of_mod m i) l = if m1 =? m then existsb is_req l else false.
Proof.
  intros Ho. induction l as [|i l IH]; cbn [existsb]; [destruct (m1 =? m); reflexivity|].
  inversion Ho; subst. rewrite (IH H2). unfold of_mod at 1. rewrite H1.
  destruct (m1 =? m); [rewrite andb_true_r; reflexivity|rewrite andb_false_r; reflexivity].
Qed.

Lemma own_tags m1 j l : Own m1 l -> Forall (tag_ok j) l ->
  forall m c t a, In (ICall m c t a) l -> m = m1 /\ match c with CbTask _ j' | CbTimer _ j' => j' = j | _ => True end.
Proof.
  intros Ho Ht m c t a Hin. unfold Own in Ho. rewrite Forall_forall in Ho, Ht.
  specialize (Ho _ Hin). specialize (Ht _ Hin). cbn [item_mod] in Ho. injection Ho as ->.
  split; [reflexivity|]. destruct c; try exact I; exact Ht.
Qed.

Lemma act_st_sample p l t k : act_st p (l ++ [ISample t k]) <> None <-> act_st p l <> None.
Proof. rewrite act_st_app. destruct (act_st p l); cbn [act_st]; split; intros H; try exact H; discriminate. Qed.

Lemma act_st_sys_tail p l c m x t i : act_st p l <> None -> act_st p (l ++ cancelled m c x ++ [IReset m t i] ++ rpanic c m) <> None.
Proof.
  rewrite act_st_app. destruct (act_st p l) as [q|]; [intros _|intros H; exact H].
  rewrite act_st_app. assert (E : act_st q (cancelled m c x) = Some q).
  { pose proof (cancelled_in m c x) as Hin. induction (cancelled m c x) as [|i0 l0 IH]; [reflexivity|].
    destruct (Hin i0 (or_introl eq_refl)) as [(id & ->)|(id & ->)]; cbn [act_st]; apply IH; intros i1 H1; apply Hin; right; exact H1. }
  rewrite E. unfold rpanic. destruct (c_rsend c); discriminate.
Qed.

(* the items of an event split into the callback's log and the runtime's records *)
Lemma around_scan sc now m f w : scan_ok (f {| x_w := activate now m w; x_log := [] |}) ->
  act_st false (snd (around sc now m f w)) <> None.
Proof.
  intros Hs. unfold around. set (s := f {| x_w := activate now m w; x_log := [] |}) in *.
  unfold buf_process, shutdown_part. destruct (shut _); cbn [snd].
  - apply act_st_sys_tail, Hs.
  - rewrite app_nil_r. exact Hs.
Qed.

Lemma around_step sc w tr : WI w tr -> forall now m1 f knd tm (extra : list item),
            CbOK m1 f ->
            (forall s, CInv false now m1 (inc (w_mod w m1)) s -> x_log s = [] -> CInv false now m1 (inc (w_mod w m1)) (f s)) ->
            (forall m, count_resets m extra = 0%nat) -> Forall (tag_ok (inc (w_mod w m1))) extra ->
            existsb is_req extra = false -> Own m1 extra \/ (forall i, In i extra -> item_mod i = None) ->
            let e1 := {| e_kind := knd; e_time := tm; e_items := snd (around sc now m1 f w) ++ extra |} in
            ((forall m c t a, In (ICall m c t a) (e_items e1) ->
               match c with CbTask _ j | CbTimer _ j => j = inc (w_mod w m) | _ => True end) /\
             (forall m, count_resets m (e_items e1) = (if existsb (fun i => is_req i && of_mod m i) (e_items e1) then 1 else 0)%nat)) /\
            WI (fst (around sc now m1 f w)) (tr ++ [e1]).
Proof.
  intros HW.
  intros now m1 f knd tm extra Hok Hf Hx0 Hxt Hxr Hxo e1. cbn [e_items e1].
    destruct (HW m1) as [HT1 Hi1].
    destruct (around_inv sc now m1 f w HT1 Hok Hf) as (T1 & Tg & Hinc & Hcnt).
    pose proof (around_own sc now m1 f w Hok) as Ho.
    set (l := snd (around sc now m1 f w)) in *. set (w1 := fst (around sc now m1 f w)) in *.
    split; [split|].
    - intros m c t a Hin. apply in_app_or in Hin. destruct Hin as [Hin|Hin].
      + destruct (own_tags m1 _ l Ho Tg m c t a Hin) as [-> H]. exact H.
      + destruct Hxo as [Hxo|Hxo].
        * destruct (own_tags m1 _ extra Hxo Hxt m c t a Hin) as [-> H]. exact H.
        * specialize (Hxo _ Hin). discriminate.
    - intros m. rewrite count_resets_app, Hx0, Nat.add_0_r, existsb_app.
      assert (Ex : existsb (fun i => is_req i && of_mod m i) extra = false).
      { apply not_true_is_false. intros H. apply existsb_exists in H. destruct H as (i & Hi & Hr).
        apply andb_true_iff in Hr. destruct Hr as [Hr _].
        assert (existsb is_req extra = true) by (apply existsb_exists; eauto). congruence. }
      rewrite Ex, orb_false_r, (own_req m1 m l Ho).
      destruct (N.eq_dec m1 m) as [->|Hn]; [rewrite N.eqb_refl; exact Hcnt|].
      apply N.eqb_neq in Hn. rewrite Hn. apply count_resets_none, (own_no_reset m1 m); [exact Ho|apply N.eqb_neq, Hn].
    - intros m. rewrite items_snoc. cbn [e_items e1]. rewrite !count_resets_app, Hx0, Nat.add_0_r.
      destruct (N.eq_dec m m1) as [->|Hn].
      + split; [exact T1|]. rewrite Hinc, Hi1. lia.
      + destruct (around_other sc now m1 f w m Hok Hn) as [Em Ec]. destruct (HW m) as [HTm Him].
        split; [eapply TI_ext; [exact Em|exact HTm]|]. fold l in Ec. fold w1 in Em. rewrite Em, Ec, Him. lia.
Qed.

Lemma step_inv sc w tr e w' : WI w tr -> step sc w e w' -> StepOK w e /\ WI w' (tr ++ [e]).
Proof.
  intros HW Hs.
  destruct Hs as [stage m1 w Hfresh Hactive|w|w t ev f Hf].
  - (* start-up *)
    unfold start_rec. cbn [fst snd].
    assert (Hf : forall s, CInv false 0 m1 (inc (w_mod w m1)) s -> x_log s = [] ->
                           CInv false 0 m1 (inc (w_mod w m1)) (start_cb sc stage m1 s))
      by (intros s Hc _; apply at_sim_start_CInv, Hc).
    destruct (around_step sc w tr HW 0 m1 _ (KStart stage m1) 0 [] (start_cb_ok _ _ _ _ _) Hf (fun _ => eq_refl) (Forall_nil _) eq_refl
                   (or_introl (Forall_nil _))) as [[A B] C].
    rewrite !app_nil_r in *. split; [split; [exact A|split; [exact B|]]|exact C].
    intros _. cbn [e_items]. apply (around_scan sc 0 m1 _ w). unfold start_cb.
    apply (CInv_scan 0 m1 (inc (w_mod w m1))). apply (at_sim_start_CInv true).
    apply CInv_strengthen; [apply activate_CInv, (proj1 (HW m1))|reflexivity|]. cbn [x_w]. rewrite activate_active. exact Hactive.
  - (* boot *)
    split; [split; [|split]|].
    + intros m c t a [Hin|[]]. discriminate.
    + intros m. reflexivity.
    + intros _. cbn [boot_rec e_items act_st]. discriminate.
    + intros m. rewrite items_snoc. cbn [boot_rec e_items]. rewrite count_resets_app. cbn. rewrite Nat.add_0_r. apply HW.
  - (* dispatched event *)
    unfold loop_rec. cbn [fst snd].
    assert (HW' : WI (set_fes w f) tr) by exact HW.
    destruct ev as [m1 far x|m1 x|m1|m1]; unfold process.
    + (* a message leaving a connection: no module is touched *)
      cbn [fst snd app]. split; [split; [|split]|].
      * intros m c t' a [Hin|[]]. discriminate.
      * intros m. reflexivity.
      * intros _. cbn [e_items act_st]. discriminate.
      * intros m. rewrite items_snoc. cbn [e_items]. rewrite count_resets_app. cbn. rewrite Nat.add_0_r.
        destruct (HW m) as [HT Hi].
        destruct (walk (nmods sc) (set_fes w f) m1 far); (split; [eapply TI_ext; [|exact HT]; reflexivity|exact Hi]).
    + pose proof (handle_message_CInv (nmods sc) (cfg sc m1) t m1 x (inc (w_mod w m1))) as HC.
      match goal with |- context [ISample t ?k] => set (smp := [ISample t k]) end.
      assert (Hso : forall i, In i smp -> item_mod i = None) by (intros i [<-|[]]; reflexivity).
      assert (Hst : Forall (tag_ok (inc (w_mod w m1))) smp) by (constructor; [exact I|constructor]).
      destruct (around_step sc (set_fes w f) tr HW' t m1 (handle_message (nmods sc) (cfg sc m1) t m1 x) (KLoop (EvDeliver m1 x)) t smp (handle_message_ok _ _ _ _ _) (fun s Hc Hl => proj1 (HC s Hc Hl)) (fun _ => eq_refl)
                     Hst eq_refl (or_intror Hso)) as [[A B] C].
      * split; [split; [exact A|split; [exact B|]]|exact C].
        intros _. cbn [e_items]. apply act_st_sample. apply (around_scan sc t m1 _ (set_fes w f)).
        apply HC; [|reflexivity]. apply (activate_CInv t m1 (set_fes w f)). apply (proj1 (HW' m1)).
    + pose proof (async_wakeup_CInv (nmods sc) t m1 (inc (w_mod w m1))) as HC.
      match goal with |- context [ISample t ?k] => set (smp := [ISample t k]) end.
      assert (Hso : forall i, In i smp -> item_mod i = None) by (intros i [<-|[]]; reflexivity).
      assert (Hst : Forall (tag_ok (inc (w_mod w m1))) smp) by (constructor; [exact I|constructor]).
      destruct (around_step sc (set_fes w f) tr HW' t m1 (async_wakeup (nmods sc) t m1) (KLoop (EvWake m1)) t smp (async_wakeup_ok _ _ _) (fun s Hc Hl => proj1 (HC s Hc Hl)) (fun _ => eq_refl)
                     Hst eq_refl (or_intror Hso)) as [[A B] C].
      * split; [split; [exact A|split; [exact B|]]|exact C].
        intros _. cbn [e_items]. apply act_st_sample. apply (around_scan sc t m1 _ (set_fes w f)).
        apply HC; [|reflexivity]. apply (activate_CInv t m1 (set_fes w f)). apply (proj1 (HW' m1)).
    + pose proof (module_restart_CInv (nmods sc) (cfg sc m1) t m1 (inc (w_mod w m1))) as HC.
      match goal with |- context [ISample t ?k] => set (smp := [ISample t k]) end.
      assert (Hso : forall i, In i smp -> item_mod i = None) by (intros i [<-|[]]; reflexivity).
      assert (Hst : Forall (tag_ok (inc (w_mod w m1))) smp) by (constructor; [exact I|constructor]).
      destruct (around_step sc (set_fes w f) tr HW' t m1 (module_restart (nmods sc) (cfg sc m1) t m1) (KLoop (EvRestart m1)) t smp (module_restart_ok _ _ _ _) (fun s Hc Hl => proj1 (HC s Hc Hl)) (fun _ => eq_refl)
                     Hst eq_refl (or_intror Hso)) as [[A B] C].
      * split; [split; [exact A|split; [exact B|]]|exact C].
        intros _. cbn [e_items]. apply act_st_sample. apply (around_scan sc t m1 _ (set_fes w f)).
        apply HC; [|reflexivity]. apply (activate_CInv t m1 (set_fes w f)). apply (proj1 (HW' m1)).
Qed.

Lemma init_WI sc : WI (init_world sc) [].
Proof. intros m. unfold TI. cbn. repeat split; constructor. Qed.

Lemma gen_WI sc : forall w tr, Gen sc w tr -> WI w tr.
Proof.
  apply (gen_inv sc WI); [apply init_WI|]. intros w tr e w' _ HW Hs. apply (step_inv sc w tr e w' HW Hs).
Qed.

(* ---- tear-down records ---- *)
Lemma end_rec_inv sc now m w : TI m w ->
  let e := snd (end_rec sc now m w) in
  (forall m' c t a, In (ICall m' c t a) (e_items e) ->
     m' = m /\ match c with CbTask _ j | CbTimer _ j => j = inc (w_mod w m) | _ => True end) /\
  (forall m', count_resets m' (e_items e) = 0%nat).
Proof.
  intros HT. unfold end_rec. cbn [snd e_items].
  pose proof (at_sim_end_CInv (nmods sc) (cfg sc m) now m _ _ (activate_CInv now m w HT)) as HC.
  destruct (at_sim_end_ok (nmods sc) (cfg sc m) now m {| x_w := activate now m w; x_log := [] |}) as [_ (l & Hl & Ul)].
  cbn [x_log app] in Hl. split.
  - apply own_tags; [rewrite Hl; apply Usr_Own, Ul|apply (ci_tags _ _ _ _ _ HC)].
  - intros m'. apply count_resets_none. rewrite Hl. apply (usr_no_reset m m' l Ul).
Qed.

Lemma end_seq_no_resets sc now m : forall ms w, count_resets m (items (snd (end_seq sc now ms w))) = 0%nat.
Proof.
  induction ms as [|m1 ms IH]; intros w; cbn [end_seq]; [reflexivity|].
  destruct (end_seq sc now ms (fst (end_rec sc now m1 w))) as [w2 es] eqn:Es. cbn [snd items flat_map].
  rewrite count_resets_app. replace es with (snd (end_seq sc now ms (fst (end_rec sc now m1 w)))) by (rewrite Es; reflexivity).
  fold (items (snd (end_seq sc now ms (fst (end_rec sc now m1 w))))). rewrite IH, Nat.add_0_r.
  apply count_resets_none.
  destruct (at_sim_end_ok (nmods sc) (cfg sc m1) now m1 {| x_w := activate now m1 w; x_log := [] |}) as [_ (l & Hl & Ul)].
  unfold end_rec. cbn [snd e_items]. cbn [x_log app] in Hl. rewrite Hl. apply (usr_no_reset m1 m l Ul).
Qed.

(* ---- C09 old_incarnation_silent ----
   Every step of a task (its first poll or the completion of one of its timers) is logged
   with the incarnation that spawned the task, and that is the module's current incarnation:
   the number of resets of the module so far.  A task or timer created before a shutdown
   (a reset) therefore never acts after it. *)
Theorem old_incarnation_silent sc pre e post m c t a :
  trace sc = pre ++ e :: post -> In (ICall m c t a) (e_items e) ->
  match c with
  | CbTask _ j | CbTimer _ j => j = N.of_nat (count_resets m (items pre))
  | _ => True
  end.
Proof.
  intros E Hin. destruct (trace_cases sc pre e post E) as [(w1 & w2 & HG & Hs)|(w & tr & now & ms1 & m1 & ms2 & HG & _ & Ems & -> & ->)].
  - pose proof (gen_WI sc w1 pre HG) as HW. destruct (step_inv sc w1 pre e w2 HW Hs) as [(A & _ & _) _].
    specialize (A m c t a Hin). destruct (HW m) as [_ Hi]. destruct c; try exact I; rewrite A; exact Hi.
  - pose proof (gen_WI sc w tr HG) as HW. destruct (HW m1) as [HT Hi].
    assert (HT' : TI m1 (fst (end_seq sc now ms1 w))) by (eapply TI_ext; [apply (end_seq_mod sc now ms1 m1 ms2 w Ems)|exact HT]).
    destruct (end_rec_inv sc now m1 _ HT') as [A _]. destruct (A m c t a Hin) as [-> H].
    unfold items. rewrite flat_map_app. fold (items tr). fold (items (snd (end_seq sc now ms1 w))).
    rewrite count_resets_app, end_seq_no_resets, Nat.add_0_r, <- Hi.
    rewrite (end_seq_mod sc now ms1 m1 ms2 w Ems) in H. exact H.
Qed.

(* ---- C09 reset_once_per_shutdown ----
   A record of the start-up phase or of a dispatched event holds exactly one reset of module m
   if it holds a shutdown request of m (shutdown(), shutdow_and_restart_in(), quiet), and none
   otherwise; tear-down records hold none. *)
Definition requests (m : N) (e : erec) : bool := existsb (fun i => is_req i && of_mod m i) (e_items e).

Theorem reset_once_per_shutdown sc e m : In e (trace sc) ->
  count_resets m (e_items e) = (if requests m e && negb (is_end e) then 1 else 0)%nat.
Proof.
  intros Hin. apply in_split in Hin. destruct Hin as (pre & post & E).
  destruct (trace_cases sc pre e post E) as [(w1 & w2 & HG & Hs)|(w & tr & now & ms1 & m1 & ms2 & HG & _ & Ems & -> & ->)].
  - pose proof (gen_WI sc w1 pre HG) as HW. destruct (step_inv sc w1 pre e w2 HW Hs) as [(_ & B & _) _].
    rewrite B. unfold requests.
    assert (Hk : is_end e = false) by (destruct Hs; reflexivity). rewrite Hk, andb_true_r. reflexivity.
  - pose proof (gen_WI sc w tr HG) as HW. destruct (HW m1) as [HT Hi].
    assert (HT' : TI m1 (fst (end_seq sc now ms1 w))) by (eapply TI_ext; [apply (end_seq_mod sc now ms1 m1 ms2 w Ems)|exact HT]).
    destruct (end_rec_inv sc now m1 _ HT') as [_ B]. rewrite B.
    unfold is_end, end_rec. cbn [snd e_kind negb]. rewrite andb_false_r. reflexivity.
Qed.

(* ---- C09 handler_runs_only_if_active ----
   In every record of the start-up sweep and in every dispatched event, every callback record
   (start-up stage, message handler, task step, timer completion) carries is_active = true, the only exception
   being records that follow a panic of the module's callback within the same event
   (Harness::catch has deactivated the module by then; C13). *)
Theorem handler_runs_only_if_active sc e : In e (trace sc) -> is_end e = false ->
  act_st false (e_items e) <> None.
Proof.
  intros Hin Hk. apply in_split in Hin. destruct Hin as (pre & post & E).
  destruct (trace_cases sc pre e post E) as [(w1 & w2 & HG & Hs)|(w & tr & now & ms1 & m1 & ms2 & HG & _ & Ems & -> & ->)].
  - pose proof (gen_WI sc w1 pre HG) as HW. destruct (step_inv sc w1 pre e w2 HW Hs) as [(_ & _ & C) _]. apply C, Hk.
  - discriminate.
Qed.

(* scripts without panics: every such record carries is_active = true *)
Lemma act_st_no_panic l : (forall m c, ~ In (IPanic m 0 c) l) -> act_st false l <> None ->
  forall m c t a, In (ICall m c t a) l -> a = true.
Proof.
  induction l as [|i l IH]; intros Hn Hs m c t a Hin; [destruct Hin|].
  assert (Hn' : forall m c, ~ In (IPanic m 0 c) l) by (intros m0 c1 C; apply (Hn m0 c1); right; exact C).
  destruct Hin as [->|Hin].
  - cbn [act_st] in Hs. destruct a; [reflexivity|]. cbn [orb] in Hs. contradiction.
  - destruct i as [m0 c0 t0 a0| | | | | |m0 who cc| | | | | | |]; cbn [act_st] in Hs; try (eapply IH; eauto; fail).
    + destruct a0; cbn [orb] in Hs; [eapply IH; eauto|contradiction].
    + destruct who; [exfalso; apply (Hn m0 cc); left; reflexivity|eapply IH; eauto].
Qed.
