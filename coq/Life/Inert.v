(* C09: a shut-down module is inert until its restart.  [Down m w]: module m is inactive, has
   no tasks, no timers and no pending request.  The event that resets m establishes it; only
   an event that (re)starts m ends it; while it holds, no event produces a record of m. *)
From Coq Require Import List NArith Bool Lia.
From DesVerif Require Import Life.Model Life.Base Life.Step Life.Trace.
Import ListNotations.
Open Scope N_scope.

(* ---- reading the trace ---- *)
Definition is_reset (m : N) (i : item) : bool := match i with IReset m' _ _ => m' =? m | _ => false end.
Definition resets (m : N) (e : erec) : bool := existsb (is_reset m) (e_items e).

(* the record (re)starts m: its restart event, or stage 0 of the initial start-up *)
Definition starts (m : N) (e : erec) : bool :=
  match e_kind e with
  | KLoop (EvRestart m') => m' =? m
  | KStart st m' => (st =? 0) && (m' =? m)
  | _ => false
  end.

Definition down_step (m : N) (d : bool) (e : erec) : bool :=
  if resets m e then true else if starts m e then false else d.

(* after the trace [tr], module m has been reset (shut down) and not (re)started since *)
Definition down_after (m : N) (tr : list erec) : bool := fold_left (down_step m) tr false.

(* a message handler, a task step or a timer completion of module m *)
Definition is_run (m : N) (i : item) : bool :=
  match i with
  | ICall m' (CbMsg _) _ _ | ICall m' (CbTask _ _) _ _ | ICall m' (CbTimer _ _) _ _ => m' =? m
  | _ => false
  end.

Definition of_mod (m : N) (i : item) : bool :=
  match item_mod i with Some m' => m' =? m | None => false end.

Lemma is_run_of_mod m i : is_run m i = true -> of_mod m i = true.
Proof. destruct i as [m' c t a| | | | | | | | | | | | |]; try discriminate. destruct c; try discriminate; exact (fun H => H). Qed.

Lemma own_not_of_mod m1 m l : Own m1 l -> m1 <> m -> forallb (fun i => negb (of_mod m i)) l = true.
Proof.
  intros Ho Hn. apply forallb_forall. intros i Hi. unfold Own in Ho. rewrite Forall_forall in Ho.
  unfold of_mod. rewrite (Ho i Hi). apply N.eqb_neq in Hn. rewrite Hn. reflexivity.
Qed.

Lemma own_no_reset m1 m l : Own m1 l -> m1 <> m -> existsb (is_reset m) l = false.
Proof.
  intros Ho Hn. apply not_true_is_false. intros H. apply existsb_exists in H. destruct H as (i & Hi & Hr).
  unfold Own in Ho. rewrite Forall_forall in Ho. specialize (Ho i Hi).
  destruct i; try discriminate. cbn in Ho, Hr. apply N.eqb_eq in Hr. congruence.
Qed.

Lemma usr_no_reset m1 m l : Forall (Usr m1) l -> existsb (is_reset m) l = false.
Proof.
  intros Hu. apply not_true_is_false. intros H. apply existsb_exists in H. destruct H as (i & Hi & Hr).
  rewrite Forall_forall in Hu. destruct (Hu i Hi) as [_ Hs]. destruct i; discriminate.
Qed.

(* ---- the state of a module that is down ---- *)
Record Down (m : N) (w : world) : Prop := {
  dn_active : active (w_mod w m) = false;
  dn_ready : ready (w_mod w m) = [];
  dn_timers : timers (w_mod w m) = [];
  dn_shut : shut (w_mod w m) = None }.

Lemma Down_ext m w w' : w_mod w' m = w_mod w m -> Down m w -> Down m w'.
Proof. intros E [a b c d]. constructor; rewrite E; assumption. Qed.

Lemma activate_mod_down now m w : Down m w ->
  w_mod (activate now m w) m = set_nw (w_mod w m) (nw_bump now (nw (w_mod w m))).
Proof.
  intros [a b c d]. unfold activate. rewrite c. cbn [split_due]. wsimpl. rewrite N.eqb_refl.
  rewrite b. destruct (w_mod w m); cbn in *. subst. reflexivity.
Qed.

Lemma activate_down now m w : Down m w -> Down m (activate now m w).
Proof. intros H. pose proof H as [a b c d]. constructor; rewrite activate_mod_down by exact H; assumption. Qed.

Lemma deactivate_mod_down m w : Down m w -> w_mod (deactivate m w) m = w_mod w m.
Proof. intros [a b c d]. unfold deactivate. rewrite c. reflexivity. Qed.

Lemma deactivate_down m w : Down m w -> Down m (deactivate m w).
Proof. intros H. eapply Down_ext; [apply deactivate_mod_down, H|exact H]. Qed.

Lemma buf_process_down c now m w : Down m w ->
  Down m (fst (buf_process c now m w)) /\ snd (buf_process c now m w) = [].
Proof.
  intros H. pose proof H as [a b c' d]. unfold buf_process, shutdown_part. wsimpl. rewrite d. cbn [fst snd].
  split; [|reflexivity]. eapply Down_ext; [|exact H]. reflexivity.
Qed.

(* the event that consumes a request of m leaves m down *)
Lemma shutdown_part_resets c now m w m' :
  existsb (is_reset m') (snd (shutdown_part c now m w)) = true -> m' = m /\ Down m (fst (shutdown_part c now m w)).
Proof.
  intros H. pose proof (shutdown_part_own c now m w) as Ho.
  assert (m' = m).
  { destruct (N.eq_dec m m') as [E|E]; [auto|]. rewrite (own_no_reset m m' _ Ho E) in H. discriminate. }
  subst m'. split; [reflexivity|].
  destruct (shut (w_mod w m)) as [r|] eqn:Es.
  - destruct (shutdown_frame c now m w r Es) as (_ & _ & _ & _ & _ & a & b & c' & d). constructor; assumption.
  - unfold shutdown_part in H. rewrite Es in H. discriminate.
Qed.

Lemma around_resets sc now m f w m' : CbOK m f ->
  existsb (is_reset m') (snd (around sc now m f w)) = true -> m' = m /\ Down m (fst (around sc now m f w)).
Proof.
  intros Hf H. unfold around in *.
  destruct (Hf {| x_w := activate now m w; x_log := [] |}) as [_ (l & Hl & Ul)].
  set (s := f {| x_w := activate now m w; x_log := [] |}) in *.
  unfold buf_process in *.
  set (w1 := set_buf (set_fes (deactivate m (x_w s)) (fes_flush (w_buf (deactivate m (x_w s))) (w_fes (deactivate m (x_w s))))) []) in *.
  pose proof (shutdown_part_resets (cfg sc m) now m w1 m') as Hp.
  destruct (shutdown_part (cfg sc m) now m w1) as [w' l']. cbn [fst snd] in *.
  rewrite existsb_app in H. cbn [x_log app] in Hl. rewrite Hl, (usr_no_reset m m' l Ul) in H. cbn [orb] in H. auto.
Qed.

(* ---- callbacks on a module that is down ---- *)
Definition no_run (m : N) (l : list item) : Prop := forallb (fun i => negb (is_run m i)) l = true.

Lemma handle_message_down k c now m x s : Down m (x_w s) -> handle_message k c now m x s = s.
Proof. intros [a _ _ _]. unfold handle_message. rewrite a. reflexivity. Qed.

Lemma async_wakeup_down k now m s : Down m (x_w s) -> async_wakeup k now m s = s.
Proof. intros [a _ _ _]. unfold async_wakeup. rewrite a. reflexivity. Qed.

Lemma start_cb_down sc stage m s : stage <> 0 -> Down m (x_w s) ->
  Down m (x_w (start_cb sc stage m s)) /\
  x_log (start_cb sc stage m s) = x_log s ++ [ICall m (CbStart stage) 0 false].
Proof.
  intros Hst H. pose proof H as [a b c d]. unfold start_cb, at_sim_start.
  apply N.eqb_neq in Hst. rewrite Hst. unfold exec, spawn_all, spawn_items. cbn [combine seq length map run_prog].
  unfold poll_ready. wsimpl. rewrite !N.eqb_refl. wsimpl. rewrite b. cbn [app fold_left catch fst].
  wsimpl. rewrite a, !app_nil_r. split; [|reflexivity].
  constructor; cbn [w_mod set_mod]; rewrite !N.eqb_refl; cbn [active ready timers shut set_ready set_hnd]; first [assumption|reflexivity].
Qed.

(* ---- one step ---- *)
Lemma around_down sc now m f w : Down m w ->
  (forall s, Down m (x_w s) -> Down m (x_w (f s))) ->
  Down m (fst (around sc now m f w)) /\
  snd (around sc now m f w) = x_log (f {| x_w := activate now m w; x_log := [] |}).
Proof.
  intros H Hf. unfold around. set (s := f {| x_w := activate now m w; x_log := [] |}).
  assert (Hs : Down m (x_w s)) by (apply Hf; cbn [x_w]; apply activate_down, H).
  destruct (buf_process_down (cfg sc m) now m (deactivate m (x_w s)) (deactivate_down m _ Hs)) as [H1 H2].
  destruct (buf_process (cfg sc m) now m (deactivate m (x_w s))) as [w' l]. cbn [fst snd] in *.
  subst l. rewrite app_nil_r. auto.
Qed.

Lemma ev_mod_starts m ev t l : ev_mod ev = Some m ->
  starts m {| e_kind := KLoop ev; e_time := t; e_items := l |} = false ->
  exists x, ev = EvDeliver m x \/ ev = EvWake m.
Proof.
  destruct ev as [m' far x|m' x|m'|m']; cbn [ev_mod starts e_kind]; intros E; try discriminate; injection E as ->.
  - exists x. auto.
  - exists 0. auto.
  - rewrite N.eqb_refl. discriminate.
Qed.

Lemma not_of_mod_no_run m l : forallb (fun i => negb (of_mod m i)) l = true -> no_run m l.
Proof.
  intros H. unfold no_run. apply forallb_forall. intros i Hi. rewrite forallb_forall in H. specialize (H i Hi).
  destruct (is_run m i) eqn:Er; [|reflexivity]. apply is_run_of_mod in Er. rewrite Er in H. discriminate.
Qed.

(* a tear-down record *)
Definition is_end (e : erec) : bool := match e_kind e with KEnd _ => true | _ => false end.

(* a step that does not (re)start m keeps m down and produces no record of m at all: the start-up
   sweep skips inactive modules, message and wake-up events of an inactive module do nothing *)
Lemma step_down sc w e w' m : step sc w e w' -> Down m w -> starts m e = false ->
  Down m w' /\ forallb (fun i => negb (of_mod m i)) (e_items e) = true.
Proof.
  intros Hs Hd Hst. destruct Hs as [stage m1 w Hfresh Hactive|w|w t ev f Hf].
  - (* start-up stage: of another module, m is inactive *)
    unfold start_rec in *. cbn [fst snd e_items e_kind] in *.
    destruct (N.eq_dec m1 m) as [->|Hn]; [rewrite (dn_active _ _ Hd) in Hactive; discriminate|].
    pose proof (around_own sc 0 m1 (start_cb sc stage m1) w (start_cb_ok _ _ _ _ _)) as Ho.
    split; [eapply Down_ext; [|exact Hd]; apply around_oth; [apply start_cb_ok|auto]|apply (own_not_of_mod m1 m _ Ho Hn)].
  - (* boot sample *)
    cbn [boot_rec e_items e_kind]. split; [exact Hd|reflexivity].
  - (* dispatched event *)
    unfold loop_rec in *. cbn [fst snd e_items e_kind] in *.
    assert (Hd' : Down m (set_fes w f)) by (eapply Down_ext; [|exact Hd]; reflexivity).
    assert (Hsam : forall t k, of_mod m (ISample t k) = false) by reflexivity.
    destruct (ev_mod ev) as [m1|] eqn:Em.
    + destruct (N.eq_dec m1 m) as [->|Hn].
      * destruct (ev_mod_starts m ev t _ Em Hst) as (x & [->| ->]); unfold process.
        -- destruct (around_down sc t m (handle_message (nmods sc) (cfg sc m) t m x) (set_fes w f) Hd') as [H1 H2].
           { intros s Hs. rewrite handle_message_down; assumption. }
           rewrite H2, handle_message_down by (cbn [x_w]; apply activate_down, Hd'). cbn [x_log app].
           split; [exact H1|reflexivity].
        -- destruct (around_down sc t m (async_wakeup (nmods sc) t m) (set_fes w f) Hd') as [H1 H2].
           { intros s Hs. rewrite async_wakeup_down; assumption. }
           rewrite H2, async_wakeup_down by (cbn [x_w]; apply activate_down, Hd'). cbn [x_log app].
           split; [exact H1|reflexivity].
      * pose proof (process_own sc (set_fes w f) t ev) as Ho. rewrite Em in Ho.
        pose proof (own_not_of_mod m1 m _ Ho Hn) as Hm.
        split; [eapply Down_ext; [|exact Hd']; apply process_oth; rewrite Em; congruence|].
        assert (Hall : forallb (fun i => negb (of_mod m i)) (snd (process sc (set_fes w f) t ev) ++ [ISample t (mask sc (fst (process sc (set_fes w f) t ev)))]) = true).
        { rewrite forallb_app, Hm. reflexivity. }
        exact Hall.
    + pose proof (process_own sc (set_fes w f) t ev) as Ho. rewrite Em in Ho. rewrite Ho. cbn [app].
      split; [eapply Down_ext; [|exact Hd']; apply process_oth; rewrite Em; discriminate|].
      reflexivity.
Qed.

Lemma step_resets sc w e w' m : step sc w e w' -> resets m e = true -> Down m w'.
Proof.
  intros Hs Hr. unfold resets in Hr. destruct Hs as [stage m1 w Hfresh Hactive|w|w t ev f Hf].
  - unfold start_rec in *. cbn [fst snd e_items] in *.
    destruct (around_resets sc 0 m1 (start_cb sc stage m1) w m (start_cb_ok _ _ _ _ _) Hr) as [-> H]. exact H.
  - discriminate.
  - unfold loop_rec in *. cbn [fst snd e_items] in *. rewrite existsb_app in Hr. cbn [existsb is_reset orb] in Hr.
    rewrite orb_false_r in Hr. unfold process in *. destruct ev as [m1 far x|m1 x|m1|m1].
    + discriminate.
    + destruct (around_resets sc t m1 _ (set_fes w f) m (handle_message_ok _ _ _ _ _) Hr) as [-> H]. exact H.
    + destruct (around_resets sc t m1 _ (set_fes w f) m (async_wakeup_ok _ _ _) Hr) as [-> H]. exact H.
    + destruct (around_resets sc t m1 _ (set_fes w f) m (module_restart_ok _ _ _ _) Hr) as [-> H]. exact H.
Qed.

(* the trace-level flag implies the state-level fact *)
Lemma down_after_snoc m tr e : down_after m (tr ++ [e]) = down_step m (down_after m tr) e.
Proof. unfold down_after. rewrite fold_left_app. reflexivity. Qed.

Lemma gen_down sc m : forall w tr, Gen sc w tr -> down_after m tr = true -> Down m w.
Proof.
  apply (gen_inv sc (fun w tr => down_after m tr = true -> Down m w)); [discriminate|].
  intros w tr e w' HG IH Hs. rewrite down_after_snoc. unfold down_step.
  destruct (resets m e) eqn:Er; [intros _; eapply step_resets; eauto|].
  destruct (starts m e) eqn:Est; [discriminate|]. intros Hd. eapply (proj1 (step_down sc w e w' m Hs (IH Hd) Est)).
Qed.

(* ---- tear-down records of a module that is down ---- *)
Lemma end_rec_down sc now m w : Down m w -> no_run m (e_items (snd (end_rec sc now m w))).
Proof.
  intros Hd. pose proof (activate_down now m w Hd) as [a b c d].
  unfold end_rec. cbn [snd e_items]. unfold at_sim_end, exec.
  match goal with |- context [run_prog false _ now m 0 _ ?S] => set (s0 := S) end.
  assert (R0 : ready (w_mod (x_w s0) m) = []).
  { unfold s0, spawn_all. wsimpl. rewrite N.eqb_refl. wsimpl. rewrite b. reflexivity. }
  assert (L0 : no_run m (x_log s0)) by reflexivity.
  pose proof (run_prog_FrP false (nmods sc) now m 0 (c_end (cfg sc m)) s0) as HF.
  assert (HL : no_run m (x_log (fst (run_prog false (nmods sc) now m 0 (c_end (cfg sc m)) s0)))).
  { clear HF R0. generalize dependent s0. generalize (c_end (cfg sc m)). unfold no_run.
    intros p. induction p as [|a0 p IH]; intros s0 L0; cbn [run_prog fst]; [exact L0|].
    assert (Hact : forall s, forallb (fun i => negb (is_run m i)) (x_log s) = true ->
                             forallb (fun i => negb (is_run m i)) (x_log (do_act (nmods sc) now m 0 a0 s)) = true).
    { intros s Ls. destruct a0; cbn [do_act]; try exact Ls; try (destruct (broke m s); [exact Ls|]);
        cbn [say on_w x_log]; rewrite forallb_app, Ls; reflexivity. }
    destruct a0; try (apply IH, Hact, L0).
    - cbn [fst say x_log]. rewrite forallb_app, L0. reflexivity.
    - cbn [fst]. unfold quiet. destruct (shut (w_mod (x_w s0) m)); cbn [say on_w x_log]; rewrite forallb_app, L0; reflexivity. }
  destruct (run_prog false (nmods sc) now m 0 (c_end (cfg sc m)) s0) as [s2 r]. cbn [fst] in *.
  assert (R2 : ready (w_mod (x_w s2) m) = []) by (rewrite (fp_ready _ _ _ HF); exact R0).
  assert (Hpoll : forall s, ready (w_mod (x_w s) m) = [] -> x_log (poll_ready (nmods sc) now m s) = x_log s /\
                            ready (w_mod (x_w (poll_ready (nmods sc) now m s)) m) = []).
  { intros s Rs. unfold poll_ready. rewrite Rs. cbn [fold_left]. wsimpl. rewrite N.eqb_refl. auto. }
  assert (Hc : forall p s, x_log s = x_log s2 -> ready (w_mod (x_w s) m) = [] ->
     no_run m (x_log (let '(w2, e) := catch (cfg sc m) m p (x_w s) in
                      let s2' := {| x_w := w2; x_log := x_log s |} in
                      if e then s2' else on_w (fun w0 => set_err w0 (w_err w0 ++ join_errs (cfg sc m) m (hnd (w_mod w0 m)) (w_fin w0)))
                                               (poll_ready (nmods sc) now m s2')))).
  { intros p s Ls Rs. unfold catch. destruct p.
    - destruct (catchf (w_mod (x_w s) m)); cbn [x_log on_w].
      + match goal with |- no_run m (x_log (poll_ready _ _ _ ?S)) => destruct (Hpoll S) as [P _] end.
        { wsimpl. rewrite N.eqb_refl. wsimpl. exact Rs. }
        rewrite P. cbn [x_log]. rewrite Ls. exact HL.
      + cbn [x_log]. rewrite Ls. exact HL.
    - cbn [x_log on_w].
      match goal with |- no_run m (x_log (poll_ready _ _ _ ?S)) => destruct (Hpoll S) as [P _] end; [exact Rs|].
      rewrite P. cbn [x_log]. rewrite Ls. exact HL. }
  destruct r.
  - destruct (Hpoll s2 R2) as [P1 P2]. apply (Hc false (poll_ready (nmods sc) now m s2) P1 P2).
  - apply (Hc true s2 eq_refl R2).
  - rewrite R2. cbn [fold_left]. apply (Hc false (on_w (fun w0 => set_mod w0 m (set_ready (w_mod w0 m) [])) s2)); [reflexivity|].
    wsimpl. rewrite N.eqb_refl. reflexivity.
  - destruct (Hpoll s2 R2) as [P1 P2]. apply (Hc false (poll_ready (nmods sc) now m s2) P1 P2).
Qed.

(* ---- C09 inert_while_down ---- *)
Theorem inert_while_down sc m pre e post :
  trace sc = pre ++ e :: post -> down_after m pre = true -> starts m e = false ->
  no_run m (e_items e) /\
  (is_end e = false -> forallb (fun i => negb (of_mod m i)) (e_items e) = true).
Proof.
  intros E Hd Hst.
  destruct (trace_cases sc pre e post E) as [(w1 & w2 & HG & Hs)|(w & tr & now & ms1 & m1 & ms2 & HG & _ & Ems & -> & ->)].
  - destruct (step_down sc w1 e w2 m Hs (gen_down sc m w1 pre HG Hd) Hst) as [_ H]. split; [apply not_of_mod_no_run, H|intros _; exact H].
  - (* a tear-down record *)
    split; [|discriminate].
    assert (Hdw : Down m w).
    { apply (gen_down sc m w tr HG). unfold down_after in *. rewrite fold_left_app in Hd.
      assert (G : forall ms w0 d, fold_left (down_step m) (snd (end_seq sc now ms w0)) d = d).
      { induction ms as [|mm ms IH]; intros w0 d; cbn [end_seq]; [reflexivity|].
        destruct (end_seq sc now ms (fst (end_rec sc now mm w0))) as [w3 es] eqn:Es. cbn [snd fold_left].
        replace es with (snd (end_seq sc now ms (fst (end_rec sc now mm w0)))) by (rewrite Es; reflexivity).
        rewrite IH. unfold down_step.
        assert (Hr : resets m (snd (end_rec sc now mm w0)) = false).
        { unfold resets. pose proof (at_sim_end_ok (nmods sc) (cfg sc mm) now mm {| x_w := activate now mm w0; x_log := [] |}) as [_ (l & Hl & Ul)].
          unfold end_rec. cbn [snd e_items]. cbn [x_log app] in Hl. rewrite Hl. apply (usr_no_reset mm m l Ul). }
        rewrite Hr. reflexivity. }
      rewrite G in Hd. exact Hd. }
    destruct (N.eq_dec m1 m) as [->|Hn].
    + apply end_rec_down. eapply Down_ext; [|exact Hdw]. apply (end_seq_mod sc now ms1 m ms2 w Ems).
    + apply not_of_mod_no_run. apply (own_not_of_mod m1 m); [apply end_rec_own|exact Hn].
Qed.
