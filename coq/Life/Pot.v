(* A potential for the termination of the event loop of coq/Life/Model.v.  Every budget unit
   of a module is worth U, every pending event its weight, every remaining action of a live
   task 4, every pending timer 2 more, the time driver's next_wakeup 1, a timer queue whose
   head is not covered by next_wakeup 2, a pending restart request the weight of the restart
   event.  This file: the part of one module and what the script interpreter does to it. *)
From Coq Require Import List NArith PArith Bool Lia.
From DesVerif Require Import Life.Model Life.Base Life.Step.
Import ListNotations.
Open Scope N_scope.

Section Pot.
Variable sc : script.

Definition RR : N := 4 * cfg_unit sc.
Definition UU : N := RR + 4.

Definition wt (e : fev) : N :=
  match e with EvExit _ _ _ => 2 | EvDeliver _ _ => 1 | EvWake _ => 1 | EvRestart _ => 1 + RR end.
Fixpoint wl (l : list (N * fev)) : N := match l with [] => 0 | p :: r => wt (snd p) + wl r end.
Definition wsum (f : fes) : N := wl (f_zero f) + wl (f_rest f).

Lemma wl_app a b : wl (a ++ b) = wl a + wl b.
Proof. induction a as [|x a IH]; cbn [wl app]; [reflexivity|]. rewrite IH. lia. Qed.

Lemma wl_ins t e l : wl (fes_ins t e l) = wt e + wl l.
Proof.
  induction l as [|x r IH]; cbn [fes_ins]; [reflexivity|]. destruct (t <? fst x); [reflexivity|].
  cbn [wl]. rewrite IH. lia.
Qed.

Lemma wsum_add t e f : wsum (fes_add t e f) = wt e + wsum f.
Proof.
  unfold wsum, fes_add. destruct (t =? f_tcur f); cbn [f_zero f_rest].
  - rewrite wl_app. cbn [wl snd]. lia.
  - rewrite wl_ins. lia.
Qed.

Lemma wsum_flush ps : forall f, wsum (fes_flush ps f) = wl ps + wsum f.
Proof.
  induction ps as [|p ps IH]; intros f; cbn [fes_flush fold_left]; [reflexivity|].
  fold (fes_flush ps (fes_add (fst p) (snd p) f)). rewrite IH, wsum_add. cbn [wl]. lia.
Qed.

Lemma wsum_fetch f t ev f' : fes_fetch f = Some (t, ev, f') -> wsum f = wt ev + wsum f'.
Proof.
  unfold fes_fetch, wsum. destruct (f_zero f) as [|[tx ex] z].
  - destruct (f_rest f) as [|[tx ex] r]; [discriminate|]. intros H. injection H as <- <- <-. cbn. reflexivity.
  - intros H. injection H as <- <- <-. cbn [f_zero f_rest wl snd]. lia.
Qed.

(* ---- one module ---- *)
Definition tkw (tk : task) : N := 4 * N.of_nat (length (tk_rest tk)).
Fixpoint rdw (l : list task) : N := match l with [] => 0 | tk :: r => tkw tk + rdw r end.
Fixpoint tmw (l : list (N * task)) : N := match l with [] => 0 | p :: r => tkw (snd p) + 2 + tmw r end.
Definition nwf (n : option N) : N := match n with Some _ => 1 | None => 0 end.
(* the head of the timer queue is not the time next_wakeup stands at *)
Definition stale (l : list (N * task)) (n : option N) : N :=
  match l with
  | [] => 0
  | (t, _) :: _ => match n with Some u => if u =? t then 0 else 2 | None => 2 end
  end.
Definition shw (s : option (option N)) : N := match s with Some (Some _) => 1 + RR | _ => 0 end.

Definition part (x : mst) : N :=
  UU * bud x + rdw (ready x) + tmw (timers x) + nwf (nw x) + stale (timers x) (nw x) + shw (shut x).

Lemma rdw_app a b : rdw (a ++ b) = rdw a + rdw b.
Proof. induction a as [|x a IH]; cbn [rdw app]; [reflexivity|]. rewrite IH. lia. Qed.

Lemma tmw_app a b : tmw (a ++ b) = tmw a + tmw b.
Proof. induction a as [|x a IH]; cbn [tmw app]; [reflexivity|]. rewrite IH. lia. Qed.

Lemma tmw_tins t tk l : tmw (tins t tk l) = tkw tk + 2 + tmw l.
Proof.
  induction l as [|x r IH]; cbn [tins]; [reflexivity|]. destruct (t <? fst x); [reflexivity|].
  cbn [tmw]. rewrite IH. lia.
Qed.

Lemma stale_le l n : stale l n <= 2.
Proof. unfold stale. destruct l as [|[t tk] r]; [lia|]. destruct n as [u|]; [destruct (u =? t)|]; lia. Qed.

(* the potential seen from module m: its part, the event buffer, the event set *)
Definition pm (m : N) (w : world) : N := part (w_mod w m) + wl (w_buf w) + wsum (w_fes w).

Lemma pm_set_mod m w x : pm m (set_mod w m x) = part x + wl (w_buf w) + wsum (w_fes w).
Proof. unfold pm. rewrite mod_same. reflexivity. Qed.

Lemma RR_pos : 1 <= UU.
Proof. unfold UU. lia. Qed.

(* ---- scripted actions ---- *)
Lemma spend_pm m w : bud (w_mod w m) <> 0 -> pm m (spend m w) + UU = pm m w.
Proof.
  intros H. unfold spend. rewrite pm_set_mod. unfold pm, part. cbn [bud ready timers nw shut set_bud].
  assert (E : UU * bud (w_mod w m) = UU * (bud (w_mod w m) - 1) + UU) by nia. lia.
Qed.

Lemma buf_push_pm m p w : pm m (buf_push p w) = pm m w + wt (snd p).
Proof. unfold pm, buf_push. cbn [w_mod w_buf w_fes set_buf]. rewrite wl_app. cbn [wl]. lia. Qed.

Lemma buf_send_at_pm k now m far d x w : pm m (buf_send_at k now m far d x w) <= pm m w + 2.
Proof.
  unfold buf_send_at. destruct (d =? 0); [|rewrite buf_push_pm; cbn [snd wt]; lia].
  destruct (walk k w m far); [rewrite buf_push_pm; cbn [snd wt]|]; lia.
Qed.

Lemma request_pm m r w : pm m (request m r w) <= pm m w + 1 + RR.
Proof.
  unfold request. rewrite pm_set_mod. unfold pm, part. cbn [bud ready timers nw shut set_shut].
  assert (shw (Some r) <= 1 + RR) by (destruct r; cbn [shw]; lia). lia.
Qed.

Lemma do_act_pm k now m who a s : pm m (x_w (do_act k now m who a s)) <= pm m (x_w s).
Proof.
  destruct a; cbn [do_act]; try apply N.le_refl;
    try (cbn [say on_w x_w]; rewrite pm_set_mod; apply N.le_refl); unfold broke; destruct (bud (w_mod (x_w s) m) =? 0) eqn:E; try apply N.le_refl;
    apply N.eqb_neq in E; pose proof (spend_pm m (x_w s) E) as Hs; cbn [say on_w x_w]; unfold UU in *.
  - pose proof (buf_send_at_pm k now m far d x (spend m (x_w s))). lia.
  - unfold buf_schedule_at. rewrite buf_push_pm. cbn [snd wt]. lia.
  - pose proof (request_pm m None (spend m (x_w s))). lia.
  - pose proof (request_pm m (Some (now + d)) (spend m (x_w s))). lia.
Qed.

Lemma quiet_pm m s : pm m (x_w (quiet m s)) = pm m (x_w s).
Proof.
  unfold quiet. destruct (shut (w_mod (x_w s) m)) eqn:E; cbn [say on_w x_w]; [reflexivity|].
  unfold request. rewrite pm_set_mod. unfold pm, part. cbn [bud ready timers nw shut set_shut]. rewrite E. cbn [shw]. lia.
Qed.

(* a program: what is left of it is returned when it goes to sleep *)
Definition inflight (r : res) : N := match r with RSleep _ rest => 4 * N.of_nat (length rest) + 4 | _ => 0 end.

Lemma run_prog_pm tk k now m who : forall p s,
  pm m (x_w (fst (run_prog tk k now m who p s))) + inflight (snd (run_prog tk k now m who p s)) <=
  pm m (x_w s) + 4 * N.of_nat (length p).
Proof.
  induction p as [|a p IH]; intros s; cbn [run_prog fst snd length inflight]; [lia|].
  assert (Hd : forall s', pm m (x_w s') <= pm m (x_w s) ->
            pm m (x_w (fst (run_prog tk k now m who p s'))) + inflight (snd (run_prog tk k now m who p s')) <=
            pm m (x_w s) + 4 * N.of_nat (S (length p))) by (intros s' Hs'; specialize (IH s'); lia).
  destruct a; try (apply Hd, do_act_pm).
  - destruct (tk && (0 <? d)); cbn [fst snd inflight]; [lia|apply Hd, N.le_refl].
  - cbn [fst snd inflight say x_w]. lia.
  - destruct tk; cbn [fst snd inflight]; [apply Hd, N.le_refl|rewrite quiet_pm; lia].
Qed.

(* a callback pays for nothing but its own sends and requests *)
Lemma run_prog_cb_pm k now m who : forall p s, pm m (x_w (fst (run_prog false k now m who p s))) <= pm m (x_w s).
Proof.
  induction p as [|a p IH]; intros s; cbn [run_prog fst]; [lia|].
  assert (Hd : forall s', pm m (x_w s') <= pm m (x_w s) -> pm m (x_w (fst (run_prog false k now m who p s'))) <= pm m (x_w s))
    by (intros s' Hs'; specialize (IH s'); lia).
  destruct a; cbn [andb]; try (apply Hd, do_act_pm).
  - apply Hd, N.le_refl.
  - cbn [fst say x_w]. lia.
  - cbn [fst]. rewrite quiet_pm. lia.
Qed.

(* ---- tasks ---- *)
Lemma stale_tins t tk l n : stale (tins t tk l) n <= stale l n + 2.
Proof. pose proof (stale_le (tins t tk l) n). lia. Qed.

Lemma end_task_pm m how s tk : pm m (x_w (end_task m how s tk)) = pm m (x_w s).
Proof. reflexivity. Qed.

Lemma fold_end_task_pm m : forall l s, pm m (x_w (fold_left (end_task m 0) l s)) = pm m (x_w s).
Proof. induction l as [|tk l IH]; intros s; cbn [fold_left]; [reflexivity|]. rewrite IH. apply end_task_pm. Qed.

Lemma poll1_pm k now m s tk : pm m (x_w (poll1 k now m s tk)) <= pm m (x_w s) + tkw tk.
Proof.
  unfold poll1.
  match goal with |- context [run_prog true k now m ?who ?p ?s0] =>
    pose proof (run_prog_pm true k now m who p s0) as H; destruct (run_prog true k now m who p s0) as [s1 r] end.
  cbn [fst snd say x_w] in H. unfold tkw. destruct r; cbn [inflight] in H; rewrite ?end_task_pm; cbn [on_w x_w]; try lia.
  - rewrite pm_set_mod. unfold pm, part in *. cbn [bud ready timers nw shut set_timers].
    rewrite tmw_tins. unfold tkw. cbn [tk_rest].
    pose proof (stale_tins (now + d) {| tk_id := tk_id tk; tk_inc := tk_inc tk; tk_new := false; tk_rest := rest |} (timers (w_mod (x_w s1) m)) (nw (w_mod (x_w s1) m))).
    lia.
Qed.

Lemma fold_poll1_pm k now m : forall l s, pm m (x_w (fold_left (poll1 k now m) l s)) <= pm m (x_w s) + rdw l.
Proof.
  induction l as [|tk l IH]; intros s; cbn [fold_left rdw]; [lia|].
  specialize (IH (poll1 k now m s tk)). pose proof (poll1_pm k now m s tk). lia.
Qed.

Lemma poll_ready_pm k now m s : pm m (x_w (poll_ready k now m s)) <= pm m (x_w s).
Proof.
  unfold poll_ready.
  pose proof (fold_poll1_pm k now m (ready (w_mod (x_w s) m)) (on_w (fun w => set_mod w m (set_ready (w_mod w m) [])) s)) as H.
  cbn [on_w x_w] in H. rewrite pm_set_mod in H. unfold pm, part in *. cbn [bud ready timers nw shut set_ready rdw] in H. lia.
Qed.

(* the tasks at_sim_start(0) spawns *)
Definition spw (ps : list prog) : N := fold_right (fun p a => 4 * N.of_nat (length p) + a) 0 ps.

Lemma spawn_all_pm m ps w : pm m (spawn_all m ps w) = pm m w + spw (map snd ps).
Proof.
  unfold spawn_all. rewrite pm_set_mod. unfold pm, part. cbn [bud ready timers nw shut set_ready set_hnd]. rewrite rdw_app.
  assert (E : forall n, rdw (map (fun ip => {| tk_id := N.of_nat (fst ip); tk_inc := inc (w_mod w m); tk_new := true; tk_rest := snd (snd ip) |})
                                (combine (seq n (length ps)) ps)) = spw (map snd ps)).
  { induction ps as [|p ps IH]; intros n; cbn [length seq combine map rdw spw fold_right]; [reflexivity|].
    rewrite IH. unfold tkw. cbn [tk_rest snd]. reflexivity. }
  rewrite E. lia.
Qed.

Lemma c_spawn_snd c : map snd (c_spawn c) = c_tasks c.
Proof.
  unfold c_spawn. rewrite map_map. cbn [snd]. generalize 0%nat. induction (c_tasks c) as [|p l IH]; intros n; [reflexivity|].
  cbn [length seq combine map snd]. rewrite IH. reflexivity.
Qed.

Lemma exec_pm k now m c sp p s : pm m (x_w (fst (exec k now m c sp p s))) <= pm m (x_w s) + spw (map snd sp).
Proof.
  unfold exec.
  match goal with |- context [run_prog false k now m 0 p ?s0] =>
    pose proof (run_prog_cb_pm k now m 0 p s0) as H; destruct (run_prog false k now m 0 p s0) as [s2 r] end.
  cbn [fst say say_all on_w x_w] in H. rewrite spawn_all_pm in H.
  destruct r; cbn [fst].
  - pose proof (poll_ready_pm k now m s2). lia.
  - lia.
  - rewrite fold_end_task_pm. cbn [on_w x_w]. rewrite pm_set_mod. unfold pm, part in *. cbn [bud ready timers nw shut set_ready rdw]. lia.
  - pose proof (poll_ready_pm k now m s2). lia.
Qed.

Lemma catch_pm c m p w : pm m (fst (catch c m p w)) = pm m w.
Proof.
  unfold catch. destruct p; cbn [fst]; [|reflexivity].
  destruct (catchf (w_mod w m)); cbn [fst]; unfold pm; cbn [w_mod w_buf w_fes set_err set_mod]; rewrite N.eqb_refl; reflexivity.
Qed.

Lemma at_sim_start_pm k c now m stage s :
  pm m (x_w (fst (at_sim_start k c now m stage s))) <= pm m (x_w s) + (if stage =? 0 then spw (c_tasks c) else 0).
Proof.
  unfold at_sim_start. destruct (stage =? 0).
  - pose proof (exec_pm k now m (CbStart stage) (c_spawn c) (pick_start c (inc (w_mod (x_w s) m))) s) as H.
    rewrite c_spawn_snd in H. destruct (exec k now m (CbStart stage) _ _ s) as [s1 p]. cbn [fst] in H.
    pose proof (catch_pm c m p (x_w s1)) as Hc. destruct (catch c m p (x_w s1)) as [w2 e2]. cbn [fst x_w] in *. lia.
  - pose proof (exec_pm k now m (CbStart stage) [] [] s) as H.
    destruct (exec k now m (CbStart stage) [] [] s) as [s1 p]. cbn [fst spw fold_right map] in H.
    pose proof (catch_pm c m p (x_w s1)) as Hc. destruct (catch c m p (x_w s1)) as [w2 e2]. cbn [fst x_w] in *. lia.
Qed.

Definition zeros (l : list N) : N := fold_right (fun st a => (if st =? 0 then 1 else 0) + a) 0 l.

Lemma restart_fold_pm k c now m : forall l s e,
  pm m (x_w (fst (fold_left (fun (acc : xs * bool) stage => if snd acc then acc else restart_stage k c now m stage (fst acc)) l (s, e)))) <=
  pm m (x_w s) + zeros l * spw (c_tasks c).
Proof.
  induction l as [|st l IH]; intros s e; cbn [fold_left fst snd zeros fold_right]; [lia|].
  destruct e.
  - specialize (IH s true). fold (zeros l). nia.
  - pose proof (at_sim_start_pm k c now m st s) as H1.
    change (restart_stage k c now m st s) with
      (fst (at_sim_start k c now m st s), snd (at_sim_start k c now m st s) || negb (active (w_mod (x_w (fst (at_sim_start k c now m st s))) m))).
    destruct (at_sim_start k c now m st s) as [s1 e1]. cbn [fst snd] in *.
    specialize (IH s1 (e1 || negb (active (w_mod (x_w s1) m)))). fold (zeros l). destruct (st =? 0); nia.
Qed.

Lemma zeros_stage_list n : zeros (stage_list n) <= 1.
Proof.
  unfold stage_list. destruct (N.to_nat n) as [|k]; [cbn; lia|]. cbn [seq map zeros fold_right N.of_nat N.eqb].
  assert (G : forall j i, (1 <= i)%nat -> fold_right (fun st a => (if st =? 0 then 1 else 0) + a) 0 (map N.of_nat (seq i j)) = 0).
  { induction j as [|j IH]; intros i Hi; cbn [seq map fold_right]; [reflexivity|]. rewrite IH by lia.
    destruct (N.of_nat i =? 0) eqn:E; [apply N.eqb_eq in E; lia|reflexivity]. }
  rewrite (G k 1%nat) by lia. lia.
Qed.

Lemma module_restart_pm k c now m s :
  pm m (x_w (module_restart k c now m s)) <= pm m (x_w s) + spw (c_tasks c).
Proof.
  unfold module_restart.
  pose proof (restart_fold_pm k c now m (stage_list (c_stages c)) (on_w (fun w => set_mod w m (set_active (w_mod w m) true)) s) false) as H.
  cbn [on_w x_w] in H. rewrite pm_set_mod in H. unfold pm, part in *. cbn [bud ready timers nw shut set_active] in H.
  pose proof (zeros_stage_list (c_stages c)). nia.
Qed.

Lemma handle_message_pm k c now m x s : pm m (x_w (handle_message k c now m x s)) <= pm m (x_w s).
Proof.
  unfold handle_message. destruct (active (w_mod (x_w s) m)); [|lia].
  pose proof (exec_pm k now m (CbMsg x) [] (pick_msg c x) s) as H.
  destruct (exec k now m (CbMsg x) [] (pick_msg c x) s) as [s1 p]. cbn [fst spw fold_right map x_w] in *. rewrite catch_pm. lia.
Qed.

Lemma async_wakeup_pm k now m s : pm m (x_w (async_wakeup k now m s)) <= pm m (x_w s).
Proof. unfold async_wakeup. destruct (active (w_mod (x_w s) m)); [apply poll_ready_pm|lia]. Qed.

End Pot.
