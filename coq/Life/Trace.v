(* The run of a script as a sequence of steps: every world the simulation goes through is
   generated from the initial world by start-up steps, the boot sample and dispatched events
   ([Gen]); the trace of the run is such a generated trace followed by the tear-down records.
   Trace properties are proved as invariants over [Gen]. *)
From Coq Require Import List NArith Bool Lia FinFun.
From DesVerif Require Import Common.Fuel Life.Model Life.Base Life.Step.
Import ListNotations.
Open Scope N_scope.

Definition start_cb (sc : script) (stage m : N) : xs -> xs :=
  fun s => fst (at_sim_start (nmods sc) (cfg sc m) 0 m stage s).

Definition start_rec (sc : script) (stage m : N) (w : world) : world * erec :=
  (fst (around sc 0 m (start_cb sc stage m) w),
   {| e_kind := KStart stage m; e_time := 0; e_items := snd (around sc 0 m (start_cb sc stage m) w) |}).

Definition boot_rec (sc : script) (w : world) : erec :=
  {| e_kind := KBoot; e_time := 0; e_items := [ISample 0 (mask sc w)] |}.

Definition loop_rec (sc : script) (w : world) (t : N) (ev : fev) : world * erec :=
  (fst (process sc w t ev),
   {| e_kind := KLoop ev; e_time := t;
      e_items := snd (process sc w t ev) ++ [ISample t (mask sc (fst (process sc w t ev)))] |}).

Inductive step (sc : script) : world -> erec -> world -> Prop :=
| S_start stage m w : (stage = 0 -> w_mod w m = mst0 (cfg sc m)) -> active (w_mod w m) = true ->
    step sc w (snd (start_rec sc stage m w)) (fst (start_rec sc stage m w))
| S_boot w : step sc w (boot_rec sc w) w
| S_loop w t ev f : fes_fetch (w_fes w) = Some (t, ev, f) ->
    step sc w (snd (loop_rec sc (set_fes w f) t ev)) (fst (loop_rec sc (set_fes w f) t ev)).

Inductive Gen (sc : script) : world -> list erec -> Prop :=
| G0 : Gen sc (init_world sc) []
| G1 w tr e w' : Gen sc w tr -> step sc w e w' -> Gen sc w' (tr ++ [e]).

(* every record of a generated trace was produced by a step from a generated world *)
Lemma gen_split sc : forall w tr, Gen sc w tr -> forall pre e post, tr = pre ++ e :: post ->
  exists w1 w2, Gen sc w1 pre /\ step sc w1 e w2.
Proof.
  induction 1 as [|w tr e0 w' HG IH Hs]; intros pre e post E.
  - destruct pre; discriminate.
  - destruct post as [|p post] using rev_ind.
    + apply app_inj_tail in E. destruct E as [<- <-]. exists w, w'. auto.
    + clear IHpost. rewrite app_comm_cons, app_assoc in E. apply app_inj_tail in E. destruct E as [E _].
      eapply IH, E.
Qed.

(* an invariant of the steps holds of every generated pair *)
Lemma gen_inv sc (I : world -> list erec -> Prop) :
  I (init_world sc) [] ->
  (forall w tr e w', Gen sc w tr -> I w tr -> step sc w e w' -> I w' (tr ++ [e])) ->
  forall w tr, Gen sc w tr -> I w tr.
Proof. intros H0 H1. induction 1; eauto. Qed.

Lemma app_split_mid {A} (a b pre post : list A) e : a ++ b = pre ++ e :: post ->
  (exists post', a = pre ++ e :: post') \/ (exists pre', pre = a ++ pre' /\ b = pre' ++ e :: post).
Proof.
  revert pre. induction a as [|x a IH]; intros pre E; cbn [app] in E.
  - right. exists pre. auto.
  - destruct pre as [|p pre]; cbn [app] in E.
    + injection E as <- E. left. exists a. reflexivity.
    + injection E as <- E. destruct (IH pre E) as [(post' & ->)|(pre' & -> & H)].
      * left. exists post'. reflexivity.
      * right. exists pre'. auto.
Qed.

(* ---- start-up ---- *)
Lemma mods_nodup sc : NoDup (mods sc).
Proof.
  unfold mods. apply Injective_map_NoDup; [|apply seq_NoDup].
  intros a b H. apply Nnat.Nat2N.inj, H.
Qed.

Lemma start_one_eq sc stage m w tr :
  start_one sc stage m (w, tr) =
  if (stage <? c_stages (cfg sc m)) && active (w_mod w m)
  then (fst (start_rec sc stage m w), tr ++ [snd (start_rec sc stage m w)]) else (w, tr).
Proof.
  unfold start_one, start_rec, start_cb. destruct ((stage <? c_stages (cfg sc m)) && active (w_mod w m)); [|reflexivity].
  destruct (around sc 0 m _ w) as [w' l]. reflexivity.
Qed.

Lemma start_one_gen sc stage m acc : Gen sc (fst acc) (snd acc) ->
  (stage = 0 -> w_mod (fst acc) m = mst0 (cfg sc m)) ->
  Gen sc (fst (start_one sc stage m acc)) (snd (start_one sc stage m acc)).
Proof.
  destruct acc as [w tr]. cbn [fst snd]. intros H Hf. rewrite start_one_eq.
  destruct ((stage <? c_stages (cfg sc m)) && active (w_mod w m)) eqn:E; cbn [fst snd]; [|exact H].
  apply andb_true_iff in E. eapply G1; [exact H|apply S_start; [exact Hf|apply E]].
Qed.

Lemma start_one_oth sc stage m acc i : i <> m -> w_mod (fst (start_one sc stage m acc)) i = w_mod (fst acc) i.
Proof.
  intros Hi. destruct acc as [w tr]. rewrite start_one_eq. destruct ((stage <? c_stages (cfg sc m)) && active (w_mod w m)); cbn [fst]; [|reflexivity].
  unfold start_rec. cbn [fst]. apply around_oth; [apply start_cb_ok|exact Hi].
Qed.

Lemma start_stage_gen sc stage : forall ms acc, NoDup ms -> Gen sc (fst acc) (snd acc) ->
  (stage = 0 -> forall m, In m ms -> w_mod (fst acc) m = mst0 (cfg sc m)) ->
  Gen sc (fst (fold_left (fun acc m => start_one sc stage m acc) ms acc))
         (snd (fold_left (fun acc m => start_one sc stage m acc) ms acc)).
Proof.
  induction ms as [|m ms IH]; intros acc Hnd H Hf; cbn [fold_left]; [exact H|].
  inversion Hnd as [|x l Hnin Hnd']; subst. apply IH; [exact Hnd'| |].
  - apply start_one_gen; [exact H|]. intros E. apply Hf; [exact E|left; reflexivity].
  - intros E m' Hin. rewrite start_one_oth; [apply Hf; [exact E|right; exact Hin]|].
    intros ->. contradiction.
Qed.

Lemma stage_list_shape n : 1 <= n -> exists tl, stage_list n = 0 :: tl /\ Forall (fun st => st <> 0) tl.
Proof.
  intros Hn. unfold stage_list. destruct (N.to_nat n) as [|k] eqn:E; [lia|].
  cbn [seq map]. exists (map N.of_nat (seq 1 k)). split; [reflexivity|].
  apply Forall_forall. intros st Hin. apply in_map_iff in Hin. destruct Hin as (i & <- & Hi).
  apply in_seq in Hi. lia.
Qed.

Lemma max_stage_ge1 sc : 1 <= max_stage sc.
Proof. unfold max_stage. induction (s_mods sc) as [|c l IH]; cbn [fold_right]; lia. Qed.

Lemma sim_start_gen sc : Gen sc (fst (sim_start sc (init_world sc))) (snd (sim_start sc (init_world sc))).
Proof.
  unfold sim_start. destruct (stage_list_shape (max_stage sc) (max_stage_ge1 sc)) as (tl & -> & Htl).
  cbn [fold_left].
  assert (G : forall stages acc, Forall (fun st => st <> 0) stages -> Gen sc (fst acc) (snd acc) ->
              Gen sc (fst (fold_left (fun acc stage => fold_left (fun acc m => start_one sc stage m acc) (mods sc) acc) stages acc))
                     (snd (fold_left (fun acc stage => fold_left (fun acc m => start_one sc stage m acc) (mods sc) acc) stages acc))).
  { induction stages as [|st stages IH]; intros acc Hne H; cbn [fold_left]; [exact H|].
    inversion Hne; subst. apply IH; [assumption|].
    apply start_stage_gen; [apply mods_nodup|exact H|]. intros E. contradiction. }
  apply G; [exact Htl|]. apply start_stage_gen; [apply mods_nodup|apply G0|]. intros _ m _. reflexivity.
Qed.

(* ---- the loop ---- *)
Lemma loop_step_gen sc w now tr : Gen sc w tr ->
  match loop_step sc (w, now, tr) with
  | inl (w', _, tr') => Gen sc w' tr'
  | inr (w', _, tr') => w' = w /\ tr' = tr /\ fes_fetch (w_fes w) = None
  end.
Proof.
  intros H. unfold loop_step. destruct (fes_fetch (w_fes w)) as [[[t ev] f]|] eqn:E; [|auto].
  pose proof (S_loop sc w t ev f E) as Hs. unfold loop_rec in Hs. cbn [fst snd] in Hs.
  destruct (process sc (set_fes w f) t ev) as [w' l]. cbn [fst snd] in Hs. eapply G1; eauto.
Qed.

Lemma iter_gen sc : forall k w now tr, Gen sc w tr ->
  match iter_nat k (loop_step sc) (w, now, tr) with
  | inl (w', _, tr') => Gen sc w' tr'
  | inr (w', _, tr') => Gen sc w' tr' /\ fes_fetch (w_fes w') = None
  end.
Proof.
  induction k as [|k IH]; intros w now tr H; cbn [iter_nat]; [exact H|].
  pose proof (loop_step_gen sc w now tr H) as Hl.
  destruct (loop_step sc (w, now, tr)) as [[[w1 n1] tr1]|[[w1 n1] tr1]].
  - apply IH, Hl.
  - destruct Hl as (-> & -> & E). auto.
Qed.

(* ---- tear-down ---- *)
Definition end_rec (sc : script) (now m : N) (w : world) : world * erec :=
  let s := at_sim_end (nmods sc) (cfg sc m) now m {| x_w := activate now m w; x_log := [] |} in
  (deactivate m (x_w s), {| e_kind := KEnd m; e_time := now; e_items := x_log s |}).

Fixpoint end_seq (sc : script) (now : N) (ms : list N) (w : world) : world * list erec :=
  match ms with
  | [] => (w, [])
  | m :: r => let '(w2, es) := end_seq sc now r (fst (end_rec sc now m w)) in (w2, snd (end_rec sc now m w) :: es)
  end.

Lemma end_one_eq sc now m w tr :
  end_one sc now m (w, tr) = (fst (end_rec sc now m w), tr ++ [snd (end_rec sc now m w)]).
Proof. reflexivity. Qed.

Lemma sim_end_eq sc now : forall ms w tr,
  fold_left (fun acc m => end_one sc now m acc) ms (w, tr) =
  (fst (end_seq sc now ms w), tr ++ snd (end_seq sc now ms w)).
Proof.
  induction ms as [|m ms IH]; intros w tr; cbn [fold_left end_seq fst snd]; [rewrite app_nil_r; reflexivity|].
  rewrite end_one_eq, IH.
  destruct (end_seq sc now ms (fst (end_rec sc now m w))) as [w2 es]. cbn [fst snd].
  rewrite <- app_assoc. reflexivity.
Qed.

(* ---- the whole run ---- *)
Definition boot_trace (sc : script) : list erec :=
  snd (sim_start sc (init_world sc)) ++ [boot_rec sc (fst (sim_start sc (init_world sc)))].

Lemma boot_gen sc : Gen sc (fst (sim_start sc (init_world sc))) (boot_trace sc).
Proof. eapply G1; [apply sim_start_gen|apply S_boot]. Qed.

Theorem run_decomp sc :
  exists w tr, Gen sc w tr /\
    ((r_ok (run_script sc) = true /\ fes_fetch (w_fes w) = None /\
      exists now, trace sc = tr ++ snd (end_seq sc now (mods sc) w) /\
                  r_err (run_script sc) = w_err (fst (end_seq sc now (mods sc) w))) \/
     (r_ok (run_script sc) = false /\ trace sc = tr /\ r_err (run_script sc) = w_err w)).
Proof.
  unfold trace, run_script.
  pose proof (boot_gen sc) as HG. unfold boot_trace, boot_rec in HG.
  destruct (sim_start sc (init_world sc)) as [w0 tr0]. cbn [fst snd] in HG.
  rewrite iter_until_nat.
  pose proof (iter_gen sc (Pos.to_nat (fuel sc)) w0 0 _ HG) as H.
  destruct (iter_nat (Pos.to_nat (fuel sc)) (loop_step sc) _) as [[[w n] tr]|[[w n] tr]].
  - exists w, tr. split; [exact H|]. right. cbn [r_ok r_trace r_err]. auto.
  - destruct H as [H E]. exists w, tr. split; [exact H|]. left.
    unfold sim_end. rewrite sim_end_eq. cbn [app]. cbn [r_ok r_trace r_err]. split; [reflexivity|].
    split; [exact E|]. exists n. auto.
Qed.

(* tear-down records: one per module, in order, each produced from the world the previous ones left *)
Lemma end_seq_split sc now : forall ms w pre e post, snd (end_seq sc now ms w) = pre ++ e :: post ->
  exists ms1 m ms2, ms = ms1 ++ m :: ms2 /\ pre = snd (end_seq sc now ms1 w) /\
    e = snd (end_rec sc now m (fst (end_seq sc now ms1 w))).
Proof.
  induction ms as [|m ms IH]; intros w pre e post E; cbn [end_seq] in E.
  - cbn [snd] in E. destruct pre; discriminate.
  - destruct (end_seq sc now ms (fst (end_rec sc now m w))) as [w2 es] eqn:Es. cbn [snd] in E.
    destruct pre as [|p pre]; cbn [app] in E.
    + injection E as <- _. exists [], m, ms. auto.
    + injection E as <- E. assert (E' : snd (end_seq sc now ms (fst (end_rec sc now m w))) = pre ++ e :: post) by (rewrite Es; exact E).
      destruct (IH _ _ _ _ E') as (ms1 & m1 & ms2 & -> & -> & ->).
      exists (m :: ms1), m1, ms2. cbn [end_seq app].
      destruct (end_seq sc now ms1 (fst (end_rec sc now m w))) as [w3 es3]. cbn [fst snd]. auto.
Qed.

Lemma end_rec_oth sc now m w i : i <> m -> w_mod (fst (end_rec sc now m w)) i = w_mod w i.
Proof.
  intros Hi. unfold end_rec. cbn [fst].
  destruct (at_sim_end_ok (nmods sc) (cfg sc m) now m {| x_w := activate now m w; x_log := [] |}) as [[F _ _ _ _ _] _].
  rewrite deactivate_oth, F by exact Hi. cbn [x_w]. apply activate_oth, Hi.
Qed.

Lemma end_seq_oth sc now i : forall ms w, ~ In i ms -> w_mod (fst (end_seq sc now ms w)) i = w_mod w i.
Proof.
  induction ms as [|m ms IH]; intros w Hi; cbn [end_seq]; [reflexivity|].
  destruct (end_seq sc now ms (fst (end_rec sc now m w))) as [w2 es] eqn:Es. cbn [fst].
  change w2 with (fst (w2, es)). rewrite <- Es, IH by (intros C; apply Hi; right; exact C).
  apply end_rec_oth. intros ->. apply Hi. left. reflexivity.
Qed.

Lemma end_rec_own sc now m w : Own m (e_items (snd (end_rec sc now m w))).
Proof.
  unfold end_rec. cbn [snd e_items].
  destruct (at_sim_end_ok (nmods sc) (cfg sc m) now m {| x_w := activate now m w; x_log := [] |}) as [_ (l & Hl & Ol)].
  cbn [x_log app] in Hl. rewrite Hl. apply Usr_Own, Ol.
Qed.


(* every record of the trace is either produced by a step from a generated world, or it is the
   tear-down record of a module m, produced from the world the earlier tear-downs left *)
Theorem trace_cases sc pre e post : trace sc = pre ++ e :: post ->
  (exists w1 w2, Gen sc w1 pre /\ step sc w1 e w2) \/
  (exists w tr now ms1 m ms2, Gen sc w tr /\ fes_fetch (w_fes w) = None /\ mods sc = ms1 ++ m :: ms2 /\
     pre = tr ++ snd (end_seq sc now ms1 w) /\ e = snd (end_rec sc now m (fst (end_seq sc now ms1 w)))).
Proof.
  intros E. destruct (run_decomp sc) as (w & tr & HG & [(_ & Hf & now & Et & _)|(_ & Et & _)]).
  - rewrite Et in E. destruct (app_split_mid _ _ _ _ _ E) as [(post' & Etr)|(pre' & -> & Eend)].
    + left. eapply gen_split; eauto.
    + right. destruct (end_seq_split sc now (mods sc) w pre' e post Eend) as (ms1 & m1 & ms2 & Ems & Epre & Ee).
      exists w, tr, now, ms1, m1, ms2. subst. auto.
  - left. rewrite Et in E. eapply gen_split; eauto.
Qed.

Lemma end_seq_mod sc now ms1 m ms2 w : mods sc = ms1 ++ m :: ms2 ->
  w_mod (fst (end_seq sc now ms1 w)) m = w_mod w m.
Proof.
  intros Ems. apply end_seq_oth. pose proof (mods_nodup sc) as Hnd. rewrite Ems in Hnd.
  apply NoDup_remove_2 in Hnd. intros C. apply Hnd. apply in_or_app. left. exact C.
Qed.
