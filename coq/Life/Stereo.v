(* The stereotype in force.  Every panic record [IPanic m who c] carries the module's
   on_panic_catch flag at the moment of the panic (that is the flag Harness::catch reads, see
   Panic.v).  Here: that flag is the one of the last [ISetCatch m _ b] record of the module before
   the panic, or the configured one if there is none -- set_stereotyp takes effect at once, in the
   very callback that panics as well, and survives shutdown / restart. *)
From Coq Require Import List NArith Bool Lia.
From DesVerif Require Import Common.Fuel Life.Model Life.Base Life.Step Life.Trace Life.Events.
Import ListNotations.
Open Scope N_scope.

Definition sc1 (m : N) (b : bool) (i : item) : bool :=
  match i with ISetCatch m' _ x => if m' =? m then x else b | _ => b end.
Definition force (m : N) (b : bool) (l : list item) : bool := fold_left (sc1 m) l b.

Fixpoint pan_ok (m : N) (b : bool) (l : list item) : Prop :=
  match l with
  | [] => True
  | i :: r => match i with IPanic m' _ c => m' = m -> c = b | _ => True end /\ pan_ok m (sc1 m b i) r
  end.

Lemma force_app m b x y : force m b (x ++ y) = force m (force m b x) y.
Proof. apply fold_left_app. Qed.

Lemma pan_ok_app m : forall x b y, pan_ok m b (x ++ y) <-> pan_ok m b x /\ pan_ok m (force m b x) y.
Proof.
  induction x as [|i x IH]; intros b y; cbn [app pan_ok force fold_left]; [tauto|].
  fold (force m (sc1 m b i) x). rewrite IH. tauto.
Qed.

(* records that neither set m's stereotype nor report a panic of m *)
Definition neutral (m : N) (i : item) : Prop :=
  match i with IPanic m' _ _ | ISetCatch m' _ _ => m' <> m | _ => True end.

Lemma neutral_ok m : forall l b, Forall (neutral m) l -> force m b l = b /\ pan_ok m b l.
Proof.
  induction l as [|i l IH]; intros b H; cbn [force fold_left pan_ok]; [auto|].
  inversion H as [|x y Hi Hl]; subst. fold (force m (sc1 m b i) l).
  assert (E : sc1 m b i = b).
  { destruct i; cbn [sc1 neutral] in *; try reflexivity. apply N.eqb_neq in Hi. rewrite Hi. reflexivity. }
  rewrite E. destruct (IH b Hl) as [A B]. split; [exact A|split; [|exact B]].
  destruct i; cbn [neutral] in *; auto. intros ->. contradiction.
Qed.

Lemma Own_neutral i m l : i <> m -> Own i l -> Forall (neutral m) l.
Proof.
  intros Hi. apply Forall_impl. intros it H. destruct it; cbn [neutral item_mod] in *; auto; injection H as ->; exact Hi.
Qed.

(* ---- one step of the world: the records it writes, judged from the flags before it ---- *)
Definition WStep (w : world) (l : list item) (w' : world) : Prop :=
  forall m, pan_ok m (catchf (w_mod w m)) l /\ catchf (w_mod w' m) = force m (catchf (w_mod w m)) l.

(* ---- inside a callback of module i ---- *)
Definition SI (i : N) (s s' : xs) : Prop :=
  exists l, x_log s' = x_log s ++ l /\ pan_ok i (catchf (w_mod (x_w s) i)) l /\
            catchf (w_mod (x_w s') i) = force i (catchf (w_mod (x_w s) i)) l.

Lemma SI_same i s s' : x_log s' = x_log s -> catchf (w_mod (x_w s') i) = catchf (w_mod (x_w s) i) -> SI i s s'.
Proof. intros A B. exists []. rewrite app_nil_r. cbn [pan_ok force fold_left]. auto. Qed.

Lemma SI_refl i s : SI i s s.
Proof. apply SI_same; reflexivity. Qed.

Lemma SI_trans i s1 s2 s3 : SI i s1 s2 -> SI i s2 s3 -> SI i s1 s3.
Proof.
  intros (a & A1 & A2 & A3) (b & B1 & B2 & B3). exists (a ++ b). rewrite B1, A1, app_assoc. split; [reflexivity|].
  rewrite pan_ok_app, force_app, <- A3. auto.
Qed.

Lemma SI_say i it s : neutral i it -> SI i s (say it s).
Proof.
  intros H. exists [it]. split; [reflexivity|]. destruct (neutral_ok i [it] (catchf (w_mod (x_w s) i))) as [A B]; [auto|].
  cbn [say x_w]. auto.
Qed.

Lemma SI_on_w i f s : catchf (w_mod (f (x_w s)) i) = catchf (w_mod (x_w s) i) -> SI i s (on_w f s).
Proof. intros H. apply SI_same; [reflexivity|exact H]. Qed.

Ltac cf := cbv beta; repeat (unfold spend, request, buf_schedule_at, buf_push; wsimpl; rewrite ?N.eqb_refl); try reflexivity.

Lemma buf_send_at_cf k now m far d x w j : catchf (w_mod (buf_send_at k now m far d x w) j) = catchf (w_mod w j).
Proof. unfold buf_send_at. destruct (d =? 0); [destruct (walk k w m far)|]; reflexivity. Qed.

Lemma do_act_SI k now i who a s : SI i s (do_act k now i who a s).
Proof.
  destruct a; cbn [do_act]; try apply SI_refl; try (destruct (broke i s); [apply SI_refl|]).
  - apply SI_say. exact I.
  - eapply SI_trans; [apply SI_on_w|apply SI_say; exact I]. cbv beta. rewrite buf_send_at_cf. cf.
  - eapply SI_trans; [apply SI_on_w|apply SI_say; exact I]. cf.
  - eapply SI_trans; [apply SI_on_w|apply SI_say; exact I]. cf.
  - eapply SI_trans; [apply SI_on_w|apply SI_say; exact I]. cf.
  - exists [ISetCatch i who b]. split; [reflexivity|]. cbn [pan_ok force fold_left sc1 say on_w x_w]. rewrite N.eqb_refl, mod_same. auto.
Qed.

Lemma quiet_SI i s : SI i s (quiet i s).
Proof.
  unfold quiet. destruct (shut (w_mod (x_w s) i)); [apply SI_say; exact I|].
  eapply SI_trans; [apply SI_on_w|apply SI_say; exact I]. cf.
Qed.

Lemma run_prog_SI tk k now i who : forall p s, SI i s (fst (run_prog tk k now i who p s)).
Proof.
  induction p as [|a p IH]; intros s; cbn [run_prog fst]; [apply SI_refl|].
  destruct a; try (eapply SI_trans; [apply do_act_SI|apply IH]).
  - destruct (tk && (0 <? d)); [apply SI_refl|apply IH].
  - cbn [fst]. exists [IPanic i who (catchf (w_mod (x_w s) i))]. split; [reflexivity|]. cbn [pan_ok force fold_left sc1 say x_w]. auto.
  - destruct tk; [apply IH|apply quiet_SI].
Qed.

Lemma end_task_SI i how s tk : SI i s (end_task i how s tk).
Proof. unfold end_task. eapply SI_trans; [apply SI_on_w|apply SI_say; exact I]. reflexivity. Qed.

Lemma fold_end_task_SI i : forall l s, SI i s (fold_left (end_task i 0) l s).
Proof. induction l as [|t l IH]; intros s; cbn [fold_left]; [apply SI_refl|]. eapply SI_trans; [apply end_task_SI|apply IH]. Qed.

Lemma SI_say_all i l s : Forall (neutral i) l -> SI i s (say_all l s).
Proof.
  intros H. exists l. split; [reflexivity|]. destruct (neutral_ok i l (catchf (w_mod (x_w s) i)) H) as [A B]. cbn [say_all x_w]. auto.
Qed.

Lemma spawn_items_neutral i j n ps : Forall (neutral i) (spawn_items j n ps).
Proof. unfold spawn_items. apply Forall_forall. intros it H. apply in_map_iff in H. destruct H as (ip & <- & _). exact I. Qed.

Lemma poll1_SI k now i s tk : SI i s (poll1 k now i s tk).
Proof.
  unfold poll1.
  match goal with |- context [run_prog true k now i ?who ?p ?s0] =>
    pose proof (run_prog_SI true k now i who p s0) as H; destruct (run_prog true k now i who p s0) as [s1 r] end.
  cbn [fst] in H. assert (H0 : SI i s s1) by (eapply SI_trans; [|exact H]; apply SI_say; exact I).
  destruct r; try exact H0; (eapply SI_trans; [exact H0|]); try apply end_task_SI; apply SI_on_w; cf.
Qed.

Lemma fold_poll1_SI k now i : forall l s, SI i s (fold_left (poll1 k now i) l s).
Proof. induction l as [|t l IH]; intros s; cbn [fold_left]; [apply SI_refl|]. eapply SI_trans; [apply poll1_SI|apply IH]. Qed.

Lemma poll_ready_SI k now i s : SI i s (poll_ready k now i s).
Proof. unfold poll_ready. eapply SI_trans; [apply SI_on_w|apply fold_poll1_SI]. cf. Qed.

Lemma exec_SI k now i c sp p s : SI i s (fst (exec k now i c sp p s)).
Proof.
  unfold exec.
  match goal with |- context [run_prog false k now i 0 p ?s0] =>
    assert (H0 : SI i s s0) by (eapply SI_trans; [|apply SI_say_all, spawn_items_neutral]; eapply SI_trans; [|apply SI_on_w; unfold spawn_all; cf]; apply SI_say; exact I);
    pose proof (run_prog_SI false k now i 0 p s0) as H; destruct (run_prog false k now i 0 p s0) as [s2 r] end.
  cbn [fst] in H. assert (H1 : SI i s s2) by (eapply SI_trans; eauto).
  destruct r; cbn [fst]; try exact H1; eapply SI_trans; try exact H1; try apply poll_ready_SI.
  eapply SI_trans; [apply SI_on_w|apply fold_end_task_SI]. cf.
Qed.

Lemma catch_cf c i p w : catchf (w_mod (fst (catch c i p w)) i) = catchf (w_mod w i).
Proof. unfold catch. destruct p; [|reflexivity]. destruct (catchf (w_mod w i)) eqn:E; cbn [fst]; cf; exact E. Qed.

Lemma at_sim_start_SI k c now i stage s : SI i s (fst (at_sim_start k c now i stage s)).
Proof.
  unfold at_sim_start.
  assert (G : forall sp p, SI i s (fst (let '(s1, pn) := exec k now i (CbStart stage) sp p s in
                                         let '(w2, e) := catch c i pn (x_w s1) in ({| x_w := w2; x_log := x_log s1 |}, e)))).
  { intros sp p. pose proof (exec_SI k now i (CbStart stage) sp p s) as H. destruct (exec k now i (CbStart stage) sp p s) as [s1 pn].
    cbn [fst] in H. pose proof (catch_cf c i pn (x_w s1)) as Hc. destruct (catch c i pn (x_w s1)) as [w2 e]. cbn [fst] in *.
    eapply SI_trans; [exact H|]. apply SI_same; [reflexivity|exact Hc]. }
  destruct (stage =? 0); apply G.
Qed.

Lemma restart_fold_SI k c now i : forall l s b,
  SI i s (fst (fold_left (fun (acc : xs * bool) stage => if snd acc then acc else restart_stage k c now i stage (fst acc)) l (s, b))).
Proof.
  induction l as [|st l IH]; intros s b; cbn [fold_left fst snd]; [apply SI_refl|].
  destruct b; [apply IH|]. unfold restart_stage. eapply SI_trans; [apply at_sim_start_SI|apply IH].
Qed.

Lemma module_restart_SI k c now i s : SI i s (module_restart k c now i s).
Proof. unfold module_restart. eapply SI_trans; [apply SI_on_w|apply restart_fold_SI]. cf. Qed.

Lemma handle_message_SI k c now i x s : SI i s (handle_message k c now i x s).
Proof.
  unfold handle_message. destruct (active (w_mod (x_w s) i)); [|apply SI_refl].
  pose proof (exec_SI k now i (CbMsg x) [] (pick_msg c x) s) as H. destruct (exec k now i (CbMsg x) [] (pick_msg c x) s) as [s1 pn].
  cbn [fst] in H. eapply SI_trans; [exact H|]. apply SI_same; [reflexivity|apply catch_cf].
Qed.

Lemma async_wakeup_SI k now i s : SI i s (async_wakeup k now i s).
Proof. unfold async_wakeup. destruct (active (w_mod (x_w s) i)); [apply poll_ready_SI|apply SI_refl]. Qed.

Lemma at_sim_end_SI k c now i s : SI i s (at_sim_end k c now i s).
Proof.
  unfold at_sim_end. pose proof (exec_SI k now i CbEnd [] (c_end c) s) as H. destruct (exec k now i CbEnd [] (c_end c) s) as [s1 pn].
  cbn [fst] in H. pose proof (catch_cf c i pn (x_w s1)) as Hc. destruct (catch c i pn (x_w s1)) as [w2 e]. cbn [fst] in Hc.
  assert (H2 : SI i s {| x_w := w2; x_log := x_log s1 |}) by (eapply SI_trans; [exact H|apply SI_same; [reflexivity|exact Hc]]).
  destruct e; [exact H2|]. eapply SI_trans; [exact H2|]. eapply SI_trans; [apply poll_ready_SI|apply SI_on_w; reflexivity].
Qed.

(* ---- the runtime around a callback ---- *)
Lemma activate_cf now m w j : catchf (w_mod (activate now m w) j) = catchf (w_mod w j).
Proof.
  unfold activate. destruct (split_due now (timers (w_mod w m))) as [d q]. cbn [w_mod set_cur set_mod].
  destruct (j =? m) eqn:E; [|reflexivity]. apply N.eqb_eq in E. subst j. reflexivity.
Qed.

Lemma deactivate_cf m w j : catchf (w_mod (deactivate m w) j) = catchf (w_mod w j).
Proof.
  unfold deactivate. cbn [w_mod set_cur]. destruct (timers (w_mod w m)) as [|[t tk] r]; [reflexivity|].
  destruct (lt_nw t (nw (w_mod w m))); [|reflexivity]. cbn [w_mod set_fes set_mod].
  destruct (j =? m) eqn:E; [|reflexivity]. apply N.eqb_eq in E. subst j. reflexivity.
Qed.

Lemma buf_process_cf c now m w j : catchf (w_mod (fst (buf_process c now m w)) j) = catchf (w_mod w j).
Proof.
  unfold buf_process, shutdown_part. cbn [w_mod set_buf set_fes].
  destruct (shut (w_mod w m)) as [[t|]|]; cbn [fst]; rewrite ?ifse_mod; cbn [w_mod set_fes set_fin set_mod]; try reflexivity;
    (destruct (j =? m) eqn:E; [|reflexivity]); apply N.eqb_eq in E; subst j; reflexivity.
Qed.

Lemma buf_process_neutral c now m w j : Forall (neutral j) (snd (buf_process c now m w)).
Proof.
  unfold buf_process, shutdown_part. cbn [w_mod set_buf set_fes].
  destruct (shut (w_mod w m)) as [r|]; cbn [snd]; [|constructor].
  apply Forall_app. split; [|unfold rpanic; destruct (c_rsend c); repeat constructor]. apply Forall_forall. intros it Hin.
  destruct (cancelled_in _ _ _ _ Hin) as [(id & ->)|(id & ->)]; exact I.
Qed.

Lemma around_WStep sc now i f w : CbOK i f -> (forall s, SI i s (f s)) -> WStep w (snd (around sc now i f w)) (fst (around sc now i f w)).
Proof.
  intros Hok Hsi m. destruct (N.eq_dec m i) as [->|Hm].
  - unfold around. destruct (Hsi {| x_w := activate now i w; x_log := [] |}) as (l & Hl & Hp & Hc).
    set (s := f {| x_w := activate now i w; x_log := [] |}) in *. cbn [x_w x_log app] in Hl, Hp, Hc. rewrite activate_cf in Hp, Hc.
    pose proof (buf_process_cf (cfg sc i) now i (deactivate i (x_w s)) i) as Hb.
    pose proof (buf_process_neutral (cfg sc i) now i (deactivate i (x_w s)) i) as Hn.
    destruct (buf_process (cfg sc i) now i (deactivate i (x_w s))) as [w' l']. cbn [fst snd] in *.
    destruct (neutral_ok i l' (force i (catchf (w_mod w i)) l) Hn) as [N1 N2].
    rewrite Hl, pan_ok_app, force_app, N1, Hb, deactivate_cf, Hc. auto.
  - rewrite (around_oth sc now i f w m Hok Hm).
    destruct (neutral_ok m _ (catchf (w_mod w m)) (Own_neutral i m _ (fun E => Hm (eq_sym E)) (around_own sc now i f w Hok))) as [A B]. auto.
Qed.

Lemma WStep_nil w w' : (forall m, catchf (w_mod w' m) = catchf (w_mod w m)) -> WStep w [] w'.
Proof. intros H m. cbn [pan_ok force fold_left]. auto. Qed.

Lemma process_WStep sc w t ev : WStep w (snd (process sc w t ev)) (fst (process sc w t ev)).
Proof.
  destruct ev as [m far x|m x|m|m]; cbn [process].
  - cbn [fst snd]. apply WStep_nil. intros j. destruct (walk (nmods sc) w m far); reflexivity.
  - apply around_WStep; [apply handle_message_ok|intros s; apply handle_message_SI].
  - apply around_WStep; [apply async_wakeup_ok|intros s; apply async_wakeup_SI].
  - apply around_WStep; [apply module_restart_ok|intros s; apply module_restart_SI].
Qed.

Lemma WStep_sample w l w' t x : WStep w l w' -> WStep w (l ++ [ISample t x]) w'.
Proof.
  intros H m. destruct (H m) as [A B]. destruct (neutral_ok m [ISample t x] (force m (catchf (w_mod w m)) l)) as [C D]; [repeat constructor|].
  rewrite pan_ok_app, force_app, C. auto.
Qed.

Lemma step_WStep sc w e w' : step sc w e w' -> WStep w (e_items e) w'.
Proof.
  intros [stage m w0 _ _|w0|w0 t ev f _]; cbn [start_rec loop_rec boot_rec fst snd e_items].
  - apply around_WStep; [apply start_cb_ok|intros s; apply at_sim_start_SI].
  - apply (WStep_sample w0 [] w0). apply WStep_nil. reflexivity.
  - apply WStep_sample. exact (process_WStep sc (set_fes w0 f) t ev).
Qed.

(* the world's flags are those in force after the trace so far, and every panic record of the
   trace carries the flag in force when it was written *)
Definition WS (sc : script) (w : world) (tr : list erec) : Prop :=
  forall m, pan_ok m (c_catch (cfg sc m)) (items tr) /\ catchf (w_mod w m) = force m (c_catch (cfg sc m)) (items tr).

Lemma WS_step sc w tr l w' : WS sc w tr -> WStep w l w' -> forall m,
  pan_ok m (c_catch (cfg sc m)) (items tr ++ l) /\ catchf (w_mod w' m) = force m (c_catch (cfg sc m)) (items tr ++ l).
Proof. intros H S m. destruct (H m) as [A B], (S m) as [C D]. rewrite pan_ok_app, force_app, <- B. auto. Qed.

Lemma gen_WS sc : forall w tr, Gen sc w tr -> WS sc w tr.
Proof.
  apply gen_inv.
  - intros m. cbn [items flat_map pan_ok force fold_left]. split; [exact I|]. unfold init_world. cbn [w_mod]. reflexivity.
  - intros w tr e w' _ H S m. rewrite items_snoc. apply (WS_step sc w tr (e_items e) w' H (step_WStep sc w e w' S)).
Qed.

Lemma end_rec_WStep sc now m w : WStep w (e_items (snd (end_rec sc now m w))) (fst (end_rec sc now m w)).
Proof.
  intros j. unfold end_rec. cbn [fst snd e_items]. destruct (N.eq_dec j m) as [->|Hj].
  - destruct (at_sim_end_SI (nmods sc) (cfg sc m) now m {| x_w := activate now m w; x_log := [] |}) as (l & Hl & Hp & Hc).
    cbn [x_w x_log app] in Hl, Hp, Hc. rewrite activate_cf in Hp, Hc. rewrite deactivate_cf, Hl. auto.
  - pose proof (end_rec_oth sc now m w j Hj) as Ho. pose proof (end_rec_own sc now m w) as Hw. unfold end_rec in Ho, Hw. cbn [fst snd e_items] in Ho, Hw.
    rewrite Ho. destruct (neutral_ok j _ (catchf (w_mod w j)) (Own_neutral m j _ (fun E => Hj (eq_sym E)) Hw)) as [A B]. auto.
Qed.

Lemma end_seq_WS sc now : forall ms w tr, WS sc w tr -> forall m,
  pan_ok m (c_catch (cfg sc m)) (items (tr ++ snd (end_seq sc now ms w))).
Proof.
  induction ms as [|m0 ms IH]; intros w tr H m; cbn [end_seq].
  - cbn [snd]. rewrite app_nil_r. apply H.
  - destruct (end_seq sc now ms (fst (end_rec sc now m0 w))) as [w2 es] eqn:Es. cbn [snd].
    change (snd (end_rec sc now m0 w) :: es) with ([snd (end_rec sc now m0 w)] ++ es). rewrite app_assoc.
    replace es with (snd (end_seq sc now ms (fst (end_rec sc now m0 w)))) by (rewrite Es; reflexivity).
    apply IH. intros j. rewrite items_snoc. apply (WS_step sc w tr _ _ H (end_rec_WStep sc now m0 w)).
Qed.

Theorem stereotype_in_force sc m l1 who c l2 :
  items (trace sc) = l1 ++ IPanic m who c :: l2 -> c = force m (c_catch (cfg sc m)) l1.
Proof.
  intros E. assert (H : pan_ok m (c_catch (cfg sc m)) (items (trace sc))).
  { destruct (run_decomp sc) as (w & tr & HG & [(_ & _ & now & Et & _)|(_ & Et & _)]); rewrite Et.
    - apply end_seq_WS, gen_WS, HG.
    - apply (gen_WS sc w tr HG). }
  rewrite E in H. apply pan_ok_app in H. destruct H as [_ H]. cbn [pan_ok] in H. apply H. reflexivity.
Qed.
