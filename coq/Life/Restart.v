(* C09 restart_stages_once_at_time: the event set holds a restart event of module m exactly
   while a restart of m is pending, stamped with the requested time; so every restart event
   happens at exactly the time requested by the shutdown that precedes it, once; and when the
   run completes no restart is left pending.  The start-up stages of a restart run once each,
   in order, at the time of the restart event. *)
From Coq Require Import List NArith Bool Lia PeanoNat.
From DesVerif Require Import Life.Model Life.Base Life.Step Life.Trace Life.Frame Life.Inert Life.Inv Life.Events.
Import ListNotations.
Open Scope N_scope.

(* ---- restart events in the event set ---- *)
Definition is_restart (m : N) (p : N * fev) : bool := match snd p with EvRestart m' => m' =? m | _ => false end.
Definition rtimes (m : N) (l : list (N * fev)) : list N := map fst (filter (is_restart m) l).
Definition restart_times (m : N) (f : fes) : list N := rtimes m (fes_order f).

Lemma rtimes_app m a b : rtimes m (a ++ b) = rtimes m a ++ rtimes m b.
Proof. unfold rtimes. rewrite filter_app, map_app. reflexivity. Qed.

Lemma fes_add_rt_other m t ev f : is_restart m (t, ev) = false -> restart_times m (fes_add t ev f) = restart_times m f.
Proof.
  intros H. unfold restart_times. destruct (fes_add_order t ev f) as (l1 & l2 & -> & ->).
  rewrite !rtimes_app. unfold rtimes at 2. cbn [filter]. rewrite H. reflexivity.
Qed.

Lemma fes_add_rt_self m t f : restart_times m f = [] -> restart_times m (fes_add t (EvRestart m) f) = [t].
Proof.
  unfold restart_times. destruct (fes_add_order t (EvRestart m) f) as (l1 & l2 & -> & ->).
  rewrite !rtimes_app. intros H. apply app_eq_nil in H. destruct H as [H1 H2]. rewrite H1.
  unfold rtimes in *. cbn [filter is_restart snd]. rewrite N.eqb_refl. cbn [map fst app]. rewrite H2. reflexivity.
Qed.

Lemma msg_not_restart m p : msg_ev p -> is_restart m p = false.
Proof. destruct p as [t ev]. unfold msg_ev, is_restart. cbn [snd]. destruct ev; try reflexivity; intros []. Qed.

Lemma fes_flush_rt m : forall ps f, Forall msg_ev ps -> restart_times m (fes_flush ps f) = restart_times m f.
Proof.
  induction ps as [|p ps IH]; intros f H; cbn [fes_flush fold_left]; [reflexivity|].
  inversion H; subst. fold (fes_flush ps (fes_add (fst p) (snd p) f)). rewrite IH by assumption.
  apply fes_add_rt_other. destruct p. apply msg_not_restart. assumption.
Qed.

Lemma fes_fetch_order f t ev f' : fes_fetch f = Some (t, ev, f') -> fes_order f = (t, ev) :: fes_order f'.
Proof.
  unfold fes_fetch, fes_order. destruct (f_zero f) as [|x z] eqn:Ez.
  - destruct (f_rest f) as [|x r] eqn:Er; [discriminate|]. intros H. injection H as <- <-. destruct x. reflexivity.
  - intros H. injection H as <- <-. destruct x. cbn [f_zero f_rest]. reflexivity.
Qed.

Lemma deactivate_rt m i w : restart_times i (w_fes (deactivate m w)) = restart_times i (w_fes w).
Proof.
  unfold deactivate. destruct (timers (w_mod w m)) as [|[t tk] r]; [reflexivity|].
  destruct (lt_nw t (nw (w_mod w m))); [|reflexivity]. cbn [w_fes set_cur set_fes]. apply fes_add_rt_other. reflexivity.
Qed.

(* ---- the request a record consumed, read from its own log ---- *)
Lemma shut_step_sys now acc i : is_sys i = true -> shut_step now acc i = acc.
Proof. destruct i; try discriminate; reflexivity. Qed.

Lemma shut_of_sys_tail now l l' : Forall (fun i => is_sys i = true) l' -> shut_of now (l ++ l') = shut_of now l.
Proof.
  intros H. induction l' as [|i l' IH] using rev_ind; [rewrite app_nil_r; reflexivity|].
  apply Forall_app in H. destruct H as [H1 H2]. inversion H2; subst.
  rewrite app_assoc, shut_of_snoc, IH, shut_step_sys by assumption. reflexivity.
Qed.

Lemma cancelled_sys m c x : Forall (fun i => is_sys i = true) (cancelled m c x).
Proof.
  apply Forall_forall. intros i Hi. destruct (cancelled_in _ _ _ _ Hi) as [(id & ->)|(id & ->)]; reflexivity.
Qed.

Definition req_time (now : N) (l : list item) : option N :=
  match shut_of now l with Some (Some T) => Some T | _ => None end.

(* what one module event does to the restart events of the event set *)
Lemma around_fes sc now m f w : TI m w -> w_buf w = [] -> CbOK m f ->
  (forall s, CInv false now m (inc (w_mod w m)) s -> x_log s = [] -> CInv false now m (inc (w_mod w m)) (f s)) ->
  let w' := fst (around sc now m f w) in let l := snd (around sc now m f w) in
  (forall i, i <> m -> restart_times i (w_fes w') = restart_times i (w_fes w)) /\
  (existsb (is_reset m) l = false -> restart_times m (w_fes w') = restart_times m (w_fes w)) /\
  (existsb (is_reset m) l = true -> restart_times m (w_fes w) = [] ->
     restart_times m (w_fes w') = match req_time now l with Some T => [T] | None => [] end).
Proof.
  intros HT Hb Hok Hf. unfold around.
  pose proof (Hf _ (activate_CInv now m w HT) eq_refl) as HC.
  destruct (Hok {| x_w := activate now m w; x_log := [] |}) as [[_ Ffes _ _ _ (lb & Hlb & Mlb)] (lu & Hlu & Uu)].
  cbn [x_log x_w app] in Hlu, Ffes, Hlb. rewrite activate_buf, Hb in Hlb. cbn [app] in Hlb. rewrite activate_fes in Ffes.
  set (s := f {| x_w := activate now m w; x_log := [] |}) in *.
  pose proof (ci_shut _ _ _ _ _ HC) as Hsh.
  destruct (deactivate_mod m (x_w s)) as (n & Hd).
  unfold buf_process, shutdown_part. cbn [w_mod set_buf set_fes]. rewrite Hd. cbn [shut set_nw].
  assert (Hfl : forall i, restart_times i (fes_flush (w_buf (deactivate m (x_w s))) (w_fes (deactivate m (x_w s)))) = restart_times i (w_fes w)).
  { intros i. rewrite deactivate_buf, Hlb, fes_flush_rt by exact Mlb. rewrite deactivate_rt, Ffes. reflexivity. }
  assert (Hnr : existsb (is_reset m) (x_log s) = false) by (rewrite Hlu; apply (usr_no_reset m m lu Uu)).
  destruct (shut (w_mod (x_w s) m)) as [r|] eqn:Es; cbn [fst snd].
  - assert (Hreq : req_time now (x_log s ++ cancelled m (cfg sc m) (set_nw (w_mod (x_w s) m) n) ++ [IReset m now (inc (w_mod (x_w s) m) + 1)] ++ rpanic (cfg sc m) m) =
                   match r with Some T => Some T | None => None end).
    { unfold req_time. rewrite shut_of_sys_tail, <- Hsh; [destruct r; reflexivity|].
      apply Forall_app. split; [apply cancelled_sys|constructor; [reflexivity|apply rpanic_sys]]. }
    cbn [inc set_nw]. rewrite !ifse_fes. split; [|split].
    + intros i Hi. destruct r as [T|]; cbn [w_fes set_fes set_mod]; [rewrite fes_add_rt_other|]; try apply Hfl.
      unfold is_restart. cbn [snd]. apply N.eqb_neq. auto.
    + intros Hx. rewrite !existsb_app in Hx. cbn [existsb is_reset] in Hx. rewrite N.eqb_refl, !orb_true_r in Hx. discriminate.
    + intros _ Hnil. rewrite Hreq. destruct r as [T|]; cbn [w_fes set_fes set_mod].
      * apply fes_add_rt_self. rewrite Hfl. exact Hnil.
      * rewrite Hfl. exact Hnil.
  - rewrite app_nil_r. cbn [w_fes set_buf set_fes]. split; [intros i _; apply Hfl|]. split; [intros _; apply Hfl|].
    intros Hx. rewrite Hnr in Hx. discriminate.
Qed.

(* ---- the pending restart, read from the trace ---- *)
Definition pend_step (m : N) (p : option N) (e : erec) : option N :=
  if resets m e then req_time (e_time e) (e_items e) else if starts m e then None else p.
Definition pending (m : N) (tr : list erec) : option N := fold_left (pend_step m) tr None.

Lemma pending_snoc m tr e : pending m (tr ++ [e]) = pend_step m (pending m tr) e.
Proof. unfold pending. rewrite fold_left_app. reflexivity. Qed.

Lemma pending_down m : forall tr, pending m tr <> None -> down_after m tr = true.
Proof.
  induction tr as [|e tr IH] using rev_ind; [intros H; exfalso; apply H; reflexivity|].
  rewrite pending_snoc, down_after_snoc. unfold pend_step, down_step.
  destruct (resets m e); [reflexivity|]. destruct (starts m e); [intros H; exfalso; apply H; reflexivity|exact IH].
Qed.

Lemma pending_resets m : forall tr, pending m tr <> None -> (0 < count_resets m (items tr))%nat.
Proof.
  induction tr as [|e tr IH] using rev_ind; [intros H; exfalso; apply H; reflexivity|].
  rewrite pending_snoc, items_snoc, count_resets_app. unfold pend_step.
  destruct (resets m e) eqn:Er.
  - intros _. unfold resets in Er. apply existsb_exists in Er. destruct Er as (i & Hi & Hr).
    assert (0 < count_resets m (e_items e))%nat; [|lia].
    unfold count_resets. apply in_split in Hi. destruct Hi as (l1 & l2 & ->). rewrite filter_app, app_length. cbn [filter]. rewrite Hr. cbn [length]. lia.
  - destruct (starts m e); [intros H; exfalso; apply H; reflexivity|]. intros H. specialize (IH H). lia.
Qed.

Definition RI (w : world) (tr : list erec) : Prop :=
  forall m, restart_times m (w_fes w) = match pending m tr with Some T => [T] | None => [] end.

Lemma req_time_sample now l t k : req_time now (l ++ [ISample t k]) = req_time now l.
Proof. unfold req_time. rewrite shut_of_sys_tail; [reflexivity|constructor; [reflexivity|constructor]]. Qed.

Lemma resets_sample m knd tm l t k :
  resets m {| e_kind := knd; e_time := tm; e_items := l ++ [ISample t k] |} = existsb (is_reset m) l.
Proof. unfold resets. cbn [e_items]. rewrite existsb_app. cbn [existsb is_reset]. rewrite !orb_false_r. reflexivity. Qed.

(* a start-up stage other than 0 on a module that is down writes a single call record *)
Lemma start_down_items sc stage m w : stage <> 0 -> Down m w ->
  snd (around sc 0 m (start_cb sc stage m) w) = [ICall m (CbStart stage) 0 false].
Proof.
  intros Hs0 Hd. destruct (around_down sc 0 m (start_cb sc stage m) w Hd) as [_ ->].
  { intros s Hs. apply (start_cb_down sc stage m s Hs0 Hs). }
  destruct (start_cb_down sc stage m {| x_w := activate 0 m w; x_log := [] |} Hs0) as [_ ->];
    [cbn [x_w]; apply activate_down, Hd|]. reflexivity.
Qed.

(* one module event, all modules' bookkeeping at once.  [st]: the record starts m1;
   [p1]: the restart of m1 still pending in the event set the callbacks start from *)
Lemma mod_event_RI sc w_in tr now m1 f knd smp (st : bool) (p1 : option N) :
  let l := snd (around sc now m1 f w_in) in
  let e := {| e_kind := knd; e_time := now; e_items := l ++ smp |} in
  TI m1 w_in -> w_buf w_in = [] -> CbOK m1 f ->
  (forall s, CInv false now m1 (inc (w_mod w_in m1)) s -> x_log s = [] -> CInv false now m1 (inc (w_mod w_in m1)) (f s)) ->
  Forall (fun i => is_sys i = true /\ item_mod i = None) smp ->
  (forall m, starts m e = if m =? m1 then st else false) ->
  (forall m, m <> m1 -> restart_times m (w_fes w_in) = match pending m tr with Some T => [T] | None => [] end) ->
  restart_times m1 (w_fes w_in) = match p1 with Some T => [T] | None => [] end ->
  (st = true -> p1 = None) -> (st = false -> p1 = pending m1 tr) ->
  (p1 <> None -> existsb (is_reset m1) l = false) ->
  RI (fst (around sc now m1 f w_in)) (tr ++ [e]).
Proof.
  intros l e HT Hb Hok Hf Hsmp Hst Hoth H1 Hst1 Hst0 Hnr m.
  destruct (around_fes sc now m1 f w_in HT Hb Hok Hf) as (A1 & A2 & A3). fold l in A2, A3.
  pose proof (around_own sc now m1 f w_in Hok) as Ho. fold l in Ho.
  assert (Hsmp_r : forall i, existsb (is_reset i) smp = false).
  { intros i. apply not_true_is_false. intros H. apply existsb_exists in H. destruct H as (x & Hx & Hr).
    rewrite Forall_forall in Hsmp. destruct (Hsmp x Hx) as [_ Hm]. destruct x; discriminate. }
  assert (Hres : forall i, resets i e = existsb (is_reset i) l).
  { intros i. unfold resets. cbn [e_items e]. rewrite existsb_app, Hsmp_r, orb_false_r. reflexivity. }
  assert (Hreq : req_time (e_time e) (e_items e) = req_time now l).
  { cbn [e_time e_items e]. unfold req_time. rewrite shut_of_sys_tail; [reflexivity|].
    eapply Forall_impl; [|exact Hsmp]. intros i [H _]. exact H. }
  rewrite pending_snoc. unfold pend_step. rewrite Hres, Hst, Hreq.
  destruct (N.eq_dec m m1) as [->|Hn].
  - rewrite N.eqb_refl. destruct (existsb (is_reset m1) l) eqn:Er.
    + assert (Hp1 : p1 = None) by (destruct p1; [specialize (Hnr ltac:(discriminate)); congruence|reflexivity]).
      rewrite Hp1 in H1. apply A3; [reflexivity|exact H1].
    + rewrite (A2 eq_refl), H1. destruct st; [rewrite (Hst1 eq_refl); reflexivity|rewrite (Hst0 eq_refl); reflexivity].
  - apply N.eqb_neq in Hn as Hn'. rewrite Hn', (own_no_reset m1 m l Ho) by auto.
    rewrite (A1 m Hn). apply Hoth, Hn.
Qed.

Lemma step_RI sc w tr e w' : Gen sc w tr -> RI w tr -> step sc w e w' ->
  RI w' (tr ++ [e]) /\ (forall m, e_kind e = KLoop (EvRestart m) -> pending m tr = Some (e_time e)).
Proof.
  intros HG HR Hs.
  pose proof (gen_WI sc w tr HG) as HW. destruct (globals_released_gen sc w tr HG) as [_ Hbuf].
  assert (Hdown : forall m, pending m tr <> None -> Down m w) by (intros m H; apply (gen_down sc m w tr HG), pending_down, H).
  destruct Hs as [stage m1 w Hfresh Hactive|w|w t ev f Hf].
  - (* start-up stage *)
    split; [|discriminate]. unfold start_rec. cbn [fst snd].
    assert (Hcb : forall s, CInv false 0 m1 (inc (w_mod w m1)) s -> x_log s = [] -> CInv false 0 m1 (inc (w_mod w m1)) (start_cb sc stage m1 s))
      by (intros s Hc _; apply at_sim_start_CInv, Hc).
    pose proof (mod_event_RI sc w tr 0 m1 (start_cb sc stage m1) (KStart stage m1) [] (stage =? 0)
                  (if stage =? 0 then None else pending m1 tr)) as L.
    cbn zeta in L. rewrite app_nil_r in L. apply L; clear L; try (apply HW); try assumption; try apply start_cb_ok.
    + constructor.
    + intros m. unfold starts. cbn [e_kind]. rewrite (N.eqb_sym m1 m). destruct (m =? m1); [rewrite andb_true_r|rewrite andb_false_r]; reflexivity.
    + intros m _. apply HR.
    + rewrite HR. destruct (stage =? 0) eqn:E0; [|reflexivity].
      apply N.eqb_eq in E0. destruct (pending m1 tr) eqn:Ep; [|reflexivity].
      exfalso. pose proof (pending_resets m1 tr) as Hc. rewrite Ep in Hc. specialize (Hc ltac:(discriminate)).
      destruct (HW m1) as [_ Hi]. rewrite (Hfresh E0) in Hi. cbn [inc mst0] in Hi. lia.
    + intros ->. reflexivity.
    + intros ->. reflexivity.
    + destruct (stage =? 0) eqn:E0; [intros H; exfalso; apply H; reflexivity|]. intros Hp.
      apply N.eqb_neq in E0. rewrite (start_down_items sc stage m1 w E0 (Hdown m1 Hp)). reflexivity.
  - (* boot *)
    split; [|discriminate]. intros m. rewrite pending_snoc. unfold pend_step, resets, starts. cbn. apply HR.
  - (* dispatched event *)
    unfold loop_rec. cbn [fst snd e_kind e_time].
    pose proof (fes_fetch_order _ _ _ _ Hf) as Ho.
    assert (Hrt : forall m, restart_times m (w_fes w) = (if is_restart m (t, ev) then [t] else []) ++ restart_times m f).
    { intros m. unfold restart_times. rewrite Ho. unfold rtimes. cbn [filter]. destruct (is_restart m (t, ev)); reflexivity. }
    assert (HWin : WI (set_fes w f) tr) by exact HW.
    assert (Hsmp : forall k, Forall (fun i => is_sys i = true /\ item_mod i = None) [ISample t k])
      by (intros k; constructor; [split; reflexivity|constructor]).
    destruct ev as [m1 far x|m1 x|m1|m1]; unfold process.
    + (* a message leaving a connection *)
      split; [|discriminate]. cbn [fst snd app]. intros m. rewrite pending_snoc. unfold pend_step, resets, starts. cbn [e_items e_kind existsb is_reset orb].
      rewrite <- HR, Hrt. cbn [is_restart snd app].
      destruct (walk (nmods sc) (set_fes w f) m1 far); cbn [w_fes set_fes]; [apply fes_add_rt_other|]; reflexivity.
    + (* a message for m1 *)
      split; [|discriminate].
      pose proof (mod_event_RI sc (set_fes w f) tr t m1 (handle_message (nmods sc) (cfg sc m1) t m1 x) (KLoop (EvDeliver m1 x))
                    [ISample t (mask sc (fst (around sc t m1 (handle_message (nmods sc) (cfg sc m1) t m1 x) (set_fes w f))))]
                    false (pending m1 tr)) as L.
      cbn zeta in L. apply L; clear L; try (apply HWin); try assumption; try apply handle_message_ok; try apply Hsmp.
      * intros s Hc Hl. apply (handle_message_CInv (nmods sc) (cfg sc m1) t m1 x _ s Hc Hl).
      * intros m. unfold starts. cbn [e_kind]. destruct (m =? m1); reflexivity.
      * intros m _. cbn [w_fes set_fes]. rewrite <- HR, Hrt. reflexivity.
      * cbn [w_fes set_fes]. rewrite <- HR, Hrt. reflexivity.
      * discriminate.
      * reflexivity.
      * intros Hp. pose proof (Hdown m1 Hp) as Hd.
        assert (Hd' : Down m1 (set_fes w f)) by (eapply Down_ext; [|exact Hd]; reflexivity).
        destruct (around_down sc t m1 (handle_message (nmods sc) (cfg sc m1) t m1 x) (set_fes w f) Hd') as [_ ->].
        { intros s Hs. rewrite handle_message_down; assumption. }
        rewrite handle_message_down by (cbn [x_w]; apply activate_down, Hd'). reflexivity.
    + (* a wake-up of m1 *)
      split; [|discriminate].
      pose proof (mod_event_RI sc (set_fes w f) tr t m1 (async_wakeup (nmods sc) t m1) (KLoop (EvWake m1))
                    [ISample t (mask sc (fst (around sc t m1 (async_wakeup (nmods sc) t m1) (set_fes w f))))]
                    false (pending m1 tr)) as L.
      cbn zeta in L. apply L; clear L; try (apply HWin); try assumption; try apply async_wakeup_ok; try apply Hsmp.
      * intros s Hc Hl. apply (async_wakeup_CInv (nmods sc) t m1 _ s Hc Hl).
      * intros m. unfold starts. cbn [e_kind]. destruct (m =? m1); reflexivity.
      * intros m _. cbn [w_fes set_fes]. rewrite <- HR, Hrt. reflexivity.
      * cbn [w_fes set_fes]. rewrite <- HR, Hrt. reflexivity.
      * discriminate.
      * reflexivity.
      * intros Hp. pose proof (Hdown m1 Hp) as Hd.
        assert (Hd' : Down m1 (set_fes w f)) by (eapply Down_ext; [|exact Hd]; reflexivity).
        destruct (around_down sc t m1 (async_wakeup (nmods sc) t m1) (set_fes w f) Hd') as [_ ->].
        { intros s Hs. rewrite async_wakeup_down; assumption. }
        rewrite async_wakeup_down by (cbn [x_w]; apply activate_down, Hd'). reflexivity.
    + (* the restart of m1 *)
      assert (Hp : pending m1 tr = Some t /\ restart_times m1 f = []).
      { pose proof (HR m1) as H. rewrite Hrt in H. cbn [is_restart snd] in H. rewrite N.eqb_refl in H. cbn [app] in H.
        destruct (pending m1 tr) as [T|]; [|discriminate]. injection H as -> H. auto. }
      destruct Hp as [Hp Hrf]. split; [|intros m E; injection E as <-; exact Hp].
      pose proof (mod_event_RI sc (set_fes w f) tr t m1 (module_restart (nmods sc) (cfg sc m1) t m1) (KLoop (EvRestart m1))
                    [ISample t (mask sc (fst (around sc t m1 (module_restart (nmods sc) (cfg sc m1) t m1) (set_fes w f))))]
                    true None) as L.
      cbn zeta in L. apply L; clear L; try (apply HWin); try assumption; try apply module_restart_ok; try apply Hsmp.
      * intros s Hc Hl. apply (module_restart_CInv (nmods sc) (cfg sc m1) t m1 _ s Hc Hl).
      * intros m. unfold starts. cbn [e_kind]. rewrite (N.eqb_sym m1 m). destruct (m =? m1); reflexivity.
      * intros m Hn. cbn [w_fes set_fes]. rewrite <- HR, Hrt. cbn [is_restart snd].
        apply N.eqb_neq in Hn. rewrite N.eqb_sym, Hn. reflexivity.
      * reflexivity.
      * discriminate.
      * intros H. exfalso. apply H. reflexivity.
Qed.

Lemma gen_RI sc : forall w tr, Gen sc w tr -> RI w tr.
Proof.
  intros w tr HG. induction HG as [|w tr e w' HG IH Hs].
  - intros m. unfold restart_times, init_world. cbn [w_fes pending fold_left].
    assert (G : forall l f, restart_times m f = [] -> restart_times m (fes_flush (map (fun p => (fst p, inj_ev (snd p))) l) f) = []).
    { induction l as [|p l IHl]; intros f H; cbn [map fes_flush fold_left]; [exact H|]. apply IHl.
      rewrite fes_add_rt_other; [exact H|]. unfold is_restart. cbn [fst snd]. destruct (snd p); reflexivity. }
    apply G. reflexivity.
  - apply (step_RI sc w tr e w' HG IH Hs).
Qed.

(* ---- C09 restart_stages_once_at_time, part 1: when ---- *)
(* [pending m pre]: the restart time named by the last shutdown request of m that was consumed
   (the request is read from the log of the record that reset m), None once m was (re)started. *)
Theorem restart_at_requested_time sc pre e post m :
  trace sc = pre ++ e :: post -> e_kind e = KLoop (EvRestart m) -> pending m pre = Some (e_time e).
Proof.
  intros E Hk. destruct (trace_cases sc pre e post E) as [(w1 & w2 & HG & Hs)|(w & tr & now & ms1 & m1 & ms2 & _ & _ & _ & _ & ->)].
  - apply (proj2 (step_RI sc w1 pre e w2 HG (gen_RI sc w1 pre HG) Hs) m Hk).
  - discriminate.
Qed.

Lemma end_seq_pending sc now m : forall ms w p, fold_left (pend_step m) (snd (end_seq sc now ms w)) p = p.
Proof.
  induction ms as [|m1 ms IH]; intros w p; cbn [end_seq]; [reflexivity|].
  destruct (end_seq sc now ms (fst (end_rec sc now m1 w))) as [w2 es] eqn:Es. cbn [snd fold_left].
  replace es with (snd (end_seq sc now ms (fst (end_rec sc now m1 w)))) by (rewrite Es; reflexivity). rewrite IH.
  unfold pend_step.
  assert (Hr : resets m (snd (end_rec sc now m1 w)) = false).
  { unfold resets. destruct (at_sim_end_ok (nmods sc) (cfg sc m1) now m1 {| x_w := activate now m1 w; x_log := [] |}) as [_ (l & Hl & Ul)].
    unfold end_rec. cbn [snd e_items]. cbn [x_log app] in Hl. rewrite Hl. apply (usr_no_reset m1 m l Ul). }
  rewrite Hr. reflexivity.
Qed.

(* every requested restart is executed: when the run completes, none is left pending *)
Theorem no_restart_left_pending sc m : r_ok (run_script sc) = true -> pending m (trace sc) = None.
Proof.
  intros Hok. destruct (run_decomp sc) as (w & tr & HG & [(_ & Hf & now & Et & _)|(Hno & _)]); [|congruence].
  rewrite Et. unfold pending. rewrite fold_left_app, end_seq_pending. fold (pending m tr).
  pose proof (gen_RI sc w tr HG m) as H. unfold restart_times, fes_order in H.
  unfold fes_fetch in Hf. destruct (f_zero (w_fes w)); [|discriminate]. destruct (f_rest (w_fes w)); [|discriminate].
  cbn in H. destruct (pending m tr); [discriminate|reflexivity].
Qed.

(* ---- part 2: the start-up stages of a restart ---- *)
Definition is_start_call (i : item) : bool := match i with ICall _ (CbStart _) _ _ => true | _ => false end.
Definition start_calls (l : list item) : list item := filter is_start_call l.

Lemma start_calls_app a b : start_calls (a ++ b) = start_calls a ++ start_calls b.
Proof. apply filter_app. Qed.

Definition NoStart (s s' : xs) : Prop := start_calls (x_log s') = start_calls (x_log s).

Lemma NoStart_trans s1 s2 s3 : NoStart s1 s2 -> NoStart s2 s3 -> NoStart s1 s3.
Proof. unfold NoStart. congruence. Qed.

Lemma NoStart_say i s : is_start_call i = false -> NoStart s (say i s).
Proof. intros H. unfold NoStart. cbn [say x_log]. rewrite start_calls_app. unfold start_calls at 2. cbn [filter]. rewrite H, app_nil_r. reflexivity. Qed.

Lemma do_act_NoStart k now m who a s : NoStart s (do_act k now m who a s).
Proof.
  destruct a; cbn [do_act]; try reflexivity; try (destruct (broke m s); [reflexivity|]);
    (eapply NoStart_trans; [|apply NoStart_say; reflexivity]); reflexivity.
Qed.

Lemma run_prog_NoStart tk k now m who : forall p s, NoStart s (fst (run_prog tk k now m who p s)).
Proof.
  induction p as [|a p IH]; intros s; cbn [run_prog fst]; [reflexivity|].
  destruct a; try (eapply NoStart_trans; [apply (do_act_NoStart k now m who)|apply IH]).
  - destruct (tk && (0 <? d)); cbn [fst]; [reflexivity|apply IH].
  - cbn [fst]. apply NoStart_say. reflexivity.
  - destruct tk; cbn [fst]; [apply IH|]. unfold quiet.
    destruct (shut (w_mod (x_w s) m)); (eapply NoStart_trans; [|apply NoStart_say; reflexivity]); reflexivity.
Qed.

Lemma end_task_NoStart m how s tk : NoStart s (end_task m how s tk).
Proof. unfold end_task. eapply NoStart_trans; [|apply NoStart_say; reflexivity]. reflexivity. Qed.

Lemma fold_end_task_NoStart m : forall l s, NoStart s (fold_left (end_task m 0) l s).
Proof. induction l as [|tk l IH]; intros s; cbn [fold_left]; [reflexivity|]. eapply NoStart_trans; [apply end_task_NoStart|apply IH]. Qed.

Lemma spawn_items_NoStart m i ps : start_calls (spawn_items m i ps) = [].
Proof. unfold spawn_items. induction (combine (seq 0 (length ps)) ps) as [|x l IH]; [reflexivity|exact IH]. Qed.

Lemma poll1_NoStart k now m s tk : NoStart s (poll1 k now m s tk).
Proof.
  unfold poll1.
  match goal with |- context [run_prog true k now m ?who ?p ?s0] =>
    pose proof (run_prog_NoStart true k now m who p s0) as H; destruct (run_prog true k now m who p s0) as [s1 r] end.
  cbn [fst] in H.
  assert (H0 : NoStart s s1) by (eapply NoStart_trans; [|exact H]; apply NoStart_say; destruct (tk_new tk); reflexivity).
  destruct r; try exact H0; (eapply NoStart_trans; [exact H0|apply end_task_NoStart]).
Qed.

Lemma poll_ready_NoStart k now m s : NoStart s (poll_ready k now m s).
Proof.
  unfold poll_ready. generalize (ready (w_mod (x_w s) m)). intros l.
  assert (G : forall l s0, NoStart s0 (fold_left (poll1 k now m) l s0)).
  { clear. induction l as [|tk l IH]; intros s0; cbn [fold_left]; [reflexivity|].
    eapply NoStart_trans; [apply poll1_NoStart|apply IH]. }
  eapply NoStart_trans; [|apply G]. reflexivity.
Qed.

Lemma at_sim_start_calls k c now m stage s :
  exists a, start_calls (x_log (fst (at_sim_start k c now m stage s))) = start_calls (x_log s) ++ [ICall m (CbStart stage) now a].
Proof.
  unfold at_sim_start.
  assert (G : forall sp p, exists a, start_calls (x_log (fst (exec k now m (CbStart stage) sp p s))) =
                                     start_calls (x_log s) ++ [ICall m (CbStart stage) now a]).
  { intros sp p. exists (active (w_mod (x_w s) m)). unfold exec.
    match goal with |- context [run_prog false k now m 0 p ?s0] =>
      pose proof (run_prog_NoStart false k now m 0 p s0) as H; destruct (run_prog false k now m 0 p s0) as [s2 r] end.
    cbn [fst] in H. unfold NoStart in H. cbn [on_w say say_all x_log] in H. rewrite !start_calls_app, spawn_items_NoStart, app_nil_r in H.
    unfold start_calls at 3 in H. cbn [filter is_start_call] in H.
    destruct r; cbn [fst]; try exact H; try (rewrite (poll_ready_NoStart k now m s2); exact H).
    rewrite (fold_end_task_NoStart m). exact H. }
  destruct (stage =? 0).
  - destruct (G (c_spawn c) (pick_start c (inc (w_mod (x_w s) m)))) as (a & Ha). exists a.
    destruct (exec k now m (CbStart stage) _ _ s) as [s1 p]. cbn [fst] in *.
    destruct (catch c m p (x_w s1)) as [w2 e2]. cbn [fst x_log]. exact Ha.
  - destruct (G [] []) as (a & Ha). exists a.
    destruct (exec k now m (CbStart stage) _ _ s) as [s1 p]. cbn [fst] in *.
    destruct (catch c m p (x_w s1)) as [w2 e2]. cbn [fst x_log]. exact Ha.
Qed.

(* the stages that ran: a prefix of 0 .. n-1 (the rest is skipped after a panic that the
   stereotype does not catch), each once, in order, at the time of the event *)
Lemma restart_fold_calls k c now m : forall l s e,
  exists n, map (fun i => match i with ICall m' (CbStart st) t _ => (m', st, t) | _ => (0, 0, 0) end)
                (start_calls (x_log (fst (fold_left (fun (acc : xs * bool) stage => if snd acc then acc else restart_stage k c now m stage (fst acc)) l (s, e))))) =
            map (fun i => match i with ICall m' (CbStart st) t _ => (m', st, t) | _ => (0, 0, 0) end) (start_calls (x_log s)) ++
            map (fun st => (m, st, now)) (firstn n l) /\
            (e = false -> l <> [] -> (0 < n)%nat).
Proof.
  induction l as [|st l IH]; intros s e; cbn [fold_left fst snd].
  - exists 0%nat. cbn. rewrite app_nil_r. split; [reflexivity|]. intros _ H. contradiction.
  - destruct e.
    + destruct (IH s true) as (n & Hn & _). exists 0%nat. cbn [firstn map]. rewrite app_nil_r.
      assert (G : forall l0, fst (fold_left (fun (acc : xs * bool) stage => if snd acc then acc else restart_stage k c now m stage (fst acc)) l0 (s, true)) = s).
      { induction l0 as [|x l0 IH0]; cbn [fold_left fst snd]; [reflexivity|exact IH0]. }
      rewrite G. split; [reflexivity|discriminate].
    + destruct (at_sim_start_calls k c now m st s) as (a & Ha).
      change (restart_stage k c now m st s) with
        (fst (at_sim_start k c now m st s), snd (at_sim_start k c now m st s) || negb (active (w_mod (x_w (fst (at_sim_start k c now m st s))) m))).
      destruct (at_sim_start k c now m st s) as [s1 e1]. cbn [fst snd] in *.
      destruct (IH s1 (e1 || negb (active (w_mod (x_w s1) m)))) as (n & Hn & _). exists (S n). rewrite Hn, Ha, map_app. cbn [map firstn]. rewrite <- app_assoc. cbn [app].
      split; [reflexivity|]. intros _ _. lia.
Qed.

Lemma run_prog_panic_in tk k now m who : forall p s,
  snd (run_prog tk k now m who p s) = RPanic -> exists cc, In (IPanic m who cc) (x_log (fst (run_prog tk k now m who p s))).
Proof.
  induction p as [|a p IH]; intros s; cbn [run_prog fst snd]; [discriminate|].
  destruct a; try apply IH.
  - destruct (tk && (0 <? d)); cbn [fst snd]; [discriminate|apply IH].
  - intros _. cbn [fst say x_log]. eexists. apply in_or_app. right. left. reflexivity.
  - destruct tk; cbn [fst snd]; [apply IH|discriminate].
Qed.

Lemma at_sim_start_err k c now m stage s :
  snd (at_sim_start k c now m stage s) = true -> exists cc, In (IPanic m 0 cc) (x_log (fst (at_sim_start k c now m stage s))).
Proof.
  unfold at_sim_start.
  assert (G : forall sp p, snd (exec k now m (CbStart stage) sp p s) = true ->
                           exists cc, In (IPanic m 0 cc) (x_log (fst (exec k now m (CbStart stage) sp p s)))).
  { intros sp p. unfold exec.
    match goal with |- context [run_prog false k now m 0 p ?s0] =>
      pose proof (run_prog_panic_in false k now m 0 p s0) as H; destruct (run_prog false k now m 0 p s0) as [s2 r] end.
    cbn [fst snd] in H. destruct r; cbn [fst snd]; try discriminate. intros _. apply H. reflexivity. }
  set (e := if stage =? 0 then exec k now m (CbStart stage) (c_spawn c) (pick_start c (inc (w_mod (x_w s) m))) s
            else exec k now m (CbStart stage) [] [] s).
  assert (He : snd e = true -> exists cc, In (IPanic m 0 cc) (x_log (fst e))) by (unfold e; destruct (stage =? 0); apply G).
  destruct e as [s1 p]. cbn [fst snd] in He. unfold catch. destruct p; cbn [fst snd].
  - destruct (catchf (w_mod (x_w s1) m)); cbn [fst snd x_log]; [discriminate|]. intros _. apply He. reflexivity.
  - discriminate.
Qed.

(* a stage deactivates the module only by a panic of its callback *)
Lemma at_sim_start_deact k c now m stage s :
  active (w_mod (x_w (fst (at_sim_start k c now m stage s))) m) = false -> active (w_mod (x_w s) m) = true ->
  exists cc, In (IPanic m 0 cc) (x_log (fst (at_sim_start k c now m stage s))).
Proof.
  unfold at_sim_start.
  assert (G : forall sp p, (snd (exec k now m (CbStart stage) sp p s) = true ->
                            exists cc, In (IPanic m 0 cc) (x_log (fst (exec k now m (CbStart stage) sp p s)))) /\
                           active (w_mod (x_w (fst (exec k now m (CbStart stage) sp p s))) m) = active (w_mod (x_w s) m)).
  { intros sp p. split; [|apply (fr_active _ _ _ (exec_Fr k now m (CbStart stage) sp p s))]. unfold exec.
    match goal with |- context [run_prog false k now m 0 p ?s0] =>
      pose proof (run_prog_panic_in false k now m 0 p s0) as H; destruct (run_prog false k now m 0 p s0) as [s2 r] end.
    cbn [fst snd] in H. destruct r; cbn [fst snd]; try discriminate. intros _. apply H. reflexivity. }
  set (e := if stage =? 0 then exec k now m (CbStart stage) (c_spawn c) (pick_start c (inc (w_mod (x_w s) m))) s
            else exec k now m (CbStart stage) [] [] s).
  assert (He : (snd e = true -> exists cc, In (IPanic m 0 cc) (x_log (fst e))) /\ active (w_mod (x_w (fst e)) m) = active (w_mod (x_w s) m))
    by (unfold e; destruct (stage =? 0); apply G).
  destruct e as [s1 p]. cbn [fst snd] in He. destruct He as [He1 He2]. unfold catch. destruct p; cbn [fst snd x_w x_log].
  - intros _ _. destruct (catchf (w_mod (x_w s1) m)); cbn [fst x_log]; apply He1; reflexivity.
  - intros Hf Ht. congruence.
Qed.

Lemma restart_fold_full k c now m : forall l s,
  let r := fold_left (fun (acc : xs * bool) stage => if snd acc then acc else restart_stage k c now m stage (fst acc)) l (s, false) in
  active (w_mod (x_w s) m) = true -> (forall cc, ~ In (IPanic m 0 cc) (x_log (fst r))) ->
  map (fun i => match i with ICall m' (CbStart st) t _ => (m', st, t) | _ => (0, 0, 0) end) (start_calls (x_log (fst r))) =
  map (fun i => match i with ICall m' (CbStart st) t _ => (m', st, t) | _ => (0, 0, 0) end) (start_calls (x_log s)) ++
  map (fun st => (m, st, now)) l.
Proof.
  induction l as [|st l IH]; intros s r Hact Hn; subst r; cbn [fold_left fst snd] in *; [rewrite app_nil_r; reflexivity|].
  destruct (at_sim_start_calls k c now m st s) as (a & Ha).
  pose proof (at_sim_start_err k c now m st s) as He. pose proof (at_sim_start_deact k c now m st s) as Hd.
  change (restart_stage k c now m st s) with
    (fst (at_sim_start k c now m st s), snd (at_sim_start k c now m st s) || negb (active (w_mod (x_w (fst (at_sim_start k c now m st s))) m))) in *.
  destruct (at_sim_start k c now m st s) as [s1 e1]. cbn [fst snd] in *.
  destruct (restart_fold_ok k c now m l s1 (e1 || negb (active (w_mod (x_w s1) m)))) as [_ (lx & Hlx & _)].
  destruct e1; cbn [orb] in *.
  - exfalso. destruct (He eq_refl) as (cc & Hc). apply (Hn cc). rewrite Hlx. apply in_or_app. left. exact Hc.
  - destruct (active (w_mod (x_w s1) m)) eqn:Ea; cbn [negb] in *.
    + rewrite (IH s1 Ea Hn), Ha, map_app. cbn [map]. rewrite <- app_assoc. reflexivity.
    + exfalso. destruct (Hd eq_refl Hact) as (cc & Hc). apply (Hn cc). rewrite Hlx. apply in_or_app. left. exact Hc.
Qed.

Definition call_key (i : item) : N * N * N :=
  match i with ICall m' (CbStart st) t _ => (m', st, t) | _ => (0, 0, 0) end.

(* the items of a restart event: the callback's log followed by runtime records *)
Lemma restart_items sc t m w :
  exists lsys, snd (around sc t m (module_restart (nmods sc) (cfg sc m) t m) w) =
               x_log (module_restart (nmods sc) (cfg sc m) t m {| x_w := activate t m w; x_log := [] |}) ++ lsys /\
               Forall (fun i => is_sys i = true) lsys.
Proof.
  unfold around. set (s := module_restart (nmods sc) (cfg sc m) t m {| x_w := activate t m w; x_log := [] |}).
  unfold buf_process, shutdown_part. destruct (shut _); cbn [snd]; eexists; split; try reflexivity.
  - apply Forall_app. split; [apply cancelled_sys|constructor; [reflexivity|apply rpanic_sys]].
  - constructor.
Qed.

Lemma start_calls_sys l : Forall (fun i => is_sys i = true) l -> start_calls l = [].
Proof.
  induction 1 as [|i l Hi _ IH]; [reflexivity|]. unfold start_calls in *. cbn [filter].
  destruct i; try discriminate; exact IH.
Qed.

(* C09 restart_stages_once_at_time, part 2: in a restart event of module m the start-up
   stages run in order 0, 1, .. each exactly once, stamped with the time of the event: at least
   stage 0, and all c_stages of them unless a stage panicked *)
Theorem restart_runs_stages_once sc e m : In e (trace sc) -> e_kind e = KLoop (EvRestart m) ->
  (exists n, (stage_list (c_stages (cfg sc m)) <> [] -> (0 < n)%nat) /\
     map call_key (start_calls (e_items e)) = map (fun st => (m, st, e_time e)) (firstn n (stage_list (c_stages (cfg sc m))))) /\
  ((forall cc, ~ In (IPanic m 0 cc) (e_items e)) ->
     map call_key (start_calls (e_items e)) = map (fun st => (m, st, e_time e)) (stage_list (c_stages (cfg sc m)))).
Proof.
  intros Hin Hk. apply in_split in Hin. destruct Hin as (pre & post & E).
  destruct (trace_cases sc pre e post E) as [(w1 & w2 & HG & Hs)|(w & tr & now & ms1 & m1 & ms2 & _ & _ & _ & _ & ->)]; [|discriminate].
  destruct Hs as [stage m1 w Hfresh Hactive|w|w t ev f Hf]; try discriminate.
  unfold loop_rec in *. cbn [snd e_kind e_time e_items] in *. injection Hk as ->. unfold process.
  destruct (restart_items sc t m (set_fes w f)) as (lsys & El & Hsys). rewrite El.
  assert (Hsc : forall l k, start_calls ((l ++ lsys) ++ [ISample t k]) = start_calls l).
  { intros l k. rewrite !start_calls_app, (start_calls_sys lsys Hsys), !app_nil_r. reflexivity. }
  rewrite Hsc. unfold module_restart.
  set (s0 := on_w (fun w0 => set_mod w0 m (set_active (w_mod w0 m) true)) {| x_w := activate t m (set_fes w f); x_log := [] |}).
  split.
  - destruct (restart_fold_calls (nmods sc) (cfg sc m) t m (stage_list (c_stages (cfg sc m))) s0 false) as (n & Hn & Hpos).
    exists n. split; [intros H; apply Hpos; [reflexivity|exact H]|]. exact Hn.
  - intros Hnp. apply (restart_fold_full (nmods sc) (cfg sc m) t m (stage_list (c_stages (cfg sc m))) s0).
    { unfold s0. cbn [on_w x_w]. rewrite mod_same. reflexivity. }
    intros cc C. apply (Hnp cc). apply in_or_app. left. apply in_or_app. left. exact C.
Qed.

(* C09 fresh_after_restart (partial): when a restart event of module m is dispatched, m is down:
   inactive, without tasks, without pending timers, without pending request.  The incarnation
   that the replayed start-up stages build starts from the same task / timer state as the very
   first one; what persists is what des keeps by design (the user struct, here: budget and
   incarnation counter), the driver's next_wakeup and the try_join handles. *)
Theorem fresh_after_restart sc pre e post m :
  trace sc = pre ++ e :: post -> e_kind e = KLoop (EvRestart m) ->
  exists w1 f1, Gen sc w1 pre /\ Down m w1 /\ fes_fetch (w_fes w1) = Some (e_time e, EvRestart m, f1).
Proof.
  intros E Hk. pose proof (restart_at_requested_time sc pre e post m E Hk) as Hp.
  destruct (trace_cases sc pre e post E) as [(w1 & w2 & HG & Hs)|(w & tr & now & ms1 & m1 & ms2 & _ & _ & _ & _ & ->)]; [|discriminate].
  destruct Hs as [stage m1 w Hfresh Hactive|w|w t ev f Hf]; try discriminate.
  unfold loop_rec in Hk. cbn [snd e_kind] in Hk. injection Hk as ->.
  exists w, f. split; [exact HG|]. split; [|exact Hf].
  apply (gen_down sc m w pre HG), pending_down. rewrite Hp. discriminate.
Qed.
