(* Forward simulation between the event loop of Life/Sim.v (over the two-list event-set specification
   [fes]) and the generic event loop of Life/ModelCq.v over ANY event-set implementation whose add and
   fetch simulate [fes_add] / [fes_fetch] -- the add only for times that are not before the set's
   clock: that every add of the life-cycle model is of that kind is the "nothing is scheduled into
   the past" invariant FW of Life/Future.v.  Result: both loops produce the same [result]. *)
From Coq Require Import List NArith PArith Bool Lia.
From DesVerif Require Import Common.Fuel Life.Model Life.Base Life.Step Life.Trace Life.Agree Life.Strip
  Life.Wake Life.Future Life.ModelCq Life.CqComm.
Import ListNotations.
Open Scope N_scope.

(* the world without its event set *)
Definition core (w : world) : world := set_fes w fnil.

(* a callback that does not touch the event set *)
Definition Comm (f : xs -> xs) : Prop := forall fe s, f (sf fe s) = sf fe (f s).

(* ---- what one bracket adds: all of it is at or after the current time ---- *)
Definition adds_of (now i : N) (f : xs -> xs) (w : world) : list (N * fev) :=
  let s := f {| x_w := activate now i w; x_log := [] |} in
  wake_of i (w_mod (x_w s) i) ++ w_buf (x_w s) ++ restart_of i (w_mod (deactivate i (x_w s)) i).

Lemma adds_ge (sc : script) now i f w : FW now w -> CbOK i f -> (forall s, FC now i s -> FC now i (f s)) ->
  Forall (fun p => now <= fst p) (adds_of now i f w).
Proof.
  intros [Wf Hc Hfut Hso Hb Hsh] Hok Hfc. unfold adds_of.
  pose proof (around_self sc now i f w) as (_ & _ & Sc). cbv zeta in Sc.
  set (s := f {| x_w := activate now i w; x_log := [] |}) in *.
  assert (H0 : FC now i {| x_w := activate now i w; x_log := [] |}).
  { unfold activate. destruct (split_due now (timers (w_mod w i))) as [d q] eqn:Es.
    destruct (split_due_gt now _ d q (Hso i) Es) as [Q1 Q2].
    constructor; cbn [x_w w_buf w_mod set_cur set_mod]; rewrite ?N.eqb_refl; cbn [timers shut set_nw set_ready set_timers].
    - rewrite Hb. constructor.
    - exact Q1.
    - exact Q2.
    - rewrite Hsh. exact I. }
  destruct (Hfc _ H0) as [Fb Ft Fs Fsh]. fold s in Fb, Ft, Fs, Fsh.
  apply Forall_app. split; [|apply Forall_app; split; [exact Fb|]].
  - unfold wake_of. destruct (timers (w_mod (x_w s) i)) as [|[t tk] r]; [constructor|]. destruct (lt_nw t (nw (w_mod (x_w s) i))); [|constructor].
    inversion Ft; subst. cbn [fst] in *. constructor; [cbn [fst]; lia|constructor].
  - unfold restart_of. rewrite Sc. unfold shut_ok in Fsh. destruct (shut (w_mod (x_w s) i)) as [[t|]|]; constructor; [exact Fsh|constructor].
Qed.

(* the world after the event has been taken out of the set *)
Lemma fetch_FW now w t ev f : FW now w -> fes_fetch (w_fes w) = Some (t, ev, f) -> FW t (set_fes w f).
Proof.
  intros [Wf Hc Hfut Hso Hb Hsh] Hf. destruct (WF_fetch _ _ _ _ Wf Hf) as [W1 Et].
  constructor; cbn [w_fes w_mod w_buf set_fes]; try assumption.
  intros p Hp. unfold InF in Hp. destruct Wf as [Wz Ws]. unfold fes_fetch in Hf. unfold fes_order in *.
  destruct (f_zero (w_fes w)) as [|x z] eqn:Ez.
  - destruct (f_rest (w_fes w)) as [|x r] eqn:Er; [discriminate|]. injection Hf as -> <-. cbn [f_zero f_rest app] in Hp.
    inversion Ws as [|y r' _ Hall]; subst. rewrite Forall_forall in Hall. specialize (Hall p Hp). unfold time_le in Hall. exact Hall.
  - injection Hf as -> <-. cbn [f_zero f_rest] in Hp. inversion Wz; subst. cbn [fst] in *.
    assert (Hin : InF p (w_fes w)) by (unfold InF, fes_order; rewrite Ez; cbn [app]; right; exact Hp).
    specialize (Hfut p Hin). lia.
Qed.

Section Sim.
Variable Q : Type.
Variable q_add : N -> fev -> Q -> Q.
Variable q_fetch : Q -> option (N * fev * Q).
Variable RQ : fes -> Q -> Prop.
Hypothesis H_add : forall f q t e, RQ f q -> f_tcur f <= t -> RQ (fes_add t e f) (q_add t e q).
Hypothesis H_fetch : forall f q, RQ f q ->
  match fes_fetch f with
  | Some (t, e, f') => exists q', q_fetch q = Some (t, e, q') /\ RQ f' q'
  | None => q_fetch q = None
  end.

Notation gw := (gworld Q).
Notation qfl := (q_flush Q q_add).

Lemma qfl_app a b q : qfl (a ++ b) q = qfl b (qfl a q).
Proof. unfold q_flush. apply fold_left_app. Qed.

Lemma flush_sim ps : forall f q, RQ f q -> Forall (fun p => f_tcur f <= fst p) ps -> RQ (fes_flush ps f) (qfl ps q).
Proof.
  induction ps as [|p ps IH]; intros f q HR Hall; cbn [fes_flush q_flush fold_left]; [exact HR|].
  inversion Hall as [|? ? Hp Hps]; subst. apply IH; [apply H_add; assumption|]. rewrite fes_add_tcur. exact Hps.
Qed.

(* ---- the event-set layer, equationally: the generic functions do to (core w, q) what the functions of Sim.v
   do to w, and add to q what those add to w_fes w ---- *)
Lemma gdeactivate_eq m w q :
  gdeactivate Q q_add m (core w, q) = (core (deactivate m w), qfl (wake_of m (w_mod w m)) q).
Proof.
  unfold gdeactivate, deactivate, wake_of, core. cbn [fst snd set_fes w_mod].
  destruct (timers (w_mod w m)) as [|[t tk] r]; [reflexivity|]. destruct (lt_nw t (nw (w_mod w m))); reflexivity.
Qed.

Lemma gshutdown_eq c now m w q :
  gshutdown_part Q q_add c now m (core w, q) =
  ((core (fst (shutdown_part c now m w)), qfl (restart_of m (w_mod w m)) q), snd (shutdown_part c now m w)).
Proof.
  unfold gshutdown_part, shutdown_part, restart_of, core. cbn [fst snd set_fes w_mod].
  destruct (shut (w_mod w m)) as [[t|]|]; [| |reflexivity]; destruct (c_rsend c); reflexivity.
Qed.

Lemma gbuf_eq c now m w q :
  gbuf_process Q q_add c now m (core w, q) =
  ((core (fst (buf_process c now m w)), qfl (w_buf w ++ restart_of m (w_mod w m)) q), snd (buf_process c now m w)).
Proof.
  unfold gbuf_process, buf_process. cbn [fst snd].
  change (set_buf (core w) []) with (core (set_buf (set_fes w (fes_flush (w_buf w) (w_fes w))) [])).
  rewrite gshutdown_eq, qfl_app. reflexivity.
Qed.

Lemma garound_eq sc now i f w q : Comm f ->
  garound Q q_add sc now i f (core w, q) =
  ((core (fst (around sc now i f w)), qfl (adds_of now i f w) q), snd (around sc now i f w)).
Proof.
  intros Hc. unfold garound, around, adds_of. cbn [fst snd]. change (activate now i (core w)) with (activate now i (set_fes w fnil)). rewrite activate_sf.
  change {| x_w := set_fes (activate now i w) fnil; x_log := [] |} with (sf fnil {| x_w := activate now i w; x_log := [] |}).
  rewrite Hc. set (s := f {| x_w := activate now i w; x_log := [] |}). cbn [sf x_w x_log].
  change (set_fes (x_w s) fnil) with (core (x_w s)). rewrite gdeactivate_eq, gbuf_eq.
  destruct (buf_process (cfg sc i) now i (deactivate i (x_w s))) as [w' l]. cbn [fst snd].
  rewrite <- !qfl_app, deactivate_buf. reflexivity.
Qed.

(* ---- the simulation ---- *)
Definition Rel (w : world) (g : gw) : Prop := fst g = core w /\ RQ (w_fes w) (snd g).

Lemma around_sim sc now i f w g :
  FW now w -> CbOK i f -> (forall s, FC now i s -> FC now i (f s)) -> Comm f -> Rel w g ->
  Rel (fst (around sc now i f w)) (fst (garound Q q_add sc now i f g)) /\
  snd (around sc now i f w) = snd (garound Q q_add sc now i f g).
Proof.
  intros HW Hok Hfc Hc [E HR]. destruct g as [wc q]. cbn [fst snd] in E, HR. subst wc.
  rewrite (garound_eq sc now i f w q Hc). cbn [fst snd]. split; [|reflexivity]. split; [reflexivity|]. cbn [snd].
  rewrite (around_adds sc now i f w Hok (fw_buf _ _ HW)). fold (adds_of now i f w).
  apply flush_sim; [exact HR|]. rewrite (fw_clock _ _ HW). apply (adds_ge sc), Hfc; assumption.
Qed.

Lemma process_sim sc w g t ev : FW t w -> Rel w g ->
  Rel (fst (process sc w t ev)) (fst (gprocess Q q_add sc g t ev)) /\ snd (process sc w t ev) = snd (gprocess Q q_add sc g t ev).
Proof.
  intros HW HRel. destruct ev as [m far x|m x|m|m]; cbn [process gprocess].
  - destruct HRel as [E HR]. destruct g as [wc q]. cbn [fst snd] in *. subst wc. change (walk (nmods sc) (core w) m far) with (walk (nmods sc) w m far).
    destruct (walk (nmods sc) w m far); (split; [|reflexivity]); split; cbn [fst snd set_fes w_fes]; try reflexivity; try exact HR.
    apply H_add; [exact HR|]. rewrite (fw_clock _ _ HW). lia.
  - apply around_sim; [exact HW|apply handle_message_ok|intros s; apply handle_message_FC|intros fe s; apply handle_message_sf|exact HRel].
  - apply around_sim; [exact HW|apply async_wakeup_ok|intros s; apply async_wakeup_FC|intros fe s; apply async_wakeup_sf|exact HRel].
  - apply around_sim; [exact HW|apply module_restart_ok|intros s; apply module_restart_FC|intros fe s; apply module_restart_sf|exact HRel].
Qed.

(* ---- start-up ---- *)
Definition Rel0 (a : world * list erec) (b : gw * list erec) : Prop :=
  Rel (fst a) (fst b) /\ snd a = snd b /\ FW 0 (fst a).

Lemma start_one_sim sc stage m a b : Rel0 a b -> Rel0 (start_one sc stage m a) (gstart_one Q q_add sc stage m b).
Proof.
  destruct a as [w tr], b as [g tr']. unfold Rel0. cbn [fst snd]. intros (HRel & <- & HW).
  pose proof (start_one_FW sc stage m (w, tr) HW) as HW'.
  unfold start_one, gstart_one in *. destruct HRel as [E HR]. rewrite E. change (w_mod (core w) m) with (w_mod w m).
  destruct ((stage <? c_stages (cfg sc m)) && active (w_mod w m)); [|cbn [fst snd] in *; split; [split; assumption|split; [reflexivity|exact HW]]].
  destruct (around_sim sc 0 m (fun s => fst (at_sim_start (nmods sc) (cfg sc m) 0 m stage s)) w g HW) as [S1 S2];
    [apply start_cb_ok|intros s; apply at_sim_start_FC|intros fe s; rewrite at_sim_start_sf; reflexivity|split; assumption|].
  destruct (around sc 0 m _ w) as [w' l], (garound Q q_add sc 0 m _ g) as [g' l']. cbn [fst snd] in *. subst l'.
  split; [exact S1|split; [reflexivity|exact HW']].
Qed.

Lemma sim_start_sim sc w g : Rel w g -> FW 0 w -> Rel0 (sim_start sc w) (gsim_start Q q_add sc g).
Proof.
  intros HRel HW. unfold sim_start, gsim_start.
  assert (G : forall stages a b, Rel0 a b ->
    Rel0 (fold_left (fun acc stage => fold_left (fun acc m => start_one sc stage m acc) (mods sc) acc) stages a)
         (fold_left (fun acc stage => fold_left (fun acc m => gstart_one Q q_add sc stage m acc) (mods sc) acc) stages b)).
  { induction stages as [|st stages IH]; intros a b H; cbn [fold_left]; [exact H|]. apply IH.
    generalize (mods sc). intros ms. revert a b H. induction ms as [|m ms IHm]; intros a b H; cbn [fold_left]; [exact H|].
    apply IHm, start_one_sim, H. }
  apply G. split; [exact HRel|split; [reflexivity|exact HW]].
Qed.

(* ---- tear-down: what it adds to the event set is never looked at ---- *)
Lemma end_one_sim sc now m a b :
  fst (fst b) = core (fst a) -> snd a = snd b ->
  fst (fst (gend_one Q q_add sc now m b)) = core (fst (end_one sc now m a)) /\ snd (end_one sc now m a) = snd (gend_one Q q_add sc now m b).
Proof.
  destruct a as [w tr], b as [[wc q] tr']. cbn [fst snd]. intros -> <-. unfold end_one, gend_one. cbn [fst snd].
  change (activate now m (core w)) with (activate now m (set_fes w fnil)). rewrite activate_sf.
  change {| x_w := set_fes (activate now m w) fnil; x_log := [] |} with (sf fnil {| x_w := activate now m w; x_log := [] |}).
  rewrite at_sim_end_sf. cbn [sf x_w x_log]. change (set_fes ?x fnil) with (core x). rewrite gdeactivate_eq. cbn [fst snd]. split; reflexivity.
Qed.

Lemma sim_end_sim sc now w g : fst g = core w ->
  fst (fst (gsim_end Q q_add sc now g)) = core (fst (sim_end sc now w)) /\ snd (sim_end sc now w) = snd (gsim_end Q q_add sc now g).
Proof.
  intros E. unfold sim_end, gsim_end.
  assert (G : forall ms a b, fst (fst b) = core (fst a) -> snd a = snd b ->
    fst (fst (fold_left (fun acc m => gend_one Q q_add sc now m acc) ms b)) = core (fst (fold_left (fun acc m => end_one sc now m acc) ms a)) /\
    snd (fold_left (fun acc m => end_one sc now m acc) ms a) = snd (fold_left (fun acc m => gend_one Q q_add sc now m acc) ms b)).
  { induction ms as [|m ms IH]; intros a b H1 H2; cbn [fold_left]; [split; assumption|].
    destruct (end_one_sim sc now m a b H1 H2) as [A B]. apply IH; assumption. }
  apply G; [exact E|reflexivity].
Qed.

(* ---- the main loop ---- *)
Definition RelL (a : lstate) (b : glstate Q) : Prop :=
  Rel (fst (fst a)) (fst (fst b)) /\ snd (fst a) = snd (fst b) /\ snd a = snd b /\ FW (snd (fst a)) (fst (fst a)).

Definition RelS (a : lstate + lstate) (b : glstate Q + glstate Q) : Prop :=
  match a, b with inl x, inl y => RelL x y | inr x, inr y => RelL x y | _, _ => False end.

Lemma loop_step_sim sc a b : RelL a b -> RelS (loop_step sc a) (gloop_step Q q_add q_fetch sc b).
Proof.
  destruct a as [[w now] tr], b as [[g now'] tr']. unfold RelL. cbn [fst snd]. intros (HRel & <- & <- & HW).
  pose proof HRel as [E HR]. unfold loop_step, gloop_step. pose proof (H_fetch _ _ HR) as HF.
  destruct (fes_fetch (w_fes w)) as [[[t ev] f]|] eqn:Ef.
  - destruct HF as (q' & -> & HR'). pose proof (fetch_FW now w t ev f HW Ef) as HW1.
    assert (HRel' : Rel (set_fes w f) (fst g, q')) by (split; [rewrite E; reflexivity|exact HR']).
    destruct (process_sim sc (set_fes w f) (fst g, q') t ev HW1 HRel') as [P1 P2].
    pose proof (proj1 (loop_FW sc now w t ev f HW Ef)) as HW2. unfold loop_rec in HW2. cbn [fst] in HW2.
    destruct (process sc (set_fes w f) t ev) as [w' l], (gprocess Q q_add sc (fst g, q') t ev) as [g' l'].
    cbn [fst snd RelS] in *. subst l'. unfold RelL. cbn [fst snd]. destruct P1 as [P1 P1']. rewrite P1.
    change (mask sc (core w')) with (mask sc w'). split; [split; assumption|split; [reflexivity|split; [reflexivity|exact HW2]]].
  - rewrite HF. cbn [RelS]. unfold RelL. cbn [fst snd]. auto.
Qed.

Lemma iter_sim sc k : forall a b, RelL a b ->
  RelS (iter_nat k (loop_step sc) a) (iter_nat k (gloop_step Q q_add q_fetch sc) b).
Proof.
  induction k as [|k IH]; intros a b H; cbn [iter_nat]; [exact H|].
  pose proof (loop_step_sim sc a b H) as S.
  destruct (loop_step sc a) as [a'|a'], (gloop_step Q q_add q_fetch sc b) as [b'|b']; cbn [RelS] in S; try contradiction.
  - apply IH, S.
  - exact S.
Qed.

Theorem run_script_sim q0 sc : RQ fnil q0 -> grun_script Q q_add q_fetch q0 sc = run_script sc.
Proof.
  intros H0. unfold grun_script, run_script.
  assert (HI : Rel (init_world sc) (ginit_world Q q_add q0 sc)).
  { split; [reflexivity|]. cbn [snd ginit_world init_world w_fes]. apply flush_sim; [exact H0|].
    apply Forall_forall. intros p _. cbn [fnil f_tcur]. lia. }
  assert (HW0 : FW 0 (init_world sc)).
  { unfold init_world. constructor; cbn [w_fes w_mod w_buf].
    - apply WF_flush. constructor; cbn; constructor.
    - rewrite fes_flush_tcur. reflexivity.
    - intros p _. lia.
    - intros j. constructor.
    - reflexivity.
    - intros j. reflexivity. }
  pose proof (sim_start_sim sc _ _ HI HW0) as (S1 & S2 & S3).
  destruct (sim_start sc (init_world sc)) as [w0 tr0], (gsim_start Q q_add sc (ginit_world Q q_add q0 sc)) as [g0 tr0'].
  cbn [fst snd] in *. subst tr0'. rewrite !iter_until_nat.
  assert (Em : mask sc (fst g0) = mask sc w0) by (rewrite (proj1 S1); reflexivity). rewrite Em.
  set (boot := {| e_kind := KBoot; e_time := 0; e_items := [ISample 0 (mask sc w0)] |}).
  pose proof (iter_sim sc (Pos.to_nat (fuel sc)) (w0, 0, tr0 ++ [boot]) (g0, 0, tr0 ++ [boot])) as HL.
  specialize (HL ltac:(unfold RelL; cbn [fst snd]; auto)).
  destruct (iter_nat (Pos.to_nat (fuel sc)) (loop_step sc) (w0, 0, tr0 ++ [boot])) as [[[w now] tr]|[[w now] tr]],
           (iter_nat (Pos.to_nat (fuel sc)) (gloop_step Q q_add q_fetch sc) (g0, 0, tr0 ++ [boot])) as [[[g now'] tr']|[[g now'] tr']];
    cbn [RelS] in HL; try contradiction; destruct HL as ([E _] & En & Et & _); cbn [fst snd] in *; subst now' tr'.
  - rewrite E. reflexivity.
  - destruct (sim_end_sim sc now w g E) as [A B].
    destruct (sim_end sc now w) as [w' tr1], (gsim_end Q q_add sc now g) as [g' tr1']. cbn [fst snd] in *. subst tr1'. rewrite A. reflexivity.
Qed.
End Sim.
