(* Termination of the event loop of coq/Life/Model.v: every dispatched event lowers the
   potential of Life/Pot.v, so the fuel of [run_script] is never exhausted. *)
From Coq Require Import List NArith PArith Bool Lia PeanoNat Compare_dec.
From DesVerif Require Import Common.Fuel Life.Model Life.Base Life.Step Life.Trace Life.Frame Life.Pot.
Import ListNotations.
Open Scope N_scope.

Section Term.
Variable sc : script.
Notation pm := (pm sc).
Notation part := (part sc).
Notation wsum := (wsum sc).
Notation wl := (wl sc).
Notation wt := (wt sc).
Notation RR := (RR sc).

(* ---- activate / deactivate / buf_process ---- *)
Lemma split_due_pm now : forall l n,
  rdw (fst (split_due now l)) + tmw (snd (split_due now l)) + nwf (nw_bump now n) + stale (snd (split_due now l)) (nw_bump now n) <=
  tmw l + nwf n + stale l n.
Proof.
  assert (Hb : forall n, nwf (nw_bump now n) <= nwf n) by (intros [u|]; cbn [nw_bump nwf]; [destruct (u <=? now); cbn [nwf]|]; lia).
  intros l n. destruct l as [|[t tk] r]; cbn [split_due fst snd]; [cbn [rdw tmw stale]; specialize (Hb n); lia|].
  destruct (t <=? now) eqn:E.
  - (* the head is due: it (and possibly more) moves to the ready queue, which pays for a stale queue *)
    assert (G : forall l0, rdw (fst (split_due now l0)) + tmw (snd (split_due now l0)) <= tmw l0).
    { induction l0 as [|[t0 tk0] r0 IH]; cbn [split_due fst snd rdw tmw]; [lia|].
      destruct (t0 <=? now); [|cbn [fst snd rdw tmw]; lia].
      destruct (split_due now r0) as [d q]. cbn [fst snd rdw] in *. lia. }
    specialize (G r). destruct (split_due now r) as [d q]. cbn [fst snd rdw tmw] in *.
    pose proof (stale_le q (nw_bump now n)). specialize (Hb n). lia.
  - (* nothing is due *)
    cbn [fst snd rdw tmw stale]. apply N.leb_gt in E. specialize (Hb n).
    destruct n as [u|]; cbn [nw_bump nwf] in *; [|lia].
    destruct (u <=? now) eqn:Eu; cbn [nwf]; [|lia].
    apply N.leb_le in Eu. destruct (u =? t) eqn:Eut; [apply N.eqb_eq in Eut; lia|lia].
Qed.

Lemma activate_pm now m w : pm m (activate now m w) <= pm m w.
Proof.
  unfold activate. pose proof (split_due_pm now (timers (w_mod w m)) (nw (w_mod w m))) as H.
  destruct (split_due now (timers (w_mod w m))) as [d q]. cbn [fst snd] in H.
  unfold Pot.pm at 1. cbn [w_mod w_buf w_fes set_cur set_mod]. rewrite N.eqb_refl. unfold Pot.pm, Pot.part.
  cbn [bud ready timers nw shut set_nw set_ready set_timers]. rewrite rdw_app. lia.
Qed.

Lemma deactivate_pm m w : pm m (deactivate m w) <= pm m w.
Proof.
  unfold deactivate. destruct (timers (w_mod w m)) as [|[t tk] r] eqn:Et; [apply N.le_refl|].
  destruct (lt_nw t (nw (w_mod w m))) eqn:El; [|apply N.le_refl].
  unfold Pot.pm at 1. cbn [w_mod w_buf w_fes set_cur set_fes set_mod]. rewrite N.eqb_refl, wsum_add.
  unfold Pot.pm, Pot.part. cbn [bud ready timers nw shut set_nw wt]. rewrite Et. cbn [stale nwf]. rewrite N.eqb_refl.
  destruct (nw (w_mod w m)) as [u|]; cbn [lt_nw nwf] in *; [|lia].
  apply N.ltb_lt in El. destruct (u =? t) eqn:E; [apply N.eqb_eq in E; lia|lia].
Qed.

Lemma buf_process_pm c now m w : pm m (fst (buf_process c now m w)) <= pm m w.
Proof.
  unfold buf_process, shutdown_part. cbn [w_mod set_buf set_fes].
  destruct (shut (w_mod w m)) as [r|] eqn:Es; cbn [fst].
  - assert (Hb : nwf (nw_bump now (nw (w_mod w m))) <= nwf (nw (w_mod w m)))
      by (destruct (nw (w_mod w m)) as [u|]; cbn [nw_bump nwf]; [destruct (u <=? now); cbn [nwf]|]; lia).
    destruct r as [t|]; unfold Pot.pm, Pot.part; rewrite ifse_mod, ifse_buf, ifse_fes; cbn [w_mod w_buf w_fes set_fes set_fin set_mod set_buf]; rewrite N.eqb_refl;
      cbn [bud ready timers nw shut rdw tmw stale shw Pot.wl]; rewrite ?wsum_add, wsum_flush, Es; cbn [shw wt]; lia.
  - unfold Pot.pm. cbn [w_mod w_buf w_fes set_buf set_fes Pot.wl]. rewrite wsum_flush. lia.
Qed.

Lemma around_pm now m f w extra : (forall s, pm m (x_w (f s)) <= pm m (x_w s) + extra) ->
  pm m (fst (around sc now m f w)) <= pm m w + extra.
Proof.
  intros Hf. unfold around. specialize (Hf {| x_w := activate now m w; x_log := [] |}). cbn [x_w] in Hf.
  set (s := f {| x_w := activate now m w; x_log := [] |}) in *.
  pose proof (buf_process_pm (cfg sc m) now m (deactivate m (x_w s))) as H1.
  destruct (buf_process (cfg sc m) now m (deactivate m (x_w s))) as [w' l]. cbn [fst] in *.
  pose proof (deactivate_pm m (x_w s)). pose proof (activate_pm now m w). lia.
Qed.

(* ---- the whole world ---- *)
Definition sumparts (l : list N) (w : world) : N := fold_right (fun i a => part (w_mod w i) + a) 0 l.
Definition mu (w : world) : N := sumparts (mods sc) w + wl (w_buf w) + wsum (w_fes w).

Lemma sumparts_same l w w' : (forall i, In i l -> w_mod w' i = w_mod w i) -> sumparts l w' = sumparts l w.
Proof.
  induction l as [|i l IH]; intros H; cbn [sumparts fold_right]; [reflexivity|].
  fold (sumparts l w') (sumparts l w). rewrite IH by (intros j Hj; apply H; right; exact Hj).
  rewrite H by (left; reflexivity). reflexivity.
Qed.

Lemma sumparts_one m : forall l w w', NoDup l -> In m l -> (forall i, i <> m -> w_mod w' i = w_mod w i) ->
  sumparts l w' + part (w_mod w m) = sumparts l w + part (w_mod w' m).
Proof.
  induction l as [|i l IH]; intros w w' Hnd Hin Ho; [destruct Hin|]. cbn [sumparts fold_right]. fold (sumparts l w') (sumparts l w).
  inversion Hnd as [|x l0 Hni Hnd']; subst. destruct Hin as [->|Hin].
  - rewrite (sumparts_same l w w') by (intros j Hj; apply Ho; intros ->; contradiction). lia.
  - specialize (IH w w' Hnd' Hin Ho). rewrite (Ho i) by (intros ->; contradiction). lia.
Qed.

(* an event of a module of the script: the world potential moves like the module's view of it *)
Lemma mu_pm m w w' : In m (mods sc) -> (forall i, i <> m -> w_mod w' i = w_mod w i) ->
  mu w' + pm m w = mu w + pm m w'.
Proof.
  intros Hin Ho. pose proof (sumparts_one m (mods sc) w w' (mods_nodup sc) Hin Ho). unfold mu, Pot.pm. lia.
Qed.

(* ---- modules outside the script have the empty configuration and never do anything ---- *)
Definition Idle (i : N) (w : world) : Prop :=
  ready (w_mod w i) = [] /\ timers (w_mod w i) = [] /\ shut (w_mod w i) = None.
Definition Out (w : world) : Prop := forall i, ~ In i (mods sc) -> Idle i w.

Lemma cfg_out i : ~ In i (mods sc) -> cfg sc i = cfg0.
Proof.
  intros H. unfold cfg. apply nth_overflow. destruct (le_lt_dec (length (s_mods sc)) (N.to_nat i)) as [Hl|Hl]; [exact Hl|].
  exfalso. apply H. unfold mods. apply in_map_iff. exists (N.to_nat i). split; [apply Nnat.N2Nat.id|apply in_seq; lia].
Qed.

Lemma exec_idle k now i c s : Idle i (x_w s) ->
  Idle i (x_w (fst (exec k now i c [] [] s))) /\ w_buf (x_w (fst (exec k now i c [] [] s))) = w_buf (x_w s) /\
  w_fes (x_w (fst (exec k now i c [] [] s))) = w_fes (x_w s) /\ snd (exec k now i c [] [] s) = false.
Proof.
  intros (a & b & c0). unfold exec, spawn_all, poll_ready. cbn [combine seq length map run_prog fst snd].
  wsimpl. rewrite !N.eqb_refl. wsimpl. rewrite a. cbn [app fold_left fst snd]. unfold Idle. wsimpl. rewrite !N.eqb_refl. wsimpl. auto.
Qed.

Definition IdleCb (i : N) (f : xs -> xs) : Prop := forall s, Idle i (x_w s) ->
  Idle i (x_w (f s)) /\ w_buf (x_w (f s)) = w_buf (x_w s).

Lemma at_sim_start_idle k now i stage : IdleCb i (fun s => fst (at_sim_start k cfg0 now i stage s)).
Proof.
  intros s H. unfold at_sim_start. change (c_spawn cfg0) with (@nil (bool * prog)). unfold pick_start. cbn [c_start cfg0].
  assert (E : forall n, nth n ([] : list prog) [] = []) by (intros [|n]; reflexivity).
  rewrite E. destruct (exec_idle k now i (CbStart stage) s H) as (I1 & I2 & _ & I4).
  destruct (stage =? 0); destruct (exec k now i (CbStart stage) [] [] s) as [s1 p]; cbn [fst snd] in *; subst p; cbn [catch fst x_w]; auto.
Qed.

Lemma handle_message_idle k now i x : IdleCb i (handle_message k cfg0 now i x).
Proof.
  intros s H. unfold handle_message. destruct (active (w_mod (x_w s) i)); [|auto].
  unfold pick_msg. cbn [c_msg cfg0]. destruct (exec_idle k now i (CbMsg x) s H) as (I1 & I2 & _ & I4).
  destruct (exec k now i (CbMsg x) [] [] s) as [s1 p]. cbn [fst snd] in *. subst p. cbn [catch fst x_w]. auto.
Qed.

Lemma async_wakeup_idle k now i : IdleCb i (async_wakeup k now i).
Proof.
  intros s H. unfold async_wakeup. destruct (active (w_mod (x_w s) i)); [|auto].
  destruct H as (a & b & c0). unfold poll_ready. rewrite a. cbn [fold_left]. unfold Idle. wsimpl. rewrite N.eqb_refl. wsimpl. auto.
Qed.

Lemma module_restart_idle k now i : IdleCb i (module_restart k cfg0 now i).
Proof.
  intros s H. unfold module_restart. cbn [c_stages cfg0]. change (stage_list 1) with [0]. cbn [fold_left fst snd restart_stage].
  destruct (at_sim_start_idle k now i 0 (on_w (fun w => set_mod w i (set_active (w_mod w i) true)) s)) as [I1 I2].
  { destruct H as (a & b & c0). unfold Idle. wsimpl. rewrite N.eqb_refl. wsimpl. auto. }
  split; [exact I1|]. rewrite I2. reflexivity.
Qed.

Lemma around_idle now i f w : cfg sc i = cfg0 -> IdleCb i f -> CbOK i f -> Idle i w -> w_buf w = [] ->
  Idle i (fst (around sc now i f w)) /\ w_fes (fst (around sc now i f w)) = w_fes w.
Proof.
  intros Hc Hf Hok (a & b & c0) Hb.
  assert (H0 : Idle i (activate now i w)).
  { unfold activate, Idle. rewrite b. cbn [split_due]. wsimpl. rewrite N.eqb_refl. wsimpl. rewrite a. auto. }
  destruct (Hf {| x_w := activate now i w; x_log := [] |} H0) as [(a1 & b1 & c1) Hbuf]. cbn [x_w] in Hbuf. rewrite activate_buf, Hb in Hbuf.
  pose proof (fo_fes _ _ _ (proj1 (Hok {| x_w := activate now i w; x_log := [] |}))) as Ff. cbn [x_w] in Ff. rewrite activate_fes in Ff.
  unfold around. set (s := f {| x_w := activate now i w; x_log := [] |}) in *.
  assert (Ed : deactivate i (x_w s) = set_cur (x_w s) None) by (unfold deactivate; rewrite b1; reflexivity).
  unfold buf_process, shutdown_part. rewrite Ed. cbn [w_mod w_buf w_fes set_cur set_buf set_fes]. rewrite c1, Hbuf. cbn [fst fes_flush fold_left].
  unfold Idle. cbn [w_mod w_fes set_buf set_fes set_cur]. auto.
Qed.

(* ---- one step ---- *)
Lemma pm_set_fes m w f : pm m (set_fes w f) + wsum (w_fes w) = pm m w + wsum f.
Proof. unfold Pot.pm. cbn [w_mod w_buf w_fes set_fes]. lia. Qed.

Lemma mu_set_fes w f : mu (set_fes w f) + wsum (w_fes w) = mu w + wsum f.
Proof. unfold mu. cbn [w_mod w_buf w_fes set_fes]. rewrite (sumparts_same (mods sc) w (set_fes w f)) by reflexivity. lia. Qed.

Lemma Out_other w w' : Out w -> (forall i, ~ In i (mods sc) -> w_mod w' i = w_mod w i) -> Out w'.
Proof. intros H E i Hi. unfold Idle. rewrite (E i Hi). apply H, Hi. Qed.

(* what a module event of m does to [mu] and [Out]; [extra] bounds what the callback may add *)
Lemma module_event now m f w extra : Out w -> w_buf w = [] -> CbOK m f ->
  (forall s, pm m (x_w (f s)) <= pm m (x_w s) + extra) ->
  (cfg sc m = cfg0 -> IdleCb m f) ->
  mu (fst (around sc now m f w)) <= mu w + extra /\ Out (fst (around sc now m f w)).
Proof.
  intros HO Hb Hok Hpm Hid.
  assert (Hoth : forall i, i <> m -> w_mod (fst (around sc now m f w)) i = w_mod w i) by (intros i Hi; apply around_oth; assumption).
  destruct (in_dec N.eq_dec m (mods sc)) as [Hin|Hout].
  - split.
    + pose proof (mu_pm m w _ Hin Hoth). pose proof (around_pm now m f w extra Hpm). lia.
    + apply (Out_other w); [exact HO|]. intros i Hi. apply Hoth. intros ->. contradiction.
  - destruct (around_idle now m f w (cfg_out m Hout) (Hid (cfg_out m Hout)) Hok (HO m Hout) Hb) as [I1 I2].
    destruct (around_glob sc now m f w) as [_ Hb'].
    split.
    + unfold mu. rewrite I2, Hb', Hb. rewrite (sumparts_same (mods sc) w) by (intros i Hi; apply Hoth; intros ->; contradiction). lia.
    + intros i Hi. destruct (N.eq_dec i m) as [->|Hn]; [exact I1|]. unfold Idle. rewrite (Hoth i Hn). apply HO, Hi.
Qed.

Lemma spw_le m : spw (c_tasks (cfg sc m)) <= RR.
Proof.
  assert (H1 : forall c, spw (c_tasks c) <= 4 * cfg_size c).
  { intros c. unfold cfg_size, prog_size. induction (c_tasks c) as [|p l IH]; cbn [spw fold_right]; [lia|]. fold (spw l). lia. }
  assert (H2 : forall l c, In c l -> cfg_size c <= fold_right (fun c a => N.max (cfg_size c) a) 0 l).
  { induction l as [|c0 l IH]; intros c Hin; [destruct Hin|]. cbn [fold_right]. destruct Hin as [->|Hin]; [lia|specialize (IH c Hin); lia]. }
  unfold Pot.RR, cfg_unit, cfg. destruct (nth_in_or_default (N.to_nat m) (s_mods sc) cfg0) as [Hin|E].
  - specialize (H1 (nth (N.to_nat m) (s_mods sc) cfg0)). specialize (H2 _ _ Hin). lia.
  - rewrite E. cbn. lia.
Qed.

Lemma loop_step_mu w t ev f1 : Out w -> w_buf w = [] -> fes_fetch (w_fes w) = Some (t, ev, f1) ->
  mu (fst (process sc (set_fes w f1) t ev)) + 1 <= mu w /\ Out (fst (process sc (set_fes w f1) t ev)).
Proof.
  intros HO Hb Hf. pose proof (wsum_fetch sc _ _ _ _ Hf) as Hw. pose proof (mu_set_fes w f1) as Hm.
  assert (HO1 : Out (set_fes w f1)) by exact HO.
  unfold process. destruct ev as [m far x|m x|m|m]; cbn [Pot.wt] in Hw.
  - cbn [fst]. split.
    + destruct (walk (nmods sc) (set_fes w f1) m far).
      * pose proof (mu_set_fes (set_fes w f1) (fes_add t (EvDeliver n x) f1)) as H2. cbn [w_fes set_fes] in H2.
        rewrite wsum_add in H2. cbn [Pot.wt] in H2.
        change (set_fes (set_fes w f1) (fes_add t (EvDeliver n x) (w_fes (set_fes w f1)))) with (set_fes (set_fes w f1) (fes_add t (EvDeliver n x) f1)). lia.
      * lia.
    + destruct (walk (nmods sc) (set_fes w f1) m far); exact HO.
  - destruct (module_event t m (handle_message (nmods sc) (cfg sc m) t m x) (set_fes w f1) 0 HO1 Hb (handle_message_ok _ _ _ _ _)) as [H1 H2].
    + intros s. pose proof (handle_message_pm sc (nmods sc) (cfg sc m) t m x s). lia.
    + intros ->. apply handle_message_idle.
    + split; [lia|exact H2].
  - destruct (module_event t m (async_wakeup (nmods sc) t m) (set_fes w f1) 0 HO1 Hb (async_wakeup_ok _ _ _)) as [H1 H2].
    + intros s. pose proof (async_wakeup_pm sc (nmods sc) t m s). lia.
    + intros _. apply async_wakeup_idle.
    + split; [lia|exact H2].
  - destruct (module_event t m (module_restart (nmods sc) (cfg sc m) t m) (set_fes w f1) RR HO1 Hb (module_restart_ok _ _ _ _)) as [H1 H2].
    + intros s. pose proof (module_restart_pm sc (nmods sc) (cfg sc m) t m s). pose proof (spw_le m). lia.
    + intros ->. apply module_restart_idle.
    + split; [lia|exact H2].
Qed.

(* ---- generated worlds: modules outside the script stay idle, the buffer is drained ---- *)
Lemma start_rec_mu stage m w : Out w -> w_buf w = [] ->
  mu (fst (start_rec sc stage m w)) <= mu w + (if stage =? 0 then RR else 0) /\ Out (fst (start_rec sc stage m w)).
Proof.
  intros HO Hb. unfold start_rec. cbn [fst].
  apply (module_event 0 m (start_cb sc stage m) w _ HO Hb (start_cb_ok (nmods sc) (cfg sc m) 0 m stage)).
  - intros s. unfold start_cb. pose proof (at_sim_start_pm sc (nmods sc) (cfg sc m) 0 m stage s). pose proof (spw_le m).
    destruct (stage =? 0); lia.
  - intros E. unfold start_cb. rewrite E. apply at_sim_start_idle.
Qed.

Lemma gen_out : forall w tr, Gen sc w tr -> Out w.
Proof.
  intros w tr HG. induction HG as [|w tr e w' HG IH Hs].
  - intros i _. unfold Idle, init_world. cbn. auto.
  - destruct (globals_released_gen sc w tr HG) as [_ Hb]. destruct Hs as [stage m w Hfresh Hactive|w|w t ev f Hf].
    + apply (start_rec_mu stage m w IH Hb).
    + exact IH.
    + unfold loop_rec. cbn [fst]. apply (loop_step_mu w t ev f IH Hb Hf).
Qed.

(* ---- the loop ---- *)
Lemma loop_terminates : forall k w now tr, Gen sc w tr -> (N.to_nat (mu w) < k)%nat ->
  exists r, iter_nat k (loop_step sc) (w, now, tr) = inr r.
Proof.
  induction k as [|k IH]; intros w now tr HG Hk; [lia|]. cbn [iter_nat]. unfold loop_step.
  destruct (fes_fetch (w_fes w)) as [[[t ev] f]|] eqn:Hf; [|eexists; reflexivity].
  destruct (globals_released_gen sc w tr HG) as [_ Hb].
  destruct (loop_step_mu w t ev f (gen_out w tr HG) Hb Hf) as [Hm _].
  pose proof (S_loop sc w t ev f Hf) as Hs. unfold loop_rec in Hs. cbn [fst snd] in Hs.
  destruct (process sc (set_fes w f) t ev) as [w' l]. cbn [fst snd] in *.
  apply IH; [eapply G1; eauto|lia].
Qed.

(* ---- start-up ---- *)
Lemma start_one_mu stage m acc : Gen sc (fst acc) (snd acc) -> (stage = 0 -> w_mod (fst acc) m = mst0 (cfg sc m)) ->
  Gen sc (fst (start_one sc stage m acc)) (snd (start_one sc stage m acc)) /\
  mu (fst (start_one sc stage m acc)) <= mu (fst acc) + (if stage =? 0 then RR else 0).
Proof.
  intros HG Hf. split; [apply start_one_gen; assumption|]. destruct acc as [w tr]. cbn [fst snd] in *. rewrite start_one_eq.
  destruct ((stage <? c_stages (cfg sc m)) && active (w_mod w m)); cbn [fst]; [|destruct (stage =? 0); lia].
  destruct (globals_released_gen sc w tr HG) as [_ Hb]. apply (start_rec_mu stage m w (gen_out w tr HG) Hb).
Qed.

Lemma start_stage_mu stage : forall ms acc, NoDup ms -> Gen sc (fst acc) (snd acc) ->
  (stage = 0 -> forall m, In m ms -> w_mod (fst acc) m = mst0 (cfg sc m)) ->
  Gen sc (fst (fold_left (fun acc m => start_one sc stage m acc) ms acc)) (snd (fold_left (fun acc m => start_one sc stage m acc) ms acc)) /\
  mu (fst (fold_left (fun acc m => start_one sc stage m acc) ms acc)) <=
  mu (fst acc) + (if stage =? 0 then RR * N.of_nat (length ms) else 0).
Proof.
  induction ms as [|m ms IH]; intros acc Hnd HG Hf; cbn [fold_left length]; [split; [exact HG|destruct (stage =? 0); lia]|].
  inversion Hnd as [|x l Hnin Hnd']; subst.
  destruct (start_one_mu stage m acc HG) as [G1' M1]; [intros E; apply Hf; [exact E|left; reflexivity]|].
  destruct (IH (start_one sc stage m acc) Hnd' G1') as [G2 M2].
  { intros E m' Hin. rewrite start_one_oth; [apply Hf; [exact E|right; exact Hin]|]. intros ->. contradiction. }
  split; [exact G2|]. destruct (stage =? 0); lia.
Qed.

Lemma sim_start_mu : mu (fst (sim_start sc (init_world sc))) <= mu (init_world sc) + RR * N.of_nat (length (mods sc)).
Proof.
  unfold sim_start. destruct (stage_list_shape (max_stage sc) (max_stage_ge1 sc)) as (tl & -> & Htl). cbn [fold_left].
  assert (G : forall stages acc, Forall (fun st => st <> 0) stages -> Gen sc (fst acc) (snd acc) ->
              Gen sc (fst (fold_left (fun acc stage => fold_left (fun acc m => start_one sc stage m acc) (mods sc) acc) stages acc))
                     (snd (fold_left (fun acc stage => fold_left (fun acc m => start_one sc stage m acc) (mods sc) acc) stages acc)) /\
              mu (fst (fold_left (fun acc stage => fold_left (fun acc m => start_one sc stage m acc) (mods sc) acc) stages acc)) <= mu (fst acc)).
  { induction stages as [|st stages IH]; intros acc Hne HG; cbn [fold_left]; [split; [exact HG|lia]|].
    inversion Hne as [|x l Hst Hne']; subst.
    destruct (start_stage_mu st (mods sc) acc (mods_nodup sc) HG) as [G1' M1]; [intros E; contradiction|].
    destruct (IH _ Hne' G1') as [G2 M2]. split; [exact G2|]. apply N.eqb_neq in Hst. rewrite Hst in M1. lia. }
  destruct (start_stage_mu 0 (mods sc) (init_world sc, []) (mods_nodup sc) (G0 sc)) as [G1' M1]; [intros _ m _; reflexivity|].
  destruct (G tl _ Htl G1') as [_ M2]. cbn [fst N.eqb] in *. lia.
Qed.

(* ---- the bound ---- *)
Lemma part_mst0 c : part (mst0 c) = UU sc * c_bud c.
Proof. unfold Pot.part, mst0. cbn. lia. Qed.

Lemma sumparts_init : sumparts (mods sc) (init_world sc) = UU sc * fold_right (fun c a => c_bud c + a) 0 (s_mods sc).
Proof.
  unfold mods, sumparts, init_world. cbn [w_mod]. unfold cfg.
  assert (G : forall l pre, fold_right (fun i a => part (mst0 (nth (N.to_nat i) (pre ++ l) cfg0)) + a) 0
                              (map N.of_nat (seq (length pre) (length l))) = UU sc * fold_right (fun c a => c_bud c + a) 0 l).
  { induction l as [|c l IH]; intros pre; cbn [length seq map fold_right]; [lia|].
    rewrite Nnat.Nat2N.id, app_nth2, PeanoNat.Nat.sub_diag by lia. cbn [nth]. rewrite part_mst0.
    specialize (IH (pre ++ [c])). rewrite <- app_assoc, app_length in IH. cbn [length app] in IH.
    replace (length pre + 1)%nat with (S (length pre)) in IH by lia. rewrite IH. lia. }
  apply (G (s_mods sc) []).
Qed.

Lemma wl_inj l : wl (map (fun p : N * inj => (fst p, inj_ev (snd p))) l) <= 2 * N.of_nat (length l).
Proof.
  induction l as [|p l IH]; cbn [map Pot.wl length]; [lia|]. destruct (snd p); cbn [inj_ev snd Pot.wt]; lia.
Qed.

Lemma mu_init_bound : mu (fst (sim_start sc (init_world sc))) <= fuel_bound sc.
Proof.
  pose proof sim_start_mu as H.
  assert (Hinit : mu (init_world sc) = UU sc * fold_right (fun c a => c_bud c + a) 0 (s_mods sc) +
                                       wl (map (fun p : N * inj => (fst p, inj_ev (snd p))) (s_inj sc))).
  { unfold mu. rewrite sumparts_init. unfold init_world. cbn [w_buf w_fes Pot.wl]. rewrite wsum_flush.
    unfold Pot.wsum. cbn [f_zero f_rest Pot.wl]. lia. }
  rewrite Hinit in H. pose proof (wl_inj (s_inj sc)) as Hi. unfold mods in H. rewrite map_length, seq_length in H.
  unfold fuel_bound. unfold Pot.UU, Pot.RR in *.
  assert (Hs : forall l : list modcfg, fold_right (fun c a => c_bud c + 1 + a) 0 l =
               fold_right (fun c a => c_bud c + a) 0 l + N.of_nat (length l)).
  { induction l as [|c l IH]; cbn [fold_right length]; [reflexivity|]. rewrite IH. lia. }
  rewrite (Hs (s_mods sc)). clear Hs Hinit. set (X := cfg_unit sc) in *. set (B := fold_right (fun c a => c_bud c + a) 0 (s_mods sc)) in *.
  set (K := N.of_nat (length (s_mods sc))) in *. set (J := N.of_nat (length (s_inj sc))) in *. nia.
Qed.

(* every run ends: the fuel of the event loop is never exhausted *)
Theorem run_terminates : r_ok (run_script sc) = true.
Proof.
  unfold run_script. pose proof mu_init_bound as Hb. pose proof (boot_gen sc) as HB. unfold boot_trace, boot_rec in HB.
  destruct (sim_start sc (init_world sc)) as [w0 tr0]. cbn [fst snd] in *. rewrite iter_until_nat.
  destruct (loop_terminates (Pos.to_nat (fuel sc)) w0 0 _ HB) as [[[w now] tr] Hr].
  - unfold fuel. assert (E : Pos.to_nat (N.succ_pos (fuel_bound sc)) = S (N.to_nat (fuel_bound sc))) by (destruct (fuel_bound sc); cbn; lia).
    rewrite E. lia.
  - rewrite Hr. destruct (sim_end sc now w). reflexivity.
Qed.
End Term.
