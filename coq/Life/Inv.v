(* One invariant of the script interpreter, carried through every callback of an event of
   module m.  It ties the samples written into the log to the state they were taken from:
   - every call record carries active = true unless the callback of this event panicked before
     (C09 handler_runs_only_if_active),
   - every task record carries the module's current incarnation, as do all live tasks
     (C09 old_incarnation_silent),
   - a shutdown request is pending iff the log of the event holds a request record
     (C09 reset_once_per_shutdown). *)
From Coq Require Import List NArith Bool Lia.
From DesVerif Require Import Life.Model Life.Base Life.Step.
Import ListNotations.
Open Scope N_scope.

(* ---- reading one event's log ---- *)
(* [act_st p l]: scan l; p = "the callback panicked before"; None = some call record carries
   active = false although nothing panicked before it *)
Fixpoint act_st (p : bool) (l : list item) : option bool :=
  match l with
  | [] => Some p
  | ICall _ _ _ a :: r => if a || p then act_st p r else None
  | IPanic _ 0 _ :: r => act_st true r
  | _ :: r => act_st p r
  end.

Lemma act_st_app p a : forall b, act_st p (a ++ b) = match act_st p a with Some q => act_st q b | None => None end.
Proof.
  revert p. induction a as [|i a IH]; intros p b; cbn [app act_st]; [reflexivity|].
  destruct i as [m c t x| | | | | |m who cc| | | | | | |]; try apply IH.
  - destruct (x || p); [apply IH|reflexivity].
  - destruct who; apply IH.
Qed.

Definition tag_ok (j : N) (i : item) : Prop :=
  match i with
  | ICall _ (CbTask _ j') _ _ | ICall _ (CbTimer _ j') _ _ => j' = j
  | _ => True
  end.

Definition is_req (i : item) : bool := match i with IShut _ _ _ | IQuiet _ => true | _ => false end.

Definition some_b {A} (o : option A) : bool := match o with Some _ => true | None => false end.

(* the request standing after a log (the last shutdown()/restart_in() wins; quiet keeps an earlier one) *)
Definition shut_step (now : N) (acc : option (option N)) (i : item) : option (option N) :=
  match i with
  | IShut _ _ None => Some None
  | IShut _ _ (Some d) => Some (Some (now + d))
  | IQuiet _ => match acc with Some r => Some r | None => Some None end
  | _ => acc
  end.
Definition shut_of (now : N) (l : list item) : option (option N) := fold_left (shut_step now) l None.

Lemma shut_of_snoc now l i : shut_of now (l ++ [i]) = shut_step now (shut_of now l) i.
Proof. unfold shut_of. rewrite fold_left_app. reflexivity. Qed.

Record CInv (b : bool) (now m j : N) (s : xs) : Prop := {
  ci_inc : inc (w_mod (x_w s) m) = j;
  ci_ready : Forall (fun tk => tk_inc tk = j) (ready (w_mod (x_w s) m));
  ci_timers : Forall (fun p => tk_inc (snd p) = j) (timers (w_mod (x_w s) m));
  ci_tags : Forall (tag_ok j) (x_log s);
  ci_act : b = true -> exists p, act_st false (x_log s) = Some p /\ (active (w_mod (x_w s) m) = true \/ p = true);
  ci_req : some_b (shut (w_mod (x_w s) m)) = existsb is_req (x_log s);
  ci_shut : shut (w_mod (x_w s) m) = shut_of now (x_log s) }.

(* a record that is neither a call, nor a callback panic, nor a request *)
Definition plain (i : item) : bool :=
  match i with ICall _ _ _ _ | IPanic _ 0 _ | IShut _ _ _ | IQuiet _ => false | _ => true end.

Lemma act_st_plain i p : plain i = true -> act_st p [i] = Some p.
Proof. destruct i as [| | | | | |m who cc| | | | | | |]; try discriminate; try reflexivity. destruct who; [discriminate|reflexivity]. Qed.

Lemma plain_not_req i : plain i = true -> is_req i = false.
Proof. destruct i; try discriminate; reflexivity. Qed.

Lemma plain_tag j i : plain i = true -> tag_ok j i.
Proof. destruct i; try discriminate; exact (fun _ => I). Qed.

(* the world may change as long as the fields the invariant reads stay put *)
Lemma CInv_world b now m j s w' :
  inc (w_mod w' m) = inc (w_mod (x_w s) m) -> ready (w_mod w' m) = ready (w_mod (x_w s) m) ->
  timers (w_mod w' m) = timers (w_mod (x_w s) m) -> active (w_mod w' m) = active (w_mod (x_w s) m) ->
  shut (w_mod w' m) = shut (w_mod (x_w s) m) ->
  CInv b now m j s -> CInv b now m j {| x_w := w'; x_log := x_log s |}.
Proof.
  intros e1 e2 e3 e4 e5 [a b0 c d e f g]. constructor; cbn [x_w x_log]; rewrite ?e1, ?e2, ?e3, ?e4, ?e5; assumption.
Qed.

Lemma CInv_say_plain b now m j i s : plain i = true -> CInv b now m j s -> CInv b now m j (say i s).
Proof.
  intros Hp [a b0 c d e f g]. constructor; cbn [say x_w x_log]; try assumption.
  - apply Forall_app. split; [exact d|constructor; [apply plain_tag, Hp|constructor]].
  - intros Hb. destruct (e Hb) as (p & e1 & e2). exists p. rewrite act_st_app, e1, (act_st_plain i p Hp). auto.
  - rewrite existsb_app. cbn [existsb]. rewrite (plain_not_req i Hp), !orb_false_r. exact f.
  - rewrite shut_of_snoc, <- g. destruct i as [| | | | |mm ww [dd|]| | | | | | | |]; try discriminate; reflexivity.
Qed.

Lemma FrP_shut_inv b now m j s w' : FrP m (x_w s) w' -> shut (w_mod w' m) = shut (w_mod (x_w s) m) ->
  CInv b now m j s -> CInv b now m j {| x_w := w'; x_log := x_log s |}.
Proof.
  intros [[_ _ _ _ fa fi _ _] ft fr _] Hs. apply CInv_world; assumption.
Qed.

Lemma spend_shut m w : shut (w_mod (spend m w) m) = shut (w_mod w m).
Proof. unfold spend. rewrite mod_same. reflexivity. Qed.

Lemma buf_send_at_mod k now m far d x w i : w_mod (buf_send_at k now m far d x w) i = w_mod w i.
Proof. unfold buf_send_at. destruct (d =? 0); [destruct (walk k w m far)|]; reflexivity. Qed.

Lemma CInv_req_item b now m j s i w' :
  is_req i = true -> FrP m (x_w s) w' ->
  shut (w_mod w' m) = shut_step now (shut (w_mod (x_w s) m)) i ->
  CInv b now m j s -> CInv b now m j (say i {| x_w := w'; x_log := x_log s |}).
Proof.
  intros Hr [[_ _ _ _ fa fi _] ft fr _] Hs [a b0 c d e f g].
  constructor; cbn [say x_w x_log]; rewrite ?fi, ?fr, ?ft, ?fa; try assumption.
  - apply Forall_app; split; [exact d|constructor; [destruct i; try discriminate; exact I|constructor]].
  - intros Hb. destruct (e Hb) as (p & e1 & e2). exists p. rewrite act_st_app, e1.
    destruct i; try discriminate; cbn [act_st]; auto.
  - rewrite Hs, existsb_app. cbn [existsb]. rewrite Hr, orb_true_r.
    destruct i as [| | | | |mm ww [dd|]| |mm| | | | | |]; try discriminate; cbn [shut_step]; try reflexivity.
    destruct (shut (w_mod (x_w s) m)); reflexivity.
  - rewrite Hs, shut_of_snoc, g. reflexivity.
Qed.

Lemma do_act_CInv b k now m who a j s : CInv b now m j s -> CInv b now m j (do_act k now m who a s).
Proof.
  intros H. destruct a; cbn [do_act]; try exact H; try (destruct (broke m s); [exact H|]).
  - apply CInv_say_plain; [reflexivity|exact H].
  - apply CInv_say_plain; [reflexivity|]. apply FrP_shut_inv; [|rewrite buf_send_at_mod; apply spend_shut|exact H].
    eapply FrP_trans; [apply FrP_spend|apply FrP_buf_send_at].
  - apply CInv_say_plain; [reflexivity|]. apply FrP_shut_inv; [|apply spend_shut|exact H].
    eapply FrP_trans; [apply FrP_spend|apply FrP_buf_push; exact I].
  - apply (CInv_req_item b now m j s (IShut m who None) (request m None (spend m (x_w s)))); [reflexivity| | |exact H].
    + eapply FrP_trans; [apply FrP_spend|apply FrP_request].
    + unfold request. rewrite mod_same. reflexivity.
  - apply (CInv_req_item b now m j s (IShut m who (Some d)) (request m (Some (now + d)) (spend m (x_w s)))); [reflexivity| | |exact H].
    + eapply FrP_trans; [apply FrP_spend|apply FrP_request].
    + unfold request. rewrite mod_same. reflexivity.
  - apply CInv_say_plain; [reflexivity|]. apply FrP_shut_inv; [apply FrP_set; reflexivity|rewrite mod_same; reflexivity|exact H].
Qed.

Lemma quiet_CInv b now m j s : CInv b now m j s -> CInv b now m j (quiet m s).
Proof.
  intros H. unfold quiet. destruct (shut (w_mod (x_w s) m)) as [r|] eqn:Es.
  - destruct s as [w l]. apply (CInv_req_item b now m j {| x_w := w; x_log := l |} (IQuiet m) w); [reflexivity|apply FrP_refl| |exact H].
    cbn [x_w] in *. rewrite Es. reflexivity.
  - apply (CInv_req_item b now m j s (IQuiet m) (request m None (x_w s))); [reflexivity|apply FrP_request| |exact H].
    unfold request. rewrite mod_same, Es. reflexivity.
Qed.

(* a callback panic is recorded in the scan state *)
Definition panicked_st (s : xs) : Prop := act_st false (x_log s) = Some true.

Lemma run_prog_CInv b tk k now m who j : (tk = true -> who <> 0) -> (tk = false -> who = 0) -> forall p s, CInv b now m j s ->
  CInv b now m j (fst (run_prog tk k now m who p s)) /\
  (b = true -> tk = false -> snd (run_prog tk k now m who p s) = RPanic -> panicked_st (fst (run_prog tk k now m who p s))).
Proof.
  intros Hw Hw0. induction p as [|a p IH]; intros s H; cbn [run_prog fst snd]; [split; [exact H|discriminate]|].
  destruct a; try (apply IH, do_act_CInv, H).
  - destruct (tk && (0 <? d)); cbn [fst snd]; [split; [exact H|discriminate]|apply IH, H].
  - cbn [fst snd]. destruct tk.
    + split; [|discriminate]. apply CInv_say_plain; [|exact H]. specialize (Hw eq_refl). destruct who; [contradiction|reflexivity].
    + rewrite (Hw0 eq_refl) in *. destruct H as [a b0 c d e f g]. split.
      * constructor; cbn [say x_w x_log]; try assumption.
        -- apply Forall_app. split; [exact d|constructor; [exact I|constructor]].
        -- intros Hb. destruct (e Hb) as (p0 & e1 & e2). exists true. rewrite act_st_app, e1. cbn [act_st]. auto.
        -- rewrite existsb_app. cbn [existsb is_req]. rewrite !orb_false_r. exact f.
        -- rewrite shut_of_snoc, <- g. reflexivity.
      * intros Hb _ _. destruct (e Hb) as (p0 & e1 & e2). unfold panicked_st. cbn [say x_log]. rewrite act_st_app, e1. reflexivity.
  - destruct tk; cbn [fst snd]; [apply IH, H|]. split; [apply quiet_CInv, H|discriminate].
Qed.

(* ---- tasks ---- *)
Lemma tins_forall (P : N * task -> Prop) t tk : forall l, P (t, tk) -> Forall P l -> Forall P (tins t tk l).
Proof.
  induction l as [|x r IH]; intros Hp Hl; cbn [tins]; [constructor; [exact Hp|constructor]|].
  destruct (t <? fst x); [constructor; assumption|].
  inversion Hl; subst. constructor; [assumption|apply IH; assumption].
Qed.

Lemma CInv_call b m j s c now : tag_ok j (ICall m c now (active (w_mod (x_w s) m))) ->
  CInv b now m j s -> CInv b now m j (say (ICall m c now (active (w_mod (x_w s) m))) s).
Proof.
  intros Ht [a b0 c0 d e f g]. constructor; cbn [say x_w x_log]; try assumption.
  - apply Forall_app. split; [exact d|constructor; [exact Ht|constructor]].
  - intros Hb. destruct (e Hb) as (p & e1 & e2). exists p. rewrite act_st_app, e1. cbn [act_st]. destruct e2 as [-> | ->]; [|rewrite orb_true_r]; auto.
  - rewrite existsb_app. cbn [existsb is_req]. rewrite !orb_false_r. exact f.
  - rewrite shut_of_snoc, <- g. reflexivity.
Qed.

Lemma end_task_CInv b now m j how s tk : CInv b now m j s -> CInv b now m j (end_task m how s tk).
Proof.
  intros H. unfold end_task. apply CInv_say_plain; [reflexivity|]. destruct s as [w1 l1].
  apply (CInv_world b now m j {| x_w := w1; x_log := l1 |}); try exact H; reflexivity.
Qed.

Lemma fold_end_task_CInv b now m j : forall l s, CInv b now m j s -> CInv b now m j (fold_left (end_task m 0) l s).
Proof. induction l as [|tk l IH]; intros s H; cbn [fold_left]; [exact H|]. apply IH, end_task_CInv, H. Qed.

Lemma poll1_CInv b k now m j s tk : tk_inc tk = j -> CInv b now m j s -> CInv b now m j (poll1 k now m s tk).
Proof.
  intros Hj H. unfold poll1.
  assert (H0 : CInv b now m j (say (ICall m (if tk_new tk then CbTask (tk_id tk) (tk_inc tk) else CbTimer (tk_id tk) (tk_inc tk)) now
                                     (active (w_mod (x_w s) m))) s))
    by (apply CInv_call; [destruct (tk_new tk); exact Hj|exact H]).
  assert (Hw : true = true -> 1 + tk_id tk <> 0) by (intros _; lia).
  assert (Hw0 : true = false -> 1 + tk_id tk = 0) by discriminate.
  match goal with |- context [run_prog true k now m ?who ?p ?s0] =>
    destruct (run_prog_CInv b true k now m who j Hw Hw0 p s0 H0) as [H1 _];
    destruct (run_prog true k now m who p s0) as [s1 r] end.
  cbn [fst] in H1. destruct r; try (apply end_task_CInv; exact H1).
  - destruct H1 as [a b0 c d0 e f g]. constructor; cbn [on_w x_w x_log]; rewrite ?mod_same; cbn [inc ready timers active shut set_timers]; try assumption.
    apply tins_forall; [exact Hj|exact c].
Qed.

Lemma fold_poll1_CInv b k now m j : forall l s, Forall (fun tk => tk_inc tk = j) l -> CInv b now m j s ->
  CInv b now m j (fold_left (poll1 k now m) l s).
Proof.
  induction l as [|tk l IH]; intros s Hl H; cbn [fold_left]; [exact H|].
  inversion Hl; subst. apply IH; [assumption|]. apply poll1_CInv; [reflexivity|exact H].
Qed.

Lemma CInv_set_ready b now m j s l : Forall (fun tk => tk_inc tk = j) l -> CInv b now m j s ->
  CInv b now m j (on_w (fun w => set_mod w m (set_ready (w_mod w m) l)) s).
Proof.
  intros Hl [a b0 c d e f g]. constructor; cbn [on_w x_w x_log]; rewrite ?mod_same; cbn [inc ready timers active shut set_ready]; assumption.
Qed.

Lemma poll_ready_CInv b k now m j s : CInv b now m j s -> CInv b now m j (poll_ready k now m s).
Proof.
  intros H. unfold poll_ready. apply fold_poll1_CInv; [apply (ci_ready _ _ _ _ _ H)|].
  apply CInv_set_ready; [constructor|exact H].
Qed.

Lemma spawn_all_CInv b now m j ps s : CInv b now m j s -> CInv b now m j (on_w (spawn_all m ps) s).
Proof.
  intros H. unfold spawn_all. pose proof H as [a b0 c d e f g].
  constructor; cbn [on_w x_w x_log]; rewrite ?mod_same; cbn [inc ready timers active shut set_ready set_hnd]; try assumption.
  apply Forall_app. split; [exact b0|].
  apply Forall_forall. intros tk Hin. apply in_map_iff in Hin. destruct Hin as (ip & <- & _). cbn [tk_inc]. exact a.
Qed.

Lemma CInv_say_all_plain b now m j : forall l s, forallb plain l = true -> CInv b now m j s -> CInv b now m j (say_all l s).
Proof.
  induction l as [|i l IH] using rev_ind; intros s Hl H.
  - unfold say_all. rewrite app_nil_r. destruct s; exact H.
  - rewrite forallb_app in Hl. apply andb_prop in Hl. destruct Hl as [Hl Hi]. cbn [forallb] in Hi. rewrite andb_true_r in Hi.
    assert (E : say_all (l ++ [i]) s = say i (say_all l s)) by (unfold say_all, say; cbn [x_w x_log]; rewrite app_assoc; reflexivity).
    rewrite E. apply CInv_say_plain; [exact Hi|apply IH; assumption].
Qed.

Lemma spawn_items_plain m i ps : forallb plain (spawn_items m i ps) = true.
Proof. unfold spawn_items. induction (combine (seq 0 (length ps)) ps) as [|x l IH]; [reflexivity|exact IH]. Qed.

(* the callbacks' own call records carry no incarnation *)
Definition cb_plain (c : cb) : Prop := match c with CbTask _ _ | CbTimer _ _ => False | _ => True end.

Lemma exec_CInv b k now m c sp p j s : cb_plain c -> CInv b now m j s ->
  CInv b now m j (fst (exec k now m c sp p s)) /\
  (b = true -> snd (exec k now m c sp p s) = true -> panicked_st (fst (exec k now m c sp p s))).
Proof.
  intros Hc H. unfold exec.
  assert (H0 : CInv b now m j (say_all (spawn_items m (inc (w_mod (x_w s) m)) sp)
                                 (on_w (spawn_all m sp) (say (ICall m c now (active (w_mod (x_w s) m))) s)))).
  { apply CInv_say_all_plain; [apply spawn_items_plain|]. apply spawn_all_CInv, CInv_call; [destruct c; try exact I; destruct Hc|exact H]. }
  assert (Hw : false = true -> 0 <> 0) by discriminate.
  destruct (run_prog_CInv b false k now m 0 j Hw (fun _ => eq_refl) p _ H0) as [H1 H2].
  destruct (run_prog false k now m 0 p _) as [s2 r]. cbn [fst snd] in *.
  destruct r; cbn [fst snd].
  - split; [apply poll_ready_CInv, H1|discriminate].
  - split; [exact H1|]. intros Hb _. apply H2; auto.
  - split; [apply fold_end_task_CInv, CInv_set_ready; [constructor|exact H1]|discriminate].
  - split; [apply poll_ready_CInv, H1|discriminate].
Qed.

Lemma catch_CInv b now c m p j s : CInv b now m j s -> (b = true -> p = true -> panicked_st s) ->
  CInv b now m j {| x_w := fst (catch c m p (x_w s)); x_log := x_log s |}.
Proof.
  intros H Hp. unfold catch. destruct p; cbn [fst]; [|destruct s; exact H].
  assert (G : CInv b now m j {| x_w := set_mod (x_w s) m (set_active (w_mod (x_w s) m) false); x_log := x_log s |}).
  { destruct H as [a b0 c0 d e f g]. constructor; cbn [x_w x_log]; rewrite ?mod_same; cbn [inc ready timers active shut set_active]; try assumption.
    intros Hb. exists true. split; [apply Hp; auto|auto]. }
  destruct (catchf (w_mod (x_w s) m)); cbn [fst]; [exact G|].
  destruct G as [a b0 c0 d e f g]. constructor; cbn [x_w x_log set_err w_mod] in *; assumption.
Qed.

Lemma at_sim_start_CInv b k c now m stage j s : CInv b now m j s -> CInv b now m j (fst (at_sim_start k c now m stage s)).
Proof.
  intros H. unfold at_sim_start.
  set (e := if stage =? 0 then exec k now m (CbStart stage) (c_spawn c) (pick_start c (inc (w_mod (x_w s) m))) s
            else exec k now m (CbStart stage) [] [] s).
  assert (He : CInv b now m j (fst e) /\ (b = true -> snd e = true -> panicked_st (fst e))).
  { unfold e. destruct (stage =? 0); apply exec_CInv; try exact I; exact H. }
  destruct e as [s1 p]. cbn [fst snd] in He. destruct He as [H1 H2].
  pose proof (catch_CInv b now c m p j s1 H1) as H3.
  destruct (catch c m p (x_w s1)) as [w2 e2]. cbn [fst] in *. apply H3. intros Hb ->. auto.
Qed.

Lemma restart_fold_CInv b k c now m j : forall l s e, CInv b now m j s ->
  CInv b now m j (fst (fold_left (fun (acc : xs * bool) stage => if snd acc then acc else restart_stage k c now m stage (fst acc)) l (s, e))).
Proof.
  induction l as [|st l IH]; intros s e H; cbn [fold_left fst snd]; [exact H|].
  destruct e; [apply IH, H|].
  pose proof (at_sim_start_CInv b k c now m st j s H) as H1. unfold restart_stage.
  destruct (at_sim_start k c now m st s) as [s1 e1]. apply IH, H1.
Qed.

Lemma CInv_weaken b now m j s : CInv b now m j s -> CInv false now m j s.
Proof. intros [a b0 c d e f g]. constructor; try assumption. discriminate. Qed.

Lemma CInv_strengthen now m j s : CInv false now m j s -> x_log s = [] -> active (w_mod (x_w s) m) = true -> CInv true now m j s.
Proof. intros [a b0 c d e f g] Hl Ha. constructor; try assumption. intros _. exists false. rewrite Hl. auto. Qed.

(* callbacks of dispatched events: the scan of the event's log never fails *)
Definition scan_ok (s : xs) : Prop := act_st false (x_log s) <> None.

Lemma CInv_scan now m j s : CInv true now m j s -> scan_ok s.
Proof. intros H. destruct (ci_act _ _ _ _ _ H eq_refl) as (p & e & _). unfold scan_ok. rewrite e. discriminate. Qed.

Lemma handle_message_CInv k c now m x j s : CInv false now m j s -> x_log s = [] ->
  CInv false now m j (handle_message k c now m x s) /\ scan_ok (handle_message k c now m x s).
Proof.
  intros H Hl. unfold handle_message. destruct (active (w_mod (x_w s) m)) eqn:Ea.
  - pose proof (CInv_strengthen now m j s H Hl Ea) as Ht.
    destruct (exec_CInv true k now m (CbMsg x) [] (pick_msg c x) j s I Ht) as [H1 H2].
    destruct (exec k now m (CbMsg x) [] (pick_msg c x) s) as [s1 p]. cbn [fst snd] in *.
    assert (G : CInv true now m j {| x_w := fst (catch c m p (x_w s1)); x_log := x_log s1 |}).
    { apply catch_CInv; [exact H1|]. intros _ ->. auto. }
    split; [apply (CInv_weaken true now), G|apply (CInv_scan now m j), G].
  - split; [exact H|]. unfold scan_ok. rewrite Hl. discriminate.
Qed.

Lemma async_wakeup_CInv k now m j s : CInv false now m j s -> x_log s = [] ->
  CInv false now m j (async_wakeup k now m s) /\ scan_ok (async_wakeup k now m s).
Proof.
  intros H Hl. unfold async_wakeup. destruct (active (w_mod (x_w s) m)) eqn:Ea.
  - pose proof (poll_ready_CInv true k now m j s (CInv_strengthen now m j s H Hl Ea)) as G.
    split; [apply (CInv_weaken true now), G|apply (CInv_scan now m j), G].
  - split; [exact H|]. unfold scan_ok. rewrite Hl. discriminate.
Qed.

Lemma module_restart_CInv k c now m j s : CInv false now m j s -> x_log s = [] ->
  CInv false now m j (module_restart k c now m s) /\ scan_ok (module_restart k c now m s).
Proof.
  intros H Hl. unfold module_restart.
  assert (Ht : CInv true now m j (on_w (fun w => set_mod w m (set_active (w_mod w m) true)) s)).
  { destruct H as [a b0 c0 d e f g]. constructor; cbn [on_w x_w x_log]; rewrite ?mod_same; cbn [inc ready timers active shut set_active]; try assumption.
    intros _. exists false. rewrite Hl. auto. }
  pose proof (restart_fold_CInv true k c now m j (stage_list (c_stages c)) _ false Ht) as G.
  split; [apply (CInv_weaken true now), G|apply (CInv_scan now m j), G].
Qed.

Lemma at_sim_end_CInv k c now m j s : CInv false now m j s -> CInv false now m j (at_sim_end k c now m s).
Proof.
  intros H. unfold at_sim_end.
  destruct (exec_CInv false k now m CbEnd [] (c_end c) j s I H) as [H1 _].
  destruct (exec k now m CbEnd [] (c_end c) s) as [s1 p]. cbn [fst] in H1.
  pose proof (catch_CInv false now c m p j s1 H1) as H3.
  destruct (catch c m p (x_w s1)) as [w2 e2]. cbn [fst] in H3.
  assert (G : CInv false now m j {| x_w := w2; x_log := x_log s1 |}) by (apply H3; discriminate).
  destruct e2; [exact G|].
  pose proof (poll_ready_CInv false k now m j _ G) as [a b0 c0 d e f g].
  constructor; cbn [on_w x_w x_log set_err w_mod] in *; assumption.
Qed.
