(* The "falls silent" variant of a script ([quieten m sc]: module m's callbacks run quiet where
   they would have panicked) and how a callback of m behaves in the two scripts: identically up
   to the first panic / quiet, where the panicking one unwinds and the quiet one requests
   shutdown and drops its woken tasks. *)
From Coq Require Import List NArith Bool Lia PeanoNat.
From DesVerif Require Import Life.Model Life.Base Life.Step Life.Agree.
Import ListNotations.
Open Scope N_scope.

(* ---- the scripts ---- *)
Lemma upd_nth_length {A} (f : A -> A) : forall n l, length (upd_nth n f l) = length l.
Proof. induction n as [|n IH]; intros [|x l]; cbn [upd_nth length]; try reflexivity. rewrite IH. reflexivity. Qed.

Lemma nth_upd_nth {A} (f : A -> A) d : f d = d -> forall n k l,
  nth n (upd_nth k f l) d = if Nat.eqb n k then f (nth n l d) else nth n l d.
Proof.
  intros Hd. induction n as [|n IH]; intros k l; destruct l as [|x l]; destruct k as [|k]; cbn [upd_nth nth Nat.eqb]; try reflexivity.
  - rewrite Hd. reflexivity.
  - destruct (Nat.eqb n k); [rewrite Hd|]; reflexivity.
  - apply IH.
Qed.

Lemma quiet_cfg0 : quiet_cfg cfg0 = cfg0.
Proof. reflexivity. Qed.

Lemma cfg_quieten m sc i : cfg (quieten m sc) i = if i =? m then quiet_cfg (cfg sc i) else cfg sc i.
Proof.
  unfold cfg, quieten. cbn [s_mods]. rewrite (nth_upd_nth quiet_cfg cfg0 quiet_cfg0).
  destruct (N.eqb_spec i m) as [->|Hn]; [rewrite Nat.eqb_refl; reflexivity|].
  destruct (Nat.eqb_spec (N.to_nat i) (N.to_nat m)) as [E|_]; [|reflexivity]. apply Nnat.N2Nat.inj in E. contradiction.
Qed.

Lemma nmods_quieten m sc : nmods (quieten m sc) = nmods sc.
Proof. unfold nmods, quieten. cbn [s_mods]. rewrite upd_nth_length. reflexivity. Qed.

Lemma mods_quieten m sc : mods (quieten m sc) = mods sc.
Proof. unfold mods, quieten. cbn [s_mods]. rewrite upd_nth_length. reflexivity. Qed.

Lemma max_stage_quieten m sc : max_stage (quieten m sc) = max_stage sc.
Proof.
  unfold max_stage, quieten. cbn [s_mods]. generalize (N.to_nat m). intros n. revert n.
  induction (s_mods sc) as [|c l IH]; intros [|n]; cbn [upd_nth fold_right]; try reflexivity. rewrite IH. reflexivity.
Qed.

Lemma init_quieten m sc : w_fes (init_world (quieten m sc)) = w_fes (init_world sc) /\
  forall i, w_mod (init_world (quieten m sc)) i = w_mod (init_world sc) i.
Proof.
  split; [reflexivity|]. intros i. unfold init_world. cbn [w_mod]. rewrite cfg_quieten. destruct (i =? m); reflexivity.
Qed.

Lemma pick_msg_quiet c x : pick_msg (quiet_cfg c) x = map quiet_act (pick_msg c x).
Proof.
  unfold pick_msg, quiet_cfg. cbn [c_msg]. destruct (c_msg c) as [|p l] eqn:E; [reflexivity|].
  cbn [map]. rewrite <- (map_cons (map quiet_act) p l), map_length. apply (map_nth (map quiet_act) (p :: l) []).
Qed.

Lemma pick_start_quiet c i : pick_start (quiet_cfg c) i = map quiet_act (pick_start c i).
Proof. unfold pick_start, quiet_cfg. cbn [c_start]. rewrite map_length. apply (map_nth (map quiet_act) (c_start c) []). Qed.

(* ---- one callback of m in the two scripts ---- *)
(* after the divergence: [s1] has just written its panic record, [s1'] has run quiet *)
Lemma run_prog_quiet k now i : forall p s s', AgreeX i s s' ->
  (snd (run_prog false k now i 0 p s) = snd (run_prog false k now i 0 (map quiet_act p) s') /\
   snd (run_prog false k now i 0 p s) <> RPanic /\
   AgreeX i (fst (run_prog false k now i 0 p s)) (fst (run_prog false k now i 0 (map quiet_act p) s'))) \/
  (snd (run_prog false k now i 0 p s) = RPanic /\ snd (run_prog false k now i 0 (map quiet_act p) s') = RQuiet /\
   exists s2 s2', AgreeX i s2 s2' /\ fst (run_prog false k now i 0 p s) = say (IPanic i 0 (catchf (w_mod (x_w s2) i))) s2 /\
                  fst (run_prog false k now i 0 (map quiet_act p) s') = quiet i s2').
Proof.
  induction p as [|a p IH]; intros s s' H; cbn [map run_prog fst snd].
  - left. split; [reflexivity|split; [discriminate|exact H]].
  - destruct a; cbn [quiet_act run_prog andb]; try (apply IH, do_act_agree, H).
    + apply IH, H.
    + right. cbn [fst snd]. split; [reflexivity|split; [reflexivity|]]. exists s, s'. auto.
    + left. cbn [fst snd]. split; [reflexivity|split; [discriminate|apply quiet_agree, H]].
Qed.

(* what is left of module i in the quiet run, compared with the panicking run, right after the
   callback (before Harness::catch) *)
Record Div (i : N) (w w' : world) : Prop := {
  dv_buf : w_buf w = w_buf w';
  dv_act : forall j, j <> i -> active (w_mod w j) = active (w_mod w' j);
  dv_timers : timers (w_mod w i) = timers (w_mod w' i);
  dv_nw : nw (w_mod w i) = nw (w_mod w' i);
  dv_inc : inc (w_mod w i) = inc (w_mod w' i);
  dv_bud : bud (w_mod w i) = bud (w_mod w' i);
  dv_tp : hnd (w_mod w i) = hnd (w_mod w' i);
  dv_catch : catchf (w_mod w i) = catchf (w_mod w' i);
  dv_ready : ready (w_mod w' i) = [];
  dv_shut : shut (w_mod w' i) = Some (match shut (w_mod w i) with Some r => r | None => None end) }.

Lemma fold_end_task_w m : forall l s, w_mod (x_w (fold_left (end_task m 0) l s)) = w_mod (x_w s) /\
  w_buf (x_w (fold_left (end_task m 0) l s)) = w_buf (x_w s).
Proof. induction l as [|tk l IH]; intros s; cbn [fold_left]; [auto|]. destruct (IH (end_task m 0 s tk)) as [a b]. rewrite a, b. auto. Qed.

Lemma exec_quiet k now i c sp p s s' : AgreeX i s s' ->
  (snd (exec k now i c sp p s) = false /\ snd (exec k now i c sp (map quiet_act p) s') = false /\
   AgreeX i (fst (exec k now i c sp p s)) (fst (exec k now i c sp (map quiet_act p) s'))) \/
  (snd (exec k now i c sp p s) = true /\ snd (exec k now i c sp (map quiet_act p) s') = false /\
   Div i (x_w (fst (exec k now i c sp p s))) (x_w (fst (exec k now i c sp (map quiet_act p) s')))).
Proof.
  intros H. pose proof H as [Ha Hl]. unfold exec. rewrite (ag_act _ _ _ Ha i), (ag_mod _ _ _ Ha).
  match goal with |- context [run_prog false k now i 0 p (say_all ?l (on_w ?f (say ?it s)))] =>
    assert (H0 : AgreeX i (say_all l (on_w f (say it s))) (say_all l (on_w f (say it s'))))
      by (apply AgreeX_say_all, AgreeX_on_w; [apply AgreeX_say, H|apply spawn_all_agree, Ha]);
    destruct (run_prog_quiet k now i p _ _ H0) as [(E1 & E2 & E3)|(E1 & E2 & s2 & s2' & E3 & E4 & E5)];
    destruct (run_prog false k now i 0 p (say_all l (on_w f (say it s)))) as [r1 res1];
    destruct (run_prog false k now i 0 (map quiet_act p) (say_all l (on_w f (say it s')))) as [r1' res1'] end; cbn [fst snd] in *.
  - left. subst res1'. destruct res1; cbn [fst snd].
    + split; [reflexivity|split; [reflexivity|apply poll_ready_agree, E3]].
    + exfalso. apply E2. reflexivity.
    + split; [reflexivity|split; [reflexivity|]]. rewrite (ag_mod _ _ _ (proj1 E3)). apply fold_end_task_agree.
      apply AgreeX_on_w; [exact E3|]. apply (Agree_upd i _ _ (fun x => set_ready x []) (proj1 E3)).
    + split; [reflexivity|split; [reflexivity|apply poll_ready_agree, E3]].
  - right. subst res1 res1' r1 r1'. cbn [fst snd]. split; [reflexivity|split; [reflexivity|]].
    destruct E3 as [[a b c0] _].
    match goal with |- Div i _ (x_w (fold_left ?f0 ?l0 ?s0)) => destruct (fold_end_task_w i l0 s0) as [Fm Fb]; generalize Fm Fb; generalize (x_w (fold_left f0 l0 s0)) end.
    intros wq Fm' Fb'. clear Fm Fb. unfold quiet in *.
    destruct (shut (w_mod (x_w s2') i)) as [r|] eqn:Es; unfold request in *; cbn [say on_w x_w] in *.
    + constructor; rewrite ?Fm', ?Fb'; cbn [w_buf w_mod set_mod]; rewrite ?N.eqb_refl; cbn [timers nw inc bud hnd catchf ready shut set_ready];
        rewrite ?a, ?Es; try reflexivity; try exact c0.
      intros j Hj. apply N.eqb_neq in Hj. rewrite Hj. apply b.
    + constructor; rewrite ?Fm', ?Fb'; cbn [w_buf w_mod set_mod]; rewrite ?N.eqb_refl; cbn [w_mod set_mod]; rewrite ?N.eqb_refl;
        cbn [timers nw inc bud hnd catchf ready shut set_ready set_shut]; rewrite ?a, ?Es; try reflexivity; try exact c0.
      intros j Hj. apply N.eqb_neq in Hj. rewrite !Hj. apply b.
Qed.
