(* Event sets up to events that are inert because module m is inactive for good (its wake-ups,
   messages for it, messages leaving its gates): such events change nothing but the event set,
   and only by further inert events.  Used by Life/Silent.v. *)
From Coq Require Import List NArith Bool Lia Sorting.Sorted.
From DesVerif Require Import Life.Model Life.Base Life.Step Life.Agree.
Import ListNotations.
Open Scope N_scope.

Section Strip.
Variable m : N.

Definition inert (ev : fev) : bool :=
  match ev with EvWake i | EvDeliver i _ | EvExit i _ _ => i =? m | EvRestart _ => false end.
Definition keep (p : N * fev) : bool := negb (inert (snd p)).
Definition strip (l : list (N * fev)) : list (N * fev) := filter keep l.

Lemma strip_app a b : strip (a ++ b) = strip a ++ strip b.
Proof. apply filter_app. Qed.

Definition time_le (a b : N * fev) : Prop := fst a <= fst b.
Definition Sorted_t (l : list (N * fev)) : Prop := StronglySorted time_le l.

Lemma fes_ins_in t e : forall l y, In y (fes_ins t e l) -> y = (t, e) \/ In y l.
Proof.
  induction l as [|x r IH]; intros y H; cbn [fes_ins] in H.
  - destruct H as [<-|[]]. left; reflexivity.
  - destruct (t <? fst x).
    + destruct H as [<-|H]; [left; reflexivity|right; exact H].
    + destruct H as [<-|H]; [right; left; reflexivity|]. destruct (IH y H) as [->|Hy]; [left; reflexivity|right; right; exact Hy].
Qed.

Lemma fes_ins_sorted t e l : Sorted_t l -> Sorted_t (fes_ins t e l).
Proof.
  induction 1 as [|x r Hs IH Hf]; cbn [fes_ins]; [repeat constructor|].
  destruct (t <? fst x) eqn:E.
  - apply N.ltb_lt in E. constructor; [constructor; assumption|].
    constructor; [unfold time_le; cbn [fst]; lia|].
    rewrite Forall_forall in *. intros y Hy. specialize (Hf y Hy). unfold time_le in *. cbn [fst]. lia.
  - apply N.ltb_ge in E. constructor; [exact IH|].
    rewrite Forall_forall in *. intros y Hy. destruct (fes_ins_in t e r y Hy) as [->|Hy'].
    + unfold time_le. cbn [fst]. exact E.
    + apply Hf, Hy'.
Qed.

(* inserting at the front of a list whose entries are all later *)
Lemma fes_ins_front t e l : Forall (fun y => t < fst y) l -> fes_ins t e l = (t, e) :: l.
Proof. intros H. destruct l as [|x r]; [reflexivity|]. inversion H; subst. cbn [fes_ins]. apply N.ltb_lt in H2. rewrite H2. reflexivity. Qed.

Lemma strip_forall (P : N * fev -> Prop) l : Forall P l -> Forall P (strip l).
Proof. intros H. apply Forall_forall. intros y Hy. apply filter_In in Hy. rewrite Forall_forall in H. apply H, Hy. Qed.

Lemma strip_ins t e : forall l, Sorted_t l ->
  strip (fes_ins t e l) = if keep (t, e) then fes_ins t e (strip l) else strip l.
Proof.
  induction 1 as [|x r Hs IH Hf]; cbn [fes_ins].
  - cbn [strip filter]. destruct (keep (t, e)); reflexivity.
  - destruct (t <? fst x) eqn:E.
    + apply N.ltb_lt in E. change (strip ((t, e) :: x :: r)) with (if keep (t, e) then (t, e) :: strip (x :: r) else strip (x :: r)).
      destruct (keep (t, e)); [|reflexivity]. symmetry. apply fes_ins_front. apply strip_forall. constructor; [exact E|].
      rewrite Forall_forall in *. intros y Hy. specialize (Hf y Hy). unfold time_le in Hf. lia.
    + change (strip (x :: fes_ins t e r)) with (if keep x then x :: strip (fes_ins t e r) else strip (fes_ins t e r)).
      change (strip (x :: r)) with (if keep x then x :: strip r else strip r).
      rewrite IH. destruct (keep (t, e)); destruct (keep x); try reflexivity. cbn [fes_ins]. rewrite E. reflexivity.
Qed.

(* ---- well-formed event sets ---- *)
Record WF (f : fes) : Prop := {
  wf_zero : Forall (fun p => fst p = f_tcur f) (f_zero f);
  wf_sorted : Sorted_t (f_rest f) }.

Lemma WF_add t e f : WF f -> WF (fes_add t e f).
Proof.
  intros [a b]. unfold fes_add. destruct (t =? f_tcur f) eqn:E; constructor; cbn [f_tcur f_zero f_rest]; try assumption.
  - apply Forall_app. split; [exact a|]. constructor; [cbn [fst]; apply N.eqb_eq, E|constructor].
  - apply fes_ins_sorted, b.
Qed.

Lemma WF_flush : forall ps f, WF f -> WF (fes_flush ps f).
Proof. induction ps as [|p ps IH]; intros f H; cbn [fes_flush fold_left]; [exact H|]. apply IH, WF_add, H. Qed.

Lemma WF_fetch f t ev f' : WF f -> fes_fetch f = Some (t, ev, f') -> WF f' /\ f_tcur f' = t.
Proof.
  intros [a b]. unfold fes_fetch. destruct (f_zero f) as [|x z] eqn:Ez.
  - destruct (f_rest f) as [|x r] eqn:Er; [discriminate|]. intros H. injection H as -> <-.
    inversion b; subst. split; [constructor; cbn [f_tcur f_zero f_rest]; [constructor|assumption]|reflexivity].
  - intros H. injection H as -> <-. inversion a; subst. split; [constructor; cbn [f_tcur f_zero f_rest]; assumption|].
    cbn [f_tcur fst] in *. congruence.
Qed.

Lemma WF_empty t : WF {| f_tcur := t; f_zero := []; f_rest := [] |}.
Proof. constructor; constructor. Qed.

(* ---- event sets related up to inert events ---- *)
Record FesRel (f f' : fes) : Prop := {
  fr_zero : strip (f_zero f) = strip (f_zero f');
  fr_rest : strip (f_rest f) = strip (f_rest f') }.

Lemma FesRel_refl f : FesRel f f.
Proof. constructor; reflexivity. Qed.

Lemma FesRel_add t e f f' : FesRel f f' -> WF f -> WF f' -> f_tcur f = f_tcur f' -> FesRel (fes_add t e f) (fes_add t e f').
Proof.
  intros [a b] [_ s1] [_ s2] Et. unfold fes_add. rewrite <- Et. destruct (t =? f_tcur f); constructor; cbn [f_zero f_rest]; try assumption.
  - rewrite !strip_app, a. reflexivity.
  - rewrite !strip_ins by assumption. rewrite b. reflexivity.
Qed.

Lemma fes_add_tcur t e f : f_tcur (fes_add t e f) = f_tcur f.
Proof. unfold fes_add. destruct (t =? f_tcur f); reflexivity. Qed.

Lemma fes_flush_tcur : forall ps f, f_tcur (fes_flush ps f) = f_tcur f.
Proof. induction ps as [|p ps IH]; intros f; cbn [fes_flush fold_left]; [reflexivity|]. fold (fes_flush ps (fes_add (fst p) (snd p) f)). rewrite IH. apply fes_add_tcur. Qed.

Lemma FesRel_flush : forall ps f f', FesRel f f' -> WF f -> WF f' -> f_tcur f = f_tcur f' ->
  FesRel (fes_flush ps f) (fes_flush ps f').
Proof.
  induction ps as [|p ps IH]; intros f f' H W W' Et; cbn [fes_flush fold_left]; [exact H|].
  apply IH; [apply FesRel_add; assumption|apply WF_add, W|apply WF_add, W'|rewrite !fes_add_tcur; exact Et].
Qed.

(* adding an inert event on one side only *)
Lemma FesRel_add_l t e f f' : inert e = true -> FesRel f f' -> WF f -> FesRel (fes_add t e f) f'.
Proof.
  intros Hi [a b] [_ s1]. unfold fes_add. destruct (t =? f_tcur f); constructor; cbn [f_zero f_rest]; try assumption.
  - rewrite strip_app. cbn [strip filter]. unfold keep at 1. cbn [snd]. rewrite Hi. cbn [negb]. rewrite app_nil_r. exact a.
  - rewrite strip_ins by assumption. unfold keep. cbn [snd]. rewrite Hi. exact b.
Qed.

Lemma FesRel_sym f f' : FesRel f f' -> FesRel f' f.
Proof. intros [a b]. constructor; symmetry; assumption. Qed.

Lemma FesRel_add_r t e f f' : inert e = true -> FesRel f f' -> WF f' -> FesRel f (fes_add t e f').
Proof. intros Hi H W. apply FesRel_sym, FesRel_add_l; [exact Hi|apply FesRel_sym, H|exact W]. Qed.

(* ---- fetching ---- *)
Lemma fetch_inert_l f f' t ev f1 : fes_fetch f = Some (t, ev, f1) -> inert ev = true -> FesRel f f' -> FesRel f1 f'.
Proof.
  unfold fes_fetch. intros H Hi [a b]. destruct (f_zero f) as [|x z] eqn:Ez.
  - destruct (f_rest f) as [|x r] eqn:Er; [discriminate|]. injection H as Hx <-. constructor; cbn [f_zero f_rest]; [exact a|].
    rewrite <- b. cbn [strip filter]. unfold keep. rewrite Hx. cbn [snd]. rewrite Hi. reflexivity.
  - injection H as Hx <-. constructor; cbn [f_zero f_rest]; [|exact b].
    rewrite <- a. cbn [strip filter]. unfold keep. rewrite Hx. cbn [snd]. rewrite Hi. reflexivity.
Qed.

Lemma fetch_inert_r f f' t ev f1 : fes_fetch f' = Some (t, ev, f1) -> inert ev = true -> FesRel f f' -> FesRel f f1.
Proof. intros H Hi R. apply FesRel_sym. eapply fetch_inert_l; eauto. apply FesRel_sym, R. Qed.

Lemma fetch_none_l f f' t ev f1 : fes_fetch f = None -> FesRel f f' -> fes_fetch f' = Some (t, ev, f1) -> inert ev = true.
Proof.
  unfold fes_fetch. intros H [a b]. destruct (f_zero f); [|discriminate]. destruct (f_rest f); [|discriminate]. cbn [strip filter] in a, b.
  destruct (f_zero f') as [|x z].
  - destruct (f_rest f') as [|x r]; [discriminate|]. intros E. injection E as Hx _. cbn [strip filter] in b.
    unfold keep in b. rewrite Hx in b. cbn [snd] in b. destruct (inert ev); [reflexivity|discriminate].
  - intros E. injection E as Hx _. cbn [strip filter] in a. unfold keep in a. rewrite Hx in a. cbn [snd] in a.
    destruct (inert ev); [reflexivity|discriminate].
Qed.

Lemma fetch_none_r f f' t ev f1 : fes_fetch f' = None -> FesRel f f' -> fes_fetch f = Some (t, ev, f1) -> inert ev = true.
Proof. intros H R. eapply fetch_none_l; [exact H|apply FesRel_sym, R]. Qed.

(* both sides fetch an event that is not inert: it is the same event *)
Lemma fetch_common f f' t ev f1 t' ev' f1' :
  FesRel f f' -> fes_fetch f = Some (t, ev, f1) -> inert ev = false ->
  fes_fetch f' = Some (t', ev', f1') -> inert ev' = false ->
  t' = t /\ ev' = ev /\ FesRel f1 f1'.
Proof.
  unfold fes_fetch. intros [a b] H Hi H' Hi'.
  assert (K : forall tt e l, inert e = false -> strip ((tt, e) :: l) = (tt, e) :: strip l)
    by (intros tt e l He; cbn [strip filter]; unfold keep; cbn [snd]; rewrite He; reflexivity).
  destruct (f_zero f) as [|x z] eqn:Ez; destruct (f_zero f') as [|x' z'] eqn:Ez'.
  - destruct (f_rest f) as [|x r] eqn:Er; [discriminate|]. destruct (f_rest f') as [|x' r'] eqn:Er'; [discriminate|].
    injection H as -> <-. injection H' as -> <-. rewrite !K in b by assumption. injection b as -> -> b.
    repeat split; try reflexivity; cbn [f_zero f_rest]; assumption.
  - injection H' as -> <-. rewrite K in a by assumption. discriminate.
  - injection H as -> <-. rewrite K in a by assumption. discriminate.
  - injection H as -> <-. injection H' as -> <-. rewrite !K in a by assumption. injection a as -> -> a.
    repeat split; try reflexivity; cbn [f_zero f_rest]; assumption.
Qed.

End Strip.
