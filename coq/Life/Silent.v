(* C13 others_as_if_silent: the run of a script and the run of its variant in which module m
   falls silent where its callbacks would have panicked produce the same records for every
   other module.  Two phases: as long as m has not panicked the two worlds are equal; after
   a panic that leaves m dead for good they agree on every other module and on the event set
   up to events that are inert for a dead m (Life/Strip.v). *)
From Coq Require Import List NArith Bool Lia PeanoNat.
From DesVerif Require Import Common.Fuel Life.Model Life.Base Life.Step Life.Trace Life.Frame Life.Inert Life.Inv Life.Events
  Life.Restart Life.Agree Life.Strip Life.Quiet Life.SilentBase.
Import ListNotations.
Open Scope N_scope.

Section Silent.
Variables (sc : script) (m : N).
Let sc' := quieten m sc.

Lemma cfg_other i : i <> m -> cfg sc' i = cfg sc i.
Proof. intros H. unfold sc'. rewrite cfg_quieten. apply N.eqb_neq in H. rewrite H. reflexivity. Qed.

Lemma cfg_self : cfg sc' m = quiet_cfg (cfg sc m).
Proof. unfold sc'. rewrite cfg_quieten, N.eqb_refl. reflexivity. Qed.

Lemma nmods' : nmods sc' = nmods sc.
Proof. apply nmods_quieten. Qed.

(* records of modules other than m *)
Definition others (l : list item) : list item :=
  filter (fun i => match item_mod i with Some j => negb (j =? m) | None => false end) l.

Lemma others_app a b : others (a ++ b) = others a ++ others b.
Proof. apply filter_app. Qed.

Lemma others_own l : Own m l -> others l = [].
Proof.
  unfold Own, others. induction 1 as [|i l Hi _ IH]; [reflexivity|]. cbn [filter]. rewrite Hi, N.eqb_refl. exact IH.
Qed.

Lemma others_sample t k : others [ISample t k] = [].
Proof. reflexivity. Qed.

(* ---- the two phases ---- *)
Record Same (w w' : world) : Prop := {
  sm_mod : forall i, w_mod w i = w_mod w' i;
  sm_fes : w_fes w = w_fes w';
  sm_buf : w_buf w = [] /\ w_buf w' = [] }.

Record Dead (w w' : world) : Prop := {
  dd_oth : forall i, i <> m -> w_mod w i = w_mod w' i;
  dd_act : active (w_mod w m) = false /\ active (w_mod w' m) = false;
  dd_shut : shut (w_mod w m) = None /\ shut (w_mod w' m) = None;
  dd_buf : w_buf w = [] /\ w_buf w' = [];
  dd_fes : FesRel m (w_fes w) (w_fes w');
  dd_nr : restart_times m (w_fes w) = [] /\ restart_times m (w_fes w') = [] }.

Definition Rel (w w' : world) : Prop := (Same w w' \/ Dead w w') /\ WF (w_fes w) /\ WF (w_fes w').

Lemma Same_agree i w w' : Same w w' -> Agree i w w'.
Proof. intros [a b [c d]]. constructor; [apply a|intros j; rewrite a; reflexivity|rewrite c, d; reflexivity]. Qed.

Lemma Dead_agree i w w' : i <> m -> Dead w w' -> Agree i w w'.
Proof.
  intros Hi [a [b1 b2] _ [c d] _ _]. constructor; [apply a, Hi| |rewrite c, d; reflexivity].
  intros j. destruct (N.eq_dec j m) as [->|Hj]; [rewrite b1, b2; reflexivity|rewrite (a j Hj); reflexivity].
Qed.

(* ---- an event of a module other than m, on worlds that agree on it ---- *)
Lemma other_event now i f w w' : i <> m -> Agree i w w' -> w_buf w = [] -> w_buf w' = [] -> CbOK i f ->
  (forall s s', AgreeX i s s' -> AgreeX i (f s) (f s')) ->
  snd (around sc now i f w) = snd (around sc' now i f w') /\
  w_mod (fst (around sc now i f w)) i = w_mod (fst (around sc' now i f w')) i /\
  (forall j, j <> i -> w_mod (fst (around sc now i f w)) j = w_mod w j /\ w_mod (fst (around sc' now i f w')) j = w_mod w' j) /\
  (w_buf (fst (around sc now i f w)) = [] /\ w_buf (fst (around sc' now i f w')) = []) /\
  exists adds, w_fes (fst (around sc now i f w)) = fes_flush adds (w_fes w) /\
               w_fes (fst (around sc' now i f w')) = fes_flush adds (w_fes w') /\ Forall (add_ok i) adds.
Proof.
  intros Hi Hag Hb Hb' Hok Hf.
  assert (H0 : AgreeX i {| x_w := activate now i w; x_log := [] |} {| x_w := activate now i w'; x_log := [] |})
    by (split; [apply activate_agree, Hag|reflexivity]).
  destruct (Hf _ _ H0) as [Ha Hl].
  destruct (around_agree2 sc sc' now i f f w w' Hag Hok Hok Hb Ha) as (A1 & A2 & A3).
  split; [apply A3; [symmetry; apply cfg_other, Hi|exact Hl]|].
  split; [apply (ag_mod _ _ _ A1)|]. split; [|split; [split; apply around_glob|exact A2]].
  intros j Hj. split; apply around_oth; assumption.
Qed.

Lemma same_other_event now i f w w' : i <> m -> Same w w' -> CbOK i f ->
  (forall s s', AgreeX i s s' -> AgreeX i (f s) (f s')) ->
  snd (around sc now i f w) = snd (around sc' now i f w') /\ Same (fst (around sc now i f w)) (fst (around sc' now i f w')) /\
  (WF (w_fes w) -> WF (w_fes w') -> WF (w_fes (fst (around sc now i f w))) /\ WF (w_fes (fst (around sc' now i f w')))) /\
  f_tcur (w_fes (fst (around sc now i f w))) = f_tcur (w_fes w) /\ f_tcur (w_fes (fst (around sc' now i f w'))) = f_tcur (w_fes w').
Proof.
  intros Hi HS Hok Hf. pose proof HS as [a b [c d]].
  destruct (other_event now i f w w' Hi (Same_agree i w w' HS) c d Hok Hf) as (E1 & E2 & E3 & E4 & adds & E5 & E6 & _).
  split; [exact E1|]. split.
  - constructor; [|rewrite E5, E6, b; reflexivity|exact E4].
    intros j. destruct (N.eq_dec j i) as [->|Hj]; [exact E2|]. destruct (E3 j Hj) as [-> ->]. apply a.
  - split; [intros W W'; rewrite E5, E6; split; apply WF_flush; assumption|].
    rewrite E5, E6, !fes_flush_tcur. auto.
Qed.

Lemma dead_other_event now i f w w' : i <> m -> Dead w w' -> CbOK i f ->
  (forall s s', AgreeX i s s' -> AgreeX i (f s) (f s')) ->
  WF (w_fes w) -> WF (w_fes w') -> f_tcur (w_fes w) = f_tcur (w_fes w') ->
  snd (around sc now i f w) = snd (around sc' now i f w') /\ Dead (fst (around sc now i f w)) (fst (around sc' now i f w')) /\
  WF (w_fes (fst (around sc now i f w))) /\ WF (w_fes (fst (around sc' now i f w'))) /\
  f_tcur (w_fes (fst (around sc now i f w))) = f_tcur (w_fes w) /\ f_tcur (w_fes (fst (around sc' now i f w'))) = f_tcur (w_fes w').
Proof.
  intros Hi HD Hok Hf W W' Et. pose proof HD as [a [b1 b2] [s1 s2] [c d] fr [n1 n2]].
  destruct (other_event now i f w w' Hi (Dead_agree i w w' Hi HD) c d Hok Hf) as (E1 & E2 & E3 & E4 & adds & E5 & E6 & E7).
  assert (Hm : m <> i) by (intros E; apply Hi; symmetry; exact E).
  destruct (E3 m Hm) as [M1 M2].
  split; [exact E1|]. split; [|rewrite E5, E6, !fes_flush_tcur; repeat split; try reflexivity; apply WF_flush; assumption].
  constructor.
  - intros j Hj. destruct (N.eq_dec j i) as [->|Hji]; [exact E2|]. destruct (E3 j Hji) as [-> ->]. apply a, Hj.
  - rewrite M1, M2. auto.
  - rewrite M1, M2. auto.
  - exact E4.
  - rewrite E5, E6. apply FesRel_flush; assumption.
  - rewrite E5, E6, !(flush_rt_addok m i Hi) by assumption. auto.
Qed.

(* ---- an event of m itself while the two worlds are still equal ---- *)
Definition Post (s s' : xs) : Prop :=
  Agree m (x_w s) (x_w s') \/ (Div m (x_w s) (x_w s') /\ active (w_mod (x_w s) m) = false).

Lemma Div_catch c w w' : Div m w w' ->
  Div m (fst (catch c m true w)) w' /\ active (w_mod (fst (catch c m true w)) m) = false.
Proof.
  intros [a b c0 d e f g gc h i]. unfold catch.
  assert (G : Div m (set_mod w m (set_active (w_mod w m) false)) w').
  { constructor; cbn [w_buf w_mod set_mod]; rewrite ?N.eqb_refl; cbn [timers nw inc bud hnd catchf shut set_active]; try assumption.
    intros j Hj. apply N.eqb_neq in Hj. rewrite Hj. apply b. apply N.eqb_neq, Hj. }
  destruct (catchf (w_mod w m)); cbn [fst]; (split; [|cbn [w_mod set_err set_mod]; rewrite N.eqb_refl; reflexivity]); [exact G|].
  destruct G as [a' b' c' d' e' f' g' gc' h' i']. constructor; assumption.
Qed.

Lemma at_sim_start0_post now s s' : AgreeX m s s' ->
  Post (fst (at_sim_start (nmods sc) (cfg sc m) now m 0 s)) (fst (at_sim_start (nmods sc') (cfg sc' m) now m 0 s')).
Proof.
  intros H. pose proof H as [Ha Hl]. unfold at_sim_start. rewrite N.eqb_refl, nmods', cfg_self, pick_start_quiet.
  change (c_spawn (quiet_cfg (cfg sc m))) with (c_spawn (cfg sc m)). rewrite <- (ag_mod _ _ _ Ha).
  destruct (exec_quiet (nmods sc) now m (CbStart 0) (c_spawn (cfg sc m)) (pick_start (cfg sc m) (inc (w_mod (x_w s) m))) s s' H)
    as [(E1 & E2 & E3)|(E1 & E2 & E3)];
    destruct (exec (nmods sc) now m (CbStart 0) (c_spawn (cfg sc m)) (pick_start (cfg sc m) (inc (w_mod (x_w s) m))) s) as [s1 p1];
    destruct (exec (nmods sc) now m (CbStart 0) (c_spawn (cfg sc m)) (map quiet_act (pick_start (cfg sc m) (inc (w_mod (x_w s) m)))) s') as [s1' p1'];
    cbn [fst snd] in *; subst p1 p1'.
  - left. cbn [catch fst x_w]. exact (proj1 E3).
  - right. destruct (Div_catch (cfg sc m) _ _ E3) as [D1 D2].
    destruct (catch (cfg sc m) m true (x_w s1)) as [w2 e2]. cbn [catch fst x_w] in *. auto.
Qed.

Lemma handle_message_post now x s s' : AgreeX m s s' ->
  Post (handle_message (nmods sc) (cfg sc m) now m x s) (handle_message (nmods sc') (cfg sc' m) now m x s').
Proof.
  intros H. pose proof H as [Ha Hl]. unfold handle_message. rewrite nmods', cfg_self, pick_msg_quiet, <- (ag_act _ _ _ Ha m).
  destruct (active (w_mod (x_w s) m)); [|left; exact Ha].
  destruct (exec_quiet (nmods sc) now m (CbMsg x) [] (pick_msg (cfg sc m) x) s s' H) as [(E1 & E2 & E3)|(E1 & E2 & E3)];
    destruct (exec (nmods sc) now m (CbMsg x) [] (pick_msg (cfg sc m) x) s) as [s1 p1];
    destruct (exec (nmods sc) now m (CbMsg x) [] (map quiet_act (pick_msg (cfg sc m) x)) s') as [s1' p1'];
    cbn [fst snd] in *; subst p1 p1'.
  - left. cbn [catch fst x_w]. exact (proj1 E3).
  - right. destruct (Div_catch (cfg sc m) _ _ E3) as [D1 D2]. cbn [x_w]. change (catch (quiet_cfg (cfg sc m)) m false (x_w s1')) with (x_w s1', false).
    cbn [fst]. auto.
Qed.

(* start-up stages other than 0 run no program: the two scripts do the same *)
Lemma at_sim_start_later now stage s : stage <> 0 ->
  at_sim_start (nmods sc') (cfg sc' m) now m stage s = at_sim_start (nmods sc) (cfg sc m) now m stage s.
Proof.
  intros H. apply N.eqb_neq in H. unfold at_sim_start. rewrite H, nmods', cfg_self. reflexivity.
Qed.

Lemma at_sim_start0_flags now s s' : AgreeX m s s' ->
  (AgreeX m (fst (at_sim_start (nmods sc) (cfg sc m) now m 0 s)) (fst (at_sim_start (nmods sc') (cfg sc' m) now m 0 s')) /\
   snd (at_sim_start (nmods sc) (cfg sc m) now m 0 s) = false /\ snd (at_sim_start (nmods sc') (cfg sc' m) now m 0 s') = false) \/
  (Div m (x_w (fst (at_sim_start (nmods sc) (cfg sc m) now m 0 s))) (x_w (fst (at_sim_start (nmods sc') (cfg sc' m) now m 0 s'))) /\
   active (w_mod (x_w (fst (at_sim_start (nmods sc) (cfg sc m) now m 0 s))) m) = false /\
   snd (at_sim_start (nmods sc') (cfg sc' m) now m 0 s') = false).
Proof.
  intros H. pose proof H as [Ha Hl]. unfold at_sim_start. rewrite N.eqb_refl, nmods', cfg_self, pick_start_quiet.
  change (c_spawn (quiet_cfg (cfg sc m))) with (c_spawn (cfg sc m)). rewrite <- (ag_mod _ _ _ Ha).
  destruct (exec_quiet (nmods sc) now m (CbStart 0) (c_spawn (cfg sc m)) (pick_start (cfg sc m) (inc (w_mod (x_w s) m))) s s' H)
    as [(E1 & E2 & E3)|(E1 & E2 & E3)];
    destruct (exec (nmods sc) now m (CbStart 0) (c_spawn (cfg sc m)) (pick_start (cfg sc m) (inc (w_mod (x_w s) m))) s) as [s1 p1];
    destruct (exec (nmods sc) now m (CbStart 0) (c_spawn (cfg sc m)) (map quiet_act (pick_start (cfg sc m) (inc (w_mod (x_w s) m)))) s') as [s1' p1'];
    cbn [fst snd] in *; subst p1 p1'.
  - left. cbn [catch fst snd x_w]. split; [split; [exact (proj1 E3)|exact (proj2 E3)]|auto].
  - right. destruct (Div_catch (cfg sc m) _ _ E3) as [D1 D2]. cbn [catch] in *.
    destruct (catchf (w_mod (x_w s1) m)); cbn [fst snd x_w negb] in *; auto.
Qed.

Lemma restart_tail_agree now : forall tl s s' e, Forall (fun st => st <> 0) tl -> AgreeX m s s' ->
  AgreeX m (fst (fold_left (fun (acc : xs * bool) stage => if snd acc then acc else restart_stage (nmods sc) (cfg sc m) now m stage (fst acc)) tl (s, e)))
           (fst (fold_left (fun (acc : xs * bool) stage => if snd acc then acc else restart_stage (nmods sc') (cfg sc' m) now m stage (fst acc)) tl (s', e))).
Proof.
  induction tl as [|st tl IH]; intros s s' e Hne H; cbn [fold_left fst snd]; [exact H|].
  inversion Hne as [|x l Hx Hl]; subst. destruct e; [apply IH; assumption|]. unfold restart_stage at 2 4.
  rewrite at_sim_start_later by assumption.
  destruct (at_sim_start_agree (nmods sc) (cfg sc m) now m st s s' H) as [H1 H2].
  destruct (at_sim_start (nmods sc) (cfg sc m) now m st s) as [s1 e1], (at_sim_start (nmods sc) (cfg sc m) now m st s') as [s1' e1'].
  cbn [fst snd] in *. subst e1'. rewrite (ag_act _ _ _ (proj1 H1) m). apply IH; assumption.
Qed.

Lemma restart_tail_div now w : forall tl s' e, Forall (fun st => st <> 0) tl -> Div m w (x_w s') ->
  Div m w (x_w (fst (fold_left (fun (acc : xs * bool) stage => if snd acc then acc else restart_stage (nmods sc') (cfg sc' m) now m stage (fst acc)) tl (s', e)))).
Proof.
  induction tl as [|st tl IH]; intros s' e Hne H; cbn [fold_left fst snd]; [exact H|].
  inversion Hne as [|x l Hx Hl]; subst. destruct e; [apply IH; assumption|]. unfold restart_stage at 2.
  rewrite at_sim_start_later by assumption.
  destruct (at_sim_start_div m (nmods sc) (cfg sc m) now st w s' Hx H) as [D1 D2].
  destruct (at_sim_start (nmods sc) (cfg sc m) now m st s') as [s1 e1]. cbn [fst snd] in *. apply IH; assumption.
Qed.

Lemma module_restart_post now s s' : AgreeX m s s' ->
  Post (module_restart (nmods sc) (cfg sc m) now m s) (module_restart (nmods sc') (cfg sc' m) now m s').
Proof.
  intros H. unfold module_restart.
  assert (Hs' : c_stages (cfg sc' m) = c_stages (cfg sc m)) by (rewrite cfg_self; reflexivity). rewrite Hs'.
  assert (H0 : AgreeX m (on_w (fun w => set_mod w m (set_active (w_mod w m) true)) s) (on_w (fun w => set_mod w m (set_active (w_mod w m) true)) s'))
    by (apply AgreeX_on_w; [exact H|]; apply (Agree_upd m _ _ (fun x => set_active x true) (proj1 H))).
  destruct (N.eq_dec (c_stages (cfg sc m)) 0) as [E0|E0]; [rewrite E0; left; exact (proj1 H0)|].
  destruct (stage_list_shape (c_stages (cfg sc m))) as (tl & Esl & Htl); [lia|]. rewrite Esl. cbn [fold_left fst snd].
  unfold restart_stage at 2 4.
  destruct (at_sim_start0_flags now _ _ H0) as [(A1 & A2 & A3)|(D1 & D2 & D4)].
  - destruct (at_sim_start (nmods sc) (cfg sc m) now m 0 _) as [s1 e1], (at_sim_start (nmods sc') (cfg sc' m) now m 0 _) as [s1' e1'].
    cbn [fst snd] in *. subst e1 e1'. left. rewrite (ag_act _ _ _ (proj1 A1) m).
    apply (proj1 (restart_tail_agree now tl s1 s1' _ Htl A1)).
  - (* the panicking run leaves the stage loop: the module is inactive *)
    destruct (at_sim_start (nmods sc) (cfg sc m) now m 0 _) as [s1 e1], (at_sim_start (nmods sc') (cfg sc' m) now m 0 _) as [s1' e1'].
    cbn [fst snd] in *. rewrite D2. cbn [negb]. rewrite orb_true_r, fold_stopped by (intros; reflexivity). cbn [fst]. right.
    split; [|exact D2]. apply restart_tail_div; assumption.
Qed.

(* the world after the event, from the post-callback relation *)
Lemma m_event now f f' w w' : Same w w' -> WF (w_fes w) ->
  (Div m (x_w (f {| x_w := activate now m w; x_log := [] |})) (x_w (f' {| x_w := activate now m w'; x_log := [] |})) ->
   restart_times m (w_fes w) = []) -> CbOK m f -> CbOK m f' ->
  Post (f {| x_w := activate now m w; x_log := [] |}) (f' {| x_w := activate now m w'; x_log := [] |}) ->
  (Same (fst (around sc now m f w)) (fst (around sc' now m f' w')) \/ Dead (fst (around sc now m f w)) (fst (around sc' now m f' w'))) /\
  WF (w_fes (fst (around sc now m f w))) /\ WF (w_fes (fst (around sc' now m f' w'))) /\
  f_tcur (w_fes (fst (around sc now m f w))) = f_tcur (w_fes w) /\ f_tcur (w_fes (fst (around sc' now m f' w'))) = f_tcur (w_fes w).
Proof.
  intros HS W Hn0 Hok Hok' HP. pose proof HS as [a b [c d]].
  destruct (Hok {| x_w := activate now m w; x_log := [] |}) as [[Fo1 Ff _ _ _ (lb & Hlb & Mlb)] _].
  destruct (Hok' {| x_w := activate now m w'; x_log := [] |}) as [[Fo1' Ff' _ _ _ _] _].
  cbn [x_w] in Fo1, Fo1', Ff, Ff', Hlb. rewrite activate_fes in Ff, Ff'. rewrite activate_buf, c in Hlb. cbn [app] in Hlb.
  assert (Hoth : forall j, j <> m -> w_mod (fst (around sc now m f w)) j = w_mod (fst (around sc' now m f' w')) j).
  { intros j Hj. rewrite !around_oth by assumption. apply a. }
  destruct HP as [HA|[HD Hact]].
  - destruct (around_agree2 sc sc' now m f f' w w' (Same_agree m w w' HS) Hok Hok' c HA) as (A1 & (adds & A2 & A3 & _) & _).
    split; [left|rewrite A2, A3, <- b, !fes_flush_tcur; repeat split; try reflexivity; apply WF_flush, W].
    constructor; [|rewrite A2, A3, b; reflexivity|split; apply around_glob].
    intros j. destruct (N.eq_dec j m) as [->|Hj]; [apply (ag_mod _ _ _ A1)|apply Hoth, Hj].
  - pose proof (Hn0 HD) as Hn.
    set (s := f {| x_w := activate now m w; x_log := [] |}) in *.
    set (s' := f' {| x_w := activate now m w'; x_log := [] |}) in *.
    destruct HD as [vb va vt vn vi vbu vtp vc vr vs].
    assert (Ewk : wake_of m (w_mod (x_w s) m) = wake_of m (w_mod (x_w s') m)) by (unfold wake_of; rewrite vt, vn; reflexivity).
    assert (Enw : nw_after (w_mod (x_w s) m) = nw_after (w_mod (x_w s') m)) by (unfold nw_after; rewrite vt, vn; reflexivity).
    set (base := fes_flush (w_buf (x_w s)) (fes_flush (wake_of m (w_mod (x_w s) m)) (w_fes w))).
    assert (Hb1 : fes_flush (w_buf (deactivate m (x_w s))) (w_fes (deactivate m (x_w s))) = base)
      by (rewrite deactivate_buf, deactivate_fes, Ff; reflexivity).
    assert (Hb2 : fes_flush (w_buf (deactivate m (x_w s'))) (w_fes (deactivate m (x_w s'))) = base)
      by (rewrite deactivate_buf, deactivate_fes, Ff', <- vb, <- Ewk, <- b; reflexivity).
    assert (Wb : WF base) by (unfold base; apply WF_flush, WF_flush, W).
    assert (Nb : restart_times m base = []).
    { unfold base. rewrite fes_flush_rt; [|rewrite Hlb; exact Mlb].
      unfold wake_of. destruct (timers (w_mod (x_w s) m)) as [|[tt tk] r]; [exact Hn|].
      destruct (lt_nw tt (nw (w_mod (x_w s) m))); [|exact Hn]. cbn [fes_flush fold_left fst snd]. rewrite fes_add_rt_other; [exact Hn|reflexivity]. }
    assert (Hsh : shut (w_mod (deactivate m (x_w s)) m) = shut (w_mod (x_w s) m)) by (rewrite deactivate_mod_eq; reflexivity).
    assert (Hsh' : shut (w_mod (deactivate m (x_w s')) m) = shut (w_mod (x_w s') m)) by (rewrite deactivate_mod_eq; reflexivity).
    assert (Hm1 : w_mod (fst (around sc now m f w)) m =
                  match shut (w_mod (x_w s) m) with Some _ => consumed now (set_nw (w_mod (x_w s) m) (nw_after (w_mod (x_w s) m)))
                                               | None => set_nw (w_mod (x_w s) m) (nw_after (w_mod (x_w s) m)) end)
      by (rewrite around_fst; fold s; rewrite buf_process_mod, Hsh, deactivate_mod_eq; reflexivity).
    assert (Hm2 : w_mod (fst (around sc' now m f' w')) m = consumed now (set_nw (w_mod (x_w s') m) (nw_after (w_mod (x_w s') m))))
      by (rewrite around_fst; fold s'; rewrite buf_process_mod, Hsh', deactivate_mod_eq, vs; reflexivity).
    assert (Hf1 : w_fes (fst (around sc now m f w)) = fes_flush (restart_of m (w_mod (x_w s) m)) base)
      by (rewrite around_fst; fold s; rewrite buf_process_fes, Hb1; unfold restart_of; rewrite Hsh; reflexivity).
    assert (Hf2 : w_fes (fst (around sc' now m f' w')) = fes_flush (restart_of m (w_mod (x_w s') m)) base)
      by (rewrite around_fst; fold s'; rewrite buf_process_fes, Hb2; unfold restart_of; rewrite Hsh'; reflexivity).
    assert (Ecs : consumed now (set_nw (w_mod (x_w s) m) (nw_after (w_mod (x_w s) m))) =
                  consumed now (set_nw (w_mod (x_w s') m) (nw_after (w_mod (x_w s') m))))
      by (unfold consumed; cbn [inc bud nw hnd catchf set_nw]; rewrite vi, vbu, vtp, vc, Enw; reflexivity).
    destruct (shut (w_mod (x_w s) m)) as [r|] eqn:Es.
    + (* a request was pending: both consume it, the worlds are equal again *)
      assert (Er : restart_of m (w_mod (x_w s') m) = restart_of m (w_mod (x_w s) m)) by (unfold restart_of; rewrite vs, Es; reflexivity).
      assert (Tb : f_tcur base = f_tcur (w_fes w)) by (unfold base; rewrite !fes_flush_tcur; reflexivity).
      split; [left|rewrite Hf1, Hf2, !fes_flush_tcur; repeat split; try exact Tb; apply WF_flush, Wb].
      constructor; [|rewrite Hf1, Hf2, Er; reflexivity|split; apply around_glob].
      intros j. destruct (N.eq_dec j m) as [->|Hj]; [rewrite Hm1, Hm2; exact Ecs|apply Hoth, Hj].
    + (* no request: the panicking run keeps a dead module, the quiet run shuts it down for good *)
      assert (Er1 : restart_of m (w_mod (x_w s) m) = []) by (unfold restart_of; rewrite Es; reflexivity).
      assert (Er2 : restart_of m (w_mod (x_w s') m) = []) by (unfold restart_of; rewrite vs; reflexivity).
      rewrite Er1 in Hf1. rewrite Er2 in Hf2. cbn [fes_flush fold_left] in Hf1, Hf2.
      assert (Tb : f_tcur base = f_tcur (w_fes w)) by (unfold base; rewrite !fes_flush_tcur; reflexivity).
      split; [right|rewrite Hf1, Hf2; auto].
      constructor; [exact Hoth| | |split; apply around_glob|rewrite Hf1, Hf2; apply FesRel_refl|rewrite Hf1, Hf2; auto].
      * rewrite Hm1, Hm2. cbn [active set_nw consumed]. auto.
      * rewrite Hm1, Hm2. cbn [shut set_nw consumed]. auto.
Qed.

(* ---- one dispatched event in both runs ---- *)
Lemma others_loop_items l l' t k k' : others l = others l' -> others (l ++ [ISample t k]) = others (l' ++ [ISample t k']).
Proof. intros H. rewrite !others_app, H. reflexivity. Qed.

Lemma cb_msg i t x : i <> m -> handle_message (nmods sc') (cfg sc' i) t i x = handle_message (nmods sc) (cfg sc i) t i x.
Proof. intros H. rewrite nmods', (cfg_other i H). reflexivity. Qed.
Lemma cb_wake i t : async_wakeup (nmods sc') t i = async_wakeup (nmods sc) t i.
Proof. rewrite nmods'. reflexivity. Qed.
Lemma cb_restart i t : i <> m -> module_restart (nmods sc') (cfg sc' i) t i = module_restart (nmods sc) (cfg sc i) t i.
Proof. intros H. rewrite nmods', (cfg_other i H). reflexivity. Qed.
Lemma cb_start i stage : i <> m -> start_cb sc' stage i = start_cb sc stage i.
Proof. intros H. unfold start_cb. rewrite nmods', (cfg_other i H). reflexivity. Qed.

Lemma rt_after_fetch f t ev f1 : fes_fetch f = Some (t, ev, f1) -> restart_times m f = [] -> restart_times m f1 = [].
Proof.
  intros Hf Hn. pose proof (fes_fetch_order _ _ _ _ Hf) as Ho. unfold restart_times in *. rewrite Ho in Hn. unfold rtimes in *.
  cbn [filter] in Hn. destruct (is_restart m (t, ev)); [discriminate|exact Hn].
Qed.

Lemma step_same w w' t ev f1 : Same w w' -> WF (w_fes w) -> fes_fetch (w_fes w) = Some (t, ev, f1) ->
  shut (w_mod w m) = None ->
  (active (w_mod w m) = true -> restart_times m (w_fes w) = []) ->
  (ev = EvRestart m -> restart_times m f1 = []) ->
  Rel (fst (loop_rec sc (set_fes w f1) t ev)) (fst (loop_rec sc' (set_fes w' f1) t ev)) /\
  others (e_items (snd (loop_rec sc (set_fes w f1) t ev))) = others (e_items (snd (loop_rec sc' (set_fes w' f1) t ev))).
Proof.
  intros HS W Hf Hsh HRT HRS. pose proof HS as [a b [c d]].
  destruct (WF_fetch _ _ _ _ W Hf) as [W1 Et].
  assert (HS1 : Same (set_fes w f1) (set_fes w' f1)) by (constructor; [exact a|reflexivity|auto]).
  unfold loop_rec. cbn [fst snd e_items].
  assert (Mev : forall f f', CbOK m f -> CbOK m f' ->
            Post (f {| x_w := activate t m (set_fes w f1); x_log := [] |}) (f' {| x_w := activate t m (set_fes w' f1); x_log := [] |}) ->
            (Div m (x_w (f {| x_w := activate t m (set_fes w f1); x_log := [] |})) (x_w (f' {| x_w := activate t m (set_fes w' f1); x_log := [] |})) ->
             restart_times m f1 = []) ->
            Rel (fst (around sc t m f (set_fes w f1))) (fst (around sc' t m f' (set_fes w' f1))) /\
            forall k k', others (snd (around sc t m f (set_fes w f1)) ++ [ISample t k]) =
                         others (snd (around sc' t m f' (set_fes w' f1)) ++ [ISample t k'])).
  { intros f f' Hok Hok' HP Hn. destruct (m_event t f f' _ _ HS1 W1 Hn Hok Hok' HP) as (R & Wa & Wb & _).
    split; [split; [exact R|split; assumption]|]. intros k k'. apply others_loop_items.
    rewrite (others_own _ (around_own sc t m f _ Hok)), (others_own _ (around_own sc' t m f' _ Hok')). reflexivity. }
  assert (Oev : forall i f, i <> m -> CbOK i f -> (forall s s', AgreeX i s s' -> AgreeX i (f s) (f s')) ->
            Rel (fst (around sc t i f (set_fes w f1))) (fst (around sc' t i f (set_fes w' f1))) /\
            forall k k', others (snd (around sc t i f (set_fes w f1)) ++ [ISample t k]) =
                         others (snd (around sc' t i f (set_fes w' f1)) ++ [ISample t k'])).
  { intros i f Hi Hok Hag. destruct (same_other_event t i f _ _ Hi HS1 Hok Hag) as (E1 & E2 & E3 & _).
    destruct (E3 W1 W1) as [Wa Wb]. split; [split; [left; exact E2|split; assumption]|].
    intros k k'. apply others_loop_items. rewrite E1. reflexivity. }
  destruct ev as [i far x|i x|i|i]; unfold process.
  - (* a message leaving a connection *)
    cbn [fst snd app]. rewrite nmods', <- (walk_agree (nmods sc) i far _ _ (Same_agree i _ _ HS1)).
    split; [|reflexivity]. destruct (walk (nmods sc) (set_fes w f1) i far); cbn [set_fes w_fes].
    + split; [left; constructor; [exact a|reflexivity|auto]|split; apply WF_add, W1].
    + split; [left; exact HS1|split; exact W1].
  - destruct (N.eq_dec i m) as [->|Hi].
    + destruct (Mev (handle_message (nmods sc) (cfg sc m) t m x) (handle_message (nmods sc') (cfg sc' m) t m x)
                    (handle_message_ok _ _ _ _ _) (handle_message_ok _ _ _ _ _)) as [R O].
      * apply handle_message_post. split; [apply activate_agree, Same_agree, HS1|reflexivity].
      * intros HD. destruct (active (w_mod w m)) eqn:Ea; [eapply rt_after_fetch; [exact Hf|apply HRT; reflexivity]|].
        exfalso. destruct HD as [_ _ _ _ _ _ _ _ _ vs]. unfold handle_message in vs. cbn [x_w] in vs.
        rewrite activate_active in vs. cbn [w_mod set_fes] in vs. rewrite <- (a m), Ea in vs. cbn [x_w] in vs.
        rewrite activate_shut in vs. cbn [w_mod set_fes] in vs. rewrite <- (a m), Hsh in vs. discriminate.
      * split; [exact R|apply O].
    + rewrite (cb_msg i t x Hi). destruct (Oev i (handle_message (nmods sc) (cfg sc i) t i x) Hi (handle_message_ok _ _ _ _ _) (handle_message_agree _ _ _ _ _)) as [R O].
      split; [exact R|apply O].
  - destruct (N.eq_dec i m) as [->|Hi].
    + rewrite cb_wake.
      destruct (Mev (async_wakeup (nmods sc) t m) (async_wakeup (nmods sc) t m) (async_wakeup_ok _ _ _) (async_wakeup_ok _ _ _)) as [R O].
      * left. apply async_wakeup_agree. split; [apply activate_agree, Same_agree, HS1|reflexivity].
      * intros HD. destruct (active (w_mod w m)) eqn:Ea; [eapply rt_after_fetch; [exact Hf|apply HRT; reflexivity]|].
        exfalso. destruct HD as [_ _ _ _ _ _ _ _ _ vs]. unfold async_wakeup in vs. cbn [x_w] in vs.
        rewrite activate_active in vs. cbn [w_mod set_fes] in vs. rewrite <- (a m), Ea in vs. cbn [x_w] in vs.
        rewrite activate_shut in vs. cbn [w_mod set_fes] in vs. rewrite <- (a m), Hsh in vs. discriminate.
      * split; [exact R|apply O].
    + rewrite cb_wake. destruct (Oev i (async_wakeup (nmods sc) t i) Hi (async_wakeup_ok _ _ _) (async_wakeup_agree _ _ _)) as [R O]. split; [exact R|apply O].
  - destruct (N.eq_dec i m) as [->|Hi].
    + destruct (Mev (module_restart (nmods sc) (cfg sc m) t m) (module_restart (nmods sc') (cfg sc' m) t m)
                    (module_restart_ok _ _ _ _) (module_restart_ok _ _ _ _)) as [R O].
      * apply module_restart_post. split; [apply activate_agree, Same_agree, HS1|reflexivity].
      * intros _. apply HRS. reflexivity.
      * split; [exact R|apply O].
    + rewrite (cb_restart i t Hi). destruct (Oev i (module_restart (nmods sc) (cfg sc i) t i) Hi (module_restart_ok _ _ _ _) (module_restart_agree _ _ _ _)) as [R O].
      split; [exact R|apply O].
Qed.

Lemma step_dead w w' t ev f1 f1' : Dead w w' -> WF (w_fes w) -> WF (w_fes w') ->
  fes_fetch (w_fes w) = Some (t, ev, f1) -> fes_fetch (w_fes w') = Some (t, ev, f1') -> inert m ev = false ->
  FesRel m f1 f1' ->
  Rel (fst (loop_rec sc (set_fes w f1) t ev)) (fst (loop_rec sc' (set_fes w' f1') t ev)) /\
  others (e_items (snd (loop_rec sc (set_fes w f1) t ev))) = others (e_items (snd (loop_rec sc' (set_fes w' f1') t ev))).
Proof.
  intros HD W W' Hf Hf' Hi FR. pose proof HD as [a [b1 b2] [s1 s2] [c d] _ [n1 n2]].
  destruct (WF_fetch _ _ _ _ W Hf) as [W1 Et]. destruct (WF_fetch _ _ _ _ W' Hf') as [W1' Et'].
  assert (HD1 : Dead (set_fes w f1) (set_fes w' f1')).
  { constructor; cbn [w_mod w_buf w_fes set_fes]; auto. split; eapply rt_after_fetch; eauto. }
  assert (Etc : f_tcur (w_fes (set_fes w f1)) = f_tcur (w_fes (set_fes w' f1'))) by (cbn [w_fes set_fes]; congruence).
  unfold loop_rec. cbn [fst snd e_items].
  assert (Oev : forall i f, i <> m -> CbOK i f -> (forall s s', AgreeX i s s' -> AgreeX i (f s) (f s')) ->
            Rel (fst (around sc t i f (set_fes w f1))) (fst (around sc' t i f (set_fes w' f1'))) /\
            forall k k', others (snd (around sc t i f (set_fes w f1)) ++ [ISample t k]) =
                         others (snd (around sc' t i f (set_fes w' f1')) ++ [ISample t k'])).
  { intros i f Hin Hok Hag. destruct (dead_other_event t i f _ _ Hin HD1 Hok Hag W1 W1' Etc) as (E1 & E2 & E3 & E4 & _).
    split; [split; [right; exact E2|split; assumption]|]. intros k k'. apply others_loop_items. rewrite E1. reflexivity. }
  destruct ev as [i far x|i x|i|i]; cbn [inert] in Hi; unfold process.
  - apply N.eqb_neq in Hi.
    cbn [fst snd app]. rewrite nmods', <- (walk_agree (nmods sc) i far _ _ (Dead_agree i _ _ Hi HD1)).
    split; [|reflexivity]. destruct (walk (nmods sc) (set_fes w f1) i far) as [dst|]; cbn [set_fes w_fes].
    + split; [right|split; apply WF_add; assumption].
      destruct HD1 as [a' b' s' c' fr' [n1' n2']]. constructor; cbn [w_mod w_buf w_fes set_fes] in *; auto.
      * apply FesRel_add; assumption.
      * rewrite !fes_add_rt_other by reflexivity. auto.
    + split; [right; exact HD1|split; assumption].
  - apply N.eqb_neq in Hi. rewrite (cb_msg i t x Hi).
    destruct (Oev i (handle_message (nmods sc) (cfg sc i) t i x) Hi (handle_message_ok _ _ _ _ _) (handle_message_agree _ _ _ _ _)) as [R O].
    split; [exact R|apply O].
  - apply N.eqb_neq in Hi. rewrite cb_wake.
    destruct (Oev i (async_wakeup (nmods sc) t i) Hi (async_wakeup_ok _ _ _) (async_wakeup_agree _ _ _)) as [R O]. split; [exact R|apply O].
  - destruct (N.eq_dec i m) as [->|Hin].
    + exfalso. pose proof (fes_fetch_order _ _ _ _ Hf) as Ho. unfold restart_times in n1. rewrite Ho in n1.
      unfold rtimes in n1. cbn [filter is_restart snd] in n1. rewrite N.eqb_refl in n1. discriminate.
    + rewrite (cb_restart i t Hin).
      destruct (Oev i (module_restart (nmods sc) (cfg sc i) t i) Hin (module_restart_ok _ _ _ _) (module_restart_agree _ _ _ _)) as [R O].
      split; [exact R|apply O].
Qed.

(* ---- the loops ---- *)
Lemma sim_loop : forall K n n' w w' now now' tr tr' wf nf trf wf' nf' trf',
  (n + n' <= K)%nat -> Gen sc w tr -> Rel w w' -> others (items tr) = others (items tr') ->
  iter_nat n (loop_step sc) (w, now, tr) = inr (wf, nf, trf) ->
  iter_nat n' (loop_step sc') (w', now', tr') = inr (wf', nf', trf') ->
  others (items trf) = others (items trf') /\ Rel wf wf'.
Proof.
  induction K as [|K IH]; intros n n' w w' now now' tr tr' wf nf trf wf' nf' trf' Hle HG HR Ho Hn Hn'.
  - assert (n = 0%nat) by lia. subst n. cbn [iter_nat] in Hn. discriminate.
  - destruct n as [|n]; [cbn [iter_nat] in Hn; discriminate|]. destruct n' as [|n']; [cbn [iter_nat] in Hn'; discriminate|].
    cbn [iter_nat] in Hn, Hn'. rewrite loop_step_eq in Hn, Hn'.
    assert (Litems : forall sc0 w0 t ev tr0, others (items (tr0 ++ [snd (loop_rec sc0 w0 t ev)])) =
                     others (items tr0) ++ others (e_items (snd (loop_rec sc0 w0 t ev)))).
    { intros. rewrite items_snoc, others_app. reflexivity. }
    destruct HR as [[HS|HD] [W W']].
    + (* the two worlds are equal *)
      pose proof HS as [a b [c d]]. rewrite <- b in Hn'.
      destruct (fes_fetch (w_fes w)) as [[[t ev] f1]|] eqn:Hf.
      * destruct (gen_facts sc m w tr HG) as (Q1 & Q2 & Q3).
        destruct (step_same w w' t ev f1 HS W Hf Q1 Q2) as [R O]; [intros ->; eapply Q3; eauto|].
        eapply (IH n n'); [lia| |exact R| |exact Hn|exact Hn'].
        -- eapply G1; [exact HG|]. apply (S_loop sc w t ev f1 Hf).
        -- rewrite !Litems, Ho, O. reflexivity.
      * injection Hn as <- <- <-. injection Hn' as <- <- <-. split; [exact Ho|split; [left; exact HS|split; assumption]].
    + (* module m is dead in both *)
      pose proof HD as [a [b1 b2] [s1 s2] [c d] fr [n1 n2]].
      destruct (fes_fetch (w_fes w)) as [[[t ev] f1]|] eqn:Hf.
      * destruct (inert m ev) eqn:Hi.
        -- (* the panicking run dispatches an inert event on its own *)
           destruct (inert_step m sc w t ev f1 b1 s1 c W n1 Hf Hi) as (I1 & I2 & I3 & I4 & I5 & I6 & I7 & I8).
           eapply (IH n (S n')) with (now' := now'); [lia| | | |exact Hn|cbn [iter_nat]; rewrite loop_step_eq; exact Hn'].
           ++ eapply G1; [exact HG|]. apply (S_loop sc w t ev f1 Hf).
           ++ split; [right|split; [exact I5|exact W']]. unfold loop_rec. cbn [fst].
              constructor; auto. intros j Hj. rewrite I1 by exact Hj. apply a, Hj.
           ++ rewrite Litems, <- Ho. unfold loop_rec. cbn [snd e_items]. rewrite I8. cbn [app]. rewrite others_sample, app_nil_r. reflexivity.
        -- destruct (fes_fetch (w_fes w')) as [[[t' ev'] f1']|] eqn:Hf'.
           ++ destruct (inert m ev') eqn:Hi'.
              ** (* the quiet run dispatches an inert event on its own *)
                 destruct (inert_step m sc' w' t' ev' f1' b2 s2 d W' n2 Hf' Hi') as (I1 & I2 & I3 & I4 & I5 & I6 & I7 & I8).
                 eapply (IH (S n) n') with (now := now); [lia|exact HG| | |cbn [iter_nat]; rewrite loop_step_eq, Hf; exact Hn|exact Hn'].
                 --- split; [right|split; [exact W|exact I5]]. unfold loop_rec. cbn [fst].
                     constructor; auto.
                     +++ intros j Hj. rewrite I1 by exact Hj. apply a, Hj.
                     +++ apply FesRel_sym, I7, FesRel_sym, fr.
                 --- rewrite Litems, Ho. unfold loop_rec. cbn [snd e_items]. rewrite I8. cbn [app]. rewrite others_sample, app_nil_r. reflexivity.
              ** (* both dispatch the same event *)
                 destruct (fetch_common m _ _ _ _ _ _ _ _ fr Hf Hi Hf' Hi') as (-> & -> & FR).
                 destruct (step_dead w w' t ev f1 f1' HD W W' Hf Hf' Hi FR) as [R O].
                 eapply (IH n n'); [lia| |exact R| |exact Hn|exact Hn'].
                 --- eapply G1; [exact HG|]. apply (S_loop sc w t ev f1 Hf).
                 --- rewrite !Litems, Ho, O. reflexivity.
           ++ exfalso. pose proof (fetch_none_r m _ _ _ _ _ Hf' fr Hf) as C. congruence.
      * destruct (fes_fetch (w_fes w')) as [[[t' ev'] f1']|] eqn:Hf'.
        -- pose proof (fetch_none_l m _ _ _ _ _ Hf fr Hf') as Hi'.
           destruct (inert_step m sc' w' t' ev' f1' b2 s2 d W' n2 Hf' Hi') as (I1 & I2 & I3 & I4 & I5 & I6 & I7 & I8).
           eapply (IH (S n) n') with (now := now); [lia|exact HG| | |cbn [iter_nat]; rewrite loop_step_eq, Hf; exact Hn|exact Hn'].
           ++ split; [right|split; [exact W|exact I5]]. unfold loop_rec. cbn [fst].
              constructor; auto.
              ** intros j Hj. rewrite I1 by exact Hj. apply a, Hj.
              ** apply FesRel_sym, I7, FesRel_sym, fr.
           ++ rewrite Litems, Ho. unfold loop_rec. cbn [snd e_items]. rewrite I8. cbn [app]. rewrite others_sample, app_nil_r. reflexivity.
        -- injection Hn as <- <- <-. injection Hn' as <- <- <-. split; [exact Ho|split; [right; exact HD|split; assumption]].
Qed.

(* ---- the start-up phase, in lock step ---- *)
Record SI (acc acc' : world * list erec) : Prop := {
  si_gen : Gen sc (fst acc) (snd acc);
  si_rel : Rel (fst acc) (fst acc');
  si_tcur : f_tcur (w_fes (fst acc)) = f_tcur (w_fes (fst acc'));
  si_oth : others (items (snd acc)) = others (items (snd acc')) }.

Lemma stages' i : c_stages (cfg sc' i) = c_stages (cfg sc i).
Proof. destruct (N.eq_dec i m) as [->|Hi]; [rewrite cfg_self; reflexivity|rewrite (cfg_other i Hi); reflexivity]. Qed.

Lemma start_cb_later stage : stage <> 0 -> forall s, start_cb sc' stage m s = start_cb sc stage m s.
Proof. intros H s. unfold start_cb. rewrite (at_sim_start_later 0 stage s H). reflexivity. Qed.

Lemma start_step stage i acc acc' : SI acc acc' -> (stage = 0 -> w_mod (fst acc) i = mst0 (cfg sc i)) ->
  SI (start_one sc stage i acc) (start_one sc' stage i acc').
Proof.
  intros [HG [HR [W W']] Ht Ho] Hfr. destruct acc as [w tr], acc' as [w' tr']. cbn [fst snd] in *.
  rewrite !start_one_eq, stages'.
  assert (Eact : active (w_mod w' i) = active (w_mod w i)).
  { destruct HR as [HS|HD]; [rewrite (sm_mod _ _ HS); reflexivity|].
    destruct (N.eq_dec i m) as [->|Hi]; [destruct (dd_act _ _ HD) as [-> ->]; reflexivity|rewrite (dd_oth _ _ HD i Hi); reflexivity]. }
  rewrite Eact.
  destruct ((stage <? c_stages (cfg sc i)) && active (w_mod w i)) eqn:Els; [|constructor; cbn [fst snd]; [assumption|split; auto|assumption..]].
  apply andb_true_iff in Els. destruct Els as [_ Ha].
  assert (HG' : Gen sc (fst (start_rec sc stage i w)) (tr ++ [snd (start_rec sc stage i w)])) by (eapply G1; [exact HG|apply S_start; [exact Hfr|exact Ha]]).
  unfold start_rec in *. cbn [fst snd] in *.
  destruct (N.eq_dec i m) as [->|Hi].
  - (* a stage of module m itself: it is active, so the two worlds are still equal *)
    destruct HR as [HS|HD]; [|destruct HD as [_ [b1 _] _ _ _ _]; congruence].
    destruct (gen_facts sc m w tr HG) as (Q1 & Q2 & _).
    assert (Hok : CbOK m (start_cb sc stage m)) by exact (start_cb_ok (nmods sc) (cfg sc m) 0 m stage).
    assert (Hok' : CbOK m (start_cb sc' stage m)) by exact (start_cb_ok (nmods sc') (cfg sc' m) 0 m stage).
    destruct (m_event 0 (start_cb sc stage m) (start_cb sc' stage m) w w' HS W (fun _ => Q2 Ha) Hok Hok')
      as (R & Wa & Wb & T1 & T2).
    { destruct (N.eq_dec stage 0) as [->|Hs0].
      - unfold start_cb. apply at_sim_start0_post. split; [apply activate_agree, Same_agree, HS|reflexivity].
      - left. rewrite (start_cb_later stage Hs0). unfold start_cb.
        apply (at_sim_start_agree (nmods sc) (cfg sc m) 0 m stage). split; [apply activate_agree, Same_agree, HS|reflexivity]. }
    constructor; cbn [fst snd]; [exact HG'|split; [exact R|split; assumption]|rewrite T1, T2; reflexivity|].
    rewrite !items_snoc, !others_app, Ho. cbn [e_items].
    rewrite (others_own _ (around_own sc 0 m _ w Hok)), (others_own _ (around_own sc' 0 m _ w' Hok')). reflexivity.
  - rewrite (cb_start i stage Hi). destruct HR as [HS|HD].
    + destruct (same_other_event 0 i (start_cb sc stage i) w w' Hi HS (start_cb_ok (nmods sc) (cfg sc i) 0 i stage)) as (E1 & E2 & E3 & T1 & T2).
      { intros s s' H. unfold start_cb. apply at_sim_start_agree, H. }
      destruct (E3 W W') as [Wa Wb].
      constructor; cbn [fst snd]; [exact HG'|split; [left; exact E2|split; assumption]|rewrite T1, T2; exact Ht|].
      rewrite !items_snoc, !others_app, Ho. cbn [e_items]. rewrite E1. reflexivity.
    + destruct (dead_other_event 0 i (start_cb sc stage i) w w' Hi HD (start_cb_ok (nmods sc) (cfg sc i) 0 i stage)) as (E1 & E2 & Wa & Wb & T1 & T2); try assumption.
      { intros s s' H. unfold start_cb. apply at_sim_start_agree, H. }
      constructor; cbn [fst snd]; [exact HG'|split; [right; exact E2|split; assumption]|rewrite T1, T2; exact Ht|].
      rewrite !items_snoc, !others_app, Ho. cbn [e_items]. rewrite E1. reflexivity.
Qed.

Lemma start_stage_sim stage : forall ms acc acc', NoDup ms -> SI acc acc' ->
  (stage = 0 -> forall i, In i ms -> w_mod (fst acc) i = mst0 (cfg sc i)) ->
  SI (fold_left (fun acc i => start_one sc stage i acc) ms acc) (fold_left (fun acc i => start_one sc' stage i acc) ms acc').
Proof.
  induction ms as [|i ms IH]; intros acc acc' Hnd H Hf; cbn [fold_left]; [exact H|].
  inversion Hnd as [|x l Hnin Hnd']; subst. apply IH; [exact Hnd'| |].
  - apply start_step; [exact H|]. intros E. apply Hf; [exact E|left; reflexivity].
  - intros E j Hin. rewrite start_one_oth; [apply Hf; [exact E|right; exact Hin]|]. intros ->. contradiction.
Qed.

Lemma sim_start_sim : SI (sim_start sc (init_world sc)) (sim_start sc' (init_world sc')).
Proof.
  unfold sim_start. unfold sc' at 2 3. rewrite max_stage_quieten, mods_quieten. fold sc'.
  destruct (stage_list_shape (max_stage sc) (max_stage_ge1 sc)) as (tl & -> & Htl). cbn [fold_left].
  assert (G : forall stages acc acc', Forall (fun st => st <> 0) stages -> SI acc acc' ->
              SI (fold_left (fun acc stage => fold_left (fun acc i => start_one sc stage i acc) (mods sc) acc) stages acc)
                 (fold_left (fun acc stage => fold_left (fun acc i => start_one sc' stage i acc) (mods sc) acc) stages acc')).
  { induction stages as [|st stages IH]; intros acc acc' Hne H; cbn [fold_left]; [exact H|].
    inversion Hne; subst. apply IH; [assumption|]. apply start_stage_sim; [apply mods_nodup|exact H|]. intros E. contradiction. }
  apply G; [exact Htl|]. apply start_stage_sim; [apply mods_nodup| |intros _ i _; reflexivity].
  destruct (init_quieten m sc) as [If Im]. fold sc' in If, Im.
  constructor; cbn [fst snd]; [apply G0| |rewrite If; reflexivity|reflexivity].
  assert (Wi : WF (w_fes (init_world sc))) by (unfold init_world; cbn [w_fes]; apply WF_flush, WF_empty).
  split; [left; constructor; [intros i; symmetry; apply Im|symmetry; exact If|split; reflexivity]|].
  split; [exact Wi|rewrite If; exact Wi].
Qed.

(* ---- both runs, up to the tear-down ---- *)
Definition events_of (tr : list erec) : list erec := filter (fun e => negb (is_end e)) tr.

(* the two event loops end in related worlds, having produced the same records for the other modules *)
Lemma silent_final :
  r_ok (run_script sc) = true -> r_ok (run_script sc') = true ->
  exists w n tr w' n' tr', Gen sc w tr /\ Gen sc' w' tr' /\ fes_fetch (w_fes w) = None /\ fes_fetch (w_fes w') = None /\
    Rel w w' /\ others (items tr) = others (items tr') /\
    trace sc = tr ++ snd (end_seq sc n (mods sc) w) /\ trace sc' = tr' ++ snd (end_seq sc' n' (mods sc') w').
Proof.
  unfold trace, run_script. pose proof sim_start_sim as [HG HR Ht Ho].
  pose proof (boot_gen sc) as HB. pose proof (boot_gen sc') as HB'. unfold boot_trace, boot_rec in HB, HB'.
  destruct (sim_start sc (init_world sc)) as [w0 tr0]. destruct (sim_start sc' (init_world sc')) as [w0' tr0']. cbn [fst snd] in *.
  rewrite !iter_until_nat.
  pose proof (iter_gen sc (Pos.to_nat (fuel sc)) w0 0 _ HB) as I1.
  pose proof (iter_gen sc' (Pos.to_nat (fuel sc')) w0' 0 _ HB') as I2.
  destruct (iter_nat (Pos.to_nat (fuel sc)) (loop_step sc) _) as [[[w n] tr]|[[w n] tr]] eqn:E1; [cbn; discriminate|].
  destruct (iter_nat (Pos.to_nat (fuel sc')) (loop_step sc') _) as [[[w' n'] tr']|[[w' n'] tr']] eqn:E2; [cbn; discriminate|].
  intros _ _. destruct I1 as [I1 F1]. destruct I2 as [I2 F2].
  unfold sim_end. rewrite !sim_end_eq. cbn [app r_trace].
  assert (Ho0 : others (items (tr0 ++ [{| e_kind := KBoot; e_time := 0; e_items := [ISample 0 (mask sc w0)] |}])) =
                others (items (tr0' ++ [{| e_kind := KBoot; e_time := 0; e_items := [ISample 0 (mask sc' w0')] |}])))
    by (rewrite !items_snoc, !others_app, Ho; reflexivity).
  destruct (sim_loop _ _ _ w0 w0' 0 0 _ _ _ _ _ _ _ _ (Nat.le_refl _) HB HR Ho0 E1 E2) as [O R].
  exists w, n, tr, w', n', tr'. split; [exact I1|split; [exact I2|split; [exact F1|split; [exact F2|split; [exact R|split; [exact O|split; reflexivity]]]]]].
Qed.
End Silent.
