(* C13 others_as_if_silent: the run of a script and the run of its variant in which module m
   falls silent where its callbacks would have panicked produce the same records for every
   other module.  Two phases: as long as m has not panicked the two worlds are equal; after
   a panic that leaves m dead for good they agree on every other module and on the event set
   up to events that are inert for a dead m (Life/Strip.v). *)
From Coq Require Import List NArith Bool Lia PeanoNat.
From DesVerif Require Import Common.Fuel Life.Model Life.Base Life.Step Life.Trace Life.Frame Life.Inert Life.Inv Life.Events
  Life.Restart Life.Agree Life.Strip Life.Quiet.
Import ListNotations.
Open Scope N_scope.

(* ---- small facts ---- *)
Lemma around_fst sc now i f w :
  fst (around sc now i f w) = fst (buf_process (cfg sc i) now i (deactivate i (x_w (f {| x_w := activate now i w; x_log := [] |})))).
Proof. unfold around. destruct (buf_process _ _ _ _). reflexivity. Qed.

Lemma flush_rt_addok m i : i <> m -> forall adds f, Forall (add_ok i) adds ->
  restart_times m (fes_flush adds f) = restart_times m f.
Proof.
  intros Hi. induction adds as [|p adds IH]; intros f H; cbn [fes_flush fold_left]; [reflexivity|].
  inversion H; subst. fold (fes_flush adds (fes_add (fst p) (snd p) f)). rewrite IH by assumption.
  apply fes_add_rt_other. destruct p as [t e]. cbn [fst snd]. destruct H2 as [Hm|[Hw|Hr]]; cbn [snd] in *.
  - apply msg_not_restart, Hm.
  - subst e. reflexivity.
  - subst e. unfold is_restart. cbn [snd]. apply N.eqb_neq. exact Hi.
Qed.

Lemma stage_list_1 : stage_list 1 = [0].
Proof. reflexivity. Qed.

Section Silent.
Variables (sc : script) (m : N).
Hypothesis Hst : c_stages (cfg sc m) = 1.
Let sc' := quieten m sc.

Lemma cfg_other i : i <> m -> cfg sc' i = cfg sc i.
Proof. intros H. unfold sc'. rewrite cfg_quieten. apply N.eqb_neq in H. rewrite H. reflexivity. Qed.

Lemma cfg_self : cfg sc' m = quiet_cfg (cfg sc m).
Proof. unfold sc'. rewrite cfg_quieten, N.eqb_refl. reflexivity. Qed.

Lemma nmods' : nmods sc' = nmods sc.
Proof. apply nmods_quieten. Qed.

(* records of modules other than m *)
Definition others (l : list item) : list item :=
  filter (fun i => match item_mod i with Some j => negb (j =? m) | None => false end) l.

Lemma others_app a b : others (a ++ b) = others a ++ others b.
Proof. apply filter_app. Qed.

Lemma others_own l : Own m l -> others l = [].
Proof.
  unfold Own, others. induction 1 as [|i l Hi _ IH]; [reflexivity|]. cbn [filter]. rewrite Hi, N.eqb_refl. exact IH.
Qed.

Lemma others_sample t k : others [ISample t k] = [].
Proof. reflexivity. Qed.

(* ---- the two phases ---- *)
Record Same (w w' : world) : Prop := {
  sm_mod : forall i, w_mod w i = w_mod w' i;
  sm_fes : w_fes w = w_fes w';
  sm_buf : w_buf w = [] /\ w_buf w' = [] }.

Record Dead (w w' : world) : Prop := {
  dd_oth : forall i, i <> m -> w_mod w i = w_mod w' i;
  dd_act : active (w_mod w m) = false /\ active (w_mod w' m) = false;
  dd_shut : shut (w_mod w m) = None /\ shut (w_mod w' m) = None;
  dd_buf : w_buf w = [] /\ w_buf w' = [];
  dd_fes : FesRel m (w_fes w) (w_fes w');
  dd_nr : restart_times m (w_fes w) = [] /\ restart_times m (w_fes w') = [] }.

Definition Rel (w w' : world) : Prop := (Same w w' \/ Dead w w') /\ WF (w_fes w) /\ WF (w_fes w').

Lemma Same_agree i w w' : Same w w' -> Agree i w w'.
Proof. intros [a b [c d]]. constructor; [apply a|intros j; rewrite a; reflexivity|rewrite c, d; reflexivity]. Qed.

Lemma Dead_agree i w w' : i <> m -> Dead w w' -> Agree i w w'.
Proof.
  intros Hi [a [b1 b2] _ [c d] _ _]. constructor; [apply a, Hi| |rewrite c, d; reflexivity].
  intros j. destruct (N.eq_dec j m) as [->|Hj]; [rewrite b1, b2; reflexivity|rewrite (a j Hj); reflexivity].
Qed.

(* ---- an event of a module other than m, on worlds that agree on it ---- *)
Lemma other_event now i f w w' : i <> m -> Agree i w w' -> w_buf w = [] -> w_buf w' = [] -> CbOK i f ->
  (forall s s', AgreeX i s s' -> AgreeX i (f s) (f s')) ->
  snd (around sc now i f w) = snd (around sc' now i f w') /\
  w_mod (fst (around sc now i f w)) i = w_mod (fst (around sc' now i f w')) i /\
  (forall j, j <> i -> w_mod (fst (around sc now i f w)) j = w_mod w j /\ w_mod (fst (around sc' now i f w')) j = w_mod w' j) /\
  (w_buf (fst (around sc now i f w)) = [] /\ w_buf (fst (around sc' now i f w')) = []) /\
  exists adds, w_fes (fst (around sc now i f w)) = fes_flush adds (w_fes w) /\
               w_fes (fst (around sc' now i f w')) = fes_flush adds (w_fes w') /\ Forall (add_ok i) adds.
Proof.
  intros Hi Hag Hb Hb' Hok Hf.
  assert (H0 : AgreeX i {| x_w := activate now i w; x_log := [] |} {| x_w := activate now i w'; x_log := [] |})
    by (split; [apply activate_agree, Hag|reflexivity]).
  destruct (Hf _ _ H0) as [Ha Hl].
  destruct (around_agree2 sc sc' now i f f w w' Hag Hok Hok Hb Ha) as (A1 & A2 & A3).
  split; [apply A3; [symmetry; apply cfg_other, Hi|exact Hl]|].
  split; [apply (ag_mod _ _ _ A1)|]. split; [|split; [split; apply around_glob|exact A2]].
  intros j Hj. split; apply around_oth; assumption.
Qed.

Lemma same_other_event now i f w w' : i <> m -> Same w w' -> CbOK i f ->
  (forall s s', AgreeX i s s' -> AgreeX i (f s) (f s')) ->
  snd (around sc now i f w) = snd (around sc' now i f w') /\ Same (fst (around sc now i f w)) (fst (around sc' now i f w')) /\
  (WF (w_fes w) -> WF (w_fes w') -> WF (w_fes (fst (around sc now i f w))) /\ WF (w_fes (fst (around sc' now i f w')))).
Proof.
  intros Hi HS Hok Hf. pose proof HS as [a b [c d]].
  destruct (other_event now i f w w' Hi (Same_agree i w w' HS) c d Hok Hf) as (E1 & E2 & E3 & E4 & adds & E5 & E6 & _).
  split; [exact E1|]. split.
  - constructor; [|rewrite E5, E6, b; reflexivity|exact E4].
    intros j. destruct (N.eq_dec j i) as [->|Hj]; [exact E2|]. destruct (E3 j Hj) as [-> ->]. apply a.
  - intros W W'. rewrite E5, E6. split; apply WF_flush; assumption.
Qed.

Lemma dead_other_event now i f w w' : i <> m -> Dead w w' -> CbOK i f ->
  (forall s s', AgreeX i s s' -> AgreeX i (f s) (f s')) ->
  WF (w_fes w) -> WF (w_fes w') -> f_tcur (w_fes w) = f_tcur (w_fes w') ->
  snd (around sc now i f w) = snd (around sc' now i f w') /\ Dead (fst (around sc now i f w)) (fst (around sc' now i f w')) /\
  WF (w_fes (fst (around sc now i f w))) /\ WF (w_fes (fst (around sc' now i f w'))).
Proof.
  intros Hi HD Hok Hf W W' Et. pose proof HD as [a [b1 b2] [s1 s2] [c d] fr [n1 n2]].
  destruct (other_event now i f w w' Hi (Dead_agree i w w' Hi HD) c d Hok Hf) as (E1 & E2 & E3 & E4 & adds & E5 & E6 & E7).
  assert (Hm : m <> i) by (intros E; apply Hi; symmetry; exact E).
  destruct (E3 m Hm) as [M1 M2].
  split; [exact E1|]. split; [|rewrite E5, E6; split; apply WF_flush; assumption].
  constructor.
  - intros j Hj. destruct (N.eq_dec j i) as [->|Hji]; [exact E2|]. destruct (E3 j Hji) as [-> ->]. apply a, Hj.
  - rewrite M1, M2. auto.
  - rewrite M1, M2. auto.
  - exact E4.
  - rewrite E5, E6. apply FesRel_flush; assumption.
  - rewrite E5, E6, !(flush_rt_addok m i Hi) by assumption. auto.
Qed.
End Silent.
