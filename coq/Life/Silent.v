(* C13 others_as_if_silent, part 3: the start-up phase in lock step, and both runs up to the tear-down. *)
From Coq Require Import List NArith Bool Lia PeanoNat.
From DesVerif Require Export Life.SilentRel Life.SilentStep.
From DesVerif Require Import Common.Fuel Life.Model Life.Base Life.Step Life.Trace Life.Frame Life.Inert Life.Inv Life.Events
  Life.Restart Life.Agree Life.Strip Life.Quiet Life.SilentBase Life.Future Life.SilentStep.
Import ListNotations.
Open Scope N_scope.

Section Silent.
Variables (sc : script) (m : N).
Local Notation sc' := (quieten m sc).
Local Notation cfg_other := (SilentRel.cfg_other sc m).
Local Notation cfg_self := (SilentRel.cfg_self sc m).
Local Notation nmods' := (SilentRel.nmods' sc m).
Local Notation others := (SilentRel.others m).
Local Notation others_app := (SilentRel.others_app m).
Local Notation others_own := (SilentRel.others_own m).
Local Notation others_sample := (SilentRel.others_sample m).
Local Notation Dead := (SilentRel.Dead m).
Local Notation Rel := (SilentRel.Rel m).
Local Notation Dead_agree := (SilentRel.Dead_agree m).
Local Notation other_event := (SilentRel.other_event sc m).
Local Notation same_other_event := (SilentRel.same_other_event sc m).
Local Notation dead_other_event := (SilentRel.dead_other_event sc m).
Local Notation Post := (SilentRel.Post m).
Local Notation Div_catch := (SilentRel.Div_catch m).
Local Notation at_sim_start0_post := (SilentRel.at_sim_start0_post sc m).
Local Notation handle_message_post := (SilentRel.handle_message_post sc m).
Local Notation at_sim_start_later := (SilentRel.at_sim_start_later sc m).
Local Notation at_sim_start0_flags := (SilentRel.at_sim_start0_flags sc m).
Local Notation restart_tail_agree := (SilentRel.restart_tail_agree sc m).
Local Notation restart_tail_div := (SilentRel.restart_tail_div sc m).
Local Notation module_restart_post := (SilentRel.module_restart_post sc m).
Local Notation m_event := (SilentRel.m_event sc m).
Local Notation dd_oth := (SilentRel.dd_oth m).
Local Notation dd_act := (SilentRel.dd_act m).
Local Notation dd_shut := (SilentRel.dd_shut m).
Local Notation dd_buf := (SilentRel.dd_buf m).
Local Notation dd_fes := (SilentRel.dd_fes m).
Local Notation dd_nr := (SilentRel.dd_nr m).
Local Notation others_loop_items := (SilentStep.others_loop_items m).
Local Notation cb_msg := (SilentStep.cb_msg sc m).
Local Notation cb_wake := (SilentStep.cb_wake sc m).
Local Notation cb_restart := (SilentStep.cb_restart sc m).
Local Notation cb_start := (SilentStep.cb_start sc m).
Local Notation rt_after_fetch := (SilentStep.rt_after_fetch m).
Local Notation step_same := (SilentStep.step_same sc m).
Local Notation step_dead := (SilentStep.step_dead sc m).
Local Notation sim_loop := (SilentStep.sim_loop sc m).

(* ---- the start-up phase, in lock step ---- *)
Record SI (acc acc' : world * list erec) : Prop := {
  si_gen : Gen sc (fst acc) (snd acc);
  si_rel : Rel (fst acc) (fst acc');
  si_tcur : f_tcur (w_fes (fst acc)) = f_tcur (w_fes (fst acc'));
  si_oth : others (items (snd acc)) = others (items (snd acc')) }.

Lemma stages' i : c_stages (cfg sc' i) = c_stages (cfg sc i).
Proof. destruct (N.eq_dec i m) as [->|Hi]; [rewrite cfg_self; reflexivity|rewrite (cfg_other i Hi); reflexivity]. Qed.

Lemma start_cb_later stage : stage <> 0 -> forall s, start_cb sc' stage m s = start_cb sc stage m s.
Proof. intros H s. unfold start_cb. rewrite (at_sim_start_later 0 stage s H). reflexivity. Qed.

Lemma others_snoc tr tr' k k' t t' l l' : others (items tr) = others (items tr') -> others l = others l' ->
  others (items (tr ++ [{| e_kind := k; e_time := t; e_items := l |}])) =
  others (items (tr' ++ [{| e_kind := k'; e_time := t'; e_items := l' |}])).
Proof. intros H1 H2. rewrite !items_snoc, !others_app, H1. cbn [e_items]. rewrite H2. reflexivity. Qed.

Lemma start_step stage i acc acc' : SI acc acc' -> (stage = 0 -> w_mod (fst acc) i = mst0 (cfg sc i)) ->
  SI (start_one sc stage i acc) (start_one sc' stage i acc').
Proof.
  intros [HG [HR [W W']] Ht Ho] Hfr. destruct acc as [w tr], acc' as [w' tr']. cbn [fst snd] in *.
  rewrite !start_one_eq, stages'.
  assert (Eact : active (w_mod w' i) = active (w_mod w i)).
  { destruct HR as [HS|HD]; [rewrite (sm_mod _ _ HS); reflexivity|].
    destruct (N.eq_dec i m) as [->|Hi]; [destruct (dd_act _ _ HD) as [-> ->]; reflexivity|rewrite (dd_oth _ _ HD i Hi); reflexivity]. }
  rewrite Eact.
  destruct ((stage <? c_stages (cfg sc i)) && active (w_mod w i)) eqn:Els; [|constructor; cbn [fst snd]; [assumption|split; auto|assumption..]].
  apply andb_true_iff in Els. destruct Els as [_ Ha].
  assert (HG' : Gen sc (fst (start_rec sc stage i w)) (tr ++ [snd (start_rec sc stage i w)])) by (eapply G1; [exact HG|apply S_start; [exact Hfr|exact Ha]]).
  unfold start_rec in *. cbn [fst snd] in *.
  destruct (N.eq_dec i m) as [->|Hi].
  - (* a stage of module m itself: it is active, so the two worlds are still equal *)
    destruct HR as [HS|HD]; [|destruct HD as [_ [b1 _] _ _ _ _]; congruence].
    destruct (gen_facts sc m w tr HG) as (Q1 & Q2 & _).
    assert (Hok : CbOK m (start_cb sc stage m)) by exact (start_cb_ok (nmods sc) (cfg sc m) 0 m stage).
    assert (Hok' : CbOK m (start_cb sc' stage m)) by exact (start_cb_ok (nmods sc') (cfg sc' m) 0 m stage).
    destruct (m_event 0 (start_cb sc stage m) (start_cb sc' stage m) w w' HS W (fun _ => Q2 Ha) Hok Hok')
      as (R & Wa & Wb & T1 & T2).
    { destruct (N.eq_dec stage 0) as [->|Hs0].
      - unfold start_cb. apply at_sim_start0_post. split; [apply activate_agree, Same_agree, HS|reflexivity].
      - left. rewrite (start_cb_later stage Hs0). unfold start_cb.
        apply (at_sim_start_agree (nmods sc) (cfg sc m) 0 m stage). split; [apply activate_agree, Same_agree, HS|reflexivity]. }
    constructor; cbn [fst snd]; [exact HG'|split; [exact R|split; assumption]|rewrite T1, T2; reflexivity|].
    apply others_snoc; [exact Ho|].
    rewrite (others_own _ (around_own sc 0 m _ w Hok)), (others_own _ (around_own sc' 0 m _ w' Hok')). reflexivity.
  - rewrite (cb_start i stage Hi). destruct HR as [HS|HD].
    + destruct (same_other_event 0 i (start_cb sc stage i) w w' Hi HS (start_cb_ok (nmods sc) (cfg sc i) 0 i stage)) as (E1 & E2 & E3 & T1 & T2).
      { intros s s' H. unfold start_cb. apply at_sim_start_agree, H. }
      destruct (E3 W W') as [Wa Wb].
      constructor; cbn [fst snd]; [exact HG'|split; [left; exact E2|split; assumption]|rewrite T1, T2; exact Ht|].
      apply others_snoc; [exact Ho|rewrite E1; reflexivity].
    + destruct (dead_other_event 0 i (start_cb sc stage i) w w' Hi HD (start_cb_ok (nmods sc) (cfg sc i) 0 i stage)) as (E1 & E2 & Wa & Wb & T1 & T2); try assumption.
      { intros s s' H. unfold start_cb. apply at_sim_start_agree, H. }
      constructor; cbn [fst snd]; [exact HG'|split; [right; exact E2|split; assumption]|rewrite T1, T2; exact Ht|].
      apply others_snoc; [exact Ho|rewrite E1; reflexivity].
Qed.

Lemma start_stage_sim stage : forall ms acc acc', NoDup ms -> SI acc acc' ->
  (stage = 0 -> forall i, In i ms -> w_mod (fst acc) i = mst0 (cfg sc i)) ->
  SI (fold_left (fun acc i => start_one sc stage i acc) ms acc) (fold_left (fun acc i => start_one sc' stage i acc) ms acc').
Proof.
  induction ms as [|i ms IH]; intros acc acc' Hnd H Hf; cbn [fold_left]; [exact H|].
  inversion Hnd as [|x l Hnin Hnd']; subst. apply IH; [exact Hnd'| |].
  - apply start_step; [exact H|]. intros E. apply Hf; [exact E|left; reflexivity].
  - intros E j Hin. rewrite start_one_oth; [apply Hf; [exact E|right; exact Hin]|]. intros ->. contradiction.
Qed.

Lemma sim_start_sim : SI (sim_start sc (init_world sc)) (sim_start sc' (init_world sc')).
Proof.
  unfold sim_start. rewrite max_stage_quieten, mods_quieten.
  destruct (stage_list_shape (max_stage sc) (max_stage_ge1 sc)) as (tl & -> & Htl). cbn [fold_left].
  assert (G : forall stages acc acc', Forall (fun st => st <> 0) stages -> SI acc acc' ->
              SI (fold_left (fun acc stage => fold_left (fun acc i => start_one sc stage i acc) (mods sc) acc) stages acc)
                 (fold_left (fun acc stage => fold_left (fun acc i => start_one sc' stage i acc) (mods sc) acc) stages acc')).
  { induction stages as [|st stages IH]; intros acc acc' Hne H; cbn [fold_left]; [exact H|].
    inversion Hne; subst. apply IH; [assumption|]. apply start_stage_sim; [apply mods_nodup|exact H|]. intros E. contradiction. }
  apply G; [exact Htl|]. apply start_stage_sim; [apply mods_nodup| |intros _ i _; reflexivity].
  destruct (init_quieten m sc) as [If Im].
  constructor; cbn [fst snd]; [apply G0| |rewrite If; reflexivity|reflexivity].
  assert (Wi : WF (w_fes (init_world sc))) by (unfold init_world; cbn [w_fes]; apply WF_flush, WF_empty).
  split; [left; constructor; [intros i; symmetry; apply Im|symmetry; exact If|split; reflexivity]|].
  split; [exact Wi|rewrite If; exact Wi].
Qed.

(* ---- both runs, up to the tear-down ---- *)
Definition events_of (tr : list erec) : list erec := filter (fun e => negb (is_end e)) tr.

(* the two event loops end in related worlds, having produced the same records for the other modules *)
Lemma silent_final :
  r_ok (run_script sc) = true -> r_ok (run_script sc') = true ->
  exists w n tr w' n' tr', Gen sc w tr /\ Gen sc' w' tr' /\ fes_fetch (w_fes w) = None /\ fes_fetch (w_fes w') = None /\
    Rel w w' /\ others (items tr) = others (items tr') /\
    trace sc = tr ++ snd (end_seq sc n (mods sc) w) /\ trace sc' = tr' ++ snd (end_seq sc' n' (mods sc') w') /\
    FW n w /\ FW n' w'.
Proof.
  unfold trace, run_script. pose proof sim_start_sim as [HG HR Ht Ho].
  pose proof (sim_start_FW sc) as HW0. pose proof (sim_start_FW sc') as HW0'.
  pose proof (boot_gen sc) as HB. pose proof (boot_gen sc') as HB'. unfold boot_trace, boot_rec in HB, HB'.
  destruct (sim_start sc (init_world sc)) as [w0 tr0]. destruct (sim_start sc' (init_world sc')) as [w0' tr0']. cbn [fst snd] in *.
  rewrite !iter_until_nat.
  pose proof (iter_gen sc (Pos.to_nat (fuel sc)) w0 0 _ HB) as I1.
  pose proof (iter_gen sc' (Pos.to_nat (fuel sc')) w0' 0 _ HB') as I2.
  destruct (iter_nat (Pos.to_nat (fuel sc)) (loop_step sc) _) as [[[w n] tr]|[[w n] tr]] eqn:E1; [cbn; discriminate|].
  destruct (iter_nat (Pos.to_nat (fuel sc')) (loop_step sc') _) as [[[w' n'] tr']|[[w' n'] tr']] eqn:E2; [cbn; discriminate|].
  intros _ _. destruct I1 as [I1 F1]. destruct I2 as [I2 F2].
  unfold sim_end. rewrite !sim_end_eq. cbn [app r_trace].
  assert (Ho0 : others (items (tr0 ++ [{| e_kind := KBoot; e_time := 0; e_items := [ISample 0 (mask sc w0)] |}])) =
                others (items (tr0' ++ [{| e_kind := KBoot; e_time := 0; e_items := [ISample 0 (mask sc' w0')] |}])))
    by (rewrite !items_snoc, !others_app, Ho; reflexivity).
  destruct (sim_loop _ _ _ w0 w0' 0 0 _ _ _ _ _ _ _ _ (Nat.le_refl _) HB HW0 HR Ho0 E1 E2) as [O R].
  destruct (iter_FW sc _ _ _ _ _ _ _ HW0 E1) as [FWa _]. destruct (iter_FW sc' _ _ _ _ _ _ _ HW0' E2) as [FWb _].
  exists w, n, tr, w', n', tr'. split; [exact I1|split; [exact I2|split; [exact F1|split; [exact F2|split; [exact R|split; [exact O|split; [reflexivity|split; [reflexivity|split; assumption]]]]]]]].
Qed.
End Silent.
