(* Basic facts about the model of coq/Life/Model.v: record updates, and what the scripted user
   code of one module can touch (frame relations for the script interpreter). *)
From Coq Require Import List NArith Bool Lia.
From DesVerif Require Import Life.Model.
Import ListNotations.
Open Scope N_scope.

Ltac wsimpl := cbn [w_fes w_mod w_err w_cur w_buf w_fin set_fin set_fes set_mod set_err set_cur set_buf
  active inc bud shut nw timers ready hnd catchf set_active set_bud set_shut set_nw set_timers set_ready
  set_hnd set_catchf set_hnd hnd x_w x_log say say_all on_w fst snd] in *.

Lemma mod_same w m x : w_mod (set_mod w m x) m = x.
Proof. cbn [w_mod set_mod]. rewrite N.eqb_refl. reflexivity. Qed.

Lemma mod_other w m x i : i <> m -> w_mod (set_mod w m x) i = w_mod w i.
Proof. intros H. cbn [w_mod set_mod]. apply N.eqb_neq in H. rewrite H. reflexivity. Qed.

(* the module a log record belongs to *)
Definition item_mod (i : item) : option N :=
  match i with
  | ICall m _ _ _ | IReset m _ _ | ILog m _ _ | ISend m _ _ _ _ | ISched m _ _ _ | IShut m _ _
  | IPanic m _ _ | IQuiet m | ICancel m _ | ISetCatch m _ _ | ITaskEnd m _ _ _ | ISpawn m _ _ _ | IResetPanic m => Some m
  | ISample _ _ => None
  end.

Definition Own (m : N) (l : list item) : Prop := Forall (fun i => item_mod i = Some m) l.

Lemma Own_app m a b : Own m a -> Own m b -> Own m (a ++ b).
Proof. unfold Own. intros. apply Forall_app. auto. Qed.

(* events user code can buffer: messages on their way *)
Definition msg_ev (p : N * fev) : Prop := match snd p with EvExit _ _ _ | EvDeliver _ _ => True | _ => False end.

(* ---- what user code of module m can change ---- *)
Record Fr (m : N) (w w' : world) : Prop := {
  fr_fes : w_fes w' = w_fes w;
  fr_err : w_err w' = w_err w;
  fr_cur : w_cur w' = w_cur w;
  fr_oth : forall i, i <> m -> w_mod w' i = w_mod w i;
  fr_active : active (w_mod w' m) = active (w_mod w m);
  fr_inc : inc (w_mod w' m) = inc (w_mod w m);
  fr_nw : nw (w_mod w' m) = nw (w_mod w m);
  fr_buf : exists l, w_buf w' = w_buf w ++ l /\ Forall msg_ev l }.

Lemma Fr_refl m w : Fr m w w.
Proof. constructor; try reflexivity. exists []. rewrite app_nil_r. split; [reflexivity|constructor]. Qed.

Lemma Fr_trans m w1 w2 w3 : Fr m w1 w2 -> Fr m w2 w3 -> Fr m w1 w3.
Proof.
  intros [a1 a2 a3 a4 a5 a6 a7 (la & a8 & a9)] [b1 b2 b3 b4 b5 b6 b7 (lb & b8 & b9)]. constructor; try congruence.
  - intros i Hi. rewrite b4, a4; auto.
  - exists (la ++ lb). rewrite b8, a8, app_assoc. split; [reflexivity|apply Forall_app; auto].
Qed.

(* a module's callback (not its tasks) moreover leaves its tasks and timers alone *)
Record FrP (m : N) (w w' : world) : Prop := {
  fp_fr : Fr m w w';
  fp_timers : timers (w_mod w' m) = timers (w_mod w m);
  fp_ready : ready (w_mod w' m) = ready (w_mod w m);
  fp_tp : hnd (w_mod w' m) = hnd (w_mod w m) }.

Lemma FrP_refl m w : FrP m w w.
Proof. constructor; [apply Fr_refl|reflexivity..]. Qed.

Lemma FrP_trans m w1 w2 w3 : FrP m w1 w2 -> FrP m w2 w3 -> FrP m w1 w3.
Proof. intros [a b c d] [a' b' c' d']. constructor; [eapply Fr_trans; eauto|congruence..]. Qed.

(* updating a field of module m that the relation does not mention *)
Lemma FrP_set m w x :
  active x = active (w_mod w m) -> inc x = inc (w_mod w m) -> nw x = nw (w_mod w m) ->
  timers x = timers (w_mod w m) -> ready x = ready (w_mod w m) -> hnd x = hnd (w_mod w m) ->
  FrP m w (set_mod w m x).
Proof.
  intros. constructor; [constructor|..]; try reflexivity; rewrite ?mod_same; auto.
  - intros i Hi. apply mod_other, Hi.
  - exists []. rewrite app_nil_r. split; [reflexivity|constructor].
Qed.

Lemma Fr_set m w x :
  active x = active (w_mod w m) -> inc x = inc (w_mod w m) -> nw x = nw (w_mod w m) -> Fr m w (set_mod w m x).
Proof.
  intros. constructor; try reflexivity; rewrite ?mod_same; auto.
  - intros i Hi. apply mod_other, Hi.
  - exists []. rewrite app_nil_r. split; [reflexivity|constructor].
Qed.


Lemma FrP_spend m w : FrP m w (spend m w).
Proof. unfold spend. apply FrP_set; reflexivity. Qed.

Lemma FrP_request m r w : FrP m w (request m r w).
Proof. unfold request. apply FrP_set; reflexivity. Qed.

Lemma FrP_buf_push m p w : msg_ev p -> FrP m w (buf_push p w).
Proof.
  intros Hp. constructor; [constructor|..]; try reflexivity.
  exists [p]. split; [reflexivity|constructor; [exact Hp|constructor]].
Qed.

Lemma FrP_buf_send_at k now m far d x w : FrP m w (buf_send_at k now m far d x w).
Proof.
  unfold buf_send_at. destruct (d =? 0); [|apply FrP_buf_push; exact I].
  destruct (walk k w m far); [apply FrP_buf_push; exact I|apply FrP_refl].
Qed.

(* records written by the runtime rather than by user code *)
Definition is_sys (i : item) : bool :=
  match i with IReset _ _ _ | ICancel _ _ | ISample _ _ | IResetPanic _ => true | ITaskEnd _ _ _ how => how =? 2 | _ => false end.
Definition Usr (m : N) (i : item) : Prop := item_mod i = Some m /\ is_sys i = false.

Lemma Usr_Own m l : Forall (Usr m) l -> Own m l.
Proof. unfold Own. apply Forall_impl. intros i [H _]. exact H. Qed.

(* the log only grows, by user-code records of the running module *)
Definition LogExt (m : N) (s s' : xs) : Prop := exists l, x_log s' = x_log s ++ l /\ Forall (Usr m) l.

Lemma LogExt_refl m s : LogExt m s s.
Proof. exists []. rewrite app_nil_r. split; [reflexivity|constructor]. Qed.

Lemma LogExt_trans m s1 s2 s3 : LogExt m s1 s2 -> LogExt m s2 s3 -> LogExt m s1 s3.
Proof.
  intros (a & Ha & Oa) (b & Hb & Ob). exists (a ++ b). rewrite Hb, Ha, app_assoc. split; [reflexivity|apply Forall_app; auto].
Qed.

Lemma LogExt_say m i s : Usr m i -> LogExt m s (say i s).
Proof. intros H. exists [i]. split; [reflexivity|constructor; [exact H|constructor]]. Qed.

Lemma LogExt_on_w m f s : LogExt m s (on_w f s).
Proof. exists []. cbn [on_w x_log]. rewrite app_nil_r. split; [reflexivity|constructor]. Qed.

(* ---- do_act / run_prog ---- *)
Lemma do_act_FrP k now m who a s : FrP m (x_w s) (x_w (do_act k now m who a s)).
Proof.
  destruct a; cbn [do_act]; try apply FrP_refl; try (destruct (broke m s); [apply FrP_refl|]); wsimpl.
  - eapply FrP_trans; [apply FrP_spend|apply FrP_buf_send_at].
  - eapply FrP_trans; [apply FrP_spend|apply FrP_buf_push; exact I].
  - eapply FrP_trans; [apply FrP_spend|apply FrP_request].
  - eapply FrP_trans; [apply FrP_spend|apply FrP_request].
  - apply FrP_set; reflexivity.
Qed.

Lemma do_act_LogExt k now m who a s : LogExt m s (do_act k now m who a s).
Proof.
  destruct a; cbn [do_act]; try apply LogExt_refl; try (destruct (broke m s); [apply LogExt_refl|]);
    (eexists; cbn [say on_w x_log]; split; [reflexivity|constructor; [split; reflexivity|constructor]]).
Qed.

Lemma quiet_FrP m s : FrP m (x_w s) (x_w (quiet m s)).
Proof. unfold quiet. wsimpl. destruct (shut (w_mod (x_w s) m)); wsimpl; [apply FrP_refl|apply FrP_request]. Qed.

Lemma quiet_LogExt m s : LogExt m s (quiet m s).
Proof.
  unfold quiet. exists [IQuiet m]. destruct (shut (w_mod (x_w s) m)); cbn [say on_w x_log];
    (split; [reflexivity|constructor; [split; reflexivity|constructor]]).
Qed.

Lemma run_prog_FrP tk k now m who : forall p s, FrP m (x_w s) (x_w (fst (run_prog tk k now m who p s))).
Proof.
  induction p as [|a p IH]; intros s; cbn [run_prog fst]; [apply FrP_refl|].
  destruct a; try (eapply FrP_trans; [apply (do_act_FrP k now m who)|apply IH]).
  - destruct (tk && (0 <? d)); cbn [fst]; [apply FrP_refl|apply IH].
  - cbn [fst]. wsimpl. apply FrP_refl.
  - destruct tk; cbn [fst]; [apply IH|apply quiet_FrP].
Qed.

Lemma run_prog_LogExt tk k now m who : forall p s, LogExt m s (fst (run_prog tk k now m who p s)).
Proof.
  induction p as [|a p IH]; intros s; cbn [run_prog fst]; [apply LogExt_refl|].
  destruct a; try (eapply LogExt_trans; [apply (do_act_LogExt k now m who)|apply IH]).
  - destruct (tk && (0 <? d)); cbn [fst]; [apply LogExt_refl|apply IH].
  - cbn [fst]. apply LogExt_say. split; reflexivity.
  - destruct tk; cbn [fst]; [apply IH|apply quiet_LogExt].
Qed.

(* ---- tasks ---- *)
Lemma end_task_Fr m how s tk : Fr m (x_w s) (x_w (end_task m how s tk)).
Proof. unfold end_task. wsimpl. constructor; try reflexivity. exists []. rewrite app_nil_r. split; [reflexivity|constructor]. Qed.

Lemma end_task_LogExt m how s tk : (how =? 2) = false -> LogExt m s (end_task m how s tk).
Proof.
  intros H. unfold end_task. eapply LogExt_trans; [apply LogExt_on_w|apply LogExt_say].
  split; [reflexivity|exact H].
Qed.

Lemma fold_end_task_Fr m : forall l s, Fr m (x_w s) (x_w (fold_left (end_task m 0) l s)).
Proof. induction l as [|tk l IH]; intros s; cbn [fold_left]; [apply Fr_refl|]. eapply Fr_trans; [apply end_task_Fr|apply IH]. Qed.

Lemma fold_end_task_LogExt m : forall l s, LogExt m s (fold_left (end_task m 0) l s).
Proof.
  induction l as [|tk l IH]; intros s; cbn [fold_left]; [apply LogExt_refl|].
  eapply LogExt_trans; [apply (end_task_LogExt m 0); reflexivity|apply IH].
Qed.

Lemma LogExt_say_all m l s : Forall (Usr m) l -> LogExt m s (say_all l s).
Proof. intros H. exists l. split; [reflexivity|exact H]. Qed.

Lemma spawn_items_Usr m i ps : Forall (Usr m) (spawn_items m i ps).
Proof. unfold spawn_items. apply Forall_forall. intros it H. apply in_map_iff in H. destruct H as (ip & <- & _). split; reflexivity. Qed.

Lemma poll1_Fr k now m s tk : Fr m (x_w s) (x_w (poll1 k now m s tk)).
Proof.
  unfold poll1.
  match goal with |- context [run_prog true k now m ?who ?p ?s0] =>
    pose proof (run_prog_FrP true k now m who p s0) as H; destruct (run_prog true k now m who p s0) as [s1 r] end.
  cbn [fst] in H. wsimpl. destruct H as [H _ _ _].
  destruct r; wsimpl; try exact H; (eapply Fr_trans; [exact H|]); try apply end_task_Fr; apply Fr_set; reflexivity.
Qed.

Lemma poll1_LogExt k now m s tk : LogExt m s (poll1 k now m s tk).
Proof.
  unfold poll1.
  match goal with |- context [run_prog true k now m ?who ?p ?s0] =>
    pose proof (run_prog_LogExt true k now m who p s0) as H; destruct (run_prog true k now m who p s0) as [s1 r] end.
  cbn [fst] in H.
  assert (H0 : LogExt m s s1) by (eapply LogExt_trans; [|exact H]; apply LogExt_say; destruct (tk_new tk); split; reflexivity).
  destruct r; try exact H0; (eapply LogExt_trans; [exact H0|]); try (apply end_task_LogExt; reflexivity); apply LogExt_on_w.
Qed.

Lemma fold_poll1_Fr k now m : forall l s, Fr m (x_w s) (x_w (fold_left (poll1 k now m) l s)).
Proof.
  induction l as [|tk l IH]; intros s; cbn [fold_left]; [apply Fr_refl|].
  eapply Fr_trans; [apply poll1_Fr|apply IH].
Qed.

Lemma fold_poll1_LogExt k now m : forall l s, LogExt m s (fold_left (poll1 k now m) l s).
Proof.
  induction l as [|tk l IH]; intros s; cbn [fold_left]; [apply LogExt_refl|].
  eapply LogExt_trans; [apply poll1_LogExt|apply IH].
Qed.

Lemma poll_ready_Fr k now m s : Fr m (x_w s) (x_w (poll_ready k now m s)).
Proof.
  unfold poll_ready. eapply Fr_trans; [|apply fold_poll1_Fr]. wsimpl. apply Fr_set; reflexivity.
Qed.

Lemma poll_ready_LogExt k now m s : LogExt m s (poll_ready k now m s).
Proof. unfold poll_ready. eapply LogExt_trans; [apply LogExt_on_w|apply fold_poll1_LogExt]. Qed.

Lemma spawn_all_Fr m ps w : Fr m w (spawn_all m ps w).
Proof. unfold spawn_all. apply Fr_set; reflexivity. Qed.

(* ---- Harness::exec ---- *)
Lemma exec_Fr k now m c sp p s : Fr m (x_w s) (x_w (fst (exec k now m c sp p s))).
Proof.
  unfold exec.
  match goal with |- context [run_prog false k now m 0 p ?s0] =>
    pose proof (run_prog_FrP false k now m 0 p s0) as H; destruct (run_prog false k now m 0 p s0) as [s2 r] end.
  cbn [fst] in H. wsimpl. destruct H as [H _ _ _].
  assert (H0 : Fr m (x_w s) (x_w s2)) by (eapply Fr_trans; [apply spawn_all_Fr|exact H]).
  destruct r; cbn [fst]; try exact H0; try (eapply Fr_trans; [exact H0|apply poll_ready_Fr]).
  eapply Fr_trans; [exact H0|]. eapply Fr_trans; [|apply fold_end_task_Fr]. wsimpl. apply Fr_set; reflexivity.
Qed.

Lemma exec_LogExt k now m c sp p s : LogExt m s (fst (exec k now m c sp p s)).
Proof.
  unfold exec.
  match goal with |- context [run_prog false k now m 0 p ?s0] =>
    pose proof (run_prog_LogExt false k now m 0 p s0) as H; destruct (run_prog false k now m 0 p s0) as [s2 r] end.
  cbn [fst] in H.
  assert (H0 : LogExt m s s2).
  { eapply LogExt_trans; [apply LogExt_say with (i := ICall m c now (active (w_mod (x_w s) m))); split; reflexivity|].
    eapply LogExt_trans; [apply LogExt_on_w|]. eapply LogExt_trans; [apply LogExt_say_all, spawn_items_Usr|exact H]. }
  destruct r; cbn [fst]; try exact H0; try (eapply LogExt_trans; [exact H0|apply poll_ready_LogExt]).
  eapply LogExt_trans; [exact H0|]. eapply LogExt_trans; [apply LogExt_on_w|apply fold_end_task_LogExt].
Qed.
