(* The model of the module life cycle (coq/Life/Sim.v) with its wire format: [run] decodes a script, runs it and
   encodes the trace and the returned error list.  No proofs in this file. *)
From Coq Require Import List NArith PArith Bool.
From DesVerif Require Import Common.Fuel Common.Codec.
From DesVerif Require Export Life.Sim.
Import ListNotations.
Open Scope N_scope.

(* ---- wire format ---- *)
(* script := k  mod{k'}  inj*                         k' = 2 + k mod 3 modules; v = (k / 3) mod 5: if 1 <= v <= k' the
                                                      variant "module v-1 falls silent instead of panicking" is run as well
   mod    := catch stages bud  progs progs progs  lp(end)      catch odd = panics are caught; stages' = 1 + stages mod 3;
                                                      bit 1+id of catch: the handle of task id is join()ed (else try_join);
                                                      bit 8 of catch: Module::reset calls schedule_in / send (bit 9 says which; the
                                                      library panics either way);
                                                      bits 4..7 of catch and field a of ops 8 / 9: the other four Stereotyp flags -- never
                                                      read here (C13_only_catch_flag_matters), as des never reads them
   progs  := n lp(prog){n}                            start programs, message programs, tasks
   prog   := (op a b c)*                              op mod 20: 0 log c | 1 send(far = a odd, delay b, payload c)
                                                      | 2 schedule(delay b, payload c) | 3 sleep b | 4 shutdown
                                                      | 5 restart_in b | 6 panic | 7 quiet | 8 catch panics | 9 do not
                                                      | 10 schedule_at(now - 1 - b) | 11 send_at(gate a, now - 1 - b)
                                                      | 12 current().shutdow_and_restart_at(now - 1 - b)
                                                      | 13 log the property of module a mod k' (every module's property is 100 + its
                                                        index throughout: here a log of that number)
                                                      | 14 panic inside a Prop::update / Prop::map closure | 15 re-entrant property
                                                        access (the library's lock panics): panics that begin while a lock is held
                                                      | 16..19 zero-delay send onto the gate whose channel carries a ChannelProbe that
                                                        panics: a panic in user code run under the event buffer's lock
                                                      10..12: calls of the
                                                        public API with a time stamp in the past; the library panics inside the call,
                                                        which makes each of them a panic at that point of the callback / task
   inj    := kind m time payload                      kind mod 3: 0 handle_message_on(m) | 1 add_message_onto(m.out)
                                                      | 2 add_message_onto(m.far);   m mod k' *)
Definition nxt (l : list N) : N * list N := match l with [] => (0, []) | x :: r => (x, r) end.

Fixpoint quads (k : N) (l : list N) : prog :=
  match l with
  | o :: a :: b :: c :: r =>
    (let o := o mod 20 in
     if o =? 0 then ALog c else if o =? 1 then ASend (N.odd a) b c else if o =? 2 then ASched b c
     else if o =? 3 then ASleep b else if o =? 4 then AShutdown else if o =? 5 then ARestartIn b
     else if o =? 6 then APanic else if o =? 7 then AQuiet else if o <? 10 then ASetCatch (o =? 8)
     else if o =? 13 then ALog (100 + a mod k) else APanic) :: quads k r
  | _ => []
  end.

Fixpoint take_blobs (n : nat) (l : list N) : list (list N) * list N :=
  match n with
  | O => ([], l)
  | S n' => match l with
            | [] => ([], [])
            | _ => let '(b, r) := take_lp l in let '(bs, r') := take_blobs n' r in (b :: bs, r')
            end
  end.

Definition blobs (l : list N) : list (list N) * list N :=
  let '(n, r) := nxt l in take_blobs (N.to_nat (N.min n (N.of_nat (length r)))) r.

Definition dec_mod (k : N) (l : list N) : modcfg * list N :=
  let '(ca, r) := nxt l in let '(st, r) := nxt r in let '(b, r) := nxt r in
  let '(ps, r) := blobs r in let '(pm, r) := blobs r in let '(pt, r) := blobs r in
  let '(pe, r) := take_lp r in
  ({| c_catch := N.odd ca; c_stages := 1 + st mod 3; c_bud := b; c_start := map (quads k) ps;
      c_msg := map (quads k) pm; c_tasks := map (quads k) pt; c_end := quads k pe; c_join := (ca / 2) mod 8;
      c_rsend := N.testbit ca 8 |}, r).

Fixpoint dec_mods (k : N) (n : nat) (l : list N) : list modcfg * list N :=
  match n with
  | O => ([], l)
  | S n' => let '(c, r) := dec_mod k l in let '(cs, r') := dec_mods k n' r in (c :: cs, r')
  end.

Fixpoint dec_inj (k : N) (l : list N) : list (N * inj) :=
  match l with
  | kd :: m :: t :: x :: r =>
    (t, let kd := kd mod 3 in
        if kd =? 0 then InjDeliver (m mod k) x else InjExit (m mod k) (kd =? 2) x) :: dec_inj k r
  | _ => []
  end.

Definition decode (l : list N) : script :=
  let '(k, r) := nxt l in
  let k' := 2 + k mod 3 in
  let '(ms, r) := dec_mods k' (N.to_nat k') r in
  {| s_mods := ms; s_inj := dec_inj k' r |}.

(* output: 5 numbers per record *)
Definition enc_item (i : item) : list N :=
  match i with
  | ICall m (CbStart st) t a => [1; m; st; t; b2n a]
  | ICall m (CbMsg x) t a => [2; m; x; t; b2n a]
  | ICall m (CbTask id i) t a => [3; m; id; t; b2n a + 2 * i]
  | ICall m (CbTimer id i) t a => [4; m; id; t; b2n a + 2 * i]
  | ICall m CbEnd t a => [5; m; 0; t; b2n a]
  | IReset m t i => [6; m; t; i; 0]
  | ILog m who x => [7; m; who; x; 0]
  | ISend m who far d x => [8; m; 2 * who + b2n far; d; x]
  | ISched m who d x => [9; m; who; d; x]
  | IShut m who None => [10; m; who; 0; 0]
  | IShut m who (Some d) => [10; m; who; 1; d]
  | IPanic m who c => [11; m; who; b2n c; 0]
  | IQuiet m => [12; m; 0; 0; 0]
  | ICancel m id => [13; m; id; 0; 0]
  | ISample t k => [14; t; k; 0; 0]
  | ISetCatch m who b => [19; m; who; b2n b; 0]
  | ITaskEnd m id i how => [20; m; id; i; how]
  | ISpawn m id i must => [21; m; id; i; b2n must]
  | IResetPanic m => [22; m; 0; 0; 0]
  end.

Definition enc_err (e : N * N) : list N := [15; (if fst e =? 0 then 0 else 1); snd e; fst e; 0].

Definition enc_result (r : result) : list N :=
  flat_map enc_item (flat_map e_items (r_trace r)) ++ flat_map enc_err (r_err r) ++
  (if r_ok r then [] else [16; 0; 0; 0; 0]).

Definition variant (l : list N) : option N :=
  let '(k, _) := nxt l in
  let v := (k / 3) mod 5 in
  if (1 <=? v) && (v <=? 2 + k mod 3) then Some (v - 1) else None.

(* the harness runs every script twice in the same process: the second simulation starts from
   the global state the first one left behind and must produce the same log; then, if asked
   for, the variant in which one module falls silent instead of panicking *)
Definition run (input : list N) : list N :=
  let sc := decode input in
  let o := enc_result (run_script sc) in
  o ++ [17; 0; 0; 0; 0] ++ o ++
  match variant input with
  | Some m => [18; m; 0; 0; 0] ++ enc_result (run_script (quieten m sc))
  | None => []
  end.
