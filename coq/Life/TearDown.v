(* C13 others_as_if_silent, including the tear-down: what the other modules do in their at_sim_end does not
   depend on whether module m panicked or fell silent either -- up to the instant the simulation ends at, which the
   left-over wake-ups of a dead module may move.  A module's at_sim_end started from the same module state at two
   different instants writes the same records except for the time stamps of its call records ([rt]). *)
From Coq Require Import List NArith Bool Lia PeanoNat.
From DesVerif Require Import Common.Fuel Life.Model Life.Base Life.Step Life.Trace Life.Inert Life.Inv Life.Events Life.Restart
  Life.Strip Life.Quiet Life.SilentBase Life.Future Life.Silent Life.Term Life.Wake Life.Errors.
Import ListNotations.
Open Scope N_scope.

(* a record without the time stamp of a call *)
Definition rt (i : item) : item := match i with ICall m c _ a => ICall m c 0 a | _ => i end.

Section Shift.
Variables (j now now' : N).

(* two deadlines: the same delay after [now] / [now']; or, if the two instants coincide, the same deadline *)
Definition dl_rel (t t' : N) : Prop := (now = now' /\ t = t') \/ exists d, t = now + d /\ t' = now' + d.
Definition tm_rel (a b : N * task) : Prop := snd a = snd b /\ dl_rel (fst a) (fst b).
Definition sh_rel (a b : option (option N)) : Prop :=
  match a, b with
  | None, None => True
  | Some None, Some None => True
  | Some (Some t), Some (Some t') => dl_rel t t'
  | _, _ => False
  end.
(* two records: equal up to the time stamp of a call, and equal if the two instants coincide *)
Definition irel (i i' : item) : Prop := rt i = rt i' /\ (now = now' -> i = i').

Lemma irel_refl i : irel i i.
Proof. split; reflexivity. Qed.

Lemma dl_rel_lt t t' d : dl_rel t t' -> (now + d <? t) = (now' + d <? t').
Proof.
  intros [[-> ->]|(d0 & -> & ->)]; [reflexivity|].
  destruct (now + d <? now + d0) eqn:X, (now' + d <? now' + d0) eqn:Y; try reflexivity; rewrite ?N.ltb_lt, ?N.ltb_ge in *; lia.
Qed.

(* the module's state in the two runs: equal up to the deadlines set since [now] / [now'] *)
Record TS (x x' : mst) : Prop := {
  ts_active : active x = active x'; ts_inc : inc x = inc x'; ts_bud : bud x = bud x'; ts_nw : nw x = nw x';
  ts_ready : ready x = ready x'; ts_hnd : hnd x = hnd x'; ts_catch : catchf x = catchf x';
  ts_timers : Forall2 tm_rel (timers x) (timers x'); ts_shut : sh_rel (shut x) (shut x') }.

Definition RX (s s' : xs) : Prop := TS (w_mod (x_w s) j) (w_mod (x_w s') j) /\ Forall2 irel (x_log s) (x_log s').

Lemma RX_say i i' s s' : irel i i' -> RX s s' -> RX (say i s) (say i' s').
Proof. intros Hi [A B]. split; [exact A|]. cbn [say x_log]. apply Forall2_app; [exact B|constructor; [exact Hi|constructor]]. Qed.

Lemma RX_say_all l s s' : RX s s' -> RX (say_all l s) (say_all l s').
Proof.
  intros [A B]. split; [exact A|]. cbn [say_all x_log]. apply Forall2_app; [exact B|].
  induction l as [|i l IH]; constructor; [apply irel_refl|exact IH].
Qed.

Lemma irel_logs l l' : Forall2 irel l l' -> map rt l = map rt l' /\ (now = now' -> l = l').
Proof.
  induction 1 as [|i i' l l' [Hi1 Hi2] _ [IH1 IH2]]; [auto|]. cbn [map]. rewrite Hi1, IH1. split; [reflexivity|].
  intros E. rewrite (Hi2 E), (IH2 E). reflexivity.
Qed.

Lemma RX_on_w f f' s s' : RX s s' -> TS (w_mod (f (x_w s)) j) (w_mod (f' (x_w s')) j) -> RX (on_w f s) (on_w f' s').
Proof. intros [_ B] H. split; [exact H|exact B]. Qed.

Lemma TS_upd x x' y y' : TS x x' ->
  active y = active x -> active y' = active x' -> inc y = inc x -> inc y' = inc x' -> nw y = nw x -> nw y' = nw x' ->
  hnd y = hnd x -> hnd y' = hnd x' -> bud y = bud y' -> ready y = ready y' -> catchf y = catchf y' ->
  Forall2 tm_rel (timers y) (timers y') -> sh_rel (shut y) (shut y') -> TS y y'.
Proof. intros [a b c d e f g h i]. intros. constructor; congruence. Qed.

Ltac ts H := apply (TS_upd _ _ _ _ H); wsimpl; rewrite ?N.eqb_refl; wsimpl; try reflexivity; try apply H;
  try (rewrite (ts_bud _ _ H); reflexivity); try (rewrite (ts_ready _ _ H); reflexivity).

Lemma buf_send_at_mod' k t m far d x w i : w_mod (buf_send_at k t m far d x w) i = w_mod w i.
Proof. apply buf_send_at_mod. Qed.

Lemma do_act_RX k who a s s' : RX s s' -> RX (do_act k now j who a s) (do_act k now' j who a s').
Proof.
  intros H. pose proof H as [A B]. assert (Hb : broke j s = broke j s') by (unfold broke; rewrite (ts_bud _ _ A); reflexivity).
  destruct a; cbn [do_act]; try exact H; rewrite <- ?Hb; try (destruct (broke j s); [exact H|]).
  - apply RX_say; [apply irel_refl|exact H].
  - apply RX_say; [apply irel_refl|]. apply RX_on_w; [exact H|]. cbv beta. rewrite !buf_send_at_mod'. unfold spend. ts A.
  - apply RX_say; [apply irel_refl|]. apply RX_on_w; [exact H|]. cbv beta. unfold buf_schedule_at, buf_push, spend. ts A.
  - apply RX_say; [apply irel_refl|]. apply RX_on_w; [exact H|]. cbv beta. unfold request, spend. ts A; try exact I.
  - apply RX_say; [apply irel_refl|]. apply RX_on_w; [exact H|]. cbv beta. unfold request, spend. ts A; try (right; exists d; auto).
  - apply RX_say; [apply irel_refl|]. apply RX_on_w; [exact H|]. cbv beta. ts A.
Qed.

Lemma quiet_RX s s' : RX s s' -> RX (quiet j s) (quiet j s').
Proof.
  intros H. pose proof H as [A B]. unfold quiet. pose proof (ts_shut _ _ A) as Hs. unfold sh_rel in Hs.
  destruct (shut (w_mod (x_w s) j)) as [[t|]|], (shut (w_mod (x_w s') j)) as [[t'|]|]; try contradiction;
    (apply RX_say; [apply irel_refl|]); try exact H.
  apply RX_on_w; [exact H|]. unfold request. ts A; try exact I.
Qed.

Lemma run_prog_RX tk k who : forall p s s', RX s s' ->
  RX (fst (run_prog tk k now j who p s)) (fst (run_prog tk k now' j who p s')) /\
  snd (run_prog tk k now j who p s) = snd (run_prog tk k now' j who p s').
Proof.
  induction p as [|a p IH]; intros s s' H; cbn [run_prog fst snd]; [auto|].
  destruct a; try (apply IH, do_act_RX, H).
  - destruct (tk && (0 <? d)); cbn [fst snd]; [auto|apply IH, H].
  - cbn [fst snd]. split; [|reflexivity]. rewrite (ts_catch _ _ (proj1 H)). apply RX_say; [apply irel_refl|exact H].
  - destruct tk; cbn [fst snd]; [apply IH, H|]. split; [apply quiet_RX, H|reflexivity].
Qed.

Lemma end_task_RX how s s' tk : RX s s' -> RX (end_task j how s tk) (end_task j how s' tk).
Proof. intros H. unfold end_task. apply RX_say; [apply irel_refl|]. apply RX_on_w; [exact H|]. exact (proj1 H). Qed.

Lemma fold_end_task_RX : forall l s s', RX s s' -> RX (fold_left (end_task j 0) l s) (fold_left (end_task j 0) l s').
Proof. induction l as [|tk l IH]; intros s s' H; cbn [fold_left]; [exact H|]. apply IH, end_task_RX, H. Qed.

Lemma tins_rel d tk : forall l l', Forall2 tm_rel l l' -> Forall2 tm_rel (tins (now + d) tk l) (tins (now' + d) tk l').
Proof.
  assert (Hn : tm_rel (now + d, tk) (now' + d, tk)) by (split; [reflexivity|right; exists d; auto]).
  induction 1 as [|a b l l' Hab Hl IH]; cbn [tins]; [constructor; [exact Hn|constructor]|].
  destruct Hab as [Hs Hd]. rewrite <- (dl_rel_lt _ _ d Hd). destruct (now + d <? fst a).
  - constructor; [exact Hn|]. constructor; [split; assumption|exact Hl].
  - constructor; [split; assumption|exact IH].
Qed.

Lemma poll1_RX k s s' tk : RX s s' -> RX (poll1 k now j s tk) (poll1 k now' j s' tk).
Proof.
  intros H. pose proof H as [A B]. unfold poll1. rewrite (ts_active _ _ A).
  match goal with |- context [run_prog true k now j ?who ?p (say ?it s)] =>
    destruct (run_prog_RX true k who p (say it s)
                (say (ICall j (if tk_new tk then CbTask (tk_id tk) (tk_inc tk) else CbTimer (tk_id tk) (tk_inc tk)) now' (active (w_mod (x_w s') j))) s'))
      as [H1 H2]; [apply RX_say; [split; [reflexivity|intros E; rewrite E; reflexivity]|exact H]|];
    destruct (run_prog true k now j who p (say it s)) as [s1 r] end.
  match goal with |- context [run_prog true k now' j ?who ?p ?s0] => destruct (run_prog true k now' j who p s0) as [s1' r'] end.
  cbn [fst snd] in H1, H2. subst r'. destruct r; try (apply end_task_RX; exact H1).
  apply RX_on_w; [exact H1|]. pose proof (proj1 H1) as A1. ts A1. apply tins_rel, (ts_timers _ _ A1).
Qed.

Lemma fold_poll1_RX k : forall l s s', RX s s' -> RX (fold_left (poll1 k now j) l s) (fold_left (poll1 k now' j) l s').
Proof. induction l as [|tk l IH]; intros s s' H; cbn [fold_left]; [exact H|]. apply IH, poll1_RX, H. Qed.

Lemma poll_ready_RX k s s' : RX s s' -> RX (poll_ready k now j s) (poll_ready k now' j s').
Proof.
  intros H. pose proof H as [A B]. unfold poll_ready. rewrite (ts_ready _ _ A). apply fold_poll1_RX.
  apply RX_on_w; [exact H|]. ts A.
Qed.

Lemma exec_RX k c sp p s s' : RX s s' ->
  RX (fst (exec k now j c sp p s)) (fst (exec k now' j c sp p s')) /\ snd (exec k now j c sp p s) = snd (exec k now' j c sp p s').
Proof.
  intros H. pose proof H as [A B]. unfold exec. rewrite (ts_active _ _ A), (ts_inc _ _ A).
  match goal with |- context [run_prog false k now j 0 p ?s0] =>
    match goal with |- context [run_prog false k now' j 0 p ?s0'] =>
      assert (H0 : RX s0 s0');
      [|destruct (run_prog_RX false k 0 p s0 s0' H0) as [H1 H2];
        destruct (run_prog false k now j 0 p s0) as [s2 r]; destruct (run_prog false k now' j 0 p s0') as [s2' r']] end end.
  { apply RX_say_all. apply RX_on_w; [apply RX_say; [split; [reflexivity|intros E; rewrite E; reflexivity]|exact H]|]. unfold spawn_all. cbn [say x_w].
    rewrite (ts_inc _ _ A). destruct A as [a1 a2 a3 a4 a5 a6 a7 a8 a9].
    constructor; cbn [w_mod set_mod]; rewrite ?N.eqb_refl; cbn [active inc bud nw ready hnd catchf timers shut set_ready set_hnd];
      rewrite ?a5, ?a6; try assumption; reflexivity. }
  cbn [fst snd] in H1, H2. subst r'. destruct r; cbn [fst snd]; split; try reflexivity; try exact H1; try (apply poll_ready_RX, H1).
  rewrite (ts_ready _ _ (proj1 H1)). apply fold_end_task_RX. apply RX_on_w; [exact H1|]. pose proof (proj1 H1) as A1. ts A1.
Qed.

Lemma catch_TS c p w w' : TS (w_mod w j) (w_mod w' j) ->
  TS (w_mod (fst (catch c j p w)) j) (w_mod (fst (catch c j p w')) j) /\ snd (catch c j p w) = snd (catch c j p w').
Proof.
  intros A. unfold catch. destruct p; cbn [fst snd]; [|auto]. rewrite (ts_catch _ _ A).
  destruct A as [a1 a2 a3 a4 a5 a6 a7 a8 a9].
  destruct (catchf (w_mod w' j)) eqn:Ec; cbn [fst snd]; (split; [|reflexivity]);
    constructor; cbn [w_mod set_mod set_err]; rewrite ?N.eqb_refl; cbn [active inc bud nw ready hnd catchf timers shut set_active];
    try assumption; try congruence; reflexivity.
Qed.

Lemma at_sim_end_RX k c s s' : RX s s' -> RX (at_sim_end k c now j s) (at_sim_end k c now' j s').
Proof.
  intros H. unfold at_sim_end. destruct (exec_RX k CbEnd [] (c_end c) s s' H) as [H1 H2].
  destruct (exec k now j CbEnd [] (c_end c) s) as [s1 pn], (exec k now' j CbEnd [] (c_end c) s') as [s1' pn']. cbn [fst snd] in H1, H2. subst pn'.
  destruct (catch_TS c pn (x_w s1) (x_w s1') (proj1 H1)) as [C1 C2].
  destruct (catch c j pn (x_w s1)) as [w2 e], (catch c j pn (x_w s1')) as [w2' e']. cbn [fst snd] in C1, C2. subst e'.
  assert (H2 : RX {| x_w := w2; x_log := x_log s1 |} {| x_w := w2'; x_log := x_log s1' |}) by (split; [exact C1|exact (proj2 H1)]).
  destruct e; [exact H2|]. apply RX_on_w; [apply poll_ready_RX, H2|]. exact (proj1 (poll_ready_RX k _ _ H2)).
Qed.
End Shift.

(* a module that is idle when the simulation ends: its tear-down record at two different instants *)
Lemma end_rec_retime sc now now' j w w' : w_mod w j = w_mod w' j ->
  timers (w_mod w j) = [] -> nw (w_mod w j) = None -> shut (w_mod w j) = None ->
  map rt (e_items (snd (end_rec sc now j w))) = map rt (e_items (snd (end_rec sc now' j w'))).
Proof.
  intros E Ht Hn Hs. unfold end_rec. cbn [snd e_items].
  assert (R : RX j now now' (at_sim_end (nmods sc) (cfg sc j) now j {| x_w := activate now j w; x_log := [] |})
                            (at_sim_end (nmods sc) (cfg sc j) now' j {| x_w := activate now' j w'; x_log := [] |})).
  { apply at_sim_end_RX. split; [|constructor]. cbn [x_w].
    unfold activate. rewrite <- E, Ht. cbn [split_due w_mod set_cur set_mod]. rewrite !N.eqb_refl. rewrite Hn.
    constructor; cbn [active inc bud nw ready hnd catchf timers shut set_nw set_ready set_timers nw_bump]; try reflexivity.
    - constructor.
    - rewrite Hs. exact I. }
  exact (proj1 (irel_logs now now' _ _ (proj2 R))).
Qed.

(* ---- the tear-down sweep ---- *)
Lemma end_seq_pick sc now j : forall ms w, NoDup ms -> In j ms ->
  exists w1, w_mod w1 j = w_mod w j /\ ends_of j (snd (end_seq sc now ms w)) = [snd (end_rec sc now j w1)].
Proof.
  induction ms as [|m0 ms IH]; intros w Hnd Hin; [destruct Hin|]. inversion Hnd as [|x y Hm Hnd']; subst. cbn [end_seq].
  pose proof (end_seq_recs sc now ms (fst (end_rec sc now m0 w))) as HR.
  destruct (N.eq_dec m0 j) as [->|Hne].
  - exists w. split; [reflexivity|]. destruct (recs_foreign j _ ms Hm HR) as (F & _ & _).
    destruct (end_seq sc now ms (fst (end_rec sc now j w))) as [w2 es]. cbn [snd] in *.
    unfold ends_of in *. cbn [filter]. unfold end_rec at 1. cbn [snd e_kind]. rewrite N.eqb_refl, F. reflexivity.
  - destruct Hin as [E|Hin]; [contradiction|]. destruct (IH (fst (end_rec sc now m0 w)) Hnd' Hin) as (w1 & E1 & E2).
    exists w1. split; [rewrite E1; apply end_rec_oth; auto|].
    destruct (end_seq sc now ms (fst (end_rec sc now m0 w))) as [w2 es]. cbn [snd] in *.
    unfold ends_of in *. cbn [filter]. unfold end_rec at 1. cbn [snd e_kind]. apply N.eqb_neq in Hne. rewrite Hne. exact E2.
Qed.

Section Final.
Variables (sc : script) (m : N).
Let sc' := quieten m sc.

(* the records of the other modules during start-up and event dispatch (Life/Silent.v) ... *)
Theorem others_as_if_silent :
  r_ok (run_script sc) = true -> r_ok (run_script sc') = true ->
  others m (items (events_of (trace sc))) = others m (items (events_of (trace sc'))).
Proof.
  intros H1 H2. subst sc'. destruct (silent_final sc m H1 H2) as (w & n & tr & w' & n' & tr' & G & G' & _ & _ & _ & O & -> & -> & _).
  unfold events_of. rewrite !filter_app, (gen_no_end sc w tr G), (gen_no_end _ w' tr' G'), !end_seq_all_end, !app_nil_r. exact O.
Qed.

(* ... and their tear-down records: the same up to the time stamps of the calls *)
Theorem others_teardown j : j <> m ->
  map rt (items (ends_of j (trace sc))) = map rt (items (ends_of j (trace sc'))).
Proof.
  intros Hj. subst sc'.
  destruct (silent_final sc m (run_terminates sc) (run_terminates _)) as (w & n & tr & w' & n' & tr' & G & G' & F & F' & R & _ & Et & Et' & _).
  rewrite Et, Et', !ends_of_app, (gen_no_ends sc j w tr G), (gen_no_ends _ j w' tr' G'). cbn [app].
  rewrite mods_quieten.
  destruct (in_dec N.eq_dec j (mods sc)) as [Hin|Hnin].
  - destruct (end_seq_pick sc n j (mods sc) w (mods_nodup sc) Hin) as (w1 & E1 & ->).
    destruct (end_seq_pick (quieten m sc) n' j (mods sc) w' (mods_nodup sc) Hin) as (w1' & E1' & ->).
    cbn [items flat_map]. rewrite !app_nil_r.
    assert (Ew : w_mod w j = w_mod w' j) by (destruct R as [[HS|HD] _]; [apply (sm_mod _ _ HS)|apply (dd_oth _ _ _ HD j Hj)]).
    destruct (idle_at_end sc w tr G F j) as [Ht Hn]. destruct (gen_WI sc w tr G j) as [(_ & _ & Hs) _].
    assert (Ec : end_rec (quieten m sc) n' j w1' = end_rec sc n' j w1').
    { unfold end_rec. rewrite nmods_quieten, cfg_quieten. apply N.eqb_neq in Hj. rewrite Hj. reflexivity. }
    rewrite Ec. apply end_rec_retime; rewrite ?E1; [rewrite E1'; exact Ew|exact Ht|exact Hn|exact Hs].
  - destruct (recs_foreign j _ (mods sc) Hnin (end_seq_recs sc n (mods sc) w)) as (-> & _ & _).
    destruct (recs_foreign j _ (mods sc) Hnin (end_seq_recs (quieten m sc) n' (mods sc) w')) as (-> & _ & _). reflexivity.
Qed.
(* ... and the run in which m falls silent does not end later: every tear-down record of it is stamped no later than every
   tear-down record of the run in which m panics *)
Lemma end_seq_times sc0 now : forall ms w e, In e (snd (end_seq sc0 now ms w)) -> e_time e = now.
Proof.
  induction ms as [|i ms IH]; intros w e H; cbn [end_seq] in H; [destruct H|].
  specialize (IH (fst (end_rec sc0 now i w)) e). destruct (end_seq sc0 now ms (fst (end_rec sc0 now i w))) as [w2 es]. cbn [snd] in *.
  destruct H as [<-|H]; [reflexivity|apply IH, H].
Qed.

Theorem silent_ends_no_later e e' : In e (trace sc) -> In e' (trace sc') -> is_end e = true -> is_end e' = true ->
  e_time e' <= e_time e.
Proof.
  subst sc'. intros Hin Hin' He He'.
  destruct (silent_final sc m (run_terminates sc) (run_terminates _)) as (w & n & tr & w' & n' & tr' & G & G' & F & F' & R & _ & Et & Et' & HW & HW').
  assert (Hn : forall sc0 w0 tr0 n0 e0, Gen sc0 w0 tr0 -> In e0 (tr0 ++ snd (end_seq sc0 n0 (mods sc0) w0)) -> is_end e0 = true -> e_time e0 = n0).
  { intros sc0 w0 tr0 n0 e0 G0 H0 E0. apply in_app_or in H0. destruct H0 as [H0|H0]; [|eapply end_seq_times; exact H0].
    exfalso. pose proof (gen_no_end sc0 w0 tr0 G0) as Hne. rewrite <- Hne in H0. apply filter_In in H0. destruct H0 as [_ H0]. rewrite E0 in H0. discriminate. }
  rewrite Et in Hin. rewrite Et' in Hin'. rewrite (Hn _ _ _ _ _ G Hin He), (Hn _ _ _ _ _ G' Hin' He').
  rewrite <- (end_time_L n w HW F), <- (end_time_L n' w' HW' F').
  destruct R as [[HS|HD] _]; [rewrite (sm_fes _ _ HS); apply N.le_refl|apply (dd_L _ _ _ HD)].
Qed.
End Final.
