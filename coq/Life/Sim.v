(* Concrete model of the module life cycle of des (C09 shutdown / restart, C13 panics):
     des/src/net/runtime/ctx.rs      buf_send_at / buf_schedule_at / buf_process
     des/src/net/runtime/events.rs   MessageExitingConnection / HandleMessageEvent / AsyncWakeupEvent /
                                     ModuleRestartEvent, ModuleRef::{handle_message, async_wakeup,
                                     module_restart, at_sim_start, at_sim_end, reset}
     des/src/net/runtime/unwind.rs   Harness::exec / catch
     des/src/net/runtime/mod.rs      SimLifecycle::{at_sim_start, at_sim_end}
     des/src/net/module/refs.rs      ModuleRef::{activate, deactivate}
     des/src/net/module/ctx/mod.rs   shutdown / shutdow_and_restart_in
     des/src/time/driver.rs          Driver (next_wakeup, timer slots: bump / next)
   Function names and branch structure follow the Rust code.  User code (callbacks and
   tokio tasks) is a script.  The world has k modules 0..k-1 (2 <= k <= 4) on a ring:
   gate "out" of module m is connected to gate "in" of module m+1; gate "far" of m is
   connected to the transit gate "via" of m+1, which is connected to gate "fin" of m+2
   (all indices mod k, no channels).  No proofs in this file.  The wire format is in Life/Model.v. *)
From Coq Require Import List NArith PArith Bool.
From DesVerif Require Import Common.Fuel Common.Codec.
Import ListNotations.
Open Scope N_scope.

(* ---- scripts of user code ---- *)
Inductive act :=
| ALog (x : N)                       (* write x to the log *)
| ASend (far : bool) (d x : N)       (* send_in(msg x, "out" | "far", d) *)
| ASched (d x : N)                   (* schedule_in(msg x, d) *)
| ASleep (d : N)                     (* des::time::sleep(d).await   (tasks only) *)
| AShutdown                          (* current().shutdown() *)
| ARestartIn (d : N)                 (* current().shutdow_and_restart_in(d) *)
| APanic                             (* panic!() *)
| ASetCatch (b : bool)               (* current().set_stereotyp(Stereotyp { on_panic_catch: b, ..HOST }) *)
| AQuiet.                            (* callbacks only, the "falls silent" counterpart of APanic: request
                                        shutdown() unless a request is already pending, return, and let every
                                        task that is polled in this event end at once without acting *)
Definition prog := list act.

(* One module.  [c_start]: at_sim_start(0) of incarnation i runs program min(i, last);
   [c_msg]: handle_message(payload x) runs program x mod length; [c_tasks]: the tasks spawned
   (tokio::spawn + try_join) by at_sim_start(0) of every incarnation; [c_end]: at_sim_end.
   Every send / schedule / shutdown request of the module draws on its budget [c_bud]. *)
Record modcfg := { c_catch : bool; c_stages : N; c_bud : N;
  c_start : list prog; c_msg : list prog; c_tasks : list prog; c_end : prog;
  c_join : N;     (* bit id set: the handle of task id goes to current().join(), else to try_join() *)
  c_rsend : bool }. (* Module::reset calls send / schedule: the library panics ("Could not lock mutex on single thread":
                       buf_process holds the event buffer's lock while it runs reset) *)

(* ---- future event set (C01, C03): the two-list specification of coq/CQueue/Spec.v ---- *)
Inductive fev :=
| EvExit (m : N) (far : bool) (x : N)    (* MessageExitingConnection on gate out/far of module m *)
| EvDeliver (m x : N)                    (* HandleMessageEvent *)
| EvWake (m : N)                         (* AsyncWakeupEvent *)
| EvRestart (m : N).                     (* ModuleRestartEvent *)

Fixpoint fes_ins (t : N) (e : fev) (l : list (N * fev)) : list (N * fev) :=
  match l with
  | [] => [(t, e)]
  | x :: r => if t <? fst x then (t, e) :: x :: r else x :: fes_ins t e r
  end.

Record fes := { f_tcur : N; f_zero : list (N * fev); f_rest : list (N * fev) }.

Definition fes_add (t : N) (e : fev) (f : fes) : fes :=
  if t =? f_tcur f then {| f_tcur := f_tcur f; f_zero := f_zero f ++ [(t, e)]; f_rest := f_rest f |}
  else {| f_tcur := f_tcur f; f_zero := f_zero f; f_rest := fes_ins t e (f_rest f) |}.

Definition fes_fetch (f : fes) : option (N * fev * fes) :=
  match f_zero f with
  | x :: z => Some (x, {| f_tcur := f_tcur f; f_zero := z; f_rest := f_rest f |})
  | [] => match f_rest f with
          | x :: r => Some (x, {| f_tcur := fst x; f_zero := []; f_rest := r |})
          | [] => None
          end
  end.

Definition fes_flush (ps : list (N * fev)) (f : fes) : fes :=
  fold_left (fun f p => fes_add (fst p) (snd p) f) ps f.

(* ---- state ---- *)
(* a spawned task: index in c_tasks, incarnation of the module that spawned it, whether it has
   never been polled, rest of its script *)
Record task := { tk_id : N; tk_inc : N; tk_new : bool; tk_rest : prog }.

(* ModuleContext of one module: active flag; number of resets so far; remaining budget;
   shutdown_task; Driver::next_wakeup (None = SimTime::MAX); live timer entries sorted by
   deadline (FIFO among equal deadlines); tasks woken or spawned but not yet polled (FIFO);
   the JoinHandles given to join / try_join; Stereotyp.on_panic_catch (a Cell of the
   ModuleContext: it can be changed at any time, survives a reset, and is read by Harness::catch) *)
Record mst := { active : bool; inc : N; bud : N; shut : option (option N);
  nw : option N; timers : list (N * task); ready : list task; hnd : list (N * N); catchf : bool }.
(* [hnd]: the JoinHandles given to join / try_join, (incarnation, id), in order; they survive shutdown and
   restart (AsyncCoreExt::reset replaces the tokio runtime only). *)

(* the simulation: event set, modules, Sim::error (entries (code, module): code 0 PanicError, 1 JoinError Paniced, 2 JoinError NotFinished, 3 JoinError Tokio),
   MOD_CTX (module context slot), BUF_CTX.events (event buffer) *)
Record world := { w_fes : fes; w_mod : N -> mst; w_err : list (N * N);
  w_cur : option N; w_buf : list (N * fev); w_fin : list (N * N * N * N) }.
(* [w_fin]: the tasks that have ended so far, (module, incarnation, id, how): how = 0 ran to completion |
   1 panicked | 2 dropped unfinished with its tokio runtime (what the JoinHandles will report) *)

Definition set_fes (w : world) (f : fes) : world :=
  {| w_fes := f; w_mod := w_mod w; w_err := w_err w; w_cur := w_cur w; w_buf := w_buf w; w_fin := w_fin w |}.
Definition set_mod (w : world) (m : N) (x : mst) : world :=
  {| w_fes := w_fes w; w_mod := fun i => if i =? m then x else w_mod w i; w_err := w_err w;
     w_cur := w_cur w; w_buf := w_buf w; w_fin := w_fin w |}.
Definition set_err (w : world) (e : list (N * N)) : world :=
  {| w_fes := w_fes w; w_mod := w_mod w; w_err := e; w_cur := w_cur w; w_buf := w_buf w; w_fin := w_fin w |}.
Definition set_cur (w : world) (c : option N) : world :=
  {| w_fes := w_fes w; w_mod := w_mod w; w_err := w_err w; w_cur := c; w_buf := w_buf w; w_fin := w_fin w |}.
Definition set_buf (w : world) (b : list (N * fev)) : world :=
  {| w_fes := w_fes w; w_mod := w_mod w; w_err := w_err w; w_cur := w_cur w; w_buf := b; w_fin := w_fin w |}.

Definition set_fin (w : world) (l : list (N * N * N * N)) : world :=
  {| w_fes := w_fes w; w_mod := w_mod w; w_err := w_err w; w_cur := w_cur w; w_buf := w_buf w; w_fin := l |}.

Definition set_active (x : mst) (a : bool) : mst :=
  {| active := a; inc := inc x; bud := bud x; shut := shut x; nw := nw x; timers := timers x;
     ready := ready x; hnd := hnd x; catchf := catchf x |}.
Definition set_bud (x : mst) (b : N) : mst :=
  {| active := active x; inc := inc x; bud := b; shut := shut x; nw := nw x; timers := timers x;
     ready := ready x; hnd := hnd x; catchf := catchf x |}.
Definition set_shut (x : mst) (s : option (option N)) : mst :=
  {| active := active x; inc := inc x; bud := bud x; shut := s; nw := nw x; timers := timers x;
     ready := ready x; hnd := hnd x; catchf := catchf x |}.
Definition set_nw (x : mst) (n : option N) : mst :=
  {| active := active x; inc := inc x; bud := bud x; shut := shut x; nw := n; timers := timers x;
     ready := ready x; hnd := hnd x; catchf := catchf x |}.
Definition set_timers (x : mst) (l : list (N * task)) : mst :=
  {| active := active x; inc := inc x; bud := bud x; shut := shut x; nw := nw x; timers := l;
     ready := ready x; hnd := hnd x; catchf := catchf x |}.
Definition set_ready (x : mst) (l : list task) : mst :=
  {| active := active x; inc := inc x; bud := bud x; shut := shut x; nw := nw x; timers := timers x;
     ready := l; hnd := hnd x; catchf := catchf x |}.
Definition set_catchf (x : mst) (b : bool) : mst :=
  {| active := active x; inc := inc x; bud := bud x; shut := shut x; nw := nw x; timers := timers x;
     ready := ready x; hnd := hnd x; catchf := b |}.
Definition set_hnd (x : mst) (l : list (N * N)) : mst :=
  {| active := active x; inc := inc x; bud := bud x; shut := shut x; nw := nw x; timers := timers x;
     ready := ready x; hnd := l; catchf := catchf x |}.

(* ---- the log ---- *)
Inductive cb :=
| CbStart (stage : N)      (* Module::at_sim_start(stage) *)
| CbMsg (x : N)            (* Module::handle_message(payload x) *)
| CbTask (id i : N)        (* first poll of task id spawned by incarnation i *)
| CbTimer (id i : N)       (* task id of incarnation i resumed: its sleep completed *)
| CbEnd.                   (* Module::at_sim_end *)

(* [who]: 0 = the module's callback, 1 + id = task id.  ICall carries SimTime::now() and a
   sample of is_active of the module taken inside the call. *)
Inductive item :=
| ICall (m : N) (c : cb) (t : N) (a : bool)
| IReset (m t i : N)                        (* Module::reset at t; i = resets so far *)
| ILog (m who x : N)
| ISend (m who : N) (far : bool) (d x : N)
| ISched (m who d x : N)
| IShut (m who : N) (r : option N)          (* shutdown(), shutdow_and_restart_in(d) *)
| IPanic (m who : N) (c : bool)             (* about to panic; c = on_panic_catch of the module right now *)
| IQuiet (m : N)
| ICancel (m id : N)                        (* the future of task id was dropped unfinished *)
| ISample (t mask : N)                      (* after a dispatched event: time, is_active of all modules *)
| ISetCatch (m who : N) (b : bool)          (* set_stereotyp(on_panic_catch := b) *)
| ITaskEnd (m id i how : N)                 (* task id of incarnation i ended: how = 0 ran to completion, 1 panics now,
                                               2 its future was dropped unfinished *)
| ISpawn (m id i : N) (must : bool)         (* task id of incarnation i spawned, handle given to join (must) / try_join *)
| IResetPanic (m : N).                      (* Module::reset of m is about to call send / schedule: the library panics *)

Record xs := { x_w : world; x_log : list item }.
Definition say (i : item) (s : xs) : xs := {| x_w := x_w s; x_log := x_log s ++ [i] |}.
Definition on_w (f : world -> world) (s : xs) : xs := {| x_w := f (x_w s); x_log := x_log s |}.
Definition say_all (l : list item) (s : xs) : xs := {| x_w := x_w s; x_log := x_log s ++ l |}.

(* ---- topology ---- *)
Definition next (k m : N) : N := (m + 1) mod k.

(* MessageExitingConnection::handle_with_sink: every gate of the chain that has a next hop
   is checked for an active owner; the last gate is not.  Result: the receiving module. *)
Definition walk (k : N) (w : world) (m : N) (far : bool) : option N :=
  if active (w_mod w m) then
    if far then (if active (w_mod w (next k m)) then Some (next k (next k m)) else None)
    else Some (next k m)
  else None.

(* ---- ctx.rs: buffers ---- *)
Definition buf_push (p : N * fev) (w : world) : world := set_buf w (w_buf w ++ [p]).

Definition buf_send_at (k now m : N) (far : bool) (d x : N) (w : world) : world :=
  if d =? 0 then match walk k w m far with Some dst => buf_push (now, EvDeliver dst x) w | None => w end
  else buf_push (now + d, EvExit m far x) w.

Definition buf_schedule_at (now m d x : N) (w : world) : world := buf_push (now + d, EvDeliver m x) w.

(* ---- interpretation of the scripts ---- *)
Definition spend (m : N) (w : world) : world := set_mod w m (set_bud (w_mod w m) (bud (w_mod w m) - 1)).
Definition broke (m : N) (s : xs) : bool := bud (w_mod (x_w s) m) =? 0.
Definition request (m : N) (r : option N) (w : world) : world := set_mod w m (set_shut (w_mod w m) (Some r)).

Definition do_act (k now m who : N) (a : act) (s : xs) : xs :=
  match a with
  | ALog x => say (ILog m who x) s
  | ASend far d x => if broke m s then s else
      say (ISend m who far d x) (on_w (fun w => buf_send_at k now m far d x (spend m w)) s)
  | ASched d x => if broke m s then s else
      say (ISched m who d x) (on_w (fun w => buf_schedule_at now m d x (spend m w)) s)
  | AShutdown => if broke m s then s else
      say (IShut m who None) (on_w (fun w => request m None (spend m w)) s)
  | ARestartIn d => if broke m s then s else
      say (IShut m who (Some d)) (on_w (fun w => request m (Some (now + d)) (spend m w)) s)
  | ASetCatch b => say (ISetCatch m who b) (on_w (fun w => set_mod w m (set_catchf (w_mod w m) b)) s)
  | ASleep _ | APanic | AQuiet => s
  end.

Definition quiet (m : N) (s : xs) : xs :=
  say (IQuiet m) (match shut (w_mod (x_w s) m) with
                  | None => on_w (request m None) s
                  | Some _ => s end).

Inductive res := RDone | RPanic | RQuiet | RSleep (d : N) (rest : prog).

Fixpoint run_prog (is_task : bool) (k now m who : N) (p : prog) (s : xs) : xs * res :=
  match p with
  | [] => (s, RDone)
  | APanic :: _ => (say (IPanic m who (catchf (w_mod (x_w s) m))) s, RPanic)
  | AQuiet :: r => if is_task then run_prog is_task k now m who r s else (quiet m s, RQuiet)
  | ASleep d :: r => if is_task && (0 <? d) then (s, RSleep d r) else run_prog is_task k now m who r s
  | a :: r => run_prog is_task k now m who r (do_act k now m who a s)
  end.

(* TimerQueue::add: behind all entries with a deadline <= t *)
Fixpoint tins (t : N) (tk : task) (l : list (N * task)) : list (N * task) :=
  match l with
  | [] => [(t, tk)]
  | x :: r => if t <? fst x then (t, tk) :: x :: r else x :: tins t tk r
  end.

(* a task ends: [how] 0 = ran to completion, 1 = panicked *)
Definition end_task (m how : N) (s : xs) (tk : task) : xs :=
  say (ITaskEnd m (tk_id tk) (tk_inc tk) how)
      (on_w (fun w => set_fin w (w_fin w ++ [(m, tk_inc tk, tk_id tk, how)])) s).

(* one poll of a task by the tokio runtime of module m *)
Definition poll1 (k now m : N) (s : xs) (tk : task) : xs :=
  let s0 := say (ICall m (if tk_new tk then CbTask (tk_id tk) (tk_inc tk) else CbTimer (tk_id tk) (tk_inc tk)) now
                       (active (w_mod (x_w s) m))) s in
  let '(s1, r) := run_prog true k now m (1 + tk_id tk) (tk_rest tk) s0 in
  match r with
  | RDone | RQuiet => end_task m 0 s1 tk
  | RPanic => end_task m 1 s1 tk
  | RSleep d rest =>
      on_w (fun w => set_mod w m (set_timers (w_mod w m)
              (tins (now + d) {| tk_id := tk_id tk; tk_inc := tk_inc tk; tk_new := false; tk_rest := rest |} (timers (w_mod w m))))) s1
  end.

(* yield_now inside Harness::exec: every woken / freshly spawned task is polled once, FIFO *)
Definition poll_ready (k now m : N) (s : xs) : xs :=
  fold_left (poll1 k now m) (ready (w_mod (x_w s) m))
            (on_w (fun w => set_mod w m (set_ready (w_mod w m) [])) s).

Definition spawn_all (m : N) (ps : list (bool * prog)) (w : world) : world :=
  let x := w_mod w m in
  set_mod w m (set_hnd (set_ready x
    (ready x ++ map (fun ip => {| tk_id := N.of_nat (fst ip); tk_inc := inc x; tk_new := true; tk_rest := snd (snd ip) |})
                    (combine (seq 0 (length ps)) ps)))
    (hnd x ++ map (fun i => (inc x, N.of_nat i)) (seq 0 (length ps)))).
Definition spawn_items (m i : N) (ps : list (bool * prog)) : list item :=
  map (fun ip => ISpawn m (N.of_nat (fst ip)) i (fst (snd ip))) (combine (seq 0 (length ps)) ps).

(* Harness::exec(callback): the callback, then yield_now; a panic of the callback unwinds
   out of block_on before the yield.  [spawn]: the tasks at_sim_start(0) spawns before it runs its program,
   each with the flag "handle goes to join()".  After `quiet` every woken task ends at once when polled.
   Result: did the callback panic? *)
Definition exec (k now m : N) (c : cb) (spawn : list (bool * prog)) (p : prog) (s : xs) : xs * bool :=
  let s0 := say (ICall m c now (active (w_mod (x_w s) m))) s in
  let s1 := say_all (spawn_items m (inc (w_mod (x_w s) m)) spawn) (on_w (spawn_all m spawn) s0) in
  let '(s2, r) := run_prog false k now m 0 p s1 in
  match r with
  | RPanic => (s2, true)
  | RQuiet => (fold_left (end_task m 0) (ready (w_mod (x_w s2) m))
                         (on_w (fun w => set_mod w m (set_ready (w_mod w m) [])) s2), false)
  | _ => (poll_ready k now m s2, false)
  end.

(* Harness::catch: the stereotype is read now, after the callback.  Result: was an error returned? *)
Definition catch (c : modcfg) (m : N) (panicked : bool) (w : world) : world * bool :=
  if panicked then
    let w1 := set_mod w m (set_active (w_mod w m) false) in
    if catchf (w_mod w m) then (w1, false) else (set_err w1 (w_err w1 ++ [(0, m)]), true)
  else (w, false).

(* ---- refs.rs ---- *)
Fixpoint split_due (now : N) (l : list (N * task)) : list task * list (N * task) :=
  match l with
  | [] => ([], [])
  | x :: r => if fst x <=? now then let '(d, q) := split_due now r in (snd x :: d, q) else ([], l)
  end.

Definition nw_bump (now : N) (n : option N) : option N :=
  match n with Some t => if t <=? now then None else Some t | None => None end.

(* ModuleRef::activate: place the context; Driver::bump wakes every entry with deadline <= now *)
Definition activate (now m : N) (w : world) : world :=
  let x := w_mod w m in
  let '(d, q) := split_due now (timers x) in
  set_cur (set_mod w m (set_nw (set_ready (set_timers x q) (ready x ++ d)) (nw_bump now (nw x)))) (Some m).

Definition lt_nw (t : N) (n : option N) : bool := match n with Some u => t <? u | None => true end.

(* ModuleRef::deactivate: schedule a wake-up for the earliest timer if it is earlier than
   next_wakeup; take the context *)
Definition deactivate (m : N) (w : world) : world :=
  let x := w_mod w m in
  set_cur (match timers x with
           | (t, _) :: _ => if lt_nw t (nw x)
                            then set_fes (set_mod w m (set_nw x (Some t))) (fes_add t (EvWake m) (w_fes w))
                            else w
           | [] => w
           end) None.

(* tasks whose futures are dropped with the tokio runtime, reported in id order *)
Definition live_ids (x : mst) : list N := map tk_id (ready x) ++ map (fun p => tk_id (snd p)) (timers x).
Definition dropped (c : modcfg) (x : mst) : list N :=
  flat_map (fun i => if existsb (N.eqb (N.of_nat i)) (live_ids x) then [N.of_nat i] else []) (seq 0 (length (c_tasks c))).
Definition cancelled (m : N) (c : modcfg) (x : mst) : list item :=
  map (ICancel m) (dropped c x) ++ map (fun id => ITaskEnd m id (inc x) 2) (dropped c x).

Definition rpanic (c : modcfg) (m : N) : list item := if c_rsend c then [IResetPanic m] else [].

(* buf_process, second half: a requested shutdown is consumed: mark inactive, drop the tokio
   runtime (tasks and their timer entries), activate / Module::reset / deactivate, schedule
   the restart *)
Definition shutdown_part (c : modcfg) (now m : N) (w : world) : world * list item :=
  let x := w_mod w m in
  match shut x with
  | None => (w, [])
  | Some r =>
    let x1 := {| active := false; inc := inc x + 1; bud := bud x; shut := None; nw := nw_bump now (nw x);
                 timers := []; ready := []; hnd := hnd x; catchf := catchf x |} in
    let w2 := set_fin (set_mod w m x1) (w_fin w ++ map (fun id => (m, inc x, id, 2)) (dropped c x)) in
    let w3 := match r with Some t => set_fes w2 (fes_add t (EvRestart m) (w_fes w2)) | None => w2 end in
    (* Module::reset runs under Harness::pass: a panic in it is reported whatever the stereotype says, and changes
       nothing else: the module stays down, the restart stays scheduled *)
    (if c_rsend c then set_err w3 (w_err w3 ++ [(0, m)]) else w3,
     cancelled m c x ++ [IReset m now (inc x + 1)] ++ rpanic c m)
  end.

(* buf_process: drain the buffered events into the event set in order, then handle a
   requested shutdown *)
Definition buf_process (c : modcfg) (now m : N) (w : world) : world * list item :=
  shutdown_part c now m (set_buf (set_fes w (fes_flush (w_buf w) (w_fes w))) []).

(* ---- events.rs ---- *)
Definition pick_start (c : modcfg) (i : N) : prog :=
  nth (N.to_nat (N.min i (N.of_nat (length (c_start c)) - 1))) (c_start c) [].
Definition pick_msg (c : modcfg) (x : N) : prog :=
  match c_msg c with [] => [] | _ => nth (N.to_nat (x mod N.of_nat (length (c_msg c)))) (c_msg c) [] end.

(* the tasks at_sim_start(0) spawns, with their join flags *)
Definition c_spawn (c : modcfg) : list (bool * prog) :=
  map (fun ip => (N.testbit (c_join c) (N.of_nat (fst ip)), snd ip)) (combine (seq 0 (length (c_tasks c))) (c_tasks c)).

(* ModuleRef::at_sim_start(stage): only stage 0 spawns tasks and runs a program *)
Definition at_sim_start (k : N) (c : modcfg) (now m stage : N) (s : xs) : xs * bool :=
  let '(s1, p) := if stage =? 0
                  then exec k now m (CbStart stage) (c_spawn c) (pick_start c (inc (w_mod (x_w s) m))) s
                  else exec k now m (CbStart stage) [] [] s in
  let '(w2, e) := catch c m p (x_w s1) in
  ({| x_w := w2; x_log := x_log s1 |}, e).

Definition stage_list (n : N) : list N := map N.of_nat (seq 0 (N.to_nat n)).

(* one stage of a restart; the flag says that the stage loop ends here: at_sim_start(stage)? returned an
   error, or the module is no longer active (a caught panic deactivated it) *)
Definition restart_stage (k : N) (c : modcfg) (now m stage : N) (s : xs) : xs * bool :=
  (fst (at_sim_start k c now m stage s),
   snd (at_sim_start k c now m stage s) || negb (active (w_mod (x_w (fst (at_sim_start k c now m stage s))) m))).

(* ModuleRef::module_restart: active := true; for stage in 0..n { at_sim_start(stage)?; if !active { break } } *)
Definition module_restart (k : N) (c : modcfg) (now m : N) (s : xs) : xs :=
  let s0 := on_w (fun w => set_mod w m (set_active (w_mod w m) true)) s in
  fst (fold_left (fun (acc : xs * bool) stage => if snd acc then acc else restart_stage k c now m stage (fst acc))
                 (stage_list (c_stages c)) (s0, false)).

(* ModuleRef::handle_message *)
Definition handle_message (k : N) (c : modcfg) (now m x : N) (s : xs) : xs :=
  if active (w_mod (x_w s) m) then
    let '(s1, p) := exec k now m (CbMsg x) [] (pick_msg c x) s in
    {| x_w := fst (catch c m p (x_w s1)); x_log := x_log s1 |}
  else s.

(* ModuleRef::async_wakeup: Harness::exec(|| {}) *)
Definition async_wakeup (k now m : N) (s : xs) : xs :=
  if active (w_mod (x_w s) m) then poll_ready k now m s else s.

(* what the driver adds before the run: handle_message_on(m), add_message_onto(m.out | m.far) *)
Inductive inj := InjDeliver (m x : N) | InjExit (m : N) (far : bool) (x : N).
Definition inj_ev (i : inj) : fev :=
  match i with InjDeliver m x => EvDeliver m x | InjExit m far x => EvExit m far x end.

Record script := { s_mods : list modcfg; s_inj : list (N * inj) }.

Definition cfg0 : modcfg :=
  {| c_catch := false; c_stages := 1; c_bud := 0; c_start := []; c_msg := []; c_tasks := []; c_end := []; c_join := 0; c_rsend := false |}.
Definition nmods (sc : script) : N := N.of_nat (length (s_mods sc)).
Definition cfg (sc : script) (m : N) : modcfg := nth (N.to_nat m) (s_mods sc) cfg0.

(* activate; callback; deactivate; buf_process *)
Definition around (sc : script) (now m : N) (f : xs -> xs) (w : world) : world * list item :=
  let s := f {| x_w := activate now m w; x_log := [] |} in
  let '(w', l) := buf_process (cfg sc m) now m (deactivate m (x_w s)) in
  (w', x_log s ++ l).

(* NetEvents::handle for one event popped at time t *)
Definition process (sc : script) (w : world) (t : N) (ev : fev) : world * list item :=
  let k := nmods sc in
  match ev with
  | EvExit m far x =>
    (match walk k w m far with Some dst => set_fes w (fes_add t (EvDeliver dst x) (w_fes w)) | None => w end, [])
  | EvDeliver m x => around sc t m (handle_message k (cfg sc m) t m x) w
  | EvWake m => around sc t m (async_wakeup k t m) w
  | EvRestart m => around sc t m (module_restart k (cfg sc m) t m) w
  end.

(* ---- the trace ---- *)
Inductive ekind :=
| KStart (stage m : N)      (* SimLifecycle::at_sim_start, one (stage, module) pair *)
| KBoot                     (* end of the start-up phase: first is_active sample *)
| KLoop (ev : fev)          (* one dispatched event *)
| KEnd (m : N).             (* SimLifecycle::at_sim_end, one module *)

Record erec := { e_kind : ekind; e_time : N; e_items : list item }.

Definition mods (sc : script) : list N := map N.of_nat (seq 0 (length (s_mods sc))).

Definition mask (sc : script) (w : world) : N :=
  fold_right (fun m acc => 2 * acc + (if active (w_mod w m) then 1 else 0)) 0 (mods sc).

(* SimLifecycle::at_sim_start: stages outermost, modules in tree order; a module that an earlier
   stage deactivated (it panicked or shut itself down) is skipped *)
Definition start_one (sc : script) (stage m : N) (acc : world * list erec) : world * list erec :=
  let '(w, tr) := acc in
  if (stage <? c_stages (cfg sc m)) && active (w_mod w m) then
    let '(w', l) := around sc 0 m (fun s => fst (at_sim_start (nmods sc) (cfg sc m) 0 m stage s)) w in
    (w', tr ++ [{| e_kind := KStart stage m; e_time := 0; e_items := l |}])
  else acc.

Definition max_stage (sc : script) : N := fold_right (fun c a => N.max (c_stages c) a) 1 (s_mods sc).

Definition sim_start (sc : script) (w : world) : world * list erec :=
  fold_left (fun acc stage => fold_left (fun acc m => start_one sc stage m acc) (mods sc) acc)
            (stage_list (max_stage sc)) (w, []).

(* the join section of ModuleRef::at_sim_end: first the try_join handles in order (finished and panicked:
   JoinError Paniced; everything else is ignored), then the must_join handles in order (not finished:
   NotFinished; panicked: Paniced; dropped with an earlier tokio runtime: Tokio(cancelled)) *)
Definition outcome (fin : list (N * N * N * N)) (m : N) (h : N * N) : option N :=
  match find (fun e => (fst (fst (fst e)) =? m) && (snd (fst (fst e)) =? fst h) && (snd (fst e) =? snd h)) fin with
  | Some e => Some (snd e) | None => None end.
Definition join_errs (c : modcfg) (m : N) (hs : list (N * N)) (fin : list (N * N * N * N)) : list (N * N) :=
  flat_map (fun h => if N.testbit (c_join c) (snd h) then []
                     else match outcome fin m h with Some 1 => [(1, m)] | _ => [] end) hs ++
  flat_map (fun h => if N.testbit (c_join c) (snd h)
                     then match outcome fin m h with None => [(2, m)] | Some 0 => [] | Some 1 => [(1, m)] | Some _ => [(3, m)] end
                     else []) hs.

(* ModuleRef::at_sim_end: the callback; unless it returned a PanicError, one more yield and
   the join section (the handle lists are drained there; nothing reads them afterwards) *)
Definition at_sim_end (k : N) (c : modcfg) (now m : N) (s : xs) : xs :=
  let '(s1, p) := exec k now m CbEnd [] (c_end c) s in
  let '(w2, e) := catch c m p (x_w s1) in
  let s2 := {| x_w := w2; x_log := x_log s1 |} in
  if e then s2 else
    let s3 := poll_ready k now m s2 in
    on_w (fun w => set_err w (w_err w ++ join_errs c m (hnd (w_mod w m)) (w_fin w))) s3.

(* SimLifecycle::at_sim_end: every module, active or not; no buf_process *)
Definition end_one (sc : script) (now m : N) (acc : world * list erec) : world * list erec :=
  let '(w, tr) := acc in
  let s := at_sim_end (nmods sc) (cfg sc m) now m {| x_w := activate now m w; x_log := [] |} in
  (deactivate m (x_w s), tr ++ [{| e_kind := KEnd m; e_time := now; e_items := x_log s |}]).

Definition sim_end (sc : script) (now : N) (w : world) : world * list erec :=
  fold_left (fun acc m => end_one sc now m acc) (mods sc) (w, []).

(* Runtime::run main loop; the harness dispatches one event at a time and samples is_active *)
Definition lstate := (world * N * list erec)%type.

Definition loop_step (sc : script) (st : lstate) : lstate + lstate :=
  let '(w, now, tr) := st in
  match fes_fetch (w_fes w) with
  | None => inr st
  | Some (t, ev, f) =>
    let '(w', l) := process sc (set_fes w f) t ev in
    inl (w', t, tr ++ [{| e_kind := KLoop ev; e_time := t; e_items := l ++ [ISample t (mask sc w')] |}])
  end.

Definition mst0 (c : modcfg) : mst :=
  {| active := true; inc := 0; bud := c_bud c; shut := None; nw := None; timers := []; ready := []; hnd := [];
     catchf := c_catch c |}.

Definition init_world (sc : script) : world :=
  {| w_fes := fes_flush (map (fun p => (fst p, inj_ev (snd p))) (s_inj sc)) {| f_tcur := 0; f_zero := []; f_rest := [] |};
     w_mod := fun m => mst0 (cfg sc m); w_err := []; w_cur := None; w_buf := []; w_fin := [] |}.

(* Life/Term.v proves that this fuel is never exhausted *)
Definition prog_size (p : prog) : N := N.of_nat (length p).
Definition cfg_size (c : modcfg) : N :=
  fold_right (fun p a => prog_size p + 1 + a) 0 (c_tasks c).
Definition cfg_unit (sc : script) : N := fold_right (fun c a => N.max (cfg_size c) a) 0 (s_mods sc).
Definition fuel_bound (sc : script) : N :=
  let u := 8 * (cfg_unit sc + 2) in
  u * (fold_right (fun c a => c_bud c + 1 + a) 0 (s_mods sc) + N.of_nat (length (s_inj sc)) + 1).
Definition fuel (sc : script) : positive := N.succ_pos (fuel_bound sc).

Record result := { r_trace : list erec; r_err : list (N * N); r_ok : bool }.

Definition run_script (sc : script) : result :=
  let '(w0, tr0) := sim_start sc (init_world sc) in
  let boot := {| e_kind := KBoot; e_time := 0; e_items := [ISample 0 (mask sc w0)] |} in
  match iter_until (fuel sc) (loop_step sc) (w0, 0, tr0 ++ [boot]) with
  | inr (w, now, tr) => let '(w', tr') := sim_end sc now w in
                        {| r_trace := tr ++ tr'; r_err := w_err w'; r_ok := true |}
  | inl (w, _, tr) => {| r_trace := tr; r_err := w_err w; r_ok := false |}
  end.

Definition trace (sc : script) : list erec := r_trace (run_script sc).
Definition flat_log (sc : script) : list item := flat_map e_items (trace sc).

(* ---- the "falls silent" variant of a script (C13 others_as_if_silent) ---- *)
Definition quiet_act (a : act) : act := match a with APanic => AQuiet | _ => a end.
Definition quiet_cfg (c : modcfg) : modcfg :=
  {| c_catch := c_catch c; c_stages := c_stages c; c_bud := c_bud c;
     c_start := map (map quiet_act) (c_start c); c_msg := map (map quiet_act) (c_msg c);
     c_tasks := c_tasks c; c_end := map quiet_act (c_end c); c_join := c_join c; c_rsend := c_rsend c |}.
Fixpoint upd_nth {A} (n : nat) (f : A -> A) (l : list A) : list A :=
  match l, n with
  | [], _ => []
  | x :: r, O => f x :: r
  | x :: r, S n' => x :: upd_nth n' f r
  end.
(* module m's callbacks fall silent where they would have panicked *)
Definition quieten (m : N) (sc : script) : script :=
  {| s_mods := upd_nth (N.to_nat m) quiet_cfg (s_mods sc); s_inj := s_inj sc |}.

