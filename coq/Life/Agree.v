(* Relational reading of the script interpreter: an event of module i reads module i's own
   state, the active flags of the other modules (gate walks) and the event buffer, nothing
   else.  Two worlds that agree on these compute the same log and agree again afterwards.
   Used by Life/Silent.v (C13 others_as_if_silent). *)
From Coq Require Import List NArith Bool Lia.
From DesVerif Require Import Life.Model Life.Base Life.Step.
Import ListNotations.
Open Scope N_scope.

Record Agree (i : N) (w w' : world) : Prop := {
  ag_mod : w_mod w i = w_mod w' i;
  ag_act : forall j, active (w_mod w j) = active (w_mod w' j);
  ag_buf : w_buf w = w_buf w' }.

Definition AgreeX (i : N) (s s' : xs) : Prop := Agree i (x_w s) (x_w s') /\ x_log s = x_log s'.

(* the same update of module i in both worlds *)
Lemma Agree_upd i w w' (g : mst -> mst) : Agree i w w' ->
  Agree i (set_mod w i (g (w_mod w i))) (set_mod w' i (g (w_mod w' i))).
Proof.
  intros [a b c]. constructor; cbn [w_buf set_mod]; [rewrite !mod_same, a; reflexivity| |exact c].
  intros j. cbn [w_mod set_mod]. destruct (j =? i); [rewrite a; reflexivity|apply b].
Qed.

Lemma Agree_buf_push i p w w' : Agree i w w' -> Agree i (buf_push p w) (buf_push p w').
Proof. intros [a b c]. constructor; cbn [buf_push set_buf w_mod w_buf]; [exact a|exact b|rewrite c; reflexivity]. Qed.

Lemma Agree_set_err i w w' e e' : Agree i w w' -> Agree i (set_err w e) (set_err w' e').
Proof. intros [a b c]. constructor; assumption. Qed.

Lemma walk_agree k i far w w' : Agree i w w' -> walk k w i far = walk k w' i far.
Proof. intros [a b c]. unfold walk. rewrite (b i), (b (next k i)). reflexivity. Qed.

Lemma spend_agree i w w' : Agree i w w' -> Agree i (spend i w) (spend i w').
Proof. intros H. unfold spend. apply (Agree_upd i w w' (fun x => set_bud x (bud x - 1)) H). Qed.

Lemma request_agree i r w w' : Agree i w w' -> Agree i (request i r w) (request i r w').
Proof. intros H. unfold request. apply (Agree_upd i w w' (fun x => set_shut x (Some r)) H). Qed.

Lemma buf_send_at_agree k now i far d x w w' : Agree i w w' ->
  Agree i (buf_send_at k now i far d x w) (buf_send_at k now i far d x w').
Proof.
  intros H. unfold buf_send_at. rewrite (walk_agree k i far w w' H). destruct (d =? 0); [|apply Agree_buf_push, H].
  destruct (walk k w' i far); [apply Agree_buf_push, H|exact H].
Qed.

Lemma AgreeX_say i it s s' : AgreeX i s s' -> AgreeX i (say it s) (say it s').
Proof. intros [a b]. split; [exact a|]. cbn [say x_log]. rewrite b. reflexivity. Qed.

Lemma AgreeX_on_w i f f' s s' : AgreeX i s s' -> Agree i (f (x_w s)) (f' (x_w s')) -> AgreeX i (on_w f s) (on_w f' s').
Proof. intros [a b] H. split; [exact H|exact b]. Qed.

Lemma do_act_agree k now i who a s s' : AgreeX i s s' -> AgreeX i (do_act k now i who a s) (do_act k now i who a s').
Proof.
  intros H. pose proof H as [Ha Hl].
  assert (Hb : broke i s = broke i s') by (unfold broke; rewrite (ag_mod _ _ _ Ha); reflexivity).
  destruct a; cbn [do_act]; try exact H; rewrite <- ?Hb; try (destruct (broke i s); [exact H|]).
  - apply AgreeX_say, H.
  - apply AgreeX_say, AgreeX_on_w; [exact H|]. apply buf_send_at_agree, spend_agree, Ha.
  - apply AgreeX_say, AgreeX_on_w; [exact H|]. apply Agree_buf_push, spend_agree, Ha.
  - apply AgreeX_say, AgreeX_on_w; [exact H|]. apply request_agree, spend_agree, Ha.
  - apply AgreeX_say, AgreeX_on_w; [exact H|]. apply request_agree, spend_agree, Ha.
  - apply AgreeX_say, AgreeX_on_w; [exact H|]. apply (Agree_upd i _ _ (fun x => set_catchf x b) Ha).
Qed.

Lemma quiet_agree i s s' : AgreeX i s s' -> AgreeX i (quiet i s) (quiet i s').
Proof.
  intros H. pose proof H as [Ha Hl]. unfold quiet. rewrite (ag_mod _ _ _ Ha).
  destruct (shut (w_mod (x_w s') i)); apply AgreeX_say; [exact H|].
  apply AgreeX_on_w; [exact H|apply request_agree, Ha].
Qed.

Lemma run_prog_agree tk k now i who : forall p s s', AgreeX i s s' ->
  AgreeX i (fst (run_prog tk k now i who p s)) (fst (run_prog tk k now i who p s')) /\
  snd (run_prog tk k now i who p s) = snd (run_prog tk k now i who p s').
Proof.
  induction p as [|a p IH]; intros s s' H; cbn [run_prog fst snd]; [auto|].
  destruct a; try (apply IH, do_act_agree, H).
  - destruct (tk && (0 <? d)); cbn [fst snd]; [auto|apply IH, H].
  - cbn [fst snd]. rewrite (ag_mod _ _ _ (proj1 H)). split; [apply AgreeX_say, H|reflexivity].
  - destruct tk; cbn [fst snd]; [apply IH, H|]. split; [apply quiet_agree, H|reflexivity].
Qed.

Lemma end_task_agree i how s s' tk : AgreeX i s s' -> AgreeX i (end_task i how s tk) (end_task i how s' tk).
Proof.
  intros H. unfold end_task. apply AgreeX_say, AgreeX_on_w; [exact H|]. destruct H as [[a b c] _]. constructor; assumption.
Qed.

Lemma fold_end_task_agree i : forall l s s', AgreeX i s s' -> AgreeX i (fold_left (end_task i 0) l s) (fold_left (end_task i 0) l s').
Proof. induction l as [|tk l IH]; intros s s' H; cbn [fold_left]; [exact H|]. apply IH, end_task_agree, H. Qed.

Lemma AgreeX_say_all i l s s' : AgreeX i s s' -> AgreeX i (say_all l s) (say_all l s').
Proof. intros [a b]. split; [exact a|]. cbn [say_all x_log]. rewrite b. reflexivity. Qed.

Lemma poll1_agree k now i s s' tk : AgreeX i s s' -> AgreeX i (poll1 k now i s tk) (poll1 k now i s' tk).
Proof.
  intros H. pose proof H as [Ha Hl]. unfold poll1. rewrite (ag_act _ _ _ Ha i).
  match goal with |- context [run_prog true k now i ?who ?p (say ?it s)] =>
    destruct (run_prog_agree true k now i who p (say it s) (say it s') (AgreeX_say i it s s' H)) as [H1 H2];
    destruct (run_prog true k now i who p (say it s)) as [s1 r]; destruct (run_prog true k now i who p (say it s')) as [s1' r'] end.
  cbn [fst snd] in H1, H2. subst r'. destruct H1 as [Ha1 Hl1]. destruct r; try (apply end_task_agree; split; assumption).
  - apply AgreeX_on_w; [split; assumption|].
    apply (Agree_upd i _ _ (fun x => set_timers x (tins (now + d) {| tk_id := tk_id tk; tk_inc := tk_inc tk; tk_new := false; tk_rest := rest |} (timers x))) Ha1).
Qed.

Lemma fold_poll1_agree k now i : forall l s s', AgreeX i s s' ->
  AgreeX i (fold_left (poll1 k now i) l s) (fold_left (poll1 k now i) l s').
Proof. induction l as [|tk l IH]; intros s s' H; cbn [fold_left]; [exact H|]. apply IH, poll1_agree, H. Qed.

Lemma poll_ready_agree k now i s s' : AgreeX i s s' -> AgreeX i (poll_ready k now i s) (poll_ready k now i s').
Proof.
  intros H. pose proof H as [Ha Hl]. unfold poll_ready. rewrite (ag_mod _ _ _ Ha). apply fold_poll1_agree.
  apply AgreeX_on_w; [exact H|]. apply (Agree_upd i _ _ (fun x => set_ready x []) Ha).
Qed.

Lemma spawn_all_agree i ps w w' : Agree i w w' -> Agree i (spawn_all i ps w) (spawn_all i ps w').
Proof.
  intros H. unfold spawn_all.
  apply (Agree_upd i w w' (fun x => set_hnd (set_ready x (ready x ++ map (fun ip => {| tk_id := N.of_nat (fst ip); tk_inc := inc x; tk_new := true; tk_rest := snd (snd ip) |})
                                                                (combine (seq 0 (length ps)) ps)))
                                             (hnd x ++ map (fun i0 => (inc x, N.of_nat i0)) (seq 0 (length ps)))) H).
Qed.

Lemma exec_agree k now i c sp p s s' : AgreeX i s s' ->
  AgreeX i (fst (exec k now i c sp p s)) (fst (exec k now i c sp p s')) /\
  snd (exec k now i c sp p s) = snd (exec k now i c sp p s').
Proof.
  intros H. pose proof H as [Ha Hl]. unfold exec. rewrite (ag_act _ _ _ Ha i), (ag_mod _ _ _ Ha).
  match goal with |- context [run_prog false k now i 0 p (say_all ?l (on_w ?f (say ?it s)))] =>
    assert (H0 : AgreeX i (say_all l (on_w f (say it s))) (say_all l (on_w f (say it s'))))
      by (apply AgreeX_say_all, AgreeX_on_w; [apply AgreeX_say, H|apply spawn_all_agree, Ha]);
    destruct (run_prog_agree false k now i 0 p _ _ H0) as [H1 H2];
    destruct (run_prog false k now i 0 p (say_all l (on_w f (say it s)))) as [s2 r];
    destruct (run_prog false k now i 0 p (say_all l (on_w f (say it s')))) as [s2' r'] end.
  cbn [fst snd] in H1, H2. subst r'. destruct r; cbn [fst snd]; split; try reflexivity; try exact H1; try (apply poll_ready_agree, H1).
  rewrite (ag_mod _ _ _ (proj1 H1)). apply fold_end_task_agree.
  apply AgreeX_on_w; [exact H1|]. apply (Agree_upd i _ _ (fun x => set_ready x []) (proj1 H1)).
Qed.

Lemma catch_agree c i p w w' : Agree i w w' ->
  Agree i (fst (catch c i p w)) (fst (catch c i p w')) /\ snd (catch c i p w) = snd (catch c i p w').
Proof.
  intros H. unfold catch. destruct p; cbn [fst snd]; [|auto].
  pose proof (Agree_upd i w w' (fun x => set_active x false) H) as H1.
  cbv beta in H1. rewrite (ag_mod _ _ _ H) in H1 |- *. destruct (catchf (w_mod w' i)); cbn [fst snd]; split; try reflexivity; try exact H1. apply Agree_set_err, H1.
Qed.

Lemma at_sim_start_agree k c now i stage s s' : AgreeX i s s' ->
  AgreeX i (fst (at_sim_start k c now i stage s)) (fst (at_sim_start k c now i stage s')) /\
  snd (at_sim_start k c now i stage s) = snd (at_sim_start k c now i stage s').
Proof.
  intros H. pose proof H as [Ha Hl]. unfold at_sim_start. rewrite (ag_mod _ _ _ Ha).
  set (e := if stage =? 0 then exec k now i (CbStart stage) (c_spawn c) (pick_start c (inc (w_mod (x_w s') i))) s
            else exec k now i (CbStart stage) [] [] s).
  set (e' := if stage =? 0 then exec k now i (CbStart stage) (c_spawn c) (pick_start c (inc (w_mod (x_w s') i))) s'
             else exec k now i (CbStart stage) [] [] s').
  assert (He : AgreeX i (fst e) (fst e') /\ snd e = snd e') by (unfold e, e'; destruct (stage =? 0); apply exec_agree, H).
  destruct e as [s1 p], e' as [s1' p']. cbn [fst snd] in He. destruct He as [[Ha1 Hl1] ->].
  destruct (catch_agree c i p' (x_w s1) (x_w s1') Ha1) as [Hc1 Hc2].
  destruct (catch c i p' (x_w s1)) as [w2 e2], (catch c i p' (x_w s1')) as [w2' e2']. cbn [fst snd] in *. subst e2'.
  split; [split; assumption|reflexivity].
Qed.

Lemma restart_fold_agree k c now i : forall l s s' e, AgreeX i s s' ->
  AgreeX i (fst (fold_left (fun (acc : xs * bool) stage => if snd acc then acc else restart_stage k c now i stage (fst acc)) l (s, e)))
           (fst (fold_left (fun (acc : xs * bool) stage => if snd acc then acc else restart_stage k c now i stage (fst acc)) l (s', e))).
Proof.
  induction l as [|st l IH]; intros s s' e H; cbn [fold_left fst snd]; [exact H|].
  destruct e; [apply IH, H|].
  destruct (at_sim_start_agree k c now i st s s' H) as [H1 H2]. unfold restart_stage.
  destruct (at_sim_start k c now i st s) as [s1 e1], (at_sim_start k c now i st s') as [s1' e1']. cbn [fst snd] in *. subst e1'.
  rewrite (ag_act _ _ _ (proj1 H1) i). apply IH, H1.
Qed.

Lemma module_restart_agree k c now i s s' : AgreeX i s s' ->
  AgreeX i (module_restart k c now i s) (module_restart k c now i s').
Proof.
  intros H. unfold module_restart. apply restart_fold_agree. apply AgreeX_on_w; [exact H|].
  apply (Agree_upd i _ _ (fun x => set_active x true) (proj1 H)).
Qed.

Lemma handle_message_agree k c now i x s s' : AgreeX i s s' ->
  AgreeX i (handle_message k c now i x s) (handle_message k c now i x s').
Proof.
  intros H. pose proof H as [Ha Hl]. unfold handle_message. rewrite (ag_act _ _ _ Ha i).
  destruct (active (w_mod (x_w s') i)); [|exact H].
  destruct (exec_agree k now i (CbMsg x) [] (pick_msg c x) s s' H) as [[Ha1 Hl1] H2].
  destruct (exec k now i (CbMsg x) [] (pick_msg c x) s) as [s1 p], (exec k now i (CbMsg x) [] (pick_msg c x) s') as [s1' p'].
  cbn [fst snd] in *. subst p'. split; [apply catch_agree, Ha1|exact Hl1].
Qed.

Lemma async_wakeup_agree k now i s s' : AgreeX i s s' -> AgreeX i (async_wakeup k now i s) (async_wakeup k now i s').
Proof.
  intros H. pose proof H as [Ha Hl]. unfold async_wakeup. rewrite (ag_act _ _ _ Ha i).
  destruct (active (w_mod (x_w s') i)); [apply poll_ready_agree, H|exact H].
Qed.

Lemma activate_agree now i w w' : Agree i w w' -> Agree i (activate now i w) (activate now i w').
Proof.
  intros H. pose proof H as [a b c]. unfold activate. rewrite a.
  destruct (split_due now (timers (w_mod w' i))) as [d q].
  assert (G : Agree i (set_mod w i (set_nw (set_ready (set_timers (w_mod w' i) q) (ready (w_mod w' i) ++ d)) (nw_bump now (nw (w_mod w' i)))))
                      (set_mod w' i (set_nw (set_ready (set_timers (w_mod w' i) q) (ready (w_mod w' i) ++ d)) (nw_bump now (nw (w_mod w' i)))))).
  { pose proof (Agree_upd i w w' (fun x => set_nw (set_ready (set_timers x q) (ready x ++ d)) (nw_bump now (nw x))) H) as G.
    cbv beta in G. rewrite a in G. exact G. }
  destruct G as [g1 g2 g3]. constructor; assumption.
Qed.

(* the events deactivate and buf_process add to the event set, in order *)
Definition wake_of (i : N) (x : mst) : list (N * fev) :=
  match timers x with
  | (t, _) :: _ => if lt_nw t (nw x) then [(t, EvWake i)] else []
  | [] => []
  end.
Definition restart_of (i : N) (x : mst) : list (N * fev) :=
  match shut x with Some (Some t) => [(t, EvRestart i)] | _ => [] end.

Lemma fes_flush_app a b f : fes_flush (a ++ b) f = fes_flush b (fes_flush a f).
Proof. unfold fes_flush. apply fold_left_app. Qed.

Lemma deactivate_fes i w : w_fes (deactivate i w) = fes_flush (wake_of i (w_mod w i)) (w_fes w).
Proof.
  unfold deactivate, wake_of. destruct (timers (w_mod w i)) as [|[t tk] r]; [reflexivity|].
  destruct (lt_nw t (nw (w_mod w i))); reflexivity.
Qed.

Lemma deactivate_agree i w w' : Agree i w w' -> Agree i (deactivate i w) (deactivate i w').
Proof.
  intros H. pose proof H as [a b c]. unfold deactivate. rewrite a.
  destruct (timers (w_mod w' i)) as [|[t tk] r]; [constructor; assumption|].
  destruct (lt_nw t (nw (w_mod w' i))); [|constructor; assumption].
  pose proof (Agree_upd i w w' (fun x => set_nw x (Some t)) H) as [g1 g2 g3]. rewrite a in g1, g2.
  constructor; cbn [w_mod w_buf set_cur set_fes]; [rewrite g1; reflexivity| |exact c].
  intros j. specialize (g2 j). cbn [w_mod set_mod] in *. exact g2.
Qed.


(* what the events an event of module i adds to the event set can be *)
Definition add_ok (i : N) (p : N * fev) : Prop := msg_ev p \/ snd p = EvWake i \/ snd p = EvRestart i.

(* one module event on two agreeing worlds (possibly of two scripts, possibly with two callbacks
   whose results agree) *)
Lemma around_agree2 sc sc' now i f f' w w' : Agree i w w' -> CbOK i f -> CbOK i f' -> w_buf w = [] ->
  Agree i (x_w (f {| x_w := activate now i w; x_log := [] |})) (x_w (f' {| x_w := activate now i w'; x_log := [] |})) ->
  Agree i (fst (around sc now i f w)) (fst (around sc' now i f' w')) /\
  (exists adds, w_fes (fst (around sc now i f w)) = fes_flush adds (w_fes w) /\
                w_fes (fst (around sc' now i f' w')) = fes_flush adds (w_fes w') /\ Forall (add_ok i) adds) /\
  (cfg sc i = cfg sc' i ->
   x_log (f {| x_w := activate now i w; x_log := [] |}) = x_log (f' {| x_w := activate now i w'; x_log := [] |}) ->
   snd (around sc now i f w) = snd (around sc' now i f' w')).
Proof.
  intros H Hok Hok' Hb Ha. unfold around.
  destruct (Hok {| x_w := activate now i w; x_log := [] |}) as [[_ Ff _ _ _ (lb & Hlb & Mlb)] _].
  destruct (Hok' {| x_w := activate now i w'; x_log := [] |}) as [[_ Ff' _ _ _ _] _].
  cbn [x_w] in Ff, Ff', Hlb. rewrite activate_fes in Ff, Ff'. rewrite activate_buf, Hb in Hlb. cbn [app] in Hlb.
  set (s := f {| x_w := activate now i w; x_log := [] |}) in *.
  set (s' := f' {| x_w := activate now i w'; x_log := [] |}) in *.
  pose proof (deactivate_agree i _ _ Ha) as [d1 d2 d3].
  assert (Ew : wake_of i (w_mod (x_w s) i) = wake_of i (w_mod (x_w s') i)) by (rewrite (ag_mod _ _ _ Ha); reflexivity).
  assert (Hwk : Forall (add_ok i) (wake_of i (w_mod (x_w s) i))).
  { unfold wake_of. destruct (timers (w_mod (x_w s) i)) as [|[t tk] r]; [constructor|].
    destruct (lt_nw t (nw (w_mod (x_w s) i))); [|constructor]. constructor; [right; left; reflexivity|constructor]. }
  assert (Hbf : Forall (add_ok i) (w_buf (x_w s))) by (rewrite Hlb; eapply Forall_impl; [|exact Mlb]; intros p Hp; left; exact Hp).
  unfold buf_process, shutdown_part. cbn [w_mod set_buf set_fes]. rewrite <- d1.
  destruct (shut (w_mod (deactivate i (x_w s)) i)) as [r|] eqn:Es; cbn [fst snd].
  - rewrite !ifse_fes. split; [|split].
    + assert (Gi : forall (b b' : bool) wa wb ea eb, Agree i wa wb -> Agree i (if b then set_err wa ea else wa) (if b' then set_err wb eb else wb))
        by (intros [] [] wa wb ea eb [g1 g2 g3]; constructor; assumption).
      apply Gi.
      destruct r; constructor; cbn [w_mod w_buf w_fes set_fes set_fin set_mod set_buf]; try reflexivity;
        try (rewrite !N.eqb_refl; reflexivity); intros j; destruct (j =? i); try reflexivity; apply d2.
    + exists (wake_of i (w_mod (x_w s) i) ++ w_buf (x_w s) ++ restart_of i (w_mod (deactivate i (x_w s)) i)).
      unfold restart_of. rewrite Es. rewrite !fes_flush_app.
      rewrite !deactivate_fes, !deactivate_buf. rewrite <- (ag_buf _ _ _ Ha), <- Ew, Ff, Ff'.
      split; [destruct r; reflexivity|]. split; [destruct r; reflexivity|].
      apply Forall_app. split; [exact Hwk|]. apply Forall_app. split; [exact Hbf|].
      destruct r; [constructor; [right; right; reflexivity|constructor]|constructor].
    + intros Ec El. rewrite El, <- Ec. reflexivity.
  - split; [|split].
    + constructor; cbn [w_mod w_buf set_buf set_fes]; [exact d1|exact d2|reflexivity].
    + exists (wake_of i (w_mod (x_w s) i) ++ w_buf (x_w s)).
      rewrite !fes_flush_app. cbn [w_fes set_buf set_fes]. rewrite !deactivate_fes, !deactivate_buf, <- (ag_buf _ _ _ Ha), <- Ew, Ff, Ff'.
      split; [reflexivity|]. split; [reflexivity|]. apply Forall_app. auto.
    + intros _ El. rewrite El. reflexivity.
Qed.
