(* C13 others_as_if_silent, part 1: the relation between the run of a script and the run of its variant in which module m
   falls silent where its callbacks would have panicked.  Two phases: as long as m has not panicked the two worlds are
   equal ([Same]); after a panic that leaves m dead for good they agree on every other module and on the event set up to
   events that are inert for a dead m ([Dead], Life/Strip.v).  Events of other modules, and the event of m itself in
   which the two runs part. *)
From Coq Require Import List NArith Bool Lia PeanoNat.
From DesVerif Require Import Common.Fuel Life.Model Life.Base Life.Step Life.Trace Life.Frame Life.Inert Life.Inv Life.Events
  Life.Restart Life.Agree Life.Strip Life.Quiet Life.SilentBase Life.Future.
Import ListNotations.
Open Scope N_scope.

Section SilentRel.
Variables (sc : script) (m : N).
Let sc' := quieten m sc.



Lemma cfg_other i : i <> m -> cfg sc' i = cfg sc i.
Proof. intros H. unfold sc'. rewrite cfg_quieten. apply N.eqb_neq in H. rewrite H. reflexivity. Qed.

Lemma cfg_self : cfg sc' m = quiet_cfg (cfg sc m).
Proof. unfold sc'. rewrite cfg_quieten, N.eqb_refl. reflexivity. Qed.

Lemma nmods' : nmods sc' = nmods sc.
Proof. apply nmods_quieten. Qed.

(* records of modules other than m *)
Definition others (l : list item) : list item :=
  filter (fun i => match item_mod i with Some j => negb (j =? m) | None => false end) l.

Lemma others_app a b : others (a ++ b) = others a ++ others b.
Proof. apply filter_app. Qed.

Lemma others_own l : Own m l -> others l = [].
Proof.
  unfold Own, others. induction 1 as [|i l Hi _ IH]; [reflexivity|]. cbn [filter]. rewrite Hi, N.eqb_refl. exact IH.
Qed.

Lemma others_sample t k : others [ISample t k] = [].
Proof. reflexivity. Qed.

(* ---- the two phases ---- *)
Record Same (w w' : world) : Prop := {
  sm_mod : forall i, w_mod w i = w_mod w' i;
  sm_fes : w_fes w = w_fes w';
  sm_buf : w_buf w = [] /\ w_buf w' = [] }.

Record Dead (w w' : world) : Prop := {
  dd_oth : forall i, i <> m -> w_mod w i = w_mod w' i;
  dd_act : active (w_mod w m) = false /\ active (w_mod w' m) = false;
  dd_shut : shut (w_mod w m) = None /\ shut (w_mod w' m) = None;
  dd_buf : w_buf w = [] /\ w_buf w' = [];
  dd_fes : FesRel m (w_fes w) (w_fes w');
  dd_nr : restart_times m (w_fes w) = [] /\ restart_times m (w_fes w') = [];
  (* the silent run's horizon (Life/Future.v) is not later, and its m has no timer left *)
  dd_L : L (w_fes w') <= L (w_fes w);
  dd_tm : timers (w_mod w' m) = [] }.

Definition Rel (w w' : world) : Prop := (Same w w' \/ Dead w w') /\ WF (w_fes w) /\ WF (w_fes w').

Lemma Same_agree i w w' : Same w w' -> Agree i w w'.
Proof. intros [a b [c d]]. constructor; [apply a|intros j; rewrite a; reflexivity|rewrite c, d; reflexivity]. Qed.

Lemma Dead_agree i w w' : i <> m -> Dead w w' -> Agree i w w'.
Proof.
  intros Hi [a [b1 b2] _ [c d] _ _]. constructor; [apply a, Hi| |rewrite c, d; reflexivity].
  intros j. destruct (N.eq_dec j m) as [->|Hj]; [rewrite b1, b2; reflexivity|rewrite (a j Hj); reflexivity].
Qed.

(* ---- an event of a module other than m, on worlds that agree on it ---- *)
Lemma other_event now i f w w' : i <> m -> Agree i w w' -> w_buf w = [] -> w_buf w' = [] -> CbOK i f ->
  (forall s s', AgreeX i s s' -> AgreeX i (f s) (f s')) ->
  snd (around sc now i f w) = snd (around sc' now i f w') /\
  w_mod (fst (around sc now i f w)) i = w_mod (fst (around sc' now i f w')) i /\
  (forall j, j <> i -> w_mod (fst (around sc now i f w)) j = w_mod w j /\ w_mod (fst (around sc' now i f w')) j = w_mod w' j) /\
  (w_buf (fst (around sc now i f w)) = [] /\ w_buf (fst (around sc' now i f w')) = []) /\
  exists adds, w_fes (fst (around sc now i f w)) = fes_flush adds (w_fes w) /\
               w_fes (fst (around sc' now i f w')) = fes_flush adds (w_fes w') /\ Forall (add_ok i) adds.
Proof.
  intros Hi Hag Hb Hb' Hok Hf.
  assert (H0 : AgreeX i {| x_w := activate now i w; x_log := [] |} {| x_w := activate now i w'; x_log := [] |})
    by (split; [apply activate_agree, Hag|reflexivity]).
  destruct (Hf _ _ H0) as [Ha Hl].
  destruct (around_agree2 sc sc' now i f f w w' Hag Hok Hok Hb Ha) as (A1 & A2 & A3).
  split; [apply A3; [symmetry; apply cfg_other, Hi|exact Hl]|].
  split; [apply (ag_mod _ _ _ A1)|]. split; [|split; [split; apply around_glob|exact A2]].
  intros j Hj. split; apply around_oth; assumption.
Qed.

Lemma same_other_event now i f w w' : i <> m -> Same w w' -> CbOK i f ->
  (forall s s', AgreeX i s s' -> AgreeX i (f s) (f s')) ->
  snd (around sc now i f w) = snd (around sc' now i f w') /\ Same (fst (around sc now i f w)) (fst (around sc' now i f w')) /\
  (WF (w_fes w) -> WF (w_fes w') -> WF (w_fes (fst (around sc now i f w))) /\ WF (w_fes (fst (around sc' now i f w')))) /\
  f_tcur (w_fes (fst (around sc now i f w))) = f_tcur (w_fes w) /\ f_tcur (w_fes (fst (around sc' now i f w'))) = f_tcur (w_fes w').
Proof.
  intros Hi HS Hok Hf. pose proof HS as [a b [c d]].
  destruct (other_event now i f w w' Hi (Same_agree i w w' HS) c d Hok Hf) as (E1 & E2 & E3 & E4 & adds & E5 & E6 & _).
  split; [exact E1|]. split.
  - constructor; [|rewrite E5, E6, b; reflexivity|exact E4].
    intros j. destruct (N.eq_dec j i) as [->|Hj]; [exact E2|]. destruct (E3 j Hj) as [-> ->]. apply a.
  - split; [intros W W'; rewrite E5, E6; split; apply WF_flush; assumption|].
    rewrite E5, E6, !fes_flush_tcur. auto.
Qed.

Lemma dead_other_event now i f w w' : i <> m -> Dead w w' -> CbOK i f ->
  (forall s s', AgreeX i s s' -> AgreeX i (f s) (f s')) ->
  WF (w_fes w) -> WF (w_fes w') -> f_tcur (w_fes w) = f_tcur (w_fes w') ->
  snd (around sc now i f w) = snd (around sc' now i f w') /\ Dead (fst (around sc now i f w)) (fst (around sc' now i f w')) /\
  WF (w_fes (fst (around sc now i f w))) /\ WF (w_fes (fst (around sc' now i f w'))) /\
  f_tcur (w_fes (fst (around sc now i f w))) = f_tcur (w_fes w) /\ f_tcur (w_fes (fst (around sc' now i f w'))) = f_tcur (w_fes w').
Proof.
  intros Hi HD Hok Hf W W' Et. pose proof HD as [a [b1 b2] [s1 s2] [c d] fr [n1 n2] hl htm].
  destruct (other_event now i f w w' Hi (Dead_agree i w w' Hi HD) c d Hok Hf) as (E1 & E2 & E3 & E4 & adds & E5 & E6 & E7).
  assert (Hm : m <> i) by (intros E; apply Hi; symmetry; exact E).
  destruct (E3 m Hm) as [M1 M2].
  split; [exact E1|]. split; [|rewrite E5, E6, !fes_flush_tcur; repeat split; try reflexivity; apply WF_flush; assumption].
  constructor.
  - intros j Hj. destruct (N.eq_dec j i) as [->|Hji]; [exact E2|]. destruct (E3 j Hji) as [-> ->]. apply a, Hj.
  - rewrite M1, M2. auto.
  - rewrite M1, M2. auto.
  - exact E4.
  - rewrite E5, E6. apply FesRel_flush; assumption.
  - rewrite E5, E6, !(flush_rt_addok m i Hi) by assumption. auto.
  - rewrite E5, E6. apply L_flush_mono, hl.
  - rewrite M2. exact htm.
Qed.

(* ---- an event of m itself while the two worlds are still equal ---- *)
Definition Post (s s' : xs) : Prop :=
  Agree m (x_w s) (x_w s') \/ (Div m (x_w s) (x_w s') /\ active (w_mod (x_w s) m) = false).

Lemma Div_catch c w w' : Div m w w' ->
  Div m (fst (catch c m true w)) w' /\ active (w_mod (fst (catch c m true w)) m) = false.
Proof.
  intros [a b c0 d e f g gc h i]. unfold catch.
  assert (G : Div m (set_mod w m (set_active (w_mod w m) false)) w').
  { constructor; cbn [w_buf w_mod set_mod]; rewrite ?N.eqb_refl; cbn [timers nw inc bud hnd catchf shut set_active]; try assumption.
    intros j Hj. apply N.eqb_neq in Hj. rewrite Hj. apply b. apply N.eqb_neq, Hj. }
  destruct (catchf (w_mod w m)); cbn [fst]; (split; [|cbn [w_mod set_err set_mod]; rewrite N.eqb_refl; reflexivity]); [exact G|].
  destruct G as [a' b' c' d' e' f' g' gc' h' i']. constructor; assumption.
Qed.

Lemma at_sim_start0_post now s s' : AgreeX m s s' ->
  Post (fst (at_sim_start (nmods sc) (cfg sc m) now m 0 s)) (fst (at_sim_start (nmods sc') (cfg sc' m) now m 0 s')).
Proof.
  intros H. pose proof H as [Ha Hl]. unfold at_sim_start. rewrite N.eqb_refl, nmods', cfg_self, pick_start_quiet.
  change (c_spawn (quiet_cfg (cfg sc m))) with (c_spawn (cfg sc m)). rewrite <- (ag_mod _ _ _ Ha).
  destruct (exec_quiet (nmods sc) now m (CbStart 0) (c_spawn (cfg sc m)) (pick_start (cfg sc m) (inc (w_mod (x_w s) m))) s s' H)
    as [(E1 & E2 & E3)|(E1 & E2 & E3)];
    destruct (exec (nmods sc) now m (CbStart 0) (c_spawn (cfg sc m)) (pick_start (cfg sc m) (inc (w_mod (x_w s) m))) s) as [s1 p1];
    destruct (exec (nmods sc) now m (CbStart 0) (c_spawn (cfg sc m)) (map quiet_act (pick_start (cfg sc m) (inc (w_mod (x_w s) m)))) s') as [s1' p1'];
    cbn [fst snd] in *; subst p1 p1'.
  - left. cbn [catch fst x_w]. exact (proj1 E3).
  - right. destruct (Div_catch (cfg sc m) _ _ E3) as [D1 D2].
    destruct (catch (cfg sc m) m true (x_w s1)) as [w2 e2]. cbn [catch fst x_w] in *. auto.
Qed.

Lemma handle_message_post now x s s' : AgreeX m s s' ->
  Post (handle_message (nmods sc) (cfg sc m) now m x s) (handle_message (nmods sc') (cfg sc' m) now m x s').
Proof.
  intros H. pose proof H as [Ha Hl]. unfold handle_message. rewrite nmods', cfg_self, pick_msg_quiet, <- (ag_act _ _ _ Ha m).
  destruct (active (w_mod (x_w s) m)); [|left; exact Ha].
  destruct (exec_quiet (nmods sc) now m (CbMsg x) [] (pick_msg (cfg sc m) x) s s' H) as [(E1 & E2 & E3)|(E1 & E2 & E3)];
    destruct (exec (nmods sc) now m (CbMsg x) [] (pick_msg (cfg sc m) x) s) as [s1 p1];
    destruct (exec (nmods sc) now m (CbMsg x) [] (map quiet_act (pick_msg (cfg sc m) x)) s') as [s1' p1'];
    cbn [fst snd] in *; subst p1 p1'.
  - left. cbn [catch fst x_w]. exact (proj1 E3).
  - right. destruct (Div_catch (cfg sc m) _ _ E3) as [D1 D2]. cbn [x_w]. change (catch (quiet_cfg (cfg sc m)) m false (x_w s1')) with (x_w s1', false).
    cbn [fst]. auto.
Qed.

(* start-up stages other than 0 run no program: the two scripts do the same *)
Lemma at_sim_start_later now stage s : stage <> 0 ->
  at_sim_start (nmods sc') (cfg sc' m) now m stage s = at_sim_start (nmods sc) (cfg sc m) now m stage s.
Proof.
  intros H. apply N.eqb_neq in H. unfold at_sim_start. rewrite H, nmods', cfg_self. reflexivity.
Qed.

Lemma at_sim_start0_flags now s s' : AgreeX m s s' ->
  (AgreeX m (fst (at_sim_start (nmods sc) (cfg sc m) now m 0 s)) (fst (at_sim_start (nmods sc') (cfg sc' m) now m 0 s')) /\
   snd (at_sim_start (nmods sc) (cfg sc m) now m 0 s) = false /\ snd (at_sim_start (nmods sc') (cfg sc' m) now m 0 s') = false) \/
  (Div m (x_w (fst (at_sim_start (nmods sc) (cfg sc m) now m 0 s))) (x_w (fst (at_sim_start (nmods sc') (cfg sc' m) now m 0 s'))) /\
   active (w_mod (x_w (fst (at_sim_start (nmods sc) (cfg sc m) now m 0 s))) m) = false /\
   snd (at_sim_start (nmods sc') (cfg sc' m) now m 0 s') = false).
Proof.
  intros H. pose proof H as [Ha Hl]. unfold at_sim_start. rewrite N.eqb_refl, nmods', cfg_self, pick_start_quiet.
  change (c_spawn (quiet_cfg (cfg sc m))) with (c_spawn (cfg sc m)). rewrite <- (ag_mod _ _ _ Ha).
  destruct (exec_quiet (nmods sc) now m (CbStart 0) (c_spawn (cfg sc m)) (pick_start (cfg sc m) (inc (w_mod (x_w s) m))) s s' H)
    as [(E1 & E2 & E3)|(E1 & E2 & E3)];
    destruct (exec (nmods sc) now m (CbStart 0) (c_spawn (cfg sc m)) (pick_start (cfg sc m) (inc (w_mod (x_w s) m))) s) as [s1 p1];
    destruct (exec (nmods sc) now m (CbStart 0) (c_spawn (cfg sc m)) (map quiet_act (pick_start (cfg sc m) (inc (w_mod (x_w s) m)))) s') as [s1' p1'];
    cbn [fst snd] in *; subst p1 p1'.
  - left. cbn [catch fst snd x_w]. split; [split; [exact (proj1 E3)|exact (proj2 E3)]|auto].
  - right. destruct (Div_catch (cfg sc m) _ _ E3) as [D1 D2]. cbn [catch] in *.
    destruct (catchf (w_mod (x_w s1) m)); cbn [fst snd x_w negb] in *; auto.
Qed.

Lemma restart_tail_agree now : forall tl s s' e, Forall (fun st => st <> 0) tl -> AgreeX m s s' ->
  AgreeX m (fst (fold_left (fun (acc : xs * bool) stage => if snd acc then acc else restart_stage (nmods sc) (cfg sc m) now m stage (fst acc)) tl (s, e)))
           (fst (fold_left (fun (acc : xs * bool) stage => if snd acc then acc else restart_stage (nmods sc') (cfg sc' m) now m stage (fst acc)) tl (s', e))).
Proof.
  induction tl as [|st tl IH]; intros s s' e Hne H; cbn [fold_left fst snd]; [exact H|].
  inversion Hne as [|x l Hx Hl]; subst. destruct e; [apply IH; assumption|]. unfold restart_stage at 2 4.
  rewrite at_sim_start_later by assumption.
  destruct (at_sim_start_agree (nmods sc) (cfg sc m) now m st s s' H) as [H1 H2].
  destruct (at_sim_start (nmods sc) (cfg sc m) now m st s) as [s1 e1], (at_sim_start (nmods sc) (cfg sc m) now m st s') as [s1' e1'].
  cbn [fst snd] in *. subst e1'. rewrite (ag_act _ _ _ (proj1 H1) m). apply IH; assumption.
Qed.

Lemma restart_tail_div now w : forall tl s' e, Forall (fun st => st <> 0) tl -> Div m w (x_w s') ->
  Div m w (x_w (fst (fold_left (fun (acc : xs * bool) stage => if snd acc then acc else restart_stage (nmods sc') (cfg sc' m) now m stage (fst acc)) tl (s', e)))).
Proof.
  induction tl as [|st tl IH]; intros s' e Hne H; cbn [fold_left fst snd]; [exact H|].
  inversion Hne as [|x l Hx Hl]; subst. destruct e; [apply IH; assumption|]. unfold restart_stage at 2.
  rewrite at_sim_start_later by assumption.
  destruct (at_sim_start_div m (nmods sc) (cfg sc m) now st w s' Hx H) as [D1 D2].
  destruct (at_sim_start (nmods sc) (cfg sc m) now m st s') as [s1 e1]. cbn [fst snd] in *. apply IH; assumption.
Qed.

Lemma module_restart_post now s s' : AgreeX m s s' ->
  Post (module_restart (nmods sc) (cfg sc m) now m s) (module_restart (nmods sc') (cfg sc' m) now m s').
Proof.
  intros H. unfold module_restart.
  assert (Hs' : c_stages (cfg sc' m) = c_stages (cfg sc m)) by (rewrite cfg_self; reflexivity). rewrite Hs'.
  assert (H0 : AgreeX m (on_w (fun w => set_mod w m (set_active (w_mod w m) true)) s) (on_w (fun w => set_mod w m (set_active (w_mod w m) true)) s'))
    by (apply AgreeX_on_w; [exact H|]; apply (Agree_upd m _ _ (fun x => set_active x true) (proj1 H))).
  destruct (N.eq_dec (c_stages (cfg sc m)) 0) as [E0|E0]; [rewrite E0; left; exact (proj1 H0)|].
  destruct (stage_list_shape (c_stages (cfg sc m))) as (tl & Esl & Htl); [lia|]. rewrite Esl. cbn [fold_left fst snd].
  unfold restart_stage at 2 4.
  destruct (at_sim_start0_flags now _ _ H0) as [(A1 & A2 & A3)|(D1 & D2 & D4)].
  - destruct (at_sim_start (nmods sc) (cfg sc m) now m 0 _) as [s1 e1], (at_sim_start (nmods sc') (cfg sc' m) now m 0 _) as [s1' e1'].
    cbn [fst snd] in *. subst e1 e1'. left. rewrite (ag_act _ _ _ (proj1 A1) m).
    apply (proj1 (restart_tail_agree now tl s1 s1' _ Htl A1)).
  - (* the panicking run leaves the stage loop: the module is inactive *)
    destruct (at_sim_start (nmods sc) (cfg sc m) now m 0 _) as [s1 e1], (at_sim_start (nmods sc') (cfg sc' m) now m 0 _) as [s1' e1'].
    cbn [fst snd] in *. rewrite D2. cbn [negb]. rewrite orb_true_r, fold_stopped by (intros; reflexivity). cbn [fst]. right.
    split; [|exact D2]. apply restart_tail_div; assumption.
Qed.

(* the world after the event, from the post-callback relation *)
Lemma m_event now f f' w w' : Same w w' -> WF (w_fes w) ->
  (Div m (x_w (f {| x_w := activate now m w; x_log := [] |})) (x_w (f' {| x_w := activate now m w'; x_log := [] |})) ->
   restart_times m (w_fes w) = []) -> CbOK m f -> CbOK m f' ->
  Post (f {| x_w := activate now m w; x_log := [] |}) (f' {| x_w := activate now m w'; x_log := [] |}) ->
  (Same (fst (around sc now m f w)) (fst (around sc' now m f' w')) \/ Dead (fst (around sc now m f w)) (fst (around sc' now m f' w'))) /\
  WF (w_fes (fst (around sc now m f w))) /\ WF (w_fes (fst (around sc' now m f' w'))) /\
  f_tcur (w_fes (fst (around sc now m f w))) = f_tcur (w_fes w) /\ f_tcur (w_fes (fst (around sc' now m f' w'))) = f_tcur (w_fes w).
Proof.
  intros HS W Hn0 Hok Hok' HP. pose proof HS as [a b [c d]].
  destruct (Hok {| x_w := activate now m w; x_log := [] |}) as [[Fo1 Ff _ _ _ (lb & Hlb & Mlb)] _].
  destruct (Hok' {| x_w := activate now m w'; x_log := [] |}) as [[Fo1' Ff' _ _ _ _] _].
  cbn [x_w] in Fo1, Fo1', Ff, Ff', Hlb. rewrite activate_fes in Ff, Ff'. rewrite activate_buf, c in Hlb. cbn [app] in Hlb.
  assert (Hoth : forall j, j <> m -> w_mod (fst (around sc now m f w)) j = w_mod (fst (around sc' now m f' w')) j).
  { intros j Hj. rewrite !around_oth by assumption. apply a. }
  destruct HP as [HA|[HD Hact]].
  - destruct (around_agree2 sc sc' now m f f' w w' (Same_agree m w w' HS) Hok Hok' c HA) as (A1 & (adds & A2 & A3 & _) & _).
    split; [left|rewrite A2, A3, <- b, !fes_flush_tcur; repeat split; try reflexivity; apply WF_flush, W].
    constructor; [|rewrite A2, A3, b; reflexivity|split; apply around_glob].
    intros j. destruct (N.eq_dec j m) as [->|Hj]; [apply (ag_mod _ _ _ A1)|apply Hoth, Hj].
  - pose proof (Hn0 HD) as Hn.
    set (s := f {| x_w := activate now m w; x_log := [] |}) in *.
    set (s' := f' {| x_w := activate now m w'; x_log := [] |}) in *.
    destruct HD as [vb va vt vn vi vbu vtp vc vr vs].
    assert (Ewk : wake_of m (w_mod (x_w s) m) = wake_of m (w_mod (x_w s') m)) by (unfold wake_of; rewrite vt, vn; reflexivity).
    assert (Enw : nw_after (w_mod (x_w s) m) = nw_after (w_mod (x_w s') m)) by (unfold nw_after; rewrite vt, vn; reflexivity).
    set (base := fes_flush (w_buf (x_w s)) (fes_flush (wake_of m (w_mod (x_w s) m)) (w_fes w))).
    assert (Hb1 : fes_flush (w_buf (deactivate m (x_w s))) (w_fes (deactivate m (x_w s))) = base)
      by (rewrite deactivate_buf, deactivate_fes, Ff; reflexivity).
    assert (Hb2 : fes_flush (w_buf (deactivate m (x_w s'))) (w_fes (deactivate m (x_w s'))) = base)
      by (rewrite deactivate_buf, deactivate_fes, Ff', <- vb, <- Ewk, <- b; reflexivity).
    assert (Wb : WF base) by (unfold base; apply WF_flush, WF_flush, W).
    assert (Nb : restart_times m base = []).
    { unfold base. rewrite fes_flush_rt; [|rewrite Hlb; exact Mlb].
      unfold wake_of. destruct (timers (w_mod (x_w s) m)) as [|[tt tk] r]; [exact Hn|].
      destruct (lt_nw tt (nw (w_mod (x_w s) m))); [|exact Hn]. cbn [fes_flush fold_left fst snd]. rewrite fes_add_rt_other; [exact Hn|reflexivity]. }
    assert (Hsh : shut (w_mod (deactivate m (x_w s)) m) = shut (w_mod (x_w s) m)) by (rewrite deactivate_mod_eq; reflexivity).
    assert (Hsh' : shut (w_mod (deactivate m (x_w s')) m) = shut (w_mod (x_w s') m)) by (rewrite deactivate_mod_eq; reflexivity).
    assert (Hm1 : w_mod (fst (around sc now m f w)) m =
                  match shut (w_mod (x_w s) m) with Some _ => consumed now (set_nw (w_mod (x_w s) m) (nw_after (w_mod (x_w s) m)))
                                               | None => set_nw (w_mod (x_w s) m) (nw_after (w_mod (x_w s) m)) end)
      by (rewrite around_fst; fold s; rewrite buf_process_mod, Hsh, deactivate_mod_eq; reflexivity).
    assert (Hm2 : w_mod (fst (around sc' now m f' w')) m = consumed now (set_nw (w_mod (x_w s') m) (nw_after (w_mod (x_w s') m))))
      by (rewrite around_fst; fold s'; rewrite buf_process_mod, Hsh', deactivate_mod_eq, vs; reflexivity).
    assert (Hf1 : w_fes (fst (around sc now m f w)) = fes_flush (restart_of m (w_mod (x_w s) m)) base)
      by (rewrite around_fst; fold s; rewrite buf_process_fes, Hb1; unfold restart_of; rewrite Hsh; reflexivity).
    assert (Hf2 : w_fes (fst (around sc' now m f' w')) = fes_flush (restart_of m (w_mod (x_w s') m)) base)
      by (rewrite around_fst; fold s'; rewrite buf_process_fes, Hb2; unfold restart_of; rewrite Hsh'; reflexivity).
    assert (Ecs : consumed now (set_nw (w_mod (x_w s) m) (nw_after (w_mod (x_w s) m))) =
                  consumed now (set_nw (w_mod (x_w s') m) (nw_after (w_mod (x_w s') m))))
      by (unfold consumed; cbn [inc bud nw hnd catchf set_nw]; rewrite vi, vbu, vtp, vc, Enw; reflexivity).
    destruct (shut (w_mod (x_w s) m)) as [r|] eqn:Es.
    + (* a request was pending: both consume it, the worlds are equal again *)
      assert (Er : restart_of m (w_mod (x_w s') m) = restart_of m (w_mod (x_w s) m)) by (unfold restart_of; rewrite vs, Es; reflexivity).
      assert (Tb : f_tcur base = f_tcur (w_fes w)) by (unfold base; rewrite !fes_flush_tcur; reflexivity).
      split; [left|rewrite Hf1, Hf2, !fes_flush_tcur; repeat split; try exact Tb; apply WF_flush, Wb].
      constructor; [|rewrite Hf1, Hf2, Er; reflexivity|split; apply around_glob].
      intros j. destruct (N.eq_dec j m) as [->|Hj]; [rewrite Hm1, Hm2; exact Ecs|apply Hoth, Hj].
    + (* no request: the panicking run keeps a dead module, the quiet run shuts it down for good *)
      assert (Er1 : restart_of m (w_mod (x_w s) m) = []) by (unfold restart_of; rewrite Es; reflexivity).
      assert (Er2 : restart_of m (w_mod (x_w s') m) = []) by (unfold restart_of; rewrite vs; reflexivity).
      rewrite Er1 in Hf1. rewrite Er2 in Hf2. cbn [fes_flush fold_left] in Hf1, Hf2.
      assert (Tb : f_tcur base = f_tcur (w_fes w)) by (unfold base; rewrite !fes_flush_tcur; reflexivity).
      split; [right|rewrite Hf1, Hf2; auto].
      constructor; [exact Hoth| | |split; apply around_glob|rewrite Hf1, Hf2; apply FesRel_refl|rewrite Hf1, Hf2; auto
                   |rewrite Hf1, Hf2; apply N.le_refl|rewrite Hm2; reflexivity].
      * rewrite Hm1, Hm2. cbn [active set_nw consumed]. auto.
      * rewrite Hm1, Hm2. cbn [shut set_nw consumed]. auto.
Qed.

End SilentRel.
