(* The life-cycle event loop of Life/Sim.v over an ARBITRARY event-set implementation, and its
   instance over the calendar queue of des-cqueue (CQueue/Model.v [cq]).

   Life/Sim.v threads the two-list SPECIFICATION of the event set ([fes]) through the world; the real
   crate runs on the calendar queue.  Here every function of Sim.v that touches the event set
   (deactivate, buf_process / shutdown_part, around, process, the start-up sweep, tear-down, the main
   loop, the initial injections) is restated over a pair (world, Q) in which the event set is the
   component of type Q, used only through [q_add] and [q_fetch].  The callbacks themselves
   (handle_message, async_wakeup, module_restart, at_sim_start, at_sim_end, activate) are the ones of
   Sim.v: they never touch the event set.  The [w_fes] field of the world component is dead here:
   it is [fnil] from the start and nothing below reads or writes it.

   Life/CqSim.v proves that the generic loop produces the result of Sim.run_script for every
   implementation that simulates [fes_add] (for adds that are not before the clock) and [fes_fetch];
   Life/CqInst.v instantiates this with the calendar queue through the refinement relation R of C01. *)
From Coq Require Import List NArith PArith Bool.
From DesVerif Require Import Common.Fuel CQueue.Model Life.Model.
Import ListNotations.
Open Scope N_scope.

Definition fnil : fes := {| f_tcur := 0; f_zero := []; f_rest := [] |}.

Section Gen.
Variable Q : Type.
Variable q_add : N -> fev -> Q -> Q.
Variable q_fetch : Q -> option (N * fev * Q).

Definition q_flush (ps : list (N * fev)) (q : Q) : Q := fold_left (fun q p => q_add (fst p) (snd p) q) ps q.

Definition gworld := (world * Q)%type.

(* ModuleRef::deactivate *)
Definition gdeactivate (m : N) (g : gworld) : gworld :=
  let x := w_mod (fst g) m in
  match timers x with
  | (t, _) :: _ => if lt_nw t (nw x)
                   then (set_cur (set_mod (fst g) m (set_nw x (Some t))) None, q_add t (EvWake m) (snd g))
                   else (set_cur (fst g) None, snd g)
  | [] => (set_cur (fst g) None, snd g)
  end.

(* buf_process, second half *)
Definition gshutdown_part (c : modcfg) (now m : N) (g : gworld) : gworld * list item :=
  let w := fst g in
  let x := w_mod w m in
  match shut x with
  | None => (g, [])
  | Some r =>
    let x1 := {| active := false; inc := inc x + 1; bud := bud x; shut := None; nw := nw_bump now (nw x);
                 timers := []; ready := []; hnd := hnd x; catchf := catchf x |} in
    let w2 := set_fin (set_mod w m x1) (w_fin w ++ map (fun id => (m, inc x, id, 2)) (dropped c x)) in
    let q3 := match r with Some t => q_add t (EvRestart m) (snd g) | None => snd g end in
    ((if c_rsend c then set_err w2 (w_err w2 ++ [(0, m)]) else w2, q3),
     cancelled m c x ++ [IReset m now (inc x + 1)] ++ rpanic c m)
  end.

(* buf_process: the buffered events go into the event set in order *)
Definition gbuf_process (c : modcfg) (now m : N) (g : gworld) : gworld * list item :=
  gshutdown_part c now m (set_buf (fst g) [], q_flush (w_buf (fst g)) (snd g)).

Definition garound (sc : script) (now m : N) (f : xs -> xs) (g : gworld) : gworld * list item :=
  let s := f {| x_w := activate now m (fst g); x_log := [] |} in
  let '(g', l) := gbuf_process (cfg sc m) now m (gdeactivate m (x_w s, snd g)) in
  (g', x_log s ++ l).

Definition gprocess (sc : script) (g : gworld) (t : N) (ev : fev) : gworld * list item :=
  let k := nmods sc in
  match ev with
  | EvExit m far x =>
    (match walk k (fst g) m far with Some dst => (fst g, q_add t (EvDeliver dst x) (snd g)) | None => g end, [])
  | EvDeliver m x => garound sc t m (handle_message k (cfg sc m) t m x) g
  | EvWake m => garound sc t m (async_wakeup k t m) g
  | EvRestart m => garound sc t m (module_restart k (cfg sc m) t m) g
  end.

Definition gstart_one (sc : script) (stage m : N) (acc : gworld * list erec) : gworld * list erec :=
  let '(g, tr) := acc in
  if (stage <? c_stages (cfg sc m)) && active (w_mod (fst g) m) then
    let '(g', l) := garound sc 0 m (fun s => fst (at_sim_start (nmods sc) (cfg sc m) 0 m stage s)) g in
    (g', tr ++ [{| e_kind := KStart stage m; e_time := 0; e_items := l |}])
  else acc.

Definition gsim_start (sc : script) (g : gworld) : gworld * list erec :=
  fold_left (fun acc stage => fold_left (fun acc m => gstart_one sc stage m acc) (mods sc) acc)
            (stage_list (max_stage sc)) (g, []).

Definition gend_one (sc : script) (now m : N) (acc : gworld * list erec) : gworld * list erec :=
  let '(g, tr) := acc in
  let s := at_sim_end (nmods sc) (cfg sc m) now m {| x_w := activate now m (fst g); x_log := [] |} in
  (gdeactivate m (x_w s, snd g), tr ++ [{| e_kind := KEnd m; e_time := now; e_items := x_log s |}]).

Definition gsim_end (sc : script) (now : N) (g : gworld) : gworld * list erec :=
  fold_left (fun acc m => gend_one sc now m acc) (mods sc) (g, []).

Definition glstate := (gworld * N * list erec)%type.

(* Runtime::run main loop: fetch_next until the event set is empty *)
Definition gloop_step (sc : script) (st : glstate) : glstate + glstate :=
  let '(g, now, tr) := st in
  match q_fetch (snd g) with
  | None => inr st
  | Some (t, ev, q') =>
    let '(g', l) := gprocess sc (fst g, q') t ev in
    inl (g', t, tr ++ [{| e_kind := KLoop ev; e_time := t; e_items := l ++ [ISample t (mask sc (fst g'))] |}])
  end.

Definition ginit_world (q0 : Q) (sc : script) : gworld :=
  ({| w_fes := fnil; w_mod := fun m => mst0 (cfg sc m); w_err := []; w_cur := None; w_buf := []; w_fin := [] |},
   q_flush (map (fun p => (fst p, inj_ev (snd p))) (s_inj sc)) q0).

Definition grun_script (q0 : Q) (sc : script) : result :=
  let '(g0, tr0) := gsim_start sc (ginit_world q0 sc) in
  let boot := {| e_kind := KBoot; e_time := 0; e_items := [ISample 0 (mask sc (fst g0))] |} in
  match iter_until (fuel sc) (gloop_step sc) (g0, 0, tr0 ++ [boot]) with
  | inr (g, now, tr) => let '(g', tr') := gsim_end sc now g in
                        {| r_trace := tr ++ tr'; r_err := w_err (fst g'); r_ok := true |}
  | inl (g, _, tr) => {| r_trace := tr; r_err := w_err (fst g); r_ok := false |}
  end.
End Gen.

(* ---- the instance: the calendar queue of des-cqueue, with the events kept in a store ----
   The queue holds (time, id, payload) entries; the payload of an entry is the index of its event in
   the store (the real queue holds the event itself: the store only gives the Coq queue, which is
   monomorphic in N, something to carry). *)
Definition cqs := (cq * list fev)%type.

(* CQueue::add(time, event) *)
Definition cq_add (t : N) (e : fev) (qs : cqs) : cqs :=
  (fst (fst (add (fst qs) t (N.of_nat (length (snd qs))))), snd qs ++ [e]).

(* while !fes.is_empty() { fes.fetch_next() .. } *)
Definition cq_fetch (qs : cqs) : option (N * fev * cqs) :=
  if qlen (fst qs) =? 0 then None
  else match fetch_next (fst qs) with
       | (q', OFetched p t) => Some (t, nth (N.to_nat p) (snd qs) (EvWake 0), (q', snd qs))
       | _ => None
       end.

(* CQueue::new(n, t) at time 0: n buckets of width t *)
Definition cq_init (n t : N) : cqs := (cq_new_at n t 0, []).

Definition run_script_cq (n t : N) (sc : script) : result := grun_script cqs cq_add cq_fetch (cq_init n t) sc.
Definition trace_cq (n t : N) (sc : script) : list erec := r_trace (run_script_cq n t sc).
Definition flat_log_cq (n t : N) (sc : script) : list item := flat_map e_items (trace_cq n t sc).

(* the wire format of Model.run, for a given parameterisation of the calendar queue *)
Definition run_cq (n t : N) (input : list N) : list N :=
  let sc := decode input in
  let o := enc_result (run_script_cq n t sc) in
  o ++ [17; 0; 0; 0; 0] ++ o ++
  match variant input with
  | Some m => [18; m; 0; 0; 0] ++ enc_result (run_script_cq n t (quieten m sc))
  | None => []
  end.
