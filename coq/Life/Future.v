(* Nothing is scheduled into the past.  Along a run (start-up sweep at time 0, then the event loop) the event set is
   well formed, its clock is the time of the last dispatched event, and every queued event lies at or after it;
   timer queues are sorted.  Hence the horizon [L] -- the later of the clock and the latest queued event -- never
   decreases, and the run ends exactly at its final horizon. *)
From Coq Require Import List NArith Bool Lia Sorted.
From DesVerif Require Import Common.Fuel Life.Model Life.Base Life.Step Life.Trace Life.Restart Life.Agree Life.Strip Life.Wake.
Import ListNotations.
Open Scope N_scope.

(* ---- the horizon of an event set ---- *)
Fixpoint tmaxl (l : list (N * fev)) : N := match l with [] => 0 | p :: r => N.max (fst p) (tmaxl r) end.
Definition L (f : fes) : N := N.max (f_tcur f) (tmaxl (fes_order f)).

Lemma tmaxl_app a b : tmaxl (a ++ b) = N.max (tmaxl a) (tmaxl b).
Proof. induction a as [|p a IH]; cbn [app tmaxl]; [lia|]. rewrite IH. lia. Qed.

Lemma tmaxl_ge l p : In p l -> fst p <= tmaxl l.
Proof. induction l as [|q l IH]; intros H; [destruct H|]. cbn [tmaxl]. destruct H as [->|H]; [lia|specialize (IH H); lia]. Qed.

Lemma L_add t e f : L (fes_add t e f) = N.max (L f) t.
Proof.
  unfold L. rewrite fes_add_tcur. destruct (fes_add_order t e f) as (l1 & l2 & E1 & E2). rewrite E1, E2, !tmaxl_app.
  cbn [tmaxl fst]. lia.
Qed.

Lemma L_flush : forall l f, L (fes_flush l f) = N.max (L f) (tmaxl l).
Proof.
  induction l as [|p l IH]; intros f; cbn [fes_flush fold_left tmaxl]; [lia|].
  fold (fes_flush l (fes_add (fst p) (snd p) f)). rewrite IH, L_add. lia.
Qed.

Lemma L_flush_mono l f f' : L f' <= L f -> L (fes_flush l f') <= L (fes_flush l f).
Proof. intros H. rewrite !L_flush. lia. Qed.

(* fetching never raises the horizon ... *)
Lemma L_fetch_le f t ev f1 : fes_fetch f = Some (t, ev, f1) -> L f1 <= L f.
Proof.
  unfold fes_fetch, L, fes_order. destruct (f_zero f) as [|x z] eqn:Ez.
  - destruct (f_rest f) as [|x r] eqn:Er; [discriminate|]. intros H. injection H as -> <-. cbn [f_tcur f_zero f_rest app tmaxl fst].
    lia.
  - intros H. injection H as -> <-. cbn [f_tcur f_zero f_rest app tmaxl]. lia.
Qed.

(* ... and keeps it when no queued event lies before the clock *)
Lemma L_fetch_eq f t ev f1 : WF f -> (forall p, In p (fes_order f) -> f_tcur f <= fst p) ->
  fes_fetch f = Some (t, ev, f1) -> L f1 = L f.
Proof.
  intros [Wz Ws] Hfut. unfold fes_fetch, L, fes_order in *. destruct (f_zero f) as [|x z] eqn:Ez.
  - destruct (f_rest f) as [|x r] eqn:Er; [discriminate|]. intros H. injection H as -> <-. cbn [f_tcur f_zero f_rest app tmaxl fst].
    specialize (Hfut (t, ev) (or_introl eq_refl)). cbn [fst] in Hfut. lia.
  - intros H. injection H as -> <-. cbn [f_tcur f_zero f_rest app tmaxl].
    inversion Wz; subst. cbn [fst] in *. lia.
Qed.

Lemma L_empty f : fes_fetch f = None -> L f = f_tcur f.
Proof. intros H. unfold L. rewrite (fetch_none_order f H). cbn. lia. Qed.

(* ---- inside a callback of module j at time [now]: buffered events, new timers and a requested restart lie ahead ---- *)
Definition tm_le (a b : N * task) : Prop := fst a <= fst b.
Definition shut_ok (now : N) (s : option (option N)) : Prop := match s with Some (Some t) => now <= t | _ => True end.

Record FC (now j : N) (s : xs) : Prop := {
  fc_buf : Forall (fun p => now <= fst p) (w_buf (x_w s));
  fc_tm : Forall (fun p : N * task => now < fst p) (timers (w_mod (x_w s) j));
  fc_sorted : StronglySorted tm_le (timers (w_mod (x_w s) j));
  fc_shut : shut_ok now (shut (w_mod (x_w s) j)) }.

Lemma FC_same now j s s' : w_buf (x_w s') = w_buf (x_w s) -> timers (w_mod (x_w s') j) = timers (w_mod (x_w s) j) ->
  shut (w_mod (x_w s') j) = shut (w_mod (x_w s) j) -> FC now j s -> FC now j s'.
Proof. intros A B C [a b c d]. constructor; rewrite ?A, ?B, ?C; assumption. Qed.

Lemma FC_say now j i s : FC now j s -> FC now j (say i s).
Proof. apply FC_same; reflexivity. Qed.

Lemma FC_say_all now j l s : FC now j s -> FC now j (say_all l s).
Proof. apply FC_same; reflexivity. Qed.

Ltac fcs := cbv beta; unfold spend, request, buf_schedule_at, buf_push; wsimpl; rewrite ?N.eqb_refl; wsimpl; try reflexivity.

Lemma FC_push now j p s : now <= fst p -> FC now j s -> FC now j (on_w (buf_push p) s).
Proof. intros H [a b c d]. constructor; try assumption. unfold buf_push. wsimpl. apply Forall_app. split; [exact a|constructor; [exact H|constructor]]. Qed.

Lemma FC_spend now j s : FC now j s -> FC now j (on_w (spend j) s).
Proof. apply FC_same; fcs. Qed.

Lemma FC_send k now j far d x s : FC now j s -> FC now j (on_w (fun w => buf_send_at k now j far d x (spend j w)) s).
Proof.
  intros [a b c e].
  assert (Hm : forall w, w_mod (buf_send_at k now j far d x w) j = w_mod w j)
    by (intros w; unfold buf_send_at; destruct (d =? 0); [destruct (walk k w j far)|]; reflexivity).
  constructor; cbn [on_w x_w]; rewrite ?Hm; unfold spend; wsimpl; rewrite ?N.eqb_refl; wsimpl; try assumption.
  unfold buf_send_at, buf_push. destruct (d =? 0); [destruct (walk k _ j far)|]; wsimpl; try exact a;
    (apply Forall_app; split; [exact a|constructor; [cbn [fst]; lia|constructor]]).
Qed.

Lemma do_act_FC k now j who a s : FC now j s -> FC now j (do_act k now j who a s).
Proof.
  intros H. destruct a; cbn [do_act]; try exact H; try (destruct (broke j s); [exact H|]); apply FC_say.
  - exact H.
  - apply FC_send, H.
  - change (on_w (fun w => buf_schedule_at now j d x (spend j w)) s) with (on_w (buf_push (now + d, EvDeliver j x)) (on_w (spend j) s)).
    apply FC_push; [cbn [fst]; lia|apply FC_spend, H].
  - destruct H as [a b c d]. constructor; fcs; try assumption; try exact I.
  - destruct H as [a b c d0]. constructor; fcs; try assumption; try (cbn [shut_ok]; lia).
  - revert H. apply FC_same; fcs.
Qed.

Lemma quiet_FC now j s : FC now j s -> FC now j (quiet j s).
Proof.
  intros H. unfold quiet. apply FC_say. destruct (shut (w_mod (x_w s) j)) eqn:E; [exact H|].
  destruct H as [a b c d]. constructor; fcs; try assumption; try exact I.
Qed.

Lemma run_prog_FC tk k now j who : forall p s, FC now j s -> FC now j (fst (run_prog tk k now j who p s)).
Proof.
  induction p as [|a p IH]; intros s H; cbn [run_prog fst]; [exact H|].
  destruct a; try (apply IH, do_act_FC, H).
  - destruct (tk && (0 <? d)); [exact H|apply IH, H].
  - cbn [fst]. apply FC_say, H.
  - destruct tk; [apply IH, H|apply quiet_FC, H].
Qed.

Lemma run_prog_sleep_pos tk k now j who : forall p s d r, snd (run_prog tk k now j who p s) = RSleep d r -> 0 < d.
Proof.
  induction p as [|a p IH]; intros s d r; cbn [run_prog snd]; [discriminate|].
  destruct a; try apply IH; try discriminate.
  - destruct (tk && (0 <? d0)) eqn:E; cbn [snd]; [|apply IH]. intros H. injection H as <- _. apply andb_prop in E. apply N.ltb_lt, E.
  - destruct tk; cbn [snd]; [apply IH|discriminate].
Qed.

Lemma tins_sorted t tk : forall l, StronglySorted tm_le l -> StronglySorted tm_le (tins t tk l).
Proof.
  induction 1 as [|x r Hs IH Hf]; cbn [tins]; [repeat constructor|].
  destruct (t <? fst x) eqn:E.
  - apply N.ltb_lt in E. constructor; [constructor; assumption|]. constructor; [unfold tm_le; cbn [fst]; lia|].
    eapply Forall_impl; [|exact Hf]. intros y Hy. unfold tm_le in *. cbn [fst]. lia.
  - apply N.ltb_ge in E. constructor; [exact IH|]. clear IH Hs.
    assert (G : forall y, In y (tins t tk r) -> y = (t, tk) \/ In y r).
    { clear. induction r as [|z r IH]; cbn [tins]; intros y Hy; [destruct Hy as [<-|[]]; auto|].
      destruct (t <? fst z); cbn [In] in *; [intuition auto|]. destruct Hy as [<-|Hy]; [auto|]. destruct (IH y Hy); auto. }
    apply Forall_forall. intros y Hy. destruct (G y Hy) as [->|Hin]; [unfold tm_le; cbn [fst]; lia|].
    rewrite Forall_forall in Hf. apply Hf, Hin.
Qed.

Lemma tins_forall (P : N * task -> Prop) t tk : forall l, P (t, tk) -> Forall P l -> Forall P (tins t tk l).
Proof.
  induction l as [|x l IH]; intros Hp Hl; cbn [tins]; [constructor; [exact Hp|constructor]|].
  inversion Hl; subst. destruct (t <? fst x); [constructor; [exact Hp|exact Hl]|constructor; [assumption|apply IH; assumption]].
Qed.

Lemma end_task_FC now j how s tk : FC now j s -> FC now j (end_task j how s tk).
Proof. intros H. unfold end_task. apply FC_say. revert H. apply FC_same; reflexivity. Qed.

Lemma fold_end_task_FC now j : forall l s, FC now j s -> FC now j (fold_left (end_task j 0) l s).
Proof. induction l as [|tk l IH]; intros s H; cbn [fold_left]; [exact H|]. apply IH, end_task_FC, H. Qed.

Lemma poll1_FC k now j s tk : FC now j s -> FC now j (poll1 k now j s tk).
Proof.
  intros H. unfold poll1.
  match goal with |- context [run_prog true k now j ?who ?p ?s0] =>
    pose proof (run_prog_FC true k now j who p s0 (FC_say now j _ s H)) as H1;
    pose proof (run_prog_sleep_pos true k now j who p s0) as Hp; destruct (run_prog true k now j who p s0) as [s1 r] end.
  cbn [fst snd] in H1, Hp. destruct r; try (apply end_task_FC, H1).
  specialize (Hp d rest eq_refl). destruct H1 as [a b c e]. constructor; fcs; try assumption.
  - apply tins_forall; [cbn [fst]; lia|exact b].
  - apply tins_sorted, c.
Qed.

Lemma fold_poll1_FC k now j : forall l s, FC now j s -> FC now j (fold_left (poll1 k now j) l s).
Proof. induction l as [|tk l IH]; intros s H; cbn [fold_left]; [exact H|]. apply IH, poll1_FC, H. Qed.

Lemma poll_ready_FC k now j s : FC now j s -> FC now j (poll_ready k now j s).
Proof. intros H. unfold poll_ready. apply fold_poll1_FC. revert H. apply FC_same; fcs. Qed.

Lemma exec_FC k now j c sp p s : FC now j s -> FC now j (fst (exec k now j c sp p s)).
Proof.
  intros H. unfold exec.
  match goal with |- context [run_prog false k now j 0 p ?s0] =>
    assert (H0 : FC now j s0) by (apply FC_say_all; revert H; apply FC_same; unfold spawn_all; fcs);
    pose proof (run_prog_FC false k now j 0 p s0 H0) as H1; destruct (run_prog false k now j 0 p s0) as [s2 r] end.
  cbn [fst] in H1. destruct r; cbn [fst]; try exact H1; try (apply poll_ready_FC, H1).
  apply fold_end_task_FC. revert H1. apply FC_same; fcs.
Qed.

Lemma catch_FC now c j p s : FC now j s -> FC now j {| x_w := fst (catch c j p (x_w s)); x_log := x_log s |}.
Proof.
  apply FC_same; unfold catch; destruct p; try reflexivity; destruct (catchf (w_mod (x_w s) j)); cbn [fst]; fcs.
Qed.

Lemma at_sim_start_FC k c now j stage s : FC now j s -> FC now j (fst (at_sim_start k c now j stage s)).
Proof.
  intros H. unfold at_sim_start.
  assert (G : forall sp p, FC now j (fst (let '(s1, pn) := exec k now j (CbStart stage) sp p s in
                                          let '(w2, e) := catch c j pn (x_w s1) in ({| x_w := w2; x_log := x_log s1 |}, e)))).
  { intros sp p. pose proof (exec_FC k now j (CbStart stage) sp p s H) as H1. destruct (exec k now j (CbStart stage) sp p s) as [s1 pn].
    cbn [fst] in H1. pose proof (catch_FC now c j pn s1 H1) as H2. destruct (catch c j pn (x_w s1)) as [w2 e]. exact H2. }
  destruct (stage =? 0); apply G.
Qed.

Lemma restart_fold_FC k c now j : forall l s b, FC now j s ->
  FC now j (fst (fold_left (fun (acc : xs * bool) stage => if snd acc then acc else restart_stage k c now j stage (fst acc)) l (s, b))).
Proof.
  induction l as [|st l IH]; intros s b H; cbn [fold_left fst snd]; [exact H|].
  destruct b; [apply IH, H|]. unfold restart_stage. apply IH, at_sim_start_FC, H.
Qed.

Lemma module_restart_FC k c now j s : FC now j s -> FC now j (module_restart k c now j s).
Proof. intros H. unfold module_restart. apply restart_fold_FC. revert H. apply FC_same; fcs. Qed.

Lemma handle_message_FC k c now j x s : FC now j s -> FC now j (handle_message k c now j x s).
Proof.
  intros H. unfold handle_message. destruct (active (w_mod (x_w s) j)); [|exact H].
  pose proof (exec_FC k now j (CbMsg x) [] (pick_msg c x) s H) as H1. destruct (exec k now j (CbMsg x) [] (pick_msg c x) s) as [s1 pn].
  apply catch_FC, H1.
Qed.

Lemma async_wakeup_FC k now j s : FC now j s -> FC now j (async_wakeup k now j s).
Proof. intros H. unfold async_wakeup. destruct (active (w_mod (x_w s) j)); [apply poll_ready_FC, H|exact H]. Qed.

(* ---- the world between two events ---- *)
Record FW (now : N) (w : world) : Prop := {
  fw_wf : WF (w_fes w);
  fw_clock : f_tcur (w_fes w) = now;
  fw_fut : forall p, InF p (w_fes w) -> now <= fst p;
  fw_sorted : forall j, StronglySorted tm_le (timers (w_mod w j));
  fw_buf : w_buf w = [];
  fw_shut : forall j, shut (w_mod w j) = None }.

Lemma split_due_gt now : forall l d q, StronglySorted tm_le l -> split_due now l = (d, q) ->
  Forall (fun p : N * task => now < fst p) q /\ StronglySorted tm_le q.
Proof.
  induction l as [|x l IH]; intros d q Hs; cbn [split_due].
  - intros H. injection H as <- <-. split; constructor.
  - inversion Hs as [|y r Hs' Hf]; subst. destruct (fst x <=? now) eqn:E.
    + destruct (split_due now l) as [d0 q0] eqn:Es. intros H. injection H as <- <-. apply (IH d0 q0 Hs' eq_refl).
    + intros H. injection H as <- <-. apply N.leb_gt in E. split; [|exact Hs]. constructor; [exact E|].
      eapply Forall_impl; [|exact Hf]. intros y Hy. unfold tm_le in Hy. lia.
Qed.

(* what one module event adds to the event set *)
Lemma around_adds sc now i f w : CbOK i f -> w_buf w = [] ->
  let s := f {| x_w := activate now i w; x_log := [] |} in
  w_fes (fst (around sc now i f w)) =
  fes_flush (wake_of i (w_mod (x_w s) i) ++ w_buf (x_w s) ++ restart_of i (w_mod (deactivate i (x_w s)) i)) (w_fes w).
Proof.
  intros Hok Hb s. unfold around. fold s.
  destruct (Hok {| x_w := activate now i w; x_log := [] |}) as [[_ Ff _ _ _ _] _]. fold s in Ff. cbn [x_w] in Ff. rewrite activate_fes in Ff.
  unfold buf_process, shutdown_part, restart_of. cbn [w_mod set_buf set_fes].
  rewrite !fes_flush_app, deactivate_buf, deactivate_fes, Ff.
  destruct (shut (w_mod (deactivate i (x_w s)) i)) as [[t|]|]; cbn [fst]; rewrite ?ifse_fes; reflexivity.
Qed.

Lemma deactivate_self m w : exists n, w_mod (deactivate m w) m = set_nw (w_mod w m) n.
Proof.
  unfold deactivate. destruct (timers (w_mod w m)) as [|[t tk] r].
  - exists (nw (w_mod w m)). cbn [w_mod set_cur]. destruct (w_mod w m); reflexivity.
  - destruct (lt_nw t (nw (w_mod w m))).
    + exists (Some t). cbn [w_mod set_cur set_fes set_mod]. rewrite N.eqb_refl. reflexivity.
    + exists (nw (w_mod w m)). cbn [w_mod set_cur]. destruct (w_mod w m); reflexivity.
Qed.

(* module i after its own event: either untouched apart from next_wakeup, or reset *)
Lemma around_self sc now i f w :
  let s := f {| x_w := activate now i w; x_log := [] |} in
  (timers (w_mod (fst (around sc now i f w)) i) = timers (w_mod (x_w s) i) \/ timers (w_mod (fst (around sc now i f w)) i) = []) /\
  (shut (w_mod (fst (around sc now i f w)) i) = None) /\
  shut (w_mod (deactivate i (x_w s)) i) = shut (w_mod (x_w s) i).
Proof.
  intros s. unfold around. fold s. destruct (deactivate_self i (x_w s)) as (n & Hd).
  unfold buf_process, shutdown_part. cbn [w_mod set_buf set_fes]. rewrite Hd. cbn [shut set_nw].
  destruct (shut (w_mod (x_w s) i)) as [r|] eqn:Es; cbn [fst].
  - rewrite ifse_mod. split; [right|split; [|reflexivity]]; destruct r; cbn [w_mod set_fes set_fin set_mod]; rewrite N.eqb_refl; reflexivity.
  - split; [left|split; [|reflexivity]]; cbn [w_mod set_buf set_fes]; rewrite Hd; cbn [timers shut set_nw]; [reflexivity|exact Es].
Qed.

Lemma around_FW sc now i f w : FW now w -> CbOK i f -> (forall s, FC now i s -> FC now i (f s)) ->
  FW now (fst (around sc now i f w)) /\ L (w_fes w) <= L (w_fes (fst (around sc now i f w))).
Proof.
  intros [Wf Hc Hfut Hso Hb Hsh] Hok Hfc.
  pose proof (around_adds sc now i f w Hok Hb) as Ha. pose proof (around_self sc now i f w) as (Sa & Sb & Sc). cbv zeta in Ha, Sa, Sb, Sc.
  set (s := f {| x_w := activate now i w; x_log := [] |}) in *.
  assert (H0 : FC now i {| x_w := activate now i w; x_log := [] |}).
  { unfold activate. destruct (split_due now (timers (w_mod w i))) as [d q] eqn:Es.
    destruct (split_due_gt now _ d q (Hso i) Es) as [Q1 Q2].
    constructor; cbn [x_w w_buf w_mod set_cur set_mod]; rewrite ?N.eqb_refl; cbn [timers shut set_nw set_ready set_timers].
    - rewrite Hb. constructor.
    - exact Q1.
    - exact Q2.
    - rewrite Hsh. exact I. }
  destruct (Hfc _ H0) as [Fb Ft Fs Fsh]. fold s in Fb, Ft, Fs, Fsh.
  assert (Hadds : Forall (fun p => now <= fst p) (wake_of i (w_mod (x_w s) i) ++ w_buf (x_w s) ++ restart_of i (w_mod (deactivate i (x_w s)) i))).
  { apply Forall_app. split; [|apply Forall_app; split; [exact Fb|]].
    - unfold wake_of. destruct (timers (w_mod (x_w s) i)) as [|[t tk] r]; [constructor|]. destruct (lt_nw t (nw (w_mod (x_w s) i))); [|constructor].
      inversion Ft; subst. cbn [fst] in *. constructor; [cbn [fst]; lia|constructor].
    - unfold restart_of. rewrite Sc. unfold shut_ok in Fsh. destruct (shut (w_mod (x_w s) i)) as [[t|]|]; constructor; [exact Fsh|constructor]. }
  split.
  - constructor.
    + rewrite Ha. apply WF_flush, Wf.
    + rewrite Ha, fes_flush_tcur. exact Hc.
    + intros p Hp. unfold InF in *. rewrite Ha in Hp. apply InF_flush in Hp. destruct Hp as [Hp|Hp]; [|apply Hfut, Hp].
      rewrite Forall_forall in Hadds. apply Hadds, Hp.
    + intros j. destruct (N.eq_dec j i) as [->|Hj]; [|rewrite (around_oth sc now i f w j Hok Hj); apply Hso].
      destruct Sa as [-> | ->]; [exact Fs|constructor].
    + apply around_glob.
    + intros j. destruct (N.eq_dec j i) as [->|Hj]; [exact Sb|rewrite (around_oth sc now i f w j Hok Hj); apply Hsh].
  - rewrite Ha, L_flush. lia.
Qed.

(* the start-up sweep and the event loop *)
Lemma start_one_FW sc stage m acc : FW 0 (fst acc) -> FW 0 (fst (start_one sc stage m acc)).
Proof.
  intros H. destruct acc as [w tr]. rewrite start_one_eq. cbn [fst] in *.
  destruct ((stage <? c_stages (cfg sc m)) && active (w_mod w m)); [|exact H]. cbn [fst]. unfold start_rec. cbn [fst].
  apply around_FW; [exact H|apply start_cb_ok|intros s; apply at_sim_start_FC].
Qed.

Lemma sim_start_FW sc : FW 0 (fst (sim_start sc (init_world sc))).
Proof.
  unfold sim_start.
  assert (G : forall stages acc, FW 0 (fst acc) ->
    FW 0 (fst (fold_left (fun acc stage => fold_left (fun acc m => start_one sc stage m acc) (mods sc) acc) stages acc))).
  { induction stages as [|st stages IH]; intros acc H; cbn [fold_left]; [exact H|]. apply IH.
    generalize (mods sc). intros ms. revert acc H. induction ms as [|m ms IHm]; intros acc H; cbn [fold_left]; [exact H|].
    apply IHm, start_one_FW, H. }
  apply G. cbn [fst]. unfold init_world. constructor; cbn [w_fes w_mod w_buf].
  - apply WF_flush. constructor; cbn; constructor.
  - rewrite fes_flush_tcur. reflexivity.
  - intros p _. lia.
  - intros j. constructor.
  - reflexivity.
  - intros j. reflexivity.
Qed.

(* one dispatched event: the clock moves to the event's time, the horizon does not decrease *)
Lemma loop_FW sc now w t ev f : FW now w -> fes_fetch (w_fes w) = Some (t, ev, f) ->
  FW t (fst (loop_rec sc (set_fes w f) t ev)) /\ L (w_fes w) <= L (w_fes (fst (loop_rec sc (set_fes w f) t ev))) /\ L f = L (w_fes w).
Proof.
  intros HW Hf. pose proof HW as [Wf Hc Hfut Hso Hb Hsh].
  destruct (WF_fetch _ _ _ _ Wf Hf) as [W1 Et].
  assert (HL : L f = L (w_fes w)) by (apply (L_fetch_eq _ t ev); [exact Wf|rewrite Hc; exact Hfut|exact Hf]).
  pose proof (fes_fetch_order _ _ _ _ Hf) as Ho.
  assert (Hmin : forall p, InF p f -> t <= fst p).
  { intros p Hp. unfold InF in Hp. destruct Wf as [Wz Ws]. unfold fes_fetch in Hf. unfold fes_order in *.
    destruct (f_zero (w_fes w)) as [|x z] eqn:Ez.
    - destruct (f_rest (w_fes w)) as [|x r] eqn:Er; [discriminate|]. injection Hf as -> <-. cbn [f_zero f_rest app] in Hp.
      inversion Ws as [|y r' _ Hall]; subst. rewrite Forall_forall in Hall. specialize (Hall p Hp). unfold time_le in Hall. exact Hall.
    - injection Hf as -> <-. cbn [f_zero f_rest] in Hp. inversion Wz; subst. cbn [fst] in *.
      assert (Hin : InF p (w_fes w)) by (unfold InF, fes_order; rewrite Ez; cbn [app]; right; exact Hp).
      specialize (Hfut p Hin). lia. }
  assert (HW1 : FW t (set_fes w f)).
  { constructor; cbn [w_fes w_mod w_buf set_fes]; assumption. }
  assert (Hres : FW t (fst (process sc (set_fes w f) t ev)) /\ L f <= L (w_fes (fst (process sc (set_fes w f) t ev)))).
  { destruct ev as [m far x|m x|m|m]; cbn [process].
    - cbn [fst]. destruct (walk (nmods sc) (set_fes w f) m far); [|split; [exact HW1|cbn [w_fes set_fes]; lia]].
      split; [|cbn [w_fes set_fes]; rewrite L_add; lia].
      destruct HW1 as [a b c d e g]. constructor; cbn [w_fes w_mod w_buf set_fes] in *; try assumption.
      + apply WF_add, a.
      + rewrite fes_add_tcur. exact b.
      + intros p Hp. apply InF_add in Hp. destruct Hp as [->|Hp]; [cbn [fst]; lia|apply c, Hp].
    - apply (around_FW sc t m _ (set_fes w f) HW1); [apply handle_message_ok|intros s; apply handle_message_FC].
    - apply (around_FW sc t m _ (set_fes w f) HW1); [apply async_wakeup_ok|intros s; apply async_wakeup_FC].
    - apply (around_FW sc t m _ (set_fes w f) HW1); [apply module_restart_ok|intros s; apply module_restart_FC]. }
  unfold loop_rec. cbn [fst]. destruct Hres as [R1 R2]. split; [exact R1|split; [rewrite <- HL; exact R2|exact HL]].
Qed.

Lemma loop_step_rec sc w now tr :
  loop_step sc (w, now, tr) =
  match fes_fetch (w_fes w) with
  | None => inr (w, now, tr)
  | Some (t, ev, f1) => inl (fst (loop_rec sc (set_fes w f1) t ev), t, tr ++ [snd (loop_rec sc (set_fes w f1) t ev)])
  end.
Proof.
  unfold loop_step, loop_rec. destruct (fes_fetch (w_fes w)) as [[[t ev] f1]|]; [|reflexivity].
  destruct (process sc (set_fes w f1) t ev). reflexivity.
Qed.

(* the loop ends in such a world: its clock is the end time *)
Lemma iter_FW sc : forall k w now tr wf nf trf, FW now w ->
  iter_nat k (loop_step sc) (w, now, tr) = inr (wf, nf, trf) -> FW nf wf /\ fes_fetch (w_fes wf) = None.
Proof.
  induction k as [|k IH]; intros w now tr wf nf trf H E; cbn [iter_nat] in E; [discriminate|].
  rewrite loop_step_rec in E. destruct (fes_fetch (w_fes w)) as [[[t ev] f1]|] eqn:Hf.
  - apply (IH _ _ _ _ _ _ (proj1 (loop_FW sc now w t ev f1 H Hf)) E).
  - injection E as <- <- <-. auto.
Qed.

(* the end time of a run is its final horizon *)
Lemma end_time_L now w : FW now w -> fes_fetch (w_fes w) = None -> L (w_fes w) = now.
Proof. intros H E. rewrite (L_empty _ E). apply (fw_clock _ _ H). Qed.
